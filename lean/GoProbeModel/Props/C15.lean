import GoProbeModel.Model.C15

/-!
C15 — property theorems: distributed results do not depend on the order in which the hosts reply.

Objects: `C15.runBatch` / `C15.runStream` — the hand model of `aggregateResults` without / with an
sse sender (Model/C15.lean, tied to the code by the correspondence harness, with `Stats.Add`,
`Counters.Add`, `maxLimitStreaming`, `BinTimestamp`, `DefaultTimeResolution` regenerated from the
source), and `C15.specResult` — the judge's order-free executable spec (Spec/C15.lean).

Main results (all for ALL reply lists / ALL permutations, by induction — nothing is sampled):
* `batch_eq_specWith`, `batch_eq_spec`, `batch_eq_spec_partial` — model = spec;
* `spec_perm`, `merge_perm`, `merge_perm_stream`, `merge_perm_any` — order independence;
* `stream_eq_batch` — streaming final result = batch result (no hypothesis);
* `hits_account`, `hits_account_partial`, `hits_binning_counterexample` — hit accounting;
* `errors_reported`, `totals_stats_sum`, `rows_union`, `statsAdd_eq`, `ctrAdd_eq`.
Core Lean only (no Mathlib module is needed).
-/
namespace C15

/-! ## 0. the regenerated addition programs are field-wise sums -/

/-- `(*Counters).Add`, as the source spells it now, adds every counter once -/
theorem ctrAdd_eq (a b : Ctr) : ctrAdd a b = a.add b := by
  cases a; cases b; rfl

/-- **statsAdd_eq** (clause "statistics are the sums"): `(*Stats).Add`, as the source spells it
    now (regenerated `+=` program), adds every field exactly once -/
theorem statsAdd_eq (a b : Stats) : statsAdd a b = a.add b := by
  cases a; cases b; rfl

/-! ## 1. algebra -/

theorem Ctr.add_comm (a b : Ctr) : a.add b = b.add a := by
  simp [Ctr.add, Nat.add_comm]
theorem Ctr.add_assoc (a b c : Ctr) : (a.add b).add c = a.add (b.add c) := by
  simp [Ctr.add, Nat.add_assoc]
theorem Ctr.zero_add (a : Ctr) : Ctr.zero.add a = a := by
  simp [Ctr.add, Ctr.zero]
theorem Ctr.add_zero (a : Ctr) : a.add Ctr.zero = a := by
  simp [Ctr.add, Ctr.zero]
theorem Stats.add_comm (a b : Stats) : a.add b = b.add a := by
  simp [Stats.add, Nat.add_comm]
theorem Stats.add_assoc (a b c : Stats) : (a.add b).add c = a.add (b.add c) := by
  simp [Stats.add, Nat.add_assoc]
theorem Stats.zero_add (a : Stats) : Stats.zero.add a = a := by
  simp [Stats.add, Stats.zero]
theorem Stats.add_zero (a : Stats) : a.add Stats.zero = a := by
  simp [Stats.add, Stats.zero]

theorem minOpt_comm (a b : Option Int) : minOpt a b = minOpt b a := by
  cases a <;> cases b <;> simp [minOpt, Int.min_comm]
theorem minOpt_assoc (a b c : Option Int) : minOpt (minOpt a b) c = minOpt a (minOpt b c) := by
  cases a <;> cases b <;> cases c <;> simp [minOpt, Int.min_assoc]
theorem maxOpt_comm (a b : Option Int) : maxOpt a b = maxOpt b a := by
  cases a <;> cases b <;> simp [maxOpt, Int.max_comm]
theorem maxOpt_assoc (a b c : Option Int) : maxOpt (maxOpt a b) c = maxOpt a (maxOpt b c) := by
  cases a <;> cases b <;> cases c <;> simp [maxOpt, Int.max_assoc]
theorem minOpt_none (a : Option Int) : minOpt a none = a := by cases a <;> rfl
theorem maxOpt_none (a : Option Int) : maxOpt a none = a := by cases a <;> rfl

/-- the time-range update as written is "earliest non-zero First" -/
theorem stepFirst_eq (cur f : Option Int) : stepFirst cur f = minOpt cur f := by
  cases cur <;> cases f <;> simp [stepFirst, minOpt, tsBefore]
  rename_i a b
  split <;> simp <;> omega
/-- … and "latest Last" -/
theorem stepLast_eq (cur la : Option Int) : stepLast cur la = maxOpt cur la := by
  cases cur <;> cases la <;> simp [stepLast, maxOpt, tsBefore]
  rename_i a b
  split <;> simp <;> omega


/-! ## 2. Go maps as association lists -/

section AL
variable {κ ν : Type} [DecidableEq κ]

def keys (m : List (κ × ν)) : List κ := m.map (·.1)

theorem alGet_upsert (m : List (κ × ν)) (k : κ) (f : Option ν → ν) (k' : κ) :
    alGet (alUpsert m k f) k' = if k = k' then some (f (alGet m k)) else alGet m k' := by
  induction m with
  | nil => simp [alUpsert, alGet]
  | cons x m ih =>
    obtain ⟨kx, vx⟩ := x
    by_cases h : kx = k
    · subst h
      by_cases h2 : kx = k' <;> simp [alUpsert, alGet, h2]
    · by_cases h2 : kx = k'
      · subst h2; simp [alUpsert, alGet, h, Ne.symm h]
      · simp [alUpsert, alGet, h, h2, ih]

theorem alGet_none_iff (m : List (κ × ν)) (k : κ) : alGet m k = none ↔ k ∉ keys m := by
  induction m with
  | nil => simp [alGet, keys]
  | cons x m ih =>
    obtain ⟨kx, vx⟩ := x
    by_cases h : kx = k
    · simp [alGet, keys, h]
    · simp only [keys] at ih
      simp [alGet, keys, h, ih, Ne.symm h]

theorem keys_upsert (m : List (κ × ν)) (k : κ) (f : Option ν → ν) :
    keys (alUpsert m k f) = if k ∈ keys m then keys m else keys m ++ [k] := by
  induction m with
  | nil => simp [alUpsert, keys]
  | cons x m ih =>
    obtain ⟨kx, vx⟩ := x
    simp only [keys] at ih
    by_cases h : kx = k
    · simp [alUpsert, keys, h]
    · by_cases hm : k ∈ List.map (fun x => x.fst) m <;>
        simp [alUpsert, keys, h, ih, Ne.symm h, hm]

theorem upsert_absent (m : List (κ × ν)) (k : κ) (f : Option ν → ν) (h : k ∉ keys m) :
    alUpsert m k f = m ++ [(k, f none)] := by
  induction m with
  | nil => simp [alUpsert]
  | cons x m ih =>
    obtain ⟨kx, vx⟩ := x
    simp only [keys, List.map_cons, List.mem_cons, not_or] at h
    have h1 : ¬ kx = k := fun e => h.1 e.symm
    simp [alUpsert, h1, ih (by simpa [keys] using h.2)]

theorem nodup_keys_upsert (m : List (κ × ν)) (k : κ) (f : Option ν → ν) (h : (keys m).Nodup) :
    (keys (alUpsert m k f)).Nodup := by
  rw [keys_upsert]
  split
  · exact h
  · rename_i hk
    exact List.nodup_append.mpr ⟨h, by simp, by intro a ha b hb; simp at hb; subst hb; exact fun e => hk (e ▸ ha)⟩

theorem length_upsert (m : List (κ × ν)) (k : κ) (f : Option ν → ν) :
    (alUpsert m k f).length = if (alGet m k).isSome then m.length else m.length + 1 := by
  have := congrArg List.length (keys_upsert m k f)
  simp only [keys, List.length_map] at this
  rw [this]
  by_cases h : k ∈ keys m
  · have : alGet m k ≠ none := fun e => (alGet_none_iff m k).mp e h
    cases hg : alGet m k with
    | none => exact absurd hg this
    | some v => simp [keys] at h ⊢; simp [h]
  · have : alGet m k = none := (alGet_none_iff m k).mpr h
    simp [keys] at h
    simp [this, h]

theorem mem_iff_get (m : List (κ × ν)) (h : (keys m).Nodup) (k : κ) (v : ν) :
    (k, v) ∈ m ↔ alGet m k = some v := by
  induction m with
  | nil => simp [alGet]
  | cons x m ih =>
    obtain ⟨kx, vx⟩ := x
    simp only [keys, List.map_cons, List.nodup_cons] at h
    have ih := ih (by simpa [keys] using h.2)
    by_cases hk : kx = k
    · subst hk
      simp only [alGet, if_true, List.mem_cons, Prod.mk.injEq, true_and, Option.some.injEq]
      constructor
      · rintro (e | e)
        · exact e.symm
        · exact absurd (List.mem_map_of_mem (f := (·.1)) e) h.1
      · intro e; exact Or.inl e.symm
    · simp [alGet, hk, ih, Ne.symm hk]

omit [DecidableEq κ] in
theorem nodup_of_nodup_keys (m : List (κ × ν)) (h : (keys m).Nodup) : m.Nodup :=
  List.Pairwise.of_map (·.1) (fun _ _ hab e => hab (congrArg (·.1) e)) h

/-- two Go maps with the same content are the same up to iteration order -/
theorem perm_of_get_eq [DecidableEq ν] (m₁ m₂ : List (κ × ν)) (h₁ : (keys m₁).Nodup) (h₂ : (keys m₂).Nodup)
    (h : ∀ k, alGet m₁ k = alGet m₂ k) : m₁.Perm m₂ := by
  apply (List.perm_ext_iff_of_nodup (nodup_of_nodup_keys m₁ h₁) (nodup_of_nodup_keys m₂ h₂)).mpr
  rintro ⟨k, v⟩
  rw [mem_iff_get m₁ h₁, mem_iff_get m₂ h₂, h k]

end AL

/-! ## 3. sorting: `insSort` is a sort; a total antisymmetric order leaves one arrangement -/

section Sorting
variable {α : Type}

theorem insertBy_perm (le : α → α → Bool) (a : α) (l : List α) : (insertBy le a l).Perm (a :: l) := by
  induction l with
  | nil => simp [insertBy]
  | cons b l ih =>
    simp only [insertBy]
    split
    · exact List.Perm.refl _
    · exact (List.Perm.cons b ih).trans (List.Perm.swap a b l)

theorem insSort_perm (le : α → α → Bool) (l : List α) : (insSort le l).Perm l := by
  induction l with
  | nil => simp [insSort]
  | cons a l ih =>
    have : insSort le (a :: l) = insertBy le a (insSort le l) := rfl
    rw [this]
    exact (insertBy_perm le a _).trans (List.Perm.cons a ih)

theorem insertBy_pairwise (le : α → α → Bool)
    (htrans : ∀ a b c, le a b = true → le b c = true → le a c = true)
    (htotal : ∀ a b, le a b = true ∨ le b a = true)
    (a : α) (l : List α) (h : l.Pairwise (fun x y => le x y = true)) :
    (insertBy le a l).Pairwise (fun x y => le x y = true) := by
  induction l with
  | nil => simp [insertBy]
  | cons b l ih =>
    simp only [insertBy]
    rw [List.pairwise_cons] at h
    split
    · rename_i hab
      refine List.pairwise_cons.mpr ⟨?_, List.pairwise_cons.mpr h⟩
      intro x hx
      rcases List.mem_cons.mp hx with rfl | hx
      · exact hab
      · exact htrans _ _ _ hab (h.1 x hx)
    · rename_i hab
      have hba : le b a = true := by
        rcases htotal a b with h' | h'
        · exact absurd h' hab
        · exact h'
      refine List.pairwise_cons.mpr ⟨?_, ih h.2⟩
      intro x hx
      rcases List.mem_cons.mp ((insertBy_perm le a l).mem_iff.mp hx) with rfl | hx
      · exact hba
      · exact h.1 x hx

theorem insSort_pairwise (le : α → α → Bool)
    (htrans : ∀ a b c, le a b = true → le b c = true → le a c = true)
    (htotal : ∀ a b, le a b = true ∨ le b a = true) (l : List α) :
    (insSort le l).Pairwise (fun x y => le x y = true) := by
  induction l with
  | nil => simp [insSort]
  | cons a l ih =>
    have : insSort le (a :: l) = insertBy le a (insSort le l) := rfl
    rw [this]
    exact insertBy_pairwise le htrans htotal a _ ih

/-- permutations sort to the same list when the order is antisymmetric on the elements -/
theorem insSort_eq_of_perm (le : α → α → Bool)
    (htrans : ∀ a b c, le a b = true → le b c = true → le a c = true)
    (htotal : ∀ a b, le a b = true ∨ le b a = true)
    {l₁ l₂ : List α} (hp : l₁.Perm l₂)
    (hanti : ∀ a b, a ∈ l₁ → b ∈ l₁ → le a b = true → le b a = true → a = b) :
    insSort le l₁ = insSort le l₂ := by
  apply List.Perm.eq_of_pairwise (le := fun x y => le x y = true)
  · intro a b ha hb
    have ha' : a ∈ l₁ := (insSort_perm le l₁).mem_iff.mp ha
    have hb' : b ∈ l₁ := hp.mem_iff.mpr ((insSort_perm le l₂).mem_iff.mp hb)
    exact hanti a b ha' hb'
  · exact insSort_pairwise le htrans htotal l₁
  · exact insSort_pairwise le htrans htotal l₂
  · exact ((insSort_perm le l₁).trans hp).trans (insSort_perm le l₂).symm

theorem insSort_idem (le : α → α → Bool)
    (htrans : ∀ a b c, le a b = true → le b c = true → le a c = true)
    (htotal : ∀ a b, le a b = true ∨ le b a = true) (l : List α)
    (hanti : ∀ a b, a ∈ l → b ∈ l → le a b = true → le b a = true → a = b) :
    insSort le (insSort le l) = insSort le l := by
  have h := insSort_eq_of_perm le htrans htotal (insSort_perm le l) (by
    intro a b ha hb
    exact hanti a b ((insSort_perm le l).mem_iff.mp ha) ((insSort_perm le l).mem_iff.mp hb))
  rw [h]

theorem insSort_length (le : α → α → Bool) (l : List α) : (insSort le l).length = l.length :=
  (insSort_perm le l).length_eq

end Sorting

/-! ### lexicographic order on rank vectors -/

theorem lexLt_irrefl (a : List Int) : lexLt a a = false := by
  induction a with
  | nil => rfl
  | cons x a ih => simp [lexLt, ih]

/-- negative transitivity (same length): `≤` is transitive -/
theorem lexLe_trans : ∀ (a b c : List Int), a.length = b.length → b.length = c.length →
    lexLt b a = false → lexLt c b = false → lexLt c a = false
  | [], [], [], _, _, _, _ => rfl
  | x :: a, y :: b, z :: c, h1, h2, hab, hbc => by
    simp only [List.length_cons, Nat.add_right_cancel_iff] at h1 h2
    have ih := lexLe_trans a b c h1 h2
    simp only [lexLt, Bool.or_eq_false_iff, Bool.and_eq_false_iff, decide_eq_false_iff_not, beq_eq_false_iff_ne, ne_eq] at hab hbc ⊢
    obtain ⟨h1a, h1b⟩ := hab
    obtain ⟨h2a, h2b⟩ := hbc
    refine ⟨by omega, ?_⟩
    by_cases hzx : z = x
    · right
      have hyx : y = x := by omega
      have hzy : z = y := by omega
      rcases h1b with h | h
      · exact absurd hyx h
      rcases h2b with h' | h'
      · exact absurd hzy h'
      exact ih h h'
    · left; exact hzx
  | [], _ :: _, _, h, _, _, _ => by simp at h
  | _ :: _, [], _, h, _, _, _ => by simp at h
  | _, [], _ :: _, _, h, _, _ => by simp at h
  | _, _ :: _, [], _, h, _, _ => by simp at h

theorem lexLe_total : ∀ (a b : List Int), lexLt b a = false ∨ lexLt a b = false
  | [], _ => Or.inr (by simp [lexLt])
  | _ :: _, [] => Or.inl (by simp [lexLt])
  | x :: a, y :: b => by
    simp only [lexLt, Bool.or_eq_false_iff, Bool.and_eq_false_iff, decide_eq_false_iff_not, beq_eq_false_iff_ne, ne_eq]
    by_cases hxy : x < y
    · left; exact ⟨by omega, Or.inl (by omega)⟩
    · by_cases hyx : y < x
      · right; exact ⟨by omega, Or.inl (by omega)⟩
      · rcases lexLe_total a b with h | h
        · left; exact ⟨hyx, Or.inr h⟩
        · right; exact ⟨hxy, Or.inr h⟩

theorem lexLe_antisymm : ∀ (a b : List Int), a.length = b.length →
    lexLt b a = false → lexLt a b = false → a = b
  | [], [], _, _, _ => rfl
  | x :: a, y :: b, h, h1, h2 => by
    simp only [List.length_cons, Nat.add_right_cancel_iff] at h
    simp only [lexLt, Bool.or_eq_false_iff, Bool.and_eq_false_iff, decide_eq_false_iff_not, beq_eq_false_iff_ne, ne_eq] at h1 h2
    have hxy : x = y := by omega
    subst hxy
    rcases h1.2 with h' | h'
    · exact absurd rfl h'
    rcases h2.2 with h'' | h''
    · exact absurd rfl h''
    rw [lexLe_antisymm a b h h' h'']
  | [], _ :: _, h, _, _ => by simp at h
  | _ :: _, [], h, _, _ => by simp at h

/-! ## 4. the comparators of `results.By` are the rank order of the spec -/

theorem tsBefore_eq (a b : Option Int) : tsBefore a b = lexLt (optRank a) (optRank b) := by
  cases a <;> cases b <;> simp [tsBefore, optRank, lexLt]

theorem optRank_inj (a b : Option Int) (h : optRank a = optRank b) : a = b := by
  cases a <;> cases b <;> simp [optRank] at h ⊢
  exact h

theorem optRank_length (a : Option Int) : (optRank a).length = 2 := by cases a <;> rfl

theorem lexLt_append : ∀ (a b r s : List Int), a.length = b.length →
    lexLt (a ++ r) (b ++ s) = (lexLt a b || (a == b && lexLt r s))
  | [], [], r, s, _ => by simp [lexLt]
  | x :: a, y :: b, r, s, h => by
    simp only [List.length_cons, Nat.add_right_cancel_iff] at h
    simp only [List.cons_append, lexLt, lexLt_append a b r s h]
    by_cases hxy : x = y
    · subst hxy; simp
    · have hb : (x == y) = false := by simp [hxy]
      have : (x :: a == y :: b) = false := by simp [hxy]
      simp [hb, this]
  | [], _ :: _, _, _, h => by simp at h
  | _ :: _, [], _, _, h => by simp at h

/-- primary-then-rest comparison, the shape of every closure `By` returns -/
theorem lexLt_optRank_append (p q : Option Int) (k₁ k₂ : List Int) :
    lexLt (optRank p ++ k₁) (optRank q ++ k₂) = if p = q then lexLt k₁ k₂ else tsBefore p q := by
  rw [lexLt_append _ _ _ _ (by simp [optRank_length]), ← tsBefore_eq]
  by_cases h : p = q
  · subst h; simp [tsBefore_eq, lexLt_irrefl]
  · have : (optRank p == optRank q) = false := by
      simp; exact fun e => h (optRank_inj _ _ e)
    simp [h, this]

def keyRank (r : Row) : List Int := [(r.1.dport : Int)] ++ optRank r.1.ts ++ [(r.1.iface : Int)]

theorem rank_eq (cfg : Cfg) (r : Row) : rank cfg r = optRank (primary cfg r) ++ keyRank r := by
  simp [rank, keyRank, List.append_assoc]

theorem rank_length (cfg : Cfg) (r : Row) : (rank cfg r).length = 6 := by
  simp [rank, optRank_length]

theorem keyRank_inj (a b : Row) (h : keyRank a = keyRank b) : a.1 = b.1 := by
  obtain ⟨⟨t1, i1, d1⟩, c1⟩ := a
  obtain ⟨⟨t2, i2, d2⟩, c2⟩ := b
  cases t1 <;> cases t2 <;> simp [keyRank, optRank] at h ⊢ <;> omega

/-- equal ranks: same key -/
theorem rank_inj (cfg : Cfg) (a b : Row) (h : rank cfg a = rank cfg b) : a.1 = b.1 := by
  rw [rank_eq, rank_eq] at h
  have h2 := List.append_inj_right h (by simp [optRank_length])
  exact keyRank_inj a b h2

theorem rowLess_eq (a b : Row) : rowLess a b = lexLt (keyRank a) (keyRank b) := by
  unfold rowLess keyRank
  rw [List.append_assoc, List.append_assoc, lexLt_append [(a.1.dport : Int)] [(b.1.dport : Int)] _ _ rfl,
    lexLt_optRank_append]
  by_cases hd : a.1.dport = b.1.dport
  · by_cases ht : a.1.ts = b.1.ts
    · simp [hd, ht, lexLt]
    · simp [hd, ht, lexLt]
  · have h1 : ¬ (a.1.dport : Int) = (b.1.dport : Int) := by omega
    simp [hd, lexLt, h1]

theorem primary_of_not_time (cfg : Cfg) (r : Row) (h : cfg.sortBy ≠ .time) :
    primary cfg r = some (sortVal cfg r : Int) := by
  unfold primary sortVal
  cases hs : cfg.sortBy <;> cases hd : cfg.dir <;> simp_all

theorem primary_time (cfg : Cfg) (r : Row) (h : cfg.sortBy = .time) : primary cfg r = r.1.ts := by
  unfold primary; cases hd : cfg.dir <;> simp [h]

/-- `results.By(sortBy, direction, ascending)` compares rank vectors -/
theorem byLess_eq (cfg : Cfg) (a b : Row) :
    byLess cfg a b = if cfg.asc then lexLt (rank cfg a) (rank cfg b) else lexLt (rank cfg b) (rank cfg a) := by
  simp only [rank_eq, lexLt_optRank_append, ← rowLess_eq]
  by_cases ht : cfg.sortBy = .time
  · simp only [byLess, ht, primary_time cfg _ ht]
    cases cfg.asc <;> simp [eq_comm]
  · have hb : byLess cfg a b =
        if cfg.asc then
          if sortVal cfg a = sortVal cfg b then rowLess a b else decide (sortVal cfg a < sortVal cfg b)
        else
          if sortVal cfg a = sortVal cfg b then rowLess b a else decide (sortVal cfg a > sortVal cfg b) := by
      unfold byLess; cases hs : cfg.sortBy <;> simp_all
    rw [hb, primary_of_not_time cfg a ht, primary_of_not_time cfg b ht]
    have hi : ((sortVal cfg a : Int) = sortVal cfg b) ↔ sortVal cfg a = sortVal cfg b := Int.ofNat_inj
    have hi' : ((sortVal cfg b : Int) = sortVal cfg a) ↔ sortVal cfg a = sortVal cfg b := by omega
    cases cfg.asc <;> simp [tsBefore, hi, hi']

/-- the sort the code performs is the sort by `specLe` -/
theorem modelLe_eq (cfg : Cfg) : (fun a b => !byLess cfg b a) = specLe cfg := by
  funext a b
  simp only [byLess_eq, specLe]
  cases cfg.asc <;> simp

theorem specLe_trans (cfg : Cfg) (a b c : Row) (h1 : specLe cfg a b = true) (h2 : specLe cfg b c = true) :
    specLe cfg a c = true := by
  unfold specLe at *
  cases h : cfg.asc <;> simp only [h, Bool.not_eq_true', if_true, if_false, Bool.false_eq_true] at *
  · exact lexLe_trans _ (rank cfg b) _ (by simp [rank_length]) (by simp [rank_length]) h2 h1
  · exact lexLe_trans _ (rank cfg b) _ (by simp [rank_length]) (by simp [rank_length]) h1 h2

theorem specLe_total (cfg : Cfg) (a b : Row) : specLe cfg a b = true ∨ specLe cfg b a = true := by
  unfold specLe
  cases h : cfg.asc <;> simp only [Bool.not_eq_true', if_true, if_false, Bool.false_eq_true]
  · exact (lexLe_total _ _).symm
  · exact lexLe_total _ _

theorem specLe_antisymm (cfg : Cfg) (a b : Row) (h1 : specLe cfg a b = true) (h2 : specLe cfg b a = true) :
    a.1 = b.1 := by
  unfold specLe at *
  apply rank_inj cfg
  cases h : cfg.asc <;> simp only [h, Bool.not_eq_true', if_true, if_false, Bool.false_eq_true] at *
  · exact (lexLe_antisymm _ _ (by simp [rank_length]) h1 h2).symm
  · exact lexLe_antisymm _ _ (by simp [rank_length]) h1 h2

/-- the order only looks at sortBy / dir / asc -/
theorem specLe_congr (c₁ c₂ : Cfg) (h1 : c₁.sortBy = c₂.sortBy) (h2 : c₁.dir = c₂.dir) (h3 : c₁.asc = c₂.asc) :
    specLe c₁ = specLe c₂ := by
  funext a b
  simp [specLe, rank, primary, h1, h2, h3]

/-- rows of one Go map (distinct keys) have exactly one sorted arrangement -/
theorem sort_unique (cfg : Cfg) {m₁ m₂ : List Row} (hp : m₁.Perm m₂) (hn : (keys m₁).Nodup) :
    insSort (specLe cfg) m₁ = insSort (specLe cfg) m₂ := by
  apply insSort_eq_of_perm _ (specLe_trans cfg) (specLe_total cfg) hp
  intro a b ha hb h1 h2
  have hk := specLe_antisymm cfg a b h1 h2
  obtain ⟨ka, va⟩ := a
  obtain ⟨kb, vb⟩ := b
  simp only at hk; subst hk
  have := (mem_iff_get m₁ hn ka va).mp ha
  have := (mem_iff_get m₁ hn ka vb).mp hb
  simp_all

/-! ## 5. the row map after any sequence of merges, order-free -/

theorem sumCtr_perm {l₁ l₂ : List Ctr} (h : l₁.Perm l₂) : sumCtr l₁ = sumCtr l₂ := by
  unfold sumCtr
  apply h.foldr_eq'
  intro x _ y _ z
  rw [← Ctr.add_assoc, ← Ctr.add_assoc, Ctr.add_comm y x]

theorem sumStats_perm {l₁ l₂ : List Stats} (h : l₁.Perm l₂) : sumStats l₁ = sumStats l₂ := by
  unfold sumStats
  apply h.foldr_eq'
  intro x _ y _ z
  rw [← Stats.add_assoc, ← Stats.add_assoc, Stats.add_comm y x]

theorem sumFor_perm (k : Key) {l₁ l₂ : List Row} (h : l₁.Perm l₂) : sumFor k l₁ = sumFor k l₂ :=
  sumCtr_perm ((h.filter _).map _)

theorem sumFor_cons (k : Key) (r : Row) (rows : List Row) :
    sumFor k (r :: rows) = if r.1 = k then r.2.add (sumFor k rows) else sumFor k rows := by
  unfold sumFor
  by_cases h : r.1 = k <;> simp [h, sumCtr]

/-- content of key `k` once all of `rows` have been merged into an empty map -/
def getSum (k : Key) (rows : List Row) : Option Ctr :=
  if k ∈ rows.map (·.1) then some (sumFor k rows) else none

theorem getSum_perm (k : Key) {l₁ l₂ : List Row} (h : l₁.Perm l₂) : getSum k l₁ = getSum k l₂ := by
  unfold getSum
  rw [sumFor_perm k h]
  have : k ∈ l₁.map (·.1) ↔ k ∈ l₂.map (·.1) := (h.map _).mem_iff
  by_cases h1 : k ∈ l₁.map (·.1)
  · rw [if_pos h1, if_pos (this.mp h1)]
  · rw [if_neg h1, if_neg (fun h2 => h1 (this.mpr h2))]

def addOpt : Option Ctr → Option Ctr → Option Ctr
  | none, b => b
  | a, none => a
  | some a, some b => some (a.add b)

theorem getSum_cons (k : Key) (r : Row) (rows : List Row) :
    getSum k (r :: rows) = if r.1 = k then addOpt (some r.2) (getSum k rows) else getSum k rows := by
  unfold getSum
  rw [sumFor_cons]
  by_cases h : r.1 = k
  · by_cases h2 : k ∈ rows.map (·.1)
    · simp [h, h2, addOpt]
    · have : sumFor k rows = Ctr.zero := by
        unfold sumFor
        have : rows.filter (fun r => decide (r.1 = k)) = [] := by
          apply List.filter_eq_nil_iff.mpr
          intro x hx hk
          exact h2 (List.mem_map.mpr ⟨x, hx, by simpa using hk⟩)
        simp [this, sumCtr]
      simp [h, h2, addOpt, this, Ctr.add_zero]
  · have : (k ∈ (r :: rows).map (·.1)) ↔ k ∈ rows.map (·.1) := by
      simp only [List.map_cons, List.mem_cons]
      constructor
      · rintro (e | e)
        · exact absurd e.symm h
        · exact e
      · exact Or.inr
    simp only [if_neg h, this]

theorem addOpt_assoc (a b c : Option Ctr) : addOpt (addOpt a b) c = addOpt a (addOpt b c) := by
  cases a <;> cases b <;> cases c <;> simp [addOpt, Ctr.add_assoc]

/-- all rows merged into a map, one after the other (`MergeRows`, `BinTime`) -/
def mergeAll (m : List Row) (rows : List Row) : List Row := rows.foldl (fun m r => (mergeRow m r).1) m

theorem mergeAll_cons (m : List Row) (r : Row) (rows : List Row) :
    mergeAll m (r :: rows) = mergeAll (mergeRow m r).1 rows := rfl

theorem mergeAll_append (m : List Row) (a b : List Row) :
    mergeAll m (a ++ b) = mergeAll (mergeAll m a) b := by
  simp [mergeAll, List.foldl_append]

theorem mergeRows_eq (m rows : List Row) :
    (mergeRows m rows).1 = mergeAll m rows ∧
    (mergeAll m rows).length + (mergeRows m rows).2 = m.length + rows.length := by
  suffices h : ∀ (n : Nat), (rows.foldl (fun acc r => let x := mergeRow acc.1 r; (x.1, if x.2 then acc.2 + 1 else acc.2)) (m, n)).1 = mergeAll m rows ∧
      (mergeAll m rows).length + (rows.foldl (fun acc r => let x := mergeRow acc.1 r; (x.1, if x.2 then acc.2 + 1 else acc.2)) (m, n)).2 = m.length + rows.length + n by
    simpa [mergeRows] using h 0
  induction rows generalizing m with
  | nil => intro n; simp [mergeAll]
  | cons r rows ih =>
    intro n
    simp only [List.foldl_cons, mergeAll_cons]
    have hl := length_upsert m r.1 (mergeVal r.2)
    by_cases hs : (alGet m r.1).isSome
    · have := ih (mergeRow m r).1 (n + 1)
      simp only [mergeRow, hs, if_true] at this hl ⊢
      refine ⟨this.1, ?_⟩
      rw [this.2, hl]; simp; omega
    · have := ih (mergeRow m r).1 n
      simp only [mergeRow, hs, if_false, Bool.false_eq_true] at this hl ⊢
      refine ⟨this.1, ?_⟩
      rw [this.2, hl]; simp; omega

theorem nodup_mergeAll (m rows : List Row) (h : (keys m).Nodup) : (keys (mergeAll m rows)).Nodup := by
  induction rows generalizing m with
  | nil => exact h
  | cons r rows ih => exact ih _ (nodup_keys_upsert m r.1 _ h)

theorem alGet_mergeAll (m rows : List Row) (k : Key) :
    alGet (mergeAll m rows) k = addOpt (alGet m k) (getSum k rows) := by
  induction rows generalizing m with
  | nil => cases h : alGet m k <;> simp [mergeAll, getSum, addOpt, h]
  | cons r rows ih =>
    rw [mergeAll_cons, ih, getSum_cons]
    simp only [mergeRow, alGet_upsert]
    by_cases h : r.1 = k
    · subst h
      simp only [if_true]
      rw [← addOpt_assoc]
      congr 1
      cases alGet m r.1 <;> simp [mergeVal, addOpt, ctrAdd_eq]
    · simp [h]

theorem mem_dedup {α} [DecidableEq α] (a : α) (l : List α) : a ∈ dedup l ↔ a ∈ l := by
  induction l with
  | nil => simp [dedup]
  | cons b l ih =>
    simp only [dedup]
    split
    · rename_i hb
      rw [ih]; simp only [List.mem_cons]
      constructor
      · exact Or.inr
      · rintro (rfl | h)
        · exact hb
        · exact h
    · simp [ih]

theorem nodup_dedup {α} [DecidableEq α] (l : List α) : (dedup l).Nodup := by
  induction l with
  | nil => simp [dedup]
  | cons b l ih =>
    simp only [dedup]
    split
    · exact ih
    · rename_i hb
      exact List.nodup_cons.mpr ⟨fun h => hb ((mem_dedup b l).mp h), ih⟩

theorem keys_grouped (rows : List Row) : keys (grouped rows) = dedup (rows.map (·.1)) := by
  simp [keys, grouped, List.map_map, Function.comp_def]

theorem alGet_map_key (ks : List Key) (g : Key → Ctr) (k : Key) :
    alGet (ks.map fun k => (k, g k)) k = if k ∈ ks then some (g k) else none := by
  induction ks with
  | nil => simp [alGet]
  | cons x ks ih =>
    by_cases h : x = k
    · subst h; simp [alGet]
    · simp [alGet, h, ih, Ne.symm h]

theorem alGet_grouped (rows : List Row) (k : Key) : alGet (grouped rows) k = getSum k rows := by
  unfold grouped getSum
  rw [alGet_map_key]
  simp only [mem_dedup]

theorem nodup_grouped (rows : List Row) : (keys (grouped rows)).Nodup := by
  rw [keys_grouped]; exact nodup_dedup _

/-- merging rows one by one into an empty Go map yields the spec's union of rows -/
theorem mergeAll_perm_grouped {X Y : List Row} (h : X.Perm Y) : (mergeAll [] X).Perm (grouped Y) := by
  apply perm_of_get_eq _ _ (nodup_mergeAll [] X (by simp [keys])) (nodup_grouped Y)
  intro k
  rw [alGet_mergeAll, alGet_grouped, getSum_perm k h]
  simp [alGet, addOpt]

theorem grouped_perm {X Y : List Row} (h : X.Perm Y) : (grouped X).Perm (grouped Y) := by
  apply perm_of_get_eq _ _ (nodup_grouped X) (nodup_grouped Y)
  intro k
  rw [alGet_grouped, alGet_grouped, getSum_perm k h]

/-! ## 6. the batch fold, field by field -/

theorem foldl_eq_foldr_unit {α : Type} (op : α → α → α) (e : α)
    (hassoc : ∀ a b c, op (op a b) c = op a (op b c)) (hunit : ∀ a, op a e = a) (l : List α) (a : α) :
    l.foldl op a = op a (l.foldr op e) := by
  induction l generalizing a with
  | nil => simp [hunit]
  | cons x l ih => simp [ih, hassoc]

def foldFrom (cfg : Cfg) (s : St) (l : List Reply) : St :=
  l.foldl (fun s r => (aggregateSingle cfg false s r).1) s

theorem foldBatch_eq (cfg : Cfg) (l : List Reply) : foldBatch cfg l = foldFrom cfg init l := rfl

/-- every accumulator of the batch fold is a fold of its own over the replies' contributions -/
theorem foldFrom_fields (cfg : Cfg) (l : List Reply) (s : St) (hi : s.res.ifaces = s.ifaceMap) :
    let t := foldFrom cfg s l
    t.rowMap = mergeAll s.rowMap (allRows l) ∧
    t.ifaceMap = (l.flatMap Reply.ifaces).foldl addIface s.ifaceMap ∧
    t.res.ifaces = t.ifaceMap ∧
    t.res.hosts = (l.flatMap Reply.statusEntries).foldl setHost s.res.hosts ∧
    t.res.first = (l.map Reply.first).foldl minOpt s.res.first ∧
    t.res.last = (l.map Reply.last).foldl maxOpt s.res.last ∧
    t.res.totals = (l.map Reply.totals).foldl Ctr.add s.res.totals ∧
    t.res.stats = (l.map Reply.stats).foldl Stats.add s.res.stats ∧
    t.res.hitsTotal + (s.rowMap.length : Int) + ((allRows l).length : Int)
      = s.res.hitsTotal + (l.map Reply.hits).sum + (t.rowMap.length : Int) ∧
    t.res.status = s.res.status ∧ t.res.rows = s.res.rows ∧ t.res.displayed = s.res.displayed := by
  induction l generalizing s with
  | nil => simp [foldFrom, allRows, mergeAll, hi]
  | cons r l ih =>
    cases r with
    | err h msg w =>
      have hstep : (aggregateSingle cfg false s (.err h msg w)).1 =
          { s with res := { s.res with hosts := setHost s.res.hosts (h, ("error", msg)) } } := rfl
      have := ih (aggregateSingle cfg false s (.err h msg w)).1 (by rw [hstep]; exact hi)
      simp only [foldFrom, List.foldl_cons] at this ⊢
      rw [hstep] at this ⊢
      simp only [allRows, List.flatMap_cons, Reply.rows, Reply.ifaces, Reply.statusEntries, Reply.first, Reply.last,
        Reply.totals, Reply.stats, Reply.hits, List.map_cons, List.foldl_cons, List.nil_append, List.singleton_append,
        minOpt_none, maxOpt_none, Ctr.add_zero, Stats.add_zero, List.sum_cons] at this ⊢
      refine ⟨this.1, this.2.1, this.2.2.1, this.2.2.2.1, this.2.2.2.2.1, this.2.2.2.2.2.1, this.2.2.2.2.2.2.1,
        this.2.2.2.2.2.2.2.1, ?_, this.2.2.2.2.2.2.2.2.2⟩
      have h9 := this.2.2.2.2.2.2.2.2.1
      omega
    | ok h sts ifs f la tot st hits rows =>
      obtain ⟨hm1, hm2⟩ := mergeRows_eq s.rowMap rows
      have hstep : (aggregateSingle cfg false s (.ok h sts ifs f la tot st hits rows)).1 =
          { rowMap := mergeAll s.rowMap rows, ifaceMap := ifs.foldl addIface s.ifaceMap,
            res := { s.res with
              hosts := sts.foldl setHost s.res.hosts
              ifaces := ifs.foldl addIface s.ifaceMap
              first := minOpt s.res.first f
              last := maxOpt s.res.last la
              totals := s.res.totals.add tot
              stats := s.res.stats.add (Reply.stats (.ok h sts ifs f la tot st hits rows))
              hitsTotal := s.res.hitsTotal + (hits - ((mergeRows s.rowMap rows).2 : Int)) } } := by
        simp only [aggregateSingle, Bool.false_eq_true, if_false, hm1, stepFirst_eq, stepLast_eq, ctrAdd_eq]
        cases st <;> simp [Reply.stats, statsAdd_eq, Stats.add_zero]
      have := ih (aggregateSingle cfg false s (.ok h sts ifs f la tot st hits rows)).1 (by rw [hstep])
      simp only [foldFrom, List.foldl_cons] at this ⊢
      rw [hstep] at this ⊢
      simp only [allRows, List.flatMap_cons, Reply.rows, Reply.ifaces, Reply.statusEntries, Reply.first, Reply.last,
        Reply.totals, Reply.hits, List.map_cons, List.foldl_cons, List.foldl_append, mergeAll_append,
        List.sum_cons, List.length_append] at this ⊢
      refine ⟨this.1, this.2.1, this.2.2.1, this.2.2.2.1, this.2.2.2.2.1, this.2.2.2.2.2.1, this.2.2.2.2.2.2.1,
        this.2.2.2.2.2.2.2.1, ?_, this.2.2.2.2.2.2.2.2.2⟩
      have h9 := this.2.2.2.2.2.2.2.2.1
      push_cast at h9 ⊢
      omega

/-! ## 7. finalisation, and the batch result against the spec -/

theorem cond_take {α} (n : Nat) (l : List α) : (if n < l.length then l.take n else l) = l.take n := by
  split
  · rfl
  · rw [List.take_of_length_le (by omega)]

theorem rows_pipeline (n bound : Nat) (L : List Row) :
    capRows (min n bound) (pruneRows n L) = L.take (min n bound) := by
  unfold capRows pruneRows
  rw [cond_take]
  by_cases h0 : n = 0
  · simp [h0]
  · simp only [ne_eq, h0, not_false_eq_true, true_and, cond_take, List.take_take]
    congr 1; omega

/-- the time labelling `BinTime` applies, as regenerated from the source -/
def codeBin (cfg : Cfg) : Int → Int := fun t => Gen.TimeBin.BinTimestamp t (binNs cfg)

theorem binOn_eq (cfg : Cfg) : binOn cfg = binActive cfg := by
  unfold binOn binActive binNs Gen.TimeBin.DefaultTimeResolution
  congr 1
  by_cases h : cfg.binSecs = 300
  · rw [h]; rfl
  · have : ¬ cfg.binSecs * 1000000000 = 300000000000 := by omega
    have e1 : (cfg.binSecs * 1000000000 == 300000000000) = false := by simpa using this
    have e2 : (cfg.binSecs == 300) = false := by simpa using h
    simp [bne, e1, e2]

theorem binRow_eq (cfg : Cfg) (r : Row) : binRow (binNs cfg) r = (binKeyWith (codeBin cfg) r.1, r.2) := rfl

def timeCfg : Cfg := { sortBy := .time, dir := .sum, asc := true, limit := 0, tsLabel := false, binSecs := 0 }

theorem sortRows_eq (cfg : Cfg) (m : List Row) : sortRows cfg m = insSort (specLe cfg) m := by
  unfold sortRows; rw [modelLe_eq]

/-- all merged rows in presentation order, as the code computes them from its row map -/
def modelAllRows (cfg : Cfg) (m : List Row) : List Row :=
  if binActive cfg then
    insSort (specLe (binCfg cfg)) (mergeAll [] ((insSort (specLe cfg) m).map fun r => (binKeyWith (codeBin cfg) r.1, r.2)))
  else insSort (specLe cfg) m

theorem finalize_maps (cfg : Cfg) (bound : Nat) (s : St) :
    (finalize cfg bound s).rowMap = s.rowMap ∧ (finalize cfg bound s).ifaceMap = s.ifaceMap := by
  unfold finalize
  split <;> exact ⟨rfl, rfl⟩

theorem finalize_res (cfg : Cfg) (bound : Nat) (s : St) (hne : s.rowMap ≠ []) :
    (finalize cfg bound s).res = resultEnd { s.res with
      status := ("ok", "-")
      rows := (modelAllRows cfg s.rowMap).take (min cfg.limit bound)
      hitsTotal := if binActive cfg then ((modelAllRows cfg s.rowMap).length : Int) else s.res.hitsTotal } := by
  have hlen : ¬ s.rowMap.length = 0 := by
    intro h; exact hne (List.length_eq_zero_iff.mp h)
  have hsl : ¬ (insSort (specLe cfg) s.rowMap).length = 0 := by rw [insSort_length]; exact hlen
  unfold finalize
  simp only [hlen, if_false, postProcess, binOn_eq, sortRows_eq]
  by_cases hb : binActive cfg = true
  · have hbt : binTime (binNs cfg) { s.res with status := ("ok", "-"), rows := insSort (specLe cfg) s.rowMap } =
        { s.res with status := ("ok", "-"), rows := modelAllRows cfg s.rowMap,
                     hitsTotal := ((modelAllRows cfg s.rowMap).length : Int),
                     displayed := (modelAllRows cfg s.rowMap).length } := by
      unfold binTime
      simp only [hsl, if_false, sortRows_eq, modelAllRows, hb, if_true]
      have : specLe { sortBy := .time, dir := .sum, asc := true, limit := 0, tsLabel := false, binSecs := 0 } = specLe (binCfg cfg) :=
        specLe_congr _ _ rfl rfl rfl
      rw [this]
      rfl
    simp only [hb, if_true, hbt, rows_pipeline, resultEnd]
  · simp only [hb, if_false, Bool.false_eq_true, modelAllRows, rows_pipeline, resultEnd]

theorem modelAllRows_eq_spec (cfg : Cfg) (l : List Reply) (m : List Row)
    (hp : m.Perm (grouped (allRows l))) (hn : (keys m).Nodup) :
    modelAllRows cfg m = specAllRowsWith (codeBin cfg) cfg l := by
  unfold modelAllRows specAllRowsWith
  by_cases hb : binActive cfg = true
  · simp only [hb, if_true]
    apply sort_unique
    · exact mergeAll_perm_grouped (((insSort_perm _ m).trans hp).map _)
    · exact nodup_mergeAll [] _ (by simp [keys])
  · simp only [hb, if_false, Bool.false_eq_true]
    exact sort_unique cfg hp hn

theorem mergeAll_eq_nil (X : List Row) (h : mergeAll [] X = []) : X = [] := by
  cases X with
  | nil => rfl
  | cons r X =>
    exfalso
    have h1 := alGet_mergeAll [] (r :: X) r.1
    rw [h] at h1
    simp [alGet, getSum, addOpt] at h1

theorem specAllRowsWith_nil (b : Int → Int) (cfg : Cfg) (l : List Reply) (h : allRows l = []) :
    specAllRowsWith b cfg l = [] := by
  unfold specAllRowsWith
  rw [h]
  split <;> simp [grouped, dedup, insSort]

theorem setHost_fold (E m : List (Nat × HStatus)) (h : (keys (m ++ E)).Nodup) :
    E.foldl setHost m = m ++ E := by
  induction E generalizing m with
  | nil => simp
  | cons e E ih =>
    have hk : e.1 ∉ keys m := by
      intro hm
      simp only [keys, List.map_append, List.map_cons] at h hm
      have := (List.nodup_append.mp h).2.2 e.1 hm e.1 (by simp)
      exact this rfl
    have hs : setHost m e = m ++ [e] := by
      unfold setHost; rw [upsert_absent m e.1 _ hk]
    rw [List.foldl_cons, hs, ih (m ++ [e]) (by simpa using h)]
    simp

theorem mem_addIface_fold (X m : List Nat) (a : Nat) : a ∈ X.foldl addIface m ↔ a ∈ m ∨ a ∈ X := by
  induction X generalizing m with
  | nil => simp
  | cons x X ih =>
    rw [List.foldl_cons, ih]
    unfold addIface
    by_cases hx : x ∈ m
    · simp only [hx, if_true, List.mem_cons]
      constructor
      · rintro (h | h); exact Or.inl h; exact Or.inr (Or.inr h)
      · rintro (h | h | h); exact Or.inl h; exact Or.inl (h ▸ hx); exact Or.inr h
    · simp only [hx, if_false, List.mem_append, List.mem_cons, List.not_mem_nil, or_false]
      constructor
      · rintro ((h | h) | h); exact Or.inl h; exact Or.inr (Or.inl h); exact Or.inr (Or.inr h)
      · rintro (h | h | h); exact Or.inl (Or.inl h); exact Or.inl (Or.inr h); exact Or.inr h

theorem nodup_addIface_fold (X m : List Nat) (h : m.Nodup) : (X.foldl addIface m).Nodup := by
  induction X generalizing m with
  | nil => exact h
  | cons x X ih =>
    rw [List.foldl_cons]
    apply ih
    unfold addIface
    by_cases hx : x ∈ m
    · simp [hx, h]
    · simp only [hx, if_false]
      exact List.nodup_append.mpr ⟨h, by simp, by intro a ha b hb; simp at hb; subst hb; exact fun e => hx (e ▸ ha)⟩

theorem natLe_trans (a b c : Nat) (h1 : natLe a b = true) (h2 : natLe b c = true) : natLe a c = true := by
  simp [natLe] at *; omega
theorem natLe_total (a b : Nat) : natLe a b = true ∨ natLe b a = true := by
  simp [natLe]; omega
theorem hostLe_trans (a b c : Nat × HStatus) (h1 : hostLe a b = true) (h2 : hostLe b c = true) : hostLe a c = true := by
  simp [hostLe] at *; omega
theorem hostLe_total (a b : Nat × HStatus) : hostLe a b = true ∨ hostLe b a = true := by
  simp [hostLe]; omega

theorem ifaces_sorted_eq (X : List Nat) :
    insSort natLe (X.foldl addIface []) = insSort natLe (dedup X) := by
  apply insSort_eq_of_perm _ natLe_trans natLe_total
  · apply (List.perm_ext_iff_of_nodup (nodup_addIface_fold X [] (by simp)) (nodup_dedup X)).mpr
    intro a
    rw [mem_addIface_fold, mem_dedup]; simp
  · intro a b _ _ h1 h2
    simp [natLe] at h1 h2; omega

/-- hit count the code reports: the spec's, except that binning replaces it by the row count -/
def modelHits (b : Int → Int) (cfg : Cfg) (l : List Reply) : Int :=
  if binActive cfg = true ∧ allRows l ≠ [] then ((specAllRowsWith b cfg l).length : Int) else specHitsWith b cfg l

/-- the host-status map as the code builds it: later entries for a host overwrite earlier ones -/
def modelHosts (l : List Reply) : List (Nat × HStatus) :=
  insSort hostLe ((l.flatMap Reply.statusEntries).foldl setHost [])

/-- batch mode, any reply list: the code computes the order-free spec field by field, except for
    the hit count under binning (`modelHits`) and the host statuses of hosts heard of twice
    (`modelHosts`) -/
theorem batch_eq_specWith_any (cfg : Cfg) (l : List Reply) :
    runBatch cfg l =
      { specResultWith (codeBin cfg) cfg l with
        hitsTotal := modelHits (codeBin cfg) cfg l, hosts := modelHosts l } := by
  obtain ⟨hrm, hif, hri, hho, hfi, hla, hto, hst, hhi, hstat, hrows, _⟩ :=
    foldFrom_fields cfg l init rfl
  simp only [← foldBatch_eq] at hrm hif hri hho hfi hla hto hst hhi hstat hrows
  have hperm : (foldBatch cfg l).rowMap.Perm (grouped (allRows l)) := by
    rw [hrm]; exact mergeAll_perm_grouped (List.Perm.refl _)
  have hnod : (keys (foldBatch cfg l).rowMap).Nodup := by
    rw [hrm]; exact nodup_mergeAll [] _ (by simp [keys])
  have hhosts : (foldBatch cfg l).res.hosts = (l.flatMap Reply.statusEntries).foldl setHost [] := by
    rw [hho]; rfl
  have hifaces : insSort natLe (foldBatch cfg l).res.ifaces = insSort natLe (dedup (l.flatMap Reply.ifaces)) := by
    rw [hri, hif]; exact ifaces_sorted_eq _
  have hfirst : (foldBatch cfg l).res.first = (l.map Reply.first).foldr minOpt none := by
    rw [hfi, foldl_eq_foldr_unit minOpt none minOpt_assoc minOpt_none]; simp [init, minOpt]
  have hlast : (foldBatch cfg l).res.last = (l.map Reply.last).foldr maxOpt none := by
    rw [hla, foldl_eq_foldr_unit maxOpt none maxOpt_assoc maxOpt_none]; simp [init, maxOpt]
  have htot : (foldBatch cfg l).res.totals = sumCtr (l.map Reply.totals) := by
    rw [hto, foldl_eq_foldr_unit Ctr.add Ctr.zero Ctr.add_assoc Ctr.add_zero]; simp [init, sumCtr, Ctr.zero_add]
  have hstats : (foldBatch cfg l).res.stats = sumStats (l.map Reply.stats) := by
    rw [hst, foldl_eq_foldr_unit Stats.add Stats.zero Stats.add_assoc Stats.add_zero]; simp [init, sumStats, Stats.zero_add]
  have hlenrm : (foldBatch cfg l).rowMap.length = (grouped (allRows l)).length := hperm.length_eq
  by_cases hne : (foldBatch cfg l).rowMap = []
  · -- no rows at all
    have hall : allRows l = [] := mergeAll_eq_nil _ (hrm ▸ hne)
    have hspec := specAllRowsWith_nil (codeBin cfg) cfg l hall
    have hlen0 : (foldBatch cfg l).rowMap.length = 0 := by rw [hne]; rfl
    unfold runBatch finalize
    simp only [hlen0, if_true, observe, resultEnd, specResultWith, modelHits, modelHosts, specHitsWith, hspec, hall,
      hrows, hhosts, hifaces, hfirst, hlast, htot, hstats, init]
    simp only [Result.mk.injEq]
    refine ⟨by simp, trivial, trivial, trivial, trivial, trivial, trivial, ?_, by simp, by simp⟩
    simp only [hall, hne, init] at hhi
    simp at hhi ⊢
    omega
  · have hall : allRows l ≠ [] := by
      intro h; apply hne; rw [hrm, h]; rfl
    have hspec := modelAllRows_eq_spec cfg l _ hperm hnod
    unfold runBatch
    rw [finalize_res cfg cfg.limit _ hne, hspec]
    simp only [observe, resultEnd, specResultWith, modelHits, modelHosts, specHitsWith, Nat.min_self,
      hhosts, hifaces, hfirst, hlast, htot, hstats, hall, ne_eq, not_false_eq_true, and_true]
    simp only [Result.mk.injEq]
    refine ⟨?_, trivial, trivial, trivial, trivial, trivial, trivial, ?_, trivial, trivial⟩
    · cases h : (List.take cfg.limit (specAllRowsWith (codeBin cfg) cfg l)) <;> simp
    · by_cases hb : binActive cfg = true
      · simp [hb]
      · simp only [hb, if_false, Bool.false_eq_true]
        have hl2 : (specAllRowsWith (codeBin cfg) cfg l).length = (foldBatch cfg l).rowMap.length := by
          rw [← hspec]; simp [modelAllRows, hb, insSort_length]
        simp only [init] at hhi
        simp at hhi
        omega

/-- **model = spec** (batch mode) on the property's domain (every host heard of once): the code
    computes the order-free spec, field by field, except for the hit count under binning. -/
theorem batch_eq_specWith (cfg : Cfg) (l : List Reply) (hd : DistinctHosts l) :
    runBatch cfg l =
      { specResultWith (codeBin cfg) cfg l with hitsTotal := modelHits (codeBin cfg) cfg l } := by
  rw [batch_eq_specWith_any]
  have : modelHosts l = insSort hostLe (l.flatMap Reply.statusEntries) := by
    unfold modelHosts
    rw [setHost_fold (l.flatMap Reply.statusEntries) [] (by simpa [keys, DistinctHosts] using hd)]
    rfl
  rw [this]
  rfl

/-! ## 8. the spec does not depend on the order of the replies -/

theorem int_sum_perm {l₁ l₂ : List Int} (h : l₁.Perm l₂) : l₁.sum = l₂.sum := by
  induction h with
  | nil => rfl
  | cons x _ ih => simp [ih]
  | swap x y l => simp; omega
  | trans _ _ ih1 ih2 => rw [ih1, ih2]

theorem allRows_perm {l₁ l₂ : List Reply} (h : l₁.Perm l₂) : (allRows l₁).Perm (allRows l₂) :=
  h.flatMap_right _

theorem specAllRowsWith_perm (b : Int → Int) (cfg : Cfg) {l₁ l₂ : List Reply} (h : l₁.Perm l₂) :
    specAllRowsWith b cfg l₁ = specAllRowsWith b cfg l₂ := by
  unfold specAllRowsWith
  have hg := grouped_perm (allRows_perm h)
  split
  · exact sort_unique _ (grouped_perm (hg.map _)) (nodup_grouped _)
  · exact sort_unique _ hg (nodup_grouped _)

theorem distinctHosts_perm {l₁ l₂ : List Reply} (h : l₁.Perm l₂) (hd : DistinctHosts l₁) : DistinctHosts l₂ := by
  unfold DistinctHosts at *
  exact ((h.flatMap_right Reply.statusEntries).map _).nodup_iff.mp hd

theorem hosts_sorted_perm {E₁ E₂ : List (Nat × HStatus)} (h : E₁.Perm E₂) (hn : (keys E₁).Nodup) :
    insSort hostLe E₁ = insSort hostLe E₂ := by
  apply insSort_eq_of_perm _ hostLe_trans hostLe_total h
  intro a b ha hb h1 h2
  obtain ⟨ka, va⟩ := a
  obtain ⟨kb, vb⟩ := b
  have hk : ka = kb := by simp [hostLe] at h1 h2; omega
  subst hk
  have e1 := (mem_iff_get E₁ hn ka va).mp ha
  have e2 := (mem_iff_get E₁ hn ka vb).mp hb
  simp_all

theorem dedup_perm {α} [DecidableEq α] {X Y : List α} (h : X.Perm Y) : (dedup X).Perm (dedup Y) := by
  apply (List.perm_ext_iff_of_nodup (nodup_dedup X) (nodup_dedup Y)).mpr
  intro a; rw [mem_dedup, mem_dedup]; exact h.mem_iff

theorem ifaces_sorted_perm {X Y : List Nat} (h : X.Perm Y) :
    insSort natLe (dedup X) = insSort natLe (dedup Y) := by
  apply insSort_eq_of_perm _ natLe_trans natLe_total (dedup_perm h)
  intro a b _ _ h1 h2
  simp [natLe] at h1 h2; omega

/-- the spec is a function of the *set* of replies (any bin labelling) -/
theorem specResultWith_perm (b : Int → Int) (cfg : Cfg) {l₁ l₂ : List Reply} (h : l₁.Perm l₂)
    (hd : DistinctHosts l₁) : specResultWith b cfg l₁ = specResultWith b cfg l₂ := by
  unfold specResultWith specHitsWith
  rw [specAllRowsWith_perm b cfg h,
    hosts_sorted_perm (h.flatMap_right Reply.statusEntries) (by simpa [keys, DistinctHosts] using hd),
    ifaces_sorted_perm (h.flatMap_right Reply.ifaces),
    (h.map Reply.first).foldr_eq' (f := minOpt) (by
      intro x _ y _ z; rw [← minOpt_assoc, ← minOpt_assoc, minOpt_comm y x]),
    (h.map Reply.last).foldr_eq' (f := maxOpt) (by
      intro x _ y _ z; rw [← maxOpt_assoc, ← maxOpt_assoc, maxOpt_comm y x]),
    sumCtr_perm (h.map Reply.totals), sumStats_perm (h.map Reply.stats),
    int_sum_perm (h.map Reply.hits), (allRows_perm h).length_eq]

/-- **spec_perm**: the spec is order-free -/
theorem spec_perm (cfg : Cfg) {l₁ l₂ : List Reply} (h : l₁.Perm l₂) (hd : DistinctHosts l₁) :
    specResult cfg l₁ = specResult cfg l₂ :=
  specResultWith_perm _ cfg h hd

theorem modelHits_perm (b : Int → Int) (cfg : Cfg) {l₁ l₂ : List Reply} (h : l₁.Perm l₂) :
    modelHits b cfg l₁ = modelHits b cfg l₂ := by
  unfold modelHits specHitsWith
  rw [specAllRowsWith_perm b cfg h, int_sum_perm (h.map Reply.hits), (allRows_perm h).length_eq]
  have : allRows l₁ = [] ↔ allRows l₂ = [] := by
    rw [← List.length_eq_zero_iff, ← List.length_eq_zero_iff, (allRows_perm h).length_eq]
  simp only [ne_eq, this]

/-! ## 9. the property theorems -/

/-- **merge_perm** (clauses "the merged result is the same for every order in which the per-host
    results arrive", rows / totals / statistics / time range / hits / host statuses / interfaces /
    status): for ALL reply lists in which every host is heard of once and ALL permutations of
    them, `aggregateResults` returns the same result. -/
theorem merge_perm (cfg : Cfg) {l₁ l₂ : List Reply} (h : l₁.Perm l₂) (hd : DistinctHosts l₁) :
    runBatch cfg l₁ = runBatch cfg l₂ := by
  rw [batch_eq_specWith cfg l₁ hd, batch_eq_specWith cfg l₂ (distinctHosts_perm h hd),
    specResultWith_perm _ cfg h hd, modelHits_perm _ cfg h]

/-- without the domain hypothesis everything but the host-status map is still order-free -/
theorem merge_perm_any (cfg : Cfg) {l₁ l₂ : List Reply} (h : l₁.Perm l₂) :
    { runBatch cfg l₁ with hosts := [] } = { runBatch cfg l₂ with hosts := [] } := by
  rw [batch_eq_specWith_any cfg l₁, batch_eq_specWith_any cfg l₂]
  simp only [specResultWith, specHitsWith, modelHits_perm _ cfg h, specAllRowsWith_perm _ cfg h,
    ifaces_sorted_perm (h.flatMap_right Reply.ifaces),
    (h.map Reply.first).foldr_eq' (f := minOpt) (by
      intro x _ y _ z; rw [← minOpt_assoc, ← minOpt_assoc, minOpt_comm y x]),
    (h.map Reply.last).foldr_eq' (f := maxOpt) (by
      intro x _ y _ z; rw [← maxOpt_assoc, ← maxOpt_assoc, maxOpt_comm y x]),
    sumCtr_perm (h.map Reply.totals), sumStats_perm (h.map Reply.stats)]

/-- number of distinct row keys among all replies -/
def distinctKeys (l : List Reply) : Nat := (dedup ((allRows l).map (·.1))).length

/-- **hits_account** (clause "the hit count accounts for merged rows"), no binning: the reported
    total is the sum of the hosts' totals minus one for every row merged into an existing one
    (number of rows received minus number of distinct keys). ALL reply lists, no hypothesis. -/
theorem hits_account (cfg : Cfg) (l : List Reply) (hb : binActive cfg = false) :
    (runBatch cfg l).hitsTotal =
      (l.map Reply.hits).sum - (((allRows l).length : Int) - (distinctKeys l : Int)) := by
  rw [batch_eq_specWith_any]
  simp only [modelHits, hb, Bool.false_eq_true, false_and, if_false, specHitsWith, specAllRowsWith,
    insSort_length, distinctKeys, grouped, List.length_map]

/-- **totals_stats_sum** (clause "totals and statistics are the sums"; `Stats.Add` and
    `Counters.Add` are interpreted from the regenerated `+=` programs) and the union of the time
    ranges. ALL reply lists. -/
theorem totals_stats_sum (cfg : Cfg) (l : List Reply) :
    (runBatch cfg l).totals = sumCtr (l.map Reply.totals) ∧
    (runBatch cfg l).stats = sumStats (l.map Reply.stats) ∧
    (runBatch cfg l).first = (l.map Reply.first).foldr minOpt none ∧
    (runBatch cfg l).last = (l.map Reply.last).foldr maxOpt none := by
  rw [batch_eq_specWith_any]
  exact ⟨rfl, rfl, rfl, rfl⟩

/-- **rows_union** (clause "rows are the union of the hosts' rows"): before the limit, the rows
    delivered are — up to the presentation order — one row per distinct key carrying the sum of
    the counters of all rows with that key (no binning). -/
theorem rows_union (cfg : Cfg) (l : List Reply) (hb : binActive cfg = false) :
    (runBatch cfg l).rows = ((grouped (allRows l)) |> insSort (specLe cfg)).take cfg.limit := by
  rw [batch_eq_specWith_any]
  simp [specResultWith, specAllRowsWith, hb]

theorem mem_insSort {α : Type} (le : α → α → Bool) (l : List α) (a : α) : a ∈ insSort le l ↔ a ∈ l :=
  (insSort_perm le l).mem_iff

/-- **errors_reported** (clause "every failed host is reported with its error"): a host whose
    reply is an error appears in the host statuses with code `error` and exactly its (unwrapped)
    message, and with nothing else. -/
theorem errors_reported (cfg : Cfg) (l : List Reply) (hd : DistinctHosts l) (h : Nat) (msg : String) (w : Bool)
    (hm : Reply.err h msg w ∈ l) :
    (h, ("error", msg)) ∈ (runBatch cfg l).hosts ∧
    ∀ st, (h, st) ∈ (runBatch cfg l).hosts → st = ("error", msg) := by
  rw [batch_eq_specWith cfg l hd]
  simp only [specResultWith, mem_insSort]
  have hmem : (h, ("error", msg)) ∈ l.flatMap Reply.statusEntries :=
    List.mem_flatMap.mpr ⟨_, hm, by simp [Reply.statusEntries]⟩
  refine ⟨hmem, fun st hst => ?_⟩
  have hn : (keys (l.flatMap Reply.statusEntries)).Nodup := by simpa [keys, DistinctHosts] using hd
  have e1 := (mem_iff_get _ hn h _).mp hmem
  have e2 := (mem_iff_get _ hn h _).mp hst
  rw [e1] at e2
  exact (Option.some.inj e2).symm

/-! ## 10. streaming: the final result equals the batch result -/

theorem batch_step_ok (cfg : Cfg) (s : St) (h : Nat) (sts : List (Nat × HStatus)) (ifs : List Nat)
    (f la : Option Int) (tot : Ctr) (st : Option Stats) (hits : Int) (rows : List Row) :
    (aggregateSingle cfg false s (.ok h sts ifs f la tot st hits rows)).1 =
      { rowMap := mergeAll s.rowMap rows, ifaceMap := ifs.foldl addIface s.ifaceMap,
        res := { s.res with
          hosts := sts.foldl setHost s.res.hosts
          ifaces := ifs.foldl addIface s.ifaceMap
          first := minOpt s.res.first f
          last := maxOpt s.res.last la
          totals := s.res.totals.add tot
          stats := s.res.stats.add (Reply.stats (.ok h sts ifs f la tot st hits rows))
          hitsTotal := s.res.hitsTotal + (hits - ((mergeRows s.rowMap rows).2 : Int)) } } := by
  obtain ⟨hm1, _⟩ := mergeRows_eq s.rowMap rows
  simp only [aggregateSingle, Bool.false_eq_true, if_false, hm1, stepFirst_eq, stepLast_eq, ctrAdd_eq]
  cases st <;> simp [Reply.stats, statsAdd_eq, Stats.add_zero]

theorem stream_step (cfg : Cfg) (s : St) (r : Reply) :
    (aggregateSingle cfg true s r).1 =
      if r.isOk then finalize cfg Gen.Distributed.maxLimitStreaming (aggregateSingle cfg false s r).1
      else (aggregateSingle cfg false s r).1 := by
  cases r <;> rfl

theorem foldStream_fst (cfg : Cfg) (l : List Reply) (s : St) (ps : List Result) :
    (l.foldl (streamStep cfg) (s, ps)).1 = l.foldl (fun s r => (aggregateSingle cfg true s r).1) s := by
  induction l generalizing s ps with
  | nil => rfl
  | cons r l ih => simp only [List.foldl_cons, streamStep]; exact ih _ _

theorem natLe_antisymm_on (l : List Nat) : ∀ a b, a ∈ l → b ∈ l → natLe a b = true → natLe b a = true → a = b := by
  intro a b _ _ h1 h2; simp [natLe] at h1 h2; omega

theorem finalize_fields (cfg : Cfg) (bound : Nat) (s : St) :
    (finalize cfg bound s).res.hosts = s.res.hosts ∧
    (finalize cfg bound s).res.first = s.res.first ∧
    (finalize cfg bound s).res.last = s.res.last ∧
    (finalize cfg bound s).res.totals = s.res.totals ∧
    (finalize cfg bound s).res.stats = s.res.stats ∧
    (finalize cfg bound s).res.ifaces = insSort natLe s.res.ifaces := by
  by_cases hne : s.rowMap = []
  · have : s.rowMap.length = 0 := by rw [hne]; rfl
    unfold finalize; simp [this, resultEnd]
  · rw [finalize_res cfg bound s hne]; simp [resultEnd]

theorem finalize_nil (cfg : Cfg) (bound : Nat) (s : St) (h : s.rowMap = []) :
    (finalize cfg bound s).res.rows = s.res.rows ∧ (finalize cfg bound s).res.hitsTotal = s.res.hitsTotal := by
  have : s.rowMap.length = 0 := by rw [h]; rfl
  unfold finalize; simp [this, resultEnd]

theorem mergeAll_ne_nil (m X : List Row) (h : m ≠ []) : mergeAll m X ≠ [] := by
  induction X generalizing m with
  | nil => exact h
  | cons r X ih =>
    apply ih
    intro e
    have := congrArg List.length e
    rw [List.length_nil] at this
    simp only [mergeRow] at this
    rw [length_upsert] at this
    have hl : m.length ≠ 0 := fun e => h (List.length_eq_zero_iff.mp e)
    split at this <;> omega

/-- what the streaming state must share with the batch state after the same replies -/
structure Sim (cfg : Cfg) (sb ss : St) : Prop where
  rowMap : ss.rowMap = sb.rowMap
  ifaceMap : ss.ifaceMap = sb.ifaceMap
  hosts : ss.res.hosts = sb.res.hosts
  first : ss.res.first = sb.res.first
  last : ss.res.last = sb.res.last
  totals : ss.res.totals = sb.res.totals
  stats : ss.res.stats = sb.res.stats
  ifaces : insSort natLe ss.res.ifaces = insSort natLe sb.res.ifaces
  hits : ss.res.hitsTotal = sb.res.hitsTotal ∨ (binActive cfg = true ∧ sb.rowMap ≠ [])
  rows : sb.rowMap = [] → ss.res.rows = sb.res.rows

theorem sim_step (cfg : Cfg) (sb ss : St) (r : Reply) (h : Sim cfg sb ss) :
    Sim cfg (aggregateSingle cfg false sb r).1 (aggregateSingle cfg false ss r).1 := by
  cases r with
  | err hh msg w =>
    have e1 : (aggregateSingle cfg false sb (.err hh msg w)).1 =
        { sb with res := { sb.res with hosts := setHost sb.res.hosts (hh, ("error", msg)) } } := rfl
    have e2 : (aggregateSingle cfg false ss (.err hh msg w)).1 =
        { ss with res := { ss.res with hosts := setHost ss.res.hosts (hh, ("error", msg)) } } := rfl
    rw [e1, e2]
    exact ⟨h.rowMap, h.ifaceMap, by simp [h.hosts], h.first, h.last, h.totals, h.stats, h.ifaces, h.hits, h.rows⟩
  | ok hh sts ifs f la tot st hits rows =>
    rw [batch_step_ok, batch_step_ok]
    refine ⟨by simp [h.rowMap], by simp [h.ifaceMap], by simp [h.hosts], by simp [h.first], by simp [h.last],
      by simp [h.totals], by simp [h.stats], by simp [h.ifaceMap], ?_, ?_⟩
    · rcases h.hits with e | ⟨hb, hne⟩
      · left; simp [e, h.rowMap]
      · right; exact ⟨hb, mergeAll_ne_nil _ _ hne⟩
    · intro hnil
      have : sb.rowMap = [] := by
        by_cases e : sb.rowMap = []
        · exact e
        · exact absurd hnil (mergeAll_ne_nil _ _ e)
      simpa using h.rows this

theorem sim_finalize (cfg : Cfg) (bound : Nat) (sb ss : St) (h : Sim cfg sb ss) :
    Sim cfg sb (finalize cfg bound ss) := by
  obtain ⟨f1, f2, f3, f4, f5, f6⟩ := finalize_fields cfg bound ss
  obtain ⟨m1, m2⟩ := finalize_maps cfg bound ss
  refine ⟨m1.trans h.rowMap, m2.trans h.ifaceMap, f1.trans h.hosts, f2.trans h.first, f3.trans h.last,
    f4.trans h.totals, f5.trans h.stats, ?_, ?_, ?_⟩
  · rw [f6, insSort_idem natLe natLe_trans natLe_total _ (natLe_antisymm_on _)]; exact h.ifaces
  · by_cases hne : ss.rowMap = []
    · rw [(finalize_nil cfg bound ss hne).2]; exact h.hits
    · rw [finalize_res cfg bound ss hne]
      by_cases hb : binActive cfg = true
      · right; exact ⟨hb, h.rowMap ▸ hne⟩
      · rcases h.hits with e | ⟨hb', _⟩
        · left; simp [resultEnd, hb, e]
        · exact absurd hb' hb
  · intro hnil
    rw [(finalize_nil cfg bound ss (h.rowMap.trans hnil)).1]; exact h.rows hnil

theorem sim_final (cfg : Cfg) (bound : Nat) (sb ss : St) (h : Sim cfg sb ss) :
    (finalize cfg bound ss).res = (finalize cfg bound sb).res := by
  by_cases hne : sb.rowMap = []
  · have hs : ss.rowMap = [] := h.rowMap.trans hne
    have l1 : ss.rowMap.length = 0 := by rw [hs]; rfl
    have l2 : sb.rowMap.length = 0 := by rw [hne]; rfl
    have hh : ss.res.hitsTotal = sb.res.hitsTotal := by
      rcases h.hits with e | ⟨_, c⟩
      · exact e
      · exact absurd hne c
    unfold finalize
    simp only [l1, l2, if_true, resultEnd, h.hosts, h.first, h.last, h.totals, h.stats, h.ifaces, h.rows hne, hh]
  · have hs : ss.rowMap ≠ [] := by rw [h.rowMap]; exact hne
    rw [finalize_res cfg bound ss hs, finalize_res cfg bound sb hne]
    have hh : (if binActive cfg = true then ((modelAllRows cfg ss.rowMap).length : Int) else ss.res.hitsTotal) =
        (if binActive cfg = true then ((modelAllRows cfg sb.rowMap).length : Int) else sb.res.hitsTotal) := by
      by_cases hb : binActive cfg = true
      · simp [hb, h.rowMap]
      · rcases h.hits with e | ⟨hb', _⟩
        · simp [hb, e]
        · exact absurd hb' hb
    rw [h.rowMap] at hh
    simp only [resultEnd, h.hosts, h.first, h.last, h.totals, h.stats, h.ifaces, h.rowMap, hh]

theorem sim_fold (cfg : Cfg) (l : List Reply) (sb ss : St) (h : Sim cfg sb ss) :
    Sim cfg (l.foldl (fun s r => (aggregateSingle cfg false s r).1) sb)
            (l.foldl (fun s r => (aggregateSingle cfg true s r).1) ss) := by
  induction l generalizing sb ss with
  | nil => exact h
  | cons r l ih =>
    simp only [List.foldl_cons]
    apply ih
    rw [stream_step]
    split
    · exact sim_finalize cfg _ _ _ (sim_step cfg sb ss r h)
    · exact sim_step cfg sb ss r h

/-- **stream_eq_batch** (clause "the final result of a streaming query equals the result of the
    same query run without streaming"): for ALL reply lists and configurations, no hypothesis. -/
theorem stream_eq_batch (cfg : Cfg) (l : List Reply) : (runStream cfg l).1 = runBatch cfg l := by
  unfold runStream runBatch foldStream foldBatch
  simp only [foldStream_fst]
  have h0 : Sim cfg init init :=
    ⟨rfl, rfl, rfl, rfl, rfl, rfl, rfl, rfl, Or.inl rfl, fun _ => rfl⟩
  rw [sim_final cfg cfg.limit _ _ (sim_fold cfg l init init h0)]

/-- **merge_perm**, streaming mode: the final streamed result is the same for every arrival order -/
theorem merge_perm_stream (cfg : Cfg) {l₁ l₂ : List Reply} (h : l₁.Perm l₂) (hd : DistinctHosts l₁) :
    (runStream cfg l₁).1 = (runStream cfg l₂).1 := by
  rw [stream_eq_batch, stream_eq_batch, merge_perm cfg h hd]

/-! ## 11. against the judge's spec (`binEnd` labelling), the hit count under binning -/

theorem tdiv_ns (s : Int) (hs : 0 < s) : Int.tdiv (s * 1000000000) 1000000000 = s := by
  rw [Int.tdiv_eq_ediv_of_nonneg (by omega)]; omega

/-- the regenerated `BinTimestamp` labels a bin by its end (non-negative unix times) -/
theorem codeBin_eq (cfg : Cfg) (t : Int) (ht : 0 ≤ t) : codeBin cfg t = binEnd cfg.binSecs t := by
  unfold codeBin binNs binEnd Gen.TimeBin.BinTimestamp
  by_cases hs0 : cfg.binSecs ≤ 0
  · have : cfg.binSecs * 1000000000 ≤ 0 := by omega
    simp [hs0, this]
  · have hs : 0 < cfg.binSecs := by omega
    generalize cfg.binSecs = s at *
    have h1 : ¬ (s * 1000000000 ≤ 0) := by omega
    simp only [h1, if_false, tdiv_ns s hs, hs0]
    rw [Int.tmod_eq_emod_of_nonneg ht]
    have hr0 := Int.emod_nonneg t (by omega : s ≠ 0)
    have hr1 := Int.emod_lt_of_pos t hs
    have hdecomp := Int.mul_ediv_add_emod t s
    split
    · rename_i hr
      have : t = s * (t / s) := by omega
      have h3 : (t + s - 1) / s = t / s := by
        rw [show t + s - 1 = (s - 1) + s * (t / s) by omega, Int.add_mul_ediv_left _ _ (by omega : s ≠ 0)]
        rw [Int.ediv_eq_zero_of_lt (by omega) (by omega)]; omega
      rw [h3, Int.mul_comm]; omega
    · rename_i hr
      have h3 : (t + s - 1) / s = t / s + 1 := by
        rw [show t + s - 1 = (t % s - 1) + s * (t / s + 1) by
              rw [Int.mul_add]; omega,
            Int.add_mul_ediv_left _ _ (by omega : s ≠ 0)]
        rw [Int.ediv_eq_zero_of_lt (by omega) (by omega)]; omega
      rw [h3, Int.add_mul, Int.mul_comm (t / s) s]; omega

/-- all row timestamps are real unix times (≥ 0) -/
def NonNegTs (l : List Reply) : Prop := ∀ r ∈ allRows l, ∀ t, r.1.ts = some t → 0 ≤ t

theorem mem_grouped_key (rows : List Row) (r : Row) (h : r ∈ grouped rows) : ∃ r' ∈ rows, r'.1 = r.1 := by
  unfold grouped at h
  obtain ⟨k, hk, rfl⟩ := List.mem_map.mp h
  rw [mem_dedup] at hk
  obtain ⟨r', hr', e⟩ := List.mem_map.mp hk
  exact ⟨r', hr', e⟩

theorem specAllRowsWith_binEnd (cfg : Cfg) (l : List Reply) (hn : NonNegTs l) :
    specAllRowsWith (codeBin cfg) cfg l = specAllRowsWith (binEnd cfg.binSecs) cfg l := by
  unfold specAllRowsWith
  have : (grouped (allRows l)).map (fun r => (binKeyWith (codeBin cfg) r.1, r.2)) =
         (grouped (allRows l)).map (fun r => (binKeyWith (binEnd cfg.binSecs) r.1, r.2)) := by
    apply List.map_congr_left
    intro r hr
    obtain ⟨r', hr', e⟩ := mem_grouped_key _ r hr
    have hnn := hn r' hr'
    rw [e] at hnn
    unfold binKeyWith
    cases hts : r.1.ts with
    | none => simp
    | some t => simp [codeBin_eq cfg t (hnn t hts)]
  simp only [this]

/-- every answering host reports exactly as many hits as it returns rows -/
def HitsExact (l : List Reply) : Prop := ∀ r ∈ l, r.hits = (r.rows.length : Int)

theorem sum_hits_exact (l : List Reply) (h : HitsExact l) : (l.map Reply.hits).sum = ((allRows l).length : Int) := by
  induction l with
  | nil => rfl
  | cons r l ih =>
    have h1 := h r (by simp)
    have h2 := ih (fun x hx => h x (by simp [hx]))
    simp only [List.map_cons, List.sum_cons, allRows, List.flatMap_cons, List.length_append] at h2 ⊢
    rw [h1, h2]; simp

theorem modelHits_exact (b : Int → Int) (cfg : Cfg) (l : List Reply) (hx : HitsExact l) :
    modelHits b cfg l = specHitsWith b cfg l := by
  unfold modelHits specHitsWith
  rw [sum_hits_exact l hx]
  split
  · omega
  · rfl

/-- **batch_eq_spec** (model satisfies spec, full strength without binning): on the property's
    domain the batch result IS the judge's order-free `specResult`. -/
theorem batch_eq_spec (cfg : Cfg) (l : List Reply) (hd : DistinctHosts l) (hb : binActive cfg = false) :
    runBatch cfg l = specResult cfg l := by
  rw [batch_eq_specWith cfg l hd]
  have h1 : ∀ b, specAllRowsWith b cfg l = insSort (specLe cfg) (grouped (allRows l)) := by
    intro b; simp [specAllRowsWith, hb]
  simp only [specResult, specResultWith, specHitsWith, modelHits, hb, h1, Bool.false_eq_true, false_and, if_false]

/-- **batch_eq_spec_partial** (binning): the batch result is the judge's `specResult` provided the
    hosts' hit totals are exact. Missing for full strength: `BinTime` overwrites `Hits.Total` with
    the number of binned rows, so hits reported beyond the returned rows are lost
    (known finding `hits-overwritten-by-binning`, exhibited by `hits_binning_counterexample`). -/
theorem batch_eq_spec_partial (cfg : Cfg) (l : List Reply) (hd : DistinctHosts l) (hn : NonNegTs l)
    (hx : binActive cfg = true → HitsExact l) : runBatch cfg l = specResult cfg l := by
  by_cases hb : binActive cfg = true
  · rw [batch_eq_specWith cfg l hd, modelHits_exact _ cfg l (hx hb)]
    simp only [specResult, specResultWith, specHitsWith, specAllRowsWith_binEnd cfg l hn]
  · exact batch_eq_spec cfg l hd (by simpa using hb)

/-- **hits_account_partial** (binning): with exact host totals the reported total is again "sum of
    the hosts' totals minus merged rows", merges by binning included. -/
theorem hits_account_partial (cfg : Cfg) (l : List Reply) (hx : HitsExact l) :
    (runBatch cfg l).hitsTotal = specHitsWith (codeBin cfg) cfg l := by
  rw [batch_eq_specWith_any]
  exact modelHits_exact _ cfg l hx

/-! ## 12. non-vacuity, and what happens outside the hypotheses -/

def exCfg : Cfg := { sortBy := .bytes, dir := .sum, asc := false, limit := 2, tsLabel := false, binSecs := 300 }

/-- three hosts: one fails, two answer with an overlapping key, different time ranges, statistics -/
def exReplies : List Reply := [
  .ok 0 [(0, ("ok", "-"))] [0] (some 100) (some 200) ⟨10, 0, 1, 0⟩ (some ⟨7, 1, 5, 1, 1, 1⟩) 3
      [(⟨none, 0, 80⟩, ⟨10, 0, 1, 0⟩), (⟨none, 1, 80⟩, ⟨5, 5, 1, 1⟩)],
  .err 2 "timeout" true,
  .ok 1 [(1, ("ok", "-"))] [1, 0] (some 150) (some 400) ⟨20, 0, 2, 0⟩ (some ⟨11, 2, 3, 2, 2, 2⟩) 1
      [(⟨none, 0, 80⟩, ⟨20, 0, 2, 0⟩)]]

example : DistinctHosts exReplies := by decide
example : exReplies.reverse.Perm exReplies := List.reverse_perm _
/-- the instance is not trivial: rows merge (3 rows, 2 keys), the limit cuts, a host failed -/
example : runBatch exCfg exReplies =
    { status := ("ok", "-"), hosts := [(0, ("ok", "-")), (1, ("ok", "-")), (2, ("error", "timeout"))],
      ifaces := [0, 1], first := some 100, last := some 400, totals := ⟨30, 0, 3, 0⟩,
      stats := ⟨18, 3, 8, 3, 3, 3⟩, hitsTotal := 3, displayed := 2,
      rows := [(⟨none, 0, 80⟩, ⟨30, 0, 3, 0⟩), (⟨none, 1, 80⟩, ⟨5, 5, 1, 1⟩)] } := by decide
example : runBatch exCfg exReplies.reverse = runBatch exCfg exReplies :=
  merge_perm exCfg (List.reverse_perm _) (by decide)
example : (runStream exCfg exReplies).1 = specResult exCfg exReplies := by
  rw [stream_eq_batch]; exact batch_eq_spec _ _ (by decide) (by decide)

/-- the hypothesis `DistinctHosts` is forced: when a host name is heard of twice the later entry
    overwrites the earlier one, so the order shows -/
def dupReplies : List Reply := [
  .err 0 "timeout" false,
  .ok 0 [(0, ("ok", "-"))] [0] (some 100) (some 200) ⟨10, 0, 1, 0⟩ none 1 [(⟨none, 0, 80⟩, ⟨10, 0, 1, 0⟩)]]
example : ¬ DistinctHosts dupReplies := by decide
example : (runBatch exCfg dupReplies).hosts = [(0, ("ok", "-"))] ∧
          (runBatch exCfg dupReplies.reverse).hosts = [(0, ("error", "timeout"))] := by decide

def binCfgEx : Cfg := { sortBy := .bytes, dir := .sum, asc := false, limit := 100, tsLabel := true, binSecs := 600 }
/-- two hosts that each found more flows (5 and 7) than they returned rows -/
def binReplies : List Reply := [
  .ok 0 [(0, ("ok", "-"))] [0] (some 100) (some 200) ⟨0, 0, 0, 0⟩ none 5
      [(⟨some 1700000100, 0, 81⟩, ⟨20, 0, 2, 0⟩), (⟨some 1700000400, 0, 81⟩, ⟨20, 0, 2, 0⟩)],
  .ok 1 [(1, ("ok", "-"))] [0] (some 150) (some 400) ⟨20, 0, 2, 0⟩ none 7
      [(⟨some 1700000100, 0, 81⟩, ⟨20, 0, 2, 0⟩)]]

/-- **hits_binning_counterexample** (the known finding, exhibited in the model): under binning the
    code reports 1 hit (the number of binned rows) where hosts reported 12 hits of which 2 rows
    were merged away (spec: 10) — in either arrival order and in both modes. -/
theorem hits_binning_counterexample :
    (runBatch binCfgEx binReplies).hitsTotal = 1 ∧ (runBatch binCfgEx binReplies.reverse).hitsTotal = 1 ∧
    (runStream binCfgEx binReplies).1.hitsTotal = 1 ∧
    (specResult binCfgEx binReplies).hitsTotal = 10 ∧ ¬ HitsExact binReplies := by
  refine ⟨by decide, by decide, by decide, by decide, ?_⟩
  intro h
  have := h _ (List.mem_cons_self)
  simp [Reply.hits, Reply.rows] at this

/-- `NonNegTs` is forced for the `binEnd` reading: Go's truncated `%` labels second −1 with 600 -/
example : codeBin binCfgEx (-1) = 600 ∧ binEnd 600 (-1) = 0 := by decide

/-! ## 13. the querier's fan-out in front of the aggregation (`APIClientQuerier.Query`)

The transition system is `Model/C15Querier.lean`; the number of runners is
`Gen.Querier.numRunners`, regenerated from the source on every check run. -/

namespace Fan

/-! ### 13.1 the regenerated runner count -/

/-- the runner-count computation as the source spells it now is "`MaxConcurrent` when it is a real
    limit (0 < mc < n), else one runner per host" -/
theorem gen_numRunners_eq (n mc : Int) :
    Gen.Querier.numRunners n mc = if 0 < mc ∧ mc < n then mc else n := by
  by_cases h : 0 < mc ∧ mc < n <;> simp [Gen.Querier.numRunners, h]

theorem numRunners_eq (n : Nat) (mc : Int) :
    numRunners n mc = if 0 < mc ∧ mc < (n : Int) then mc.toNat else n := by
  unfold numRunners
  rw [gen_numRunners_eq]
  split <;> simp

/-- **numRunners_pos** (needed by "every failed host is reported", "rows are the union …"): for a
    non-empty host list and EVERY `MaxConcurrent` — zero, negative, 1, more than the number of
    hosts — at least one runner goroutine is started. Proved over the definition regenerated from
    `APIClientQuerier.Query`. -/
theorem numRunners_pos (n : Nat) (mc : Int) (h : 0 < n) : 1 ≤ numRunners n mc := by
  rw [numRunners_eq]; split <;> omega

/-- never more runners than hosts, and never more than a positive `MaxConcurrent` -/
theorem numRunners_le (n : Nat) (mc : Int) : numRunners n mc ≤ n := by
  rw [numRunners_eq]; split <;> omega

theorem numRunners_le_mc (n : Nat) (mc : Int) (h : 0 < mc) : (numRunners n mc : Int) ≤ mc := by
  rw [numRunners_eq]; split <;> omega

variable {α β : Type}

/-! ### 13.2 the invariant of the fan-out -/

theorem busyOf_append (a b : List (Runner α)) : busyOf (a ++ b) = busyOf a ++ busyOf b := by
  induction a with
  | nil => rfl
  | cons r a ih => cases r <;> simp [busyOf, ih]

theorem busyOf_replicate_idle (k : Nat) : busyOf (List.replicate k (Runner.idle : Runner α)) = [] := by
  induction k with
  | zero => rfl
  | succ k ih => simp [List.replicate_succ, busyOf, ih]

theorem busyOf_all_done (rs : List (Runner α)) (h : ∀ r ∈ rs, r = .done) : busyOf rs = [] := by
  induction rs with
  | nil => rfl
  | cons r rs ih =>
    have := h r (by simp)
    subst this
    simp [busyOf]; exact ih (fun r hr => h r (by simp [hr]))

theorem done_mem_swap (pre post : List (Runner α)) (r r' : Runner α) (hr' : r' ≠ .done)
    (h : .done ∈ pre ++ r' :: post) : .done ∈ pre ++ r :: post := by
  rcases List.mem_append.mp h with h | h
  · exact List.mem_append.mpr (Or.inl h)
  · rcases List.mem_cons.mp h with h | h
    · exact absurd h.symm hr'
    · exact List.mem_append.mpr (Or.inr (List.mem_cons.mpr (Or.inr h)))

/-- what holds in every state of the fan-out: every workload is in exactly one place (not yet
    handed over / held by a runner / in the result channel / taken by the consumer); the workloads
    channel is closed only when everything was handed over; a runner only returns after that; the
    result channel is closed only when every runner has returned -/
structure Inv (hosts : List α) (s : St α) : Prop where
  conserve : (s.pending ++ (busyOf s.runners ++ (s.buf ++ s.recvd))).Perm hosts
  wclosed_pending : s.wclosed = true → s.pending = []
  done_wclosed : .done ∈ s.runners → s.wclosed = true
  closed_done : s.closed = true → ∀ r ∈ s.runners, r = .done

theorem inv_init (hosts : List α) (k : Nat) : Inv hosts (init hosts k) := by
  refine ⟨by simp [init, busyOf_replicate_idle], by simp [init], ?_, by simp [init]⟩
  intro h
  simp [init] at h

theorem inv_step {cap : Nat} {hosts : List α} {s t : St α} (hs : Inv hosts s) (st : Step cap s t) : Inv hosts t := by
  obtain ⟨hc, hw, hd, hcl⟩ := hs
  cases st with
  | hand w rest pre post hp hr =>
    refine ⟨?_, ?_, ?_, ?_⟩
    · rw [hp, hr] at hc
      simp only [busyOf_append, busyOf, List.append_assoc, List.cons_append] at hc ⊢
      refine List.Perm.trans ?_ hc
      have := @List.perm_middle _ w (rest ++ busyOf pre) (busyOf post ++ (s.buf ++ s.recvd))
      simpa [List.append_assoc] using this
    · intro h; have := hw h; rw [hp] at this; cases this
    · intro h; apply hd; rw [hr]; exact done_mem_swap _ _ _ _ (by simp) h
    · intro h r hr'
      have hall := hcl h
      rw [hr] at hall
      have := hall .idle (by simp)
      cases this
  | closeW hp hwc =>
    refine ⟨hc, fun _ => hp, fun _ => rfl, hcl⟩
  | exit pre post hwc hr =>
    refine ⟨?_, hw, fun _ => hwc, ?_⟩
    · rw [hr] at hc; simpa [busyOf_append, busyOf] using hc
    · intro h r hr'
      have hall := hcl h
      rw [hr] at hall
      have := hall .idle (by simp)
      cases this
  | sendBuf w pre post hr hlen =>
    refine ⟨?_, hw, ?_, ?_⟩
    · rw [hr] at hc
      simp only [busyOf_append, busyOf, List.append_assoc, List.cons_append] at hc ⊢
      refine List.Perm.trans ?_ hc
      have h1 := @List.perm_middle _ w (s.pending ++ (busyOf pre ++ (busyOf post ++ s.buf))) s.recvd
      have h2 := @List.perm_middle _ w (s.pending ++ busyOf pre) (busyOf post ++ (s.buf ++ s.recvd))
      simp only [List.append_assoc] at h1 h2
      exact h1.trans h2.symm
    · intro h; apply hd; rw [hr]; exact done_mem_swap _ _ _ _ (by simp) h
    · intro h r hr'
      have hall := hcl h
      rw [hr] at hall
      have := hall (.busy w) (by simp)
      cases this
  | sendDirect w pre post hr hb =>
    refine ⟨?_, hw, ?_, ?_⟩
    · rw [hr] at hc
      simp only [busyOf_append, busyOf, List.append_assoc, List.cons_append] at hc ⊢
      refine List.Perm.trans ?_ hc
      have h1 := @List.perm_middle _ w (s.pending ++ (busyOf pre ++ (busyOf post ++ (s.buf ++ s.recvd)))) []
      have h2 := @List.perm_middle _ w (s.pending ++ busyOf pre) (busyOf post ++ (s.buf ++ s.recvd))
      simp only [List.append_assoc, List.append_nil] at h1 h2
      exact h1.trans h2.symm
    · intro h; apply hd; rw [hr]; exact done_mem_swap _ _ _ _ (by simp) h
    · intro h r hr'
      have hall := hcl h
      rw [hr] at hall
      have := hall (.busy w) (by simp)
      cases this
  | recv w rest hb =>
    refine ⟨?_, hw, hd, hcl⟩
    rw [hb] at hc
    simp only [List.cons_append] at hc ⊢
    refine List.Perm.trans ?_ hc
    have h1 := @List.perm_middle _ w (s.pending ++ (busyOf s.runners ++ (rest ++ s.recvd))) []
    have h2 := @List.perm_middle _ w (s.pending ++ busyOf s.runners) (rest ++ s.recvd)
    simp only [List.append_assoc, List.append_nil] at h1 h2
    exact h1.trans h2.symm
  | closeOut hall hcf =>
    exact ⟨hc, hw, hd, fun _ => hall⟩


theorem inv_steps {cap : Nat} {hosts : List α} {s t : St α} (hs : Inv hosts s) (st : Steps cap s t) : Inv hosts t := by
  induction st with
  | refl => exact hs
  | tail _ h ih => exact inv_step ih h

/-- states of the query for `hosts` with `k` runners and result-channel capacity `cap` -/
def Reachable (cap : Nat) (hosts : List α) (k : Nat) (s : St α) : Prop := Steps cap (init hosts k) s

theorem runners_length_step {cap : Nat} {s t : St α} (st : Step cap s t) : t.runners.length = s.runners.length := by
  cases st <;> simp_all

theorem runners_length {cap : Nat} {hosts : List α} {k : Nat} {s : St α} (h : Reachable cap hosts k s) :
    s.runners.length = k := by
  induction h with
  | refl => simp [init]
  | tail _ st ih => rw [runners_length_step st, ih]

/-- a runner exists, or there was nothing to do -/
def Staffed (hosts : List α) (k : Nat) : Prop := 0 < k ∨ hosts = []

theorem pending_nil_of_all_done {hosts : List α} {s : St α} (hi : Inv hosts s) (hk : 0 < s.runners.length ∨ hosts = [])
    (hall : ∀ r ∈ s.runners, r = .done) : s.pending = [] := by
  rcases hk with hk | hk
  · match hr : s.runners with
    | [] => rw [hr] at hk; simp at hk
    | r :: rs =>
      have hm : r ∈ s.runners := by rw [hr]; simp
      have := hall r hm
      subst this
      exact hi.wclosed_pending (hi.done_wclosed hm)
  · have := hi.conserve
    rw [hk] at this
    have := this.eq_nil
    simp at this
    exact this.1

/-- the result channel is closed only after every host's result was sent (any capacity, any number
    of runners ≥ 1) -/
theorem closed_all_sent {cap : Nat} {hosts : List α} {k : Nat} {s : St α} (h : Reachable cap hosts k s)
    (hk : Staffed hosts k) (hc : s.closed = true) : (s.buf ++ s.recvd).Perm hosts := by
  have hi := inv_steps (inv_init hosts k) h
  have hall := hi.closed_done hc
  have hp := pending_nil_of_all_done hi (by rw [runners_length h]; exact hk) hall
  have := hi.conserve
  rw [hp, busyOf_all_done _ hall] at this
  simpa using this

/-- no runner is left holding a result when the channel is closed: no send on a closed channel -/
theorem no_send_after_close {cap : Nat} {hosts : List α} {k : Nat} {s : St α} (h : Reachable cap hosts k s)
    (hc : s.closed = true) : busyOf s.runners = [] ∧ ∀ r ∈ s.runners, r = .done := by
  have hi := inv_steps (inv_init hosts k) h
  exact ⟨busyOf_all_done _ (hi.closed_done hc), hi.closed_done hc⟩

/-- when the consumer sees the closed, drained channel it has taken exactly one result per entry of
    the host list -/
theorem final_delivered {cap : Nat} {hosts : List α} {k : Nat} {s : St α} (h : Reachable cap hosts k s)
    (hk : Staffed hosts k) (hf : Final s) : s.recvd.Perm hosts := by
  have := closed_all_sent h hk hf.1
  rw [hf.2] at this
  simpa using this

/-! ### 13.3 termination, progress, the concrete scheduler -/

theorem sum_weights_append (a b : List (Runner α)) :
    ((a ++ b).map runnerWeight).sum = (a.map runnerWeight).sum + (b.map runnerWeight).sum := by
  simp [List.sum_append]

theorem step_measure {cap : Nat} {s t : St α} (st : Step cap s t) : measure t < measure s := by
  cases st with
  | hand w rest pre post hp hr =>
    simp only [measure, hp, hr, sum_weights_append, List.map_cons, List.sum_cons, runnerWeight, List.length_cons]
    omega
  | closeW hp hwc => simp only [measure, hwc]; simp
  | exit pre post hwc hr =>
    simp only [measure, hr, sum_weights_append, List.map_cons, List.sum_cons, runnerWeight]; omega
  | sendBuf w pre post hr hlen =>
    simp only [measure, hr, sum_weights_append, List.map_cons, List.sum_cons, runnerWeight, List.length_append, List.length_cons, List.length_nil]; omega
  | sendDirect w pre post hr hb =>
    simp only [measure, hr, sum_weights_append, List.map_cons, List.sum_cons, runnerWeight]; omega
  | recv w rest hb =>
    simp only [measure, hb, List.length_cons]; omega
  | closeOut hall hcf => simp only [measure, hcf]; simp

/-- no schedule runs forever: an execution from `s` has at most `measure s` steps -/
theorem no_infinite_schedule {cap : Nat} (f : Nat → St α) (hf : ∀ i, Step cap (f i) (f (i + 1))) : False := by
  have : ∀ i, measure (f i) + i ≤ measure (f 0) := by
    intro i
    induction i with
    | zero => simp
    | succ i ih => have := step_measure (hf i); omega
  have := this (measure (f 0) + 1)
  omega



theorem splitAtFirst_some (p : β → Bool) : ∀ (l pre post : List β) (x : β),
    splitAtFirst p l = some (pre, x, post) → l = pre ++ x :: post ∧ p x = true
  | [], _, _, _, h => by simp [splitAtFirst] at h
  | a :: as, pre, post, x, h => by
    unfold splitAtFirst at h
    by_cases hp : p a = true
    · simp [hp] at h
      obtain ⟨rfl, rfl, rfl⟩ := h
      exact ⟨rfl, hp⟩
    · simp only [hp] at h
      match hr : splitAtFirst p as with
      | none => simp [hr] at h
      | some (pre', x', post') =>
        simp [hr] at h
        obtain ⟨rfl, rfl, rfl⟩ := h
        obtain ⟨e, hx⟩ := splitAtFirst_some p as pre' post' x' hr
        exact ⟨by rw [e]; rfl, hx⟩

theorem splitAtFirst_none (p : β → Bool) : ∀ (l : List β), splitAtFirst p l = none → ∀ x ∈ l, p x = false
  | [], _, x, hx => by cases hx
  | a :: as, h, x, hx => by
    unfold splitAtFirst at h
    by_cases hp : p a = true
    · simp [hp] at h
    · simp only [hp] at h
      match hr : splitAtFirst p as with
      | some (pre', x', post') => simp [hr] at h
      | none =>
        rcases List.mem_cons.mp hx with rfl | hx
        · simpa using hp
        · exact splitAtFirst_none p as hr x hx

theorem splitAtLast_some (p : β → Bool) : ∀ (l pre post : List β) (x : β),
    splitAtLast p l = some (pre, x, post) → l = pre ++ x :: post ∧ p x = true
  | [], _, _, _, h => by simp [splitAtLast] at h
  | a :: as, pre, post, x, h => by
    unfold splitAtLast at h
    match hr : splitAtLast p as with
    | some (pre', x', post') =>
      simp [hr] at h
      obtain ⟨rfl, rfl, rfl⟩ := h
      obtain ⟨e, hx⟩ := splitAtLast_some p as pre' post' x' hr
      exact ⟨by rw [e]; rfl, hx⟩
    | none =>
      simp only [hr] at h
      by_cases hp : p a = true
      · simp [hp] at h
        obtain ⟨rfl, rfl, rfl⟩ := h
        exact ⟨rfl, hp⟩
      · simp [hp] at h

theorem splitAtLast_none (p : β → Bool) : ∀ (l : List β), splitAtLast p l = none → ∀ x ∈ l, p x = false
  | [], _, x, hx => by cases hx
  | a :: as, h, x, hx => by
    unfold splitAtLast at h
    match hr : splitAtLast p as with
    | some (pre', x', post') => simp [hr] at h
    | none =>
      simp only [hr] at h
      by_cases hp : p a = true
      · simp [hp] at h
      · rcases List.mem_cons.mp hx with rfl | hx
        · simpa using hp
        · exact splitAtLast_none p as hr x hx

theorem handFirst_sound (cap : Nat) (s t : St α) (h : handFirst? s = some t) : Step cap s t := by
  unfold handFirst? at h
  match hp : s.pending, hf : splitAtFirst Runner.isIdle s.runners with
  | w :: rest, some (pre, x, post) =>
    simp only [hp, hf] at h
    cases h
    obtain ⟨e, hx⟩ := splitAtFirst_some _ _ _ _ _ hf
    have : x = .idle := by cases x <;> simp [Runner.isIdle] at hx ⊢
    subst this
    exact Step.hand s w rest pre post hp e
  | [], _ => simp [hp] at h
  | _ :: _, none => simp [hp, hf] at h

/-- every step the concrete scheduler takes is a step of the transition system (any capacity) -/
theorem next_sound (cap : Nat) (s t : St α) (h : next? s = some t) : Step cap s t := by
  unfold next? at h
  match hb : s.buf with
  | w :: rest =>
    simp only [hb] at h
    cases h
    exact Step.recv s w rest hb
  | [] =>
    simp only [hb] at h
    match hh : handFirst? s with
    | some t' =>
      simp only [hh] at h
      cases h
      exact handFirst_sound cap s _ hh
    | none =>
    simp only [hh] at h
    match hl : splitAtLast Runner.isBusy s.runners with
    | some (pre, .busy w, post) =>
      simp only [hl] at h
      cases h
      have := Step.sendDirect (cap := cap) s w pre post (splitAtLast_some _ _ _ _ _ hl).1 hb
      rw [hb] at this; exact this
    | some (pre, .idle, post) => simp [hl] at h
    | some (pre, .done, post) => simp [hl] at h
    | none =>
      simp only [hl] at h
      match hf : splitAtFirst Runner.isIdle s.runners with
      | some (pre, x, post) =>
        simp only [hf] at h
        obtain ⟨e, hx⟩ := splitAtFirst_some _ _ _ _ _ hf
        have : x = .idle := by cases x <;> simp [Runner.isIdle] at hx ⊢
        subst this
        match hp : s.pending with
        | w :: rest =>
          simp only [hp] at h
          cases h
          have := Step.hand (cap := cap) s w rest pre post hp e
          rw [hb] at this; exact this
        | [] =>
          simp only [hp] at h
          by_cases hw : s.wclosed = true
          · simp only [hw, if_true] at h
            cases h
            have := Step.exit (cap := cap) s pre post hw e
            rw [hb, hp, hw] at this; exact this
          · simp only [hw] at h
            cases h
            have := Step.closeW (cap := cap) s hp (by simpa using hw)
            rw [hb, hp] at this; exact this
      | none =>
        simp only [hf] at h
        by_cases hc : s.closed = true
        · simp [hc] at h
        · simp only [hc] at h
          cases h
          have hall : ∀ r ∈ s.runners, r = .done := by
            intro r hr
            have h1 := splitAtLast_none _ _ hl r hr
            have h2 := splitAtFirst_none _ _ hf r hr
            cases r <;> simp [Runner.isBusy, Runner.isIdle] at h1 h2 ⊢
          have := Step.closeOut (cap := cap) s hall (by simpa using hc)
          rw [hb] at this; exact this

/-- the concrete scheduler only stops when the consumer has seen the closed, drained channel -/
theorem next_none (s : St α) (h : next? s = none) : Final s := by
  unfold next? at h
  match hb : s.buf with
  | w :: rest => simp [hb] at h
  | [] =>
    simp only [hb] at h
    match hh : handFirst? s with
    | some t' => simp [hh] at h
    | none =>
    simp only [hh] at h
    match hl : splitAtLast Runner.isBusy s.runners with
    | some (pre, x, post) =>
      have hx := (splitAtLast_some _ _ _ _ _ hl).2
      cases x <;> simp [Runner.isBusy] at hx
      simp [hl] at h
    | none =>
      simp only [hl] at h
      match hf : splitAtFirst Runner.isIdle s.runners with
      | some (pre, x, post) =>
        simp only [hf] at h
        match hp : s.pending with
        | w :: rest => simp [hp] at h
        | [] =>
          simp only [hp] at h
          by_cases hw : s.wclosed = true <;> simp [hw] at h
      | none =>
        simp only [hf] at h
        by_cases hc : s.closed = true
        · exact ⟨hc, hb⟩
        · simp [hc] at h

/-- **progress**: as long as the consumer has not seen the closed, drained channel some goroutine
    can move — no deadlock, whatever the capacity of the result channel and the number of runners -/
theorem progress (cap : Nat) (s : St α) (h : ¬ Final s) : ∃ t, Step cap s t := by
  match hn : next? s with
  | some t => exact ⟨t, next_sound cap s t hn⟩
  | none => exact absurd (next_none s hn) h

theorem steps_head {cap : Nat} {s t u : St α} (h : Step cap s t) (hs : Steps cap t u) : Steps cap s u := by
  induction hs with
  | refl => exact Steps.tail (Steps.refl s) h
  | tail _ st ih => exact Steps.tail ih st

theorem runFuel_spec (cap : Nat) : ∀ (n : Nat) (s : St α), measure s ≤ n →
    Steps cap s (runFuel n s) ∧ Final (runFuel n s)
  | 0, s, hm => by
    match hn : next? s with
    | some t => have := step_measure (next_sound cap s t hn); omega
    | none => exact ⟨Steps.refl s, next_none s hn⟩
  | n + 1, s, hm => by
    unfold runFuel
    match hn : next? s with
    | some t =>
      simp only
      have hst := next_sound cap s t hn
      have := step_measure hst
      obtain ⟨h1, h2⟩ := runFuel_spec cap n t (by omega)
      exact ⟨steps_head hst h1, h2⟩
    | none => exact ⟨Steps.refl s, next_none s hn⟩


/-! ### 13.4 the statements about `APIClientQuerier.Query` -/

/-- the states `APIClientQuerier.Query` can be in for the host list `hosts` and `MaxConcurrent = mc`:
    runners as computed by the regenerated `numRunners`, result channel of capacity `max mc 0` -/
def QueryState (hosts : List α) (mc : Int) (s : St α) : Prop :=
  Reachable (outCap mc) hosts (numRunners hosts.length mc) s

/-- **runner_started**: a query for at least one host starts at least one runner, whatever
    `MaxConcurrent` is -/
theorem runner_started (hosts : List α) (mc : Int) (h : hosts ≠ []) : 1 ≤ numRunners hosts.length mc :=
  numRunners_pos _ _ (List.length_pos_iff.mpr h)

theorem staffed (hosts : List α) (mc : Int) : Staffed hosts (numRunners hosts.length mc) := by
  by_cases h : hosts = []
  · exact Or.inr h
  · exact Or.inl (runner_started hosts mc h)

/-- **query_closed_after_all_sent**: in every state `Query` can reach — every interleaving of
    producer, runners, closer and consumer, every `MaxConcurrent` — the result channel is closed only
    after one result per host was sent, and no runner still holds one -/
theorem query_closed_after_all_sent (hosts : List α) (mc : Int) (s : St α) (h : QueryState hosts mc s)
    (hc : s.closed = true) : (s.buf ++ s.recvd).Perm hosts ∧ busyOf s.runners = [] :=
  ⟨closed_all_sent h (staffed hosts mc) hc, (no_send_after_close h hc).1⟩

/-- **query_never_duplicates**: at any time what was sent so far, together with what is still
    outstanding, is exactly the host list — no host's result is ever sent twice -/
theorem query_never_duplicates (hosts : List α) (mc : Int) (s : St α) (h : QueryState hosts mc s) :
    ∃ outstanding, ((s.buf ++ s.recvd) ++ outstanding).Perm hosts := by
  have hi := inv_steps (inv_init hosts _) h
  refine ⟨s.pending ++ busyOf s.runners, List.Perm.trans ?_ hi.conserve⟩
  have := @List.perm_append_comm _ (s.buf ++ s.recvd) (s.pending ++ busyOf s.runners)
  simpa [List.append_assoc] using this

/-- **query_delivers_each_host_once** (clauses "every failed host is reported", "rows are the union
    of the hosts' rows", for the querier): for EVERY schedule of the goroutines and EVERY
    `MaxConcurrent`, a schedule that cannot be continued has closed the channel after the consumer
    took exactly one result per entry of the host list (a permutation of it: nothing lost, nothing
    duplicated). Together with `no_infinite_schedule` (every schedule ends) and `progress` (it only
    ends there). -/
theorem query_delivers_each_host_once (hosts : List α) (mc : Int) (s : St α) (h : QueryState hosts mc s)
    (hstuck : ∀ t, ¬ Step (outCap mc) s t) : s.closed = true ∧ s.buf = [] ∧ s.recvd.Perm hosts := by
  have hf : Final s := Classical.byContradiction fun hn =>
    let ⟨t, ht⟩ := progress (outCap mc) s hn
    hstuck t ht
  exact ⟨hf.1, hf.2, final_delivered h (staffed hosts mc) hf⟩

/-- the order the model driver feeds to the aggregation is the outcome of a genuine, complete
    schedule of `Query` -/
theorem runSched_spec (hosts : List α) (mc : Int) :
    QueryState hosts mc (runSched hosts mc) ∧ Final (runSched hosts mc) :=
  runFuel_spec (outCap mc) _ _ (Nat.le_refl _)

theorem arrival_perm (hosts : List α) (mc : Int) : (arrival hosts mc).Perm hosts :=
  final_delivered (runSched_spec hosts mc).1 (staffed hosts mc) (runSched_spec hosts mc).2

/-- the concrete scheduler does reorder: with two runners the second host's result arrives first -/
example : arrival [10, 11, 12, 13, 14] 2 = [11, 12, 13, 14, 10] := by decide
example : arrival [10, 11, 12, 13, 14] 0 = [14, 13, 12, 11, 10] := by decide
example : arrival [10, 11, 12] (-7) = [12, 11, 10] := by decide
example : numRunners 5 0 = 5 ∧ numRunners 5 (-1) = 5 ∧ numRunners 5 1 = 1 ∧ numRunners 5 4 = 4 ∧
    numRunners 5 5 = 5 ∧ numRunners 5 8 = 5 ∧ numRunners 0 3 = 0 := by decide

/-- non-vacuity: the system does run, e.g. 3 hosts through 2 runners and a channel of capacity 2,
    using the buffer -/
example : ∃ s : St Nat, QueryState [10, 11, 12] 2 s ∧ s.buf = [10] ∧ s.recvd = [] ∧ busyOf s.runners = [11] := by
  refine ⟨{ pending := [12], wclosed := false, runners := [.idle, .busy 11], buf := [10], closed := false, recvd := [] }, ?_, rfl, rfl, rfl⟩
  have h0 : numRunners [10, 11, 12].length 2 = 2 := by decide
  unfold QueryState Reachable
  rw [h0]
  have s1 : Step (outCap 2) (init [10, 11, 12] 2)
      { pending := [11, 12], wclosed := false, runners := [.busy 10, .idle], buf := [], closed := false, recvd := [] } :=
    Step.hand _ 10 [11, 12] [] [.idle] rfl rfl
  have s2 : Step (outCap 2)
      { pending := [11, 12], wclosed := false, runners := [.busy 10, .idle], buf := [], closed := false, recvd := [] }
      { pending := [12], wclosed := false, runners := [.busy 10, .busy 11], buf := [], closed := false, recvd := [] } :=
    Step.hand _ 11 [12] [.busy 10] [] rfl rfl
  have s3 : Step (outCap 2)
      { pending := [12], wclosed := false, runners := [.busy 10, .busy 11], buf := [], closed := false, recvd := [] }
      { pending := [12], wclosed := false, runners := [.idle, .busy 11], buf := [10], closed := false, recvd := [] } :=
    Step.sendBuf _ 10 [] [.busy 11] rfl (by decide)
  exact Steps.tail (Steps.tail (Steps.tail (Steps.refl _) s1) s2) s3

/-- the seeded regression `numRunners := min(len(hosts), a.MaxConcurrent)` -/
def numRunnersMin (n : Nat) (mc : Int) : Nat := (min (n : Int) mc).toNat

example : numRunnersMin 3 0 = 0 ∧ ¬ Staffed [10, 11, 12] (numRunnersMin 3 0) := by
  refine ⟨by decide, fun h => ?_⟩
  rcases h with h | h
  · exact absurd h (by decide)
  · cases h

/-- … with it, `MaxConcurrent = 0` closes the result channel at once: the consumer sees the end of
    a query that delivered nothing (`Staffed` is what `final_delivered` needs) -/
example : ∃ s : St Nat, Reachable (outCap 0) [10, 11, 12] (numRunnersMin 3 0) s ∧ Final s ∧ s.recvd = [] :=
  ⟨{ init [10, 11, 12] 0 with closed := true },
   Steps.tail (Steps.refl _) (Step.closeOut _ (by simp [init, show numRunnersMin 3 0 = 0 by decide]) rfl), ⟨rfl, rfl⟩, rfl⟩

end Fan

/-! ### 13.5 querier + aggregation: the distributed query -/

/-- **distributed_result_determined** (clause "the merged result of a distributed query is the same
    for every order and interleaving in which the per-host results arrive", end to end): let the
    hosts' replies be `l` (every host heard of once). For EVERY `MaxConcurrent`, EVERY schedule of
    the querier's goroutines that has come to its end (`Final`: the aggregator saw the closed
    channel) the aggregation of what arrived — batch or streaming — is the aggregation of `l`
    itself: the result is determined by the hosts' replies alone. -/
theorem distributed_result_determined (cfg : Cfg) (l : List Reply) (hd : DistinctHosts l) (mc : Int)
    (s : Fan.St Reply) (h : Fan.QueryState l mc s) (hf : Fan.Final s) :
    runBatch cfg s.recvd = runBatch cfg l ∧ (runStream cfg s.recvd).1 = runBatch cfg l := by
  have hp := Fan.final_delivered h (Fan.staffed l mc) hf
  have hd' := distinctHosts_perm hp.symm hd
  exact ⟨merge_perm cfg hp hd', by rw [stream_eq_batch]; exact merge_perm cfg hp hd'⟩

/-- … hence the same for any two settings of `MaxConcurrent` and any two schedules -/
theorem distributed_result_same_for_every_setting (cfg : Cfg) (l : List Reply) (hd : DistinctHosts l)
    (mc₁ mc₂ : Int) (s₁ s₂ : Fan.St Reply) (h₁ : Fan.QueryState l mc₁ s₁) (hf₁ : Fan.Final s₁)
    (h₂ : Fan.QueryState l mc₂ s₂) (hf₂ : Fan.Final s₂) :
    runBatch cfg s₁.recvd = runBatch cfg s₂.recvd := by
  rw [(distributed_result_determined cfg l hd mc₁ s₁ h₁ hf₁).1, (distributed_result_determined cfg l hd mc₂ s₂ h₂ hf₂).1]

/-- **distributed_result_eq_spec**: … and it is the judge's order-free `specResult` (under binning:
    provided the hosts' hit totals are exact, see `batch_eq_spec_partial`) -/
theorem distributed_result_eq_spec (cfg : Cfg) (l : List Reply) (hd : DistinctHosts l) (hn : NonNegTs l)
    (hx : binActive cfg = true → HitsExact l) (mc : Int)
    (s : Fan.St Reply) (h : Fan.QueryState l mc s) (hf : Fan.Final s) :
    runBatch cfg s.recvd = specResult cfg l := by
  rw [(distributed_result_determined cfg l hd mc s h hf).1]
  exact batch_eq_spec_partial cfg l hd hn hx

/-- **distributed_errors_reported** (clause "every failed host is reported with its error", end to
    end): whatever `MaxConcurrent` and the schedule, a host whose query failed appears in the host
    statuses of the distributed result with code `error` and its message -/
theorem distributed_errors_reported (cfg : Cfg) (l : List Reply) (hd : DistinctHosts l) (mc : Int)
    (s : Fan.St Reply) (h : Fan.QueryState l mc s) (hf : Fan.Final s)
    (host : Nat) (msg : String) (w : Bool) (hm : Reply.err host msg w ∈ l) :
    (host, ("error", msg)) ∈ (runBatch cfg s.recvd).hosts := by
  rw [(distributed_result_determined cfg l hd mc s h hf).1]
  exact (errors_reported cfg l hd host msg w hm).1

/-- what the model driver prints for a `fan` case is the judge's `specFan`: the channel is closed
    and the results taken from it are one per entry of the host list — for every `MaxConcurrent` -/
theorem handleFan_eq_spec (mc : Option Int) (l : List Reply) :
    handleFan mc l = "closed;" ++ Wire.showList (specFan l) := by
  have hs := Fan.runSched_spec l (mcValue mc)
  have hp : ((Fan.runSched l (mcValue mc)).recvd.map fanEntry).Perm (l.map fanEntry) :=
    (Fan.final_delivered hs.1 (Fan.staffed l _) hs.2).map fanEntry
  have hsort : insSort strLe ((Fan.runSched l (mcValue mc)).recvd.map fanEntry) = specFan l :=
    insSort_eq_of_perm strLe
      (fun a b c h1 h2 => by simp only [strLe, decide_eq_true_eq] at *; exact String.le_trans h1 h2)
      (fun a b => by simp only [strLe, decide_eq_true_eq]; exact String.le_total a b)
      hp
      (fun a b _ _ h1 h2 => by simp only [strLe, decide_eq_true_eq] at *; exact String.le_antisymm h1 h2)
  unfold handleFan
  simp only [hs.2.1, hs.2.2, List.isEmpty_nil, Bool.and_self, if_true, hsort]

theorem replyHostLe_perm (l : List Reply) : (insSort replyHostLe l).Perm l := insSort_perm _ l

/-- what the model driver prints for a `run` case is the spec's result (descending order: the only
    one `Args.Prepare` produces without a time label) — for every `MaxConcurrent` -/
theorem handleRun_eq_spec (mc : Option Int) (cfg : Cfg) (l : List Reply) (hne : l ≠ [])
    (hh : (l.map Reply.host).Nodup) (hd : DistinctHosts l) (hb : binActive cfg = false) :
    handleRun mc cfg l = showResult (specResult { cfg with asc := false } l) := by
  have hp : (Fan.arrival (insSort replyHostLe l) (mcValue mc)).Perm l :=
    (Fan.arrival_perm _ _).trans (replyHostLe_perm l)
  have he : l.isEmpty = false := by cases l <;> simp_all
  unfold handleRun
  simp only [hh, not_true_eq_false, if_false, he, Bool.false_eq_true]
  rw [merge_perm _ hp (distinctHosts_perm hp.symm hd), batch_eq_spec _ l hd (by simpa [binActive] using hb)]

/-- non-vacuity of the end-to-end statement on the three-host example (one host fails), through two
    runners: the replies arrive in another order than the host list and the result is the spec's -/
example : Fan.arrival exReplies 2 ≠ exReplies ∧
    runBatch exCfg (Fan.arrival exReplies 2) = specResult exCfg exReplies := by
  refine ⟨by decide, ?_⟩
  have h := Fan.runSched_spec exReplies 2
  exact (distributed_result_determined exCfg exReplies (by decide) 2 _ h.1 h.2).1.trans
    (batch_eq_spec _ _ (by decide) (by decide))

end C15
