import GoProbeModel.Lemmas.C06

/-!
C06 — corrupted or foreign files never crash a reader and stay contained: the property theorems
about the reader model `Model/C06.lean` (the code after the `fix:` commits of this property).

For ALL byte contents of every file of every day, every directory suffix, every decoder (any function
from encoder type, source bytes and announced length to content or failure) and every query of the
modelled family:

* `reader_terminates` / `reader_never_panics` — the query ends with a result or, when a block descriptor
  announces 2^30 bytes or more, with the modelled "out of memory" (the known limit); no checked index
  or slice expression of the reader is ever out of range. `reader_total_partial`: without such a
  descriptor the query always returns a result.
* `containment` — the result of the query is a fixed combination of per-day effects, and the effect of a
  day is a function of that day's own files; `containment_other_days`: replacing the files of one day
  replaces one element of that list and leaves every other day's contribution as it was;
  `skipped_block_adds_nothing`: a block that is counted as corrupted contributes nothing.
* `stats_count` — the statistics of the result are the sums of the per-day statistics; `day_stats`:
  a day counts every block of the queried range as processed, at most those as corrupted, and a day
  whose metadata cannot be decoded as one corrupted block and nothing else.
-/
namespace C06
open C03 (Desc Col Traffic Meta slice)

/-! ## per-day effects -/

/-- what a day yields by itself: the insertions it makes into an empty result map, its statistics -/
def dayEffect (q : Q) (dec : Dec) (d : Day) : Outcome (Agg × Stats) := processDay q dec d []

/-- how the per-day effects make up the worker's result -/
def combine : List (Outcome (Agg × Stats)) → Agg → Stats → Outcome (Agg × Stats)
  | [], agg, s => .ok (agg, s)
  | e :: es, agg, s => e.bind fun r => combine es (addAll agg r.1) (s.add r.2)

/-- processing a day on top of any map = merging the day's own effect into that map -/
theorem processDay_eq_effect (q : Q) (dec : Dec) (d : Day) (agg : Agg) :
    processDay q dec d agg = (dayEffect q dec d).bind fun r => .ok (addAll agg r.1, r.2) := by
  unfold dayEffect
  cases hb : d.bmeta with
  | none => simp only [processDay, hb]; rfl
  | some bytes =>
    rcases processDay_spec q dec d bytes hb with ⟨_, hoom⟩ | ⟨es, ds, _, _, _, _, he⟩
    · rw [hoom agg, hoom []]; rfl
    · rw [he agg, he []]
      simp only [C03.obind_ok, addAll_nil_merge]

theorem processDays_eq_combine (q : Q) (dec : Dec) : ∀ (days : List Day) (agg : Agg) (s : Stats),
    processDays q dec days agg s = combine (days.map (dayEffect q dec)) agg s := by
  intro days
  induction days with
  | nil => intro agg s; rfl
  | cons d ds ih =>
    intro agg s
    simp only [processDays, List.map_cons, combine]
    rw [processDay_eq_effect]
    cases dayEffect q dec d with
    | ok r => simp only [C03.obind_ok]; exact ih _ _
    | err e => rfl
    | panic w => rfl

/-! ## the probes of `CreateWorkerJobs` -/

theorem probe_ok (d : Day) (h : d.bmeta.isSome = true) : probe d = .ok () := by
  unfold probe
  cases hb : d.bmeta with
  | none => rw [hb] at h; cases h
  | some bytes =>
    simp only
    rcases C03.unmarshal_ok_or_err bytes with herr | ⟨m, hm⟩
    · rw [herr]
    · rw [hm]
      obtain ⟨n, hs⟩ := unmarshal_shape hm
      have h0 : 0 < m.cols.length := by rw [hs.cols]; omega
      have hn : m.cols[0].descs.length = n := hs.descs _ (List.getElem_mem h0)
      simp only [idx_get h0, C03.obind_ok, hn]
      by_cases hpos : n > 0
      · rw [if_pos hpos, idx_get (l := m.ts) (i := 0) (by rw [hs.ts]; exact hpos),
          idx_get (l := m.ts) (i := n - 1) (by rw [hs.ts]; omega)]
        rfl
      · rw [if_neg hpos]

theorem newDirReaders_ok : ∀ days : List Day, newDirReaders days = .ok () := by
  intro days
  induction days with
  | nil => rfl
  | cons d ds ih =>
    unfold newDirReaders
    cases hs : suffixDecode d.suffix with
    | ok _ => exact ih
    | err _ => exact ih
    | panic w => exact absurd hs (suffixDecode_total _ w)

theorem selected_bmeta {q : Q} {days : List Day} {d : Day} (h : d ∈ selected q days) : d.bmeta.isSome = true := by
  unfold selected at h
  have := (List.mem_filter.1 h).2
  simp only [Bool.and_eq_true] at this
  exact this.2

/-- listing the days, decoding their directory suffixes and probing the first and the last day for
    their time range succeeds whatever the directory names and metadata files contain -/
theorem createWorkerJobs_ok (q : Q) (days : List Day) : createWorkerJobs q days = .ok () := by
  unfold createWorkerJobs
  rw [newDirReaders_ok]
  simp only [C03.obind_ok]
  cases hsel : selected q days with
  | nil => rfl
  | cons d ds =>
    have hd : d ∈ selected q days := by rw [hsel]; exact List.mem_cons_self ..
    simp only
    rw [probe_ok d (selected_bmeta hd)]
    simp only [C03.obind_ok]
    have hl : (d :: ds).getLast?.getD d ∈ selected q days := by
      rw [hsel]
      cases hg : (d :: ds).getLast? with
      | none => exact List.mem_cons_self ..
      | some x => exact List.mem_of_getLast? hg
    exact probe_ok _ (selected_bmeta hl)

/-- the query as a function of the per-day effects -/
theorem runQuery_eq (q : Q) (dec : Dec) (days : List Day) :
    runQuery q dec days =
      (combine ((selected q days).map (dayEffect q dec)) [] Stats.zero).bind fun r =>
        .ok (r.1, { r.2 with workloads := ((selected q days).length + 31) / 32 }) := by
  unfold runQuery
  rw [createWorkerJobs_ok]
  simp only [C03.obind_ok, processDays_eq_combine]

/-! ## reader_terminates -/

/-- effect of a selected day: a result, or out of memory because of a huge announced length -/
theorem dayEffect_cases (q : Q) (dec : Dec) (d : Day) (h : d.bmeta.isSome = true) :
    (∃ r, dayEffect q dec d = .ok r) ∨
    (dayEffect q dec d = .err "oom" ∧ ∃ bytes m, d.bmeta = some bytes ∧ C03.unmarshal bytes = .ok m ∧ ¬ Small m) := by
  cases hb : d.bmeta with
  | none => rw [hb] at h; cases h
  | some bytes =>
    rcases processDay_spec q dec d bytes hb with ⟨⟨m, hm, hs⟩, hoom⟩ | ⟨es, ds, _, _, _, _, he⟩
    · exact .inr ⟨hoom [], bytes, m, rfl, hm, hs⟩
    · exact .inl ⟨_, he []⟩

theorem combine_cases : ∀ (es : List (Outcome (Agg × Stats))) (agg : Agg) (s : Stats),
    (∀ e ∈ es, (∃ r, e = .ok r) ∨ e = .err "oom") →
    (∃ r, combine es agg s = .ok r) ∨ combine es agg s = .err "oom" := by
  intro es
  induction es with
  | nil => intro agg s _; exact .inl ⟨_, rfl⟩
  | cons e es ih =>
    intro agg s h
    rcases h e (List.mem_cons_self ..) with ⟨r, hr⟩ | hr
    · rw [hr]; simp only [combine, C03.obind_ok]
      exact ih _ _ (fun x hx => h x (List.mem_cons_of_mem _ hx))
    · rw [hr]; exact .inr rfl

/-- **reader_terminates** — "whatever bytes are found in a day's column or metadata files, reading and
    querying the database never crashes or hangs": for ALL file contents, directory suffixes, decoders
    and queries the reader terminates (the model is a total function) with a result — or with the
    modelled out-of-memory end when a block descriptor announces 2^30 bytes or more (known limit,
    see `reader_total_partial` and `oom_reachable`). -/
theorem reader_terminates (q : Q) (dec : Dec) (days : List Day) :
    (∃ r, runQuery q dec days = .ok r) ∨ runQuery q dec days = .err "oom" := by
  rw [runQuery_eq]
  have h := combine_cases ((selected q days).map (dayEffect q dec)) [] Stats.zero (by
    intro e he
    obtain ⟨d, hd, rfl⟩ := List.mem_map.1 he
    rcases dayEffect_cases q dec d (selected_bmeta hd) with h | h
    · exact .inl h
    · exact .inr h.1)
  rcases h with ⟨r, hr⟩ | hr
  · rw [hr]; exact .inl ⟨_, rfl⟩
  · rw [hr]; exact .inr rfl

/-- **reader_never_panics** — no index or slice expression of the reader (metadata decoding, block
    reads, sanity checks, `bitpack`, the scan loop, the base-62 suffix decoder) is ever out of range,
    for ALL byte contents. -/
theorem reader_never_panics (q : Q) (dec : Dec) (days : List Day) : ∀ w, runQuery q dec days ≠ .panic w := by
  intro w h
  rcases reader_terminates q dec days with ⟨r, hr⟩ | hr <;> rw [hr] at h <;> cases h

/-- **reader_total_partial** — "never crashes or hangs", proved under the one hypothesis the code forces:
    if no decodable metadata file of a selected day announces a stored or raw block length of 2^30 bytes
    or more (`Small`), the query returns a result, whatever else the files, directory names and decoders
    do. What is missing for the full clause: the reader allocates the announced lengths before reading,
    so outside `Small` it can run out of memory (`oom_reachable`, known finding
    C06-huge-announced-length-out-of-memory). -/
theorem reader_total_partial (q : Q) (dec : Dec) (days : List Day)
    (hs : ∀ d ∈ selected q days, ∀ bytes m, d.bmeta = some bytes → C03.unmarshal bytes = .ok m → Small m) :
    ∃ r, runQuery q dec days = .ok r := by
  rw [runQuery_eq]
  have h := combine_cases ((selected q days).map (dayEffect q dec)) [] Stats.zero (by
    intro e he
    obtain ⟨d, hd, rfl⟩ := List.mem_map.1 he
    exact .inl (by
      rcases dayEffect_cases q dec d (selected_bmeta hd) with h | ⟨_, bytes, m, hb, hm, hns⟩
      · exact h
      · exact absurd (hs d hd bytes m hb hm) hns))
  have hne : ∀ e ∈ (selected q days).map (dayEffect q dec), e ≠ .err "oom" := by
    intro e he
    obtain ⟨d, hd, rfl⟩ := List.mem_map.1 he
    rcases dayEffect_cases q dec d (selected_bmeta hd) with ⟨r, hr⟩ | ⟨_, bytes, m, hb, hm, hns⟩
    · rw [hr]; intro hh; cases hh
    · exact absurd (hs d hd bytes m hb hm) hns
  have hok : ∀ (es : List (Outcome (Agg × Stats))) (agg : Agg) (s : Stats),
      (∀ e ∈ es, ∃ r, e = .ok r) → ∃ r, combine es agg s = .ok r := by
    intro es
    induction es with
    | nil => intro agg s _; exact ⟨_, rfl⟩
    | cons e es ih =>
      intro agg s h
      obtain ⟨r, hr⟩ := h e (List.mem_cons_self ..)
      rw [hr]; simp only [combine, C03.obind_ok]
      exact ih _ _ (fun x hx => h x (List.mem_cons_of_mem _ hx))
  obtain ⟨r, hr⟩ := hok _ [] Stats.zero (by
    intro e he
    obtain ⟨d, hd, rfl⟩ := List.mem_map.1 he
    rcases dayEffect_cases q dec d (selected_bmeta hd) with h | ⟨_, bytes, m, hb, hm, hns⟩
    · exact h
    · exact absurd (hs d hd bytes m hb hm) hns)
  rw [hr]; exact ⟨_, rfl⟩

/-! ## containment -/

/-- **containment** — "damage in one day only affects results derived from that day": the result of
    a query is `combine` of the list of per-day effects of the selected days (in directory order), and
    the effect of a day (`dayEffect`) is computed from that day's own files, the query and the decoder. -/
theorem containment (q : Q) (dec : Dec) (days : List Day) :
    runQuery q dec days =
      (combine ((selected q days).map (dayEffect q dec)) [] Stats.zero).bind fun r =>
        .ok (r.1, { r.2 with workloads := ((selected q days).length + 31) / 32 }) :=
  runQuery_eq q dec days

/-- whether the walk selects a day depends on that day alone -/
theorem selection_local (q : Q) (l1 l2 : List Day) (d : Day) :
    selected q (l1 ++ d :: l2) = selected q l1 ++ selected q [d] ++ selected q l2 := by
  simp [selected, List.filter_append, List.filter_cons]
  split <;> simp

/-- **containment_other_days** — replacing the files of one day (`d` by `d'`, same directory) changes
    one element of the list of per-day effects: the effects of all other days — "every other day returns
    exactly its stored flows" — are the same terms before and after. -/
theorem containment_other_days (q : Q) (dec : Dec) (l1 l2 : List Day) (d d' : Day) :
    (selected q (l1 ++ d :: l2)).map (dayEffect q dec) =
      (selected q l1).map (dayEffect q dec) ++ (selected q [d]).map (dayEffect q dec) ++ (selected q l2).map (dayEffect q dec) ∧
    (selected q (l1 ++ d' :: l2)).map (dayEffect q dec) =
      (selected q l1).map (dayEffect q dec) ++ (selected q [d']).map (dayEffect q dec) ++ (selected q l2).map (dayEffect q dec) := by
  simp only [selection_local, List.map_append, and_self]

/-- a successful `combine` is the merge of all effects into the map and the sum of all statistics -/
theorem combine_ok : ∀ (es : List (Outcome (Agg × Stats))) (agg : Agg) (s : Stats) (r : Agg × Stats),
    combine es agg s = .ok r →
    ∃ ys : List (Agg × Stats), es = ys.map Outcome.ok ∧ r.1 = addAll agg (ys.flatMap (·.1)) ∧
      r.2 = ys.foldl (fun s y => s.add y.2) s := by
  intro es
  induction es with
  | nil => intro agg s r h; simp only [combine, Outcome.ok.injEq] at h; exact ⟨[], rfl, by rw [← h]; rfl, by rw [← h]; rfl⟩
  | cons e es ih =>
    intro agg s r h
    cases e with
    | ok y =>
      simp only [combine, C03.obind_ok] at h
      obtain ⟨ys, h1, h2, h3⟩ := ih _ _ _ h
      refine ⟨y :: ys, by rw [h1]; rfl, ?_, ?_⟩
      · rw [h2, List.flatMap_cons, ← addAll_append]
      · rw [h3]; rfl
    | err e => cases h
    | panic w => cases h

/-- **containment_result** — the rows of the result are exactly the insertions of the selected days,
    merged in directory order: nothing else enters the result map and nothing of any day is lost. -/
theorem containment_result (q : Q) (dec : Dec) (days : List Day) (agg : Agg) (s : Stats)
    (h : runQuery q dec days = .ok (agg, s)) :
    ∃ ys : List (Agg × Stats), (selected q days).map (dayEffect q dec) = ys.map Outcome.ok ∧
      agg = addAll [] (ys.flatMap (·.1)) := by
  rw [runQuery_eq] at h
  cases hc : combine ((selected q days).map (dayEffect q dec)) [] Stats.zero with
  | ok r =>
    rw [hc] at h
    simp only [C03.obind_ok, Outcome.ok.injEq, Prod.mk.injEq] at h
    obtain ⟨ys, h1, h2, _⟩ := combine_ok _ _ _ _ hc
    exact ⟨ys, h1, by rw [← h.1, h2]⟩
  | err e => rw [hc] at h; cases h
  | panic w => rw [hc] at h; cases h

/-- **skipped_block_adds_nothing** — "damage in one block only affects results derived from that
    block": a block that the reader counts as corrupted (failed read, inconsistent entry counts or
    column sizes) leaves the result map exactly as it was. -/
theorem skipped_block_adds_nothing (q : Q) (dec : Dec) (day : Day) {m : Meta} {n j : Nat} (hm : Shape m n) (hj : j < n)
    {st st' : ColSt} (hst : StInv day st) (agg agg' : Agg) (s s' : Stats)
    (h : evalBlock q dec day m j st agg s = .ok (st', agg', s')) (hc : s'.corrupted = s.corrupted + 1) :
    agg' = agg ∧ s'.processed = s.processed + 1 := by
  rcases evalBlock_spec q dec day hm hj hst with ⟨_, hoom⟩ | ⟨st1, es, ds, _, hf, he⟩
  · rw [hoom] at h; cases h
  · rw [he] at h
    simp only [Outcome.ok.injEq, Prod.mk.injEq] at h
    obtain ⟨_, h2, h3⟩ := h
    have hds : ds.corrupted = 1 := by
      rw [← h3] at hc; simp only [Stats.add] at hc; omega
    rcases hf.corrupted with h0 | ⟨_, hp, hes⟩
    · omega
    · rw [← h2, hes, ← h3]
      exact ⟨rfl, by simp only [Stats.add, hp]⟩

/-! ## stats_count -/

theorem foldl_stats (ys : List (Agg × Stats)) : ∀ s : Stats,
    (ys.foldl (fun s y => s.add y.2) s).corrupted = s.corrupted + (ys.map (·.2.corrupted)).sum ∧
    (ys.foldl (fun s y => s.add y.2) s).processed = s.processed + (ys.map (·.2.processed)).sum ∧
    (ys.foldl (fun s y => s.add y.2) s).dirs = s.dirs + (ys.map (·.2.dirs)).sum := by
  induction ys with
  | nil => intro s; simp
  | cons y ys ih =>
    intro s
    obtain ⟨h1, h2, h3⟩ := ih (s.add y.2)
    simp only [List.foldl_cons, List.map_cons, List.sum_cons]
    rw [h1, h2, h3]
    simp only [Stats.add]
    omega

/-- **stats_count** — "the query statistics count the blocks that had to be skipped": the counters of
    the result are the sums of the per-day statistics of the selected days (`day_stats` says what a
    day reports), so every skipped block of every day is counted once. -/
theorem stats_count (q : Q) (dec : Dec) (days : List Day) (agg : Agg) (s : Stats)
    (h : runQuery q dec days = .ok (agg, s)) :
    ∃ ys : List (Agg × Stats), (selected q days).map (dayEffect q dec) = ys.map Outcome.ok ∧
      s.corrupted = (ys.map (·.2.corrupted)).sum ∧ s.processed = (ys.map (·.2.processed)).sum ∧
      s.dirs = (ys.map (·.2.dirs)).sum := by
  rw [runQuery_eq] at h
  cases hc : combine ((selected q days).map (dayEffect q dec)) [] Stats.zero with
  | ok r =>
    rw [hc] at h
    simp only [C03.obind_ok, Outcome.ok.injEq, Prod.mk.injEq] at h
    obtain ⟨ys, h1, _, h3⟩ := combine_ok _ _ _ _ hc
    obtain ⟨f1, f2, f3⟩ := foldl_stats ys Stats.zero
    have hs2 : s.corrupted = r.2.corrupted ∧ s.processed = r.2.processed ∧ s.dirs = r.2.dirs := by
      rw [← h.2]; exact ⟨rfl, rfl, rfl⟩
    rw [h3, f1, f2, f3] at hs2
    have z1 : Stats.zero.corrupted = 0 := rfl
    have z2 : Stats.zero.processed = 0 := rfl
    have z3 : Stats.zero.dirs = 0 := rfl
    rw [z1, z2, z3, Nat.zero_add, Nat.zero_add, Nat.zero_add] at hs2
    exact ⟨ys, h1, hs2.1, hs2.2.1, hs2.2.2⟩
  | err e => rw [hc] at h; cases h
  | panic w => rw [hc] at h; cases h

/-- **day_stats** — what one day reports: one directory; if its metadata decodes, every block whose
    timestamp lies in the queried range as processed and at most those as corrupted (each exactly when it
    is skipped, `skipped_block_adds_nothing`); if its metadata does not decode, one corrupted block, no
    processed block and no row. -/
theorem day_stats (q : Q) (dec : Dec) (d : Day) (bytes : Bytes) (hb : d.bmeta = some bytes) (a : Agg) (ds : Stats)
    (h : dayEffect q dec d = .ok (a, ds)) :
    ds.dirs = 1 ∧
    (∀ m, C03.unmarshal bytes = .ok m → ds.processed = inRangeCount q m.ts ∧ ds.corrupted ≤ ds.processed) ∧
    (∀ e, C03.unmarshal bytes = .err e → ds.processed = 0 ∧ ds.corrupted = 1 ∧ a = []) := by
  unfold dayEffect at h
  rcases processDay_spec q dec d bytes hb with ⟨_, hoom⟩ | ⟨es, ds', h1, _, h3, h4, he⟩
  · rw [hoom] at h; cases h
  · rw [he] at h
    simp only [Outcome.ok.injEq, Prod.mk.injEq] at h
    obtain ⟨ha, hd⟩ := h
    subst hd
    refine ⟨h1, h3, fun e hu => ?_⟩
    obtain ⟨p, c, hes⟩ := h4 e hu
    exact ⟨p, c, by rw [← ha, hes]; rfl⟩

set_option maxRecDepth 200000

/-! ## the hypotheses are satisfiable (non-vacuity) and the limit is real -/

/-- `.blockmeta` of a day with one block (written by the real writer: one IPv4 and one IPv6 flow) -/
def exMeta : Bytes := [0, 0, 0, 0, 0, 0, 0, 1, 0, 0, 0, 0, 0, 0, 0, 1, 0, 0, 0, 0, 0, 0, 0, 1, 0, 0, 0, 0, 0, 0, 0, 1, 0, 0, 0, 0, 0, 0, 0, 0, 0, 0, 0, 0, 0, 0, 1, 244, 0, 0, 0, 0, 0, 0, 0, 50, 0, 0, 0, 0, 0, 0, 0, 5, 0, 0, 0, 0, 0, 0, 0, 7, 0, 0, 0, 0, 0, 0, 0, 20, 0, 0, 0, 20, 0, 0, 0, 20, 1, 0, 0, 0, 0, 0, 0, 0, 20, 0, 0, 0, 20, 0, 0, 0, 20, 1, 0, 0, 0, 0, 0, 0, 0, 2, 0, 0, 0, 2, 0, 0, 0, 2, 1, 0, 0, 0, 0, 0, 0, 0, 4, 0, 0, 0, 4, 0, 0, 0, 4, 1, 0, 0, 0, 0, 0, 0, 0, 5, 0, 0, 0, 5, 0, 0, 0, 5, 1, 0, 0, 0, 0, 0, 0, 0, 3, 0, 0, 0, 3, 0, 0, 0, 3, 1, 0, 0, 0, 0, 0, 0, 0, 3, 0, 0, 0, 3, 0, 0, 0, 3, 1, 0, 0, 0, 0, 0, 0, 0, 3, 0, 0, 0, 3, 0, 0, 0, 3, 1, 0, 0, 0, 0, 101, 84, 12, 88, 0, 0, 0, 1, 0, 0, 0, 1, 0, 0, 0, 0, 0, 0, 0, 0]

/-- its eight column files (null encoder) -/
def exCols : List (Option Bytes) := [some [10, 0, 0, 1, 32, 1, 13, 184, 0, 0, 0, 0, 0, 0, 0, 0, 0, 0, 0, 1], some [192, 168, 1, 1, 254, 128, 0, 0, 0, 0, 0, 0, 0, 0, 0, 0, 0, 0, 0, 1], some [17, 6], some [0, 53, 1, 187], some [2, 100, 0, 144, 1], some [1, 10, 40], some [1, 1, 4], some [1, 2, 5]]

def exDay : Day := ⟨1700006400, [49, 45, 49], some exMeta, exCols⟩
/-- the next day, same content, with a `sip` column cut to 5 bytes (damaged) -/
def exDayCut : Day := ⟨1700092800, [], some exMeta, exCols.set 0 (some [10, 0, 0, 1, 32])⟩
/-- a day whose metadata file is cut to 100 bytes, with a directory suffix holding a byte beyond 'z' -/
def exDayNoMeta : Day := ⟨1700179200, [49, 45, 126], some (exMeta.take 100), exCols⟩
/-- a day whose first `sip` descriptor announces a raw length of 2^30 bytes (bytes 84..87 of the file) -/
def exDayHuge : Day := ⟨1700006400, [], some (exMeta.take 84 ++ [64, 0, 0, 0] ++ exMeta.drop 88), exCols⟩

def exQ : Q := ⟨true, false, true, false, true, none, none, none, none, 1700006400, 1700265600⟩
def exDec : Dec := fun _ _ _ => none

def statsOf : Outcome (Agg × Stats) → Option (Nat × Nat × Nat × Nat) 
  | .ok r => some (r.1.length, r.2.processed, r.2.corrupted, r.2.dirs)
  | _ => none

/-- an intact day yields its two flows, one processed block, nothing corrupted -/
example : statsOf (runQuery exQ exDec [exDay]) = some (2, 1, 0, 1) := by decide

/-- with a damaged second day and an undecodable third day the result still holds the two rows of the
    intact day; the statistics count the skipped block and the undecodable day -/
example : statsOf (runQuery exQ exDec [exDay, exDayCut, exDayNoMeta]) = some (2, 2, 2, 3) := by decide

example : (dayEffect exQ exDec exDayCut).isOk = true ∧ statsOf (dayEffect exQ exDec exDayCut) = some (0, 1, 1, 1) := by decide

/-- `Small` is satisfiable and `reader_total_partial` is not vacuous: the announced lengths of `exMeta` are tiny -/
example : ∃ m, C03.unmarshal exMeta = .ok m ∧ (m.cols.all fun c => c.descs.all fun d => d.rawLen < bigLen && d.len < bigLen) = true := by
  refine ⟨_, rfl, ?_⟩; decide

/-- **oom_reachable** — outside `Small` the reader does end with "out of memory": the hypothesis of
    `reader_total_partial` cannot be dropped (known finding C06-huge-announced-length-out-of-memory) -/
theorem oom_reachable : runQuery exQ exDec [exDayHuge] = .err "oom" := by decide

end C06
