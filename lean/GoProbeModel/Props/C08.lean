import GoProbeModel.Lemmas.C08

/-!
C08 — property theorems: query results equal a direct aggregation of the stored flows.

Statements are about
* `C08.run` — the hand model of the query path (`NewQuery`, `walkDB` / `CreateWorkerJobs`,
  `readBlocksAndEvaluate`, `aggregate`, `RunStatement`; Model/C08.lean, tied to the code by the
  correspondence harness harness/c08.go and by the source-shape facts), which computes the
  IP-version limit with the translator-regenerated `IPVersion.LimitAnd` / `LimitOr` / `IsLimited`,
  the directory arithmetic with the regenerated `DirTimestamp` / `EpochDay` / `DBWriteInterval`
  and the direction filter with the regenerated `Counters.Is…` (Gen/IPLimit.lean, Gen/ListMeta.lean);
* `C08.querySpec` / `C08.specResult` — the executable spec (Spec/C08.lean).

Domain (`Dom`, all decidable and checked by the judge, `dom_of_domain`):
conditions of the simple grammar (`Cond.ok`), flows with both addresses of one family
(`flowOk`), per interface a write history the writer can produce (`histOk`).
Helper lemmas live in Lemmas/C08.lean.
-/
namespace C08
open DB Gen.IPLimit Gen.ListMeta

/-- the hypotheses of the refinement theorem -/
structure Dom (hist : List WriteOut) (q : Query) : Prop where
  cond : ∀ c, q.cond = some c → c.ok = true
  flows : ∀ w ∈ hist, ∀ f ∈ w.flows, flowOk f = true
  hist : ∀ i ∈ ifacesOf hist, histOk (histOf hist i) = true

/-- the judge's decidable domain check implies the hypotheses -/
theorem dom_of_domain (hist : List WriteOut) (q : Query) (h : domain hist q = none) : Dom hist q := by
  simp only [domain, Option.map_eq_none_iff, List.find?_eq_none, checks, List.mem_cons, List.not_mem_nil, or_false,
    forall_eq_or_imp, forall_eq, Bool.not_eq_true', Bool.not_eq_false] at h
  obtain ⟨_, hc, hh, hf, _⟩ := h
  refine ⟨?_, ?_, ?_⟩
  · intro c hq; simpa [hq] using hc
  · simpa using hf
  · intro i hi
    simp only [List.all_eq_true] at hh
    exact hh i hi

/-! ## the loop of `RunStatement` -/

/-- all entries of the per-interface final maps, in iteration order -/
def allEntries (hist : List WriteOut) (q : Query) : List (MKey × Ctr) :=
  (ifaceList hist q).flatMap (ifaceMap hist q)

/-- entries that pass the direction `ValFilter` -/
def kept (hist : List WriteOut) (q : Query) : List (MKey × Ctr) :=
  (allEntries hist q).filter fun e => valFilter q.dir e.2

theorem run_eq (hist : List WriteOut) (q : Query) :
    run hist q = ⟨(kept hist q).map dropFlag, sumCtr ((kept hist q).map (·.2)), (kept hist q).length⟩ := by
  unfold run
  simp only
  rw [foldl_flatMap' (ifaceList hist q) (ifaceMap hist q) (emit q.dir), foldl_emit]
  simp [kept, allEntries, Ctr.zero_add]

/-- **totals_eq_sum_rows** — clause 2 of C08: `Summary.Totals` is the sum of the counters of the
    returned rows (for every database and query, no hypothesis). -/
theorem totals_eq_sum_rows (hist : List WriteOut) (q : Query) :
    (run hist q).totals = sumCtr ((run hist q).rows.map (·.2)) := by
  rw [run_eq]; simp [List.map_map, Function.comp_def, dropFlag]

/-- **hits_eq_rows** — clause 3 of C08: `Summary.Hits.Total` is the number of returned rows
    (for every database and query, no hypothesis). -/
theorem hits_eq_rows (hist : List WriteOut) (q : Query) : (run hist q).hits = (run hist q).rows.length := by
  rw [run_eq]; simp

/-! ## pruning -/

/-- **pruning_sound** (key lemma, over the regenerated `IPVersion.LimitAnd` / `LimitOr`): if the
    limit computed over the condition tree is IPv4 (IPv6), every flow that satisfies the condition
    is an IPv4 (IPv6) flow. -/
theorem pruning_sound (c : Cond) (f : Flow) (hf : flowOk f = true) (hs : sem c f = true) :
    (limit c = IPVersionV4 → f.isV4 = true) ∧ (limit c = IPVersionV6 → f.isV4 = false) :=
  limit_sound c f hf hs

/-- **pruning_sound**, as the scan uses it: a stored flow that the IP-version limit of the query
    plan removes from the loop does not satisfy the query's condition. -/
theorem pruned_not_matching (q : Query) (hc : ∀ c, q.cond = some c → c.ok = true) (w : WriteOut) (f : Flow)
    (hf : flowOk f = true) (hm : f ∈ w.flows) (hp : f ∉ entriesOf (plan q) w) : q.matches f = false := by
  cases hq : q.matches f with
  | false => rfl
  | true =>
    exfalso; apply hp
    have hs := plan_sound q hc f hf hq
    unfold entriesOf
    simp only
    split
    · rename_i h6; exact List.mem_filter.mpr ⟨hm, by simp [hs.2 h6]⟩
    · split
      · rename_i h4; exact List.mem_filter.mpr ⟨hm, hs.1 h4⟩
      · rw [List.mem_append, List.mem_filter, List.mem_filter]
        cases h : f.isV4
        · right; exact ⟨hm, by simp⟩
        · left; exact ⟨hm, rfl⟩

/-- the rule the code used before the fix — merging the IP versions of the condition attributes
    with the regenerated `IPVersion.Merge` — is NOT sound: `sip = 1.2.3.4 | dport = 80` merges to
    IPv4 although an IPv6 flow to port 80 satisfies it (the replayed defect). -/
example :
    let c := Cond.or (.ip true .eq "01020304") (.num true .eq 80)
    let f : Flow := ⟨"20010db8000000000000000000000001", "fe800000000000000000000000000001", 80, 6, 100, 100, 10, 10⟩
    IPVersion_Merge (IPVersion_Merge IPVersionNone IPVersionV4) IPVersionNone = IPVersionV4 ∧
      sem c f = true ∧ f.isV4 = false ∧ limit c = IPVersionNone := by decide

/-- … and `sip != 1.2.3.4` carried IPv4 although every IPv6 flow satisfies it -/
example :
    let c := Cond.ip true .ne "01020304"
    let f : Flow := ⟨"20010db8000000000000000000000001", "fe800000000000000000000000000001", 80, 6, 100, 100, 10, 10⟩
    sem c f = true ∧ f.isV4 = false ∧ limit c = IPVersionNone ∧ limit (nnf (.not (.ip true .eq "01020304")) false) = IPVersionNone := by
  decide

/-! ## refinement -/

theorem mIface_tag (hist : List WriteOut) (q : Query) (i : String) :
    ∀ k ∈ (mIface hist q i).map (·.1), k.2.iface = i := by
  intro k hk
  simp only [mIface, mBlock, List.map_flatMap, List.mem_flatMap, List.map_map, List.mem_map, Function.comp_def] at hk
  obtain ⟨w, hw, f, _, rfl⟩ := hk
  have := (List.mem_filter.mp (List.mem_filter.mp hw).1).2
  simpa [mkey, keyOf] using this

theorem rep_allEntries (hist : List WriteOut) (q : Query) (hd : Dom hist q) :
    Rep (allEntries hist q) ((ifaceList hist q).flatMap (mIface hist q)) := by
  apply rep_flatMap (ifaceList hist q) (ifaceMap hist q) (mIface hist q) (fun k => k.2.iface)
  · intro i hi
    exact rep_ifaceMap hist q i hd.cond hd.flows (hd.hist i ((mem_ifaceList hist q i).mp hi).1)
  · exact nodup_ifaceList hist q
  · intro i _; exact mIface_tag hist q i

theorem mItems_keys (hist : List WriteOut) (q : Query) (a : MKey)
    (ha : a ∈ ((ifaceList hist q).flatMap (mIface hist q)).map (·.1)) :
    ∃ w ∈ hist, ∃ f ∈ w.flows, a = mkey (plan q) w f := by
  simp only [mIface, mBlock, List.map_flatMap, List.mem_flatMap, List.map_map, List.mem_map, Function.comp_def] at ha
  obtain ⟨i, _, w, hw, f, hf, rfl⟩ := ha
  exact ⟨w, (List.mem_filter.mp (List.mem_filter.mp hw).1).1, f, (List.mem_filter.mp hf).1, rfl⟩

theorem mItems_drop_perm (hist : List WriteOut) (q : Query) :
    (((ifaceList hist q).flatMap (mIface hist q)).map dropFlag).Perm (items hist q) := by
  have h1 : ((ifaceList hist q).flatMap (mIface hist q)).map dropFlag =
      ((ifaceList hist q).flatMap fun i => (histOf hist i).filter (inRange q.first q.last)).flatMap
        (fun w => (w.flows.filter q.matches).map fun f => (keyOf q.sel w f, ctrOf f)) := by
    rw [List.flatMap_assoc, List.map_flatMap]
    apply flatMap_congr'
    intro i _
    simp only [mIface, List.map_flatMap]
    apply flatMap_congr'
    intro w _
    have hsel : (plan q).sel = q.sel := by unfold plan; cases q.cond <;> rfl
    simp only [mBlock, List.map_map, Function.comp_def, dropFlag, mkey, hsel]
  rw [h1]
  unfold items
  apply List.Perm.flatMap_right
  refine (iface_partition hist _ (nodup_ifaceList hist q) _).trans (List.Perm.of_eq ?_)
  apply List.filter_congr
  intro w hw
  congr 1
  cases hq : q.wants w.iface
  · rw [Bool.eq_false_iff]; intro h
    rw [List.contains_iff_mem, mem_ifaceList] at h
    rw [hq] at h; exact Bool.false_ne_true h.2
  · rw [List.contains_iff_mem, mem_ifaceList]
    exact ⟨mem_ifacesOf hist w hw, hq⟩

/-- the entries of all final maps, without the `isIPv4` component, represent the spec's items -/
theorem rep_rowsAll (hist : List WriteOut) (q : Query) (hd : Dom hist q) :
    Rep ((allEntries hist q).map dropFlag) (items hist q) := by
  apply rep_perm (rep_dropFlag (rep_allEntries hist q hd) ?_) (mItems_drop_perm hist q)
  intro a ha b hb hab
  obtain ⟨w, hw, f, hf, rfl⟩ := mItems_keys hist q a ha
  obtain ⟨w', hw', f', hf', rfl⟩ := mItems_keys hist q b hb
  exact mkey_inj _ w w' f f' (hd.flows w hw f hf) (hd.flows w' hw' f' hf') hab

theorem rows_eq (hist : List WriteOut) (q : Query) :
    (run hist q).rows = ((allEntries hist q).map dropFlag).filter fun r => dirOk q.dir r.2 := by
  rw [run_eq]
  simp only [kept, List.filter_map, Function.comp_def, dropFlag, valFilter_eq]

/-- **query_refines_spec** — clause 1 of C08: for every write history the writer can produce, every
    attribute selection, every condition of the grammar, every direction filter, every time range
    and every interface selection, the rows of the query (as a multiset; the engine's order is
    the hash maps' iteration order and is re-sorted by the caller) are exactly the spec's rows:
    the stored flows of the queried interfaces that satisfy the condition and whose block time
    lies in `[first, last]`, grouped by the selected attributes and the interface / time labels,
    counters summed per group, groups kept iff their summed counters match the direction filter. -/
theorem query_refines_spec (hist : List WriteOut) (q : Query) (hd : Dom hist q) :
    (run hist q).rows.Perm (querySpec hist q) := by
  rw [rows_eq]
  exact (perm_of_rep (rep_rowsAll hist q hd) (rep_groupSum _)).filter _

/-- the whole result (rows, totals, hits) is the spec's result -/
theorem run_refines_specResult (hist : List WriteOut) (q : Query) (hd : Dom hist q) :
    (run hist q).rows.Perm (specResult hist q).rows ∧
      (run hist q).totals = (specResult hist q).totals ∧ (run hist q).hits = (specResult hist q).hits := by
  have h := query_refines_spec hist q hd
  refine ⟨h, ?_, ?_⟩
  · rw [totals_eq_sum_rows]; exact sumCtr_perm (h.map _)
  · rw [hits_eq_rows]; exact h.length_eq

/-- **direction_filter_spec** — clause 4 of C08: a group is returned iff it is a group of the
    unfiltered aggregation and its *summed* counters match the direction filter (the code's
    `Counters.IsOnlyInbound` / `IsOnlyOutbound` / `IsUnidirectional` / `IsBidirectional`,
    regenerated, coincide with the spec's `dirOk`: `valFilter_eq`). -/
theorem direction_filter_spec (hist : List WriteOut) (q : Query) (hd : Dom hist q) (r : Key × Ctr) :
    r ∈ (run hist q).rows ↔
      (r.1 ∈ (items hist q).map (·.1) ∧ r.2 = sumFor (items hist q) r.1) ∧ valFilter q.dir r.2 = true := by
  rw [(query_refines_spec hist q hd).mem_iff, querySpec, List.mem_filter, valFilter_eq]
  have hr := rep_groupSum (items hist q)
  obtain ⟨k, c⟩ := r
  rw [mem_of_nodup _ hr.nodup, hr.keys, hr.sums]

/-- without a direction filter nothing is dropped -/
theorem no_filter_keeps_all (hist : List WriteOut) (q : Query) (h : q.dir = none) :
    querySpec hist q = groupSum (items hist q) := by
  simp [querySpec, h, dirOk]

/-- **aggregation_order_irrelevant**: the result as a multiset does not depend on the order in
    which entries, blocks, directories and workloads reach the maps (hash-map iteration order,
    worker scheduling) — the justification for modelling the maps abstractly. -/
theorem aggregation_order_irrelevant {κ : Type} [DecidableEq κ] (its its' : List (κ × Ctr)) (h : its.Perm its') :
    (its.foldl (fun m e => AMap.upd m e.1 e.2) []).Perm (its'.foldl (fun m e => AMap.upd m e.1 e.2) []) := by
  have h1 := rep_foldl_upd its (rep_nil (κ := κ))
  have h2 := rep_foldl_upd its' (rep_nil (κ := κ))
  simp only [List.nil_append] at h1 h2
  exact perm_of_rep h1 (rep_perm h2 h.symm)

/-- the spec adds up over a split of the history's items: sums per key are additive -/
theorem spec_sums_additive (a b : List (Key × Ctr)) (k : Key) :
    sumFor (a ++ b) k = (sumFor a k).add (sumFor b k) := sumFor_append a b k

/-! ## non-vacuity and the need for the hypotheses -/

def f4a : Flow := ⟨"0a000001", "c0a80101", 80, 6, 10, 10, 1, 1⟩
def f4b : Flow := ⟨"01020304", "c0a80101", 443, 6, 10, 10, 1, 0⟩
def f6a : Flow := ⟨"20010db8000000000000000000000001", "fe800000000000000000000000000001", 80, 6, 100, 100, 10, 10⟩
def f6b : Flow := ⟨"20010db8000000000000000000000002", "fe800000000000000000000000000001", 443, 6, 100, 100, 0, 10⟩

/-- two interfaces, two days, mixed families -/
def wit : List WriteOut :=
  [⟨"eth0", 1700006700, 0, [f4a, f4b, f6a, f6b]⟩, ⟨"eth1", 1700006700, 1, [f4a, f6a]⟩,
   ⟨"eth0", 1700007000, 0, [f4a, f6b]⟩, ⟨"eth0", 1700093100, 2, [f6a]⟩]

/-- `dport`-only grouping of `sip = 1.2.3.4 | dport = 80` over both interfaces -/
def witQ : Query :=
  ⟨⟨false, false, true, false, false⟩, some (.or (.ip true .eq "01020304") (.num true .eq 80)), none,
   1700000000, 1700090000, none⟩

/-- the hypotheses are satisfiable on a non-trivial instance, on which the IPv6 flows of the
    witness take part in the result (v4 + v6 flows to port 80 merged into one group) -/
example : domain wit witQ = none ∧
    querySpec wit witQ = [(⟨"eth0", none, none, none, some 80, none⟩, ⟨120, 120, 12, 12⟩),
                          (⟨"eth0", none, none, none, some 443, none⟩, ⟨10, 10, 1, 0⟩),
                          (⟨"eth1", none, none, none, some 80, none⟩, ⟨110, 110, 11, 11⟩)] ∧
    render (run wit witQ) = render (specResult wit witQ) := by decide

/-- `Cond.ok` is needed: an ordering comparator on an address (rejected by the real parser) has no
    complement in the grammar, so the negation normal form changes its meaning -/
example : (Cond.not (.ip true .lt "01020304")).ok = false ∧
    sem (.not (.ip true .lt "01020304")) f4a ≠ sem (nnf (.not (.ip true .lt "01020304")) false) f4a := by decide

/-- `histOk` is needed: timestamps that decrease within a day (which the writer cannot store,
    C03) break the covered-interval clamp -/
example :
    let h : List WriteOut := [⟨"eth0", 1700006700, 0, [f4a]⟩, ⟨"eth0", 1700006400, 0, [f6a]⟩]
    let q : Query := ⟨⟨true, false, false, false, false⟩, none, none, 1700000000, 1700090000, none⟩
    histOk h = false ∧ (run h q).rows.length ≠ (querySpec h q).length := by decide

end C08
