import GoProbeModel.Model.C24

/-!
# C24 — merging databases follows the documented per-day plan

Property theorems (all for EVERY source / destination database, option set and interface request;
databases are association lists read with first-match lookups, so no well-formedness is assumed):

* `plan_table`        the regenerated `planDayMerge` = the documented rule `docAction` in all 2^4 cases
                      of (hasDst, source complete, destination complete, overwrite), incl. which sides a
                      rebuild reads;
* `complete_rule`     `isDayComplete` (hand-transcribed head + regenerated arithmetic tail, default
                      tolerance from the regenerated constant) = the documented completeness rule;
* `union_precedence`  `mergeSnapshots ∘ readDaySnapshots` as written = the block-wise union ordered by
                      timestamp in which the destination's block wins a shared timestamp (the source's with
                      overwrite), and the conflict counters = number of shared timestamps;
* `select_spec`       `selectInterfaces` as written = the documented selection;
* `merge_refines_spec` after a real merge every day of every interface is the documented per-day result
                      (selected interface and source day present) or untouched (otherwise);
* `counts_match`      the summary = the number of documented actions of each kind (+ conflicts);
* `source_untouched`, `dry_run_noop`, `merge_idempotent`.

Everything else in this file is a helper lemma. The model (`Model/C24.lean`) is the code as written
over `Gen/Merge.lean`; the spec (`Spec/C24.lean`) is the documented rule.
-/
set_option linter.unusedSimpArgs false

namespace C24
open Gen.Merge

/-! ## generic sorted-insert theory -/
section Sorted
variable {α : Type} [LT α] [DecidableEq α] [DecidableRel (α := α) (· < ·)]

/-- the three facts about `<` the sorting lemmas need (strict total order) -/
structure StrictTotal (α : Type) [LT α] : Prop where
  irrefl : ∀ a : α, ¬ a < a
  trans : ∀ a b c : α, a < b → b < c → a < c
  total : ∀ a b : α, ¬ a < b → a ≠ b → b < a

theorem mem_insSorted (x y : α) (l : List α) : y ∈ insSorted x l ↔ y = x ∨ y ∈ l := by
  induction l with
  | nil => simp [insSorted]
  | cons z zs ih =>
    unfold insSorted
    split
    · simp
    · split
      · rename_i h; subst h; simp
      · simp [ih]; constructor <;> (intro h; rcases h with h | h | h <;> simp [h])

theorem sorted_insSorted (H : StrictTotal α) (x : α) (l : List α) (hl : l.Pairwise (· < ·)) :
    (insSorted x l).Pairwise (· < ·) := by
  induction l with
  | nil => simp [insSorted]
  | cons z zs ih =>
    rw [List.pairwise_cons] at hl
    unfold insSorted
    split
    · rename_i h
      refine List.pairwise_cons.2 ⟨?_, List.pairwise_cons.2 hl⟩
      intro a ha
      rcases List.mem_cons.1 ha with rfl | ha
      · exact h
      · exact H.trans _ _ _ h (hl.1 a ha)
    · split
      · exact List.pairwise_cons.2 hl
      · rename_i h1 h2
        refine List.pairwise_cons.2 ⟨?_, ih hl.2⟩
        intro a ha
        rcases (mem_insSorted x a zs).1 ha with rfl | ha
        · exact H.total _ _ h1 h2
        · exact hl.1 a ha

theorem mem_sortDedup_aux (xs acc : List α) (y : α) :
    y ∈ xs.foldl (fun acc x => insSorted x acc) acc ↔ y ∈ xs ∨ y ∈ acc := by
  induction xs generalizing acc with
  | nil => simp
  | cons x xs ih => simp only [List.foldl_cons, ih, mem_insSorted, List.mem_cons]; grind

theorem mem_sortDedup (xs : List α) (y : α) : y ∈ sortDedup xs ↔ y ∈ xs := by
  simp [sortDedup, mem_sortDedup_aux]

theorem sorted_sortDedup_aux (H : StrictTotal α) (xs acc : List α) (h : acc.Pairwise (· < ·)) :
    (xs.foldl (fun acc x => insSorted x acc) acc).Pairwise (· < ·) := by
  induction xs generalizing acc with
  | nil => simpa
  | cons x xs ih => exact ih _ (sorted_insSorted H x acc h)

theorem sorted_sortDedup (H : StrictTotal α) (xs : List α) : (sortDedup xs).Pairwise (· < ·) :=
  sorted_sortDedup_aux H xs [] List.Pairwise.nil

omit [DecidableEq α] [DecidableRel (α := α) (· < ·)] in
theorem nodup_of_sorted (H : StrictTotal α) (l : List α) (h : l.Pairwise (· < ·)) : l.Nodup :=
  h.imp (fun {a b} hab (heq : a = b) => H.irrefl a (by rw [← heq] at hab; exact hab))

omit [DecidableEq α] [DecidableRel (α := α) (· < ·)] in
/-- increasing duplicate-free lists with the same members are equal -/
theorem sorted_ext (H : StrictTotal α) (l₁ l₂ : List α) (h₁ : l₁.Pairwise (· < ·)) (h₂ : l₂.Pairwise (· < ·))
    (hm : ∀ x, x ∈ l₁ ↔ x ∈ l₂) : l₁ = l₂ := by
  induction l₁ generalizing l₂ with
  | nil =>
    cases l₂ with
    | nil => rfl
    | cons b bs => exact absurd ((hm b).2 (by simp)) (by simp)
  | cons a as ih =>
    cases l₂ with
    | nil => exact absurd ((hm a).1 (by simp)) (by simp)
    | cons b bs =>
      rw [List.pairwise_cons] at h₁ h₂
      have hab : a = b := by
        have ha := (hm a).1 (by simp)
        have hb := (hm b).2 (by simp)
        rcases List.mem_cons.1 ha with h | h
        · exact h
        · rcases List.mem_cons.1 hb with h' | h'
          · exact h'.symm
          · exact absurd (H.trans _ _ _ (h₂.1 a h) (h₁.1 b h')) (H.irrefl _)
      subst hab
      congr 1
      apply ih _ h₁.2 h₂.2
      intro x
      constructor
      · intro hx
        rcases List.mem_cons.1 ((hm x).1 (List.mem_cons_of_mem _ hx)) with h | h
        · exact absurd (h ▸ h₁.1 x hx) (H.irrefl _)
        · exact h
      · intro hx
        rcases List.mem_cons.1 ((hm x).2 (List.mem_cons_of_mem _ hx)) with h | h
        · exact absurd (h ▸ h₂.1 x hx) (H.irrefl _)
        · exact h

end Sorted

theorem intStrict : StrictTotal Int := ⟨fun a => by omega, fun a b c => by omega, fun a b => by omega⟩
theorem stringStrict : StrictTotal String :=
  ⟨String.lt_irrefl, fun _ _ _ => String.lt_trans, fun a b h1 h2 => by
    rcases String.le_total a b with h | h
    · exact absurd (String.le_antisymm h (String.not_lt.1 h1)) h2
    · have : ¬ a < b := h1
      exact Decidable.byContradiction fun h3 => h2 (String.le_antisymm (String.not_lt.1 h3) h)⟩


/-! ## blocks: lookups, sorted insert, Go-map model -/

def BSorted (d : Day) : Prop := d.Pairwise (fun a b => a.ts < b.ts)

/-- first block with timestamp `t` -/
def get (d : Day) (t : Int) : Option Block := d.find? (·.ts == t)

/-- last block with timestamp `t` (what a Go map keyed by timestamp keeps) -/
def lastGet (d : Day) (t : Int) : Option Block := get d.reverse t

theorem get_ts {d : Day} {t : Int} {b : Block} (h : get d t = some b) : b.ts = t := by
  have := List.find?_some h
  simpa using this

theorem get_nil (t : Int) : get [] t = none := rfl

theorem get_cons (x : Block) (xs : Day) (t : Int) : get (x :: xs) t = if x.ts = t then some x else get xs t := by
  simp only [get, List.find?_cons]
  by_cases h : x.ts = t
  · simp [h]
  · have : (x.ts == t) = false := by simpa using h
    simp [h, this]

theorem get_append (xs ys : Day) (t : Int) : get (xs ++ ys) t = (get xs t).or (get ys t) := by
  simp [get, List.find?_append]

theorem get_isSome (d : Day) (t : Int) : (get d t).isSome = hasTs d t := by
  induction d with
  | nil => simp [get, hasTs]
  | cons x xs ih =>
    rw [get_cons]
    simp only [hasTs, List.any_cons] at ih ⊢
    by_cases h : x.ts = t <;> simp [h, ih]

theorem get_none_of_lt (l : Day) (t : Int) (hl : ∀ x ∈ l, t < x.ts) : get l t = none := by
  induction l with
  | nil => rfl
  | cons x xs ih =>
    rw [get_cons]
    have := hl x (by simp)
    have h : ¬ x.ts = t := by omega
    simp [h]
    exact ih (fun y hy => hl y (by simp [hy]))

theorem mem_of_get {d : Day} {t : Int} {b : Block} (h : get d t = some b) : b ∈ d :=
  List.mem_of_find?_eq_some h

theorem mem_ins (b y : Block) (d : Day) : y ∈ ins b d → y = b ∨ y ∈ d := by
  induction d with
  | nil => simp [ins]
  | cons x xs ih =>
    unfold ins
    split
    · simp
    · split
      · simp only [List.mem_cons]; intro h; rcases h with h | h <;> simp [h]
      · simp only [List.mem_cons]; intro h; rcases h with h | h
        · simp [h]
        · rcases ih h with h | h <;> simp [h]

theorem get_ins (b : Block) (d : Day) (t : Int) (hd : BSorted d) :
    get (ins b d) t = if b.ts = t then some b else get d t := by
  induction d with
  | nil => simp [ins, get_cons, get_nil]
  | cons x xs ih =>
    unfold BSorted at hd
    rw [List.pairwise_cons] at hd
    unfold ins
    split
    · simp [get_cons]
    · split
      · rename_i h1 h2
        simp only [get_cons]
        by_cases hbt : b.ts = t
        · simp [hbt]
        · have : ¬ x.ts = t := by omega
          simp [hbt, this]
      · rename_i h1 h2
        have ih' := ih hd.2
        simp only [get_cons, ih']
        by_cases hxt : x.ts = t
        · have : ¬ b.ts = t := by omega
          simp [hxt, this]
        · simp [hxt]

theorem sorted_ins (b : Block) (d : Day) (hd : BSorted d) : BSorted (ins b d) := by
  induction d with
  | nil => simp [ins, BSorted]
  | cons x xs ih =>
    unfold BSorted at hd ⊢
    rw [List.pairwise_cons] at hd
    unfold ins
    split
    · rename_i h
      refine List.pairwise_cons.2 ⟨?_, List.pairwise_cons.2 hd⟩
      intro a ha
      rcases List.mem_cons.1 ha with rfl | ha
      · exact h
      · have := hd.1 a ha; omega
    · split
      · rename_i h1 h2
        refine List.pairwise_cons.2 ⟨?_, hd.2⟩
        intro a ha; have := hd.1 a ha; omega
      · rename_i h1 h2
        refine List.pairwise_cons.2 ⟨?_, ih hd.2⟩
        intro a ha
        rcases mem_ins b a xs ha with rfl | ha
        · omega
        · exact hd.1 a ha

theorem sorted_insAll (bs m : Day) (hm : BSorted m) : BSorted (insAll bs m) := by
  induction bs generalizing m with
  | nil => simpa [insAll]
  | cons b bs ih => exact ih _ (sorted_ins b m hm)

theorem get_insAll (bs m : Day) (t : Int) (hm : BSorted m) :
    get (insAll bs m) t = (lastGet bs t).or (get m t) := by
  induction bs generalizing m with
  | nil => simp [insAll, lastGet, get_nil]
  | cons b bs ih =>
    have := ih (ins b m) (sorted_ins b m hm)
    simp only [insAll, List.foldl_cons] at this ⊢
    rw [this, get_ins b m t hm]
    simp only [lastGet, List.reverse_cons, get_append, get_cons, get_nil]
    by_cases h : b.ts = t <;> simp [h]
    all_goals cases get bs.reverse t <;> simp

/-- a day normalised to an increasing list, later duplicates winning -/
theorem get_norm (d : Day) (t : Int) : get (insAll d []) t = lastGet d t := by
  rw [get_insAll d [] t List.Pairwise.nil]; simp [get_nil]

/-- block lists ordered by timestamp are determined by their lookup function -/
theorem bsorted_ext (l₁ l₂ : Day) (h₁ : BSorted l₁) (h₂ : BSorted l₂) (hg : ∀ t, get l₁ t = get l₂ t) : l₁ = l₂ := by
  induction l₁ generalizing l₂ with
  | nil =>
    cases l₂ with
    | nil => rfl
    | cons b bs => have := hg b.ts; simp [get_cons, get_nil] at this
  | cons a as ih =>
    cases l₂ with
    | nil => have := hg a.ts; simp [get_cons, get_nil] at this
    | cons b bs =>
      unfold BSorted at h₁ h₂
      rw [List.pairwise_cons] at h₁ h₂
      have hab : a = b := by
        have ha := hg a.ts
        have hb := hg b.ts
        simp only [get_cons] at ha hb
        by_cases h : b.ts = a.ts
        · simp [h] at ha; exact ha
        · have h' : ¬ a.ts = b.ts := fun e => h e.symm
          simp [h, h'] at ha hb
          have m1 : a ∈ bs := mem_of_get ha.symm
          have m2 : b ∈ as := mem_of_get hb
          have := h₂.1 a m1; have := h₁.1 b m2; omega
      subst hab
      congr 1
      apply ih _ h₁.2 h₂.2
      intro t
      have := hg t
      simp only [get_cons] at this
      by_cases h : a.ts = t
      · subst h
        rw [get_none_of_lt as _ h₁.1, get_none_of_lt bs _ h₂.1]
      · simpa [h] using this


theorem mapGet_eq (m : List Block) (t : Int) : mapGet m t = get m t := rfl

theorem get_mapSet (m : List Block) (b : Block) (t : Int) :
    get (mapSet m b) t = if b.ts = t then some b else get m t := by
  induction m with
  | nil => simp [mapSet, get_cons, get_nil]
  | cons x xs ih =>
    unfold mapSet
    by_cases hx : x.ts = b.ts
    · simp only [hx, beq_self_eq_true, if_true, get_cons]
      by_cases hb : b.ts = t <;> simp [hb]
    · have : (x.ts == b.ts) = false := by simpa using hx
      simp only [this, Bool.false_eq_true, if_false, get_cons, ih]
      by_cases hb : b.ts = t
      · have : ¬ x.ts = t := by omega
        simp [hb, this]
      · simp [hb]

theorem get_foldl_mapSet (d m : List Block) (t : Int) :
    get (d.foldl mapSet m) t = (lastGet d t).or (get m t) := by
  induction d generalizing m with
  | nil => simp [lastGet, get_nil]
  | cons b bs ih =>
    simp only [List.foldl_cons, ih, get_mapSet, lastGet, List.reverse_cons, get_append, get_cons, get_nil]
    by_cases h : b.ts = t <;> simp [h]
    all_goals cases get bs.reverse t <;> simp

/-- the Go map built by `readDaySnapshots` keeps, per timestamp, the last block of the day with it -/
theorem get_readDaySnapshots (d : Day) (t : Int) : get (readDaySnapshots d) t = lastGet d t := by
  simp [readDaySnapshots, get_foldl_mapSet, get_nil]

theorem mem_keys (m : List Block) (t : Int) : t ∈ m.map (·.ts) ↔ (get m t).isSome = true := by
  rw [get_isSome]; simp [hasTs]

/-- per timestamp: the destination's snapshot unless overwrite, the other side's if only one has it -/
def pick (S D : List Block) (ow : Bool) (t : Int) : Option Block :=
  if ow then (get S t).or (get D t) else (get D t).or (get S t)

def both (S D : List Block) (t : Int) : Bool := (get S t).isSome && (get D t).isSome

theorem mergeStep_fold (S D : List Block) (ow : Bool) (ts : List Int) (m : Merged) :
    ts.foldl (mergeStep S D ow) m =
    { blocks := m.blocks ++ ts.filterMap (pick S D ow),
      cDst := m.cDst + (if ow then 0 else (ts.filter (both S D)).length),
      cSrc := m.cSrc + (if ow then (ts.filter (both S D)).length else 0) } := by
  induction ts generalizing m with
  | nil => simp
  | cons t ts ih =>
    rw [List.foldl_cons, ih]
    unfold mergeStep pick both
    simp only [mapGet_eq]
    cases hS : get S t <;> cases hD : get D t <;> cases ow <;>
      simp [List.filterMap_cons, List.filter_cons, hS, hD, Nat.add_assoc, Nat.add_comm 1]

theorem pick_ts {S D : List Block} {ow : Bool} {t : Int} {b : Block} (h : pick S D ow t = some b) : b.ts = t := by
  unfold pick at h
  cases hS : get S t <;> cases hD : get D t <;> cases ow <;> simp [hS, hD] at h <;>
    first | (subst h; exact get_ts hS) | (subst h; exact get_ts hD)

theorem get_filterMap_pick (S D : List Block) (ow : Bool) (ts : List Int) (t : Int) :
    get (ts.filterMap (pick S D ow)) t = if t ∈ ts then pick S D ow t else none := by
  induction ts with
  | nil => simp [get_nil]
  | cons u us ih =>
    rw [List.filterMap_cons]
    cases hp : pick S D ow u with
    | none =>
      simp only [ih, List.mem_cons]
      by_cases h : t = u
      · subst h; simp [hp]
      · simp [h]
    | some b =>
      have hb := pick_ts hp
      simp only [get_cons, ih, List.mem_cons]
      by_cases h : t = u
      · subst h; simp [hb, hp]
      · have : ¬ b.ts = t := by omega
        simp [h, this]

theorem sorted_filterMap_pick (S D : List Block) (ow : Bool) (ts : List Int) (h : ts.Pairwise (· < ·)) :
    BSorted (ts.filterMap (pick S D ow)) := by
  induction ts with
  | nil => simp [BSorted]
  | cons u us ih =>
    rw [List.pairwise_cons] at h
    rw [List.filterMap_cons]
    cases hp : pick S D ow u with
    | none => exact ih h.2
    | some b =>
      refine List.pairwise_cons.2 ⟨?_, ih h.2⟩
      intro a ha
      rcases List.mem_filterMap.1 ha with ⟨v, hv, hpv⟩
      have := pick_ts hp; have := pick_ts hpv; have := h.1 v hv; omega

theorem mem_sortedKeys (S D : List Block) (t : Int) :
    t ∈ sortedKeys S D ↔ (get S t).isSome = true ∨ (get D t).isSome = true := by
  simp only [sortedKeys, sortInts, mem_sortDedup, List.mem_append, mem_keys]

theorem sorted_sortedKeys (S D : List Block) : (sortedKeys S D).Pairwise (· < ·) :=
  sorted_sortDedup intStrict _

theorem get_mergeSnapshots (S D : List Block) (ow : Bool) (t : Int) :
    get (mergeSnapshots S D ow).blocks t = pick S D ow t := by
  unfold mergeSnapshots
  rw [mergeStep_fold]
  simp only [List.nil_append, get_filterMap_pick, mem_sortedKeys]
  unfold pick
  cases hS : get S t <;> cases hD : get D t <;> cases ow <;> simp

theorem sorted_mergeSnapshots (S D : List Block) (ow : Bool) : BSorted (mergeSnapshots S D ow).blocks := by
  unfold mergeSnapshots
  rw [mergeStep_fold]
  simpa using sorted_filterMap_pick S D ow _ (sorted_sortedKeys S D)

theorem get_union (ow : Bool) (s d : Day) (t : Int) :
    get (union ow s d) t = if ow then (lastGet s t).or (lastGet d t) else (lastGet d t).or (lastGet s t) := by
  unfold union
  cases ow <;> simp [get_insAll _ _ _ (sorted_insAll _ [] List.Pairwise.nil), get_norm]

theorem sorted_union (ow : Bool) (s d : Day) : BSorted (union ow s d) := by
  unfold union
  cases ow <;> simp <;> exact sorted_insAll _ _ (sorted_insAll _ [] List.Pairwise.nil)

/-- the number of conflicts the loop counts = timestamps present on both sides -/
theorem conflicts_eq (s d : Day) :
    ((sortedKeys (readDaySnapshots s) (readDaySnapshots d)).filter (both (readDaySnapshots s) (readDaySnapshots d))).length
      = conflicts s d := by
  unfold conflicts
  congr 1
  apply sorted_ext intStrict
  · exact (sorted_sortedKeys _ _).filter _
  · exact (sorted_sortDedup intStrict _).filter _
  · intro t
    have hrev : ∀ (x : Day), (lastGet x t).isSome = hasTs x t := by
      intro x; rw [lastGet, get_isSome]; simp [hasTs]
    simp only [List.mem_filter, mem_sortedKeys, both, get_readDaySnapshots, hrev, sortInts, mem_sortDedup, Bool.and_eq_true]
    have : t ∈ s.map (·.ts) ↔ hasTs s t = true := by simp [hasTs]
    rw [this]
    constructor
    · rintro ⟨_, h1, h2⟩; exact ⟨h1, h2⟩
    · rintro ⟨h1, h2⟩; exact ⟨Or.inl h1, h1, h2⟩


/-! ## 1. plan -/

def actionCode : Action → Int
  | .skip => mergeDayActionSkip
  | .copy => mergeDayActionCopy
  | .rebuild => mergeDayActionRebuild

/-- the three action constants regenerated from the source are distinct -/
theorem actionCode_injective (a b : Action) (h : actionCode a = actionCode b) : a = b := by
  cases a <;> cases b <;> first | rfl | (simp [actionCode, mergeDayActionSkip, mergeDayActionCopy, mergeDayActionRebuild] at h)

/-- **Plan selection follows the documented rule** — clause "complete source days are copied when the
    destination lacks the day or overwriting is requested, complete-versus-complete days are kept
    without overwrite, and otherwise the day is rebuilt": the `planDayMerge` regenerated from the
    source chooses exactly `docAction` in all 2^4 cases (for all other descriptor fields), a rebuild
    reads the source and — iff it exists — the destination day, and the plan carries the descriptors
    through unchanged. -/
theorem plan_table (s d : dayDescriptor) (hasDst ow : Bool) :
    (planDayMerge s hasDst d ow).Action = actionCode (docAction hasDst s.Complete d.Complete ow) ∧
    ((planDayMerge s hasDst d ow).UseSource = decide (docAction hasDst s.Complete d.Complete ow = .rebuild)) ∧
    ((planDayMerge s hasDst d ow).UseDest = (decide (docAction hasDst s.Complete d.Complete ow = .rebuild) && hasDst)) ∧
    (planDayMerge s hasDst d ow).SourceDay = s ∧ (planDayMerge s hasDst d ow).HasDestDay = hasDst ∧
    (planDayMerge s hasDst d ow).DestDay = d := by
  obtain ⟨_, _, _, _, sc⟩ := s
  obtain ⟨_, _, _, _, dc⟩ := d
  cases sc <;> cases dc <;> cases hasDst <;> cases ow <;>
    simp [planDayMerge, docAction, actionCode, mergeDayActionSkip, mergeDayActionCopy, mergeDayActionRebuild]

example : (List.map (fun (h, s, d, o) => docAction h s d o)
    [(false, true, false, false), (true, true, true, true), (true, true, true, false), (true, true, false, false), (true, false, true, true)])
    = [.copy, .copy, .skip, .rebuild, .rebuild] := by decide


theorem tdiv_pos_eq (a : Int) (h : 0 < a) : Int.tdiv a 1000000000 = a / 1000000000 := by
  rw [Int.tdiv_eq_ediv_of_nonneg (by omega)]

theorem dirTimestamp_eq (t : Int) : DirTimestamp t = t - t.tmod 86400 := by
  unfold DirTimestamp
  have := Int.mul_tdiv_add_tmod t 86400
  have := Int.mul_comm (Int.tdiv t 86400) 86400
  omega

theorem tail_eq (n tsLast tsPrev t tol first last : Int) (c : Bool) (htol : 0 < tol) :
    isDayCompleteTail n tsLast tsPrev (descr t c) tol first last =
    (decide (first ≤ (t - t.tmod 86400) + tol / 1000000000) &&
     decide (last + (if n > 1 then tsLast - tsPrev else 300) ≥ (t - t.tmod 86400) + 86399 - tol / 1000000000)) := by
  have h1 := tdiv_pos_eq tol htol
  have h2 : 0 ≤ tol / 1000000000 := Int.ediv_nonneg (by omega) (by omega)
  unfold isDayCompleteTail
  simp only [descr, dirTimestamp_eq, h1]
  have h3 : ¬ (tol / 1000000000 < 0) := by omega
  simp only [h3, if_false]
  have e : t - t.tmod 86400 + 86400 - 1 - tol / 1000000000 = t - t.tmod 86400 + 86399 - tol / 1000000000 := by omega
  split <;> simp [e]


theorem effTolerance_pos (o : Opts) : 0 < effTolerance o := by
  unfold effTolerance defaultCompleteTolerance
  split <;> omega

theorem tolSeconds_eq (o : Opts) : effTolerance o / 1000000000 = tolSeconds o.tol := by
  unfold effTolerance tolSeconds defaultCompleteTolerance
  split <;> simp

/-- completeness classification: `isDayComplete` as written (head + regenerated tail) is the documented rule -/
theorem complete_rule (o : Opts) (t : Int) (d : Day) :
    isDayComplete t d (effTolerance o) = complete o.tol t d := by
  unfold isDayComplete complete
  simp only [tail_eq _ _ _ _ _ _ _ _ (effTolerance_pos o), tolSeconds_eq]
  generalize hr : d.reverse = r
  have hd : d = r.reverse := by rw [← hr, List.reverse_reverse]
  subst hd
  match r with
  | [] => simp
  | [l] => simp
  | l :: p :: q =>
    cases hq : q.reverse with
    | nil => simp [hq]
    | cons f rest =>
      have hl : (f :: (rest ++ [p, l])).getLast? = some l := by
        rw [show f :: (rest ++ [p, l]) = (f :: rest ++ [p]) ++ [l] by simp]
        exact List.getLast?_concat ..
      have hn : (1 : Int) < ↑rest.length + 2 + 1 := by omega
      simp [hq, hl, hn]

/-- **Block-wise union with the documented precedence** — clause "rebuilt block by block with the
    destination winning conflicts (the source with overwrite)": for ALL days `s`, `d` the code's
    `mergeSnapshots` over the maps built by `readDaySnapshots` yields exactly the spec's `union`:
    ordered by timestamp, and at every timestamp the destination's block if it has one, else the
    source's (with overwrite: the source's first); the two conflict counters are the number of
    timestamps present on both sides, booked on the winning side. -/
theorem union_precedence (ow : Bool) (s d : Day) :
    (mergeSnapshots (readDaySnapshots s) (readDaySnapshots d) ow).blocks = union ow s d ∧
    BSorted (union ow s d) ∧
    (∀ t, get (union ow s d) t = if ow then (lastGet s t).or (lastGet d t) else (lastGet d t).or (lastGet s t)) ∧
    (mergeSnapshots (readDaySnapshots s) (readDaySnapshots d) ow).cDst = (if ow then 0 else conflicts s d) ∧
    (mergeSnapshots (readDaySnapshots s) (readDaySnapshots d) ow).cSrc = (if ow then conflicts s d else 0) := by
  refine ⟨?_, sorted_union ow s d, get_union ow s d, ?_, ?_⟩
  · apply bsorted_ext _ _ (sorted_mergeSnapshots _ _ _) (sorted_union ow s d)
    intro t
    rw [get_mergeSnapshots, get_union]
    simp only [pick, get_readDaySnapshots]
  · unfold mergeSnapshots; rw [mergeStep_fold]; cases ow <;> simp [conflicts_eq]
  · unfold mergeSnapshots; rw [mergeStep_fold]; cases ow <;> simp [conflicts_eq]

/-- counting one outcome into the summary (conflicts only when the merge is carried out) -/
def bump (dry : Bool) (s : Summary) (oc : DayOutcome) : Summary :=
  { ifaces := s.ifaces,
    copied := s.copied + (if oc.action = .copy then 1 else 0),
    rebuilt := s.rebuilt + (if oc.action = .rebuild then 1 else 0),
    skipped := s.skipped + (if oc.action = .skip then 1 else 0),
    cDst := s.cDst + (if dry then 0 else oc.cDst),
    cSrc := s.cSrc + (if dry then 0 else oc.cSrc) }

/-- write the new day, if any -/
def putDay (db : Ifaces) (i : String) (t : Int) : Option Day → Ifaces
  | some x => setDay db i t x
  | none => db

def applyOutcome (dry : Bool) (i : String) (t : Int) (st : State) (oc : DayOutcome) : State :=
  { dst := if dry then st.dst else putDay st.dst i t oc.newDay,
    sum := bump dry st.sum oc }

/-- the body of the day loop as written = the documented per-day rule -/
theorem dayStep_eq (o : Opts) (i : String) (D0 : Days) (st : State) (t : Int) (s : Day) :
    dayStep o (effTolerance o) i D0 st t s =
    applyOutcome o.dry i t st (specDay o.overwrite o.tol t s (lookupDay D0 t)) := by
  unfold dayStep
  dsimp only
  rw [complete_rule o t s]
  have hsc : (descr t (complete o.tol t s)).Complete = complete o.tol t s := rfl
  unfold specDay applyOutcome bump
  simp only [putDay]
  cases hL : lookupDay D0 t with
  | none =>
    obtain ⟨hA, hUS, hUD, -, -, -⟩ := plan_table (descr t (complete o.tol t s)) (descr 0 false) false o.overwrite
    rw [hsc] at hA hUS hUD
    simp only [Option.isSome_none, hA, hUS, hUD]
    obtain ⟨h1, -, -, h4, h5⟩ := union_precedence o.overwrite s []
    have hr : readDaySnapshots [] = [] := rfl
    rw [hr] at h1 h4 h5
    cases hact : docAction false (complete o.tol t s) (descr 0 false).Complete o.overwrite <;>
      cases hdry : o.dry <;>
      simp [descr] at hact <;>
      simp [actionCode, mergeDayActionSkip, mergeDayActionCopy, mergeDayActionRebuild, hact, h1, h4, h5]
  | some d =>
    obtain ⟨hA, hUS, hUD, -, -, -⟩ := plan_table (descr t (complete o.tol t s)) (descr t (isDayComplete t d (effTolerance o))) true o.overwrite
    have hdc : (descr t (isDayComplete t d (effTolerance o))).Complete = complete o.tol t d := by simp [descr, complete_rule]
    rw [hsc, hdc] at hA hUS hUD
    simp only [Option.isSome_some, hA, hUS, hUD]
    obtain ⟨h1, -, -, h4, h5⟩ := union_precedence o.overwrite s d
    cases hact : docAction true (complete o.tol t s) (complete o.tol t d) o.overwrite <;>
      cases hdry : o.dry <;>
      simp [actionCode, mergeDayActionSkip, mergeDayActionCopy, mergeDayActionRebuild, hact, h1, h4, h5]


/-! ## association lists -/

theorem lookupDay_nil (t : Int) : lookupDay [] t = none := rfl

theorem lookupDay_cons (p : Int × Day) (ds : Days) (t : Int) :
    lookupDay (p :: ds) t = if p.1 = t then some p.2 else lookupDay ds t := by
  simp only [lookupDay, List.find?_cons]
  by_cases h : p.1 = t
  · simp [h]
  · have : (p.1 == t) = false := by simpa using h
    simp [h, this]

theorem lookupDay_setDayIn (ds : Days) (t t' : Int) (d : Day) :
    lookupDay (setDayIn ds t d) t' = if t' = t then some d else lookupDay ds t' := by
  induction ds with
  | nil => simp [setDayIn, lookupDay_cons, lookupDay_nil, eq_comm]
  | cons p ps ih =>
    obtain ⟨u, e⟩ := p
    unfold setDayIn
    by_cases h : u = t
    · subst h
      simp only [beq_self_eq_true, if_true, lookupDay_cons]
      by_cases h' : t' = u <;> simp [h', eq_comm]
    · have : (u == t) = false := by simpa using h
      simp only [this, Bool.false_eq_true, if_false, lookupDay_cons, ih]
      by_cases h' : t' = t
      · subst h'; simp [h]
      · simp [h']

theorem ifaceDays_nil (i : String) : ifaceDays [] i = [] := rfl

theorem ifaceDays_cons (p : String × Days) (db : Ifaces) (i : String) :
    ifaceDays (p :: db) i = if p.1 = i then p.2 else ifaceDays db i := by
  simp only [ifaceDays, List.find?_cons]
  by_cases h : p.1 = i
  · simp [h]
  · have : (p.1 == i) = false := by simpa using h
    simp [h, this]

theorem ifaceDays_setDay (db : Ifaces) (i i' : String) (t : Int) (d : Day) :
    ifaceDays (setDay db i t d) i' = if i' = i then setDayIn (ifaceDays db i) t d else ifaceDays db i' := by
  induction db with
  | nil => simp [setDay, ifaceDays_cons, ifaceDays_nil, setDayIn, eq_comm]
  | cons p ps ih =>
    obtain ⟨j, ds⟩ := p
    unfold setDay
    by_cases h : j = i
    · subst h
      simp only [beq_self_eq_true, if_true, ifaceDays_cons]
      by_cases h' : i' = j
      · subst h'; simp
      · have : ¬ j = i' := fun e => h' e.symm
        simp [h', this]
    · have : (j == i) = false := by simpa using h
      simp only [this, Bool.false_eq_true, if_false, ifaceDays_cons, ih]
      by_cases h' : i' = i
      · subst h'; simp [h]
      · simp [h']

theorem getDay_setDay (db : Ifaces) (i i' : String) (t t' : Int) (d : Day) :
    getDay (setDay db i t d) i' t' = if i' = i ∧ t' = t then some d else getDay db i' t' := by
  unfold getDay
  rw [ifaceDays_setDay]
  by_cases h : i' = i
  · subst h; simp [lookupDay_setDayIn]
  · simp [h]


/-! ## the day loop -/

/-- the day loop with the per-day rule in place of the code -/
def dayFold (o : Opts) (i : String) (D0 : Days) (st : State) (sd : Days) : State :=
  sd.foldl (fun st p => applyOutcome o.dry i p.1 st (specDay o.overwrite o.tol p.1 p.2 (lookupDay D0 p.1))) st

theorem dayFold_nil (o : Opts) (i : String) (D0 : Days) (st : State) : dayFold o i D0 st [] = st := rfl

theorem dayFold_cons (o : Opts) (i : String) (D0 : Days) (st : State) (p : Int × Day) (sd : Days) :
    dayFold o i D0 st (p :: sd) =
    dayFold o i D0 (applyOutcome o.dry i p.1 st (specDay o.overwrite o.tol p.1 p.2 (lookupDay D0 p.1))) sd := rfl

theorem dayFold_dry (o : Opts) (i : String) (D0 : Days) (st : State) (sd : Days) (h : o.dry = true) :
    (dayFold o i D0 st sd).dst = st.dst := by
  induction sd generalizing st with
  | nil => rfl
  | cons p ps ih => rw [dayFold_cons, ih]; simp [applyOutcome, h]

theorem getDay_putDay (db : Ifaces) (i i' : String) (t t' : Int) (nd : Option Day) :
    getDay (putDay db i t nd) i' t' = if i' = i ∧ t' = t then nd.or (getDay db i t) else getDay db i' t' := by
  cases nd with
  | none => simp [putDay]; rintro rfl rfl; rfl
  | some x => simp [putDay, getDay_setDay]

/-- destination after the day loop of interface `i` (real run): every listed source day is replaced
    by its per-day result, computed against the listing `D0`; nothing else changes -/
theorem dayFold_get (o : Opts) (i : String) (D0 : Days) (st : State) (sd : Days)
    (hnd : (dayKeys sd).Nodup) (hdry : o.dry = false) (i' : String) (t' : Int) :
    getDay (dayFold o i D0 st sd).dst i' t' =
      if i' = i then
        ((lookupDay sd t').bind fun s => (specDay o.overwrite o.tol t' s (lookupDay D0 t')).newDay).or (getDay st.dst i t')
      else getDay st.dst i' t' := by
  induction sd generalizing st with
  | nil => simp [dayFold_nil, lookupDay_nil]; intro h; rw [h]
  | cons p ps ih =>
    obtain ⟨u, s⟩ := p
    simp only [dayKeys, List.map_cons, List.nodup_cons] at hnd
    rw [dayFold_cons, ih _ hnd.2]
    have hnone : lookupDay ps u = none := by
      cases h : lookupDay ps u with
      | none => rfl
      | some x =>
        exfalso; apply hnd.1
        simp only [lookupDay, Option.map_eq_some_iff] at h
        obtain ⟨q, hq, -⟩ := h
        have := List.find?_some hq
        have hm := List.mem_of_find?_eq_some hq
        simp at this
        exact List.mem_map.2 ⟨q, hm, this⟩
    simp only [applyOutcome, hdry, Bool.false_eq_true, if_false, getDay_putDay, lookupDay_cons]
    by_cases hi : i' = i
    · subst hi
      by_cases hu : u = t'
      · subst hu; simp [hnone]
      · have : ¬ t' = u := fun e => hu e.symm
        simp [hu, this]
    · simp [hi]

theorem dayFold_sum (o : Opts) (i : String) (D0 : Days) (st : State) (sd : Days) :
    (dayFold o i D0 st sd).sum =
    (sd.map fun p => specDay o.overwrite o.tol p.1 p.2 (lookupDay D0 p.1)).foldl (bump o.dry) st.sum := by
  induction sd generalizing st with
  | nil => rfl
  | cons p ps ih => rw [dayFold_cons, ih]; simp [applyOutcome]


/-! ## the interface loop -/

theorem lookup_filterMap_keys (g : Int → Option Day) (L : List Int) (t : Int) :
    lookupDay (L.filterMap fun u => (g u).map fun d => (u, d)) t = if t ∈ L then g t else none := by
  induction L with
  | nil => simp [lookupDay_nil]
  | cons u us ih =>
    rw [List.filterMap_cons]
    cases hg : g u with
    | none =>
      simp only [Option.map_none, ih, List.mem_cons]
      by_cases h : t = u
      · subst h; simp [hg]
      · simp [h]
    | some d =>
      simp only [Option.map_some, lookupDay_cons, ih, List.mem_cons]
      by_cases h : t = u
      · subst h; simp [hg]
      · have : ¬ u = t := fun e => h e.symm
        simp [h, this]

theorem keys_filterMap (g : Int → Option Day) (L : List Int) :
    dayKeys (L.filterMap fun u => (g u).map fun d => (u, d)) = L.filter fun u => (g u).isSome := by
  induction L with
  | nil => rfl
  | cons u us ih =>
    rw [List.filterMap_cons, List.filter_cons]
    cases hg : g u with
    | none => simpa using ih
    | some d => simp only [dayKeys] at ih ⊢; simp [ih]

theorem mem_dayKeys (sd : Days) (t : Int) : t ∈ dayKeys sd ↔ (lookupDay sd t).isSome = true := by
  induction sd with
  | nil => simp [dayKeys, lookupDay_nil]
  | cons p ps ih =>
    simp only [dayKeys, List.map_cons, List.mem_cons, lookupDay_cons] at ih ⊢
    by_cases h : p.1 = t
    · simp [h]
    · have : ¬ t = p.1 := fun e => h e.symm
      simp [h, this, ih]

theorem lookupDay_sortedDays (sd : Days) (t : Int) : lookupDay (sortedDays sd) t = lookupDay sd t := by
  unfold sortedDays
  rw [lookup_filterMap_keys]
  simp only [sortInts, mem_sortDedup, mem_dayKeys]
  cases lookupDay sd t <;> simp

theorem nodup_sortedDays (sd : Days) : (dayKeys (sortedDays sd)).Nodup := by
  unfold sortedDays
  rw [keys_filterMap]
  exact (nodup_of_sorted intStrict _ (sorted_sortDedup intStrict _)).filter _

/-- the outcomes of the days of source interface `j`, in processing order -/
def outcomesOf (o : Opts) (src dst : Ifaces) (j : String) : List DayOutcome :=
  (sortInts (dayKeys (ifaceDays src j))).filterMap fun t =>
    (getDay src j t).map fun s => specDay o.overwrite o.tol t s (getDay dst j t)

theorem map_sortedDays (o : Opts) (src dst : Ifaces) (j : String) :
    ((sortedDays (ifaceDays src j)).map fun p => specDay o.overwrite o.tol p.1 p.2 (lookupDay (ifaceDays dst j) p.1))
      = outcomesOf o src dst j := by
  unfold sortedDays outcomesOf getDay
  rw [List.map_filterMap]
  congr 1
  funext t
  cases lookupDay (ifaceDays src j) t <;> rfl

/-- the interface step with the per-day rule in place of the code -/
theorem ifaceStep_eq (o : Opts) (src : Ifaces) (st : State) (j : String) :
    ifaceStep o (effTolerance o) src st j =
    if (ifaceDays src j).isEmpty then st else
      dayFold o j (ifaceDays st.dst j) { st with sum := { st.sum with ifaces := st.sum.ifaces + 1 } } (sortedDays (ifaceDays src j)) := by
  unfold ifaceStep dayFold
  simp only [dayStep_eq]

theorem ifaceStep_dry (o : Opts) (src : Ifaces) (st : State) (j : String) (h : o.dry = true) :
    (ifaceStep o (effTolerance o) src st j).dst = st.dst := by
  rw [ifaceStep_eq]
  split
  · rfl
  · rw [dayFold_dry _ _ _ _ _ h]

theorem ifaceStep_get (o : Opts) (src : Ifaces) (st : State) (j : String) (hdry : o.dry = false) (i' : String) (t' : Int) :
    getDay (ifaceStep o (effTolerance o) src st j).dst i' t' =
      if i' = j then
        ((getDay src j t').bind fun s => (specDay o.overwrite o.tol t' s (getDay st.dst j t')).newDay).or (getDay st.dst j t')
      else getDay st.dst i' t' := by
  rw [ifaceStep_eq]
  split
  · rename_i he
    have : ifaceDays src j = [] := by simpa using he
    simp only [getDay, this, lookupDay_nil, Option.bind_none, Option.none_or]
    by_cases h : i' = j <;> simp [h]
  · rw [dayFold_get _ _ _ _ _ (nodup_sortedDays _) hdry, lookupDay_sortedDays]
    rfl

theorem ifaceStep_frame (o : Opts) (src : Ifaces) (st : State) (j : String) (i' : String) (t' : Int) (h : i' ≠ j) :
    getDay (ifaceStep o (effTolerance o) src st j).dst i' t' = getDay st.dst i' t' := by
  cases hdry : o.dry
  · rw [ifaceStep_get _ _ _ _ hdry]; simp [h]
  · rw [ifaceStep_dry _ _ _ _ hdry]

theorem ifaceStep_sum (o : Opts) (src : Ifaces) (st : State) (j : String) :
    (ifaceStep o (effTolerance o) src st j).sum =
    if (ifaceDays src j).isEmpty then st.sum else
      (outcomesOf o src st.dst j).foldl (bump o.dry) { st.sum with ifaces := st.sum.ifaces + 1 } := by
  rw [ifaceStep_eq]
  split
  · rfl
  · rw [dayFold_sum, map_sortedDays]

def ifaceFold (o : Opts) (src : Ifaces) (st : State) (sel : List String) : State :=
  sel.foldl (ifaceStep o (effTolerance o) src) st

theorem ifaceFold_dry (o : Opts) (src : Ifaces) (st : State) (sel : List String) (h : o.dry = true) :
    (ifaceFold o src st sel).dst = st.dst := by
  induction sel generalizing st with
  | nil => rfl
  | cons j rest ih => simp only [ifaceFold, List.foldl_cons] at ih ⊢; rw [ih, ifaceStep_dry _ _ _ _ h]

theorem ifaceFold_get (o : Opts) (src : Ifaces) (st : State) (sel : List String) (hnd : sel.Nodup)
    (hdry : o.dry = false) (i' : String) (t' : Int) :
    getDay (ifaceFold o src st sel).dst i' t' =
      if i' ∈ sel then
        ((getDay src i' t').bind fun s => (specDay o.overwrite o.tol t' s (getDay st.dst i' t')).newDay).or (getDay st.dst i' t')
      else getDay st.dst i' t' := by
  induction sel generalizing st with
  | nil => simp [ifaceFold]
  | cons j rest ih =>
    rw [List.nodup_cons] at hnd
    simp only [ifaceFold, List.foldl_cons] at ih ⊢
    rw [ih _ hnd.2]
    by_cases h : i' = j
    · subst h
      simp only [hnd.1, if_false, List.mem_cons, true_or, if_true]
      rw [ifaceStep_get _ _ _ _ hdry]; simp
    · simp only [List.mem_cons, h, false_or, ifaceStep_frame _ _ _ _ _ _ h]

theorem foldl_congr_mem {α β} (f g : β → α → β) (l : List α) (b : β) (h : ∀ b, ∀ a ∈ l, f b a = g b a) :
    l.foldl f b = l.foldl g b := by
  induction l generalizing b with
  | nil => rfl
  | cons a as ih =>
    simp only [List.foldl_cons]
    rw [h b a (by simp)]
    exact ih _ (fun b a ha => h b a (by simp [ha]))

theorem outcomesOf_congr (o : Opts) (src d₁ d₂ : Ifaces) (j : String) (h : ∀ t, getDay d₁ j t = getDay d₂ j t) :
    outcomesOf o src d₁ j = outcomesOf o src d₂ j := by
  unfold outcomesOf; simp only [h]

/-- summary after the interface loop: per selected interface with days one increment of
    `InterfacesProcessed` and the outcomes of its days, all computed against the INITIAL destination -/
theorem ifaceFold_sum (o : Opts) (src : Ifaces) (st : State) (sel : List String) (hnd : sel.Nodup) :
    (ifaceFold o src st sel).sum =
    sel.foldl (fun acc j => if (ifaceDays src j).isEmpty then acc else
      (outcomesOf o src st.dst j).foldl (bump o.dry) { acc with ifaces := acc.ifaces + 1 }) st.sum := by
  induction sel generalizing st with
  | nil => rfl
  | cons j rest ih =>
    rw [List.nodup_cons] at hnd
    simp only [ifaceFold, List.foldl_cons] at ih ⊢
    rw [ih _ hnd.2, ifaceStep_sum]
    apply foldl_congr_mem
    intro acc k hk
    have hkj : k ≠ j := fun e => hnd.1 (e ▸ hk)
    rw [outcomesOf_congr o src _ st.dst k (fun t => ifaceStep_frame _ _ _ _ _ _ hkj)]


/-! ## per-day idempotence -/

theorem lastGet_sorted (l : Day) (h : BSorted l) (t : Int) : lastGet l t = get l t := by
  induction l with
  | nil => rfl
  | cons x xs ih =>
    unfold BSorted at h
    rw [List.pairwise_cons] at h
    have ih' := ih h.2
    simp only [lastGet, List.reverse_cons, get_append, get_cons, get_nil] at ih' ⊢
    rw [ih']
    by_cases hx : x.ts = t
    · subst hx; rw [get_none_of_lt xs _ h.1]; simp
    · simp [hx]

theorem union_idem (ow : Bool) (s d : Day) : union ow s (union ow s d) = union ow s d := by
  apply bsorted_ext _ _ (sorted_union _ _ _) (sorted_union _ _ _)
  intro t
  rw [get_union ow s (union ow s d), lastGet_sorted _ (sorted_union ow s d), get_union]
  cases ow <;> cases lastGet s t <;> cases lastGet d t <;> simp

/-- merging the same source day again changes nothing further (for EVERY completeness classification:
    only that it is a function of the day's blocks is used) -/
theorem specDay_idem (ow : Bool) (tol t : Int) (s : Day) (d : Option Day) :
    specDayResult ow tol t s (specDayResult ow tol t s d) = specDayResult ow tol t s d := by
  unfold specDayResult specDay
  cases d with
  | none =>
    cases hs : complete tol t s <;> cases ow <;> simp [docAction, hs, union_idem] <;>
      (cases hu : complete tol t (union _ s []) <;> simp [union_idem])
  | some d0 =>
    cases hs : complete tol t s <;> cases hd : complete tol t d0 <;> cases ow <;>
      simp [docAction, hs, hd, union_idem] <;>
      (cases hu : complete tol t (union _ s d0) <;> simp [union_idem])


/-! ## counting -/

theorem countAction_nil (a : Action) : countAction a [] = 0 := rfl

theorem countAction_cons (a : Action) (x : DayOutcome) (xs : List DayOutcome) :
    countAction a (x :: xs) = (if x.action = a then 1 else 0) + countAction a xs := by
  unfold countAction
  rw [List.filter_cons]
  by_cases h : x.action = a
  · simp [h]; omega
  · have : (x.action == a) = false := by simpa using h
    simp [h, this]

theorem countAction_append (a : Action) (xs ys : List DayOutcome) :
    countAction a (xs ++ ys) = countAction a xs + countAction a ys := by
  simp [countAction, List.filter_append]

theorem bump_fold (dry : Bool) (l : List DayOutcome) (s : Summary) :
    l.foldl (bump dry) s =
    { ifaces := s.ifaces,
      copied := s.copied + countAction .copy l,
      rebuilt := s.rebuilt + countAction .rebuild l,
      skipped := s.skipped + countAction .skip l,
      cDst := s.cDst + (if dry then 0 else (l.map (·.cDst)).sum),
      cSrc := s.cSrc + (if dry then 0 else (l.map (·.cSrc)).sum) } := by
  induction l generalizing s with
  | nil => simp [countAction_nil]
  | cons x xs ih =>
    rw [List.foldl_cons, ih]
    simp only [bump, countAction_cons, List.map_cons, List.sum_cons]
    cases dry <;> simp [Nat.add_assoc]

theorem outcomesOf_empty (o : Opts) (src dst : Ifaces) (j : String) (h : (ifaceDays src j).isEmpty = true) :
    outcomesOf o src dst j = [] := by
  have : ifaceDays src j = [] := by simpa using h
  simp [outcomesOf, this, dayKeys, sortInts, sortDedup]

theorem sumFold_eq (o : Opts) (src dst : Ifaces) (sel : List String) (s : Summary) :
    sel.foldl (fun acc j => if (ifaceDays src j).isEmpty then acc else
      (outcomesOf o src dst j).foldl (bump o.dry) { acc with ifaces := acc.ifaces + 1 }) s =
    { ifaces := s.ifaces + (sel.filter fun i => !(ifaceDays src i).isEmpty).length,
      copied := s.copied + countAction .copy (sel.flatMap (outcomesOf o src dst)),
      rebuilt := s.rebuilt + countAction .rebuild (sel.flatMap (outcomesOf o src dst)),
      skipped := s.skipped + countAction .skip (sel.flatMap (outcomesOf o src dst)),
      cDst := s.cDst + (if o.dry then 0 else ((sel.flatMap (outcomesOf o src dst)).map (·.cDst)).sum),
      cSrc := s.cSrc + (if o.dry then 0 else ((sel.flatMap (outcomesOf o src dst)).map (·.cSrc)).sum) } := by
  induction sel generalizing s with
  | nil => simp [countAction_nil]
  | cons j rest ih =>
    rw [List.foldl_cons, ih]
    by_cases he : (ifaceDays src j).isEmpty = true
    · simp [he, outcomesOf_empty o src dst j he, List.flatMap_cons, List.filter_cons]
    · simp only [he, Bool.false_eq_true, if_false, bump_fold, List.flatMap_cons, countAction_append, List.map_append,
        List.sum_append, List.filter_cons, Bool.not_false, if_true, List.length_cons]
      cases o.dry <;> simp <;> omega

/-! ## interface selection -/

theorem nodup_sortNames (xs : List String) : (sortNames xs).Nodup :=
  nodup_of_sorted stringStrict _ (sorted_sortDedup stringStrict xs)

theorem select_nodup (src : Ifaces) (req sel : List String)
    (h : selectInterfaces (listSourceInterfaces src) req = some sel) : sel.Nodup := by
  unfold selectInterfaces at h
  split at h
  · cases h; exact nodup_sortNames _
  · simp only [Option.map_eq_some_iff] at h
    obtain ⟨a, -, rfl⟩ := h
    exact nodup_sortNames _


/-! ## the property theorems -/

theorem mergeDatabases_ok (o : Opts) (w : World) (sel : List String) (hs : w.src.missing = false)
    (hsel : selectInterfaces (listSourceInterfaces w.src.ifaces) o.requested = some sel) :
    mergeDatabases o w =
      (.ok (ifaceFold o w.src.ifaces { dst := w.dst.ifaces, sum := {} } sel).sum,
       { src := w.src,
         dst := { missing := if o.dry then w.dst.missing else false,
                  ifaces := (ifaceFold o w.src.ifaces { dst := w.dst.ifaces, sum := {} } sel).dst } }) := by
  unfold mergeDatabases
  simp only [hs, Bool.false_eq_true, if_false]
  cases hdry : o.dry <;> simp [hsel, ifaceFold]

theorem specGet_eq (o : Opts) (sel : List String) (src dst : Ifaces) (i : String) (t : Int) :
    specGet o sel src dst i t =
      if i ∈ sel then ((getDay src i t).bind fun s => (specDay o.overwrite o.tol t s (getDay dst i t)).newDay).or (getDay dst i t)
      else getDay dst i t := by
  unfold specGet specDayResult
  by_cases h : i ∈ sel
  · have : sel.contains i = true := by simpa using h
    simp only [this, h, if_true]
    cases getDay src i t <;> simp
  · have : sel.contains i = false := by simpa using h
    simp [this, h]

/-- **Every day of every selected interface equals the documented rule.** After a real merge that got
    past the source check and interface selection `sel`, for EVERY source and destination database
    the destination holds, for every interface `i` and day `t`: the documented per-day result
    (`specDayResult`: copy / keep / block-wise union with the documented precedence) when `i` is
    selected and the source has the day, and the previous destination day otherwise. -/
theorem merge_refines_spec (o : Opts) (w : World) (sel : List String) (hs : w.src.missing = false)
    (hsel : selectInterfaces (listSourceInterfaces w.src.ifaces) o.requested = some sel) (hdry : o.dry = false)
    (i : String) (t : Int) :
    getDay (mergeDatabases o w).2.dst.ifaces i t = specGet o sel w.src.ifaces w.dst.ifaces i t := by
  rw [mergeDatabases_ok o w sel hs hsel, specGet_eq]
  exact ifaceFold_get o w.src.ifaces _ sel (select_nodup _ _ _ hsel) hdry i t

/-- **The reported counts match the actions taken**: interfaces processed = selected source
    interfaces that have days; days copied / rebuilt / skipped = number of days whose documented
    action is copy / rebuild / skip; conflicts = common block timestamps of the rebuilt days, booked
    on the destination's or (overwrite) the source's side; a dry run reports the planned actions
    and no conflicts. -/
theorem counts_match (o : Opts) (w : World) (sel : List String) (hs : w.src.missing = false)
    (hsel : selectInterfaces (listSourceInterfaces w.src.ifaces) o.requested = some sel) :
    (mergeDatabases o w).1 = .ok (specSummary o sel w.src.ifaces w.dst.ifaces) := by
  rw [mergeDatabases_ok o w sel hs hsel]
  simp only [ifaceFold_sum o w.src.ifaces _ sel (select_nodup _ _ _ hsel), sumFold_eq]
  have he : specOutcomes o sel w.src.ifaces w.dst.ifaces = sel.flatMap (outcomesOf o w.src.ifaces w.dst.ifaces) := rfl
  simp [specSummary, he]

/-- **The source is never modified** (in every run, including failed ones). -/
theorem source_untouched (o : Opts) (w : World) : (mergeDatabases o w).2.src = w.src := by
  unfold mergeDatabases
  split
  · rfl
  · cases o.dry <;> simp <;> split <;> rfl

/-- **A dry run changes nothing**: the whole world (both databases, including whether the
    destination directory exists) is returned as it was. -/
theorem dry_run_noop (o : Opts) (w : World) (hdry : o.dry = true) : (mergeDatabases o w).2 = w := by
  unfold mergeDatabases
  split
  · rfl
  · simp only [hdry, if_true]
    split
    · rfl
    · have := ifaceFold_dry o w.src.ifaces { dst := w.dst.ifaces, sum := {} } ‹_› hdry
      simp only [ifaceFold] at this
      simp only [this]

/-- **Merging the same source again changes nothing further** — for ALL source and destination
    databases, options and interface selections. -/
theorem merge_idempotent (o : Opts) (w : World) (i : String) (t : Int) :
    getDay (mergeDatabases o (mergeDatabases o w).2).2.dst.ifaces i t =
    getDay (mergeDatabases o w).2.dst.ifaces i t := by
  cases hdry : o.dry
  · cases hs : w.src.missing
    · cases hsel : selectInterfaces (listSourceInterfaces w.src.ifaces) o.requested with
      | none =>
        have h1 : ∀ w' : World, w'.src = w.src → (mergeDatabases o w').2.dst.ifaces = w'.dst.ifaces := by
          intro w' hw
          unfold mergeDatabases
          simp [hw, hs, hdry, hsel]
        rw [h1 _ (source_untouched o w)]
      | some sel =>
        have hsrc := source_untouched o w
        have hs' : (mergeDatabases o w).2.src.missing = false := by rw [hsrc]; exact hs
        have hsel' : selectInterfaces (listSourceInterfaces (mergeDatabases o w).2.src.ifaces) o.requested = some sel := by
          rw [hsrc]; exact hsel
        rw [merge_refines_spec o _ sel hs' hsel' hdry, specGet_eq, hsrc]
        have hg : ∀ i t, getDay (mergeDatabases o w).2.dst.ifaces i t = specGet o sel w.src.ifaces w.dst.ifaces i t :=
          merge_refines_spec o w sel hs hsel hdry
        rw [hg i t, specGet_eq]
        by_cases hi : i ∈ sel
        · simp only [hi, if_true]
          cases hsrcday : getDay w.src.ifaces i t with
          | none => simp
          | some s =>
            have := specDay_idem o.overwrite o.tol t s (getDay w.dst.ifaces i t)
            simpa [specDayResult] using this
        · simp [hi]
    · have h1 : ∀ w' : World, w'.src = w.src → (mergeDatabases o w').2 = w' := by
        intro w' hw
        unfold mergeDatabases
        simp [hw, hs]
      rw [h1 _ (source_untouched o w)]
  · rw [dry_run_noop o _ hdry]


/-- the requested names that count: trimmed, blanks dropped -/
def wanted (req : List String) : List String := (req.map trimSpace).filter (· ≠ "")

theorem wanted_cons (r : String) (rest : List String) :
    wanted (r :: rest) = if trimSpace r = "" then wanted rest else trimSpace r :: wanted rest := by
  unfold wanted
  rw [List.map_cons, List.filter_cons]
  by_cases h : trimSpace r = "" <;> simp [h]

theorem selectLoop_spec (avail req acc : List String) :
    (¬ (∀ n ∈ wanted req, n ∈ avail) → selectLoop avail req acc = none) ∧
    ((∀ n ∈ wanted req, n ∈ avail) →
      ∃ r, selectLoop avail req acc = some r ∧ ∀ x, x ∈ r ↔ x ∈ acc ∨ x ∈ wanted req) := by
  induction req generalizing acc with
  | nil => simp [selectLoop, wanted]
  | cons q rest ih =>
    unfold selectLoop
    rw [wanted_cons]
    by_cases hb : trimSpace q = ""
    · simp only [hb, if_true]; exact ih acc
    · simp only [hb, if_false]
      by_cases ha : trimSpace q ∈ avail
      · have hc : avail.contains (trimSpace q) = true := by simpa using ha
        simp only [hc, Bool.not_true, Bool.false_eq_true, if_false, List.mem_cons, forall_eq_or_imp, ha, true_and]
        by_cases hs : trimSpace q ∈ acc
        · have hc' : acc.contains (trimSpace q) = true := by simpa using hs
          simp only [hc', if_true]
          refine ⟨(ih acc).1, fun h => ?_⟩
          obtain ⟨r, hr, hm⟩ := (ih acc).2 h
          exact ⟨r, hr, fun x => by rw [hm]; grind⟩
        · have hc' : acc.contains (trimSpace q) = false := by simpa using hs
          simp only [hc', Bool.false_eq_true, if_false]
          refine ⟨(ih _).1, fun h => ?_⟩
          obtain ⟨r, hr, hm⟩ := (ih (acc ++ [trimSpace q])).2 h
          exact ⟨r, hr, fun x => by rw [hm]; simp only [List.mem_append, List.mem_singleton]; grind⟩
      · have hc : avail.contains (trimSpace q) = false := by simpa using ha
        simp [hc, ha]

/-- interface selection as written = the documented selection: all source interfaces without a
    request; otherwise the requested names (trimmed, blanks ignored), which must all exist in the
    source, ordered by name without duplicates -/
theorem select_spec (src : Ifaces) (req : List String) :
    selectInterfaces (listSourceInterfaces src) req = specSelect (src.map (·.1)) req := by
  unfold selectInterfaces specSelect listSourceInterfaces
  by_cases he : req.isEmpty = true
  · simp [he]
  · simp only [he, Bool.false_eq_true, if_false]
    have hav : ∀ n, n ∈ sortNames (src.map (·.1)) ↔ n ∈ src.map (·.1) := fun n => mem_sortDedup _ n
    have hspec := selectLoop_spec (sortNames (src.map (·.1))) req []
    change (selectLoop _ req []).map sortNames = if (wanted req).all _ then some (sortNames (wanted req)) else none
    by_cases hall : ∀ n ∈ wanted req, n ∈ sortNames (src.map (·.1))
    · obtain ⟨r, hr, hm⟩ := hspec.2 hall
      have : (wanted req).all (fun x => (src.map (·.1)).contains x) = true := by
        simp only [List.all_eq_true, List.contains_iff_mem]
        intro n hn; exact (hav n).1 (hall n hn)
      rw [hr, this]
      simp only [Option.map_some, if_true, Option.some.injEq]
      apply sorted_ext stringStrict _ _ (sorted_sortDedup stringStrict _) (sorted_sortDedup stringStrict _)
      intro x
      simp only [sortNames, mem_sortDedup, hm, List.not_mem_nil, false_or]
    · have : (wanted req).all (fun x => (src.map (·.1)).contains x) = false := by
        apply Bool.eq_false_iff.2
        intro h
        apply hall
        simp only [List.all_eq_true, List.contains_iff_mem] at h
        intro n hn; exact (hav n).2 (h n hn)
      rw [hspec.1 hall, this]
      simp


/-! ## non-vacuity -/

/-- precedence on a shared timestamp: the destination's block (payload 21) wins, the source's (20) with overwrite -/
example : union false [⟨1, 10⟩, ⟨2, 20⟩] [⟨2, 21⟩, ⟨3, 30⟩] = [⟨1, 10⟩, ⟨2, 21⟩, ⟨3, 30⟩] ∧
    union true [⟨1, 10⟩, ⟨2, 20⟩] [⟨2, 21⟩, ⟨3, 30⟩] = [⟨1, 10⟩, ⟨2, 20⟩, ⟨3, 30⟩] ∧
    conflicts [⟨1, 10⟩, ⟨2, 20⟩] [⟨2, 21⟩, ⟨3, 30⟩] = 1 := by decide

/-- completeness depends on the tolerance: blocks at 00:05 and 23:55 make a complete day with 300 s, not with 150 s;
    a tolerance ≤ 0 means the default of 300 s -/
example : complete 300000000000 86400 [⟨86400 + 300, 1⟩, ⟨86400 + 86100, 2⟩] = true ∧
    complete 150000000000 86400 [⟨86400 + 300, 1⟩, ⟨86400 + 86100, 2⟩] = false ∧
    complete 0 86400 [⟨86400 + 300, 1⟩, ⟨86400 + 86100, 2⟩] = true ∧
    complete 300000000000 86400 [] = false := by decide

def exSrc : Ifaces := [("eth0", [(0, [⟨300, 1⟩, ⟨86100, 2⟩]), (86400, [⟨86700, 3⟩, ⟨87000, 4⟩])]), ("eth1", [(0, [⟨600, 5⟩])])]
def exDst : Ifaces := [("eth0", [(0, [⟨300, 6⟩, ⟨86100, 7⟩]), (86400, [⟨87000, 8⟩, ⟨87300, 9⟩])]), ("eth1", [(0, [⟨900, 10⟩])])]
def exOpts : Opts := { overwrite := false, dry := false, tol := 300000000000, requested := [" eth0 "] }

/-- the hypotheses of `merge_refines_spec` / `counts_match` hold on a concrete non-trivial instance
    (selection of one of two interfaces, a complete-vs-complete day that is kept and a partial day
    that is rebuilt with one conflict won by the destination), and the conclusion is what one expects -/
example : selectInterfaces (listSourceInterfaces exSrc) exOpts.requested = some ["eth0"] ∧
    (mergeDatabases exOpts ⟨⟨false, exSrc⟩, ⟨false, exDst⟩⟩).1 = .ok { ifaces := 1, copied := 0, rebuilt := 1, skipped := 1, cDst := 1, cSrc := 0 } ∧
    getDay (mergeDatabases exOpts ⟨⟨false, exSrc⟩, ⟨false, exDst⟩⟩).2.dst.ifaces "eth0" 86400 = some [⟨86700, 3⟩, ⟨87000, 8⟩, ⟨87300, 9⟩] ∧
    getDay (mergeDatabases exOpts ⟨⟨false, exSrc⟩, ⟨false, exDst⟩⟩).2.dst.ifaces "eth0" 0 = some [⟨300, 6⟩, ⟨86100, 7⟩] ∧
    getDay (mergeDatabases exOpts ⟨⟨false, exSrc⟩, ⟨false, exDst⟩⟩).2.dst.ifaces "eth1" 0 = some [⟨900, 10⟩] := by decide

/-- with overwrite the complete source day replaces the complete destination day and the conflict goes to the source -/
example : (mergeDatabases { exOpts with overwrite := true } ⟨⟨false, exSrc⟩, ⟨false, exDst⟩⟩).1 =
      .ok { ifaces := 1, copied := 1, rebuilt := 1, skipped := 0, cDst := 0, cSrc := 1 } ∧
    getDay (mergeDatabases { exOpts with overwrite := true } ⟨⟨false, exSrc⟩, ⟨false, exDst⟩⟩).2.dst.ifaces "eth0" 0 = some [⟨300, 1⟩, ⟨86100, 2⟩] ∧
    getDay (mergeDatabases { exOpts with overwrite := true } ⟨⟨false, exSrc⟩, ⟨false, exDst⟩⟩).2.dst.ifaces "eth0" 86400 = some [⟨86700, 3⟩, ⟨87000, 4⟩, ⟨87300, 9⟩] := by decide

/-- `merge_refines_spec` needs `dry = false`: in a dry run the destination is NOT the documented result (it is unchanged) -/
example : getDay (mergeDatabases { exOpts with dry := true } ⟨⟨false, exSrc⟩, ⟨false, exDst⟩⟩).2.dst.ifaces "eth0" 86400 ≠
    specGet { exOpts with dry := true } ["eth0"] exSrc exDst "eth0" 86400 := by decide

/-- outside the selection hypothesis: an unknown interface is an error and nothing is merged -/
example : (mergeDatabases { exOpts with requested := ["eth0", "nope"] } ⟨⟨false, exSrc⟩, ⟨false, exDst⟩⟩).1 = .err "iface-not-found" ∧
    (mergeDatabases { exOpts with requested := ["eth0", "nope"] } ⟨⟨false, exSrc⟩, ⟨false, exDst⟩⟩).2.dst.ifaces = exDst := by decide


end C24
