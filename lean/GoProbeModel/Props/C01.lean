import GoProbeModel.Model.C01

/-!
C01 — property theorems: blocks read back byte-for-byte (`read_after_sessions`), by an invariant
over write histories of the model of `GPFile.writeBlock` / `GPDir.WriteBlocks` / `ReadBlockAtIndex`.
The encoder output is an input of every write; the theorems hold for every value that the decoder
maps back to the raw bytes (the codecs themselves are third-party: C02/C07).
-/
namespace C01

theorem writeAt_length (f : Bytes) (p : Nat) (b : Bytes) (hp : p ≤ f.length) :
    p + b.length ≤ (writeAt f p b).length := by
  unfold writeAt
  simp only [List.length_append, List.length_take, List.length_replicate, List.length_drop]
  omega

theorem writeAt_below (f : Bytes) (p : Nat) (b : Bytes) (hp : p ≤ f.length) (off len : Nat) (h : off + len ≤ p) :
    ((writeAt f p b).drop off).take len = (f.drop off).take len := by
  unfold writeAt
  have h0 : p - f.length = 0 := by omega
  simp only [h0, List.replicate_zero, List.append_nil, List.append_assoc]
  rw [List.drop_append_of_le_length (by simp; omega)]
  rw [List.take_append_of_le_length (by simp; omega)]
  rw [List.drop_take]
  rw [List.take_take]
  congr 1
  omega

theorem writeAt_at (f : Bytes) (p : Nat) (b : Bytes) (hp : p ≤ f.length) :
    ((writeAt f p b).drop p).take b.length = b := by
  unfold writeAt
  have h0 : p - f.length = 0 := by omega
  simp only [h0, List.replicate_zero, List.append_nil, List.append_assoc]
  have hl : (List.take p f).length = p := by simp; omega
  rw [List.drop_append_of_le_length (by omega)]
  rw [List.drop_of_length_le (by omega), List.nil_append]
  rw [List.take_append_of_le_length (by omega)]
  simp

theorem writeAt_nil (f : Bytes) (p : Nat) (hp : p ≤ f.length) : writeAt f p [] = f := by
  unfold writeAt
  have h0 : p - f.length = 0 := by omega
  simp [h0]

/-- `f'` keeps every byte of `f` below `p` (and is at least `p` long) -/
def Keeps (p : Nat) (f f' : Bytes) : Prop :=
  p ≤ f'.length ∧ ∀ off len, off + len ≤ p → (f'.drop off).take len = (f.drop off).take len

theorem Keeps.refl {p : Nat} {f : Bytes} (h : p ≤ f.length) : Keeps p f f := ⟨h, fun _ _ _ => rfl⟩

theorem Keeps.trans {p : Nat} {f g k : Bytes} (h1 : Keeps p f g) (h2 : Keeps p g k) : Keeps p f k :=
  ⟨h2.1, fun off len h => (h2.2 off len h).trans (h1.2 off len h)⟩

theorem keeps_writeAt (f : Bytes) (p q : Nat) (b : Bytes) (hq : q ≤ f.length) (hpq : p ≤ q) :
    Keeps p f (writeAt f q b) :=
  ⟨by have := writeAt_length f q b hq; omega, fun off len h => writeAt_below f q b hq off len (by omega)⟩

/-- Write through the 4096-byte `bufio.Writer` followed by `Flush` = one positional write -/
theorem bufWrite_flush (f : Bytes) (p : Nat) (b : Bytes) (hp : p ≤ f.length) :
    writeAt (bufWrite f p b).1 (bufWrite f p b).2.1 (bufWrite f p b).2.2 = writeAt f p b ∧
    (bufWrite f p b).2.1 + (bufWrite f p b).2.2.length = p + b.length := by
  unfold bufWrite
  split
  · refine ⟨writeAt_nil _ _ ?_, by simp⟩
    exact writeAt_length f p b hp
  · exact ⟨rfl, rfl⟩

/-- `Write` whose buffered part is later discarded by `Reset`: bytes below `p` survive -/
theorem bufWrite_keeps (f : Bytes) (p : Nat) (b : Bytes) (hp : p ≤ f.length) :
    Keeps p f (bufWrite f p b).1 := by
  unfold bufWrite
  split
  · exact keeps_writeAt f p p b hp (Nat.le_refl _)
  · exact Keeps.refl hp

/-- pointwise relation between two lists of equal length -/
inductive All2 {α β : Type} (R : α → β → Prop) : List α → List β → Prop
  | nil : All2 R [] []
  | cons {a b l1 l2} : R a b → All2 R l1 l2 → All2 R (a :: l1) (b :: l2)

/-! ## the per-column invariant -/

/-- header entry `b` faithfully stores history entry `h = (timestamp, raw bytes)` in `file` -/
def Good (dec : Nat → Bytes → Option Bytes) (file : Bytes) (cur : Nat) (b : Blk) (h : Int × Bytes) : Prop :=
  b.ts = h.1 ∧ b.rawLen = h.2.length ∧ b.off + b.len ≤ cur ∧
  (b.rawLen = 0 ∨ (b.enc = 0 ∧ b.len = b.rawLen ∧ (file.drop b.off).take b.len = h.2) ∨
   (b.enc ≠ 0 ∧ dec b.enc ((file.drop b.off).take b.len) = some h.2))

structure ColInv (dec : Nat → Bytes → Option Bytes) (c : Col) (hist : List (Int × Bytes)) : Prop where
  blocks : All2 (Good dec c.file c.cur) c.hdr hist
  cur_le : c.cur ≤ c.file.length
  pos_ok : c.pos = none ∨ c.pos = some c.cur

theorem Good.mono {dec file file' cur cur' b h} (hg : Good dec file cur b h)
    (hk : Keeps cur file file') (hc : cur ≤ cur') : Good dec file' cur' b h := by
  obtain ⟨h1, h2, h3, h4⟩ := hg
  refine ⟨h1, h2, by omega, ?_⟩
  rcases h4 with h4 | ⟨e, l, s⟩ | ⟨e, s⟩
  · exact Or.inl h4
  · exact Or.inr (Or.inl ⟨e, l, by rw [hk.2 _ _ h3]; exact s⟩)
  · exact Or.inr (Or.inr ⟨e, by rw [hk.2 _ _ h3]; exact s⟩)

theorem forall₂_mono {dec file file' cur cur'} {hdr : List Blk} {hist : List (Int × Bytes)}
    (h : All2 (Good dec file cur) hdr hist) (hk : Keeps cur file file') (hc : cur ≤ cur') :
    All2 (Good dec file' cur') hdr hist := by
  induction h with
  | nil => exact .nil
  | cons a _ ih => exact .cons (a.mono hk hc) ih

theorem forall₂_snoc {α β : Type} {R : α → β → Prop} {l1 : List α} {l2 : List β} {a b}
    (h : All2 R l1 l2) (hab : R a b) : All2 R (l1 ++ [a]) (l2 ++ [b]) := by
  induction h with
  | nil => exact .cons hab .nil
  | cons x _ ih => exact .cons x ih

/-- **one accepted block write preserves the invariant and appends exactly (ts, data)** —
    for every size (incl. > 4096 and incompressible), every encoder output that decodes back. -/
theorem writeBlock_inv (dec : Nat → Bytes → Option Bytes) (dflt : Nat) (c c' : Col) (hist : List (Int × Bytes))
    (ts : Int) (data comp : Bytes)
    (hinv : ColInv dec c hist)
    (hdec : dflt ≠ 0 → dec dflt comp = some data) (hnull : dflt = 0 → comp = data)
    (hw : writeBlock dflt c ts data comp = some c') :
    ColInv dec c' (hist ++ [(ts, data)]) := by
  unfold writeBlock at hw
  split at hw
  · simp at hw
  · split at hw
    · -- empty block: only the header grows
      rename_i _ hlen
      simp only [Option.some.injEq] at hw
      subst hw
      refine ⟨forall₂_snoc hinv.blocks ⟨rfl, ?_, by simp, Or.inl rfl⟩, hinv.cur_le, hinv.pos_ok⟩
      have : data = [] := List.eq_nil_of_length_eq_zero hlen
      simp [this]
    · rename_i _ hlen
      have hp0 : c.pos.getD c.cur = c.cur := by
        rcases hinv.pos_ok with h | h <;> simp [h]
      simp only [hp0] at hw
      split at hw
      · -- fallback to the null encoder
        rename_i hgt
        simp only [Option.some.injEq] at hw
        have hk1 := bufWrite_keeps c.file c.cur comp hinv.cur_le
        have hfl := bufWrite_flush (bufWrite c.file c.cur comp).1 c.cur data hk1.1
        have hk2 : Keeps c.cur c.file (writeAt (bufWrite c.file c.cur comp).1 c.cur data) :=
          hk1.trans (keeps_writeAt _ _ _ _ hk1.1 (Nat.le_refl _))
        subst hw
        simp only [hfl.1, hfl.2]
        refine ⟨forall₂_snoc (forall₂_mono hinv.blocks hk2 (Nat.le_add_right _ _)) ?_, ?_, Or.inr rfl⟩
        · refine ⟨rfl, rfl, by simp, Or.inr (Or.inl ⟨rfl, rfl, ?_⟩)⟩
          exact writeAt_at _ _ _ hk1.1
        · exact writeAt_length _ _ _ hk1.1
      · -- encoder output kept
        rename_i hle
        simp only [Option.some.injEq] at hw
        have hfl := bufWrite_flush c.file c.cur comp hinv.cur_le
        have hk : Keeps c.cur c.file (writeAt c.file c.cur comp) := keeps_writeAt _ _ _ _ hinv.cur_le (Nat.le_refl _)
        subst hw
        simp only [hfl.1, hfl.2]
        refine ⟨forall₂_snoc (forall₂_mono hinv.blocks hk (Nat.le_add_right _ _)) ?_, ?_, Or.inr rfl⟩
        · refine ⟨rfl, rfl, by simp, ?_⟩
          by_cases hd : dflt = 0
          · have := hnull hd
            subst this
            exact Or.inr (Or.inl ⟨hd, rfl, writeAt_at _ _ _ hinv.cur_le⟩)
          · refine Or.inr (Or.inr ⟨hd, ?_⟩)
            show dec dflt (List.take comp.length (List.drop c.cur (writeAt c.file c.cur comp))) = some data
            rw [writeAt_at _ _ _ hinv.cur_le]; exact hdec hd
        · exact writeAt_length _ _ _ hinv.cur_le

/-- **every stored block reads back as the bytes that were written** -/
theorem readBlock_good (dec : Nat → Bytes → Option Bytes) (file : Bytes) (cur : Nat) (hcur : cur ≤ file.length)
    (b : Blk) (h : Int × Bytes) (hg : Good dec file cur b h) : readBlock dec file b = some h.2 := by
  obtain ⟨_, h2, h3, h4⟩ := hg
  unfold readBlock
  by_cases h0 : b.rawLen = 0
  · have : h.2 = [] := List.eq_nil_of_length_eq_zero (by omega)
    simp [h0, this]
  · simp only [h0, if_false]
    rcases h4 with h4 | ⟨e, l, s⟩ | ⟨e, s⟩
    · exact absurd h4 h0
    · simp only [e, if_true]
      rw [← l, s]; simp [h2, l]
    · simp only [e, if_false]
      have hl : (List.take b.len (List.drop b.off file)).length = b.len := by
        simp only [List.length_take, List.length_drop]; omega
      simp [hl, s, h2]

/-! ## the day directory: 8 columns, sessions, abandoned sessions -/

/-- contract between the raw bytes and the encoder output handed to a write -/
def Contract (dec : Nat → Bytes → Option Bytes) (dflt : Nat) (w : Write) : Prop :=
  w.cols.length = 8 ∧ ∀ p ∈ w.cols, (dflt ≠ 0 → dec dflt p.2 = some p.1) ∧ (dflt = 0 → p.2 = p.1)

def colHist (ws : List Write) (j : Nat) : List (Int × Bytes) :=
  ws.map fun w => (w.ts, (w.cols.getD j ([], [])).1)

def hists (ws : List Write) : List (List (Int × Bytes)) := (List.range 8).map (colHist ws)

structure DayInv (dec : Nat → Bytes → Option Bytes) (d : Day) (ws : List Write) : Prop where
  cols : All2 (ColInv dec) d.cols (hists ws)
  traffic : d.traffic = ws.map (·.tm)
  tot : d.tot = (ws.foldl (fun a w => add3 a w.tm) (0,0,0), ws.foldl (fun a w => add4 a w.cnt) (0,0,0,0))

theorem range_map_getD {α β : Type} (l : List α) (d : α) (f : α → β) :
    (List.range l.length).map (fun j => f (l.getD j d)) = l.map f := by
  apply List.ext_getElem
  · simp
  · intro i h1 h2
    simp only [List.getElem_map, List.getElem_range]
    simp only [List.length_map, List.length_range] at h1
    simp [List.getD_eq_getElem?_getD, List.getElem?_eq_getElem h1]

theorem hists_snoc (ws : List Write) (w : Write) (hw : w.cols.length = 8) :
    hists (ws ++ [w]) = List.zipWith (fun h (d : Bytes × Bytes) => h ++ [(w.ts, d.1)]) (hists ws) w.cols := by
  unfold hists colHist
  apply List.ext_getElem
  · simp [hw]
  · intro i h1 h2
    simp only [List.length_map, List.length_range] at h1
    simp [List.getD_eq_getElem?_getD, List.getElem?_eq_getElem (show i < w.cols.length by omega)]

/-- the timestamps stored in a column header are those of its history -/
theorem hdr_ts {dec file cur} {hdr : List Blk} {hist : List (Int × Bytes)}
    (h : All2 (Good dec file cur) hdr hist) : hdr.map (·.ts) = hist.map (·.1) := by
  induction h with
  | nil => rfl
  | cons a _ ih => simp [a.1, ih]

theorem writeBlock_none_iff {dec} (dflt : Nat) (c : Col) (hist : List (Int × Bytes)) (ts : Int) (data comp : Bytes)
    (hinv : ColInv dec c hist) : writeBlock dflt c ts data comp = none ↔ ts ∈ hist.map (·.1) := by
  have := hdr_ts hinv.blocks
  unfold writeBlock
  have hany : (c.hdr.any (·.ts == ts)) = true ↔ ts ∈ hist.map (·.1) := by
    rw [← this, List.any_eq_true, List.mem_map]
    constructor
    · rintro ⟨b, hb, he⟩; exact ⟨b, hb, by simpa using he⟩
    · rintro ⟨b, hb, he⟩; exact ⟨b, hb, by simpa using he⟩
  by_cases hm : ts ∈ hist.map (·.1)
  · simp [hany.2 hm, hm]
  · have hf : (c.hdr.any (·.ts == ts)) = false := by
      cases hb : c.hdr.any (·.ts == ts) with
      | true => exact absurd (hany.1 hb) hm
      | false => rfl
    simp only [hf, Bool.false_eq_true, if_false, hm, iff_false]
    split
    · simp
    · split <;> simp

/-- relation between a column before and after some writes of a session -/
def Ext (o n : Col) : Prop := o.cur ≤ n.cur ∧ Keeps o.cur o.file n.file

theorem keeps_weaken {p q : Nat} {f g : Bytes} (h : Keeps q f g) (hpq : p ≤ q) : Keeps p f g :=
  ⟨by have := h.1; omega, fun off len hl => h.2 off len (by omega)⟩

theorem Ext.refl {dec c hist} (h : ColInv dec c hist) : Ext c c := ⟨Nat.le_refl _, Keeps.refl h.cur_le⟩

theorem Ext.trans {a b c : Col} (h1 : Ext a b) (h2 : Ext b c) : Ext a c :=
  ⟨Nat.le_trans h1.1 h2.1, h1.2.trans (keeps_weaken h2.2 h1.1)⟩

theorem writeBlock_ext {dec} (dflt : Nat) (c c' : Col) (hist : List (Int × Bytes)) (ts : Int) (data comp : Bytes)
    (hinv : ColInv dec c hist) (hw : writeBlock dflt c ts data comp = some c') : Ext c c' := by
  unfold writeBlock at hw
  split at hw
  · simp at hw
  · split at hw
    · simp only [Option.some.injEq] at hw; subst hw; exact ⟨Nat.le_refl _, Keeps.refl hinv.cur_le⟩
    · have hp0 : c.pos.getD c.cur = c.cur := by
        rcases hinv.pos_ok with h | h <;> simp [h]
      simp only [hp0] at hw
      split at hw
      · simp only [Option.some.injEq] at hw
        have hk1 := bufWrite_keeps c.file c.cur comp hinv.cur_le
        have hfl := bufWrite_flush (bufWrite c.file c.cur comp).1 c.cur data hk1.1
        subst hw
        simp only [hfl.1]
        exact ⟨Nat.le_add_right _ _, hk1.trans (keeps_writeAt _ _ _ _ hk1.1 (Nat.le_refl _))⟩
      · simp only [Option.some.injEq] at hw
        have hfl := bufWrite_flush c.file c.cur comp hinv.cur_le
        subst hw
        simp only [hfl.1]
        exact ⟨Nat.le_add_right _ _, keeps_writeAt _ _ _ _ hinv.cur_le (Nat.le_refl _)⟩

/-- `WriteBlocks` over the columns when the timestamp is new: every column appends its payload -/
theorem writeCols_ok {dec} (dflt : Nat) (ts : Int) (cols : List Col) (hs : List (List (Int × Bytes)))
    (ds : List (Bytes × Bytes))
    (hinv : All2 (ColInv dec) cols hs) (hlen : ds.length = cols.length)
    (hc : ∀ p ∈ ds, (dflt ≠ 0 → dec dflt p.2 = some p.1) ∧ (dflt = 0 → p.2 = p.1))
    (hnew : ∀ h ∈ hs, ts ∉ h.map (·.1)) :
    ∃ cols', writeCols dflt ts cols ds = (cols', true) ∧
      All2 (ColInv dec) cols' (List.zipWith (fun h (d : Bytes × Bytes) => h ++ [(ts, d.1)]) hs ds) ∧
      All2 Ext cols cols' := by
  induction hinv generalizing ds with
  | nil =>
    cases ds with
    | nil => exact ⟨[], by simp [writeCols], .nil, .nil⟩
    | cons _ _ => simp at hlen
  | @cons c h cs hs' hch _ ih =>
    cases ds with
    | nil => simp at hlen
    | cons d ds' =>
      have hd := hc d (by simp)
      cases hwb : writeBlock dflt c ts d.1 d.2 with
      | none =>
        exact absurd ((writeBlock_none_iff dflt c h ts d.1 d.2 hch).1 hwb) (hnew h (by simp))
      | some c' =>
        obtain ⟨cols', h1, h2, h3⟩ := ih ds' (by simpa using hlen) (fun p hp => hc p (by simp [hp]))
          (fun x hx => hnew x (by simp [hx]))
        refine ⟨c' :: cols', ?_, ?_, ?_⟩
        · obtain ⟨d1, d2⟩ := d
          simp only [writeCols, hwb, h1]
        · simp only [List.zipWith_cons_cons]
          exact .cons (writeBlock_inv dec dflt c c' h ts d.1 d.2 hch hd.1 hd.2 hwb) h2
        · exact .cons (writeBlock_ext dflt c c' h ts d.1 d.2 hch hwb) h3

/-- … and when the timestamp is already stored the very first column rejects it: nothing changes -/
theorem writeCols_dup {dec} (dflt : Nat) (ts : Int) (c : Col) (h : List (Int × Bytes)) (cs : List Col)
    (d : Bytes × Bytes) (ds : List (Bytes × Bytes)) (hch : ColInv dec c h) (hdup : ts ∈ h.map (·.1)) :
    writeCols dflt ts (c :: cs) (d :: ds) = (c :: cs, false) := by
  obtain ⟨d1, d2⟩ := d
  simp only [writeCols, (writeBlock_none_iff dflt c h ts d1 d2 hch).2 hdup]

theorem all2_ext_refl {dec} {cols : List Col} {hs : List (List (Int × Bytes))}
    (h : All2 (ColInv dec) cols hs) : All2 Ext cols cols := by
  induction h with
  | nil => exact .nil
  | cons a _ ih => exact .cons (Ext.refl a) ih

theorem all2_ext_trans {a b c : List Col} (h1 : All2 Ext a b) (h2 : All2 Ext b c) : All2 Ext a c := by
  induction h1 generalizing c with
  | nil => cases h2; exact .nil
  | cons x _ ih => cases h2 with | cons y ys => exact .cons (x.trans y) (ih ys)

theorem hists_ts (ws : List Write) : ∀ h ∈ hists ws, h.map (·.1) = ws.map (·.ts) := by
  intro h hh
  simp only [hists, List.mem_map, List.mem_range] at hh
  obtain ⟨j, _, rfl⟩ := hh
  simp [colHist]


/-- one `WriteBlocks` call on a day -/
theorem writeBlocks_step {dec} (dflt : Nat) (d : Day) (ws : List Write) (w : Write)
    (hinv : DayInv dec d ws) (hc : Contract dec dflt w) :
    (w.ts ∉ ws.map (·.ts) → ∃ d', writeBlocks dflt d w = (d', true) ∧ DayInv dec d' (ws ++ [w]) ∧ All2 Ext d.cols d'.cols) ∧
    (w.ts ∈ ws.map (·.ts) → writeBlocks dflt d w = (d, false)) := by
  constructor
  · intro hnew
    have hl : w.cols.length = d.cols.length := by
      have : d.cols.length = (hists ws).length := by
        clear hnew hc
        have := hinv.cols
        generalize d.cols = a at this
        generalize hists ws = b at this
        induction this with
        | nil => rfl
        | cons _ _ ih => simp [ih]
      rw [this, hc.1]; simp [hists]
    obtain ⟨cols', h1, h2, h3⟩ := writeCols_ok dflt w.ts d.cols (hists ws) w.cols hinv.cols hl hc.2
      (fun h hh => by rw [hists_ts ws h hh]; exact hnew)
    refine ⟨{ cols := cols', traffic := d.traffic ++ [w.tm], tot := (add3 d.tot.1 w.tm, add4 d.tot.2 w.cnt) }, ?_, ?_, h3⟩
    · simp [writeBlocks, h1]
    · refine ⟨by rw [hists_snoc ws w hc.1]; exact h2, by simp [hinv.traffic], ?_⟩
      simp [hinv.tot, List.foldl_append]
  · intro hdup
    have hcols := hinv.cols
    have hne : ∃ p ps, w.cols = p :: ps := by
      cases hw : w.cols with
      | nil => have := hc.1; simp [hw] at this
      | cons p ps => exact ⟨p, ps, rfl⟩
    obtain ⟨p, ps, hp⟩ := hne
    have hh : hists ws = colHist ws 0 :: (List.range' 1 7).map (colHist ws) := by
      simp [hists, List.range_succ_eq_map, List.range'_eq_map_range]
    rw [hh] at hcols
    generalize hdc : d.cols = dc at hcols
    cases hcols with
    | @cons c h cs hs' hch _ =>
      have : writeCols dflt w.ts d.cols w.cols = (d.cols, false) := by
        rw [hdc, hp]
        exact writeCols_dup dflt w.ts c _ cs p ps hch (by simpa [colHist] using hdup)
      simp [writeBlocks, this]

/-- the write loop of one session -/
theorem go_spec {dec} (dflt : Nat) : ∀ (s : Session) (d : Day) (ws : List Write),
    DayInv dec d ws → (∀ w ∈ s, Contract dec dflt w) →
    All2 Ext d.cols (runSession.go dflt d s).1.cols ∧
    (sessionAccepted (ws.map (·.ts)) s = true →
       (runSession.go dflt d s).2 = true ∧ DayInv dec (runSession.go dflt d s).1 (ws ++ s)) ∧
    (sessionAccepted (ws.map (·.ts)) s = false → (runSession.go dflt d s).2 = false) := by
  intro s
  induction s with
  | nil =>
    intro d ws hinv _
    have e0 : runSession.go dflt d [] = (d, true) := rfl
    rw [e0]
    exact ⟨all2_ext_refl hinv.cols, fun _ => ⟨rfl, by simpa using hinv⟩, fun h => by simp [sessionAccepted] at h⟩
  | cons w s ih =>
    intro d ws hinv hc
    have hw := writeBlocks_step dflt d ws w hinv (hc w (by simp))
    by_cases hdup : w.ts ∈ ws.map (·.ts)
    · have e := hw.2 hdup
      have hacc : sessionAccepted (ws.map (·.ts)) (w :: s) = false := by
        have : (ws.map (·.ts)).contains w.ts = true := by simpa using hdup
        simp only [sessionAccepted, this, Bool.not_true, Bool.false_and]
      have e1 : runSession.go dflt d (w :: s) = (d, false) := by simp only [runSession.go, e]
      rw [e1]
      exact ⟨all2_ext_refl hinv.cols, fun h => by rw [hacc] at h; simp at h, fun _ => rfl⟩
    · obtain ⟨d', e, hinv', hext⟩ := hw.1 hdup
      have hih := ih d' (ws ++ [w]) hinv' (fun x hx => hc x (by simp [hx]))
      have hacc : sessionAccepted (ws.map (·.ts)) (w :: s) = sessionAccepted ((ws ++ [w]).map (·.ts)) s := by
        have : (ws.map (·.ts)).contains w.ts = false := by simpa using hdup
        simp only [sessionAccepted, this, Bool.not_false, Bool.true_and, List.map_append, List.map_cons, List.map_nil]
      have e1 : runSession.go dflt d (w :: s) = runSession.go dflt d' s := by simp only [runSession.go, e]
      rw [e1, hacc]
      refine ⟨all2_ext_trans hext hih.1, fun h => ?_, hih.2.2⟩
      have := hih.2.1 h
      simpa using this

theorem colInv_restore {dec} {o n : Col} {h : List (Int × Bytes)} (hi : ColInv dec o h) (he : Ext o n) :
    ColInv dec { o with file := n.file, pos := none } h :=
  ⟨forall₂_mono hi.blocks he.2 (Nat.le_refl _), he.2.1, Or.inl rfl⟩

theorem all2_restore {dec} {os ns : List Col} {hs : List (List (Int × Bytes))}
    (hi : All2 (ColInv dec) os hs) (he : All2 Ext os ns) :
    All2 (ColInv dec) ((os.zip ns).map fun (o, n) => { o with file := n.file, pos := none }) hs := by
  induction hi generalizing ns with
  | nil => cases he; exact .nil
  | cons a _ ih => cases he with | cons x xs => exact .cons (colInv_restore a x) (ih xs)

theorem all2_closepos {dec} {cs : List Col} {hs : List (List (Int × Bytes))}
    (hi : All2 (ColInv dec) cs hs) : All2 (ColInv dec) (cs.map fun c => { c with pos := none }) hs := by
  induction hi with
  | nil => exact .nil
  | cons a _ ih => exact .cons ⟨a.blocks, a.cur_le, Or.inl rfl⟩ ih

/-- **one session**: committed iff the spec accepts it; an abandoned session leaves every committed
    block readable (only bytes beyond `CurrentOffset` changed) -/
theorem runSession_spec {dec} (dflt : Nat) (d : Day) (ws : List Write) (s : Session)
    (hinv : DayInv dec d ws) (hc : ∀ w ∈ s, Contract dec dflt w) :
    DayInv dec (runSession dflt d s) (if sessionAccepted (ws.map (·.ts)) s then ws ++ s else ws) := by
  have h := go_spec dflt s d ws hinv hc
  unfold runSession
  cases hacc : sessionAccepted (ws.map (·.ts)) s with
  | true =>
    obtain ⟨hok, hinv'⟩ := h.2.1 hacc
    simp only [hok, if_true]
    exact ⟨all2_closepos hinv'.cols, hinv'.traffic, hinv'.tot⟩
  | false =>
    have hok := h.2.2 hacc
    simp only [hok, Bool.false_eq_true, if_false]
    exact ⟨all2_restore hinv.cols h.1, hinv.traffic, hinv.tot⟩

theorem dayInv_empty (dec) : DayInv dec Day.empty [] := by
  refine ⟨?_, rfl, rfl⟩
  have e : hists [] = List.replicate 8 [] := by decide
  rw [e]
  simp only [Day.empty, List.replicate]
  repeat' constructor

/-- **all sessions**: the day holds exactly the writes of the accepted sessions -/
theorem runSessions_inv {dec} (dflt : Nat) (ss : List Session)
    (hc : ∀ s ∈ ss, ∀ w ∈ s, Contract dec dflt w) :
    DayInv dec (runSessions dflt ss) (specBlocks [] ss) := by
  unfold runSessions
  suffices H : ∀ (ss : List Session) (d : Day) (ws : List Write), DayInv dec d ws →
      (∀ s ∈ ss, ∀ w ∈ s, Contract dec dflt w) →
      DayInv dec (ss.foldl (runSession dflt) d) (specBlocks ws ss) from H ss _ _ (dayInv_empty dec) hc
  intro ss
  induction ss with
  | nil => intro d ws h _; simpa [specBlocks] using h
  | cons s ss ih =>
    intro d ws h hc
    have hs := runSession_spec dflt d ws s h (hc s (by simp))
    simp only [List.foldl_cons, specBlocks]
    split
    · rename_i hacc; simp only [hacc, if_true] at hs
      exact ih _ _ hs (fun x hx => hc x (by simp [hx]))
    · rename_i hacc
      have : sessionAccepted (ws.map (·.ts)) s = false := by simpa using hacc
      simp only [this, Bool.false_eq_true, if_false] at hs
      exact ih _ _ hs (fun x hx => hc x (by simp [hx]))

/-- **all sessions, each with its own default encoder** -/
theorem runTagged_inv {dec} (ses : List (Nat × Session))
    (hc : ∀ p ∈ ses, ∀ w ∈ p.2, Contract dec p.1 w) :
    DayInv dec (runTagged ses) (specBlocks [] (ses.map (·.2))) := by
  unfold runTagged
  suffices H : ∀ (ses : List (Nat × Session)) (d : Day) (ws : List Write), DayInv dec d ws →
      (∀ p ∈ ses, ∀ w ∈ p.2, Contract dec p.1 w) →
      DayInv dec (ses.foldl (fun d p => runSession p.1 d p.2) d) (specBlocks ws (ses.map (·.2))) from
    H ses _ _ (dayInv_empty dec) hc
  intro ses
  induction ses with
  | nil => intro d ws h _; simpa [specBlocks] using h
  | cons p ses ih =>
    intro d ws h hc
    have hs := runSession_spec p.1 d ws p.2 h (hc p (by simp))
    simp only [List.foldl_cons, List.map_cons, specBlocks]
    split
    · rename_i hacc; simp only [hacc, if_true] at hs
      exact ih _ _ hs (fun x hx => hc x (by simp [hx]))
    · rename_i hacc
      have : sessionAccepted (ws.map (·.ts)) p.2 = false := by simpa using hacc
      simp only [this, Bool.false_eq_true, if_false] at hs
      exact ih _ _ hs (fun x hx => hc x (by simp [hx]))

/-! ## the reader's view equals the spec -/

theorem readAll_good {dec file cur} {hdr : List Blk} {hist : List (Int × Bytes)}
    (hb : All2 (Good dec file cur) hdr hist) (hcur : cur ≤ file.length) :
    hdr.map (readBlock dec file) = hist.map (fun e => some e.2) := by
  induction hb with
  | nil => rfl
  | cons g _ ih => simp only [List.map_cons, readBlock_good dec file cur hcur _ _ g, ih]

theorem percol_eq {dec} {cols : List Col} {hs : List (List (Int × Bytes))}
    (h : All2 (ColInv dec) cols hs) :
    cols.map (fun c => c.hdr.map (readBlock dec c.file)) = hs.map (fun h => h.map (fun e => some e.2)) := by
  induction h with
  | nil => rfl
  | cons hc _ ih => simp only [List.map_cons, ih, readAll_good hc.blocks hc.cur_le]

theorem transpose_hists (g : Nat → Write → Option Bytes) (ws : List Write) :
    transposeBlocks ((List.range 8).map fun j => ws.map (g j)) ws.length
      = ws.map fun w => (List.range 8).map fun j => g j w := by
  induction ws with
  | nil => simp [transposeBlocks]
  | cons w ws ih =>
    simp only [List.length_cons, transposeBlocks, List.map_map, List.map_cons]
    have : (List.tail ∘ fun j => g j w :: List.map (g j) ws) = fun j => ws.map (g j) := by
      funext j; rfl
    rw [this, ih]
    simp [Function.comp_def]

theorem zip3_map {α : Type} (ws : List α) (f : α → Int) (g : α → Nat × Nat × Nat) (r : α → List (Option Bytes)) :
    ((ws.map f).zip ((ws.map g).zip (ws.map r))).map (fun (x : Int × (Nat × Nat × Nat) × List (Option Bytes)) =>
        ({ ts := x.1, tm := x.2.1, cols := x.2.2 } : RBlock))
      = ws.map fun w => { ts := f w, tm := g w, cols := r w } := by
  induction ws with
  | nil => rfl
  | cons w ws ih => simp [ih]

theorem view_of_inv {dec} (d : Day) (ws : List Write) (hinv : DayInv dec d ws)
    (h8 : ∀ w ∈ ws, w.cols.length = 8) :
    view dec d = { blocks := ws.map fun w => { ts := w.ts, tm := w.tm, cols := w.cols.map fun c => some c.1 },
                   totals := (ws.foldl (fun a w => add3 a w.tm) (0,0,0), ws.foldl (fun a w => add4 a w.cnt) (0,0,0,0)) } := by
  have hp := percol_eq hinv.cols
  have hts : (d.cols.head?.map (·.hdr.map (·.ts))).getD [] = ws.map (·.ts) := by
    have hcols := hinv.cols
    have hh : hists ws = colHist ws 0 :: (List.range' 1 7).map (colHist ws) := by
      simp [hists, List.range_succ_eq_map, List.range'_eq_map_range]
    rw [hh] at hcols
    generalize d.cols = dc at hcols
    cases hcols with
    | @cons c h cs hs' hch _ =>
      simp only [List.head?_cons, Option.map_some, Option.getD_some]
      rw [hdr_ts hch.blocks]; simp [colHist]
  unfold view
  simp only [hp, hts, hinv.traffic, hinv.tot, List.length_map]
  congr 1
  have e1 : (hists ws).map (fun h => h.map fun e => some e.2)
      = (List.range 8).map fun j => ws.map (fun w => some (w.cols.getD j ([], [])).1) := by
    simp [hists, colHist, Function.comp_def]
  rw [e1, transpose_hists (fun j w => some (w.cols.getD j ([], [])).1) ws]
  have e2 : (ws.map fun w => (List.range 8).map fun j => some (w.cols.getD j ([], [])).1)
      = ws.map fun w => w.cols.map fun c => some c.1 := by
    apply List.map_congr_left
    intro w hw
    have := range_map_getD w.cols ([], []) (fun c : Bytes × Bytes => some c.1)
    rw [h8 w hw] at this
    exact this
  rw [e2]
  exact zip3_map ws (·.ts) (·.tm) (fun w => w.cols.map fun c => some c.1)

theorem mem_specBlocks (acc : List Write) (ss : List Session) (w : Write) (h : w ∈ specBlocks acc ss) :
    w ∈ acc ∨ ∃ s ∈ ss, w ∈ s := by
  induction ss generalizing acc with
  | nil => left; simpa [specBlocks] using h
  | cons s ss ih =>
    simp only [specBlocks] at h
    split at h
    · rcases ih _ h with h' | ⟨s', hs', hw⟩
      · rcases List.mem_append.1 h' with h'' | h''
        · exact Or.inl h''
        · exact Or.inr ⟨s, by simp, h''⟩
      · exact Or.inr ⟨s', by simp [hs'], hw⟩
    · rcases ih _ h with h' | ⟨s', hs', hw⟩
      · exact Or.inl h'
      · exact Or.inr ⟨s', by simp [hs'], hw⟩

/-- **read_after_sessions** (C01): for every default encoder, every decoder that inverts the encoder
    on the payloads written, every list of sessions (any sizes — below and above the 4096-byte
    buffer, compressible or not — any split into sessions, abandoned sessions included), a fresh
    reader sees exactly the blocks of the accepted sessions: same timestamps in order, every
    column byte-for-byte, the per-block summaries and the day totals. -/
theorem read_after_sessions (dec : Nat → Bytes → Option Bytes) (dflt : Nat) (ss : List Session)
    (hc : ∀ s ∈ ss, ∀ w ∈ s, Contract dec dflt w) :
    view dec (runSessions dflt ss) = specView ss := by
  have hinv := runSessions_inv (dec := dec) dflt ss hc
  have h8 : ∀ w ∈ specBlocks [] ss, w.cols.length = 8 := by
    intro w hw
    rcases mem_specBlocks [] ss w hw with h | ⟨s, hs, hws⟩
    · simp at h
    · exact (hc s hs w hws).1
  rw [view_of_inv _ _ hinv h8]
  rfl

/-- **read_after_sessions_mixed** (C01): the same for a day directory whose sessions were written
    with DIFFERENT default encoders (e.g. lz4, then zstd, then null): the reader picks the decoder
    by the type stored with each block, and sees every block byte-for-byte. `dec e` only has to
    invert encoder `e` on the payloads of the sessions written with `e`. -/
theorem read_after_sessions_mixed (dec : Nat → Bytes → Option Bytes) (ses : List (Nat × Session))
    (hc : ∀ p ∈ ses, ∀ w ∈ p.2, Contract dec p.1 w) :
    view dec (runTagged ses) = specView (ses.map (·.2)) := by
  have hinv := runTagged_inv (dec := dec) ses hc
  have h8 : ∀ w ∈ specBlocks [] (ses.map (·.2)), w.cols.length = 8 := by
    intro w hw
    rcases mem_specBlocks [] _ w hw with h | ⟨s, hs, hws⟩
    · simp at h
    · obtain ⟨p, hp, rfl⟩ := List.mem_map.1 hs
      exact (hc p hp w hws).1
  rw [view_of_inv _ _ hinv h8]
  rfl

/-! ## non-vacuity: the hypotheses are satisfiable on the witness of the repaired defect -/

/-- a 5000-byte block whose encoder output (5020 bytes) exceeds both the raw size and the 4096-byte
    buffer — the shape that read back wrong before the `fix:` — followed by a second block in the
    same session: the contract of `read_after_sessions` holds for it, and the fallback branch with
    write-through really is the one taken. -/
example :
    let data : Bytes := List.replicate 5000 7
    let comp : Bytes := List.replicate 5020 9
    let small : Bytes × Bytes := ([1,2,3], [4,5])
    let w1 : Write := { ts := 300, tm := (1,0,0), cnt := (1,1,1,1), cols := (data, comp) :: List.replicate 7 small }
    let w2 : Write := { ts := 600, tm := (1,0,0), cnt := (1,1,1,1), cols := List.replicate 8 small }
    let dec : Nat → Bytes → Option Bytes := fun _ c => if c = comp then some data else if c = [4,5] then some [1,2,3] else none
    (∀ s ∈ [[w1, w2]], ∀ w ∈ s, Contract dec 1 w) ∧ comp.length > data.length ∧ comp.length > bufSize := by
  intro data comp small w1 w2 dec
  have hlc : comp.length = 5020 := List.length_replicate ..
  have hld : data.length = 5000 := List.length_replicate ..
  have hne : ([4,5] : Bytes) ≠ comp := by
    intro h; have := congrArg List.length h; rw [hlc] at this; simp at this
  refine ⟨?_, by rw [hlc, hld]; omega, by rw [hlc]; simp [bufSize]⟩
  intro s hs w hw
  simp only [List.mem_singleton] at hs
  subst hs
  simp only [List.mem_cons, List.not_mem_nil, or_false] at hw
  rcases hw with rfl | rfl
  · refine ⟨by simp [w1], ?_⟩
    intro p hp
    simp only [w1, List.mem_cons, List.mem_replicate] at hp
    rcases hp with rfl | ⟨_, rfl⟩
    · exact ⟨fun _ => by simp [dec], fun h => by simp at h⟩
    · exact ⟨fun _ => by simp [dec, small, hne], fun h => by simp at h⟩
  · refine ⟨by simp [w2], ?_⟩
    intro p hp
    simp only [w2, List.mem_replicate] at hp
    obtain ⟨_, rfl⟩ := hp
    exact ⟨fun _ => by simp [dec, small, hne], fun h => by simp at h⟩

end C01
