import GoProbeModel.Model.C01
namespace C01
theorem placeholder : True := trivial
end C01
