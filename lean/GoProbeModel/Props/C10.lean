import GoProbeModel.Model.C10
import GoProbeModel.Gen.Facts

/-!
C10 — condition text is parsed robustly and its canonical form keeps its meaning: property theorems.

All theorems are about the executable model `Model/C10.lean` of the code as written (after the two
`fix:` commits), whose rewrite table `rules` is read from `Gen/Sanitize.lean`, regenerated from the
source on every check. Property theorems (each with a docstring naming its clause):

* `rules_eq`, `attributes_match_source`, `comparators_match_source`, `documented_matches_help` — ties:
  the regenerated table, parsed by the model's pattern parser, is the explicit rule list the proofs
  are about; attribute / comparator lists and the documented spellings are those of the source.
* `parser_total` — on every token list the parser returns a tree, "empty" or an error; no panic, the
  fuel never runs out. (`tokenize` and `sanitizeWith` are total Lean functions.)
* `parse_print`, `parse_sound`, `prints_unique`, `specParse_iff`, `parse_eq_spec` — the parser accepts
  exactly the grammar of the help text (`Prints`) and returns the tree that was written; model = spec.
* `tokenize_spec` — model = spec for the tokenizer (below the 64 KiB scanner limit).
* `canonical_idem`, `canonical_same_tree`, `canonical_fixpoint` — the canonical string of ANY text
  tokenizes to the same tokens; same tree; canonicalising again is the identity (tokenizer level).
* `canonical_again_partial`, `canonical_again_lex` — the same through the second `SanitizeUserInput`,
  for canonical strings without tokens spelled like a word form; `keyword_value_not_canonical` shows
  the failure outside that hypothesis.
* `spelling_tokens`, `spelling` — every text written with documented spellings (`lexOK`: any spelling of
  every operator, any letter case, any white space) is sanitised and tokenized to the tokens of its
  symbol form, for the rule ORDER OF THE SOURCE; and parsed to the tree its symbol form denotes.
  `old_table_rejects_and_not` replays the defect of the table before the fix (map iteration order).

Proof technique: the rewriting passes are followed on typed lexeme lists (`render D`: the text after
the rewrites `D`), one generic step lemma per rule shape (`kw_step` for `\s+word\s+`, `lit1_step`,
`litN_step`, `notParen_step`, `notSp_step`), chained over the 39 rules by `chain_steps` with a
computable side-condition check (`descs_ok`).
-/
set_option maxRecDepth 4000
set_option linter.unusedSimpArgs false
set_option linter.unusedVariables false

namespace C10
open Outcome

@[simp] theorem obind_ok {α β} (a : α) (f : α → Outcome β) : (Outcome.ok a).bind f = f a := rfl
@[simp] theorem obind_err {α β} (e : String) (f : α → Outcome β) : (Outcome.err e : Outcome α).bind f = .err e := rfl
@[simp] theorem obind_panic {α β} (e : String) (f : α → Outcome β) : (Outcome.panic e : Outcome α).bind f = .panic e := rfl

theorem accept_cons_eq (t : Str) (rest : List Str) (pos : Nat) :
    accept (t :: rest, pos) t = .ok (true, (rest, pos + 1)) := by
  simp [accept, advance]

theorem accept_cons_ne {t tok : Str} (h : t ≠ tok) (rest : List Str) (pos : Nat) :
    accept (t :: rest, pos) tok = .ok (false, (t :: rest, pos)) := by
  simp [accept, h]

theorem accept_nil (tok : Str) (pos : Nat) : accept ([], pos) tok = .ok (false, ([], pos)) := rfl

/-- `accept` never fails; it either consumes exactly the expected token or leaves the state alone -/
theorem accept_spec (st : PState) (tok : Str) :
    (∃ rest, st.1 = tok :: rest ∧ accept st tok = .ok (true, (rest, st.2 + 1))) ∨
    (st.1.head? ≠ some tok ∧ accept st tok = .ok (false, st)) := by
  obtain ⟨ts, pos⟩ := st
  cases ts with
  | nil => right; simp [accept]
  | cons t rest =>
    by_cases h : t = tok
    · left; subst h; exact ⟨rest, rfl, accept_cons_eq _ _ _⟩
    · right; exact ⟨by simp [h], accept_cons_ne h _ _⟩
end C10

namespace C10
open Outcome

theorem advance_spec (st : PState) :
    (st.1 = [] ∧ advance st = .err (errAt "eoi" st.2)) ∨
    (∃ t rest, st.1 = t :: rest ∧ advance st = .ok (t, (rest, st.2 + 1))) := by
  obtain ⟨ts, pos⟩ := st
  cases ts with
  | nil => left; exact ⟨rfl, rfl⟩
  | cons t rest => right; exact ⟨t, rest, rfl, rfl⟩

theorem listToTree_ne_nil (isAnd : Bool) : ∀ ns : List Ast, ns ≠ [] → ∃ a, listToTree isAnd ns = .ok a
  | [], h => absurd rfl h
  | [n], _ => ⟨n, rfl⟩
  | n :: m :: rest, _ => by
    obtain ⟨r, hr⟩ := listToTree_ne_nil isAnd (m :: rest) (by simp)
    exact ⟨if isAnd then .and n r else .or n r, by simp [listToTree, hr]⟩

/-- `acceptFirst` either fails with an error or consumes exactly one token -/
theorem acceptFirst_spec (st : PState) (kind : String) (l : List Str) :
    (∃ e, acceptFirst st kind l = .err e) ∨
    (∃ a rest, st.1 = a :: rest ∧ a ∈ l ∧ acceptFirst st kind l = .ok (a, (rest, st.2 + 1))) := by
  induction l with
  | nil => left; exact ⟨_, rfl⟩
  | cons a as ih =>
    rcases accept_spec st a with ⟨rest, h1, h2⟩ | ⟨_, h2⟩
    · right; exact ⟨a, rest, h1, by simp, by simp [acceptFirst, h2]⟩
    · rcases ih with ⟨e, he⟩ | ⟨b, rest, h1, hb, h3⟩
      · left; exact ⟨e, by simp [acceptFirst, h2, he]⟩
      · right; exact ⟨b, rest, h1, by simp [hb], by simp [acceptFirst, h2, h3]⟩

/-- `condition` fails with an error or consumes exactly three tokens -/
theorem condition_spec (st : PState) :
    (∃ e, condition st = .err e) ∨
    (∃ a c v rest, st.1 = a :: c :: v :: rest ∧ a ∈ attributes ∧ c ∈ comparators ∧
      condition st = .ok (.cond a c v, (rest, st.2 + 3))) := by
  unfold condition
  rcases acceptFirst_spec st "attr" attributes with ⟨e, he⟩ | ⟨a, r1, h1, ha, h2⟩
  · left; exact ⟨e, by simp [he]⟩
  · rcases acceptFirst_spec (r1, st.2 + 1) "cmp" comparators with ⟨e, he⟩ | ⟨c, r2, h3, hc, h4⟩
    · left; exact ⟨e, by simp [h2, he]⟩
    · rcases advance_spec (r2, st.2 + 1 + 1) with ⟨h5, h6⟩ | ⟨v, r3, h5, h6⟩
      · left; exact ⟨errAt "eoi" (st.2 + 1 + 1), by simp [h2, h4, h6]⟩
      · right
        refine ⟨a, c, v, r3, ?_, ha, hc, ?_⟩
        · simp only at h3 h5; rw [h1, h3, h5]
        · simp [h2, h4, h6]
end C10

namespace C10
open Outcome

theorem prints_length {lvl : Nat} {a : Ast} {ts : List Str} (h : Prints lvl a ts) : 3 ≤ ts.length := by
  induction h with
  | cond => simp
  | paren _ ih => simp; omega
  | not _ ih => simp; omega
  | and _ _ ih1 ih2 => simp; omega
  | or _ _ ih1 ih2 => simp; omega
  | up _ _ ih => exact ih

/-- what an accepting run of a parser function means: it consumed a prefix `pre` of the remaining
    tokens that is a way of writing the resulting tree at the function's level -/
def Consumes (lvl : Nat) (st st' : PState) (a : Ast) : Prop :=
  ∃ pre, st.1 = pre ++ st'.1 ∧ st'.2 = st.2 + pre.length ∧ Prints lvl a pre

def SoundAt (f : Nat) : Prop :=
  (∀ st a st', primitive f st = .ok (a, st') → Consumes 3 st st' a) ∧
  (∀ st a st', negation f st = .ok (a, st') → Consumes 2 st st' a) ∧
  (∀ st ns st', conjNodes f st = .ok (ns, st') → ∃ a, listToTree true ns = .ok a ∧ ns ≠ [] ∧ Consumes 1 st st' a) ∧
  (∀ st ns st', disjNodes f st = .ok (ns, st') → ∃ a, listToTree false ns = .ok a ∧ ns ≠ [] ∧ Consumes 0 st st' a)

theorem listToTree_cons (isAnd : Bool) (n : Ast) {ns : List Ast} {r : Ast} (h : listToTree isAnd ns = .ok r)
    (hne : ns ≠ []) : listToTree isAnd (n :: ns) = .ok (if isAnd then .and n r else .or n r) := by
  cases ns with
  | nil => exact absurd rfl hne
  | cons m rest => simp [listToTree, h]

theorem sound_all : ∀ f, SoundAt f := by
  intro f
  induction f with
  | zero =>
    refine ⟨?_, ?_, ?_, ?_⟩ <;> intro st _ _ h <;> simp [primitive, negation, conjNodes, disjNodes] at h
  | succ f ih =>
    obtain ⟨ihP, ihN, ihC, ihD⟩ := ih
    have hP : ∀ st a st', primitive (f + 1) st = .ok (a, st') → Consumes 3 st st' a := by
      intro st a st' h
      rw [primitive] at h
      rcases accept_spec st tLp with ⟨rest, h1, h2⟩ | ⟨_, h2⟩
      · simp only [h2, obind_ok, if_true] at h
        cases hd : disjNodes f (rest, st.2 + 1) with
        | err e => simp [hd] at h
        | panic e => simp [hd] at h
        | ok r =>
          obtain ⟨ns, s2⟩ := r
          obtain ⟨a0, hl, _, pre0, hp1, hp2, hp3⟩ := ihD _ _ _ hd
          simp only [hd, obind_ok, hl] at h
          rcases accept_spec s2 tRp with ⟨r3, h3, h4⟩ | ⟨_, h4⟩
          · simp only [h4, obind_ok, if_true] at h
            injection h with h; injection h with ha hs; subst ha; subst hs
            refine ⟨tLp :: pre0 ++ [tRp], ?_, ?_, Prints.paren hp3⟩
            · simp only at hp1 ⊢; rw [h1, hp1, h3]; simp
            · simp only at hp2 ⊢; rw [hp2]; simp; omega
          · simp [h4] at h
      · simp only [h2, obind_ok] at h
        rcases condition_spec st with ⟨e, he⟩ | ⟨x, c, v, rest, h1, hx, hc, h3⟩
        · simp [he] at h
        · simp only [h3] at h
          injection h with h; injection h with ha hs; subst ha; subst hs
          exact ⟨[x, c, v], by simp [h1], by simp, Prints.cond hx hc⟩
    have hN : ∀ st a st', negation (f + 1) st = .ok (a, st') → Consumes 2 st st' a := by
      intro st a st' h
      rw [negation] at h
      rcases accept_spec st tNot with ⟨rest, h1, h2⟩ | ⟨_, h2⟩
      · simp only [h2, obind_ok, if_true] at h
        cases hd : primitive f (rest, st.2 + 1) with
        | err e => simp [hd] at h
        | panic e => simp [hd] at h
        | ok r =>
          obtain ⟨n, s2⟩ := r
          obtain ⟨pre0, hp1, hp2, hp3⟩ := ihP _ _ _ hd
          simp only [hd, obind_ok] at h
          injection h with h; injection h with ha hs; subst ha; subst hs
          refine ⟨tNot :: pre0, ?_, ?_, Prints.not hp3⟩
          · simp only at hp1 ⊢; rw [h1, hp1]; simp
          · simp only at hp2 ⊢; rw [hp2]; simp; omega
      · simp only [h2, obind_ok] at h
        obtain ⟨pre0, hp1, hp2, hp3⟩ := ihP _ _ _ h
        exact ⟨pre0, hp1, hp2, Prints.up (by omega) hp3⟩
    have hC : ∀ st ns st', conjNodes (f + 1) st = .ok (ns, st') →
        ∃ a, listToTree true ns = .ok a ∧ ns ≠ [] ∧ Consumes 1 st st' a := by
      intro st ns st' h
      rw [conjNodes] at h
      cases hd : negation f st with
      | err e => simp [hd] at h
      | panic e => simp [hd] at h
      | ok r =>
        obtain ⟨n, s1⟩ := r
        obtain ⟨pre0, hp1, hp2, hp3⟩ := ihN _ _ _ hd
        simp only [hd, obind_ok] at h
        rcases accept_spec s1 tAnd with ⟨rest, h1, h2⟩ | ⟨_, h2⟩
        · simp only [h2, obind_ok, if_true] at h
          cases hd2 : conjNodes f (rest, s1.2 + 1) with
          | err e => simp [hd2] at h
          | panic e => simp [hd2] at h
          | ok r2 =>
            obtain ⟨ns2, s3⟩ := r2
            obtain ⟨a2, hl2, hne2, pre2, hq1, hq2, hq3⟩ := ihC _ _ _ hd2
            simp only [hd2, obind_ok] at h
            injection h with h; injection h with ha hs; subst ha; subst hs
            refine ⟨.and n a2, by simpa using listToTree_cons true n hl2 hne2, by simp, pre0 ++ tAnd :: pre2, ?_, ?_, Prints.and hp3 hq3⟩
            · simp only at hq1 ⊢; rw [hp1, h1, hq1]; simp
            · simp only at hq2 ⊢; rw [hq2, hp2]; simp; omega
        · simp only [h2, obind_ok] at h
          injection h with h; injection h with ha hs; subst ha; subst hs
          exact ⟨n, rfl, by simp, pre0, hp1, hp2, Prints.up (by omega) hp3⟩
    have hD : ∀ st ns st', disjNodes (f + 1) st = .ok (ns, st') →
        ∃ a, listToTree false ns = .ok a ∧ ns ≠ [] ∧ Consumes 0 st st' a := by
      intro st ns st' h
      rw [disjNodes] at h
      cases hd : conjNodes f st with
      | err e => simp [hd] at h
      | panic e => simp [hd] at h
      | ok r =>
        obtain ⟨cs, s1⟩ := r
        obtain ⟨n, hl, _, pre0, hp1, hp2, hp3⟩ := ihC _ _ _ hd
        simp only [hd, obind_ok, hl] at h
        rcases accept_spec s1 tOr with ⟨rest, h1, h2⟩ | ⟨_, h2⟩
        · simp only [h2, obind_ok, if_true] at h
          cases hd2 : disjNodes f (rest, s1.2 + 1) with
          | err e => simp [hd2] at h
          | panic e => simp [hd2] at h
          | ok r2 =>
            obtain ⟨ns2, s3⟩ := r2
            obtain ⟨a2, hl2, hne2, pre2, hq1, hq2, hq3⟩ := ihD _ _ _ hd2
            simp only [hd2, obind_ok] at h
            injection h with h; injection h with ha hs; subst ha; subst hs
            refine ⟨.or n a2, by simpa using listToTree_cons false n hl2 hne2, by simp, pre0 ++ tOr :: pre2, ?_, ?_, Prints.or hp3 hq3⟩
            · simp only at hq1 ⊢; rw [hp1, h1, hq1]; simp
            · simp only at hq2 ⊢; rw [hq2, hp2]; simp; omega
        · simp only [h2, obind_ok] at h
          injection h with h; injection h with ha hs; subst ha; subst hs
          exact ⟨n, rfl, by simp, pre0, hp1, hp2, Prints.up (by omega) hp3⟩
    exact ⟨hP, hN, hC, hD⟩
end C10

namespace C10
open Outcome

theorem consumes_length {lvl : Nat} {st st' : PState} {a : Ast} (h : Consumes lvl st st' a) :
    st'.1.length + 3 ≤ st.1.length := by
  obtain ⟨pre, h1, _, h3⟩ := h
  have := prints_length h3
  rw [h1]; simp; omega

theorem condition_no_panic (st : PState) (w : String) : condition st ≠ .panic w := by
  rcases condition_spec st with ⟨e, he⟩ | ⟨a, c, v, rest, _, _, _, h⟩ <;> simp [*]

def NoPanicAt (f : Nat) : Prop :=
  (∀ st : PState, 4 * st.1.length + 1 ≤ f → ∀ w, primitive f st ≠ .panic w) ∧
  (∀ st : PState, 4 * st.1.length + 2 ≤ f → ∀ w, negation f st ≠ .panic w) ∧
  (∀ st : PState, 4 * st.1.length + 3 ≤ f → ∀ w, conjNodes f st ≠ .panic w) ∧
  (∀ st : PState, 4 * st.1.length + 4 ≤ f → ∀ w, disjNodes f st ≠ .panic w)

theorem no_panic_all : ∀ f, NoPanicAt f := by
  intro f
  induction f with
  | zero => refine ⟨?_, ?_, ?_, ?_⟩ <;> intro st h <;> omega
  | succ f ih =>
    obtain ⟨ihP, ihN, ihC, ihD⟩ := ih
    obtain ⟨sP, sN, sC, sD⟩ := sound_all f
    refine ⟨?_, ?_, ?_, ?_⟩
    · intro st hf w
      rw [primitive]
      rcases accept_spec st tLp with ⟨rest, h1, h2⟩ | ⟨_, h2⟩
      · simp only [h2, obind_ok, if_true]
        cases hd : disjNodes f (rest, st.2 + 1) with
        | err e => simp
        | panic e => exact absurd hd (ihD _ (by simp only; rw [h1] at hf; simp at hf; omega) e)
        | ok r =>
          obtain ⟨ns, s2⟩ := r
          obtain ⟨a0, hl, _, _⟩ := sD _ _ _ hd
          simp only [obind_ok, hl]
          rcases accept_spec s2 tRp with ⟨r3, h3, h4⟩ | ⟨_, h4⟩ <;> simp [h4]
      · simp only [h2, obind_ok]
        exact condition_no_panic st w
    · intro st hf w
      rw [negation]
      rcases accept_spec st tNot with ⟨rest, h1, h2⟩ | ⟨_, h2⟩
      · simp only [h2, obind_ok, if_true]
        cases hd : primitive f (rest, st.2 + 1) with
        | err e => simp
        | panic e => exact absurd hd (ihP _ (by simp only; rw [h1] at hf; simp at hf; omega) e)
        | ok r => simp
      · simp only [h2, obind_ok]
        exact ihP st (by omega) w
    · intro st hf w
      rw [conjNodes]
      cases hd : negation f st with
      | err e => simp
      | panic e => exact absurd hd (ihN _ (by omega) e)
      | ok r =>
        obtain ⟨n, s1⟩ := r
        have hlen := consumes_length (sN _ _ _ hd)
        simp only [obind_ok]
        rcases accept_spec s1 tAnd with ⟨rest, h1, h2⟩ | ⟨_, h2⟩
        · simp only [h2, obind_ok, if_true]
          cases hd2 : conjNodes f (rest, s1.2 + 1) with
          | err e => simp
          | panic e => exact absurd hd2 (ihC _ (by simp only; rw [h1] at hlen; simp at hlen; omega) e)
          | ok r2 => simp
        · simp [h2]
    · intro st hf w
      rw [disjNodes]
      cases hd : conjNodes f st with
      | err e => simp
      | panic e => exact absurd hd (ihC _ (by omega) e)
      | ok r =>
        obtain ⟨cs, s1⟩ := r
        obtain ⟨n, hl, _, hcons⟩ := sC _ _ _ hd
        have hlen := consumes_length hcons
        simp only [obind_ok, hl]
        rcases accept_spec s1 tOr with ⟨rest, h1, h2⟩ | ⟨_, h2⟩
        · simp only [h2, obind_ok, if_true]
          cases hd2 : disjNodes f (rest, s1.2 + 1) with
          | err e => simp
          | panic e => exact absurd hd2 (ihD _ (by simp only; rw [h1] at hlen; simp at hlen; omega) e)
          | ok r2 => simp
        · simp [h2]

/-- **parser_total** (clause "either rejects the condition with an error or accepts it without
    crashing", parser part): on every token list `parseConditional` returns a tree, the empty
    conditional or an error — `listToTree` is never called with an empty list and the recursion
    ends (the fuel of the model never runs out; termination itself is Lean's check of the
    definitions). -/
theorem parser_total (ts : List Str) : (parseTokens ts).isPanic = false := by
  unfold parseTokens
  split
  · rfl
  · cases hd : disjNodes (parseFuel ts) (ts, 0) with
    | err e => rfl
    | panic e => exact absurd hd ((no_panic_all _).2.2.2 (ts, 0) (by simp [parseFuel]) e)
    | ok r =>
      obtain ⟨ns, st⟩ := r
      obtain ⟨a, hl, _, _⟩ := (sound_all _).2.2.2 _ _ _ hd
      simp only [obind_ok, hl]
      split <;> rfl
end C10

namespace C10
open Outcome

theorem attr_ne_ops : ∀ a ∈ attributes, a ≠ tLp ∧ a ≠ tNot := by decide

theorem acceptFirst_mem {a : Str} {l : List Str} (h : a ∈ l) (rest : List Str) (pos : Nat) (kind : String) :
    acceptFirst (a :: rest, pos) kind l = .ok (a, (rest, pos + 1)) := by
  induction l with
  | nil => cases h
  | cons b bs ih =>
    by_cases hb : a = b
    · subst hb; simp [acceptFirst, accept_cons_eq]
    · have : a ∈ bs := by cases h with | head => exact absurd rfl hb | tail _ h => exact h
      simp [acceptFirst, accept_cons_ne hb, ih this]

theorem condition_ok {a c : Str} (ha : a ∈ attributes) (hc : c ∈ comparators) (v : Str) (rest : List Str) (pos : Nat) :
    condition (a :: c :: v :: rest, pos) = .ok (.cond a c v, (rest, pos + 3)) := by
  simp [condition, acceptFirst_mem ha, acceptFirst_mem hc, advance]

theorem prints3_head {a : Ast} {ts : List Str} (h : Prints 3 a ts) :
    ∃ t r, ts = t :: r ∧ t ≠ tNot := by
  generalize hl : 3 = lvl at h
  cases h with
  | cond ha hc => exact ⟨_, _, rfl, (attr_ne_ops _ ha).2⟩
  | paren _ => exact ⟨_, _, rfl, by decide⟩
  | not _ => omega
  | and _ _ => omega
  | or _ _ => omega
  | up h' _ => omega

def P3 (a : Ast) (ts : List Str) : Prop := ∀ (rest : List Str) (pos f : Nat),
  4 * (ts.length + rest.length) + 1 ≤ f → primitive f (ts ++ rest, pos) = .ok (a, (rest, pos + ts.length))
def P2 (a : Ast) (ts : List Str) : Prop := ∀ (rest : List Str) (pos f : Nat),
  4 * (ts.length + rest.length) + 2 ≤ f → negation f (ts ++ rest, pos) = .ok (a, (rest, pos + ts.length))
def P1 (a : Ast) (ts : List Str) : Prop := ∀ (rest : List Str) (pos f : Nat),
  4 * (ts.length + rest.length) + 3 ≤ f → rest.head? ≠ some tAnd →
  ∃ ns, conjNodes f (ts ++ rest, pos) = .ok (ns, (rest, pos + ts.length)) ∧ listToTree true ns = .ok a ∧ ns ≠ []
def P0 (a : Ast) (ts : List Str) : Prop := ∀ (rest : List Str) (pos f : Nat),
  4 * (ts.length + rest.length) + 4 ≤ f → rest.head? ≠ some tAnd → rest.head? ≠ some tOr →
  ∃ ns, disjNodes f (ts ++ rest, pos) = .ok (ns, (rest, pos + ts.length)) ∧ listToTree false ns = .ok a ∧ ns ≠ []

def PAt (lvl : Nat) (a : Ast) (ts : List Str) : Prop :=
  (lvl = 3 → P3 a ts) ∧ (lvl = 2 → P2 a ts) ∧ (lvl = 1 → P1 a ts) ∧ (lvl = 0 → P0 a ts)

theorem accept_head_ne {rest : List Str} {tok : Str} (h : rest.head? ≠ some tok) (pos : Nat) :
    accept (rest, pos) tok = .ok (false, (rest, pos)) := by
  cases rest with
  | nil => rfl
  | cons t r => exact accept_cons_ne (by intro e; apply h; simp [e]) _ _

theorem complete_all {lvl : Nat} {a : Ast} {ts : List Str} (h : Prints lvl a ts) : PAt lvl a ts := by
  induction h with
  | @cond a c v ha hc =>
    refine ⟨fun _ => ?_, by omega, by omega, by omega⟩
    intro rest pos f hf
    obtain ⟨f', rfl⟩ : ∃ f', f = f' + 1 := ⟨f - 1, by omega⟩
    rw [primitive]
    simp [accept_cons_ne (attr_ne_ops _ ha).1, condition_ok ha hc]
  | @paren a ts _ ih =>
    refine ⟨fun _ => ?_, by omega, by omega, by omega⟩
    intro rest pos f hf
    obtain ⟨f', rfl⟩ : ∃ f', f = f' + 1 := ⟨f - 1, by omega⟩
    rw [primitive]
    have h0 := ih.2.2.2 rfl (tRp :: rest) (pos + 1) f' (by simp at hf ⊢; omega) (by simp [tRp, tAnd]) (by simp [tRp, tOr])
    obtain ⟨ns, h1, h2, _⟩ := h0
    have e : (tLp :: ts ++ [tRp]) ++ rest = tLp :: (ts ++ tRp :: rest) := by simp
    rw [e]
    simp only [accept_cons_eq, obind_ok, if_true, h1, h2]
    simp; omega
  | @not a ts _ ih =>
    refine ⟨by omega, fun _ => ?_, by omega, by omega⟩
    intro rest pos f hf
    obtain ⟨f', rfl⟩ : ∃ f', f = f' + 1 := ⟨f - 1, by omega⟩
    rw [negation]
    have h0 := ih.1 rfl rest (pos + 1) f' (by simp at hf ⊢; omega)
    simp only [List.cons_append, accept_cons_eq, obind_ok, if_true, h0]
    simp; omega
  | @and l r tl tr _ _ ihl ihr =>
    refine ⟨by omega, by omega, fun _ => ?_, by omega⟩
    intro rest pos f hf hr
    obtain ⟨f', rfl⟩ : ∃ f', f = f' + 1 := ⟨f - 1, by omega⟩
    rw [conjNodes]
    have e : (tl ++ tAnd :: tr) ++ rest = tl ++ (tAnd :: (tr ++ rest)) := by simp
    rw [e]
    have h0 := ihl.2.1 rfl (tAnd :: (tr ++ rest)) pos f' (by simp at hf ⊢; omega)
    obtain ⟨ns, h1, h2, h3⟩ := ihr.2.2.1 rfl rest (pos + tl.length + 1) f' (by simp at hf ⊢; omega) hr
    simp only [h0, obind_ok, accept_cons_eq, if_true, h1]
    refine ⟨l :: ns, ?_, by simpa using listToTree_cons true l h2 h3, by simp⟩
    simp; omega
  | @or l r tl tr _ _ ihl ihr =>
    refine ⟨by omega, by omega, by omega, fun _ => ?_⟩
    intro rest pos f hf hr1 hr2
    obtain ⟨f', rfl⟩ : ∃ f', f = f' + 1 := ⟨f - 1, by omega⟩
    rw [disjNodes]
    have e : (tl ++ tOr :: tr) ++ rest = tl ++ (tOr :: (tr ++ rest)) := by simp
    rw [e]
    obtain ⟨cs, g1, g2, _⟩ := ihl.2.2.1 rfl (tOr :: (tr ++ rest)) pos f' (by simp at hf ⊢; omega) (by simp [tOr, tAnd])
    obtain ⟨ns, h1, h2, h3⟩ := ihr.2.2.2 rfl rest (pos + tl.length + 1) f' (by simp at hf ⊢; omega) hr1 hr2
    simp only [g1, g2, obind_ok, accept_cons_eq, if_true, h1]
    refine ⟨l :: ns, ?_, by simpa using listToTree_cons false l h2 h3, by simp⟩
    simp; omega
  | @up lvl a ts hl hp ih =>
    have hcases : lvl = 0 ∨ lvl = 1 ∨ lvl = 2 := by omega
    rcases hcases with rfl | rfl | rfl
    · refine ⟨by omega, by omega, by omega, fun _ => ?_⟩
      intro rest pos f hf hr1 hr2
      obtain ⟨f', rfl⟩ : ∃ f', f = f' + 1 := ⟨f - 1, by omega⟩
      rw [disjNodes]
      obtain ⟨cs, g1, g2, _⟩ := ih.2.2.1 rfl rest pos f' (by omega) hr1
      simp only [g1, g2, obind_ok, accept_head_ne hr2]
      exact ⟨[a], by simp, rfl, by simp⟩
    · refine ⟨by omega, by omega, fun _ => ?_, by omega⟩
      intro rest pos f hf hr
      obtain ⟨f', rfl⟩ : ∃ f', f = f' + 1 := ⟨f - 1, by omega⟩
      rw [conjNodes]
      have h0 := ih.2.1 rfl rest pos f' (by omega)
      simp only [h0, obind_ok, accept_head_ne hr]
      exact ⟨[a], by simp, rfl, by simp⟩
    · refine ⟨by omega, fun _ => ?_, by omega, by omega⟩
      intro rest pos f hf
      obtain ⟨f', rfl⟩ : ∃ f', f = f' + 1 := ⟨f - 1, by omega⟩
      rw [negation]
      obtain ⟨t, r, rfl, hne⟩ := prints3_head hp
      have h0 := ih.1 rfl rest pos f' (by omega)
      simp only [List.cons_append] at h0 ⊢
      simp only [accept_cons_ne hne, obind_ok, h0]
      simp

/-- **parse_print** (clause "the canonical string parses to a condition that means the same", token
    level): every way of writing a tree with the grammar of the help text — minimal or redundant
    parentheses — is parsed back to exactly that tree. -/
theorem parse_print {a : Ast} {ts : List Str} (h : Prints 0 a ts) : parseTokens ts = .ok (some a) := by
  have hlen := prints_length h
  obtain ⟨ns, h1, h2, _⟩ := (complete_all h).2.2.2 rfl [] 0 (parseFuel ts) (by simp [parseFuel]) (by simp) (by simp)
  unfold parseTokens
  have : ts.isEmpty = false := by cases ts with | nil => simp at hlen | cons => rfl
  simp only [this]
  simp only [List.append_nil] at h1
  simp [h1, h2]

/-- the parser accepts exactly the sentences of the grammar -/
theorem parse_sound {a : Ast} {ts : List Str} (h : parseTokens ts = .ok (some a)) : Prints 0 a ts := by
  unfold parseTokens at h
  split at h
  · simp at h
  · cases hd : disjNodes (parseFuel ts) (ts, 0) with
    | err e => simp [hd] at h
    | panic e => simp [hd] at h
    | ok r =>
      obtain ⟨ns, st⟩ := r
      obtain ⟨b, hl, _, pre, hp1, _, hp3⟩ := (sound_all _).2.2.2 _ _ _ hd
      simp only [hd, obind_ok, hl] at h
      split at h
      · simp at h
      · rename_i hempty
        simp at hempty
        injection h with h; injection h with h; subst h
        simp only at hp1
        rw [hp1, hempty]; simpa using hp3

/-- a token list has at most one meaning -/
theorem prints_unique {a b : Ast} {ts : List Str} (ha : Prints 0 a ts) (hb : Prints 0 b ts) : a = b := by
  have := (parse_print ha).symm.trans (parse_print hb)
  injection this with this; injection this
end C10

namespace C10

/-! ### the executable reference parser of the spec accepts the same relation -/

def SpecSoundAt (f : Nat) : Prop :=
  (∀ ts a r, pPrim f ts = some (a, r) → ∃ pre, ts = pre ++ r ∧ Prints 3 a pre) ∧
  (∀ ts a r, pNot f ts = some (a, r) → ∃ pre, ts = pre ++ r ∧ Prints 2 a pre) ∧
  (∀ ts a r, pAnd f ts = some (a, r) → ∃ pre, ts = pre ++ r ∧ Prints 1 a pre) ∧
  (∀ ts a r, pOr f ts = some (a, r) → ∃ pre, ts = pre ++ r ∧ Prints 0 a pre)

theorem spec_sound_all : ∀ f, SpecSoundAt f := by
  intro f
  induction f with
  | zero => refine ⟨?_, ?_, ?_, ?_⟩ <;> intro ts a r h <;> simp [pPrim, pNot, pAnd, pOr] at h
  | succ f ih =>
    obtain ⟨ihP, ihN, ihA, ihO⟩ := ih
    refine ⟨?_, ?_, ?_, ?_⟩
    · intro ts a r h
      rw [pPrim.eq_def] at h; simp only at h
      cases ts with
      | nil => simp at h
      | cons t rest =>
        simp only at h
        split at h
        · rename_i ht; subst ht
          cases hd : pOr f rest with
          | none => simp [hd] at h
          | some p =>
            obtain ⟨a0, r'⟩ := p
            obtain ⟨pre0, hp1, hp2⟩ := ihO _ _ _ hd
            simp only [hd] at h
            cases r' with
            | nil => simp at h
            | cons t' r'' =>
              simp only at h
              split at h
              · rename_i ht'; subst ht'
                injection h with h; injection h with ha hr; subst ha; subst hr
                exact ⟨tLp :: pre0 ++ [tRp], by rw [hp1]; simp, Prints.paren hp2⟩
              · simp at h
        · cases rest with
          | nil => simp at h
          | cons c rest2 =>
            cases rest2 with
            | nil => simp at h
            | cons v r' =>
              simp only at h
              split at h
              · rename_i hac
                injection h with h; injection h with ha hr; subst ha; subst hr
                exact ⟨[t, c, v], by simp, Prints.cond hac.1 hac.2⟩
              · simp at h
    · intro ts a r h
      rw [pNot.eq_def] at h; simp only at h
      cases ts with
      | nil => simp at h
      | cons t rest =>
        simp only at h
        split at h
        · rename_i ht; subst ht
          cases hd : pPrim f rest with
          | none => simp [hd] at h
          | some p =>
            obtain ⟨a0, r'⟩ := p
            obtain ⟨pre0, hp1, hp2⟩ := ihP _ _ _ hd
            simp only [hd] at h
            injection h with h; injection h with ha hr; subst ha; subst hr
            exact ⟨tNot :: pre0, by rw [hp1]; simp, Prints.not hp2⟩
        · obtain ⟨pre0, hp1, hp2⟩ := ihP _ _ _ h
          exact ⟨pre0, hp1, Prints.up (by omega) hp2⟩
    · intro ts a r h
      rw [pAnd] at h
      cases hd : pNot f ts with
      | none => simp [hd] at h
      | some p =>
        obtain ⟨a0, r0⟩ := p
        obtain ⟨pre0, hp1, hp2⟩ := ihN _ _ _ hd
        simp only [hd] at h
        cases r0 with
        | nil =>
          simp only at h
          injection h with h; injection h with ha hr; subst ha; subst hr
          exact ⟨pre0, hp1, Prints.up (by omega) hp2⟩
        | cons t r' =>
          simp only at h
          split at h
          · rename_i ht; subst ht
            cases hd2 : pAnd f r' with
            | none => simp [hd2] at h
            | some p2 =>
              obtain ⟨b, r''⟩ := p2
              obtain ⟨pre2, hq1, hq2⟩ := ihA _ _ _ hd2
              simp only [hd2] at h
              injection h with h; injection h with ha hr; subst ha; subst hr
              exact ⟨pre0 ++ tAnd :: pre2, by rw [hp1, hq1]; simp, Prints.and hp2 hq2⟩
          · injection h with h; injection h with ha hr; subst ha; subst hr
            exact ⟨pre0, hp1, Prints.up (by omega) hp2⟩
    · intro ts a r h
      rw [pOr] at h
      cases hd : pAnd f ts with
      | none => simp [hd] at h
      | some p =>
        obtain ⟨a0, r0⟩ := p
        obtain ⟨pre0, hp1, hp2⟩ := ihA _ _ _ hd
        simp only [hd] at h
        cases r0 with
        | nil =>
          simp only at h
          injection h with h; injection h with ha hr; subst ha; subst hr
          exact ⟨pre0, hp1, Prints.up (by omega) hp2⟩
        | cons t r' =>
          simp only at h
          split at h
          · rename_i ht; subst ht
            cases hd2 : pOr f r' with
            | none => simp [hd2] at h
            | some p2 =>
              obtain ⟨b, r''⟩ := p2
              obtain ⟨pre2, hq1, hq2⟩ := ihO _ _ _ hd2
              simp only [hd2] at h
              injection h with h; injection h with ha hr; subst ha; subst hr
              exact ⟨pre0 ++ tOr :: pre2, by rw [hp1, hq1]; simp, Prints.or hp2 hq2⟩
          · injection h with h; injection h with ha hr; subst ha; subst hr
            exact ⟨pre0, hp1, Prints.up (by omega) hp2⟩

def Q3 (a : Ast) (ts : List Str) : Prop := ∀ (rest : List Str) (f : Nat),
  4 * (ts.length + rest.length) + 1 ≤ f → pPrim f (ts ++ rest) = some (a, rest)
def Q2 (a : Ast) (ts : List Str) : Prop := ∀ (rest : List Str) (f : Nat),
  4 * (ts.length + rest.length) + 2 ≤ f → pNot f (ts ++ rest) = some (a, rest)
def Q1 (a : Ast) (ts : List Str) : Prop := ∀ (rest : List Str) (f : Nat),
  4 * (ts.length + rest.length) + 3 ≤ f → rest.head? ≠ some tAnd → pAnd f (ts ++ rest) = some (a, rest)
def Q0 (a : Ast) (ts : List Str) : Prop := ∀ (rest : List Str) (f : Nat),
  4 * (ts.length + rest.length) + 4 ≤ f → rest.head? ≠ some tAnd → rest.head? ≠ some tOr →
  pOr f (ts ++ rest) = some (a, rest)

def QAt (lvl : Nat) (a : Ast) (ts : List Str) : Prop :=
  (lvl = 3 → Q3 a ts) ∧ (lvl = 2 → Q2 a ts) ∧ (lvl = 1 → Q1 a ts) ∧ (lvl = 0 → Q0 a ts)

theorem spec_complete_all {lvl : Nat} {a : Ast} {ts : List Str} (h : Prints lvl a ts) : QAt lvl a ts := by
  induction h with
  | @cond a c v ha hc =>
    refine ⟨fun _ => ?_, by omega, by omega, by omega⟩
    intro rest f hf
    obtain ⟨f', rfl⟩ : ∃ f', f = f' + 1 := ⟨f - 1, by omega⟩
    rw [pPrim.eq_def]; simp only
    simp [(attr_ne_ops _ ha).1, ha, hc]
  | @paren a ts _ ih =>
    refine ⟨fun _ => ?_, by omega, by omega, by omega⟩
    intro rest f hf
    obtain ⟨f', rfl⟩ : ∃ f', f = f' + 1 := ⟨f - 1, by omega⟩
    rw [pPrim.eq_def]; simp only
    have h0 := ih.2.2.2 rfl (tRp :: rest) f' (by simp at hf ⊢; omega) (by simp [tRp, tAnd]) (by simp [tRp, tOr])
    have e : (tLp :: ts ++ [tRp]) ++ rest = tLp :: (ts ++ tRp :: rest) := by simp
    rw [e]
    simp [h0]
  | @not a ts _ ih =>
    refine ⟨by omega, fun _ => ?_, by omega, by omega⟩
    intro rest f hf
    obtain ⟨f', rfl⟩ : ∃ f', f = f' + 1 := ⟨f - 1, by omega⟩
    rw [pNot.eq_def]; simp only
    have h0 := ih.1 rfl rest f' (by simp at hf ⊢; omega)
    simp [h0]
  | @and l r tl tr _ _ ihl ihr =>
    refine ⟨by omega, by omega, fun _ => ?_, by omega⟩
    intro rest f hf hr
    obtain ⟨f', rfl⟩ : ∃ f', f = f' + 1 := ⟨f - 1, by omega⟩
    rw [pAnd]
    have e : (tl ++ tAnd :: tr) ++ rest = tl ++ (tAnd :: (tr ++ rest)) := by simp
    rw [e]
    have h0 := ihl.2.1 rfl (tAnd :: (tr ++ rest)) f' (by simp at hf ⊢; omega)
    have h1 := ihr.2.2.1 rfl rest f' (by simp at hf ⊢; omega) hr
    simp [h0, h1]
  | @or l r tl tr _ _ ihl ihr =>
    refine ⟨by omega, by omega, by omega, fun _ => ?_⟩
    intro rest f hf hr1 hr2
    obtain ⟨f', rfl⟩ : ∃ f', f = f' + 1 := ⟨f - 1, by omega⟩
    rw [pOr]
    have e : (tl ++ tOr :: tr) ++ rest = tl ++ (tOr :: (tr ++ rest)) := by simp
    rw [e]
    have h0 := ihl.2.2.1 rfl (tOr :: (tr ++ rest)) f' (by simp at hf ⊢; omega) (by simp [tOr, tAnd])
    have h1 := ihr.2.2.2 rfl rest f' (by simp at hf ⊢; omega) hr1 hr2
    simp [h0, h1]
  | @up lvl a ts hl hp ih =>
    have hcases : lvl = 0 ∨ lvl = 1 ∨ lvl = 2 := by omega
    rcases hcases with rfl | rfl | rfl
    · refine ⟨by omega, by omega, by omega, fun _ => ?_⟩
      intro rest f hf hr1 hr2
      obtain ⟨f', rfl⟩ : ∃ f', f = f' + 1 := ⟨f - 1, by omega⟩
      rw [pOr]
      have h0 := ih.2.2.1 rfl rest f' (by omega) hr1
      simp only [h0]
      cases rest with
      | nil => rfl
      | cons t r => simp at hr2; simp [hr2]
    · refine ⟨by omega, by omega, fun _ => ?_, by omega⟩
      intro rest f hf hr
      obtain ⟨f', rfl⟩ : ∃ f', f = f' + 1 := ⟨f - 1, by omega⟩
      rw [pAnd]
      have h0 := ih.2.1 rfl rest f' (by omega)
      simp only [h0]
      cases rest with
      | nil => rfl
      | cons t r => simp at hr; simp [hr]
    · refine ⟨by omega, fun _ => ?_, by omega, by omega⟩
      intro rest f hf
      obtain ⟨f', rfl⟩ : ∃ f', f = f' + 1 := ⟨f - 1, by omega⟩
      rw [pNot.eq_def]; simp only
      obtain ⟨t, r, rfl, hne⟩ := prints3_head hp
      have h0 := ih.1 rfl rest f' (by omega)
      simp only [List.cons_append] at h0 ⊢
      simp [hne, h0]

/-- the executable reference parser decides the grammar relation -/
theorem specParse_iff (ts : List Str) (a : Ast) : specParse ts = some a ↔ Prints 0 a ts := by
  constructor
  · intro h
    unfold specParse at h
    split at h
    · rename_i b hb
      injection h with h; subst h
      obtain ⟨pre, h1, h2⟩ := (spec_sound_all _).2.2.2 _ _ _ hb
      simpa [h1] using h2
    · simp at h
  · intro h
    have := (spec_complete_all h).2.2.2 rfl [] (4 * ts.length + 4) (by simp) (by simp) (by simp)
    unfold specParse
    simp only [List.append_nil] at this
    simp [this]

/-- **model = spec** for the parser: the model of `parseConditional` returns a tree exactly when
    the reference parser does, and then the same one. -/
theorem parse_eq_spec (ts : List Str) (a : Ast) : parseTokens ts = .ok (some a) ↔ specParse ts = some a :=
  ⟨fun h => (specParse_iff ts a).2 (parse_sound h), fun h => parse_print ((specParse_iff ts a).1 h)⟩
end C10

namespace C10

theorem startsDelim_eq (c : Char) : startsDelim c = isDelim c := by
  have e33 : (33 : Nat) = '!'.toNat := rfl
  have e61 : (61 : Nat) = '='.toNat := rfl
  have e60 : (60 : Nat) = '<'.toNat := rfl
  have e62 : (62 : Nat) = '>'.toNat := rfl
  have e124 : (124 : Nat) = '|'.toNat := rfl
  have e38 : (38 : Nat) = '&'.toNat := rfl
  have e40 : (40 : Nat) = '('.toNat := rfl
  have e41 : (41 : Nat) = ')'.toNat := rfl
  have e32 : (32 : Nat) = ' '.toNat := rfl
  have e10 : (10 : Nat) = '\n'.toNat := rfl
  have e13 : (13 : Nat) = '\r'.toNat := rfl
  have e9 : (9 : Nat) = '\t'.toNat := rfl
  simp only [startsDelim, Gen.Sanitize.startsDelimiter, isDelim, isOpChar, isWs, e33, e61, e60, e62, e124, e38, e40,
    e41, e32, e10, e13, e9, Char.toNat_inj]
  rw [Bool.eq_iff_iff]
  simp only [ite_eq_left_iff, Bool.or_eq_true, beq_iff_eq, Bool.not_eq_true]
  constructor
  · intro h
    by_cases hc : c = '!' ∨ c = '=' ∨ c = '<' ∨ c = '>' ∨ c = '|' ∨ c = '&' ∨ c = '(' ∨ c = ')' ∨ c = ' ' ∨ c = '\n' ∨ c = '\r' ∨ c = '\t'
    · rcases hc with h|h|h|h|h|h|h|h|h|h|h|h <;> simp [h]
    · simp [hc] at h
  · intro h
    rcases h with (((((((h|h)|h)|h)|h)|h)|h)|h)|(((h|h)|h)|h) <;> simp [h]

theorem endsDelim_eq (c : Char) : endsDelim c = (c == '=') := by
  have e61 : (61 : Nat) = '='.toNat := rfl
  simp only [endsDelim, Gen.Sanitize.endsDelimiter, e61, Char.toNat_inj]
  by_cases h : c = '=' <;> simp [h]
end C10

namespace C10

/-- the three kinds of delimiter characters of `delimiterSplitFunc` -/
theorem delim_cases (c : Char) (h : startsDelim c = true) :
    (singleDelim c = true ∧ blankDelim c = false ∧ isOpChar c = true ∧ isWs c = false ∧ (c == '!' || c == '<' || c == '>') = false) ∨
    (singleDelim c = false ∧ blankDelim c = true ∧ isWs c = true) ∨
    (singleDelim c = false ∧ blankDelim c = false ∧ isOpChar c = true ∧ isWs c = false ∧ (c == '!' || c == '<' || c == '>') = true) := by
  rw [startsDelim_eq] at h
  simp only [isDelim, isOpChar, isWs, Bool.or_eq_true, beq_iff_eq] at h
  rcases h with (((((((h|h)|h)|h)|h)|h)|h)|h)|(((h|h)|h)|h) <;> subst h <;> decide

theorem nondelim_cases (c : Char) (h : startsDelim c = false) : isOpChar c = false ∧ isWs c = false := by
  rw [startsDelim_eq] at h
  simpa [isDelim] using h

theorem flushW_ok {w : Str} {n : Nat} {k : List Str × Bool} (h : (flushW w n k).2 = false) :
    (flushW w n k).1 = flushWord w k.1 ∧ k.2 = false := by
  unfold flushW flushWord at *
  by_cases hw : w.isEmpty = true
  · simp [hw] at h ⊢; exact h
  · by_cases hn : n ≥ maxToken
    · simp [hw, hn] at h
    · simp [hw, hn] at h ⊢; exact h

/-- **model = spec** for the tokenizer: whenever the scanner does not stop with ErrTooLong, `Tokenize`
    returns the reference tokenisation -/
theorem tokGo_spec : ∀ (s w : Str) (n : Nat) (skip : Bool),
    (tokGo s w n skip).2 = false → (tokGo s w n skip).1 = specTokensAux s w skip := by
  intro s
  induction s with
  | nil => intro w n skip h; simp only [tokGo, specTokensAux] at h ⊢; exact (flushW_ok h).1
  | cons c rest ih =>
    intro w n skip h
    rw [tokGo] at h ⊢
    rw [specTokensAux]
    cases skip with
    | true => simp only [if_true] at h ⊢; exact ih _ _ _ h
    | false =>
      simp only [Bool.false_eq_true, if_false] at h ⊢
      by_cases hd : startsDelim c = true
      · simp only [hd, if_true] at h ⊢
        obtain ⟨h1, h2⟩ := flushW_ok h
        rw [h1]
        rcases delim_cases c hd with ⟨a1, a2, a3, a4, a5⟩ | ⟨a1, a2, a3⟩ | ⟨a1, a2, a3, a4, a5⟩
        · simp only [a1, if_true, consTok] at h2 ⊢
          simp only [a4, a3, Bool.false_eq_true, if_false, if_true, twoCharOp, a5, Bool.false_and]
          rw [ih _ _ _ h2]
        · simp only [a1, a2, Bool.false_eq_true, if_false, if_true] at h2 ⊢
          simp only [a3, if_true]
          rw [ih _ _ _ h2]
        · simp only [a1, a2, Bool.false_eq_true, if_false] at h2 ⊢
          simp only [a4, a3, Bool.false_eq_true, if_false, if_true, twoCharOp, a5, Bool.true_and]
          cases rest with
          | nil => simp [consTok, specTokensAux, flushWord]
          | cons d r =>
            simp only [List.head?_cons] at h2 ⊢
            rw [endsDelim_eq] at h2 ⊢
            by_cases hde : d = '='
            · subst hde
              simp only [beq_self_eq_true, if_true, consTok] at h2 ⊢
              rw [ih _ _ _ h2]
            · have : (d == '=') = false := by simp [hde]
              simp only [this, Bool.false_eq_true, if_false, consTok] at h2 ⊢
              have e : (some d == some '=') = false := by simp [hde]
              simp only [e, Bool.false_eq_true, if_false]
              rw [ih _ _ _ h2]
      · have hd' : startsDelim c = false := by simpa using hd
        obtain ⟨b1, b2⟩ := nondelim_cases c hd'
        simp only [hd', Bool.false_eq_true, if_false] at h ⊢
        simp only [b1, b2, Bool.false_eq_true, if_false]
        exact ih _ _ _ h

theorem tokenize_spec (s : Str) (h : (tokenize s).2 = false) : (tokenize s).1 = specTokens s :=
  tokGo_spec s [] 0 false h
end C10

namespace C10

/-- the shapes of the tokens `Tokenize` can produce -/
inductive GoodTok : Str → Prop where
  | word {t : Str} : t ≠ [] → (∀ c ∈ t, startsDelim c = false) → t.length < maxToken → GoodTok t
  | one {c : Char} : startsDelim c = true → blankDelim c = false → GoodTok [c]
  | two {c d : Char} : startsDelim c = true → singleDelim c = false → blankDelim c = false → endsDelim d = true → GoodTok [c, d]

theorem flushW_mem {w : Str} {n : Nat} {k : List Str × Bool} {t : Str} (h : t ∈ (flushW w n k).1) :
    t ∈ k.1 ∨ (t = w.reverse ∧ w ≠ [] ∧ n < maxToken) := by
  unfold flushW at h
  by_cases hw : w.isEmpty = true
  · simp [hw] at h; exact Or.inl h
  · by_cases hn : n ≥ maxToken
    · simp [hw, hn] at h
    · simp [hw, hn] at h
      rcases h with h | h
      · right; exact ⟨h, by simpa using hw, by omega⟩
      · exact Or.inl h

theorem tokGo_good : ∀ (s w : Str) (n : Nat) (skip : Bool), (∀ c ∈ w, startsDelim c = false) → n = w.length →
    ∀ t ∈ (tokGo s w n skip).1, GoodTok t := by
  intro s
  induction s with
  | nil =>
    intro w n skip hw hn t ht
    simp only [tokGo] at ht
    rcases flushW_mem ht with h | ⟨h1, h2, h3⟩
    · simp at h
    · subst h1; exact GoodTok.word (by simpa using h2) (by simpa using hw) (by simp; omega)
  | cons c rest ih =>
    intro w n skip hw hn t ht
    rw [tokGo] at ht
    cases skip with
    | true => simp only [if_true] at ht; exact ih [] 0 false (by simp) rfl t ht
    | false =>
      simp only [Bool.false_eq_true, if_false] at ht
      by_cases hd : startsDelim c = true
      · simp only [hd, if_true] at ht
        rcases flushW_mem ht with h | ⟨h1, h2, h3⟩
        · rcases delim_cases c hd with ⟨a1, a2, _⟩ | ⟨a1, a2, _⟩ | ⟨a1, a2, _⟩
          · simp only [a1, if_true, consTok, List.mem_cons] at h
            rcases h with h | h
            · subst h; exact GoodTok.one hd a2
            · exact ih [] 0 false (by simp) rfl t h
          · simp only [a1, a2, Bool.false_eq_true, if_false, if_true] at h
            exact ih [] 0 false (by simp) rfl t h
          · simp only [a1, a2, Bool.false_eq_true, if_false] at h
            cases rest with
            | nil =>
              simp [consTok] at h; subst h; exact GoodTok.one hd a2
            | cons d r =>
              simp only [List.head?_cons] at h
              by_cases he : endsDelim d = true
              · simp only [he, if_true, consTok, List.mem_cons] at h
                rcases h with h | h
                · subst h; exact GoodTok.two hd a1 a2 he
                · exact ih [] 0 true (by simp) rfl t h
              · simp only [he, Bool.false_eq_true, if_false, consTok, List.mem_cons] at h
                rcases h with h | h
                · subst h; exact GoodTok.one hd a2
                · exact ih [] 0 false (by simp) rfl t h
        · subst h1; exact GoodTok.word (by simpa using h2) (by simpa using hw) (by simp; omega)
      · have hd' : startsDelim c = false := by simpa using hd
        simp only [hd', Bool.false_eq_true, if_false] at ht
        have hw' : ∀ x ∈ c :: w, startsDelim x = false := by
          intro x hx
          rcases List.mem_cons.1 hx with h | h
          · subst h; exact hd'
          · exact hw x h
        exact ih (c :: w) (n + 1) false hw' (by simp [hn]) t ht

/-- reading a run of non-delimiters just extends the current word -/
theorem tokGo_word : ∀ (t r w : Str) (n : Nat), (∀ c ∈ t, startsDelim c = false) →
    tokGo (t ++ r) w n false = tokGo r (t.reverse ++ w) (n + t.length) false := by
  intro t
  induction t with
  | nil => intro r w n _; simp
  | cons c t ih =>
    intro r w n h
    have hc : startsDelim c = false := h c (by simp)
    rw [List.cons_append, tokGo]
    simp only [Bool.false_eq_true, if_false, hc]
    rw [ih r (c :: w) (n + 1) (fun x hx => h x (by simp [hx]))]
    simp only [List.reverse_cons, List.append_assoc, List.singleton_append, List.length_cons]
    congr 1; omega

theorem blank_facts : startsDelim ' ' = true ∧ singleDelim ' ' = false ∧ blankDelim ' ' = true ∧ endsDelim ' ' = false := by
  decide

/-- tokenizing a token followed by a blank (or by the end of the text) gives the token back -/
theorem tokGo_tok_blank {t : Str} (ht : GoodTok t) (r : Str) :
    tokGo (t ++ ' ' :: r) [] 0 false = consTok t (tokGo r [] 0 false) := by
  obtain ⟨b1, b2, b3, b4⟩ := blank_facts
  cases ht with
  | word h1 h2 h3 =>
    rw [tokGo_word t _ [] 0 h2, tokGo]
    simp only [Bool.false_eq_true, if_false, b1, if_true, b2, b3]
    have : ¬ (t.reverse ++ ([] : Str)).isEmpty = true := by simpa using h1
    simp [flushW, consTok, h1]
    omega
  | @one c h1 h2 =>
    rw [List.cons_append, List.nil_append, tokGo]
    simp only [Bool.false_eq_true, if_false, h1, if_true, flushW, List.isEmpty_nil, h2]
    by_cases hs : singleDelim c = true
    · simp only [hs, if_true]
      rw [tokGo]; simp [b1, b2, b3, flushW]
    · simp only [hs, Bool.false_eq_true, if_false, List.head?_cons, b4]
      rw [tokGo]; simp [b1, b2, b3, flushW]
  | @two c d h1 h2 h3 h4 =>
    simp only [List.cons_append, List.nil_append]
    rw [tokGo]
    simp only [Bool.false_eq_true, if_false, h1, if_true, flushW, List.isEmpty_nil, h2, h3, List.head?_cons, h4]
    rw [tokGo]; simp only [if_true]
    rw [tokGo]; simp [b1, b2, b3, flushW]

theorem tokGo_tok_end {t : Str} (ht : GoodTok t) : tokGo t [] 0 false = ([t], false) := by
  cases ht with
  | word h1 h2 h3 =>
    have := tokGo_word t [] [] 0 h2
    rw [List.append_nil] at this
    rw [this, tokGo]
    simp [flushW, h1]; omega
  | @one c h1 h2 =>
    rw [tokGo]
    simp only [Bool.false_eq_true, if_false, h1, if_true, flushW, List.isEmpty_nil, h2]
    by_cases hs : singleDelim c = true
    · simp [hs, tokGo, consTok, flushW]
    · simp [hs, consTok]
  | @two c d h1 h2 h3 h4 =>
    rw [tokGo]
    simp only [Bool.false_eq_true, if_false, h1, if_true, flushW, List.isEmpty_nil, h2, h3, List.head?_cons, h4]
    rw [tokGo]; simp [tokGo, consTok, flushW]

theorem tokenize_join : ∀ (toks : List Str), (∀ t ∈ toks, GoodTok t) → tokenize (joinTokens toks) = (toks, false)
  | [], _ => rfl
  | [t], h => by simpa [joinTokens, tokenize] using tokGo_tok_end (h t (by simp))
  | t :: u :: rest, h => by
    have ih := tokenize_join (u :: rest) (fun x hx => h x (by simp [hx]))
    unfold tokenize at ih ⊢
    rw [joinTokens, tokGo_tok_blank (h t (by simp)), ih]
    · rfl
    · simp

/-- **canonical_idem** (clause "the canonical string parses to the same condition and canonicalising
    it again changes nothing", tokenizer level): the canonical string — the tokens of any text joined
    by single blanks — tokenizes to exactly these tokens again, without error; hence it parses to
    the same tree (or the same error) and joining its tokens gives the same string. For every text,
    including those on which the scanner stops with ErrTooLong. -/
theorem canonical_idem (s : Str) : tokenize (joinTokens (tokenize s).1) = ((tokenize s).1, false) :=
  tokenize_join _ (tokGo_good s [] 0 false (by simp) rfl)

theorem canonical_same_tree (s : Str) :
    parseTokens (tokenize (joinTokens (tokenize s).1)).1 = parseTokens (tokenize s).1 := by
  rw [canonical_idem]

theorem canonical_fixpoint (s : Str) :
    joinTokens (tokenize (joinTokens (tokenize s).1)).1 = joinTokens (tokenize s).1 := by
  rw [canonical_idem]
end C10

namespace C10

/-! ### S1: replaceGo over blocks -/

@[simp] theorem replaceGo_nil (r : Rule) (st : Bool) (k : Nat) : replaceGo r st k [] = [] := by
  cases k <;> rfl

theorem replaceGo_skip (r : Rule) : ∀ (k : Nat) (s : Str) (st : Bool),
    replaceGo r st (k + 1) s = replaceGo r false 0 (s.drop (k + 1)) := by
  intro k
  induction k with
  | zero => intro s st; cases s with
    | nil => simp
    | cons c s => simp [replaceGo]
  | succ k ih => intro s st; cases s with
    | nil => simp
    | cons c s => rw [replaceGo, ih]; simp

/-- a match that covers exactly the non-empty block `x` -/
theorem replaceGo_active (r : Rule) (st : Bool) (x y : Str) (cap : Option Char) (hx : x ≠ [])
    (hm : matchAtoms r.pat st none (x ++ y) 0 = some (x.length, cap)) :
    replaceGo r st 0 (x ++ y) = expand r.tpl cap ++ replaceGo r false 0 y := by
  cases x with
  | nil => exact absurd rfl hx
  | cons c x' =>
    rw [List.cons_append, replaceGo]
    rw [List.cons_append] at hm
    simp only [hm, List.length_cons, Nat.add_one_ne_zero, if_false, Nat.add_sub_cancel]
    cases x' with
    | nil => simp
    | cons d x'' => rw [List.length_cons, replaceGo_skip]; simp

/-- no match starts inside the block `x` -/
theorem replaceGo_inert (r : Rule) : ∀ (x y : Str) (st : Bool),
    (∀ p, p < x.length → matchAtoms r.pat (st && p == 0) none (x.drop p ++ y) 0 = none) →
    replaceGo r st 0 (x ++ y) = x ++ replaceGo r (st && x.isEmpty) 0 y := by
  intro x
  induction x with
  | nil => intro y st _; simp
  | cons c x ih =>
    intro y st h
    have h0 := h 0 (by simp)
    simp only [beq_self_eq_true, Bool.and_true, List.drop_zero, List.cons_append] at h0
    rw [List.cons_append, replaceGo, h0]
    simp only [List.isEmpty_cons, Bool.and_false]
    have := ih y false (by
      intro p hp
      have := h (p + 1) (by simp; omega)
      simpa using this)
    simpa using this

/-- patterns without the prefix group do not look at "start of text" -/
def noPre : List Atom → Bool
  | [] => true
  | .pre _ :: _ => false
  | _ :: as => noPre as

theorem matchAtoms_st : ∀ (pat : List Atom), noPre pat = true → ∀ (st : Bool) (cap : Option Char) (s : Str) (n : Nat),
    matchAtoms pat st cap s n = matchAtoms pat false cap s n := by
  intro pat
  induction pat with
  | nil => intro _ st cap s n; simp [matchAtoms]
  | cons a as ih =>
    intro h st cap s n
    cases a with
    | lit c => simp [matchAtoms]
    | ws => simp [matchAtoms]
    | cls cs => simp [matchAtoms]
    | pre ops => simp [noPre] at h

/-! ### S2: matching -/

def lits (s : Str) : List Atom := s.map Atom.lit

/-- literal text at the start -/
theorem matchAtoms_lits : ∀ (k : Str) (pat : List Atom) (st : Bool) (cap : Option Char) (s : Str) (n : Nat),
    matchAtoms (lits k ++ pat) st cap (k ++ s) n = matchAtoms pat (st && k.isEmpty) cap s (n + k.length) := by
  intro k
  induction k with
  | nil => intro pat st cap s n; simp [lits]
  | cons c k ih =>
    intro pat st cap s n
    simp only [lits, List.map_cons, List.cons_append, matchAtoms, beq_self_eq_true, if_true]
    have := ih pat false cap s (n + 1)
    simp only [lits] at this
    rw [this]
    simp only [Bool.false_and, List.isEmpty_cons, Bool.and_false, List.length_cons]
    congr 1; omega

def notSpaceHead (s : Str) : Prop := ∀ c, s.head? = some c → isSpace c = false

/-- `\s+` followed by a continuation that fails on every text beginning with white space: the whole
    run is consumed -/
theorem wsStar_run {R : Type} (cont : Str → Nat → Option R)
    (hfail : ∀ c s n, isSpace c = true → cont (c :: s) n = none) :
    ∀ (w s : Str) (n : Nat), (∀ c ∈ w, isSpace c = true) → notSpaceHead s →
    wsStar cont (w ++ s) n = cont s (n + w.length) := by
  intro w
  induction w with
  | nil =>
    intro s n _ hs
    cases s with
    | nil => simp [wsStar]
    | cons c s' =>
      have : isSpace c = false := hs c rfl
      simp [wsStar, this]
  | cons c w ih =>
    intro s n hw hs
    have hc : isSpace c = true := hw c (by simp)
    rw [List.cons_append, wsStar]
    simp only [hc, if_true]
    rw [ih s (n + 1) (fun x hx => hw x (by simp [hx])) hs]
    have e : n + 1 + w.length = n + (c :: w).length := by simp; omega
    rw [e]
    cases h : cont s (n + (c :: w).length) with
    | some r => rfl
    | none => simp [hfail c _ _ hc]

theorem wsPlus_run {R : Type} (cont : Str → Nat → Option R)
    (hfail : ∀ c s n, isSpace c = true → cont (c :: s) n = none) (w s : Str) (n : Nat)
    (hw : ∀ c ∈ w, isSpace c = true) (hne : w ≠ []) (hs : notSpaceHead s) :
    wsPlus cont (w ++ s) n = cont s (n + w.length) := by
  cases w with
  | nil => exact absurd rfl hne
  | cons c w =>
    have hc : isSpace c = true := hw c (by simp)
    rw [List.cons_append, wsPlus]
    simp only [hc, if_true]
    rw [wsStar_run cont hfail w s (n + 1) (fun x hx => hw x (by simp [hx])) hs]
    congr 1; simp; omega

theorem wsPlus_nonspace {R : Type} (cont : Str → Nat → Option R) (s : Str) (n : Nat) (hs : notSpaceHead s) :
    wsPlus cont s n = none := by
  cases s with
  | nil => rfl
  | cons c s => simp [wsPlus, hs c rfl]

/-- trailing `\s+`: greedy, the continuation (end of pattern) always succeeds -/
theorem wsStar_end (cap : Option Char) : ∀ (w s : Str) (n : Nat), (∀ c ∈ w, isSpace c = true) → notSpaceHead s →
    wsStar (matchAtoms [] false cap) (w ++ s) n = some (n + w.length, cap) := by
  intro w
  induction w with
  | nil =>
    intro s n _ hs
    cases s with
    | nil => simp [wsStar, matchAtoms]
    | cons c s' => simp [wsStar, hs c rfl, matchAtoms]
  | cons c w ih =>
    intro s n hw hs
    rw [List.cons_append, wsStar]
    simp only [hw c (by simp), if_true]
    rw [ih s (n + 1) (fun x hx => hw x (by simp [hx])) hs]
    simp; omega

theorem wsPlus_end (cap : Option Char) (w s : Str) (n : Nat) (hw : ∀ c ∈ w, isSpace c = true) (hne : w ≠ [])
    (hs : notSpaceHead s) : wsPlus (matchAtoms [] false cap) (w ++ s) n = some (n + w.length, cap) := by
  cases w with
  | nil => exact absurd rfl hne
  | cons c w =>
    rw [List.cons_append, wsPlus]
    simp only [hw c (by simp), if_true]
    rw [wsStar_end cap w s (n + 1) (fun x hx => hw x (by simp [hx])) hs]
    simp; omega
end C10

namespace C10

/-! ### S3: typed lexemes -/

def isSymChar (c : Char) : Bool :=
  isOpChar c || c == '*' || c == '+' || c == '[' || c == ']' || c == '{' || c == '}'

inductive Tok where
  | word (t : Str)
  | kw (k b : Str)
  | sym (s b : Str)
  deriving DecidableEq, Repr

abbrev Lx := Str × Tok

def Tok.base : Tok → Str
  | .word t => t
  | .kw _ b => b
  | .sym _ b => b

def Tok.isKw : Tok → Bool
  | .kw _ _ => true
  | _ => false

def isDoneKw (D : List Str) : Tok → Bool
  | .kw k _ => D.contains k
  | _ => false

def spell (D : List Str) : Tok → Str
  | .word t => t
  | .kw k b => if D.contains k then b else k
  | .sym s b => if D.contains s then b else s

/-- the text after the rewrites `D` have been applied: a rewritten word form has lost the white space
    on both sides (`g`: the white space in front of the next lexeme is gone) -/
def render (D : List Str) : Bool → List Lx → Str → Str
  | _, [], trail => trail
  | g, (w, tk) :: rest, trail =>
    (if g || isDoneKw D tk then [] else w) ++ spell D tk ++ render D (isDoneKw D tk) rest trail

def TokOK : Tok → Prop
  | .word t => t ≠ [] ∧ (∀ c ∈ t, isPlainChar c = true) ∧ ∀ p ∈ keywords, p.1 ≠ t
  | .kw k b => (k, b) ∈ keywords
  | .sym s b => (s, b) ∈ symbols

def pairOKt (x : Tok) (wy : Str) (y : Tok) : Bool :=
  match x, y with
  | .kw _ bx, .kw _ by_ => !wy.isEmpty && symAdjOK bx by_
  | .kw _ bx, .sym _ by_ => !wy.isEmpty && symAdjOK bx by_
  | .sym _ bx, .kw _ by_ => !wy.isEmpty && symAdjOK bx by_
  | .kw _ _, .word _ => !wy.isEmpty
  | .word _, .kw _ _ => !wy.isEmpty
  | .word _, .word _ => !wy.isEmpty
  | .sym _ bx, .sym _ by_ => !wy.isEmpty || symAdjOK bx by_
  | .sym _ _, .word _ => true
  | .word _, .sym _ _ => true

def ChainOK : Option Tok → List Lx → Prop
  | prev, [] => ∀ p, prev = some p → p.isKw = false
  | prev, (w, tk) :: rest =>
    (∀ c ∈ w, isWs c = true) ∧ TokOK tk ∧
    (match prev with
     | none => tk.isKw = true → (tk.base = tNot ∨ w ≠ [])
     | some p => pairOKt p w tk = true) ∧
    ChainOK (some tk) rest

/-! character facts -/

theorem plain_not_space {c : Char} (h : isPlainChar c = true) : isSpace c = false := by
  simp only [isPlainChar, Bool.and_eq_true, decide_eq_true_eq] at h
  simp only [isSpace, Bool.or_eq_false_iff, beq_eq_false_iff_ne]
  obtain ⟨⟨⟨h1, _⟩, _⟩, _⟩ := h
  refine ⟨⟨⟨⟨?_, ?_⟩, ?_⟩, ?_⟩, ?_⟩ <;> (intro e; subst e; revert h1; decide)

theorem ws_is_space {c : Char} (h : isWs c = true) : isSpace c = true := by
  simp only [isWs, Bool.or_eq_true, beq_iff_eq] at h
  rcases h with ((h | h) | h) | h <;> subst h <;> decide

theorem ws_not_plain {c : Char} (h : isWs c = true) : isPlainChar c = false := by
  simp only [isWs, Bool.or_eq_true, beq_iff_eq] at h
  rcases h with ((h | h) | h) | h <;> subst h <;> decide

theorem sym_not_plain {c : Char} (h : isSymChar c = true) : isPlainChar c = false := by
  simp only [isSymChar, isOpChar, Bool.or_eq_true, beq_iff_eq] at h
  rcases h with (((((((((((((h|h)|h)|h)|h)|h)|h)|h)|h)|h)|h)|h)|h)|h) <;> subst h <;> decide

theorem sym_not_space {c : Char} (h : isSymChar c = true) : isSpace c = false := by
  simp only [isSymChar, isOpChar, Bool.or_eq_true, beq_iff_eq] at h
  rcases h with (((((((((((((h|h)|h)|h)|h)|h)|h)|h)|h)|h)|h)|h)|h)|h) <;> subst h <;> decide

theorem op_is_sym {c : Char} (h : isOpChar c = true) : isSymChar c = true := by simp [isSymChar, h]

theorem keywords_facts : ∀ p ∈ keywords, p.1 ≠ [] ∧ p.1.all isPlainChar = true ∧ p.2 ≠ [] ∧ p.2.all isOpChar = true := by decide
theorem symbols_facts : ∀ p ∈ symbols, p.1 ≠ [] ∧ p.1.all isSymChar = true ∧ p.2 ≠ [] ∧ p.2.all isOpChar = true := by decide

/-- the rewritten text of a lexeme is never empty and contains no white space -/
theorem spell_facts (D : List Str) {tk : Tok} (h : TokOK tk) :
    spell D tk ≠ [] ∧ ∀ c ∈ spell D tk, isSpace c = false := by
  cases tk with
  | word t => exact ⟨h.1, fun c hc => plain_not_space (h.2.1 c hc)⟩
  | kw k b =>
    obtain ⟨h1, h2, h3, h4⟩ := keywords_facts _ h
    simp only [spell]
    split
    · exact ⟨h3, fun c hc => sym_not_space (op_is_sym (List.all_eq_true.1 h4 c hc))⟩
    · exact ⟨h1, fun c hc => plain_not_space (List.all_eq_true.1 h2 c hc)⟩
  | sym s b =>
    obtain ⟨h1, h2, h3, h4⟩ := symbols_facts _ h
    simp only [spell]
    split
    · exact ⟨h3, fun c hc => sym_not_space (op_is_sym (List.all_eq_true.1 h4 c hc))⟩
    · exact ⟨h1, fun c hc => sym_not_space (List.all_eq_true.1 h2 c hc)⟩

/-- texts that consist of operator characters: symbols and rewritten word forms -/
def opSpelled (D : List Str) : Tok → Bool
  | .word _ => false
  | .kw k _ => D.contains k
  | .sym _ _ => true

theorem spell_op (D : List Str) {tk : Tok} (h : TokOK tk) (ho : opSpelled D tk = true) :
    ∃ c r, spell D tk = c :: r ∧ isSymChar c = true := by
  cases tk with
  | word t => simp [opSpelled] at ho
  | kw k b =>
    obtain ⟨_, _, h3, h4⟩ := keywords_facts _ h
    simp only [opSpelled] at ho
    simp only [spell, ho, if_true]
    cases b with
    | nil => exact absurd rfl h3
    | cons c r => exact ⟨c, r, rfl, op_is_sym (by simpa using (List.all_eq_true.1 h4 c (by simp)))⟩
  | sym s b =>
    obtain ⟨h1, h2, h3, h4⟩ := symbols_facts _ h
    simp only [spell]
    split
    · cases b with
      | nil => exact absurd rfl h3
      | cons c r => exact ⟨c, r, rfl, op_is_sym (by simpa using (List.all_eq_true.1 h4 c (by simp)))⟩
    · cases s with
      | nil => exact absurd rfl h1
      | cons c r => exact ⟨c, r, rfl, by simpa using (List.all_eq_true.1 h2 c (by simp))⟩

theorem spell_plain (D : List Str) {tk : Tok} (h : TokOK tk) (ho : opSpelled D tk = false) :
    ∀ c ∈ spell D tk, isPlainChar c = true := by
  cases tk with
  | word t => exact h.2.1
  | kw k b =>
    obtain ⟨_, h2, _, _⟩ := keywords_facts _ h
    simp only [opSpelled] at ho
    simp only [spell, ho, Bool.false_eq_true, if_false]
    exact fun c hc => List.all_eq_true.1 h2 c hc
  | sym s b => simp [opSpelled] at ho

def NonPlainHead (s : Str) : Prop := ∀ c, s.head? = some c → isPlainChar c = false

/-- after a word or a not yet rewritten word form comes white space, an operator character or the
    end of the text -/
theorem render_head_nonplain (D : List Str) (x : Tok) (rest : List Lx) (trail : Str)
    (hx : opSpelled D x = false) (htr : ∀ c ∈ trail, isWs c = true) (h : ChainOK (some x) rest) :
    NonPlainHead (render D (isDoneKw D x) rest trail) := by
  have hdx : isDoneKw D x = false := by
    cases x <;> simp_all [opSpelled, isDoneKw]
  intro c hc
  cases rest with
  | nil =>
    simp only [render] at hc
    cases trail with
    | nil => simp at hc
    | cons d t => simp at hc; subst hc; exact ws_not_plain (htr _ (by simp))
  | cons l rest' =>
    obtain ⟨w, y⟩ := l
    obtain ⟨hw, hy, hp, _⟩ := h
    simp only [render, hdx, Bool.false_or] at hc
    by_cases hdy : isDoneKw D y = true
    · simp only [hdy, if_true, List.nil_append] at hc
      have hoy : opSpelled D y = true := by cases y <;> simp_all [isDoneKw, opSpelled]
      obtain ⟨d, r, e, hd⟩ := spell_op D hy hoy
      rw [e] at hc; simp at hc; subst hc; exact sym_not_plain hd
    · simp only [hdy, Bool.false_eq_true, if_false] at hc
      cases w with
      | cons d w' => simp at hc; subst hc; exact ws_not_plain (hw _ (by simp))
      | nil =>
        simp only [List.nil_append] at hc
        -- no white space: `x` is a word (a pending word form needs white space), `y` a symbol
        have hoy : opSpelled D y = true := by
          cases x <;> cases y <;> simp_all [pairOKt, opSpelled, isDoneKw]
        obtain ⟨d, r, e, hd⟩ := spell_op D hy hoy
        rw [e] at hc; simp at hc; subst hc; exact sym_not_plain hd
end C10

namespace C10

/-! ### S4: the rules `\s+kw\s+` -/

def kwRule (k b : Str) : Rule := ⟨Atom.ws :: (lits k ++ [Atom.ws]), ⟨false, b⟩⟩

theorem noPre_lits (k : Str) (pat : List Atom) (h : noPre pat = true) : noPre (lits k ++ pat) = true := by
  induction k with
  | nil => simpa [lits] using h
  | cons c k ih => simpa [lits, noPre] using ih

/-- a plain text other than `k` is not `k` followed by white space -/
theorem kw_mismatch : ∀ (k t Y : Str) (n : Nat), (∀ c ∈ k, isPlainChar c = true) → (∀ c ∈ t, isPlainChar c = true) →
    t ≠ k → NonPlainHead Y → matchAtoms (lits k ++ [Atom.ws]) false none (t ++ Y) n = none := by
  intro k
  induction k with
  | nil =>
    intro t Y n _ ht hne hY
    cases t with
    | nil => exact absurd rfl hne
    | cons d t' =>
      simp only [lits, List.map_nil, List.nil_append, matchAtoms, List.cons_append]
      exact wsPlus_nonspace _ _ _ (by intro c hc; simp at hc; subst hc; exact plain_not_space (ht _ (by simp)))
  | cons c k ih =>
    intro t Y n hk ht hne hY
    simp only [lits, List.map_cons, List.cons_append, matchAtoms]
    cases t with
    | nil =>
      simp only [List.nil_append]
      cases Y with
      | nil => rfl
      | cons e Y' =>
        have he : isPlainChar e = false := hY e rfl
        have : (e == c) = false := by
          simp only [beq_eq_false_iff_ne]; intro h; subst h; rw [hk _ (by simp)] at he; cases he
        simp [this]
    | cons d t' =>
      simp only [List.cons_append]
      by_cases hdc : d = c
      · subst hdc
        simp only [beq_self_eq_true, if_true]
        exact ih t' Y (n + 1) (fun x hx => hk x (by simp [hx])) (fun x hx => ht x (by simp [hx]))
          (by intro e; apply hne; rw [e]) hY
      · simp [hdc]

theorem kw_first_nonspace {k : Str} (hk : ∀ c ∈ k, isPlainChar c = true) (hne : k ≠ []) :
    ∀ c s n, isSpace c = true → matchAtoms (lits k ++ [Atom.ws]) false none (c :: s) n = none := by
  intro c s n hc
  cases k with
  | nil => exact absurd rfl hne
  | cons d k' =>
    simp only [lits, List.map_cons, List.cons_append, matchAtoms]
    have : (c == d) = false := by
      simp only [beq_eq_false_iff_ne]; intro h; subst h
      rw [plain_not_space (hk _ (by simp))] at hc; cases hc
    simp [this]

/-- the active block: white space, the word form, white space -/
theorem kw_match (k : Str) (w w2 s : Str) (hk : ∀ c ∈ k, isPlainChar c = true) (hkne : k ≠ [])
    (hw : ∀ c ∈ w, isWs c = true) (hwne : w ≠ []) (hw2 : ∀ c ∈ w2, isWs c = true) (hw2ne : w2 ≠ [])
    (hs : notSpaceHead s) (st : Bool) :
    matchAtoms (Atom.ws :: (lits k ++ [Atom.ws])) st none ((w ++ k ++ w2) ++ s) 0 = some ((w ++ k ++ w2).length, none) := by
  simp only [matchAtoms]
  have e : (w ++ k ++ w2) ++ s = w ++ (k ++ (w2 ++ s)) := by simp
  rw [e, wsPlus_run _ (kw_first_nonspace hk hkne) w _ 0 (fun c hc => ws_is_space (hw c hc)) hwne]
  · rw [matchAtoms_lits]
    simp only [matchAtoms]
    have hend : (fun (x : Str) (x_1 : Nat) => some (x_1, (none : Option Char))) = matchAtoms [] false none := by
      funext a b; simp [matchAtoms]
    rw [hend, wsPlus_end none w2 s _ (fun c hc => ws_is_space (hw2 c hc)) hw2ne hs]
    simp; omega
  · intro c hc
    cases k with
    | nil => exact absurd rfl hkne
    | cons d k' => simp at hc; subst hc; exact plain_not_space (hk _ (by simp))
end C10

namespace C10

def kNot : Str := "not".toList
def isBinBase (b : Str) : Bool := b == tAnd || b == tOr

theorem kw_unique : ∀ p ∈ keywords, ∀ q ∈ keywords, p.1 = q.1 → p.2 = q.2 := by decide
theorem kw_adj : ∀ p ∈ keywords, ∀ q ∈ keywords, symAdjOK p.2 q.2 = true → q.1 = kNot ∧ q.2 = tNot ∧ isBinBase p.2 = true := by decide
theorem sym_ne_kw : ∀ p ∈ symbols, ∀ q ∈ keywords, p.1 ≠ q.1 := by decide

theorem lits_head_mismatch (k : Str) (pat : List Atom) (c : Char) (s : Str) (n : Nat)
    (hk : ∀ d ∈ k, isPlainChar d = true) (hkne : k ≠ []) (hc : isPlainChar c = false) :
    matchAtoms (lits k ++ pat) false none (c :: s) n = none := by
  cases k with
  | nil => exact absurd rfl hkne
  | cons d k' =>
    simp only [lits, List.map_cons, List.cons_append, matchAtoms]
    have : (c == d) = false := by
      simp only [beq_eq_false_iff_ne]; intro h; subst h; rw [hk _ (by simp)] at hc; cases hc
    simp [this]

theorem contains_cons_ne {k s : Str} {D : List Str} (h : s ≠ k) : (k :: D).contains s = D.contains s := by
  simp [List.contains_cons, h]

/-- a lexeme other than the pending word form `k` is spelled the same before and after the rule -/
theorem spell_cons_ne {k b : Str} (D : List Str) (hkb : (k, b) ∈ keywords) {x : Tok} (hx : TokOK x)
    (hne : x ≠ .kw k b) : spell (k :: D) x = spell D x ∧ isDoneKw (k :: D) x = isDoneKw D x := by
  cases x with
  | word t => exact ⟨rfl, rfl⟩
  | kw k' b' =>
    have : k' ≠ k := by
      intro e; subst e
      have := kw_unique _ hx _ hkb rfl
      simp only at this; subst this; exact hne rfl
    simp [spell, isDoneKw, this]
  | sym s b' =>
    have : s ≠ k := sym_ne_kw _ hx _ hkb
    simp [spell, isDoneKw, this]

theorem kw_step (k b : Str) (D : List Str) (trail : Str) (hkb : (k, b) ∈ keywords) (hknot : b ≠ tNot)
    (hD : D.contains k = false) (hDnot : isBinBase b = true → D.contains kNot = false)
    (htr : ∀ c ∈ trail, isWs c = true) :
    ∀ (L : List Lx) (prev : Option Tok) (g st : Bool), ChainOK prev L →
      (g = true → ∃ p, prev = some p ∧ p.isKw = true ∧ TokOK p) →
      replaceGo (kwRule k b) st 0 (render D g L trail) = render (k :: D) g L trail := by
  obtain ⟨hkne, hkpl, _, _⟩ := keywords_facts _ hkb
  have hkpl' : ∀ c ∈ k, isPlainChar c = true := fun c hc => List.all_eq_true.1 hkpl c hc
  have hnp : noPre (kwRule k b).pat = true := by
    simp only [kwRule, noPre]; exact noPre_lits k _ rfl
  intro L
  induction L with
  | nil =>
    intro prev g st _ _
    simp only [render]
    have := replaceGo_inert (kwRule k b) trail [] st (by
      intro p hp
      rw [matchAtoms_st _ hnp]
      simp only [kwRule, matchAtoms, List.append_nil]
      have hd : trail.drop p ≠ [] := by simp; omega
      have := wsPlus_run (matchAtoms (lits k ++ [Atom.ws]) false none) (kw_first_nonspace hkpl' hkne) (trail.drop p) [] 0
        (fun c hc => ws_is_space (htr c (List.mem_of_mem_drop hc))) hd (by intro c hc; simp at hc)
      rw [List.append_nil] at this
      rw [this]
      cases k with
      | nil => exact absurd rfl hkne
      | cons d k' => simp [lits, matchAtoms])
    simpa using this
  | cons l rest ih =>
    intro prev g st hch hg
    obtain ⟨w, x⟩ := l
    obtain ⟨hw, hx, hprev, hrest⟩ := hch
    by_cases hxk : x = .kw k b
    · -- the active block: white space, the word form, white space
      subst hxk
      have hgf : g = false := by
        cases g with
        | false => rfl
        | true =>
          obtain ⟨p, hp1, hp2, hp3⟩ := hg rfl
          subst hp1
          cases p with
          | kw kp bp =>
            simp only [pairOKt, Bool.and_eq_true] at hprev
            exact absurd (kw_adj _ hp3 _ hkb hprev.2).2.1 hknot
          | word t => simp [Tok.isKw] at hp2
          | sym s bs => simp [Tok.isKw] at hp2
      subst hgf
      have hwne : w ≠ [] := by
        cases prev with
        | none =>
          rcases hprev rfl with h | h
          · exact absurd h hknot
          · exact h
        | some p => cases p <;> simp_all [pairOKt]
      cases rest with
      | nil => exact absurd (hrest _ rfl) (by simp [Tok.isKw])
      | cons l2 rest' =>
        obtain ⟨w2, y⟩ := l2
        obtain ⟨hw2, hy, hxy, hrest'⟩ := hrest
        have hw2ne : w2 ≠ [] := by cases y <;> simp_all [pairOKt]
        have hyd : isDoneKw D y = false := by
          cases y with
          | kw k2 b2 =>
            simp only [pairOKt, Bool.and_eq_true] at hxy
            obtain ⟨e1, _, e3⟩ := kw_adj _ hkb _ hy hxy.2
            simp only at e1; subst e1
            simpa [isDoneKw] using hDnot e3
          | word t => rfl
          | sym s bs => rfl
        have hdx : isDoneKw D (.kw k b) = false := hD
        have hsx : spell D (.kw k b) = k := by simp only [spell, hD, Bool.false_eq_true, if_false]
        have hdx' : isDoneKw (k :: D) (.kw k b) = true := by simp [isDoneKw]
        have hsx' : spell (k :: D) (.kw k b) = b := by simp [spell]
        obtain ⟨hyne, hysp⟩ := spell_facts D hy
        have hih := ih (some (.kw k b)) true false ⟨hw2, hy, hxy, hrest'⟩ (fun _ => ⟨_, rfl, rfl, hx⟩)
        have e1 : render D false ((w, Tok.kw k b) :: (w2, y) :: rest') trail
            = (w ++ k ++ w2) ++ render D true ((w2, y) :: rest') trail := by
          simp [render, hdx, hsx, hyd]
        have e2 : render (k :: D) false ((w, Tok.kw k b) :: (w2, y) :: rest') trail
            = b ++ render (k :: D) true ((w2, y) :: rest') trail := by
          simp only [render, hdx', hsx', Bool.or_true, if_true, List.nil_append]
        rw [e1, e2, replaceGo_active (kwRule k b) st _ _ none (by simp [hwne])]
        · rw [hih]; rfl
        · simp only [kwRule]
          apply kw_match k w w2 _ hkpl' hkne hw hwne hw2 hw2ne
          intro c hc
          simp only [render, Bool.true_or, if_true, List.nil_append] at hc
          cases hs : spell D y with
          | nil => exact absurd hs hyne
          | cons d r => rw [hs] at hc; simp at hc; subst hc; exact hysp _ (by rw [hs]; simp)
    · -- an inert block
      obtain ⟨hsp, hdn⟩ := spell_cons_ne D hkb hx hxk
      obtain ⟨htne, htsp⟩ := spell_facts D hx
      have hih := ih (some x) (isDoneKw D x) false hrest (by
        intro hd; refine ⟨x, rfl, ?_, hx⟩; cases x <;> simp_all [isDoneKw, Tok.isKw])
      simp only [render, hsp, hdn]
      rw [replaceGo_inert (kwRule k b) _ _ st]
      · have hemp : ((if (g || isDoneKw D x) = true then [] else w) ++ spell D x).isEmpty = false := by
          cases hs : spell D x with
          | nil => exact absurd hs htne
          | cons d r => simp
        rw [hemp, Bool.and_false, hih]
      · intro p hp
        rw [matchAtoms_st _ hnp]
        simp only [kwRule, matchAtoms]
        generalize hpre : (if (g || isDoneKw D x) = true then [] else w) = pre at hp ⊢
        have hprews : ∀ c ∈ pre, isWs c = true := by
          intro c hc; subst hpre; split at hc
          · simp at hc
          · exact hw c hc
        by_cases hpp : p < pre.length
        · -- inside the white space in front of the lexeme
          rw [List.drop_append_of_le_length (by omega), List.append_assoc]
          have hd : pre.drop p ≠ [] := by simp; omega
          rw [wsPlus_run _ (kw_first_nonspace hkpl' hkne) (pre.drop p) _ 0
            (fun c hc => ws_is_space (hprews c (List.mem_of_mem_drop hc))) hd]
          · by_cases ho : opSpelled D x = true
            · obtain ⟨c, r, e, hc⟩ := spell_op D hx ho
              rw [e, List.cons_append]
              exact lits_head_mismatch k _ c _ _ hkpl' hkne (sym_not_plain hc)
            · have ho' : opSpelled D x = false := by simpa using ho
              apply kw_mismatch k _ _ _ hkpl' (spell_plain D hx ho')
              · intro e
                cases x with
                | word t => exact hx.2.2 _ hkb (by simpa [spell] using e.symm)
                | kw k' b' =>
                  simp only [opSpelled] at ho'
                  simp only [spell, ho', Bool.false_eq_true, if_false] at e
                  subst e
                  have := kw_unique _ hx _ hkb rfl
                  simp only at this; subst this; exact hxk rfl
                | sym s bs => simp [opSpelled] at ho'
              · exact render_head_nonplain D x rest trail ho' htr hrest
          · intro c hc
            cases hs : spell D x with
            | nil => exact absurd hs htne
            | cons d r => rw [hs] at hc; simp at hc; subst hc; exact htsp _ (by rw [hs]; simp)
        · -- inside the text of the lexeme
          rw [List.drop_append, List.drop_of_length_le (by omega), List.nil_append]
          have hlt : p - pre.length < (spell D x).length := by simp at hp; omega
          apply wsPlus_nonspace
          intro c hc
          cases hs : (spell D x).drop (p - pre.length) with
          | nil => simp at hs; omega
          | cons d r =>
            rw [hs] at hc; simp at hc; subst hc
            exact htsp _ (List.mem_of_mem_drop (by rw [hs]; simp))
end C10

namespace C10

/-! ### S5: head of the rest after an operator-spelled lexeme -/

/-- what can follow a lexeme that is spelled with operator characters: nothing, white space, a
    plain character, or the first character of an operator-spelled lexeme the grammar allows next -/
theorem render_head_op (D : List Str) (x : Tok) (rest : List Lx) (trail : Str) (hx : TokOK x)
    (hox : opSpelled D x = true) (htr : ∀ c ∈ trail, isWs c = true) (h : ChainOK (some x) rest) :
    ∀ c, (render D (isDoneKw D x) rest trail).head? = some c →
      isWs c = true ∨ isPlainChar c = true ∨
      ∃ y, TokOK y ∧ opSpelled D y = true ∧ symAdjOK x.base y.base = true ∧ (spell D y).head? = some c := by
  intro c hc
  cases rest with
  | nil =>
    simp only [render] at hc
    cases trail with
    | nil => simp at hc
    | cons d t => simp at hc; subst hc; exact Or.inl (htr _ (by simp))
  | cons l rest' =>
    obtain ⟨w, y⟩ := l
    obtain ⟨hw, hy, hp, _⟩ := h
    simp only [render] at hc
    by_cases hkeep : (isDoneKw D x || isDoneKw D y) = false ∧ w ≠ []
    · obtain ⟨h1, h2⟩ := hkeep
      simp only [h1, Bool.false_eq_true, if_false] at hc
      cases w with
      | nil => exact absurd rfl h2
      | cons d w' => simp at hc; subst hc; exact Or.inl (hw _ (by simp))
    · -- no white space between `x` and `y`
      have hc' : (spell D y).head? = some c := by
        obtain ⟨hne, _⟩ := spell_facts D hy
        by_cases hdd : (isDoneKw D x || isDoneKw D y) = true
        · simp only [hdd, if_true, List.nil_append] at hc
          cases hs : spell D y with
          | nil => exact absurd hs hne
          | cons d r => rw [hs] at hc; simpa using hc
        · have hdd' : (isDoneKw D x || isDoneKw D y) = false := by simpa using hdd
          have hwn : w = [] := by
            cases w with
            | nil => rfl
            | cons d w' => exact absurd ⟨hdd', by simp⟩ hkeep
          subst hwn
          simp only [hdd', Bool.false_eq_true, if_false, List.nil_append] at hc
          cases hs : spell D y with
          | nil => exact absurd hs hne
          | cons d r => rw [hs] at hc; simpa using hc
      by_cases hoy : opSpelled D y = true
      · right; right
        refine ⟨y, hy, hoy, ?_, hc'⟩
        -- the pair condition gives the adjacency of the base symbols
        cases x with
        | word t => simp [opSpelled] at hox
        | kw kx bx =>
          cases y with
          | word t => simp [opSpelled] at hoy
          | kw ky by_ => simp only [pairOKt, Bool.and_eq_true] at hp; exact hp.2
          | sym sy by_ => simp only [pairOKt, Bool.and_eq_true] at hp; exact hp.2
        | sym sx bx =>
          cases y with
          | word t => simp [opSpelled] at hoy
          | kw ky by_ => simp only [pairOKt, Bool.and_eq_true] at hp; exact hp.2
          | sym sy by_ =>
            simp only [pairOKt, Bool.or_eq_true] at hp
            rcases hp with hp | hp
            · -- white space present and neither is a rewritten word form: contradiction with `hkeep`
              exfalso; apply hkeep
              refine ⟨by simp [isDoneKw], ?_⟩
              intro e; subst e; simp at hp
            · exact hp
      · right; left
        have hoy' : opSpelled D y = false := by simpa using hoy
        have := spell_plain D hy hoy'
        cases hs : spell D y with
        | nil => rw [hs] at hc'; simp at hc'
        | cons d r => rw [hs] at hc'; simp at hc'; subst hc'; exact this _ (by rw [hs]; simp)
end C10

namespace C10

/-! ### S6: single-character rules (`\*`, `\+`, `\{`, `\[`, `\}`, `\]`) -/

def lit1Rule (c d : Char) : Rule := ⟨[Atom.lit c], ⟨false, [d]⟩⟩

theorem replaceGo_lit1 (c d : Char) : ∀ (s : Str) (st : Bool),
    replaceGo (lit1Rule c d) st 0 s = s.map (fun x => if x = c then d else x) := by
  intro s
  induction s with
  | nil => intro st; simp
  | cons x s ih =>
    intro st
    rw [replaceGo]
    by_cases hx : x = c
    · subst hx
      have := ih false
      simp only [lit1Rule] at this
      simp [lit1Rule, matchAtoms, expand, this]
    · have := ih false
      simp only [lit1Rule] at this
      simp [lit1Rule, matchAtoms, hx, this]

theorem map_id_of_not_mem {c d : Char} {s : Str} (h : c ∉ s) : s.map (fun x => if x = c then d else x) = s := by
  induction s with
  | nil => rfl
  | cons x s ih =>
    simp only [List.mem_cons, not_or] at h
    simp [Ne.symm h.1, ih h.2]

theorem op_not_ws {c : Char} (h : isSymChar c = true) : isWs c = false := by
  cases hw : isWs c with
  | false => rfl
  | true => have := sym_not_space h; rw [ws_is_space hw] at this; cases this

theorem lit1_step (c d : Char) (D : List Str) (trail : Str) (hs : ([c], [d]) ∈ symbols) (hD : D.contains [c] = false)
    (hcop : isOpChar c = false) (hcsym : isSymChar c = true)
    (huniq : ∀ p ∈ symbols, p.1 ≠ [c] → c ∉ p.1) (hb : ∀ p ∈ symbols, p.1 = [c] → p.2 = [d])
    (htr : ∀ x ∈ trail, isWs x = true) :
    ∀ (L : List Lx) (g : Bool), (∀ l ∈ L, (∀ x ∈ l.1, isWs x = true) ∧ TokOK l.2) →
      (render D g L trail).map (fun x => if x = c then d else x) = render ([c] :: D) g L trail := by
  have hws : ∀ w : Str, (∀ x ∈ w, isWs x = true) → w.map (fun x => if x = c then d else x) = w := by
    intro w hw
    apply map_id_of_not_mem
    intro hc; have := hw c hc; rw [op_not_ws hcsym] at this; cases this
  have hopn : ∀ b : Str, b.all isOpChar = true → c ∉ b := by
    intro b hb' hc; have := List.all_eq_true.1 hb' c hc; rw [hcop] at this; cases this
  intro L
  induction L with
  | nil => intro g _; simp only [render]; exact hws trail htr
  | cons l rest ih =>
    intro g hL
    obtain ⟨w, x⟩ := l
    obtain ⟨hw, hx⟩ := hL (w, x) (by simp)
    have hih := ih (isDoneKw D x) (fun l hl => hL l (by simp [hl]))
    have hdn : isDoneKw ([c] :: D) x = isDoneKw D x := by
      cases x with
      | kw k b =>
        have : k ≠ [c] := fun e => sym_ne_kw ([c], [d]) hs (k, b) hx e.symm
        simp [isDoneKw, this]
      | word t => rfl
      | sym s b => rfl
    have hsp : (spell D x).map (fun y => if y = c then d else y) = spell ([c] :: D) x := by
      cases x with
      | word t =>
        simp only [spell]
        apply map_id_of_not_mem
        intro hc; have := hx.2.1 c hc; rw [sym_not_plain hcsym] at this; cases this
      | kw k b =>
        obtain ⟨_, h2, _, h4⟩ := keywords_facts _ hx
        have hk : k ≠ [c] := fun e => sym_ne_kw ([c], [d]) hs (k, b) hx e.symm
        simp only [spell, List.contains_cons, hk, beq_eq_false_iff_ne.2 hk, Bool.false_or]
        split
        · exact map_id_of_not_mem (hopn b h4)
        · apply map_id_of_not_mem
          intro hc; have := List.all_eq_true.1 h2 c hc; rw [sym_not_plain hcsym] at this; cases this
      | sym s b =>
        obtain ⟨_, _, _, h4⟩ := symbols_facts _ hx
        by_cases hsc : s = [c]
        · subst hsc
          have hbd : b = [d] := hb _ hx rfl
          subst hbd
          simp only [spell, hD, Bool.false_eq_true, if_false, List.contains_cons, beq_self_eq_true, Bool.true_or, if_true]
          simp
        · simp only [spell, List.contains_cons, beq_eq_false_iff_ne.2 hsc, Bool.false_or]
          split
          · exact map_id_of_not_mem (hopn b h4)
          · exact map_id_of_not_mem (huniq _ hx hsc)
    simp only [render, List.map_append, hih, hsp, hdn]
    congr 1; congr 1
    split
    · rfl
    · exact hws w hw
end C10

namespace C10

/-! ### S7: doubled / tripled symbols (`&&`, `\|\|`, `===`, `==`) -/

def litNRule (m : Nat) (c : Char) : Rule := ⟨lits (List.replicate m c), ⟨false, [c]⟩⟩

/-- fewer than `m` copies of `c` in `a`, and the text after `a` does not go on with `c`: no run of
    `m` copies starts at the beginning of `a` -/
theorem rep_none (c : Char) : ∀ (m : Nat) (a Y : Str) (n : Nat), a ≠ [] → a.count c < m →
    (c ∈ a → Y.head? ≠ some c) → matchAtoms (lits (List.replicate m c)) false none (a ++ Y) n = none := by
  intro m
  induction m with
  | zero => intro a Y n _ h; omega
  | succ m ih =>
    intro a Y n hne hcnt hY
    cases a with
    | nil => exact absurd rfl hne
    | cons x a' =>
      simp only [List.replicate_succ, lits, List.map_cons, List.cons_append, matchAtoms]
      by_cases hx : x = c
      · subst hx
        simp only [beq_self_eq_true, if_true]
        simp only [List.count_cons_self] at hcnt
        cases a' with
        | nil =>
          simp only [List.nil_append]
          cases m with
          | zero => simp at hcnt
          | succ m' =>
            cases Y with
            | nil => simp [List.replicate_succ, matchAtoms]
            | cons y Y' =>
              have : y ≠ x := by
                intro e; subst e; exact hY (by simp) rfl
              simp [List.replicate_succ, matchAtoms, this]
        | cons x2 a'' =>
          have := ih (x2 :: a'') Y (n + 1) (by simp) (by omega) (fun hc => hY (by simp [hc]))
          simpa [lits] using this
      · simp [hx]

theorem lits_first_mismatch (k : Str) (x : Char) (s : Str) (n : Nat) (h : k.head? ≠ some x) (hk : k ≠ []) :
    matchAtoms (lits k) false none (x :: s) n = none := by
  cases k with
  | nil => exact absurd rfl hk
  | cons d k' =>
    have : x ≠ d := by intro e; subst e; exact h rfl
    simp [lits, matchAtoms, this]

theorem litN_step (c : Char) (m : Nat) (D : List Str) (trail : Str) (hm : 2 ≤ m)
    (hs : (List.replicate m c, [c]) ∈ symbols) (hD : D.contains (List.replicate m c) = false)
    (hcop : isOpChar c = true)
    (hu : ∀ p ∈ symbols, p.1 = List.replicate m c → p.2 = [c])
    (hcnt : ∀ p ∈ symbols, (p.1 ≠ List.replicate m c → D.contains p.1 = false → p.1.count c < m) ∧ p.2.count c < m)
    (hcntk : ∀ p ∈ keywords, p.2.count c < m)
    (hadjS : ∀ p ∈ symbols, (c ∈ p.1 ∨ c ∈ p.2) →
      (∀ q ∈ symbols, symAdjOK p.2 q.2 = true → q.1.head? ≠ some c ∧ q.2.head? ≠ some c) ∧
      (∀ r ∈ keywords, symAdjOK p.2 r.2 = true → r.2.head? ≠ some c))
    (hadjK : ∀ p ∈ keywords, c ∈ p.2 →
      (∀ q ∈ symbols, symAdjOK p.2 q.2 = true → q.1.head? ≠ some c ∧ q.2.head? ≠ some c) ∧
      (∀ r ∈ keywords, symAdjOK p.2 r.2 = true → r.2.head? ≠ some c))
    (htr : ∀ x ∈ trail, isWs x = true) :
    ∀ (L : List Lx) (prev : Option Tok) (g st : Bool), ChainOK prev L →
      replaceGo (litNRule m c) st 0 (render D g L trail) = render (List.replicate m c :: D) g L trail := by
  have hcsym : isSymChar c = true := op_is_sym hcop
  have hsne : List.replicate m c ≠ [] := by
    cases m with
    | zero => omega
    | succ m' => simp [List.replicate_succ]
  have hshead : (List.replicate m c).head? = some c := by
    cases m with
    | zero => omega
    | succ m' => simp [List.replicate_succ]
  have hnp : noPre (litNRule m c).pat = true := by
    have := noPre_lits (List.replicate m c) [] rfl
    simpa [litNRule] using this
  -- white space never starts a match
  have hwsInert : ∀ (pre Y : Str) (st : Bool), (∀ x ∈ pre, isWs x = true) →
      replaceGo (litNRule m c) st 0 (pre ++ Y) = pre ++ replaceGo (litNRule m c) (st && pre.isEmpty) 0 Y := by
    intro pre Y st hpre
    apply replaceGo_inert
    intro p hp
    rw [matchAtoms_st _ hnp]
    cases hd : pre.drop p with
    | nil => simp at hd; omega
    | cons x r =>
      have hx : isWs x = true := hpre x (List.mem_of_mem_drop (by rw [hd]; simp))
      simp only [litNRule, List.cons_append]
      apply lits_first_mismatch _ _ _ _ _ hsne
      rw [hshead]; intro e; injection e with e; subst e
      rw [op_not_ws hcsym] at hx; cases hx
  intro L
  induction L with
  | nil =>
    intro prev g st _
    simp only [render]
    have := hwsInert trail [] st htr
    simpa using this
  | cons l rest ih =>
    intro prev g st hch
    obtain ⟨w, x⟩ := l
    obtain ⟨hw, hx, _, hrest⟩ := hch
    have hih := ih (some x) (isDoneKw D x) false hrest
    obtain ⟨htne, htsp⟩ := spell_facts D hx
    have hdn : isDoneKw (List.replicate m c :: D) x = isDoneKw D x := by
      cases x with
      | kw k b =>
        have : k ≠ List.replicate m c := fun e => sym_ne_kw (List.replicate m c, [c]) hs (k, b) hx e.symm
        simp [isDoneKw, this]
      | word t => rfl
      | sym s b => rfl
    generalize hpre : (if (g || isDoneKw D x) = true then [] else w) = pre
    have hprews : ∀ c ∈ pre, isWs c = true := by
      intro c hc; subst hpre; split at hc
      · simp at hc
      · exact hw c hc
    simp only [render, hdn, hpre]
    rw [List.append_assoc, hwsInert pre _ st hprews]
    rw [List.append_assoc]
    congr 1
    generalize (st && pre.isEmpty) = st'
    by_cases hact : x = .sym (List.replicate m c) [c]
    · -- the active block
      subst hact
      have e1 : spell D (.sym (List.replicate m c) [c]) = List.replicate m c := by
        simp only [spell, hD, Bool.false_eq_true, if_false]
      have e2 : spell (List.replicate m c :: D) (.sym (List.replicate m c) [c]) = [c] := by
        simp [spell]
      rw [e1, e2, replaceGo_active (litNRule m c) st' _ _ none hsne, hih]
      · rfl
      · rw [matchAtoms_st _ hnp]
        have := matchAtoms_lits (List.replicate m c) [] false none
          (render D (isDoneKw D (.sym (List.replicate m c) [c])) rest trail) 0
        simp only [List.append_nil] at this
        simp only [litNRule]
        rw [this]; simp [matchAtoms]
    · -- an inert block
      have hsp : spell (List.replicate m c :: D) x = spell D x := by
        cases x with
        | word t => rfl
        | kw k b =>
          have : k ≠ List.replicate m c := fun e => sym_ne_kw (List.replicate m c, [c]) hs (k, b) hx e.symm
          simp [spell, this]
        | sym s b =>
          have : s ≠ List.replicate m c := by
            intro e; subst e
            have := hu _ hx rfl
            simp only at this; subst this; exact hact rfl
          simp [spell, this]
      rw [hsp, replaceGo_inert (litNRule m c) _ _ st']
      · have hemp : (spell D x).isEmpty = false := by
          cases hs' : spell D x with
          | nil => exact absurd hs' htne
          | cons d r => rfl
        rw [hemp, Bool.and_false, hih]
      · intro p hp
        rw [matchAtoms_st _ hnp]
        simp only [litNRule]
        have hdne : (spell D x).drop p ≠ [] := by simp; omega
        by_cases hcin : c ∈ spell D x
        · -- the text contains `c`: fewer than `m` copies, and the next character is not `c`
          have hox : opSpelled D x = true := by
            cases ho : opSpelled D x with
            | true => rfl
            | false =>
              have := spell_plain D hx ho c hcin
              rw [sym_not_plain hcsym] at this; cases this
          have hcount : (spell D x).count c < m := by
            cases x with
            | word t => simp [opSpelled] at hox
            | kw k b =>
              simp only [opSpelled] at hox
              simp only [spell, hox, if_true]
              exact hcntk _ hx
            | sym s b =>
              simp only [spell]
              split
              · exact (hcnt _ hx).2
              · rename_i hDs
                apply (hcnt _ hx).1
                · intro e; subst e
                  have := hu _ hx rfl
                  simp only at this; subst this; exact hact rfl
                · simpa using hDs
          apply rep_none c m _ _ _ hdne
          · exact Nat.lt_of_le_of_lt (List.Sublist.count_le c (List.drop_sublist p _)) hcount
          · intro _ hY
            rcases render_head_op D x rest trail hx hox htr hrest c hY with h | h | ⟨y, hy, hoy, hadj, hyh⟩
            · rw [op_not_ws hcsym] at h; cases h
            · rw [sym_not_plain hcsym] at h; cases h
            · -- an operator-spelled neighbour allowed by the grammar never starts with `c`
              have hbase : (∀ q ∈ symbols, symAdjOK x.base q.2 = true → q.1.head? ≠ some c ∧ q.2.head? ≠ some c) ∧
                  (∀ r ∈ keywords, symAdjOK x.base r.2 = true → r.2.head? ≠ some c) := by
                cases x with
                | word t => simp [opSpelled] at hox
                | kw k b =>
                  simp only [opSpelled] at hox
                  simp only [spell, hox, if_true] at hcin
                  exact hadjK _ hx hcin
                | sym s b =>
                  simp only [spell] at hcin
                  apply hadjS _ hx
                  split at hcin
                  · exact Or.inr hcin
                  · exact Or.inl hcin
              cases y with
              | word t => simp [opSpelled] at hoy
              | kw k b =>
                simp only [opSpelled] at hoy
                simp only [spell, hoy, if_true] at hyh
                exact hbase.2 _ hy hadj hyh
              | sym s b =>
                simp only [spell] at hyh
                split at hyh
                · exact (hbase.1 _ hy hadj).2 hyh
                · exact (hbase.1 _ hy hadj).1 hyh
        · -- the text does not contain `c`
          cases hd : (spell D x).drop p with
          | nil => exact absurd hd hdne
          | cons y r =>
            rw [List.cons_append]
            apply lits_first_mismatch _ _ _ _ _ hsne
            rw [hshead]; intro e; injection e with e; subst e
            exact hcin (List.mem_of_mem_drop (by rw [hd]; simp))
end C10

namespace C10

/-! ### S8: the two rules for "not" -/

def notOps : List Char := ['&', '|', '(']
def notBrs : List Char := ['(', '[', '{']

/-- `not` followed by `fin` (`\s+` or the bracket class) -/
def notTail (fin : Atom) : List Atom := lits kNot ++ [fin]

/-- "no `not`+fin here", whatever was captured before -/
def QNone (fin : Atom) (u : Str) : Prop := ∀ (cap : Option Char) (n : Nat), matchAtoms (notTail fin) false cap u n = none

/-- the final atom fails on a text that starts with a plain character -/
def FinPlain (fin : Atom) : Prop := ∀ (c : Char) (s : Str) (cap : Option Char) (n : Nat),
  isPlainChar c = true → matchAtoms [fin] false cap (c :: s) n = none

theorem finPlain_ws : FinPlain Atom.ws := by
  intro c s cap n hc
  simp [matchAtoms, wsPlus, plain_not_space hc]

theorem finPlain_cls : FinPlain (Atom.cls notBrs) := by
  intro c s cap n hc
  have : notBrs.contains c = false := by
    simp only [notBrs, List.contains_cons, List.contains_nil, Bool.or_false, Bool.or_eq_false_iff, beq_eq_false_iff_ne]
    refine ⟨?_, ?_, ?_⟩ <;> (intro e; subst e; revert hc; decide)
  have h2 : c ∉ notBrs := by simpa using this
  simp [matchAtoms, h2]

theorem kNot_plain : ∀ c ∈ kNot, isPlainChar c = true := by decide

/-- general form of `kw_mismatch` for the tail of the "not" rules -/
theorem tail_mismatch (fin : Atom) (hfin : FinPlain fin) : ∀ (k t Y : Str) (cap : Option Char) (n : Nat),
    (∀ c ∈ k, isPlainChar c = true) → (∀ c ∈ t, isPlainChar c = true) → t ≠ k → NonPlainHead Y →
    matchAtoms (lits k ++ [fin]) false cap (t ++ Y) n = none := by
  intro k
  induction k with
  | nil =>
    intro t Y cap n _ ht hne hY
    cases t with
    | nil => exact absurd rfl hne
    | cons d t' =>
      simp only [lits, List.map_nil, List.nil_append, List.cons_append]
      exact hfin d _ cap n (ht _ (by simp))
  | cons c k ih =>
    intro t Y cap n hk ht hne hY
    simp only [lits, List.map_cons, List.cons_append, matchAtoms]
    cases t with
    | nil =>
      simp only [List.nil_append]
      cases Y with
      | nil => rfl
      | cons e Y' =>
        have he : isPlainChar e = false := hY e rfl
        have : (e == c) = false := by
          simp only [beq_eq_false_iff_ne]; intro h; subst h; rw [hk _ (by simp)] at he; cases he
        simp [this]
    | cons d t' =>
      simp only [List.cons_append]
      by_cases hdc : d = c
      · subst hdc
        simp only [beq_self_eq_true, if_true]
        exact ih t' Y cap (n + 1) (fun x hx => hk x (by simp [hx])) (fun x hx => ht x (by simp [hx]))
          (by intro e; apply hne; rw [e]) hY
      · simp [hdc]

/-- a text that does not start with 'n' -/
theorem QNone_head (fin : Atom) (c : Char) (s : Str) (hc : c ≠ 'n') : QNone fin (c :: s) := by
  intro cap n
  simp [notTail, kNot, lits, matchAtoms, hc]

theorem QNone_nil (fin : Atom) : QNone fin [] := by
  intro cap n; simp [notTail, kNot, lits, matchAtoms]

theorem QNone_nonplain (fin : Atom) (u : Str) (h : NonPlainHead u) : QNone fin u := by
  cases u with
  | nil => exact QNone_nil fin
  | cons c s =>
    apply QNone_head
    intro e; subst e
    have := h 'n' rfl
    revert this; decide

/-- the three ways the prefix group can start a match all fail -/
theorem pre_nomatch (fin : Atom) (hfp : noPre [fin] = true) (st : Bool) (u : Str)
    (h1 : st = true → QNone fin u)
    (h2 : wsPlus (matchAtoms (notTail fin) false none) u 0 = none)
    (h3 : ∀ x u', u = x :: u' → notOps.contains x = true → QNone fin u') :
    matchAtoms (Atom.pre notOps :: notTail fin) st none u 0 = none := by
  have hnp : noPre (notTail fin) = true := noPre_lits kNot [fin] hfp
  simp only [matchAtoms]
  have e1 : (if st = true then matchAtoms (notTail fin) true none u 0 else none) = none := by
    cases st with
    | false => rfl
    | true => simp only [if_true]; rw [matchAtoms_st _ hnp]; exact h1 rfl none 0
  rw [e1, h2]
  cases u with
  | nil => rfl
  | cons x u' =>
    simp only
    by_cases hx : notOps.contains x = true
    · simp only [hx, if_true]; exact h3 x u' rfl hx (some x) 1
    · have hx' : notOps.contains x = false := by
        cases h : notOps.contains x with
        | false => rfl
        | true => exact absurd h hx
      simp only [hx', Bool.false_eq_true, if_false]

theorem notTail_space (fin : Atom) : ∀ c s n, isSpace c = true →
    matchAtoms (notTail fin) false none (c :: s) n = none := by
  intro c s n hc
  apply QNone_head
  intro e; subst e; revert hc; decide

def xNot : Tok := .kw kNot tNot

theorem notOps_sym {c : Char} (h : notOps.contains c = true) : isSymChar c = true := by
  simp only [notOps, List.contains_cons, List.contains_nil, Bool.or_false, Bool.or_eq_true, beq_iff_eq] at h
  rcases h with h | h | h <;> subst h <;> decide

theorem ws_not_ops {c : Char} (h : isWs c = true) : notOps.contains c = false := by
  cases hc : notOps.contains c with
  | false => rfl
  | true => have := op_not_ws (notOps_sym hc); rw [h] at this; cases this

theorem spell_op_all (D : List Str) {tk : Tok} (h : TokOK tk) (ho : opSpelled D tk = true) :
    ∀ c ∈ spell D tk, isSymChar c = true := by
  cases tk with
  | word t => simp [opSpelled] at ho
  | kw k b =>
    obtain ⟨_, _, _, h4⟩ := keywords_facts _ h
    simp only [opSpelled] at ho
    simp only [spell, ho, if_true]
    exact fun c hc => op_is_sym (List.all_eq_true.1 h4 c hc)
  | sym s b =>
    obtain ⟨_, h2, _, h4⟩ := symbols_facts _ h
    simp only [spell]
    split
    · exact fun c hc => op_is_sym (List.all_eq_true.1 h4 c hc)
    · exact fun c hc => List.all_eq_true.1 h2 c hc

theorem sym_ne_n {c : Char} (h : isSymChar c = true) : c ≠ 'n' := by
  intro e; subst e; revert h; decide

/-- a lexeme that is not the pending word form "not" does not start a "not"+fin -/
theorem item_QNone (fin : Atom) (hfin : FinPlain fin) (D : List Str) {x : Tok} (hx : TokOK x) (Y : Str)
    (hne : spell D x ≠ kNot) (hY : opSpelled D x = false → NonPlainHead Y) : QNone fin (spell D x ++ Y) := by
  by_cases ho : opSpelled D x = true
  · obtain ⟨c, r, e, hc⟩ := spell_op D hx ho
    rw [e, List.cons_append]
    exact QNone_head fin c _ (sym_ne_n hc)
  · have ho' : opSpelled D x = false := by simpa using ho
    intro cap n
    exact tail_mismatch fin hfin kNot _ Y cap n kNot_plain (spell_plain D hx ho') hne (hY ho')

/-- no match of a "not" rule starts inside the block `pre ++ spell D x` -/
theorem pre_inert_block (fin : Atom) (hfp : noPre [fin] = true) (st : Bool) (pre t Y : Str)
    (hpre : ∀ c ∈ pre, isWs c = true) (htne : t ≠ []) (htsp : ∀ c ∈ t, isSpace c = false)
    (hitem : QNone fin (t ++ Y))
    (hinner : ∀ q, q + 1 < t.length → ∀ c, t[q]? = some c → notOps.contains c = true → QNone fin (t.drop (q + 1) ++ Y))
    (hlast : ∀ c, t.getLast? = some c → notOps.contains c = true → QNone fin Y) :
    ∀ p, p < (pre ++ t).length →
      matchAtoms (Atom.pre notOps :: notTail fin) (st && p == 0) none ((pre ++ t).drop p ++ Y) 0 = none := by
  intro p hp
  by_cases hpp : p < pre.length
  · -- inside the white space
    rw [List.drop_append_of_le_length (by omega), List.append_assoc]
    cases hd : pre.drop p with
    | nil => simp at hd; omega
    | cons d r =>
      have hdws : isWs d = true := hpre d (List.mem_of_mem_drop (by rw [hd]; simp))
      have hrws : ∀ c ∈ d :: r, isSpace c = true := by
        intro c hc; rw [← hd] at hc; exact ws_is_space (hpre c (List.mem_of_mem_drop hc))
      apply pre_nomatch fin hfp
      · intro _
        rw [List.cons_append]
        apply QNone_head
        intro e; subst e; revert hdws; decide
      · rw [wsPlus_run _ (notTail_space fin) (d :: r) (t ++ Y) 0 hrws (by simp)]
        · exact hitem none _
        · intro c hc
          cases t with
          | nil => exact absurd rfl htne
          | cons e t' => simp at hc; subst hc; exact htsp _ (by simp)
      · intro x u' e hx
        rw [List.cons_append] at e
        injection e with e1 _
        subst e1
        rw [ws_not_ops hdws] at hx; cases hx
  · -- inside the text
    rw [List.drop_append, List.drop_of_length_le (by omega), List.nil_append]
    have hq : p - pre.length < t.length := by simp at hp; omega
    cases hd : t.drop (p - pre.length) with
    | nil => simp at hd; omega
    | cons h r =>
      have hh : isSpace h = false := htsp h (List.mem_of_mem_drop (by rw [hd]; simp))
      rw [List.cons_append]
      apply pre_nomatch fin hfp
      · intro hst
        have hp0 : p = 0 := by
          cases p with
          | zero => rfl
          | succ p' => simp at hst
        subst hp0
        have : pre.length = 0 := by omega
        simp only [this, Nat.sub_self, List.drop_zero] at hd
        rw [← List.cons_append, ← hd]; exact hitem
      · exact wsPlus_nonspace _ _ _ (by intro c hc; simp at hc; subst hc; exact hh)
      · intro x u' e hx
        injection e with e1 e2
        subst e1; subst e2
        have hget : t[p - pre.length]? = some h := by
          have := congrArg (fun l => l[0]?) hd
          simpa using this
        have hr : r = t.drop (p - pre.length + 1) := by
          have := congrArg (fun l => l.drop 1) hd
          simp at this
          rw [← this]
        by_cases hlt : p - pre.length + 1 < t.length
        · rw [hr]; exact hinner _ hlt h hget hx
        · have hre : r = [] := by rw [hr]; apply List.drop_of_length_le; omega
          rw [hre, List.nil_append]
          apply hlast h _ hx
          have hlast' : p - pre.length = t.length - 1 := by omega
          rw [List.getLast?_eq_getElem?, ← hlast', hget]


theorem not_kw_base {b : Str} (h : (kNot, b) ∈ keywords) : b = tNot :=
  kw_unique (kNot, b) h (kNot, tNot) (by decide) rfl

/-- the lexeme after "not" is not a word form -/
theorem after_not_not_kw {w : Str} {z : Tok} (hz : TokOK z) (hp : pairOKt xNot w z = true) : z.isKw = false := by
  cases z with
  | kw kz bz =>
    simp only [xNot, pairOKt, Bool.and_eq_true] at hp
    have := (kw_adj (kNot, tNot) (by decide) (kz, bz) hz hp.2).2.2
    have h : isBinBase tNot = false := by decide
    have this' : isBinBase tNot = true := this
    rw [h] at this'; cases this'
  | word t => rfl
  | sym s b => rfl

theorem word_ne_kNot {t : Str} (h : TokOK (.word t)) : t ≠ kNot := fun e => h.2.2 (kNot, tNot) (by decide) e.symm

/-- the inner characters of an operator-spelled text are followed by operator characters -/
theorem inner_QNone (fin : Atom) (D : List Str) {x : Tok} (hx : TokOK x) (Y : Str) :
    ∀ q, q + 1 < (spell D x).length → ∀ c, (spell D x)[q]? = some c → notOps.contains c = true →
      QNone fin ((spell D x).drop (q + 1) ++ Y) := by
  intro q hq c hc hops
  have hox : opSpelled D x = true := by
    cases ho : opSpelled D x with
    | true => rfl
    | false =>
      have := spell_plain D hx ho c (List.mem_of_getElem? hc)
      rw [sym_not_plain (notOps_sym hops)] at this; cases this
  cases hd : (spell D x).drop (q + 1) with
  | nil => simp at hd; omega
  | cons d r =>
    rw [List.cons_append]
    apply QNone_head
    exact sym_ne_n (spell_op_all D hx hox d (List.mem_of_mem_drop (by rw [hd]; simp)))

def notParenRule : Rule := ⟨Atom.pre notOps :: notTail (Atom.cls notBrs), ⟨true, ['!', '(']⟩⟩

theorem QNone_cls_item (D : List Str) (trail : Str) (htr : ∀ c ∈ trail, isWs c = true) {x : Tok} (hx : TokOK x)
    (rest : List Lx) (hrest : ChainOK (some x) rest) :
    QNone (Atom.cls notBrs) (spell D x ++ render D (isDoneKw D x) rest trail) := by
  by_cases hne : spell D x = kNot
  · -- the pending word form "not": white space follows
    have hxn : x = xNot ∧ D.contains kNot = false := by
      cases x with
      | word t => exact absurd (by simpa [spell] using hne) (word_ne_kNot hx)
      | kw k b =>
        simp only [spell] at hne
        split at hne
        · obtain ⟨_, _, _, h4⟩ := keywords_facts _ hx
          subst hne
          have h4' : kNot.all isOpChar = true := h4
          exact absurd h4' (by decide)
        · rename_i hD
          subst hne
          have := not_kw_base hx; subst this
          exact ⟨rfl, by simpa using hD⟩
      | sym s b =>
        obtain ⟨_, h2, _, h4⟩ := symbols_facts _ hx
        simp only [spell] at hne
        split at hne
        · subst hne
          have h4' : kNot.all isOpChar = true := h4
          exact absurd h4' (by decide)
        · subst hne
          have h2' : kNot.all isSymChar = true := h2
          exact absurd h2' (by decide)
    obtain ⟨rfl, hD⟩ := hxn
    rw [hne]
    have hdx : isDoneKw D xNot = false := hD
    rw [hdx]
    cases rest with
    | nil => exact absurd (hrest _ rfl) (by simp [xNot, Tok.isKw])
    | cons l r =>
      obtain ⟨w2, z⟩ := l
      obtain ⟨hw2, hz, hp, _⟩ := hrest
      have hzk := after_not_not_kw hz hp
      have hdz : isDoneKw D z = false := by cases z <;> simp_all [isDoneKw, Tok.isKw]
      have hw2ne : w2 ≠ [] := by cases z <;> simp_all [xNot, pairOKt]
      cases w2 with
      | nil => exact absurd rfl hw2ne
      | cons d w2' =>
        intro cap n
        simp only [render, hdz, Bool.or_false, Bool.false_eq_true, if_false, List.cons_append, List.append_assoc]
        have := matchAtoms_lits kNot [Atom.cls notBrs] false cap (d :: (w2' ++ (spell D z ++ render D false r trail))) n
        simp only [notTail]
        rw [this]
        have hd : notBrs.contains d = false := by
          cases hc : notBrs.contains d with
          | false => rfl
          | true =>
            have : isSymChar d = true := by
              simp only [notBrs, List.contains_cons, List.contains_nil, Bool.or_false, Bool.or_eq_true, beq_iff_eq] at hc
              rcases hc with h | h | h <;> subst h <;> decide
            have h2 := op_not_ws this
            rw [hw2 d (by simp)] at h2; cases h2
        have hd' : d ∉ notBrs := by simpa using hd
        simp [matchAtoms, hd']
  · exact item_QNone _ finPlain_cls D hx _ hne (fun ho => render_head_nonplain D x rest trail ho htr hrest)

theorem QNone_cls_render (D : List Str) (trail : Str) (htr : ∀ c ∈ trail, isWs c = true) :
    ∀ (rest : List Lx) (prev : Option Tok) (g : Bool), ChainOK prev rest →
      QNone (Atom.cls notBrs) (render D g rest trail) := by
  intro rest prev g h
  cases rest with
  | nil =>
    simp only [render]
    apply QNone_nonplain
    intro c hc
    cases trail with
    | nil => simp at hc
    | cons d t => simp at hc; subst hc; exact ws_not_plain (htr _ (by simp))
  | cons l r =>
    obtain ⟨w, y⟩ := l
    obtain ⟨hw, hy, _, hr⟩ := h
    simp only [render]
    generalize hpre : (if (g || isDoneKw D y) = true then [] else w) = pre
    cases pre with
    | nil => rw [List.nil_append]; exact QNone_cls_item D trail htr hy r hr
    | cons d pre' =>
      have hd : isWs d = true := by
        have : d ∈ (if (g || isDoneKw D y) = true then [] else w) := by rw [hpre]; simp
        split at this
        · simp at this
        · exact hw d this
      simp only [List.cons_append]
      apply QNone_head
      intro e; subst e; revert hd; decide

theorem notParen_step (D : List Str) (trail : Str) (htr : ∀ c ∈ trail, isWs c = true) :
    ∀ (L : List Lx) (prev : Option Tok) (g st : Bool), ChainOK prev L →
      replaceGo notParenRule st 0 (render D g L trail) = render D g L trail := by
  intro L
  induction L with
  | nil =>
    intro prev g st _
    simp only [render]
    have := replaceGo_inert notParenRule trail [] st (by
      intro p hp
      cases hd : trail.drop p with
      | nil => simp at hd; omega
      | cons d r =>
        have hdws : isWs d = true := htr d (List.mem_of_mem_drop (by rw [hd]; simp))
        have hrws : ∀ c ∈ d :: r, isSpace c = true := by
          intro c hc; rw [← hd] at hc; exact ws_is_space (htr c (List.mem_of_mem_drop hc))
        simp only [notParenRule, List.append_nil]
        apply pre_nomatch _ rfl
        · intro _; apply QNone_head; intro e; subst e; revert hdws; decide
        · have := wsPlus_run (matchAtoms (notTail (Atom.cls notBrs)) false none) (notTail_space _) (d :: r) [] 0 hrws
            (by simp) (by intro c hc; simp at hc)
          rw [List.append_nil] at this
          rw [this]; exact QNone_nil _ none _
        · intro x u' e hx
          injection e with e1 _; subst e1
          rw [ws_not_ops hdws] at hx; cases hx)
    simpa using this
  | cons l rest ih =>
    intro prev g st hch
    obtain ⟨w, x⟩ := l
    obtain ⟨hw, hx, _, hrest⟩ := hch
    obtain ⟨htne, htsp⟩ := spell_facts D hx
    simp only [render]
    rw [replaceGo_inert notParenRule _ _ st]
    · have hemp : ((if (g || isDoneKw D x) = true then [] else w) ++ spell D x).isEmpty = false := by
        cases hs : spell D x with
        | nil => exact absurd hs htne
        | cons d r => simp
      rw [hemp, Bool.and_false, ih (some x) (isDoneKw D x) false hrest]
    · have hprews : ∀ c ∈ (if (g || isDoneKw D x) = true then [] else w), isWs c = true := by
        intro c hc; split at hc
        · simp at hc
        · exact hw c hc
      exact pre_inert_block _ rfl st _ _ _ hprews htne htsp (QNone_cls_item D trail htr hx rest hrest)
        (inner_QNone _ D hx _) (fun _ _ _ => QNone_cls_render D trail htr rest (some x) _ hrest)

def notSpRule : Rule := ⟨Atom.pre notOps :: notTail Atom.ws, ⟨true, ['!']⟩⟩

theorem spell_eq_kNot (D : List Str) {x : Tok} (hx : TokOK x) (hne : spell D x = kNot) :
    x = xNot ∧ D.contains kNot = false := by
  cases x with
  | word t => exact absurd (by simpa [spell] using hne) (word_ne_kNot hx)
  | kw k b =>
    simp only [spell] at hne
    split at hne
    · obtain ⟨_, _, _, h4⟩ := keywords_facts _ hx
      subst hne
      have h4' : kNot.all isOpChar = true := h4
      exact absurd h4' (by decide)
    · rename_i hD
      subst hne
      have := not_kw_base hx; subst this
      exact ⟨rfl, by simpa using hD⟩
  | sym s b =>
    obtain ⟨_, h2, _, h4⟩ := symbols_facts _ hx
    simp only [spell] at hne
    split at hne
    · subst hne
      have h4' : kNot.all isOpChar = true := h4
      exact absurd h4' (by decide)
    · subst hne
      have h2' : kNot.all isSymChar = true := h2
      exact absurd h2' (by decide)

/-- "not" and the white space after it -/
theorem notTail_match (cap : Option Char) (w2 Z : Str) (n : Nat) (hw2 : ∀ c ∈ w2, isWs c = true) (hne : w2 ≠ [])
    (hZ : notSpaceHead Z) :
    matchAtoms (notTail Atom.ws) false cap (kNot ++ (w2 ++ Z)) n = some (n + kNot.length + w2.length, cap) := by
  simp only [notTail]
  rw [matchAtoms_lits]
  simp only [matchAtoms]
  have hend : (fun (x : Str) (x_1 : Nat) => some (x_1, cap)) = matchAtoms [] false cap := by
    funext a b; simp [matchAtoms]
  have hb : (false && kNot.isEmpty) = false := rfl
  rw [hend, wsPlus_end cap w2 Z _ (fun c hc => ws_is_space (hw2 c hc)) hne hZ]

theorem render_true_cons (D : List Str) (w : Str) (z : Tok) (r : List Lx) (trail : Str) :
    render D true ((w, z) :: r) trail = spell D z ++ render D (isDoneKw D z) r trail := by
  simp [render]

theorem render_false_cons (D : List Str) (w : Str) (z : Tok) (r : List Lx) (trail : Str) (hz : isDoneKw D z = false) :
    render D false ((w, z) :: r) trail = w ++ render D true ((w, z) :: r) trail := by
  simp [render, hz]

theorem notSp_step (D : List Str) (trail : Str) (hD : D.contains kNot = false)
    (htr : ∀ c ∈ trail, isWs c = true) :
    ∀ (n : Nat) (L : List Lx), L.length ≤ n → ∀ (prev : Option Tok) (g st : Bool), ChainOK prev L →
      st = prev.isNone → (g = true → ∀ w y r, L = (w, y) :: r → y ≠ xNot) →
      replaceGo notSpRule st 0 (render D g L trail) = render (kNot :: D) g L trail := by
  have hxn : TokOK xNot := by show (kNot, tNot) ∈ keywords; decide
  have hdxn : isDoneKw D xNot = false := hD
  have hsxn : spell D xNot = kNot := by simp only [xNot, spell, hD, Bool.false_eq_true, if_false]
  have hdxn' : isDoneKw (kNot :: D) xNot = true := by simp [xNot, isDoneKw]
  have hsxn' : spell (kNot :: D) xNot = tNot := by simp [xNot, spell]
  intro n
  induction n with
  | zero =>
    intro L hL prev g st _ _ _
    have : L = [] := List.length_eq_zero_iff.1 (by omega)
    subst this
    simp only [render]
    have := replaceGo_inert notSpRule trail [] st (by
      intro p hp
      cases hd : trail.drop p with
      | nil => simp at hd; omega
      | cons d r =>
        have hdws : isWs d = true := htr d (List.mem_of_mem_drop (by rw [hd]; simp))
        have hrws : ∀ c ∈ d :: r, isSpace c = true := by
          intro c hc; rw [← hd] at hc; exact ws_is_space (htr c (List.mem_of_mem_drop hc))
        simp only [notSpRule, List.append_nil]
        apply pre_nomatch _ rfl
        · intro _; apply QNone_head; intro e; subst e; revert hdws; decide
        · have := wsPlus_run (matchAtoms (notTail Atom.ws) false none) (notTail_space _) (d :: r) [] 0 hrws
            (by simp) (by intro c hc; simp at hc)
          rw [List.append_nil] at this
          rw [this]; exact QNone_nil _ none _
        · intro x u' e hx
          injection e with e1 _; subst e1
          rw [ws_not_ops hdws] at hx; cases hx)
    simpa using this
  | succ n ih =>
    intro L hL prev g st hch hst hgn
    cases L with
    | nil => exact ih [] (by simp) prev g st hch hst (by intro _ w y r e; cases e)
    | cons l rest =>
      obtain ⟨w, x⟩ := l
      obtain ⟨hw, hx, hprev, hrest⟩ := hch
      simp only [List.length_cons] at hL
      by_cases hA : x = xNot
      · -- case A: the word form itself
        subst hA
        have hgf : g = false := by
          cases g with
          | false => rfl
          | true => exact absurd rfl (hgn rfl w xNot rest rfl)
        subst hgf
        cases rest with
        | nil => exact absurd (hrest _ rfl) (by simp [xNot, Tok.isKw])
        | cons l2 r =>
          obtain ⟨w2, z⟩ := l2
          obtain ⟨hw2, hz, hp2, hr⟩ := hrest
          have hzk := after_not_not_kw hz hp2
          have hdz : isDoneKw D z = false := by cases z <;> simp_all [isDoneKw, Tok.isKw]
          have hw2ne : w2 ≠ [] := by cases z <;> simp_all [xNot, pairOKt]
          obtain ⟨hzne, hzsp⟩ := spell_facts D hz
          have hZ : notSpaceHead (render D true ((w2, z) :: r) trail) := by
            intro c hc
            rw [render_true_cons] at hc
            cases hs : spell D z with
            | nil => exact absurd hs hzne
            | cons d t => rw [hs] at hc; simp at hc; subst hc; exact hzsp _ (by rw [hs]; simp)
          have hih := ih ((w2, z) :: r) (by simp at hL ⊢; omega) (some xNot) true false ⟨hw2, hz, hp2, hr⟩ rfl
            (by intro _ w' y' r' e; injection e with e1 _; injection e1 with _ e2; subst e2
                intro e3; subst e3; simp [xNot, Tok.isKw] at hzk)
          have e1 : render D false ((w, xNot) :: (w2, z) :: r) trail
              = (w ++ kNot ++ w2) ++ render D true ((w2, z) :: r) trail := by
            simp only [render, hdxn, hsxn, hdz, Bool.or_false, Bool.false_eq_true, if_false, Bool.true_or, if_true,
              List.nil_append, List.append_assoc]
          have e2 : render (kNot :: D) false ((w, xNot) :: (w2, z) :: r) trail
              = tNot ++ render (kNot :: D) true ((w2, z) :: r) trail := by
            simp only [render, hdxn', hsxn', Bool.or_true, if_true, List.nil_append]
          have hnp : noPre (notTail Atom.ws) = true := noPre_lits kNot [Atom.ws] rfl
          rw [e1, e2, replaceGo_active notSpRule st _ _ none (by simp [kNot])]
          · rw [hih]; rfl
          · simp only [notSpRule, matchAtoms]
            have hm := notTail_match none w2 (render D true ((w2, z) :: r) trail) (0 + w.length) hw2 hw2ne hZ
            cases w with
            | nil =>
              -- "not" at the very beginning of the text
              have hst' : st = true := by
                cases prev with
                | none => simpa using hst
                | some p => cases p <;> simp_all [xNot, pairOKt]
              subst hst'
              simp only [if_true, List.nil_append, List.append_assoc]
              rw [matchAtoms_st _ hnp]
              have := notTail_match none w2 (render D true ((w2, z) :: r) trail) 0 hw2 hw2ne hZ
              rw [this]; simp
            | cons d w' =>
              have e0 : (if st = true then matchAtoms (notTail Atom.ws) true none
                  (d :: w' ++ kNot ++ w2 ++ render D true ((w2, z) :: r) trail) 0 else none) = none := by
                split
                · rw [matchAtoms_st _ hnp]
                  simp only [List.cons_append]
                  exact notTail_space _ d _ 0 (ws_is_space (hw d (by simp)))
                · rfl
              rw [e0]
              have e3 : d :: w' ++ kNot ++ w2 ++ render D true ((w2, z) :: r) trail
                  = (d :: w') ++ (kNot ++ (w2 ++ render D true ((w2, z) :: r) trail)) := by simp
              rw [e3, wsPlus_run _ (notTail_space _) (d :: w') _ 0 (fun c hc => ws_is_space (hw c hc)) (by simp)
                (by intro c hc; simp [kNot] at hc; subst hc; decide)]
              rw [hm]; simp; omega
      · by_cases hB : ∃ k b w2 r, x = .kw k b ∧ D.contains k = true ∧ rest = (w2, xNot) :: r
        · -- case B: a rewritten "and" / "or" directly in front of "not"
          obtain ⟨k, b, w2, r, rfl, hDk, rfl⟩ := hB
          obtain ⟨hw2, _, hp2, hr⟩ := hrest
          have hbb : isBinBase b = true := by
            simp only [xNot, pairOKt, Bool.and_eq_true] at hp2
            exact (kw_adj (k, b) hx (kNot, tNot) (by decide) hp2.2).2.2
          cases r with
          | nil => exact absurd (hr _ rfl) (by simp [xNot, Tok.isKw])
          | cons l3 r' =>
            obtain ⟨w3, z⟩ := l3
            obtain ⟨hw3, hz, hp3, hr'⟩ := hr
            have hzk := after_not_not_kw hz hp3
            have hdz : isDoneKw D z = false := by cases z <;> simp_all [isDoneKw, Tok.isKw]
            have hw3ne : w3 ≠ [] := by cases z <;> simp_all [xNot, pairOKt]
            obtain ⟨hzne, hzsp⟩ := spell_facts D hz
            have hZ : notSpaceHead (render D true ((w3, z) :: r') trail) := by
              intro c hc
              rw [render_true_cons] at hc
              cases hs : spell D z with
              | nil => exact absurd hs hzne
              | cons d t => rw [hs] at hc; simp at hc; subst hc; exact hzsp _ (by rw [hs]; simp)
            have hih := ih ((w3, z) :: r') (by simp at hL ⊢; omega) (some xNot) true false ⟨hw3, hz, hp3, hr'⟩ rfl
              (by intro _ w' y' r'' e; injection e with e1 _; injection e1 with _ e2; subst e2
                  intro e3; subst e3; simp [xNot, Tok.isKw] at hzk)
            obtain ⟨c, hc1, hc2⟩ : ∃ c, b = [c] ∧ notOps.contains c = true := by
              simp only [isBinBase, Bool.or_eq_true, beq_iff_eq] at hbb
              rcases hbb with h | h
              · exact ⟨'&', h, by decide⟩
              · exact ⟨'|', h, by decide⟩
            subst hc1
            have hkne : k ≠ kNot := by
              intro e; subst e
              rw [hD] at hDk; cases hDk
            have hdk : isDoneKw D (.kw k [c]) = true := hDk
            have hsk : spell D (.kw k [c]) = [c] := by simp only [spell, hDk, if_true]
            have hmem : k ∈ D := by simpa using hDk
            have hdk' : isDoneKw (kNot :: D) (.kw k [c]) = true := by simp [isDoneKw, hmem]
            have hsk' : spell (kNot :: D) (.kw k [c]) = [c] := by simp [spell, hmem]
            have e1 : render D g ((w, .kw k [c]) :: (w2, xNot) :: (w3, z) :: r') trail
                = ([c] ++ kNot ++ w3) ++ render D true ((w3, z) :: r') trail := by
              simp only [render, hdk, hsk, hdxn, hsxn, hdz, Bool.or_true, Bool.true_or, Bool.or_false, if_true,
                Bool.false_eq_true, if_false, List.nil_append, List.append_assoc]
            have e2 : render (kNot :: D) g ((w, .kw k [c]) :: (w2, xNot) :: (w3, z) :: r') trail
                = [c] ++ tNot ++ render (kNot :: D) true ((w3, z) :: r') trail := by
              simp only [render, hdk', hsk', hdxn', hsxn', Bool.or_true, Bool.true_or, if_true, List.nil_append,
                List.append_assoc]
            have hnp : noPre (notTail Atom.ws) = true := noPre_lits kNot [Atom.ws] rfl
            rw [e1, e2, replaceGo_active notSpRule st _ _ (some c) (by simp)]
            · rw [hih]; rfl
            · simp only [notSpRule, matchAtoms, List.cons_append, List.nil_append, List.append_assoc]
              have e0 : (if st = true then matchAtoms (notTail Atom.ws) true none
                  (c :: (kNot ++ (w3 ++ render D true ((w3, z) :: r') trail))) 0 else none) = none := by
                split
                · rw [matchAtoms_st _ hnp]
                  exact QNone_head _ c _ (sym_ne_n (notOps_sym hc2)) none 0
                · rfl
              rw [e0, wsPlus_nonspace _ _ _ (by intro d hd; simp at hd; subst hd; exact sym_not_space (notOps_sym hc2))]
              simp only [hc2, if_true]
              rw [notTail_match (some c) w3 _ (0 + 1) hw3 hw3ne hZ]
              simp; omega
        · -- case C: an inert block
          obtain ⟨hsp, hdn⟩ := spell_cons_ne D (by decide : (kNot, tNot) ∈ keywords) hx hA
          obtain ⟨htne, htsp⟩ := spell_facts D hx
          have hnek : spell D x ≠ kNot := fun e => hA (spell_eq_kNot D hx e).1
          have hgn' : isDoneKw D x = true → ∀ w' y r', rest = (w', y) :: r' → y ≠ xNot := by
            intro hdx w' y r' e hy
            subst e; subst hy
            apply hB
            cases x with
            | kw k b => exact ⟨k, b, w', r', rfl, hdx, rfl⟩
            | word t => simp [isDoneKw] at hdx
            | sym s b => simp [isDoneKw] at hdx
          have hih := ih rest (by omega) (some x) (isDoneKw D x) false hrest rfl hgn'
          simp only [render, hsp, hdn]
          rw [replaceGo_inert notSpRule _ _ st]
          · have hemp : ((if (g || isDoneKw D x) = true then [] else w) ++ spell D x).isEmpty = false := by
              cases hs : spell D x with
              | nil => exact absurd hs htne
              | cons d r => simp
            rw [hemp, Bool.and_false, hih]
          · have hprews : ∀ c ∈ (if (g || isDoneKw D x) = true then [] else w), isWs c = true := by
              intro c hc; split at hc
              · simp at hc
              · exact hw c hc
            apply pre_inert_block _ rfl st _ _ _ hprews htne htsp
            · exact item_QNone _ finPlain_ws D hx _ hnek (fun ho => render_head_nonplain D x rest trail ho htr hrest)
            · exact inner_QNone _ D hx _
            · -- after the last character of an operator-spelled text
              intro c _ _
              cases rest with
              | nil =>
                simp only [render]
                apply QNone_nonplain
                intro d hd
                cases trail with
                | nil => simp at hd
                | cons e t => simp at hd; subst hd; exact ws_not_plain (htr _ (by simp))
              | cons l2 r =>
                obtain ⟨w2, y⟩ := l2
                obtain ⟨hw2, hy, hp2, hr⟩ := hrest
                simp only [render]
                generalize hpre : (if (isDoneKw D x || isDoneKw D y) = true then [] else w2) = pre2
                cases pre2 with
                | cons d p' =>
                  have hd : isWs d = true := by
                    have : d ∈ (if (isDoneKw D x || isDoneKw D y) = true then [] else w2) := by rw [hpre]; simp
                    split at this
                    · simp at this
                    · exact hw2 d this
                  simp only [List.cons_append]
                  apply QNone_head
                  intro e; subst e; revert hd; decide
                | nil =>
                  rw [List.nil_append]
                  apply item_QNone _ finPlain_ws D hy _ _ (fun ho => render_head_nonplain D y r trail ho htr hr)
                  intro e
                  obtain ⟨rfl, _⟩ := spell_eq_kNot D hy e
                  have hw2ne : w2 ≠ [] := by cases x <;> simp_all [xNot, pairOKt]
                  have hdx : isDoneKw D x = true := by
                    cases hdx : isDoneKw D x with
                    | true => rfl
                    | false =>
                      simp only [hdx, hdxn, Bool.or_false, Bool.false_eq_true, if_false] at hpre
                      exact absurd hpre hw2ne
                  exact hgn' hdx w2 xNot r rfl rfl

/-! ### S9: all rules of the table, in order -/

inductive RD where
  | kw (k b : Str)
  | lit1 (c d : Char)
  | litN (m : Nat) (c : Char)
  | notParen
  | notSp
  deriving Repr

def RD.rule : RD → Rule
  | .kw k b => kwRule k b
  | .lit1 c d => lit1Rule c d
  | .litN m c => litNRule m c
  | .notParen => notParenRule
  | .notSp => notSpRule

def RD.done : RD → List Str → List Str
  | .kw k _, D => k :: D
  | .lit1 c _, D => [c] :: D
  | .litN m c, D => List.replicate m c :: D
  | .notParen, D => D
  | .notSp, D => kNot :: D

def adjCheck (c : Char) (b : Str) : Bool :=
  symbols.all (fun q => !symAdjOK b q.2 || (q.1.head? != some c && q.2.head? != some c)) &&
  keywords.all (fun r => !symAdjOK b r.2 || r.2.head? != some c)

/-- the side conditions of the step lemmas, as a computable check -/
def RD.okb : RD → List Str → Bool
  | .kw k b, D => keywords.contains (k, b) && b != tNot && !D.contains k && (!isBinBase b || !D.contains kNot)
  | .lit1 c d, D =>
    symbols.contains ([c], [d]) && !D.contains [c] && !isOpChar c && isSymChar c &&
    symbols.all (fun p => p.1 == [c] || !p.1.contains c) && symbols.all (fun p => p.1 != [c] || p.2 == [d])
  | .litN m c, D =>
    decide (2 ≤ m) && symbols.contains (List.replicate m c, [c]) && !D.contains (List.replicate m c) && isOpChar c &&
    symbols.all (fun p => p.1 != List.replicate m c || p.2 == [c]) &&
    symbols.all (fun p => (p.1 == List.replicate m c || D.contains p.1 || decide (p.1.count c < m)) && decide (p.2.count c < m)) &&
    keywords.all (fun p => decide (p.2.count c < m)) &&
    symbols.all (fun p => !(p.1.contains c || p.2.contains c) || adjCheck c p.2) &&
    keywords.all (fun p => !p.2.contains c || adjCheck c p.2)
  | .notParen, _ => true
  | .notSp, D => !D.contains kNot

theorem adjCheck_spec {c : Char} {b : Str} (h : adjCheck c b = true) :
    (∀ q ∈ symbols, symAdjOK b q.2 = true → q.1.head? ≠ some c ∧ q.2.head? ≠ some c) ∧
    (∀ r ∈ keywords, symAdjOK b r.2 = true → r.2.head? ≠ some c) := by
  simp only [adjCheck, Bool.and_eq_true, List.all_eq_true, Bool.or_eq_true, Bool.not_eq_true', bne_iff_ne] at h
  constructor
  · intro q hq hadj
    rcases h.1 q hq with h1 | h1
    · rw [hadj] at h1; cases h1
    · exact h1
  · intro r hr hadj
    rcases h.2 r hr with h1 | h1
    · rw [hadj] at h1; cases h1
    · exact h1

theorem rd_step (d : RD) (D : List Str) (hok : d.okb D = true) (L : List Lx) (trail : Str)
    (hL : ChainOK none L) (htr : ∀ c ∈ trail, isWs c = true) :
    replaceAll d.rule (render D false L trail) = render (d.done D) false L trail := by
  unfold replaceAll
  cases d with
  | kw k b =>
    simp only [RD.okb, Bool.and_eq_true, Bool.not_eq_true', bne_iff_ne, Bool.or_eq_true] at hok
    obtain ⟨⟨⟨h1, h2⟩, h3⟩, h4⟩ := hok
    have hkb : (k, b) ∈ keywords := by simpa using h1
    exact kw_step k b D trail hkb h2 h3 (by
      intro hb; rcases h4 with h | h
      · rw [hb] at h; cases h
      · exact h) htr L none false true hL (by intro h; cases h)
  | lit1 c d =>
    simp only [RD.okb, Bool.and_eq_true, Bool.not_eq_true', List.all_eq_true, Bool.or_eq_true, beq_iff_eq,
      bne_iff_ne] at hok
    obtain ⟨⟨⟨⟨⟨h1, h2⟩, h3⟩, h4⟩, h5⟩, h6⟩ := hok
    have hs : ([c], [d]) ∈ symbols := by simpa using h1
    simp only [RD.rule, RD.done]
    rw [replaceGo_lit1]
    have hall : ∀ l ∈ L, (∀ x ∈ l.1, isWs x = true) ∧ TokOK l.2 := by
      have : ∀ (L : List Lx) (prev : Option Tok), ChainOK prev L → ∀ l ∈ L, (∀ x ∈ l.1, isWs x = true) ∧ TokOK l.2 := by
        intro L
        induction L with
        | nil => intro _ _ l hl; cases hl
        | cons a r ih =>
          intro prev h l hl
          obtain ⟨w, x⟩ := a
          obtain ⟨ha, hb, _, hr⟩ := h
          rcases List.mem_cons.1 hl with e | e
          · subst e; exact ⟨ha, hb⟩
          · exact ih _ hr l e
      exact this L none hL
    exact lit1_step c d D trail hs h2 h3 h4
      (by intro p hp hne hc
          rcases h5 p hp with h | h
          · exact hne h
          · have : p.1.contains c = true := by simpa using hc
            rw [this] at h; cases h)
      (by intro p hp he
          rcases h6 p hp with h | h
          · exact absurd he h
          · exact h) htr L false hall
  | litN m c =>
    simp only [RD.okb, Bool.and_eq_true, Bool.not_eq_true', List.all_eq_true, Bool.or_eq_true, beq_iff_eq,
      bne_iff_ne, decide_eq_true_eq] at hok
    obtain ⟨⟨⟨⟨⟨⟨⟨⟨h1, h2⟩, h3⟩, h4⟩, h5⟩, h6⟩, h7⟩, h8⟩, h9⟩ := hok
    have hs : (List.replicate m c, [c]) ∈ symbols := by simpa using h2
    exact litN_step c m D trail h1 hs h3 h4
      (by intro p hp he
          rcases h5 p hp with h | h
          · exact absurd he h
          · exact h)
      (by intro p hp
          refine ⟨fun hne hDp => ?_, (h6 p hp).2⟩
          rcases (h6 p hp).1 with (h | h) | h
          · exact absurd h hne
          · rw [hDp] at h; cases h
          · exact h)
      h7
      (by intro p hp hc
          rcases h8 p hp with h | h
          · exfalso
            simp only [Bool.or_eq_false_iff] at h
            rcases hc with hc | hc
            · have : p.1.contains c = true := by simpa using hc
              rw [this] at h; cases h.1
            · have : p.2.contains c = true := by simpa using hc
              rw [this] at h; cases h.2
          · exact adjCheck_spec h)
      (by intro p hp hc
          rcases h9 p hp with h | h
          · have : p.2.contains c = true := by simpa using hc
            rw [this] at h; cases h
          · exact adjCheck_spec h)
      htr L none false true hL
  | notParen => exact notParen_step D trail htr L none false true hL
  | notSp =>
    simp only [RD.okb, Bool.not_eq_true'] at hok
    exact notSp_step D trail hok htr L.length L (Nat.le_refl _) none false true hL rfl (by intro h; cases h)

def descs : List RD :=
  [.litN 2 '&', .kw "and".toList tAnd, .lit1 '*' '&',
   .litN 2 '|', .kw "or".toList tOr, .lit1 '+' '|',
   .lit1 '{' '(', .lit1 '[' '(', .lit1 '}' ')', .lit1 ']' ')',
   .notParen, .notSp,
   .kw "eq".toList "=".toList, .kw "-eq".toList "=".toList, .kw "equals".toList "=".toList, .litN 3 '=', .litN 2 '=',
   .kw "neq".toList "!=".toList, .kw "-neq".toList "!=".toList, .kw "ne".toList "!=".toList, .kw "-ne".toList "!=".toList,
   .kw "le".toList "<=".toList, .kw "-le".toList "<=".toList, .kw "leq".toList "<=".toList, .kw "-leq".toList "<=".toList,
   .kw "ge".toList ">=".toList, .kw "-ge".toList ">=".toList, .kw "geq".toList ">=".toList, .kw "-geq".toList ">=".toList,
   .kw "g".toList ">".toList, .kw "-g".toList ">".toList, .kw "gt".toList ">".toList, .kw "-gt".toList ">".toList,
   .kw "greater".toList ">".toList,
   .kw "l".toList "<".toList, .kw "-l".toList "<".toList, .kw "lt".toList "<".toList, .kw "-lt".toList "<".toList,
   .kw "less".toList "<".toList]

/-- the table regenerated from the source (`Gen.Sanitize.grammarConversions`), read by the model's
    pattern parser, is exactly this list of rules: a pattern or template outside the modelled
    subset, a new entry or a changed order breaks this theorem. -/
theorem rules_eq : rules = some (descs.map RD.rule) := by decide

def chainOKb : List RD → List Str → Bool
  | [], _ => true
  | d :: ds, D => d.okb D && chainOKb ds (d.done D)

def doneAll (ds : List RD) (D : List Str) : List Str := ds.foldl (fun D d => d.done D) D

theorem chain_steps : ∀ (ds : List RD) (D : List Str), chainOKb ds D = true → ∀ (L : List Lx) (trail : Str),
    ChainOK none L → (∀ c ∈ trail, isWs c = true) →
    applyRules (ds.map RD.rule) (render D false L trail) = render (doneAll ds D) false L trail := by
  intro ds
  induction ds with
  | nil => intro D _ L trail _ _; rfl
  | cons d ds ih =>
    intro D h L trail hL htr
    simp only [chainOKb, Bool.and_eq_true] at h
    simp only [List.map_cons, applyRules, List.foldl_cons, doneAll]
    rw [rd_step d D h.1 L trail hL htr]
    exact ih (d.done D) h.2 L trail hL htr

theorem descs_ok : chainOKb descs [] = true := by decide
end C10


namespace C10

/-! ### S10: tokenizing the fully rewritten text -/

theorem plain_not_delim {c : Char} (h : isPlainChar c = true) : startsDelim c = false := by
  rw [startsDelim_eq]
  simp only [isDelim, Bool.or_eq_false_iff]
  constructor
  · simp only [isPlainChar, Bool.and_eq_true, Bool.not_eq_true'] at h
    exact h.1.2
  · cases hw : isWs c with
    | false => rfl
    | true => rw [ws_not_plain hw] at h; cases h

theorem ws_blank {c : Char} (h : isWs c = true) : startsDelim c = true ∧ singleDelim c = false ∧ blankDelim c = true := by
  simp only [isWs, Bool.or_eq_true, beq_iff_eq] at h
  rcases h with ((h | h) | h) | h <;> subst h <;> decide

theorem tokGo_ws : ∀ (w Y : Str), (∀ c ∈ w, isWs c = true) → tokGo (w ++ Y) [] 0 false = tokGo Y [] 0 false := by
  intro w
  induction w with
  | nil => intro Y _; rfl
  | cons c w ih =>
    intro Y h
    obtain ⟨h1, h2, h3⟩ := ws_blank (h c (by simp))
    rw [List.cons_append, tokGo]
    simp only [Bool.false_eq_true, if_false, h1, if_true, h2, h3, flushW, List.isEmpty_nil]
    exact ih Y (fun x hx => h x (by simp [hx]))

theorem tokGo_flush (c : Char) (r w : Str) (n : Nat) (h : startsDelim c = true) :
    tokGo (c :: r) w n false = flushW w n (tokGo (c :: r) [] 0 false) := by
  rw [tokGo, tokGo]
  simp only [Bool.false_eq_true, if_false, h, if_true]
  simp [flushW]

/-- a word followed by a delimiter or the end of the text -/
theorem tokGo_word_tok (t Y : Str) (ht : ∀ c ∈ t, isPlainChar c = true) (hne : t ≠ []) (hlen : t.length < maxToken)
    (hY : ∀ c, Y.head? = some c → startsDelim c = true) :
    tokGo (t ++ Y) [] 0 false = consTok t (tokGo Y [] 0 false) := by
  rw [tokGo_word t Y [] 0 (fun c hc => plain_not_delim (ht c hc))]
  have hw : ¬ (t.reverse ++ ([] : Str)).isEmpty = true := by simpa using hne
  cases Y with
  | nil =>
    simp only [tokGo, flushW, consTok]
    simp [hne]; omega
  | cons c r =>
    rw [tokGo_flush c r _ _ (hY c rfl)]
    simp only [flushW, consTok]
    simp [hne]; omega

def bases : List Str := ["=", "!=", "<=", ">=", "<", ">", "!", "&", "|", "(", ")"].map String.toList

theorem bases_complete : (∀ p ∈ keywords, p.2 ∈ bases) ∧ (∀ p ∈ symbols, p.2 ∈ bases) := by decide

def needsGuard (b : Str) : Bool := b == tNot || b == "<".toList || b == ">".toList

/-- an operator token; `!`, `<`, `>` must not be followed by '=' -/
theorem tokGo_base (b : Str) (hb : b ∈ bases) (Y : Str) (hY : needsGuard b = true → Y.head? ≠ some '=') :
    tokGo (b ++ Y) [] 0 false = consTok b (tokGo Y [] 0 false) := by
  simp only [bases, List.map_cons, List.map_nil, List.mem_cons, List.not_mem_nil, or_false] at hb
  have single : ∀ c : Char, singleDelim c = true → startsDelim c = true →
      tokGo (c :: Y) [] 0 false = consTok [c] (tokGo Y [] 0 false) := by
    intro c h1 h2
    rw [tokGo]; simp [h1, h2, flushW]
  have two : ∀ c : Char, startsDelim c = true → singleDelim c = false → blankDelim c = false →
      tokGo (c :: '=' :: Y) [] 0 false = consTok [c, '='] (tokGo Y [] 0 false) := by
    intro c h1 h2 h3
    rw [tokGo]
    simp only [Bool.false_eq_true, if_false, h1, if_true, h2, h3, flushW, List.isEmpty_nil, List.head?_cons]
    have : endsDelim '=' = true := by decide
    simp only [this, if_true]
    rw [tokGo]; simp
  have guarded : ∀ c : Char, startsDelim c = true → singleDelim c = false → blankDelim c = false →
      Y.head? ≠ some '=' → tokGo (c :: Y) [] 0 false = consTok [c] (tokGo Y [] 0 false) := by
    intro c h1 h2 h3 h4
    rw [tokGo]
    simp only [Bool.false_eq_true, if_false, h1, if_true, h2, h3, flushW, List.isEmpty_nil]
    cases Y with
    | nil => simp [tokGo, flushW, consTok]
    | cons d r =>
      have hd : endsDelim d = false := by
        rw [endsDelim_eq]; simp only [beq_eq_false_iff_ne]; intro e; subst e; exact h4 rfl
      simp [hd]
  rcases hb with h|h|h|h|h|h|h|h|h|h|h <;> subst h
  · exact single '=' (by decide) (by decide)
  · exact two '!' (by decide) (by decide) (by decide)
  · exact two '<' (by decide) (by decide) (by decide)
  · exact two '>' (by decide) (by decide) (by decide)
  · exact guarded '<' (by decide) (by decide) (by decide) (hY (by decide))
  · exact guarded '>' (by decide) (by decide) (by decide) (hY (by decide))
  · exact guarded '!' (by decide) (by decide) (by decide) (hY (by decide))
  · exact single '&' (by decide) (by decide)
  · exact single '|' (by decide) (by decide)
  · exact single '(' (by decide) (by decide)
  · exact single ')' (by decide) (by decide)

/-- every alternative spelling has been rewritten -/
def AllDone (D : List Str) : Prop :=
  (∀ p ∈ keywords, D.contains p.1 = true) ∧ (∀ p ∈ symbols, p.1 ≠ p.2 → D.contains p.1 = true)

theorem spell_allDone {D : List Str} (h : AllDone D) {x : Tok} (hx : TokOK x) : spell D x = x.base := by
  cases x with
  | word t => rfl
  | kw k b => simp only [spell, h.1 _ hx, if_true, Tok.base]
  | sym s b =>
    simp only [spell, Tok.base]
    by_cases e : s = b
    · subst e; simp
    · simp only [h.2 _ hx e, if_true]

theorem guard_adj : ∀ b ∈ bases, needsGuard b = true → ∀ b2 ∈ bases, symAdjOK b b2 = true → b2.head? ≠ some '=' := by
  decide

theorem base_mem {x : Tok} (hx : TokOK x) (hw : ∀ t, x ≠ .word t) : x.base ∈ bases := by
  cases x with
  | word t => exact absurd rfl (hw t)
  | kw k b => exact bases_complete.1 _ hx
  | sym s b => exact bases_complete.2 _ hx

theorem bases_head_op : ∀ b ∈ bases, (match b with | c :: _ => isOpChar c | [] => false) = true := by decide

theorem bases_op (b : Str) (hb : b ∈ bases) : ∃ c r, b = c :: r ∧ isOpChar c = true := by
  have := bases_head_op b hb
  cases b with
  | nil => simp at this
  | cons c r => exact ⟨c, r, rfl, this⟩

theorem op_delim {c : Char} (h : isOpChar c = true) : startsDelim c = true := by
  rw [startsDelim_eq]; simp [isDelim, h]

def wordLenOK (L : List Lx) : Prop := ∀ l ∈ L, ∀ t, l.2 = .word t → t.length < maxToken

theorem tokenize_rendered (D : List Str) (hall : AllDone D) (trail : Str) (htr : ∀ c ∈ trail, isWs c = true) :
    ∀ (L : List Lx) (prev : Option Tok) (g : Bool), ChainOK prev L → wordLenOK L →
      tokGo (render D g L trail) [] 0 false = (L.map (fun l => l.2.base), false) := by
  intro L
  induction L with
  | nil =>
    intro prev g _ _
    simp only [render, List.map_nil]
    have := tokGo_ws trail [] htr
    rw [List.append_nil] at this
    rw [this]; rfl
  | cons l rest ih =>
    intro prev g hch hlen
    obtain ⟨w, x⟩ := l
    obtain ⟨hw, hx, _, hrest⟩ := hch
    have hih := ih (some x) (isDoneKw D x) hrest (fun l hl => hlen l (by simp [hl]))
    have hprews : ∀ c ∈ (if (g || isDoneKw D x) = true then [] else w), isWs c = true := by
      intro c hc; split at hc
      · simp at hc
      · exact hw c hc
    simp only [render, List.map_cons]
    rw [List.append_assoc, tokGo_ws _ _ hprews, spell_allDone hall hx]
    by_cases hword : ∃ t, x = .word t
    · -- a word: it ends at white space, at an operator or at the end of the text
      obtain ⟨t, rfl⟩ := hword
      have hd : isDoneKw D (.word t) = false := rfl
      simp only [Tok.base]
      rw [tokGo_word_tok t _ hx.2.1 hx.1 (hlen (w, Tok.word t) (by simp) t rfl), hih]
      · rfl
      · intro c hc
        rw [hd] at hc
        cases rest with
        | nil =>
          simp only [render] at hc
          cases trail with
          | nil => simp at hc
          | cons d r => simp at hc; subst hc; exact (ws_blank (htr _ (by simp))).1
        | cons l2 r =>
          obtain ⟨w2, y⟩ := l2
          obtain ⟨hw2, hy, hp, _⟩ := hrest
          simp only [render, Bool.false_or] at hc
          by_cases hyd : isDoneKw D y = true
          · simp only [hyd, if_true, List.nil_append] at hc
            have hyb : y.base ∈ bases := base_mem hy (by intro t' e; subst e; simp [isDoneKw] at hyd)
            obtain ⟨d, r', e, hdop⟩ := bases_op _ hyb
            rw [spell_allDone hall hy, e] at hc
            simp at hc; subst hc; exact op_delim hdop
          · simp only [hyd, Bool.false_eq_true, if_false] at hc
            cases w2 with
            | cons d w2' => simp at hc; subst hc; exact (ws_blank (hw2 _ (by simp))).1
            | nil =>
              have hyb : y.base ∈ bases := base_mem hy (by intro t' e; subst e; simp [pairOKt] at hp)
              obtain ⟨d, r', e, hdop⟩ := bases_op _ hyb
              rw [spell_allDone hall hy, e] at hc
              simp at hc; subst hc; exact op_delim hdop
    · -- an operator
      have hnw : ∀ t, x ≠ .word t := fun t e => hword ⟨t, e⟩
      have hxb : x.base ∈ bases := base_mem hx hnw
      have hox : opSpelled D x = true := by
        cases x with
        | word t => exact absurd rfl (hnw t)
        | kw k b => exact hall.1 _ hx
        | sym s b => rfl
      rw [tokGo_base _ hxb, hih]
      · rfl
      · intro hg hY
        rcases render_head_op D x rest trail hx hox htr hrest '=' hY with h | h | ⟨y, hy, hoy, hadj, hyh⟩
        · revert h; decide
        · revert h; decide
        · have hyb : y.base ∈ bases := base_mem hy (by intro t' e; subst e; simp [opSpelled] at hoy)
          rw [spell_allDone hall hy] at hyh
          exact guard_adj _ hxb hg _ hyb hadj hyh

theorem doneAll_allDone : AllDone (doneAll descs []) := by
  constructor <;> decide
end C10

namespace C10

/-! ### S11: lower-casing ASCII text -/

theorem char_le_iff (a b : Char) : a ≤ b ↔ a.toNat ≤ b.toNat := by
  rw [Char.le_def, UInt32.le_iff_toNat_le]; rfl

theorem lowerGo_ascii : ∀ (s : Str), (∀ c ∈ s, c.toNat < 128) → lowerGo 0 s = lowerStr s := by
  intro s
  induction s with
  | nil => intro _; rfl
  | cons c s ih =>
    intro h
    have hc : c.toNat < 128 := h c (by simp)
    rw [lowerGo]
    simp only [decodeRune, hc, if_true]
    simp only [Nat.sub_self]
    rw [ih (fun x hx => h x (by simp [hx]))]
    simp only [lowerStr, List.map_cons]
    have : encodeRune (runeLower c.toNat) = [lowerChar c] := by
      have h127 : c.toNat ≤ 127 := by omega
      simp only [runeLower, h127, if_true]
      by_cases hu : 65 ≤ c.toNat ∧ c.toNat ≤ 90
      · have hl : lowerChar c = Char.ofNat (c.toNat + 32) := by
          have : 'A' ≤ c ∧ c ≤ 'Z' := by
            constructor
            · exact (char_le_iff _ _).2 hu.1
            · exact (char_le_iff _ _).2 hu.2
          simp [lowerChar, this]
        simp only [hu, and_self, if_true, hl]
        have : c.toNat + 32 < 128 := by omega
        simp [encodeRune, this]
      · have hl : lowerChar c = c := by
          have : ¬ ('A' ≤ c ∧ c ≤ 'Z') := by
            intro ⟨h1, h2⟩
            apply hu
            exact ⟨(char_le_iff _ _).1 h1, (char_le_iff _ _).1 h2⟩
          simp [lowerChar, this]
        simp only [hu, if_false, hl]
        simp [encodeRune, hc, Char.ofNat_toNat]
    rw [this]; rfl

/-! ### S12: from the lexemes of the spec to typed lexemes -/

def toTok (t : Str) : Tok :=
  match classify t with
  | .kw b => .kw (lowerStr t) b
  | .sym b => .sym t b
  | _ => .word (lowerStr t)

def typed (L : List Lexeme) : List Lx := L.map fun l => (l.1, toTok l.2)

theorem lookup_mem {tbl : List (Str × Str)} {t b : Str} (h : lookup tbl t = some b) : (t, b) ∈ tbl := by
  simp only [lookup, Option.map_eq_some_iff] at h
  obtain ⟨p, hp, hb⟩ := h
  have h1 := List.mem_of_find?_eq_some hp
  have h2 := List.find?_some hp
  simp only [beq_iff_eq] at h2
  obtain ⟨p1, p2⟩ := p
  simp only at h2 hb; subst h2; subst hb; exact h1

theorem lookup_none {tbl : List (Str × Str)} {t : Str} (h : lookup tbl t = none) : ∀ p ∈ tbl, p.1 ≠ t := by
  simp only [lookup, Option.map_eq_none_iff, List.find?_eq_none, beq_iff_eq] at h
  exact h

theorem ofNat_toNat_small (n : Nat) (h : n < 200) : (Char.ofNat n).toNat = n := by
  have hv : n.isValidChar := Or.inl (by omega)
  simp [Char.ofNat, hv, Char.ofNatAux, Char.toNat]

theorem lower_letter_plain (d : Char) (h1 : 97 ≤ d.toNat) (h2 : d.toNat ≤ 122) : isPlainChar d = true := by
  have hne : ∀ x : Char, (x.toNat < 97 ∨ 122 < x.toNat) → (d == x) = false := by
    intro x hx
    simp only [beq_eq_false_iff_ne]
    intro e; subst e; omega
  simp only [isPlainChar, isOpChar, Bool.and_eq_true, decide_eq_true_eq, Bool.not_eq_true', Bool.or_eq_false_iff]
  refine ⟨⟨⟨by omega, by omega⟩, ?_⟩, ?_⟩
  · refine ⟨⟨⟨⟨⟨⟨⟨?_, ?_⟩, ?_⟩, ?_⟩, ?_⟩, ?_⟩, ?_⟩, ?_⟩ <;> exact hne _ (by decide)
  · refine ⟨⟨⟨⟨⟨?_, ?_⟩, ?_⟩, ?_⟩, ?_⟩, ?_⟩ <;> exact hne _ (by decide)

theorem lowerChar_plain {c : Char} (h : isPlainChar c = true) : isPlainChar (lowerChar c) = true := by
  unfold lowerChar
  split
  · rename_i hu
    have h1 := (char_le_iff _ _).1 hu.1
    have h2 := (char_le_iff _ _).1 hu.2
    have e : (Char.ofNat (c.toNat + 32)).toNat = c.toNat + 32 := by
      have : ('Z' : Char).toNat = 90 := rfl
      exact ofNat_toNat_small _ (by omega)
    exact lower_letter_plain _ (by rw [e]; have : ('A' : Char).toNat = 65 := rfl; omega)
      (by rw [e]; have : ('Z' : Char).toNat = 90 := rfl; omega)
  · exact h

theorem classify_kw {t b : Str} (h : classify t = .kw b) : (lowerStr t, b) ∈ keywords := by
  unfold classify at h
  split at h
  · rename_i b' hb; injection h with h; subst h; exact lookup_mem hb
  · split at h
    · cases h
    · split at h <;> cases h

theorem classify_sym {t b : Str} (h : classify t = .sym b) : (t, b) ∈ symbols ∧ lookup keywords (lowerStr t) = none := by
  unfold classify at h
  split at h
  · cases h
  · rename_i hk
    split at h
    · rename_i b' hb; injection h with h; subst h; exact ⟨lookup_mem hb, hk⟩
    · split at h <;> cases h

theorem classify_word {t : Str} (h : classify t = .word) :
    t ≠ [] ∧ (∀ c ∈ t, isPlainChar c = true) ∧ lookup keywords (lowerStr t) = none := by
  unfold classify at h
  split at h
  · cases h
  · rename_i hk
    split at h
    · cases h
    · split at h
      · rename_i hp
        simp only [Bool.and_eq_true, Bool.not_eq_true', List.isEmpty_eq_false_iff, List.all_eq_true] at hp
        exact ⟨hp.1, hp.2, hk⟩
      · cases h

theorem toTok_ok {t : Str} (h : classify t ≠ .bad) : TokOK (toTok t) := by
  unfold toTok
  cases hc : classify t with
  | kw b => exact classify_kw hc
  | sym b => exact (classify_sym hc).1
  | word =>
    obtain ⟨h1, h2, h3⟩ := classify_word hc
    refine ⟨by simpa [lowerStr] using h1, ?_, fun p hp => lookup_none h3 p hp⟩
    intro c hc'
    simp only [lowerStr, List.mem_map] at hc'
    obtain ⟨d, hd, rfl⟩ := hc'
    exact lowerChar_plain (h2 d hd)
  | bad => exact absurd hc h

theorem toTok_base (t : Str) : (toTok t).base = baseToken t := by
  unfold toTok baseToken
  cases classify t <;> rfl

theorem pairOK_toTok {t1 t2 : Str} {w : Str} (h : pairOK (classify t1) w (classify t2) = true) :
    pairOKt (toTok t1) w (toTok t2) = true ∧ classify t2 ≠ .bad := by
  unfold toTok
  cases h1 : classify t1 <;> cases h2 : classify t2 <;> simp_all [pairOK, pairOKt]

theorem chain_of_pairs : ∀ (rest : List Lexeme) (t0 : Str), classify t0 ≠ .bad →
    (∀ l ∈ rest, ∀ c ∈ l.1, isWs c = true) → lexPairsOK (classify t0) rest = true →
    ChainOK (some (toTok t0)) (typed rest) := by
  intro rest
  induction rest with
  | nil =>
    intro t0 h0 _ h
    intro p hp
    injection hp with hp; subst hp
    unfold toTok
    cases hc : classify t0 <;> simp_all [lexPairsOK, Tok.isKw]
  | cons l rest ih =>
    intro t0 h0 hws h
    obtain ⟨w, t⟩ := l
    simp only [lexPairsOK, Bool.and_eq_true] at h
    obtain ⟨hp, hne⟩ := pairOK_toTok h.1
    exact ⟨hws (w, t) (by simp), toTok_ok hne, hp, ih t hne (fun l hl => hws l (by simp [hl])) h.2⟩

theorem chain_of_lexOK {L : List Lexeme} {trail : Str} (h : lexOK L trail = true) :
    ChainOK none (typed L) ∧ (∀ c ∈ trail, isWs c = true) := by
  simp only [lexOK, Bool.and_eq_true, List.all_eq_true] at h
  obtain ⟨⟨h1, h2⟩, h3⟩ := h
  refine ⟨?_, h2⟩
  cases L with
  | nil => intro p hp; cases hp
  | cons l rest =>
    obtain ⟨w, t⟩ := l
    simp only [Bool.and_eq_true] at h3
    obtain ⟨h4, h5⟩ := h3
    have hne : classify t ≠ .bad := by intro e; rw [e] at h4; simp at h4
    refine ⟨fun c hc => h1 (w, t) (by simp) c hc, toTok_ok hne, ?_, chain_of_pairs rest t hne (fun l hl => h1 l (by simp [hl])) h5⟩
    intro hk
    unfold toTok at hk ⊢
    cases hc : classify t with
    | kw b =>
      rw [hc] at h4
      simp only [Bool.or_eq_true, beq_iff_eq, Bool.not_eq_true', List.isEmpty_eq_false_iff] at h4
      simpa [Tok.base] using h4
    | sym b => simp [hc, Tok.isKw] at hk
    | word => simp [hc, Tok.isKw] at hk
    | bad => exact absurd hc hne

theorem typed_bases (L : List Lexeme) : (typed L).map (fun l => l.2.base) = baseTokens L := by
  simp [typed, baseTokens, toTok_base]

theorem symbols_lower : ∀ p ∈ symbols, lowerStr p.1 = p.1 := by decide

theorem lowerStr_ws {w : Str} (h : ∀ c ∈ w, isWs c = true) : lowerStr w = w := by
  induction w with
  | nil => rfl
  | cons c w ih =>
    have hc := h c (by simp)
    have : lowerChar c = c := by
      simp only [isWs, Bool.or_eq_true, beq_iff_eq] at hc
      rcases hc with ((hc | hc) | hc) | hc <;> subst hc <;> decide
    simp only [lowerStr, List.map_cons, this]
    congr 1
    exact ih (fun x hx => h x (by simp [hx]))

theorem spell_nil_toTok {t : Str} (h : classify t ≠ .bad) : spell [] (toTok t) = lowerStr t := by
  unfold toTok
  cases hc : classify t with
  | kw b => simp [spell]
  | sym b => simp only [spell, List.contains_nil, Bool.false_eq_true, if_false]; exact (symbols_lower _ (classify_sym hc).1).symm
  | word => rfl
  | bad => exact absurd hc h

theorem isDoneKw_nil (x : Tok) : isDoneKw [] x = false := by cases x <;> rfl

/-- the text of the lexemes, in lower case, is the rendering of the typed lexemes before any rewrite -/
theorem render_nil_typed : ∀ (L : List Lexeme) (trail : Str), (∀ l ∈ L, (∀ c ∈ l.1, isWs c = true) ∧ classify l.2 ≠ .bad) →
    (∀ c ∈ trail, isWs c = true) → render [] false (typed L) trail = lowerStr (flatten L trail) := by
  intro L
  induction L with
  | nil => intro trail _ htr; simp [typed, render, flatten, lowerStr_ws htr]
  | cons l rest ih =>
    intro trail h htr
    obtain ⟨w, t⟩ := l
    obtain ⟨hw, hc⟩ := h (w, t) (by simp)
    have := ih trail (fun l hl => h l (by simp [hl])) htr
    simp only [typed, List.map_cons, render, isDoneKw_nil, Bool.or_false, Bool.false_eq_true, if_false] at this ⊢
    rw [this, spell_nil_toTok hc]
    simp only [flatten, List.flatMap_cons, lowerStr, List.map_append, List.append_assoc]
    rw [show List.map lowerChar w = lowerStr w from rfl, lowerStr_ws hw]

/-! ### S13: the spelling theorems -/

theorem plain_ascii {c : Char} (h : isPlainChar c = true) : c.toNat < 128 := by
  simp only [isPlainChar, Bool.and_eq_true, decide_eq_true_eq] at h
  omega

theorem sym_ascii {c : Char} (h : isSymChar c = true) : c.toNat < 128 := by
  simp only [isSymChar, isOpChar, Bool.or_eq_true, beq_iff_eq] at h
  rcases h with (((((((((((((h|h)|h)|h)|h)|h)|h)|h)|h)|h)|h)|h)|h)|h) <;> subst h <;> decide

theorem ws_ascii {c : Char} (h : isWs c = true) : c.toNat < 128 := by
  simp only [isWs, Bool.or_eq_true, beq_iff_eq] at h
  rcases h with ((h | h) | h) | h <;> subst h <;> decide

theorem lowerChar_ascii_inv {c : Char} (h : (lowerChar c).toNat < 128) : c.toNat < 128 := by
  unfold lowerChar at h
  split at h
  · rename_i hu
    have := (char_le_iff _ _).1 hu.2
    have : ('Z' : Char).toNat = 90 := rfl
    omega
  · exact h

theorem text_ascii {t : Str} (h : classify t ≠ .bad) : ∀ c ∈ t, c.toNat < 128 := by
  intro c hc
  cases hcl : classify t with
  | kw b =>
    obtain ⟨_, h2, _, _⟩ := keywords_facts _ (classify_kw hcl)
    apply lowerChar_ascii_inv
    exact plain_ascii (List.all_eq_true.1 h2 _ (List.mem_map.2 ⟨c, hc, rfl⟩))
  | sym b =>
    obtain ⟨_, h2, _, _⟩ := symbols_facts _ (classify_sym hcl).1
    exact sym_ascii (List.all_eq_true.1 h2 c hc)
  | word => exact plain_ascii ((classify_word hcl).2.1 c hc)
  | bad => exact absurd hcl h

theorem lexOK_items {L : List Lexeme} {trail : Str} (h : lexOK L trail = true) :
    ∀ l ∈ L, (∀ c ∈ l.1, isWs c = true) ∧ classify l.2 ≠ .bad := by
  obtain ⟨hch, _⟩ := chain_of_lexOK h
  simp only [lexOK, Bool.and_eq_true, List.all_eq_true] at h
  obtain ⟨⟨h1, _⟩, h3⟩ := h
  intro l hl
  refine ⟨h1 l hl, ?_⟩
  -- every lexeme of an accepted list is classified
  have : ∀ (rest : List Lexeme) (c0 : LexClass), lexPairsOK c0 rest = true → ∀ l ∈ rest, classify l.2 ≠ .bad := by
    intro rest
    induction rest with
    | nil => intro _ _ l hl; cases hl
    | cons a rest ih =>
      intro c0 h l hl
      obtain ⟨w, t⟩ := a
      simp only [lexPairsOK, Bool.and_eq_true] at h
      rcases List.mem_cons.1 hl with e | e
      · subst e
        intro hb; simp only at hb; rw [hb] at h
        cases c0 <;> simp [pairOK] at h
      · exact ih _ h.2 l e
  cases L with
  | nil => cases hl
  | cons a rest =>
    obtain ⟨w, t⟩ := a
    simp only [Bool.and_eq_true] at h3
    rcases List.mem_cons.1 hl with e | e
    · subst e
      intro hb; simp only at hb; rw [hb] at h3; simp at h3
    · exact this rest _ h3.2 l e

theorem flatten_ascii {L : List Lexeme} {trail : Str} (h : lexOK L trail = true) :
    ∀ c ∈ flatten L trail, c.toNat < 128 := by
  have hitems := lexOK_items h
  obtain ⟨_, htr⟩ := chain_of_lexOK h
  intro c hc
  simp only [flatten, List.mem_append, List.mem_flatMap] at hc
  rcases hc with ⟨l, hl, hc⟩ | hc
  · rcases hc with hc | hc
    · exact ws_ascii ((hitems l hl).1 c hc)
    · exact text_ascii (hitems l hl).2 c hc
  · exact ws_ascii (htr c hc)

/-- what `SanitizeUserInput` makes of a text written with documented spellings: every operator by
    its base symbol, the white space around the word forms gone -/
theorem sanitize_lex {L : List Lexeme} {trail : Str} (h : lexOK L trail = true) :
    sanitizeWith (descs.map RD.rule) (flatten L trail) = render (doneAll descs []) false (typed L) trail := by
  obtain ⟨hch, htr⟩ := chain_of_lexOK h
  unfold sanitizeWith lower
  rw [lowerGo_ascii _ (flatten_ascii h), ← render_nil_typed L trail (lexOK_items h) htr]
  exact chain_steps descs [] descs_ok (typed L) trail hch htr

/-- **spelling**, lexical form (clause "every operator spelling listed in the help text, word forms
    separated by whitespace included, is accepted and means the same as its symbol"): for every text
    written with documented spellings — any of them for every operator, letters in any case, any
    amount of blank / tab / newline / carriage return wherever white space is optional and at least
    one where a word form requires it (`lexOK`) — sanitising and tokenizing yields exactly the tokens
    of the symbol form. (Words must be shorter than the 64 KiB scanner limit.) -/
theorem spelling_tokens {L : List Lexeme} {trail : Str} (h : lexOK L trail = true)
    (hlen : ∀ l ∈ L, l.2.length < maxToken) :
    tokenize (sanitizeWith (descs.map RD.rule) (flatten L trail)) = (baseTokens L, false) := by
  obtain ⟨hch, htr⟩ := chain_of_lexOK h
  rw [sanitize_lex h, ← typed_bases]
  apply tokenize_rendered _ doneAll_allDone trail htr (typed L) none false hch
  intro l hl t ht
  simp only [typed, List.mem_map] at hl
  obtain ⟨l0, hl0, rfl⟩ := hl
  simp only at ht
  have := hlen l0 hl0
  unfold toTok at ht
  cases hc : classify l0.2 <;> rw [hc] at ht <;> simp at ht
  all_goals (subst ht; simpa [lowerStr] using this)

/-- **spelling** (same clause, at the level of meaning): if the symbol form of such a text is a way of
    writing the tree `a` in the grammar of the help text, then the text itself is accepted and parsed
    to `a` by the rules of the table as they are in the source (`rules`), its canonical string is the
    symbol form joined by blanks, and that string is accepted with the same tree again. -/
theorem spelling {L : List Lexeme} {trail : Str} {a : Ast} (h : lexOK L trail = true)
    (hlen : ∀ l ∈ L, l.2.length < maxToken) (ha : Prints 0 a (baseTokens L)) :
    ∃ rs, rules = some rs ∧
      tokenize (sanitizeWith rs (flatten L trail)) = (baseTokens L, false) ∧
      parseTokens (tokenize (sanitizeWith rs (flatten L trail))).1 = .ok (some a) ∧
      parseTokens (tokenize (joinTokens (baseTokens L))).1 = .ok (some a) := by
  refine ⟨_, rules_eq, spelling_tokens h hlen, ?_, ?_⟩
  · rw [spelling_tokens h hlen]; exact parse_print ha
  · have := canonical_idem (sanitizeWith (descs.map RD.rule) (flatten L trail))
    rw [spelling_tokens h hlen] at this
    rw [this]; exact parse_print ha
end C10


namespace C10

/-! ### S14: preparing the canonical string again -/

/-- tokens for which a second `Prepare` provably returns the same canonical string: base symbols
    and lower-case plain words that are not spelled like a word form -/
def CleanTok (t : Str) : Prop := t ∈ bases ∨ (classify t = .word ∧ lowerStr t = t ∧ t.length < maxToken)

def canonLex : List Str → List Lexeme
  | [] => []
  | t :: ts => ([], t) :: ts.map fun u => ([' '], u)

theorem bases_classify : ∀ b ∈ bases, classify b = .sym b := by decide

theorem clean_classify {t : Str} (h : CleanTok t) : (classify t = .sym t ∨ classify t = .word) ∧ baseToken t = t := by
  rcases h with h | ⟨h1, h2, _⟩
  · have := bases_classify t h
    exact ⟨Or.inl this, by simp [baseToken, this]⟩
  · exact ⟨Or.inr h1, by simp [baseToken, h1, h2]⟩

theorem flatten_canonLex : ∀ toks : List Str, flatten (canonLex toks) [] = joinTokens toks
  | [] => rfl
  | [t] => by simp [canonLex, flatten, joinTokens]
  | t :: u :: rest => by
    have ih := flatten_canonLex (u :: rest)
    simp only [canonLex, flatten, List.flatMap_cons, List.map_cons, List.append_nil, List.nil_append] at ih ⊢
    rw [joinTokens, ← ih]
    · simp
    · simp

theorem pairs_clean : ∀ (ts : List Str) (c : LexClass), (c = .word ∨ ∃ b, c = .sym b) → (∀ t ∈ ts, CleanTok t) →
    lexPairsOK c (ts.map fun u => ([' '], u)) = true := by
  intro ts
  induction ts with
  | nil => intro c hc _; rcases hc with rfl | ⟨b, rfl⟩ <;> rfl
  | cons t ts ih =>
    intro c hc h
    have ht := (clean_classify (h t (by simp))).1
    simp only [List.map_cons, lexPairsOK, Bool.and_eq_true]
    constructor
    · rcases hc with rfl | ⟨b, rfl⟩ <;> rcases ht with e | e <;> rw [e] <;> simp [pairOK]
    · apply ih _ _ (fun u hu => h u (by simp [hu]))
      rcases ht with e | e
      · exact Or.inr ⟨t, e⟩
      · exact Or.inl e

theorem lexOK_canonLex (toks : List Str) (h : ∀ t ∈ toks, CleanTok t) : lexOK (canonLex toks) [] = true := by
  cases toks with
  | nil => rfl
  | cons t ts =>
    have ht := (clean_classify (h t (by simp))).1
    simp only [lexOK, canonLex, List.all_cons, List.all_nil, Bool.and_true, List.all_map, Bool.and_eq_true]
    refine ⟨⟨?_, ?_⟩, ?_⟩
    · trivial
    · simp only [List.all_eq_true]; intro u _; rfl
    · constructor
      · rcases ht with e | e <;> rw [e]
      · apply pairs_clean ts _ _ (fun u hu => h u (by simp [hu]))
        rcases ht with e | e
        · exact Or.inr ⟨t, e⟩
        · exact Or.inl e

theorem baseTokens_canonLex (toks : List Str) (h : ∀ t ∈ toks, CleanTok t) : baseTokens (canonLex toks) = toks := by
  cases toks with
  | nil => rfl
  | cons t ts =>
    simp only [baseTokens, canonLex, List.map_cons, List.map_map]
    rw [(clean_classify (h t (by simp))).2]
    congr 1
    have : ∀ (us : List Str), (∀ u ∈ us, CleanTok u) → List.map ((fun l : Lexeme => baseToken l.2) ∘ fun u => ([' '], u)) us = us := by
      intro us
      induction us with
      | nil => intro _; rfl
      | cons u us ih =>
        intro hu
        simp only [List.map_cons, Function.comp]
        rw [(clean_classify (hu u (by simp))).2]
        congr 1
        exact ih (fun v hv => hu v (by simp [hv]))
    exact this ts (fun u hu => h u (by simp [hu]))

/-- **canonical_again_partial** (clause "canonicalising it again changes nothing", through the whole
    of `prepConditionArg`, i.e. including the second `SanitizeUserInput`): if every token of the
    canonical string is a base symbol or a lower-case plain word that is not spelled like a word form,
    then sanitising and tokenizing the canonical string gives the same tokens, hence the same
    canonical string and the same tree. Partial: the hypothesis excludes tokens such as `and`, `or`,
    `l`, `g` in value position (see `keyword_value_not_canonical` below for what happens then). -/
theorem canonical_again_partial (toks : List Str) (h : ∀ t ∈ toks, CleanTok t) :
    ∃ rs, rules = some rs ∧ tokenize (sanitizeWith rs (joinTokens toks)) = (toks, false) := by
  refine ⟨_, rules_eq, ?_⟩
  have := spelling_tokens (lexOK_canonLex toks h) (by
    intro l hl
    cases toks with
    | nil => cases hl
    | cons t ts =>
      have hlen : ∀ u, CleanTok u → u.length < maxToken := by
        intro u hu
        rcases hu with hu | ⟨_, _, hu⟩
        · revert u; decide
        · exact hu
      simp only [canonLex, List.mem_cons, List.mem_map] at hl
      rcases hl with rfl | ⟨u, hu, rfl⟩
      · exact hlen _ (h t (by simp))
      · exact hlen _ (h u (by simp [hu])))
  rw [flatten_canonLex, baseTokens_canonLex toks h] at this
  exact this

theorem lowerChar_idem (c : Char) : lowerChar (lowerChar c) = lowerChar c := by
  unfold lowerChar
  split
  · rename_i hu
    have h1 := (char_le_iff _ _).1 hu.1
    have h2 := (char_le_iff _ _).1 hu.2
    have hA : ('A' : Char).toNat = 65 := rfl
    have hZ : ('Z' : Char).toNat = 90 := rfl
    have e : (Char.ofNat (c.toNat + 32)).toNat = c.toNat + 32 := ofNat_toNat_small _ (by omega)
    have : ¬ ('A' ≤ Char.ofNat (c.toNat + 32) ∧ Char.ofNat (c.toNat + 32) ≤ 'Z') := by
      intro ⟨_, h4⟩
      have := (char_le_iff _ _).1 h4
      omega
    simp [this]
  · rename_i hu; simp [hu]

theorem lowerStr_idem (t : Str) : lowerStr (lowerStr t) = lowerStr t := by
  simp [lowerStr, lowerChar_idem]

theorem word_clean {t : Str} (h : classify t = .word) (hlen : t.length < maxToken) : CleanTok (lowerStr t) := by
  obtain ⟨h1, h2, h3⟩ := classify_word h
  right
  have hpl : ∀ c ∈ lowerStr t, isPlainChar c = true := by
    intro c hc
    simp only [lowerStr, List.mem_map] at hc
    obtain ⟨d, hd, rfl⟩ := hc
    exact lowerChar_plain (h2 d hd)
  have hne : lowerStr t ≠ [] := by simpa [lowerStr] using h1
  refine ⟨?_, lowerStr_idem t, by simpa [lowerStr] using hlen⟩
  unfold classify
  rw [lowerStr_idem, h3]
  have hs : lookup symbols (lowerStr t) = none := by
    cases hl : lookup symbols (lowerStr t) with
    | none => rfl
    | some b =>
      obtain ⟨_, h2', _, _⟩ := symbols_facts _ (lookup_mem hl)
      cases hlt : lowerStr t with
      | nil => exact absurd hlt hne
      | cons c r =>
        have := hpl c (by rw [hlt]; simp)
        have h2'' : isSymChar c = true := by
          have := List.all_eq_true.1 h2' c (by simp only; rw [hlt]; simp)
          exact this
        rw [sym_not_plain h2''] at this; cases this
  simp only [hs]
  have : (!(lowerStr t).isEmpty && (lowerStr t).all isPlainChar) = true := by
    simp only [Bool.and_eq_true, Bool.not_eq_true', List.isEmpty_eq_false_iff, List.all_eq_true]
    exact ⟨hne, hpl⟩
  simp [this]

/-- for texts written with documented spellings the hypothesis holds: a second `Prepare` returns the
    same canonical string -/
theorem canonical_again_lex {L : List Lexeme} {trail : Str} (h : lexOK L trail = true)
    (hlen : ∀ l ∈ L, l.2.length < maxToken) :
    tokenize (sanitizeWith (descs.map RD.rule) (joinTokens (baseTokens L))) = (baseTokens L, false) := by
  have hclean : ∀ t ∈ baseTokens L, CleanTok t := by
    intro t ht
    simp only [baseTokens, List.mem_map] at ht
    obtain ⟨l, hl, rfl⟩ := ht
    have hc := (lexOK_items h l hl).2
    unfold baseToken
    cases hcl : classify l.2 with
    | kw b => exact Or.inl (bases_complete.1 _ (classify_kw hcl))
    | sym b => exact Or.inl (bases_complete.2 _ (classify_sym hcl).1)
    | word => exact word_clean hcl (hlen l hl)
    | bad => exact absurd hcl hc
  obtain ⟨rs, hrs, hres⟩ := canonical_again_partial _ hclean
  have : rs = descs.map RD.rule := by
    have := hrs.symm.trans rules_eq
    injection this
  rw [← this]; exact hres
end C10

namespace C10

theorem attributes_match_source : Gen.Facts.c10_parser_attributes.map String.toList = attributes := by decide
theorem comparators_match_source :
    Gen.Facts.c10_parser_comparators.map String.toList = comparators.map (fun c => '"' :: c ++ ['"']) := by decide

def joinComma : List Str → Str
  | [] => []
  | [a] => a
  | a :: rest => a ++ ',' :: joinComma rest

theorem documented_matches_help :
    Gen.Facts.c10_help_spellings.map String.toList =
      documented.map (fun p => p.1.toList ++ ':' :: joinComma (p.2.map String.toList)) := by decide

def exL : List Lexeme :=
  [([], "dport".toList), ([' '], "EQ".toList), (['\t'], "80".toList), ([' ', '\n'], "and".toList), ([' '], "not".toList),
   ([' '], "{".toList), ([], "proto".toList), ([], "===".toList), ([], "TCP".toList), ([' '], "||".toList),
   ([], "sip".toList), ([' '], "-ne".toList), ([' '], "::1".toList), ([], "]".toList)]

def exAst : Ast :=
  .and (.cond "dport".toList "=".toList "80".toList)
    (.not (.or (.cond "proto".toList "=".toList "tcp".toList) (.cond "sip".toList "!=".toList "::1".toList)))

example : lexOK exL [' '] = true := by decide
example : specParse (baseTokens exL) = some exAst := by decide
/-- the hypotheses of `spelling` are satisfiable on a text that uses word forms in both cases, tabs and
    newlines, doubled and tripled symbols, mixed braces and "and not" -/
example : ∃ rs, rules = some rs ∧ parseTokens (tokenize (sanitizeWith rs (flatten exL [' ']))).1 = .ok (some exAst) := by
  have hl : ∀ l ∈ exL, l.2.length < maxToken := by decide
  obtain ⟨rs, h1, _, h3, _⟩ := spelling (L := exL) (trail := [' ']) (a := exAst) (by decide) hl
    ((specParse_iff _ _).1 (by decide))
  exact ⟨rs, h1, h3⟩

/-- and the model, evaluated on that text, agrees -/
example : sanitizeWith (descs.map RD.rule) (flatten exL [' ']) = "dport=80&!(proto=tcp |sip!=::1) ".toList := by decide
end C10

namespace C10

def rsNow : List Rule := descs.map RD.rule

/-- outside the hypothesis of `canonical_again_partial`: a value spelled like a word form and written
    without white space is accepted by the parser, but its canonical string is rewritten by the second
    `SanitizeUserInput` (only observable for host names that resolve: every other attribute rejects
    such a value later). -/
theorem keyword_value_not_canonical :
    ∃ toks toks2 a, tokenize (sanitizeWith rsNow "sip=or&sip=1".toList) = (toks, false) ∧
      parseTokens toks = .ok (some a) ∧
      tokenize (sanitizeWith rsNow (joinTokens toks)) = (toks2, false) ∧ toks2 ≠ toks := by
  have h1 : sanitizeWith rsNow "sip=or&sip=1".toList = "sip=or&sip=1".toList := by decide
  have h2 : tokenize "sip=or&sip=1".toList = (["sip", "=", "or", "&", "sip", "=", "1"].map String.toList, false) := by decide
  have h3 : parseTokens (["sip", "=", "or", "&", "sip", "=", "1"].map String.toList) =
      .ok (some (.and (.cond "sip".toList "=".toList "or".toList) (.cond "sip".toList "=".toList "1".toList))) := by decide
  have h4 : joinTokens (["sip", "=", "or", "&", "sip", "=", "1"].map String.toList) = "sip = or & sip = 1".toList := by decide
  have h5 : sanitizeWith rsNow "sip = or & sip = 1".toList = "sip =|& sip = 1".toList := by decide
  have h6 : tokenize "sip =|& sip = 1".toList = (["sip", "=", "|", "&", "sip", "=", "1"].map String.toList, false) := by decide
  refine ⟨["sip", "=", "or", "&", "sip", "=", "1"].map String.toList,
    ["sip", "=", "|", "&", "sip", "=", "1"].map String.toList, _, ?_, h3, ?_, by decide⟩
  · rw [h1, h2]
  · rw [h4, h5, h6]

/-- the table as it was before the `fix:` commit: the rule for "not" is `(^|\s+)not\s+` (prefix group
    without the operator alternative); the Go map iteration applied it before or after `\s+and\s+` -/
def oldNot : Rule := ⟨Atom.pre [] :: notTail Atom.ws, ⟨false, ['!']⟩⟩
def oldAnd : Rule := kwRule "and".toList tAnd

/-- the replayed defect: in both orders "x and not y" loses its meaning (the two sanitised texts
    differ, and the tokens of both are rejected); with the table of the fixed code it is accepted -/
theorem old_table_rejects_and_not :
    sanitizeWith [oldAnd, oldNot] "dport=80 and not sip=1".toList = "dport=80&not sip=1".toList ∧
    sanitizeWith [oldNot, oldAnd] "dport=80 and not sip=1".toList = "dport=80 and!sip=1".toList ∧
    tokenize "dport=80&not sip=1".toList = (["dport", "=", "80", "&", "not", "sip", "=", "1"].map String.toList, false) ∧
    tokenize "dport=80 and!sip=1".toList = (["dport", "=", "80", "and", "!", "sip", "=", "1"].map String.toList, false) ∧
    (parseTokens (["dport", "=", "80", "&", "not", "sip", "=", "1"].map String.toList)).isErr = true ∧
    (parseTokens (["dport", "=", "80", "and", "!", "sip", "=", "1"].map String.toList)).isErr = true ∧
    sanitizeWith rsNow "dport=80 and not sip=1".toList = "dport=80&!sip=1".toList ∧
    tokenize "dport=80&!sip=1".toList = (["dport", "=", "80", "&", "!", "sip", "=", "1"].map String.toList, false) ∧
    (parseTokens (["dport", "=", "80", "&", "!", "sip", "=", "1"].map String.toList)).isOk = true := by
  refine ⟨by decide, by decide, by decide, by decide, by decide, by decide, by decide, by decide, by decide⟩

/-- outside `lexOK` (a word form glued to a brace): no promise, and indeed rejected -/
example : lexOK [([], "dport".toList), ([], "=".toList), ([], "80".toList), ([' '], "and".toList), ([], "(".toList),
    ([], "sip".toList), ([], "=".toList), ([], "::1".toList), ([], ")".toList)] [] = false := by decide
example : sanitizeWith rsNow "dport=80 and(sip=::1)".toList = "dport=80 and(sip=::1)".toList := by decide
example : (parseTokens (["dport", "=", "80", "and", "(", "sip", "=", "::1", ")"].map String.toList)).isErr = true := by decide
end C10

