import GoProbeModel.Model.C07

/-!
C07 — property theorems: every compressor restores exactly the bytes it was given.

PARTIAL BY NATURE. The LZ4 and zstd algorithms are third-party library code. They are the
parameter `Lib` of the model and the round-trip theorems ASSUME the library contract `LibOK`
(`dec (enc x) = x`, an encoded block is never empty and never longer than the library's own bound).
That contract is validated — not proved — by the correspondence harness on every generated input,
in the cgo and in the pure-Go build. What IS proved, for ALL inputs, ALL scratch buffers (any
length, capacity, content), all levels and every library:

* `null_roundtrip`            the null encoder, entirely;
* `compress_scratch_irrelevant`, `wrapper_ignores_scratch`
                              the caller's scratch buffer has no influence on what is written;
* `count_is_bytes_emitted`    the reported count is the number of bytes that reached the writer —
                              also when the writer fails half-way, and 0 when there is none;
* `wrapper_contract`          given the library contract, Decompress ∘ Compress = id for every wrapper,
                              every length including 0, every scratch buffer;
* `wrappers_never_panic`      no slice expression / `&buf[0]` of the wrappers can panic;
* `zstd_native_original_prepends_scratch` the defect that was repaired, exhibited in the model.
-/
namespace C07

/-! ## the library contract (assumed for the third-party codecs, validated by the harness) -/

structure LibOK (lib : Lib) : Prop where
  roundtrip : ∀ lvl x, lib.dec (lib.enc lvl x) = some x
  nonempty : ∀ lvl x, lib.enc lvl x ≠ []
  bounded : ∀ lvl x, (lib.enc lvl x).length ≤ lib.bound x.length

/-- the reader's library decodes what the writer's library encoded (C02: two different builds) -/
def Compatible (libW libR : Lib) : Prop := ∀ lvl x, libR.dec (libW.enc lvl x) = some x

theorem LibOK.compatible {lib : Lib} (h : LibOK lib) : Compatible lib lib := h.roundtrip

/-! ## slices -/

theorem take_append_drop_self (z rest : Bytes) : (z ++ rest).take z.length = z := by
  simp

theorem take_take_prefix (z rest : Bytes) (m : Nat) (h : z.length ≤ m) :
    ((z ++ rest).take m).take z.length = z := by
  rw [List.take_take, Nat.min_eq_left h]; simp

/-- after `buf = buf[:c]` (with the re-allocation in front of it) the slice has length `c` and an
    array of at least `c` bytes — whatever the caller passed -/
theorem sizeScratch_spec (buf : Slice) (c : Nat) :
    ∃ s, sizeScratch buf c = .ok s ∧ s.len = c ∧ c ≤ s.arr.length := by
  unfold sizeScratch
  by_cases h : buf.cap < c
  · refine ⟨⟨List.replicate (2 * c) 0, c⟩, ?_, rfl, by simp; omega⟩
    have h2 : c ≤ 2 * c := by omega
    have h' : buf.arr.length < c := h
    simp [h', Slice.make, Slice.upTo, Slice.cap, h2]
  · refine ⟨⟨buf.arr, c⟩, ?_, rfl, by simp [Slice.cap] at h; exact h⟩
    simp only [h, if_false, Slice.upTo]
    have : c ≤ buf.cap := by omega
    simp [this]

/-- the tail shared by the three bound-based wrappers: store the library's output at the front of
    the sized scratch buffer, check, re-slice, write — is just "write the library's output" -/
theorem emit_stored (s : Slice) (c : Nat) (z : Bytes) (dst : Dst) (hl : s.len = c) (hz : z.length ≤ c) :
    (if (s.store z).len < z.length then failed "compress" else do
      let out ← (s.store z).upTo z.length
      writeIfProvided dst out.toBytes) = writeIfProvided dst z := by
  have h1 : ¬ (s.store z).len < z.length := by simp [Slice.store, hl]; omega
  have h2 : z.length ≤ (s.store z).cap := by simp [Slice.store, Slice.cap]
  simp only [h1, if_false, Slice.upTo, h2, if_true]
  show writeIfProvided dst (Slice.toBytes ⟨(s.store z).arr, z.length⟩) = _
  simp [Slice.toBytes, Slice.store]

/-! ## what each Compress wrapper computes — no scratch buffer on the right-hand sides -/

theorem lz4CgoCompress_eq (lib : Lib) (lvl : Nat) (data : Bytes) (buf : Slice) (dst : Dst) :
    lz4CgoCompress lib lvl data buf dst =
      if lib.bound data.length = 0 then .panic "index out of range [0] with length 0" else
      match lib.compressInto lvl data (lib.bound data.length) with
      | none => failed "compress"
      | some z => if z.length = 0 then failed "compress" else writeIfProvided dst z := by
  obtain ⟨s, hs, hl, _⟩ := sizeScratch_spec buf (lib.bound data.length)
  unfold lz4CgoCompress
  simp only [hs, bind]
  show (Outcome.ok s).bind _ = _
  simp only [Outcome.bind, hl]
  split
  · rfl
  · cases hc : lib.compressInto lvl data (lib.bound data.length) with
    | none => rfl
    | some z =>
      have hz : z.length ≤ lib.bound data.length := by
        unfold Lib.compressInto at hc; split at hc
        · simp only [Option.some.injEq] at hc; subst hc; assumption
        · simp at hc
      simp only
      split
      · rfl
      · exact emit_stored s _ z dst hl hz

theorem lz4NativeCompress_eq (lib : Lib) (lvl : Nat) (data : Bytes) (buf : Slice) (dst : Dst) :
    lz4NativeCompress lib lvl data buf dst =
      match lib.compressInto lvl data (lib.bound data.length) with
      | none => failed "compress"
      | some z => writeIfProvided dst z := by
  obtain ⟨s, hs, hl, _⟩ := sizeScratch_spec buf (lib.bound data.length)
  unfold lz4NativeCompress
  simp only [hs, bind]
  show (Outcome.ok s).bind _ = _
  simp only [Outcome.bind, hl]
  cases hc : lib.compressInto lvl data (lib.bound data.length) with
  | none => rfl
  | some z =>
    have hz : z.length ≤ lib.bound data.length := by
      unfold Lib.compressInto at hc; split at hc
      · simp only [Option.some.injEq] at hc; subst hc; assumption
      · simp at hc
    exact emit_stored s _ z dst hl hz

theorem zstdCgoCompress_eq (lib : Lib) (lvl : Nat) (data : Bytes) (buf : Slice) (dst : Dst) :
    zstdCgoCompress lib lvl data buf dst =
      if lib.bound data.length = 0 then .panic "index out of range [0] with length 0" else
      match lib.compressInto lvl data (lib.bound data.length) with
      | none => failed "compress"
      | some z => writeIfProvided dst z := by
  obtain ⟨s, hs, hl, _⟩ := sizeScratch_spec buf (lib.bound data.length)
  unfold zstdCgoCompress
  simp only [hs, bind]
  show (Outcome.ok s).bind _ = _
  simp only [Outcome.bind, hl]
  split
  · rfl
  · cases hc : lib.compressInto lvl data (lib.bound data.length) with
    | none => rfl
    | some z =>
      have hz : z.length ≤ lib.bound data.length := by
        unfold Lib.compressInto at hc; split at hc
        · simp only [Option.some.injEq] at hc; subst hc; assumption
        · simp at hc
      exact emit_stored s _ z dst hl hz

/-- `append(buf[:0], z...)` read back is `z`, in place or re-allocated -/
theorem append_to_emptied (buf : Slice) (z : Bytes) :
    ((Slice.mk buf.arr 0).append z).toBytes = z := by
  unfold Slice.append Slice.toBytes
  split <;> simp

theorem zstdNativeCompress_eq (lib : Lib) (lvl : Nat) (data : Bytes) (buf : Slice) (dst : Dst) :
    zstdNativeCompress lib lvl data buf dst = writeIfProvided dst (lib.enc lvl data) := by
  unfold zstdNativeCompress
  simp only [Slice.upTo, Nat.zero_le, if_true, bind]
  show writeIfProvided dst ((Slice.mk buf.arr 0).append (lib.enc lvl data)).toBytes = _
  rw [append_to_emptied]

/-! ## property theorems -/

/-- **compress_scratch_irrelevant** (C07 "regardless of … any scratch buffer the caller supplies"):
    for every encoder, every library, level, input and writer, two calls that differ only in the
    scratch buffer — any lengths, capacities, contents, nil — have the same outcome: same bytes
    written, same count, same error. No assumption on the library. -/
theorem compress_scratch_irrelevant (v : Variant) (lib : Lib) (lvl : Nat) (data : Bytes) (buf buf' : Slice) (dst : Dst) :
    compress v lib lvl data buf dst = compress v lib lvl data buf' dst := by
  cases v
  · rfl
  · simp only [compress, lz4CgoCompress_eq]
  · simp only [compress, lz4NativeCompress_eq]
  · simp only [compress, zstdCgoCompress_eq]
  · simp only [compress, zstdNativeCompress_eq]

theorem compressInto_of_bounded {lib : Lib} (hb : ∀ lvl x, (lib.enc lvl x).length ≤ lib.bound x.length)
    (lvl : Nat) (data : Bytes) : lib.compressInto lvl data (lib.bound data.length) = some (lib.enc lvl data) := by
  simp [Lib.compressInto, hb lvl data]

/-- what a library wrapper does with a library that keeps its bound and never emits an empty block -/
theorem compress_eq_write {lib : Lib} (hne : ∀ lvl x, lib.enc lvl x ≠ [])
    (hb : ∀ lvl x, (lib.enc lvl x).length ≤ lib.bound x.length)
    (v : Variant) (hv : v ≠ .null) (lvl : Nat) (data : Bytes) (buf : Slice) (dst : Dst) :
    compress v lib lvl data buf dst = writeIfProvided dst (lib.enc lvl data) := by
  have hpos : lib.bound data.length ≠ 0 := by
    have := hb lvl data
    have := List.length_pos_iff.mpr (hne lvl data)
    omega
  have hlen : (lib.enc lvl data).length ≠ 0 := by
    have := List.length_pos_iff.mpr (hne lvl data); omega
  cases v
  · exact absurd rfl hv
  · simp [compress, lz4CgoCompress_eq, compressInto_of_bounded hb, hpos, hlen]
  · simp [compress, lz4NativeCompress_eq, compressInto_of_bounded hb]
  · simp [compress, zstdCgoCompress_eq, compressInto_of_bounded hb, hpos]
  · simp [compress, zstdNativeCompress_eq]

/-- **wrapper_ignores_scratch** (C07/C02): for each of the four library wrappers, every level,
    input and scratch buffer (any length, capacity and content), the bytes written to the writer
    are exactly the library's output for the input and the reported count is their length. -/
theorem wrapper_ignores_scratch {lib : Lib} (hne : ∀ lvl x, lib.enc lvl x ≠ [])
    (hb : ∀ lvl x, (lib.enc lvl x).length ≤ lib.bound x.length)
    (v : Variant) (hv : v ≠ .null) (lvl : Nat) (data : Bytes) (buf : Slice) :
    compress v lib lvl data buf .buffer = .ok ⟨lib.enc lvl data, (lib.enc lvl data).length, none⟩ := by
  rw [compress_eq_write hne hb v hv]; rfl

theorem writeIfProvided_count (dst : Dst) (b : Bytes) (r : CRes) (h : writeIfProvided dst b = .ok r) :
    r.n = r.emitted.length ∧ (dst = .nil → r = ⟨[], 0, none⟩) ∧ (dst = .buffer → r = ⟨b, b.length, none⟩) := by
  unfold writeIfProvided at h
  cases dst with
  | nil => simp at h; subst h; simp
  | buffer => simp [writeTo] at h; subst h; simp
  | limited k =>
    simp only [reduceCtorEq, if_false, writeTo] at h
    split at h
    · simp at h; subst h; simp
    · simp at h; subst h; simp; omega

theorem failed_count (kind : String) (r : CRes) (h : failed kind = .ok r) : r.n = r.emitted.length ∧ r.emitted = [] := by
  simp [failed] at h; subst h; simp

/-- **count_is_bytes_emitted** (C07 "the byte count the compressor reports equals the number of
    bytes it actually emitted"): for every encoder, library, level, input, scratch buffer and
    writer — unbounded, failing after k bytes, or absent — whenever Compress returns, the count
    equals the number of bytes that reached the writer; without a writer both are 0. -/
theorem count_is_bytes_emitted (v : Variant) (lib : Lib) (lvl : Nat) (data : Bytes) (buf : Slice) (dst : Dst)
    (r : CRes) (h : compress v lib lvl data buf dst = .ok r) :
    r.n = r.emitted.length ∧ (dst = .nil → r.n = 0 ∧ r.emitted = []) := by
  have key : ∀ b, writeIfProvided dst b = .ok r → r.n = r.emitted.length ∧ (dst = .nil → r.n = 0 ∧ r.emitted = []) := by
    intro b hb
    obtain ⟨h1, h2, _⟩ := writeIfProvided_count dst b r hb
    exact ⟨h1, fun hn => by rw [h2 hn]; simp⟩
  have keyf : ∀ k, failed k = .ok r → r.n = r.emitted.length ∧ (dst = .nil → r.n = 0 ∧ r.emitted = []) := by
    intro k hk
    obtain ⟨h1, h2⟩ := failed_count k r hk
    exact ⟨h1, fun _ => ⟨by rw [h1, h2]; rfl, h2⟩⟩
  cases v
  · -- null: `return dst.Write(data)`
    simp only [compress, nullCompress] at h
    cases dst with
    | nil => simp [writeTo] at h
    | buffer => simp [writeTo] at h; subst h; simp
    | limited k =>
      simp only [writeTo] at h
      split at h
      · simp at h; subst h; simp
      · simp at h; subst h; simp; omega
  · simp only [compress, lz4CgoCompress_eq] at h
    split at h
    · simp at h
    · split at h
      · exact keyf _ h
      · split at h
        · exact keyf _ h
        · exact key _ h
  · simp only [compress, lz4NativeCompress_eq] at h
    split at h
    · exact keyf _ h
    · exact key _ h
  · simp only [compress, zstdCgoCompress_eq] at h
    split at h
    · simp at h
    · split at h
      · exact keyf _ h
      · exact key _ h
  · simp only [compress, zstdNativeCompress_eq] at h
    exact key _ h

/-- **wrappers_never_panic**: with a library that keeps its bound and never emits an empty block,
    no slice expression or `&buf[0]` in a library wrapper's Compress can panic — for any scratch
    buffer and any writer, including none. (The null encoder dereferences its writer: it panics
    exactly when there is none, `null_needs_writer`.) -/
theorem wrappers_never_panic {lib : Lib} (hne : ∀ lvl x, lib.enc lvl x ≠ [])
    (hb : ∀ lvl x, (lib.enc lvl x).length ≤ lib.bound x.length)
    (v : Variant) (hv : v ≠ .null) (lvl : Nat) (data : Bytes) (buf : Slice) (dst : Dst) :
    (compress v lib lvl data buf dst).isPanic = false := by
  rw [compress_eq_write hne hb v hv]
  unfold writeIfProvided
  cases dst with
  | nil => simp [Outcome.isPanic]
  | buffer => simp [writeTo, Outcome.isPanic]
  | limited k => simp only [reduceCtorEq, if_false, writeTo]; split <;> rfl

theorem null_needs_writer (data : Bytes) (buf : Slice) :
    (compress .null ⟨fun _ => 0, fun _ x => x, some⟩ 0 data buf .nil).isPanic = true := rfl

/-! ### the read side -/

theorem readCompressed_exact (inp : Slice) (z trail : Bytes) (hin : inp.len = z.length) (hz : z ≠ []) :
    ∃ inp', readCompressed inp (z ++ trail) = .ok inp' ∧ inp'.len = z.length ∧ inp'.toBytes = z := by
  have hpos : 0 < z.length := List.length_pos_iff.mpr hz
  have hmin : min inp.len (z ++ trail).length = z.length := by
    simp only [List.length_append]; omega
  refine ⟨inp.store ((z ++ trail).take (min inp.len (z ++ trail).length)), ?_, by simp [Slice.store, hin], ?_⟩
  · unfold readCompressed readInto
    have h0 : inp.len ≠ 0 := by omega
    have hne : (z ++ trail).isEmpty = false := by
      cases z with
      | nil => exact absurd rfl hz
      | cons a t => rfl
    simp only [h0, if_false, hne, Bool.false_eq_true]
    simp [hin]
  · simp only [Slice.toBytes, Slice.store, hin]
    simp

theorem decodeBounded_restores (lib : Lib) (inp out : Slice) (z data : Bytes)
    (hi : inp.toBytes = z) (hd : lib.dec z = some data) (hout : data.length ≤ out.len) :
    decodeBounded lib inp out = .ok ⟨data.length, data, none⟩ := by
  unfold decodeBounded Lib.decompressInto
  simp only [hi, hd, hout, if_true]
  congr 2
  simp only [Slice.toBytes, Slice.store]
  exact take_take_prefix data _ out.len hout

/-- Decompress of any library wrapper on a stream that starts with a block `z` the library decodes
    to `data`, with `in` as long as the block and `out` at least as long as the data -/
theorem decompress_block (v : Variant) (hv : v ≠ .null) (lib : Lib) (inp out : Slice) (z data trail : Bytes)
    (hz : z ≠ []) (hd : lib.dec z = some data) (hin : inp.len = z.length) (hout : data.length ≤ out.len) :
    decompress v lib inp out (z ++ trail) = .ok ⟨data.length, data, none⟩ := by
  obtain ⟨inp', hr, hl, hb⟩ := readCompressed_exact inp z trail hin hz
  have hpos : 0 < z.length := List.length_pos_iff.mpr hz
  have hl0 : inp'.len ≠ 0 := by omega
  cases v
  · exact absurd rfl hv
  · simp only [decompress, cgoDecompress, hr, hl0, if_false]
    exact decodeBounded_restores lib inp' out z data hb hd hout
  · simp only [decompress, lz4NativeDecompress, hr]
    exact decodeBounded_restores lib inp' out z data hb hd hout
  · simp only [decompress, cgoDecompress, hr, hl0, if_false]
    exact decodeBounded_restores lib inp' out z data hb hd hout
  · simp only [decompress, zstdNativeDecompress, hr, Slice.upTo, Nat.zero_le, if_true, bind]
    show Outcome.bind (.ok _) _ = _
    simp only [Outcome.bind, hb, hd, hout, if_true]
    congr 2
    · unfold Slice.append; split <;> simp
    · unfold Slice.append Slice.toBytes
      split
      · simp only [List.take_zero, List.nil_append, Nat.zero_add]
        exact take_take_prefix data _ out.len hout
      · simp only [List.take_zero, List.nil_append]
        rw [List.take_take, Nat.min_eq_left hout]; simp

/-- **wrapper_contract_cross**: a block compressed by ANY library wrapper (any build, any scratch
    buffer, any level) is restored by ANY library wrapper whose library decodes the writer's
    library — the statement behind C02's `cross_config_read`. -/
theorem wrapper_contract_cross {libW libR : Lib} (hne : ∀ lvl x, libW.enc lvl x ≠ [])
    (hb : ∀ lvl x, (libW.enc lvl x).length ≤ libW.bound x.length) (hc : Compatible libW libR)
    (vw vr : Variant) (hvw : vw ≠ .null) (hvr : vr ≠ .null)
    (lvl : Nat) (data : Bytes) (buf inp out : Slice) (trail : Bytes)
    (hin : inp.len = (libW.enc lvl data).length) (hout : data.length ≤ out.len) :
    ∃ r, compress vw libW lvl data buf .buffer = .ok r ∧ r.err = none ∧ r.n = r.emitted.length ∧
      decompress vr libR inp out (r.emitted ++ trail) = .ok ⟨data.length, data, none⟩ :=
  ⟨_, wrapper_ignores_scratch hne hb vw hvw lvl data buf, rfl, rfl,
    decompress_block vr hvr libR inp out _ data trail (hne lvl data) (hc lvl data) hin hout⟩

/-- **wrapper_contract** (C07): given the library contract, for each of the four library wrappers,
    every level, every input — of every length including 0 — and every scratch buffer: Compress
    succeeds, reports exactly the number of bytes it emitted, and Decompress of those bytes (followed
    by anything) into a buffer at least as long as the input restores the input, byte for byte.
    Without a writer (`dst == nil`) nothing is emitted and the count is 0. -/
theorem wrapper_contract {lib : Lib} (h : LibOK lib) (v : Variant) (hv : v ≠ .null)
    (lvl : Nat) (data : Bytes) (buf inp out : Slice) (trail : Bytes)
    (hin : inp.len = (lib.enc lvl data).length) (hout : data.length ≤ out.len) :
    (∃ r, compress v lib lvl data buf .buffer = .ok r ∧ r.err = none ∧ r.n = r.emitted.length ∧
      decompress v lib inp out (r.emitted ++ trail) = .ok ⟨data.length, data, none⟩) ∧
    compress v lib lvl data buf .nil = .ok ⟨[], 0, none⟩ :=
  ⟨wrapper_contract_cross h.nonempty h.bounded h.compatible v v hv hv lvl data buf inp out trail hin hout,
   by rw [compress_eq_write h.nonempty h.bounded v hv]; rfl⟩

/-- **null_roundtrip** (C07, the null encoder entirely): for every input (any length, including
    0), any scratch buffer and any `in`, Compress writes exactly the input and reports its length;
    Decompress of those bytes (followed by anything) into a buffer of the input's length restores
    the input and reports its length. -/
theorem null_roundtrip (lib : Lib) (lvl : Nat) (data : Bytes) (buf inp out : Slice) (trail : Bytes)
    (hout : out.len = data.length) :
    compress .null lib lvl data buf .buffer = .ok ⟨data, data.length, none⟩ ∧
    decompress .null lib inp out (data ++ trail) = .ok ⟨data.length, data, none⟩ := by
  refine ⟨rfl, ?_⟩
  simp only [decompress, nullDecompress, readInto]
  cases data with
  | nil =>
    have h0 : out.len = 0 := by simpa using hout
    simp [h0]
  | cons a t =>
    have h0 : out.len ≠ 0 := by simp at hout; omega
    have hmin : min out.len ((a :: t) ++ trail).length = (a :: t).length := by
      simp only [List.length_append, List.length_cons] at hout ⊢; omega
    have hne : ((a :: t) ++ trail).isEmpty = false := rfl
    simp only [h0, if_false, hne, Bool.false_eq_true, hmin]
    have hk : ¬ ((a :: t).length ≠ out.len) := by simp [hout]
    simp only [hk, if_false]
    congr 2
    simp only [Slice.toBytes, Slice.store, hout]
    rw [List.take_take, Nat.min_self, List.take_append_of_le_length (by simp)]
    simp

/-! ## the repaired defect, exhibited in the model -/

/-- **zstd_native_original_prepends_scratch**: `zstd_native.go` as it was (`EncodeAll(data, buf)`)
    writes the caller's scratch bytes in front of the frame and counts them — for every well-formed
    scratch buffer. With the length-8192 buffer GPFile passes, every block got 8192 stale bytes. -/
theorem zstd_native_original_prepends_scratch (lib : Lib) (lvl : Nat) (data : Bytes) (buf : Slice)
    (hwf : buf.len ≤ buf.cap) :
    zstdNativeCompressOrig lib lvl data buf .buffer =
      .ok ⟨buf.toBytes ++ lib.enc lvl data, buf.len + (lib.enc lvl data).length, none⟩ := by
  have hl : (List.take buf.len buf.arr).length = buf.len := by
    simp only [List.length_take]; exact Nat.min_eq_left hwf
  have key : (buf.append (lib.enc lvl data)).toBytes = buf.toBytes ++ lib.enc lvl data := by
    unfold Slice.append Slice.toBytes
    split
    · simp only [List.append_assoc]
      rw [← List.append_assoc, List.take_append_of_le_length (by simp [hl])]
      rw [List.take_of_length_le (by simp [hl])]
    · simp only
      rw [List.take_of_length_le (by simp [hl])]
  simp only [zstdNativeCompressOrig, writeIfProvided, reduceCtorEq, if_false, writeTo, key]
  congr 2
  simp [Slice.toBytes, hl]

/-- a toy library satisfying the contract (a marker byte in front of the data), used to show the
    hypotheses are satisfiable and to run the wrappers on concrete values -/
def toyLib : Lib :=
  { bound := fun n => n + 1,
    enc := fun _ x => 255 :: x,
    dec := fun z => match z with | 255 :: x => some x | _ => none }

theorem toyLib_ok : LibOK toyLib :=
  ⟨fun _ _ => rfl, fun _ _ => by simp [toyLib], fun _ x => by simp [toyLib]⟩

/-- non-vacuity: the contract is satisfiable, and on a concrete 3-byte input with a junk-filled
    scratch buffer of length 4 / capacity 6 every fixed wrapper emits the 4-byte frame and reads
    it back, while the original native zstd wrapper emits 8 bytes that no longer decode. -/
example :
    let buf : Slice := ⟨[9, 9, 9, 9, 9, 9], 4⟩
    (∀ v, v ≠ Variant.null →
      compress v toyLib 3 [1, 2, 3] buf .buffer = .ok ⟨[255, 1, 2, 3], 4, none⟩ ∧
      decompress v toyLib ⟨[0, 0, 0, 0], 4⟩ ⟨[238, 238, 238], 3⟩ [255, 1, 2, 3, 171] = .ok ⟨3, [1, 2, 3], none⟩) ∧
    zstdNativeCompressOrig toyLib 3 [1, 2, 3] buf .buffer = .ok ⟨[9, 9, 9, 9, 255, 1, 2, 3], 8, none⟩ ∧
    toyLib.dec [9, 9, 9, 9, 255, 1, 2, 3] = none ∧
    compress .null toyLib 0 [] buf .buffer = .ok ⟨[], 0, none⟩ ∧
    decompress .null toyLib Slice.nil Slice.nil [] = .ok ⟨0, [], none⟩ := by
  refine ⟨?_, by decide, by decide, by decide, by decide⟩
  intro v hv
  cases v <;> first | exact absurd rfl hv | decide

/-- the hypothesis "an encoded block is never empty" is needed by the cgo wrappers: they take
    `&in[0]`, so reading back an empty block panics -/
example : decompress .zstdCgo toyLib Slice.nil ⟨[0], 1⟩ [1, 2, 3] = .panic "index out of range [0] with length 0" := by
  decide

/-- … and "never longer than its bound" is needed too: a library that overshoots its own bound
    makes the bound-based wrappers fail (here: bound 0 makes `&buf[0]` panic) -/
example : (compress .lz4Cgo { toyLib with bound := fun _ => 0 } 1 [] Slice.nil .buffer).isPanic = true := by
  decide

end C07
