import GoProbeModel.Lemmas.C18Iter
import GoProbeModel.Lemmas.C18Key

/-!
C18 — property theorems for the flow hash map (`pkg/types/hashmap`).

The model (`Model/C18.lean`) follows hashmap.go / iterator.go statement by statement on flattened
bucket chains; the hash function is a parameter, so everything below holds for **every** hash
function (collisions included) and every seed. Helper lemmas live in `Lemmas/C18*.lean`:

* `Inv hash m` — the representation invariant: placement of every filled cell by its hash bits and
  tophash, distinct keys per chain, filled cells form a prefix of every live chain (no deletion
  exists, which is what makes the `emptyRest` early exit of lookups sound), while growing: old
  buckets below `nEvacuate` are evacuated and the new buckets fed by a *not yet* evacuated old
  bucket are still pristine, `count` = number of live cells.
* `entries hash m` — the abstraction function: the association list represented by a state
  (bucket index by bucket index: the cells of `buckets[b]`, or — while the old bucket feeding `b`
  is not evacuated — the cells of that old bucket that will move to `b`).
* `abs hash m` — the abstract map (`AMap`, a finite map as a function) of that list.

Clauses of the property and the theorems that prove them:

* "size, lookups … agree with an ordinary map whose counters are summed per key, after any sequence
  of inserts, additive updates and merges": `new_refines`, `set_refines`, `setOrUpdate_refines`,
  `merge_refines` (the abstraction commutes with every operation), `get_agrees`, `len_agrees`,
  and `map_refines` (all histories over any number of maps, each with its own hash function).
* "iteration yields every entry exactly once, including while the table is growing": `iter_once`
  (stated for every state satisfying `Inv`, hence by `map_refines` for every reachable state at
  every growth stage), `iter_once_reachable`.
* the judge's `Std.HashMap` operations are those abstract-map operations: `jset_spec`, `jadd_spec`,
  `jmerge_spec`.
* "the map keeps its own copy of every key": `key_copied` (on the explicit-heap model `KeyStore`
  of the insertion statements).

Domain: `Merge` of a map into *itself* is not modelled (`WF`); keys no longer than the arena
(`key_copied`). Two rounds of the `again:` loop always suffice in the Go code; the model allows 64
and inserts without a further growth check afterwards, and the theorems hold for every such bound.
-/
set_option linter.unusedSectionVars false
set_option linter.unusedVariables false

namespace C18
open Gen.HashMap
variable {κ : Type} [DecidableEq κ] [Inhabited κ]

/-! ## The abstraction -/

/-- the finite map denoted by an association list (first match) -/
def AMap.ofList (l : List (κ × Val)) : AMap κ := fun k => (l.find? (fun e => decide (e.1 = k))).map (·.2)

/-- the abstract map represented by a state of the hash map -/
def abs (hash : κ → Nat) (m : HMap κ) : AMap κ := AMap.ofList (entries hash m)

/-- **get_agrees** — `Get` returns exactly what the abstract map holds. -/
theorem get_agrees {hash : κ → Nat} {m : HMap κ} (inv : Inv hash m) (k : κ) : get hash m k = abs hash m k := by
  apply option_ext
  intro v
  rw [inv.get_iff]
  exact (find_pair_iff inv.entries_nodup k v).symm

/-- **len_agrees** — `Len` is the number of entries of the represented association list, whose keys are
    pairwise distinct and whose entries are exactly the graph of the abstract map. -/
theorem len_agrees {hash : κ → Nat} {m : HMap κ} (inv : Inv hash m) :
    len m = (entries hash m).length ∧ ((entries hash m).map (·.1)).Nodup ∧
      ∀ k v, (k, v) ∈ entries hash m ↔ abs hash m k = some v :=
  ⟨inv.cnt, inv.entries_nodup, fun k v => (find_pair_iff inv.entries_nodup k v).symm⟩

/-- **new_refines** — `New(hint)` satisfies the invariant and represents the empty map. -/
theorem new_refines (hash : κ → Nat) (hint : Int) :
    Inv hash (newHint hint : HMap κ) ∧ abs hash (newHint hint : HMap κ) = AMap.empty := by
  obtain ⟨inv, he⟩ := newHint_post (κ := κ) hash hint
  refine ⟨inv, ?_⟩
  funext k
  simp [abs, AMap.ofList, he, AMap.empty]

/-- **set_refines** — `Set` keeps the invariant and is `AMap.set` on the abstract map (with or
    without growth, at every growth stage). -/
theorem set_refines {hash : κ → Nat} {m : HMap κ} (inv : Inv hash m) (k : κ) (v : Val) :
    Inv hash (set hash m k v) ∧ abs hash (set hash m k v) = (abs hash m).set k v := by
  have s := assign_post inv k (fun _ => v) v
  refine ⟨s.inv, ?_⟩
  funext k'
  have h := assign_get inv k (fun _ => v) v k'
  unfold set
  rw [← get_agrees s.inv, h, AMap.set, ← get_agrees inv]
  cases get hash m k <;> rfl

/-- **setOrUpdate_refines** — `SetOrUpdate` keeps the invariant and is the additive update
    `AMap.add` on the abstract map. -/
theorem setOrUpdate_refines {hash : κ → Nat} {m : HMap κ} (inv : Inv hash m) (k : κ) (v : Val) :
    Inv hash (setOrUpdate hash m k v) ∧ abs hash (setOrUpdate hash m k v) = (abs hash m).add k v := by
  have s := assign_post inv k (·.add v) v
  refine ⟨s.inv, ?_⟩
  funext k'
  have h := assign_get inv k (·.add v) v k'
  unfold setOrUpdate
  rw [← get_agrees s.inv, h, AMap.add, ← get_agrees inv, ← get_agrees inv]
  by_cases e : k' = k
  · simp only [e, if_true]; cases get hash m k <;> rfl
  · simp only [e, if_false]

/-- **merge_refines** — `dst.Merge(src)` for two maps with *independent* hash functions keeps the
    invariant of `dst` and is `AMap.merge` on the abstract maps. -/
theorem merge_refines {hd hs : κ → Nat} {d s : HMap κ} (invd : Inv hd d) (invs : Inv hs s) :
    Inv hd (merge hd hs d s) ∧ abs hd (merge hd hs d s) = (abs hd d).merge (abs hs s) := by
  obtain ⟨i1, i2⟩ := merge_post invd invs
  refine ⟨i1, ?_⟩
  funext k
  rw [← get_agrees i1, i2 k, AMap.merge, AMap.merge, ← get_agrees invd, ← get_agrees invs]

/-- **iter_once** — from any state satisfying the invariant (idle, or at any stage of a doubling or
    same-size growth) repeated `Next()` yields a list with pairwise distinct keys whose entries are
    exactly the graph of the abstract map, and as many entries as `Len` reports: every abstract
    entry exactly once. -/
theorem iter_once {hash : κ → Nat} {m : HMap κ} (inv : Inv hash m) :
    ((iterate hash m).map (·.1)).Nodup ∧
      (∀ k v, (k, v) ∈ iterate hash m ↔ abs hash m k = some v) ∧
      (iterate hash m).length = len m ∧ (iterate hash m).Perm (entries hash m) := by
  have hperm := inv.iterate_perm
  refine ⟨(hperm.map _).nodup_iff.mpr inv.entries_nodup, fun k v => ?_, ?_, hperm⟩
  · rw [hperm.mem_iff]; exact (len_agrees inv).2.2 k v
  · rw [hperm.length_eq]; exact inv.cnt.symm

/-- **again_rounds_partial** — the bound on the number of `goto again` rounds that the model puts in
    place of Go's unbounded loop is unobservable: for every two bounds the resulting states
    represent the same abstract map and have the same `Len`. *Not proved:* that the Go loop itself
    never runs more than two rounds (this needs the load-factor / overflow-bucket accounting
    `8·nOverflow < count ≤ 6.5·|buckets|`, which would also show that same-size growth is
    unreachable without deletion); the growth-stage probe of the correspondence harness compares
    bucket count, `nEvacuate` and `nOverflow` of model and implementation after every operation. -/
theorem again_rounds_partial {hash : κ → Nat} {m : HMap κ} (inv : Inv hash m) (hpos : 0 < m.buckets.size)
    (k : κ) (upd : Val → Val) (ins : Val) (f1 f2 : Nat) :
    abs hash (assignLoop hash k upd ins f1 m) = abs hash (assignLoop hash k upd ins f2 m) ∧
    len (assignLoop hash k upd ins f1 m) = len (assignLoop hash k upd ins f2 m) := by
  have s1 := assignLoop_post k upd ins f1 m inv hpos
  have s2 := assignLoop_post k upd ins f2 m inv hpos
  refine ⟨?_, by unfold len; rw [s1.count, s2.count]⟩
  funext k'
  rw [← get_agrees s1.inv, ← get_agrees s2.inv]
  exact get_congr s2.inv s1.inv (fun e => by rw [s1.mem, s2.mem]) k'

/-! ## All histories -/

/-- an operation on a family of maps (slots); a new map comes with its own hash function (seed) -/
inductive MOp (κ : Type) where
  | new (s : Nat) (hint : Int) (hash : κ → Nat)
  | set (s : Nat) (k : κ) (v : Val)
  | upd (s : Nat) (k : κ) (v : Val)
  | merge (dst src : Nat)

structure MSlot (κ : Type) where
  hash : κ → Nat
  m : HMap κ

def upd1 {α : Type} (f : Nat → α) (i : Nat) (a : α) : Nat → α := fun j => if j = i then a else f j

/-- the model on a family of maps -/
def stepModel (st : Nat → MSlot κ) : MOp κ → (Nat → MSlot κ)
  | .new s hint hash => upd1 st s ⟨hash, newHint hint⟩
  | .set s k v => upd1 st s ⟨(st s).hash, set (st s).hash (st s).m k v⟩
  | .upd s k v => upd1 st s ⟨(st s).hash, setOrUpdate (st s).hash (st s).m k v⟩
  | .merge d s => upd1 st d ⟨(st d).hash, merge (st d).hash (st s).hash (st d).m (st s).m⟩

/-- the specification on a family of abstract maps -/
def stepSpec (sp : Nat → AMap κ) : MOp κ → (Nat → AMap κ)
  | .new s _ _ => upd1 sp s AMap.empty
  | .set s k v => upd1 sp s ((sp s).set k v)
  | .upd s k v => upd1 sp s ((sp s).add k v)
  | .merge d s => upd1 sp d ((sp d).merge (sp s))

/-- well-formed histories: no map is merged into itself -/
def WF : List (MOp κ) → Prop
  | [] => True
  | .merge d s :: ops => d ≠ s ∧ WF ops
  | _ :: ops => WF ops

def initModel : Nat → MSlot κ := fun _ => ⟨fun _ => 0, newHint 0⟩
def initSpec : Nat → AMap κ := fun _ => AMap.empty

/-- the simulation relation of `map_refines` -/
def Sim (st : Nat → MSlot κ) (sp : Nat → AMap κ) : Prop :=
  ∀ s, Inv (st s).hash (st s).m ∧ abs (st s).hash (st s).m = sp s

theorem sim_step {st : Nat → MSlot κ} {sp : Nat → AMap κ} (h : Sim st sp) (op : MOp κ) :
    Sim (stepModel st op) (stepSpec sp op) := by
  intro j
  cases op with
  | new s hint hash =>
    simp only [stepModel, stepSpec, upd1]
    by_cases e : j = s
    · simp only [e, if_true]; exact new_refines hash hint
    · simp only [e, if_false]; exact h j
  | set s k v =>
    simp only [stepModel, stepSpec, upd1]
    by_cases e : j = s
    · simp only [e, if_true]
      obtain ⟨i1, i2⟩ := set_refines (h s).1 k v
      exact ⟨i1, by rw [i2, (h s).2]⟩
    · simp only [e, if_false]; exact h j
  | upd s k v =>
    simp only [stepModel, stepSpec, upd1]
    by_cases e : j = s
    · simp only [e, if_true]
      obtain ⟨i1, i2⟩ := setOrUpdate_refines (h s).1 k v
      exact ⟨i1, by rw [i2, (h s).2]⟩
    · simp only [e, if_false]; exact h j
  | merge d s =>
    simp only [stepModel, stepSpec, upd1]
    by_cases e : j = d
    · simp only [e, if_true]
      obtain ⟨i1, i2⟩ := merge_refines (h d).1 (h s).1
      exact ⟨i1, by rw [i2, (h d).2, (h s).2]⟩
    · simp only [e, if_false]; exact h j

theorem sim_init : Sim (initModel : Nat → MSlot κ) initSpec := fun _ => new_refines _ 0

/-- **map_refines** — after *any* sequence of `New`, `Set`, `SetOrUpdate` and `Merge` operations on
    any number of maps (each with its own hash function / seed), every map satisfies the invariant
    and represents exactly the abstract map computed by the specification. (`WF`: no map is merged
    into itself — the model's `merge` describes the Go code for distinct maps only; the proof does
    not need the hypothesis, it marks the domain in which the model is tied to the code.) -/
theorem map_refines (ops : List (MOp κ)) (wf : WF ops) :
    Sim (ops.foldl stepModel (initModel : Nat → MSlot κ)) (ops.foldl stepSpec initSpec) := by
  suffices h : ∀ (ops : List (MOp κ)) (st : Nat → MSlot κ) (sp : Nat → AMap κ), Sim st sp →
      Sim (ops.foldl stepModel st) (ops.foldl stepSpec sp) from h ops _ _ sim_init
  intro ops
  induction ops with
  | nil => intro st sp h; exact h
  | cons op ops ih => intro st sp h; exact ih _ _ (sim_step h op)

/-- **observations_agree** — in every reachable state, `Get` and `Len` of every map agree with the
    specification's map. -/
theorem observations_agree (ops : List (MOp κ)) (wf : WF ops) (s : Nat) (k : κ) :
    let st := ops.foldl stepModel (initModel : Nat → MSlot κ)
    let sp := ops.foldl stepSpec (initSpec : Nat → AMap κ)
    get (st s).hash (st s).m k = sp s k ∧
    len (st s).m = (entries (st s).hash (st s).m).length := by
  intro st sp
  obtain ⟨inv, ha⟩ := map_refines ops wf s
  exact ⟨by rw [get_agrees inv, ha], inv.cnt⟩

/-- **iter_once_reachable** — in every reachable state (whatever growth stage the history left the
    map in), iterating a map yields every entry of the specification's map exactly once. -/
theorem iter_once_reachable (ops : List (MOp κ)) (wf : WF ops) (s : Nat) :
    let st := ops.foldl stepModel (initModel : Nat → MSlot κ)
    let sp := ops.foldl stepSpec (initSpec : Nat → AMap κ)
    ((iterate (st s).hash (st s).m).map (·.1)).Nodup ∧
      (∀ k v, (k, v) ∈ iterate (st s).hash (st s).m ↔ sp s k = some v) ∧
      (iterate (st s).hash (st s).m).length = len (st s).m := by
  intro st sp
  obtain ⟨inv, ha⟩ := map_refines ops wf s
  obtain ⟨h1, h2, h3, -⟩ := iter_once inv
  exact ⟨h1, fun k v => by rw [h2 k v, ha], h3⟩

/-! ## The judge's ordinary map

The executable judge (`Spec/C18.lean`) replays a case on `Std.HashMap String Val`. Its three
operations are the abstract-map operations of the theorems above (`jset_spec`, `jadd_spec`,
`jmerge_spec`), so the judge checks the implementation against the same specification the model
is proved to refine. -/

/-- the judge's ordinary map, seen as an abstract map -/
def jabs (m : JMap) : AMap String := fun k => m[k]?

theorem jset_spec (m : JMap) (k : String) (v : Val) : jabs (jset m k v) = (jabs m).set k v := by
  funext k'
  simp only [jabs, jset, AMap.set, Std.HashMap.getElem?_insert]
  by_cases e : k' = k
  · simp [e]
  · have : ¬ (k == k') = true := by simpa using fun h => e h.symm
    simp [e, this]

theorem jadd_spec (m : JMap) (k : String) (v : Val) : jabs (jadd m k v) = (jabs m).add k v := by
  funext k'
  unfold jadd jabs AMap.add
  cases h : m[k]? with
  | none =>
    simp only [Std.HashMap.getElem?_insert]
    by_cases e : k' = k
    · simp [e, h]
    · have : ¬ (k == k') = true := by simpa using fun h => e h.symm
      simp [e, this]
  | some w =>
    simp only [Std.HashMap.getElem?_insert]
    by_cases e : k' = k
    · simp [e, h]
    · have : ¬ (k == k') = true := by simpa using fun h => e h.symm
      simp [e, this]

theorem jfold_spec : ∀ (l : List (String × Val)) (d : JMap),
    jabs (l.foldl (fun a b => jadd a b.1 b.2) d) = l.foldl (fun f b => f.add b.1 b.2) (jabs d)
  | [], d => rfl
  | x :: xs, d => by
    simp only [List.foldl_cons]
    rw [jfold_spec xs (jadd d x.1 x.2), jadd_spec]

theorem afold_spec : ∀ (l : List (String × Val)) (f : AMap String),
    l.Pairwise (fun a b => (a.1 == b.1) = false) → ∀ k,
    (l.foldl (fun f b => f.add b.1 b.2) f) k =
      match (l.find? (fun e => e.1 == k)).map (·.2) with
      | none => f k
      | some v => some (match f k with | some w => w.add v | none => v)
  | [], f, _, k => rfl
  | x :: xs, f, nd, k => by
    rw [List.pairwise_cons] at nd
    rw [List.foldl_cons, afold_spec xs _ nd.2 k, List.find?_cons]
    by_cases hk : (x.1 == k) = true
    · have hk' : x.1 = k := by simpa using hk
      have hnone : (xs.find? (fun e => e.1 == k)).map (·.2) = none := by
        cases h : xs.find? (fun e => e.1 == k) with
        | none => rfl
        | some y =>
          exfalso
          have hy := List.mem_of_find?_eq_some h
          have hy2 := List.find?_some h
          have := nd.1 y hy
          rw [hk'] at this
          simp only [beq_iff_eq] at hy2
          rw [hy2] at this
          simp at this
      rw [hnone]
      simp only [hk, Option.map_some]
      simp only [AMap.add, hk', if_true]
      cases f k <;> rfl
    · simp only [hk]
      have : ¬ k = x.1 := fun e => hk (by simp [e])
      simp [AMap.add, this]

/-- the judge's `jmerge` is `AMap.merge` -/
theorem jmerge_spec (d s : JMap) : jabs (jmerge d s) = (jabs d).merge (jabs s) := by
  funext k
  unfold jmerge
  rw [Std.HashMap.fold_eq_foldl_toList, jfold_spec, afold_spec _ _ Std.HashMap.distinct_keys_toList k]
  have : (s.toList.find? (fun e => e.1 == k)).map (·.2) = s[k]? := by
    cases h : s[k]? with
    | some v =>
      have hm := Std.HashMap.mem_toList_iff_getElem?_eq_some.mpr h
      cases hf : s.toList.find? (fun e => e.1 == k) with
      | none =>
        exfalso
        have := List.find?_eq_none.mp hf (k, v) hm
        simp at this
      | some y =>
        have hy := List.mem_of_find?_eq_some hf
        have hy2 := List.find?_some hf
        simp only [beq_iff_eq] at hy2
        have : (k, y.2) ∈ s.toList := by rw [← hy2]; exact hy
        have := Std.HashMap.mem_toList_iff_getElem?_eq_some.mp this
        rw [h] at this
        simp at this
        simp [this]
    | none =>
      cases hf : s.toList.find? (fun e => e.1 == k) with
      | none => rfl
      | some y =>
        exfalso
        have hy := List.mem_of_find?_eq_some hf
        have hy2 := List.find?_some hf
        simp only [beq_iff_eq] at hy2
        have : (k, y.2) ∈ s.toList := by rw [← hy2]; exact hy
        have := Std.HashMap.mem_toList_iff_getElem?_eq_some.mp this
        rw [h] at this
        cases this
  rw [this]
  unfold AMap.merge jabs
  cases s[k]? <;> rfl

/-! ## The map keeps its own copy of every key -/

namespace KeyStore

/-- the run of a list of operations on the explicit-heap model -/
def krun (st : KState) (ops : List KOp) : KState := ops.foldl kstep st

theorem krun_inv : ∀ (ops : List KOp) (st : KState), KInv st → runOk st ops →
    KInv (krun st ops) ∧ ∃ pre, (krun st ops).stored = pre ++ st.stored
  | [], st, inv, _ => ⟨inv, [], rfl⟩
  | op :: ops, st, inv, hok => by
    have hstep : KInv (kstep st op) ∧ ∃ pre, (kstep st op).stored = pre ++ st.stored := by
      cases op with
      | insert key =>
        obtain ⟨i1, s, i2⟩ := inv.insert hok.1
        exact ⟨i1, [(s, st.heap.read key)], by rw [i2]; rfl⟩
      | scribble obj off bs => exact ⟨inv.scribble hok.1, [], rfl⟩
    obtain ⟨i1, pre1, e1⟩ := hstep
    obtain ⟨i2, pre2, e2⟩ := krun_inv ops (kstep st op) i1 hok.2
    exact ⟨i2, pre2 ++ pre1, by show (krun (kstep st op) ops).stored = _; rw [e2, e1, List.append_assoc]⟩

end KeyStore

open KeyStore in
/-- **key_copied** — on the explicit-heap model of the insertion statements of `Set` / `SetOrUpdate`
    (`m.keyData` growth by `append`, `*insertK = m.keyData[pos:pos+len(key)]`, `copy(*insertK, key)`):
    after inserting the key the caller passes as slice `key`, and after *any* further legal run —
    further insertions (including ones that re-allocate the arena) and arbitrary writes of the caller
    into every heap object that is not one of the map's private arena objects, in particular into the
    buffer `key` pointed to — the slice stored in the cell still reads the bytes the key had at the
    moment of the insertion, and so does every slice stored earlier. -/
theorem key_copied (st : KState) (inv : KInv st) (key : Slice) (hk : (KOp.insert key).ok st)
    (ops : List KOp) (hok : runOk (kstep st (.insert key)) ops) :
    let fin := krun (kstep st (.insert key)) ops
    (∃ s, (s, st.heap.read key) ∈ fin.stored ∧ fin.heap.read s = st.heap.read key) ∧
    (∀ p ∈ st.stored, p ∈ fin.stored) ∧ (∀ p ∈ fin.stored, fin.heap.read p.1 = p.2) := by
  intro fin
  obtain ⟨i1, s, e1⟩ := inv.insert hk
  obtain ⟨i2, pre, e2⟩ := krun_inv ops _ i1 hok
  have hall : ∀ p ∈ fin.stored, fin.heap.read p.1 = p.2 := fun p hp => (i2.stored p hp).2.1
  have hmem : (s, st.heap.read key) ∈ fin.stored := by
    show _ ∈ (krun (kstep st (.insert key)) ops).stored
    rw [e2, e1]; simp
  refine ⟨⟨s, hmem, hall _ hmem⟩, fun p hp => ?_, hall⟩
  show p ∈ (krun (kstep st (.insert key)) ops).stored
  rw [e2, e1]; simp [hp]

/-! ## Non-vacuity: concrete states -/

/-- `n` additive inserts of the keys `0 … n-1` -/
def exFill (hash : Nat → Nat) (n : Nat) (m : HMap Nat) : HMap Nat :=
  (List.range n).foldl (fun m k => setOrUpdate hash m k ⟨k, 1, 0, 0⟩) m

/-- 27 keys in `New(20)` (4 buckets) under the identity hash — all tophashes collide —, which leaves
    the map in the middle of the 4 → 8 growth (key 3 was already present, so it is updated) -/
def exGrowing : HMap Nat := exFill (fun k => k) 27 (setOrUpdate (fun k => k) (newHint 20) 3 ⟨10, 0, 0, 0⟩)

/-- the invariant's hypotheses are satisfiable on a state that is *growing* (old table of 4 buckets
    partly evacuated), and the observations are the expected ones there -/
example : exGrowing.growing = true ∧ exGrowing.old.size = 4 ∧ exGrowing.buckets.size = 8 ∧
    0 < exGrowing.nEvacuate ∧ exGrowing.nEvacuate < 4 ∧
    len exGrowing = 27 ∧ get (fun k => k) exGrowing 3 = some ⟨13, 1, 0, 0⟩ ∧ get (fun k => k) exGrowing 27 = none ∧
    (iterate (fun k => k) exGrowing).length = 27 ∧ ((iterate (fun k => k) exGrowing).map (·.1)).Nodup := by
  decide +kernel

theorem exFill_inv (hash : Nat → Nat) (n : Nat) (m : HMap Nat) (h : Inv hash m) : Inv hash (exFill hash n m) := by
  unfold exFill
  generalize List.range n = l
  induction l generalizing m with
  | nil => exact h
  | cons x xs ih => exact ih _ (setOrUpdate_refines h x _).1

example : Inv (fun k => k) exGrowing := exFill_inv _ _ _ (setOrUpdate_refines (new_refines _ 20).1 3 _).1

/-- every key hashes to the same value: one bucket chain carries everything, growth moves it
    whole; 40 keys, then a merge into a map with a different hash function -/
def exCollide : HMap Nat := exFill (fun _ => 12345) 40 (newHint 0)
def exMerged : HMap Nat := merge (fun k => k * 7919) (fun _ => 12345) (exFill (fun k => k * 7919) 20 (newHint 0)) exCollide

example : len exCollide = 40 ∧ (iterate (fun _ => 12345) exCollide).length = 40 ∧
    get (fun _ => 12345) exCollide 39 = some ⟨39, 1, 0, 0⟩ ∧ 0 < exCollide.nOverflow ∧
    len exMerged = 40 ∧ get (fun k => k * 7919) exMerged 5 = some ⟨10, 2, 0, 0⟩ ∧
    get (fun k => k * 7919) exMerged 35 = some ⟨35, 1, 0, 0⟩ ∧
    ((iterate (fun k => k * 7919) exMerged).map (·.1)).Nodup ∧ (iterate (fun k => k * 7919) exMerged).length = 40 := by
  decide +kernel

/-- outside the invariant the conclusions fail: a state that holds key 5 in bucket 0 *and* in
    bucket 1 (placement violated) is iterated with a duplicate -/
def exBad : HMap Nat :=
  { count := 2, buckets := #[⟨5, 5, ⟨1, 0, 0, 0⟩⟩ :: List.replicate 7 emptyCell,
                             ⟨5, 5, ⟨2, 0, 0, 0⟩⟩ :: List.replicate 7 emptyCell] }

example : (iterate (fun k => k) exBad).map (·.1) = [5, 5] := by decide +kernel

/-! ## Non-vacuity of `key_copied` -/

namespace KeyStore

/-- heap object 0 = the map's arena (8 bytes, so that the third insertion re-allocates it), heap
    object 1 = the caller's key buffer -/
def exK0 : KState := { heap := ⟨[List.replicate 8 0, [1, 2, 3]]⟩, arena := ⟨0, 0⟩, gens := [0], stored := [] }

theorem exK0_inv : KInv exK0 :=
  { arenaGen := by simp [exK0], gensValid := by simp [exK0], posLe := by simp [exK0], stored := by simp [exK0] }

/-- insert the key, overwrite the buffer, insert the new content, overwrite, insert again (arena
    re-allocated): a legal run -/
def exKOps : List KOp :=
  [.insert ⟨1, 0, 3⟩, .scribble 1 0 [7, 8, 9], .insert ⟨1, 0, 3⟩, .scribble 1 0 [4, 4, 4], .insert ⟨1, 0, 3⟩,
   .scribble 1 0 [0, 0, 0]]

example : runOk exK0 exKOps := by
  simp only [runOk, KOp.ok, kstep, insertKey, exKOps, exK0, Heap.read, Heap.write, writeAt]
  decide

/-- … after which the three stored slices still read the three keys as they were when inserted -/
example : ((krun exK0 exKOps).stored.map fun p => (krun exK0 exKOps).heap.read p.1) = [[4, 4, 4], [7, 8, 9], [1, 2, 3]] ∧
    (krun exK0 exKOps).arena.obj = 2 := by decide +kernel

/-- outside the hypothesis (the caller can not write into the map's arena) the conclusion fails -/
example : (krun exK0 [.insert ⟨1, 0, 3⟩, .scribble 0 0 [9, 9, 9]]).stored.map
    (fun p => (krun exK0 [.insert ⟨1, 0, 3⟩, .scribble 0 0 [9, 9, 9]]).heap.read p.1) = [[9, 9, 9]] := by decide +kernel

/-- a map that stored the caller's slice instead of copying (`*insertK = key`) would be changed by
    the caller re-using its buffer: the same run on such a store reads back the overwritten bytes -/
example : let h0 : Heap := ⟨[List.replicate 8 0, [1, 2, 3]]⟩
    let aliased : Slice := ⟨1, 0, 3⟩
    (h0.write 1 0 [7, 8, 9]).read aliased = [7, 8, 9] ∧ h0.read aliased = [1, 2, 3] := by decide +kernel

end KeyStore

end C18
