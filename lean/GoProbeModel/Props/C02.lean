import GoProbeModel.Model.C02
import GoProbeModel.Props.C01
import GoProbeModel.Props.C07

/-!
C02 — property theorems: databases are interchangeable between cgo and native compression builds.

PARTIAL BY NATURE, like C07: the LZ4 / zstd codecs are third-party. `cross_config_read` ASSUMES
that the reader build's library decodes what the writer build's library encoded (`C07.Compatible`)
and that the writer's library never emits an empty block nor exceeds its own bound. The
correspondence harness validates this on every block of a writer × reader matrix of real builds.
Everything between the libraries and the disk is proved: the wrappers (C07) and the storage layer
(C01), for all histories, block sizes, levels and scratch buffers; `reader_decodes_through_wrapper`
shows that C01's abstract decoder is exactly what each build's Decompress wrapper computes with the
buffers GPFile sizes from the block header.
-/
namespace C02

theorem variant_ne_null (c : Config) (encId : Nat) (h : encId ≠ 0) : c.variant encId ≠ .null := by
  unfold Config.variant
  split
  · exact absurd rfl h
  · split <;> simp
  · split <;> simp

/-- what the writer build's library must guarantee, and the reader build's library about it -/
structure LibsOK (w r : Config) (L : Libs) (encId : Nat) : Prop where
  nonempty : ∀ lvl x, (libFor w L encId).enc lvl x ≠ []
  bounded : ∀ lvl x, ((libFor w L encId).enc lvl x).length ≤ (libFor w L encId).bound x.length
  compatible : C07.Compatible (libFor w L encId) (libFor r L encId)

/-- a write performed by build `w` satisfies C01's contract for the decoder of build `r` -/
theorem contract_of_writtenBy (w r : Config) (L : Libs) (encId lvl : Nat) (wr : C01.Write)
    (hl : encId ≠ 0 → LibsOK w r L encId) (hw : WrittenBy w L encId lvl wr) :
    C01.Contract (decFor r L encId) encId wr := by
  refine ⟨hw.1, fun p hp => ?_⟩
  obtain ⟨scratch, hs⟩ := hw.2 p hp
  constructor
  · intro hne
    have ok := hl hne
    rw [C07.wrapper_ignores_scratch ok.nonempty ok.bounded _ (variant_ne_null w encId hne)] at hs
    simp only [Outcome.ok.injEq, C07.CRes.mk.injEq] at hs
    rw [← hs.1]
    exact ok.compatible lvl p.1
  · intro h0
    subst h0
    simp only [Config.variant, C07.compress, C07.nullCompress, C07.writeTo, Outcome.ok.injEq, C07.CRes.mk.injEq] at hs
    exact hs.1.symm

/-- **cross_config_read** (C02): for every writer configuration `w` and reader configuration `r`
    (cgo, CGO_ENABLED=0, goprobe_noliblz4, goprobe_nolibzstd — any combination of the three
    switches), every encoder type and level, every history of sessions whose blocks were written
    through `w`'s Compress wrapper WITH ANY SCRATCH BUFFERS: if `r`'s library decodes what `w`'s
    library encodes, a fresh reader of build `r` sees exactly the blocks of the accepted sessions —
    same timestamps in order, every column byte-for-byte, the per-block summaries and the day
    totals. Corollary of `C01.read_after_sessions` (decoder := `r`'s library, encoder outputs :=
    `w`'s wrapper outputs) and `C07.wrapper_ignores_scratch`. The null-fallback decision may differ
    between builds (it depends on the writer's compressed size); it is covered because the
    encoder type is stored per block and C01's theorem holds for every encoder output. -/
theorem cross_config_read (w r : Config) (L : Libs) (encId lvl : Nat) (ss : List C01.Session)
    (hl : encId ≠ 0 → LibsOK w r L encId)
    (hw : ∀ s ∈ ss, ∀ wr ∈ s, WrittenBy w L encId lvl wr) :
    C01.view (decFor r L encId) (C01.runSessions encId ss) = C01.specView ss :=
  C01.read_after_sessions (decFor r L encId) encId ss
    fun s hs wr hwr => contract_of_writtenBy w r L encId lvl wr hl (hw s hs wr hwr)

/-! ## "contain the same flows": the view does not depend on the encoder outputs at all -/

/-- a write without its encoder outputs: what was GIVEN to the writer -/
def erase (w : C01.Write) : C01.Write := { w with cols := w.cols.map fun c => (c.1, []) }

def rawOf (ss : List C01.Session) : List C01.Session := ss.map (·.map erase)

theorem sessionAccepted_erase (s : C01.Session) : ∀ stored, C01.sessionAccepted stored (s.map erase) = C01.sessionAccepted stored s := by
  induction s with
  | nil => intro _; rfl
  | cons w ws ih => intro stored; simp only [List.map_cons, C01.sessionAccepted, erase, ih]

theorem specBlocks_erase (ss : List C01.Session) : ∀ acc,
    C01.specBlocks (acc.map erase) (rawOf ss) = (C01.specBlocks acc ss).map erase := by
  induction ss with
  | nil => intro _; rfl
  | cons s rest ih =>
    intro acc
    have hts : (acc.map erase).map (·.ts) = acc.map (·.ts) := by
      rw [List.map_map]; rfl
    simp only [rawOf, List.map_cons, C01.specBlocks, hts, sessionAccepted_erase]
    split
    · have := ih (acc ++ s)
      simp only [rawOf, List.map_append] at this
      exact this
    · exact ih acc

theorem foldl_erase {β : Type} (f : β → C01.Write → β) (hf : ∀ a w, f a (erase w) = f a w) (ws : List C01.Write) :
    ∀ init, (ws.map erase).foldl f init = ws.foldl f init := by
  induction ws with
  | nil => intro _; rfl
  | cons w t ih => intro init; simp only [List.map_cons, List.foldl_cons, hf, ih]

/-- the spec view is a function of what was given to the writer only -/
theorem specView_raw (ss : List C01.Session) : C01.specView (rawOf ss) = C01.specView ss := by
  unfold C01.specView
  have h := specBlocks_erase ss []
  simp only [List.map_nil] at h
  simp only [h]
  congr 1
  · rw [List.map_map]
    apply List.map_congr_left
    intro w _
    simp only [Function.comp, erase, List.map_map]
    rfl
  · rw [foldl_erase _ (fun _ _ => rfl), foldl_erase _ (fun _ _ => rfl)]

/-- **interchangeable** (C02 "contain the same flows … switching the build configuration never
    makes stored data unreadable or different"): the same history given to two builds `w₁`, `w₂`
    (their column files differ — different codecs, different fallback decisions) and read back by
    two builds `r₁`, `r₂` yields the same view, namely the spec view of the history. -/
theorem interchangeable (w₁ w₂ r₁ r₂ : Config) (L : Libs) (encId lvl₁ lvl₂ : Nat) (ss₁ ss₂ : List C01.Session)
    (hraw : rawOf ss₁ = rawOf ss₂)
    (hl₁ : encId ≠ 0 → LibsOK w₁ r₁ L encId) (hl₂ : encId ≠ 0 → LibsOK w₂ r₂ L encId)
    (hw₁ : ∀ s ∈ ss₁, ∀ wr ∈ s, WrittenBy w₁ L encId lvl₁ wr)
    (hw₂ : ∀ s ∈ ss₂, ∀ wr ∈ s, WrittenBy w₂ L encId lvl₂ wr) :
    C01.view (decFor r₁ L encId) (C01.runSessions encId ss₁) =
    C01.view (decFor r₂ L encId) (C01.runSessions encId ss₂) := by
  rw [cross_config_read w₁ r₁ L encId lvl₁ ss₁ hl₁ hw₁, cross_config_read w₂ r₂ L encId lvl₂ ss₂ hl₂ hw₂,
    ← specView_raw ss₁, ← specView_raw ss₂, hraw]

/-! ## the read path through the Decompress wrappers -/

theorem readCompressed_cases (inp : C07.Slice) (src : C01.Bytes) (h0 : inp.len ≠ 0) :
    (src.length < inp.len ∧ ∃ e, C07.readCompressed inp src = .error e) ∨
    (inp.len ≤ src.length ∧ ∃ inp', C07.readCompressed inp src = .ok inp' ∧ inp'.len = inp.len ∧
      inp'.toBytes = src.take inp.len) := by
  unfold C07.readCompressed C07.readInto
  simp only [h0, if_false]
  by_cases he : src.isEmpty = true
  · left
    have : src = [] := by simpa using he
    subst this
    exact ⟨by simp; omega, "eof", by simp⟩
  · simp only [he, Bool.false_eq_true, if_false]
    by_cases hlt : src.length < inp.len
    · left
      refine ⟨hlt, "short-read", ?_⟩
      have : min inp.len src.length ≠ inp.len := by omega
      simp [this]
    · right
      have hm : min inp.len src.length = inp.len := by omega
      refine ⟨by omega, inp.store (src.take inp.len), by simp only [hm, ne_eq, not_true_eq_false, if_false], rfl, ?_⟩
      simp only [C07.Slice.toBytes, C07.Slice.store]
      rw [List.take_append_of_le_length (by simp; omega)]
      rw [List.take_of_length_le (by simp; omega)]


/-- **reader_decodes_through_wrapper**: C01's reader model treats the decoder as a function `dec`
    of the stored bytes. For every library wrapper, every library, every file content and block
    header with `Len ≠ 0` and any content of GPFile's two scratch buffers, what the real read path
    (buffers sized from the header, `Decompress`, the `nRead = RawLen` check) yields is exactly
    `C01.readBlock (fun _ => lib.dec)` — so instantiating C01's `dec` with the reader build's library in
    `cross_config_read` is faithful to what that build executes. -/
theorem reader_decodes_through_wrapper (v : C07.Variant) (hv : v ≠ .null) (lib : C07.Lib) (file : C01.Bytes)
    (b : C01.Blk) (blockData uncompData : C01.Bytes) (hlen : b.len ≠ 0) (hraw : b.rawLen ≠ 0) (henc : b.enc ≠ 0) :
    readStored v lib file b blockData uncompData = C01.readBlock (fun _ => lib.dec) file b := by
  unfold C01.readBlock
  simp only [hraw, henc, if_false]
  rcases readCompressed_cases ⟨blockData, b.len⟩ (file.drop b.off) hlen with ⟨hlt, e, he⟩ | ⟨hle, inp', hr, hl, hb⟩
  · -- the file ends inside the block
    have hc : ((file.drop b.off).take b.len).length ≠ b.len := by
      simp only [List.length_take]; simp only at hlt; omega
    simp only [hc, ne_eq, not_false_eq_true, if_true]
    unfold readStored
    cases v <;> first | exact absurd rfl hv | simp [C07.decompress, C07.cgoDecompress, C07.lz4NativeDecompress, C07.zstdNativeDecompress, he, C07.dfailed]
  · have hc : ¬ ((file.drop b.off).take b.len).length ≠ b.len := by
      simp only [List.length_take]; simp only at hle; omega
    simp only [hc, if_false]
    simp only at hb hl
    have hl0 : inp'.len ≠ 0 := by omega
    have bounded : (match C07.decodeBounded lib inp' ⟨uncompData, b.rawLen⟩ with
        | .ok ⟨n, restored, none⟩ => if n = b.rawLen then some restored else none
        | _ => none) =
        (match lib.dec ((file.drop b.off).take b.len) with
        | some d => if d.length = b.rawLen then some d else none
        | none => none) := by
      unfold C07.decodeBounded C07.Lib.decompressInto
      rw [hb]
      cases lib.dec ((file.drop b.off).take b.len) with
      | none => simp [C07.dfailed]
      | some d =>
        simp only
        by_cases hd : d.length ≤ b.rawLen
        · simp only [hd, if_true]
          by_cases heq : d.length = b.rawLen
          · simp only [heq, if_true, C07.Slice.toBytes, C07.Slice.store]
            congr 1
            rw [← heq]; exact C07.take_take_prefix d _ d.length (Nat.le_refl _)
          · simp [heq]
        · have : d.length ≠ b.rawLen := by omega
          simp [hd, this, C07.dfailed]
    unfold readStored
    cases v
    · exact absurd rfl hv
    · simp only [C07.decompress, C07.cgoDecompress, hr, hl0, if_false]; exact bounded
    · simp only [C07.decompress, C07.lz4NativeDecompress, hr]; exact bounded
    · simp only [C07.decompress, C07.cgoDecompress, hr, hl0, if_false]; exact bounded
    · simp only [C07.decompress, C07.zstdNativeDecompress, hr, C07.Slice.upTo, Nat.zero_le, if_true, bind]
      simp only [Outcome.bind, hb]
      cases lib.dec ((file.drop b.off).take b.len) with
      | none => simp [C07.dfailed]
      | some d =>
        have hn : ((C07.Slice.mk uncompData 0).append d).len = d.length := by
          unfold C07.Slice.append; split <;> simp
        simp only [hn]
        by_cases heq : d.length = b.rawLen
        · simp only [heq, if_true, Nat.le_refl]
          congr 1
          unfold C07.Slice.append C07.Slice.toBytes
          split
          · simp only [List.take_zero, List.nil_append, Nat.zero_add]
            rw [← heq]; exact C07.take_take_prefix d _ d.length (Nat.le_refl _)
          · simp only [List.take_zero, List.nil_append]
            rw [← heq]; simp
        · simp [heq]

/-! ## the build-constraint table -/

/-- the four named configurations select the four wrapper pairs the constraints describe -/
theorem config_table :
    (Config.ofName "cgo").map (fun c => (c.variant 1, c.variant 2)) = some (.lz4Cgo, .zstdCgo) ∧
    (Config.ofName "nocgo").map (fun c => (c.variant 1, c.variant 2)) = some (.lz4Native, .zstdNative) ∧
    (Config.ofName "noliblz4").map (fun c => (c.variant 1, c.variant 2)) = some (.lz4Native, .zstdCgo) ∧
    (Config.ofName "nolibzstd").map (fun c => (c.variant 1, c.variant 2)) = some (.lz4Cgo, .zstdNative) := by
  decide

/-! ## non-vacuity -/

/-- two different toy codecs for the "system" and the "pure Go" side that decode each other
    (marker byte 255, the system one pads a trailing 0 that both decoders strip) -/
def toySys : C07.Lib :=
  { bound := fun n => n + 2,
    enc := fun _ x => 255 :: x ++ [0],
    dec := fun z => match z with
      | 255 :: x => if x.getLast? = some 0 then some x.dropLast else some x
      | _ => none }

def toyLibs : Libs := ⟨C07.toyLib, C07.toyLib, C07.toyLib, C07.toyLib⟩

/-- the hypotheses of `cross_config_read` are satisfiable for a writer without cgo and a reader
    with cgo on a concrete write, and the wrapper really is run with GPFile-like scratch (length 4,
    junk content) -/
example :
    let w : Config := ⟨false, false, false⟩
    let r : Config := ⟨true, false, false⟩
    let wr : C01.Write := { ts := 300, tm := (1, 0, 0), cnt := (1, 1, 1, 1), cols := List.replicate 8 ([1, 2, 3], [255, 1, 2, 3]) }
    LibsOK w r toyLibs 2 ∧ WrittenBy w toyLibs 2 6 wr ∧ w.variant 2 ≠ r.variant 2 := by
  intro w r wr
  refine ⟨⟨fun _ _ => by simp [libFor, Libs.of, toyLibs, Config.variant, C07.toyLib, w],
           fun _ x => by simp [libFor, Libs.of, toyLibs, Config.variant, C07.toyLib, w],
           fun _ _ => rfl⟩, ⟨by simp [wr], ?_⟩, by decide⟩
  intro p hp
  simp only [wr, List.mem_replicate] at hp
  obtain ⟨_, rfl⟩ := hp
  exact ⟨⟨[9, 9, 9, 9, 9], 4⟩, by decide⟩

/-- outside the hypothesis: a reader library that does not decode the writer's (here: the system
    toy codec pads, the pure-Go toy decoder does not strip) reads back different bytes — codec
    compatibility is a genuine assumption, not a consequence of the wrappers -/
example : C07.toyLib.dec (toySys.enc 0 [1, 2, 3]) ≠ some [1, 2, 3] := by decide

end C02
