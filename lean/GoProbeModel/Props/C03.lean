import GoProbeModel.Model.C03

/-!
C03 — day metadata survives reopening: property theorems.

All statements are about the executable model `Model/C03.lean` of the code as it is now (two
`fix:` commits applied): `marshal`/`unmarshal` (= `(*GPDir).Marshal/Unmarshal`, byte level, layout
constants regenerated from gpdir.go into `Gen/MetaLayout.lean`), `writeBlocks`, `runSession`,
`runAll`, `reopen`, and about the base-62 suffix codec over the tables regenerated from the
`bitpack` dependency (`Gen/B62.lean`). The model is tied to the code by the correspondence harness
(harness/c03.go), bytes compared.

Property theorems: `unmarshal_marshal`, `marshal_rejects`, `write_rejects`, `unmarshal_total`
(+ `unmarshal_truncated`), `reopen_history`, `b62_roundtrip`, `suffix_roundtrip`.
-/
namespace C03
open Gen.MetaLayout

/-! ## bytes -/
theorem be_length (k x : Nat) : (be k x).length = k := by
  induction k generalizing x with
  | zero => rfl
  | succ k ih => simp [be, ih]

theorem beVal_append_single (l : List Nat) (b : Nat) : beVal (l ++ [b]) = beVal l * 256 + b := by
  simp [beVal, List.foldl_append]

theorem beVal_be (k x : Nat) : beVal (be k x) = x % 256 ^ k := by
  induction k generalizing x with
  | zero => simp [be, beVal, Nat.mod_one]
  | succ k ih =>
    simp only [be, beVal_append_single, ih]
    rw [Nat.pow_succ, Nat.mul_comm (256 ^ k) 256, Nat.mod_mul]
    omega

theorem slice_of_drop {bs s post : List Nat} {pos : Nat} (h : bs.drop pos = s ++ post) (hs : 0 < s.length) :
    slice bs pos (pos + s.length) = .ok s := by
  have hl : (bs.drop pos).length = s.length + post.length := by rw [h]; simp
  rw [List.length_drop] at hl
  unfold slice
  have : pos ≤ pos + s.length ∧ pos + s.length ≤ bs.length := by omega
  rw [if_pos this]
  congr 1
  rw [h, Nat.add_sub_cancel_left]
  exact List.take_left' rfl

theorem drop_advance {bs s post : List Nat} {pos : Nat} (h : bs.drop pos = s ++ post) :
    bs.drop (pos + s.length) = post := by
  rw [← List.drop_drop, h]
  exact List.drop_left' rfl

theorem u32At_of_drop {bs post : List Nat} {pos x : Nat} (h : bs.drop pos = be 4 x ++ post) (hx : x < two32) :
    u32At bs pos = .ok x := by
  have := slice_of_drop h (by simp [be_length])
  rw [be_length] at this
  simp only [u32At, this, obind_ok, beVal_be]
  congr 1
  exact Nat.mod_eq_of_lt (by simpa [two32] using hx)

theorem u64At_of_drop {bs post : List Nat} {pos x : Nat} (h : bs.drop pos = be 8 x ++ post) (hx : x < two64) :
    u64At bs pos = .ok x := by
  have := slice_of_drop h (by simp [be_length])
  rw [be_length] at this
  simp only [u64At, this, obind_ok, beVal_be]
  congr 1
  exact Nat.mod_eq_of_lt (by simpa [two64] using hx)

theorem idx_of_drop {bs post : List Nat} {pos b : Nat} (h : bs.drop pos = b :: post) :
    Outcome.idx bs pos = .ok b := by
  have hl : (bs.drop pos).length = post.length + 1 := by rw [h]; simp
  rw [List.length_drop] at hl
  have hp : pos < bs.length := by omega
  have : bs[pos]? = some b := by
    have h2 := List.getElem?_drop (xs := bs) (i := pos) (j := 0)
    rw [h] at h2
    simpa using h2.symm
  simp [Outcome.idx, this]

theorem drop_next {bs s post : List Nat} {pos k : Nat} (h : bs.drop pos = s ++ post) (hk : s.length = k) :
    bs.drop (pos + k) = post := by
  subst hk; exact drop_advance h

theorem descBytes_length (d : Desc) : (descBytes d).length = 9 := by simp [descBytes, be_length]

theorem readDescs_flatMap (bs : List Nat) (ds : List Desc) (post : List Nat) (pos : Nat)
    (h : bs.drop pos = ds.flatMap descBytes ++ post) (ht : ∀ d ∈ ds, d.typed = true) :
    readDescs bs ds.length pos = .ok (ds, pos + 9 * ds.length) ∧ bs.drop (pos + 9 * ds.length) = post := by
  induction ds generalizing pos with
  | nil => simpa [readDescs] using h
  | cons d ds ih =>
    have hd : d.typed = true := ht d (by simp)
    simp only [Desc.typed, Bool.and_eq_true, decide_eq_true_eq] at hd
    obtain ⟨⟨h1, h2⟩, h3⟩ := hd
    simp only [List.flatMap_cons, descBytes, List.append_assoc] at h
    have e1 := u32At_of_drop h h1
    have h4 := drop_next h (be_length 4 d.len)
    have e2 := u32At_of_drop h4 h2
    have h8 := drop_next h4 (be_length 4 d.rawLen)
    rw [Nat.add_assoc] at h8
    have e3 := idx_of_drop (by simpa using h8)
    have h9 : bs.drop (pos + 9) = ds.flatMap descBytes ++ post := by
      have := drop_next (s := [d.enc % 256]) (k := 1) (by simpa using h8) rfl
      simpa [Nat.add_assoc] using this
    obtain ⟨r1, r2⟩ := ih (pos + 9) h9 (fun x hx => ht x (by simp [hx]))
    have henc : d.enc % 256 = d.enc := Nat.mod_eq_of_lt h3
    constructor
    · simp only [List.length_cons, readDescs, e1, e2, e3, r1, obind_ok, henc]
      congr 2; omega
    · rw [← r2]; congr 1; simp only [List.length_cons]; omega

theorem readCols_flatMap (bs : List Nat) (n : Nat) (cols : List Col) (post : List Nat) (pos : Nat)
    (h : bs.drop pos = cols.flatMap colBytes ++ post)
    (ht : ∀ c ∈ cols, c.cur < two64 ∧ c.descs.length = n ∧ ∀ d ∈ c.descs, d.typed = true) :
    readCols bs n cols.length pos = .ok (cols, pos + cols.length * (8 + 9 * n)) ∧
    bs.drop (pos + cols.length * (8 + 9 * n)) = post := by
  induction cols generalizing pos with
  | nil => simpa [readCols] using h
  | cons c cols ih =>
    obtain ⟨hc1, hc2, hc3⟩ := ht c (by simp)
    simp only [List.flatMap_cons, colBytes, List.append_assoc] at h
    have e1 := u64At_of_drop h hc1
    have h8 := drop_next h (be_length 8 c.cur)
    obtain ⟨r1, r2⟩ := readDescs_flatMap bs c.descs _ (pos + 8) h8 hc3
    rw [hc2] at r1 r2
    obtain ⟨q1, q2⟩ := ih (pos + 8 + 9 * n) r2 (fun x hx => ht x (by simp [hx]))
    have harith : pos + 8 + 9 * n + cols.length * (8 + 9 * n) = pos + (cols.length + 1) * (8 + 9 * n) := by
      rw [Nat.add_mul]; omega
    constructor
    · simp only [List.length_cons, readCols, e1, r1, q1, obind_ok, harith]
    · rw [List.length_cons, ← harith]; exact q2

theorem toU64_lt (x : Int) : toU64 x < two64 := by
  unfold toU64 two64; omega

theorem toU64_of_range {x : Int} (h0 : 0 ≤ x) (h1 : x < (two64 : Int)) : toU64 x = x.toNat := by
  unfold toU64; unfold two64 at *; omega

theorem inI64_iff (t : Int) : inI64 t = true ↔ -(9223372036854775808 : Int) ≤ t ∧ t < 9223372036854775808 := by
  unfold inI64 two63
  simp only [Bool.and_eq_true, decide_eq_true_eq]
  omega

theorem wrapI64_of_inI64 {t : Int} (h : inI64 t = true) : wrapI64 t = t := by
  rw [inI64_iff] at h
  unfold wrapI64 toI64 toU64 two63 two64
  split <;> omega

/-- the delta stored for a later block decodes to the block's timestamp -/
theorem wrap_delta {last t : Int} (hl : inI64 last = true) (ht : inI64 t = true) (hle : last ≤ t) :
    wrapI64 (last + ((toU64 (t - last) : Nat) : Int)) = t := by
  rw [inI64_iff] at hl ht
  have : toU64 (t - last) = (t - last).toNat := toU64_of_range (by omega) (by unfold two64; omega)
  rw [this]
  have : last + (((t - last).toNat : Nat) : Int) = t := by omega
  rw [this]
  exact wrapI64_of_inI64 (by rw [inI64_iff]; exact ht)


theorem maxUint32_eq : maxUint32 = 4294967295 := rfl

theorem readEntries_of_marshal (bs : List Nat) (ts : List Int) :
    ∀ (trs : List Traffic) (first : Bool) (last : Int) (e post : List Nat) (pos : Nat),
    marshalEntries first last ts trs = .ok e →
    ts.length = trs.length →
    inI64 last = true → (∀ t ∈ ts, inI64 t = true) →
    (first = true → ∀ t, ts.head? = some t → t = last) →
    bs.drop pos = e ++ post →
    readEntries bs ts.length pos last = .ok (trs, ts) ∧ bs.drop (pos + 16 * ts.length) = post := by
  induction ts with
  | nil =>
    intro trs first last e post pos hm hlen _ _ _ hd
    cases trs with
    | nil => simp [marshalEntries] at hm; subst hm; simpa [readEntries] using hd
    | cons _ _ => simp at hlen
  | cons t ts ih =>
    intro trs first last e post pos hm hlen hl hts hfirst hd
    cases trs with
    | nil => simp at hlen
    | cons tr trs =>
      unfold marshalEntries at hm
      split at hm
      · cases hm
      · rename_i hord
        split at hm
        · cases hm
        · rename_i hrng
          cases hrec : marshalEntries false t ts trs with
          | err _ => rw [hrec] at hm; cases hm
          | panic _ => rw [hrec] at hm; cases hm
          | ok r =>
            rw [hrec] at hm
            simp only [obind_ok, Outcome.ok.injEq] at hm
            subst hm
            have htI : inI64 t = true := hts t (by simp)
            have hle : last ≤ t := by
              cases first with
              | true => have := hfirst rfl t (by simp); omega
              | false => simp at hord; omega
            rw [maxUint32_eq] at hrng
            have hv4 : tr.v4 < two32 := by unfold two32; omega
            have hv6 : tr.v6 < two32 := by unfold two32; omega
            have hdr : tr.drops < two32 := by unfold two32; omega
            have hdl : toU64 (t - last) < two32 := by unfold two32; omega
            simp only [entryBytes, List.append_assoc] at hd
            have e1 := u32At_of_drop hd hv4
            have h4 := drop_next hd (be_length 4 tr.v4)
            have e2 := u32At_of_drop h4 hv6
            have h8 := drop_next h4 (be_length 4 tr.v6)
            rw [Nat.add_assoc] at h8
            have e3 := u32At_of_drop h8 hdr
            have h12 := drop_next h8 (be_length 4 tr.drops)
            rw [Nat.add_assoc] at h12
            have e4 := u32At_of_drop h12 hdl
            have h16 := drop_next h12 (be_length 4 (toU64 (t - last)))
            rw [Nat.add_assoc] at h16
            have hw := wrap_delta hl htI hle
            obtain ⟨q1, q2⟩ := ih trs false t r post (pos + 16) hrec (by simpa using hlen) htI
              (fun x hx => hts x (by simp [hx])) (by simp) h16
            constructor
            · simp only [List.length_cons, readEntries, e1, e2, e3, e4, obind_ok, hw, q1]
            · rw [← q2]; congr 1; simp only [List.length_cons]; omega


theorem fits32_iff (t : Traffic) : t.fits32 = true ↔ t.v4 ≤ 4294967295 ∧ t.v6 ≤ 4294967295 ∧ t.drops ≤ 4294967295 := by
  unfold Traffic.fits32 two32
  simp only [Bool.and_eq_true, decide_eq_true_eq]
  omega

/-- the per-block loop of `Marshal` (after the first block) succeeds exactly on representable input -/
theorem marshalEntries_false_spec (ts : List Int) :
    ∀ (trs : List Traffic) (last : Int), ts.length = trs.length →
    inI64 last = true → (∀ t ∈ ts, inI64 t = true) →
    if deltasOk (last :: ts) = true ∧ trs.all Traffic.fits32 = true
    then ∃ e, marshalEntries false last ts trs = .ok e
    else ∃ e, marshalEntries false last ts trs = .err e := by
  induction ts with
  | nil =>
    intro trs last hlen _ _
    cases trs with
    | nil => simp [deltasOk, marshalEntries]
    | cons _ _ => simp at hlen
  | cons t ts ih =>
    intro trs last hlen hl hts
    cases trs with
    | nil => simp at hlen
    | cons tr trs =>
      have htI : inI64 t = true := hts t (by simp)
      have ih' := ih trs t (by simpa using hlen) htI (fun x hx => hts x (by simp [hx]))
      have hlI := (inI64_iff last).1 hl
      have htI' := (inI64_iff t).1 htI
      unfold marshalEntries
      simp only [deltasOk, List.all_cons, Bool.and_eq_true, decide_eq_true_eq, true_and]
      by_cases hord : t ≤ last
      · rw [if_pos hord]
        rw [if_neg (by omega)]
        exact ⟨_, rfl⟩
      · rw [if_neg hord]
        have hu : toU64 (t - last) = (t - last).toNat := toU64_of_range (by omega) (by unfold two64; omega)
        rw [hu, maxUint32_eq]
        have hf := fits32_iff tr
        by_cases hrng : tr.v4 > 4294967295 ∨ tr.v6 > 4294967295 ∨ tr.drops > 4294967295 ∨ (t - last).toNat > 4294967295
        · rw [if_pos hrng, if_neg (by unfold two32; rw [hf]; omega)]
          exact ⟨_, rfl⟩
        · rw [if_neg hrng]
          have h1 : last < t ∧ t - last < (two32 : Int) := by unfold two32; omega
          have h2 : tr.v4 ≤ 4294967295 ∧ tr.v6 ≤ 4294967295 ∧ tr.drops ≤ 4294967295 := by omega
          by_cases hrest : deltasOk (t :: ts) = true ∧ trs.all Traffic.fits32 = true
          · rw [if_pos hrest] at ih'
            obtain ⟨r, hr⟩ := ih'
            rw [if_pos ⟨⟨h1, hrest.1⟩, hf.2 h2, hrest.2⟩, hr]
            exact ⟨_, rfl⟩
          · rw [if_neg hrest] at ih'
            obtain ⟨r, hr⟩ := ih'
            rw [if_neg (by intro h; exact hrest ⟨h.1.2, h.2.2⟩), hr]
            exact ⟨_, rfl⟩


theorem ncols_eq : ncols = 8 := by decide

structure WT (m : Meta) : Prop where
  version : m.version < two64
  tot : m.tot.v4 < two64 ∧ m.tot.v6 < two64 ∧ m.tot.drops < two64
  cnt : m.cnt.br < two64 ∧ m.cnt.bs < two64 ∧ m.cnt.pr < two64 ∧ m.cnt.ps < two64
  ncols : m.cols.length = ncols
  cols : ∀ c ∈ m.cols, c.cur < two64 ∧ c.descs.length = m.ts.length ∧ ∀ d ∈ c.descs, d.typed = true
  tlen : m.traffic.length = m.ts.length
  traffic : ∀ t ∈ m.traffic, t.typed = true
  ts : ∀ t ∈ m.ts, inI64 t = true
  nblocks : m.ts.length < two63

theorem traffic_typed_iff (t : Traffic) : t.typed = true ↔ t.v4 < two64 ∧ t.v6 < two64 ∧ t.drops < two64 := by
  unfold Traffic.typed; simp only [Bool.and_eq_true, decide_eq_true_eq]; omega

theorem counts_typed_iff (c : Counts) : c.typed = true ↔ c.br < two64 ∧ c.bs < two64 ∧ c.pr < two64 ∧ c.ps < two64 := by
  unfold Counts.typed; simp only [Bool.and_eq_true, decide_eq_true_eq]; omega

theorem wellTyped_iff (m : Meta) : wellTyped ncols m = true ↔ WT m := by
  unfold wellTyped
  simp only [Bool.and_eq_true, decide_eq_true_eq, List.all_eq_true, beq_iff_eq, traffic_typed_iff m.tot,
    counts_typed_iff m.cnt]
  constructor
  · rintro ⟨⟨⟨⟨⟨⟨⟨⟨h1, h2⟩, h3⟩, h4⟩, h5⟩, h6⟩, h7⟩, h8⟩, h9⟩
    exact ⟨h1, h2, h3, h4, fun c hc => by have := h5 c hc; exact ⟨this.1.1, this.1.2, this.2⟩, h6, h7, h8, h9⟩
  · intro h
    exact ⟨⟨⟨⟨⟨⟨⟨⟨h.version, h.tot⟩, h.cnt⟩, h.ncols⟩,
      fun c hc => ⟨⟨(h.cols c hc).1, (h.cols c hc).2.1⟩, (h.cols c hc).2.2⟩⟩, h.tlen⟩, h.traffic⟩, h.ts⟩, h.nblocks⟩

theorem shapeOk_of_WT {m : Meta} (h : WT m) : shapeOk m = true := by
  unfold shapeOk
  simp only [Bool.and_eq_true, beq_iff_eq, List.all_eq_true]
  exact ⟨⟨h.ncols, fun c hc => (h.cols c hc).2.1⟩, h.tlen⟩

theorem descCheck_of_WT {m : Meta} (h : WT m) :
    (m.cols.any fun c => c.descs.any fun d => decide (d.len > maxUint32 ∨ d.rawLen > maxUint32)) = false := by
  rw [Bool.eq_false_iff]
  intro hany
  simp only [List.any_eq_true, decide_eq_true_eq] at hany
  obtain ⟨c, hc, d, hd, hbad⟩ := hany
  have := (h.cols c hc).2.2 d hd
  simp only [Desc.typed, Bool.and_eq_true, decide_eq_true_eq] at this
  rw [maxUint32_eq] at hbad
  unfold two32 at this
  omega

theorem marshalEntries_true_cons (t0 : Int) (rest : List Int) (tr : Traffic) (trs : List Traffic) :
    marshalEntries true t0 (t0 :: rest) (tr :: trs) =
      if tr.fits32 = true then (marshalEntries false t0 rest trs).bind fun r => .ok (entryBytes tr 0 ++ r)
      else .err "encoding-size" := by
  have hf := fits32_iff tr
  have h0 : toU64 (t0 - t0) = 0 := by simp [toU64]
  conv => lhs; unfold marshalEntries
  rw [if_neg (by simp), h0, maxUint32_eq]
  by_cases hc : tr.v4 > 4294967295 ∨ tr.v6 > 4294967295 ∨ tr.drops > 4294967295 ∨ 0 > 4294967295
  · rw [if_pos hc, if_neg (by rw [hf]; omega)]
  · rw [if_neg hc, if_pos (by rw [hf]; omega)]

/-- what `Marshal` writes for a well-typed value: the whole layout if the value is representable,
    an error otherwise -/
theorem marshal_cases (m : Meta) (hw : WT m) :
    if representable m = true then
      ∃ e, marshalEntries true (m.ts.headD 0) m.ts m.traffic = .ok e ∧
        marshal m = .ok (headerBytes m ++ m.cols.flatMap colBytes ++ be 8 (toU64 (m.ts.headD 0)) ++ e)
    else ∃ e, marshal m = .err e := by
  have hmar : marshal m = (marshalEntries true (m.ts.headD 0) m.ts m.traffic).bind fun e =>
      .ok (headerBytes m ++ m.cols.flatMap colBytes ++ be 8 (toU64 (m.ts.headD 0)) ++ e) := by
    unfold marshal
    rw [shapeOk_of_WT hw, descCheck_of_WT hw]
    simp
  rw [hmar]
  unfold representable
  have htl := hw.tlen
  cases hts : m.ts with
  | nil =>
    rw [hts] at htl
    have : m.traffic = [] := List.length_eq_zero_iff.mp htl
    simp [this, deltasOk, marshalEntries]
  | cons t0 rest =>
    rw [hts] at htl
    cases htr : m.traffic with
    | nil => rw [htr] at htl; simp at htl
    | cons tr trs =>
      rw [htr] at htl
      have hI : ∀ t ∈ t0 :: rest, inI64 t = true := by rw [← hts]; exact hw.ts
      have spec := marshalEntries_false_spec rest trs t0 (by simp at htl; omega) (hI t0 (by simp))
        (fun x hx => hI x (by simp [hx]))
      simp only [List.headD_cons, List.all_cons, Bool.and_eq_true, marshalEntries_true_cons]
      by_cases hf : tr.fits32 = true
      · rw [if_pos hf]
        by_cases hrest : deltasOk (t0 :: rest) = true ∧ trs.all Traffic.fits32 = true
        · rw [if_pos hrest] at spec
          obtain ⟨r, hr⟩ := spec
          rw [if_pos ⟨hrest.1, hf, hrest.2⟩, hr]
          exact ⟨_, rfl, rfl⟩
        · rw [if_neg hrest] at spec
          obtain ⟨r, hr⟩ := spec
          rw [if_neg (fun h => hrest ⟨h.1, h.2.2⟩), hr]
          exact ⟨_, rfl⟩
      · rw [if_neg hf, if_neg (fun h => hf h.2.1)]
        exact ⟨_, rfl⟩


theorem marshalEntries_length (ts : List Int) :
    ∀ (trs : List Traffic) (first : Bool) (last : Int) (e : List Nat),
    marshalEntries first last ts trs = .ok e → ts.length = trs.length → e.length = 16 * ts.length := by
  induction ts with
  | nil =>
    intro trs first last e hm hlen
    cases trs with
    | nil => simp [marshalEntries] at hm; subst hm; rfl
    | cons _ _ => simp at hlen
  | cons t ts ih =>
    intro trs first last e hm hlen
    cases trs with
    | nil => simp at hlen
    | cons tr trs =>
      unfold marshalEntries at hm
      split at hm
      · cases hm
      · split at hm
        · cases hm
        · cases hrec : marshalEntries false t ts trs with
          | err _ => rw [hrec] at hm; cases hm
          | panic _ => rw [hrec] at hm; cases hm
          | ok r =>
            rw [hrec] at hm
            simp only [obind_ok, Outcome.ok.injEq] at hm
            subst hm
            have := ih trs false t r hrec (by simpa using hlen)
            simp [entryBytes, be_length, this]; omega

theorem colBytes_length (c : Col) : (colBytes c).length = 8 + 9 * c.descs.length := by
  simp only [colBytes, List.length_append, be_length, List.length_flatMap, descBytes_length]
  congr 1
  induction c.descs with
  | nil => rfl
  | cons d ds ih => simp [ih]; omega

theorem flatMap_colBytes_length (cols : List Col) (n : Nat) (h : ∀ c ∈ cols, c.descs.length = n) :
    (cols.flatMap colBytes).length = cols.length * (8 + 9 * n) := by
  induction cols with
  | nil => simp
  | cons c cols ih =>
    simp only [List.flatMap_cons, List.length_append, List.length_cons, colBytes_length]
    rw [ih (fun x hx => h x (by simp [hx])), h c (by simp), Nat.add_mul]; omega

theorem headerBytes_length (m : Meta) : (headerBytes m).length = 72 := by
  simp [headerBytes, be_length]

theorem idx_lt {bs : List Nat} {i : Nat} (h : i < bs.length) : ∃ b, Outcome.idx bs i = .ok b := by
  unfold Outcome.idx
  rw [List.getElem?_eq_getElem h]
  exact ⟨_, rfl⟩

/-- **unmarshal_marshal** — "reopening the day yields the same …": every well-typed, representable
    metadata value is marshalled without error and `Unmarshal` of the produced bytes gives back
    exactly that value (timestamps, per-block counts, totals, offsets, descriptors, version). -/
theorem unmarshal_marshal (m : Meta) (hw : wellTyped ncols m = true) (hr : representable m = true) :
    ∃ bs, marshal m = .ok bs ∧ unmarshal bs = .ok m := by
  rw [wellTyped_iff] at hw
  have hc := marshal_cases m hw
  rw [if_pos hr] at hc
  obtain ⟨e, hme, hmar⟩ := hc
  refine ⟨_, hmar, ?_⟩
  generalize hbs : headerBytes m ++ m.cols.flatMap colBytes ++ be 8 (toU64 (m.ts.headD 0)) ++ e = bs
  have hn := hw.tlen
  have hel := marshalEntries_length m.ts m.traffic true _ e hme hn.symm
  have hcl := flatMap_colBytes_length m.cols m.ts.length (fun c hc => (hw.cols c hc).2.1)
  have hlen : bs.length = 144 + 88 * m.ts.length := by
    rw [← hbs]
    simp only [List.length_append, headerBytes_length, hcl, hel, be_length, hw.ncols, ncols_eq]
    omega
  -- header
  have hd0 : bs.drop 0 = be 8 m.version ++ (be 8 m.traffic.length ++ (be 8 m.tot.v4 ++ (be 8 m.tot.v6 ++
      (be 8 m.tot.drops ++ (be 8 m.cnt.br ++ (be 8 m.cnt.bs ++ (be 8 m.cnt.pr ++ (be 8 m.cnt.ps ++
      (m.cols.flatMap colBytes ++ (be 8 (toU64 (m.ts.headD 0)) ++ (e ++ []))))))))))) := by
    rw [← hbs]; simp [headerBytes]
  have e0 := u64At_of_drop hd0 hw.version
  have hd8 := drop_next hd0 (be_length 8 _)
  have e8 := u64At_of_drop hd8 (by rw [hn]; have := hw.nblocks; unfold two63 at this; unfold two64; omega)
  have hd16 := drop_next hd8 (be_length 8 _)
  have e16 := u64At_of_drop hd16 hw.tot.1
  have hd24 := drop_next hd16 (be_length 8 _)
  have e24 := u64At_of_drop hd24 hw.tot.2.1
  have hd32 := drop_next hd24 (be_length 8 _)
  have e32 := u64At_of_drop hd32 hw.tot.2.2
  have hd40 := drop_next hd32 (be_length 8 _)
  have e40 := u64At_of_drop hd40 hw.cnt.1
  have hd48 := drop_next hd40 (be_length 8 _)
  have e48 := u64At_of_drop hd48 hw.cnt.2.1
  have hd56 := drop_next hd48 (be_length 8 _)
  have e56 := u64At_of_drop hd56 hw.cnt.2.2.1
  have hd64 := drop_next hd56 (be_length 8 _)
  have e64 := u64At_of_drop hd64 hw.cnt.2.2.2
  have hd72 := drop_next hd64 (be_length 8 _)
  simp only [Nat.zero_add, Nat.reduceAdd] at e0 e8 e16 e24 e32 e40 e48 e56 e64 hd72
  -- columns
  obtain ⟨c1, c2⟩ := readCols_flatMap bs m.ts.length m.cols _ 72 hd72
    (fun c hc => ⟨(hw.cols c hc).1, (hw.cols c hc).2.1, (hw.cols c hc).2.2⟩)
  rw [hw.ncols] at c1 c2
  have et := u64At_of_drop c2 (toU64_lt _)
  have hdE := drop_next c2 (be_length 8 _)
  -- entries
  have h0I : inI64 (m.ts.headD 0) = true := by
    cases hts : m.ts with
    | nil => decide
    | cons t _ => exact hw.ts t (by rw [hts]; simp)
  have hwr : toI64 (toU64 (m.ts.headD 0)) = m.ts.headD 0 := wrapI64_of_inI64 h0I
  obtain ⟨r1, _⟩ := readEntries_of_marshal bs m.ts m.traffic true (m.ts.headD 0) e [] _ hme hn.symm h0I hw.ts
    (by intro _ t ht; cases hts : m.ts with
        | nil => rw [hts] at ht; cases ht
        | cons a _ => rw [hts] at ht; simp at ht; subst ht; rfl) hdE
  have hidx := idx_lt (bs := bs) (i := 143) (by omega)
  obtain ⟨b143, hb143⟩ := hidx
  unfold unmarshal
  have hmin : minMetadataFileSize = 144 := rfl
  have hper : metadataPerBlockSize = 88 := rfl
  have hoff : metadataBlockOffsetsPos = 72 := rfl
  rw [hmin, hper, hoff, if_neg (by omega)]
  simp only [Nat.add_one_sub_one, hb143, obind_ok, e0, e8]
  rw [if_neg (by rw [hlen, hn]; omega)]
  simp only [e16, e24, e32, e40, e48, e56, e64, obind_ok, hn, c1, et, hwr, r1]


/-- **marshal_rejects** — "a write the format cannot represent faithfully is rejected with an error
    rather than stored in altered form" at the codec: a well-typed value that is not representable
    (a timestamp not after its predecessor, a delta or a per-block count ≥ 2^32) makes `Marshal`
    return an error; no bytes are produced. -/
theorem marshal_rejects (m : Meta) (hw : wellTyped ncols m = true) (hr : representable m = false) :
    ∃ e, marshal m = .err e := by
  rw [wellTyped_iff] at hw
  have hc := marshal_cases m hw
  rw [if_neg (by simp [hr])] at hc
  exact hc

/-! ## Unmarshal never panics -/

theorem slice_ok {bs : List Nat} {a b : Nat} (h1 : a ≤ b) (h2 : b ≤ bs.length) : ∃ s, slice bs a b = .ok s := by
  unfold slice; rw [if_pos ⟨h1, h2⟩]; exact ⟨_, rfl⟩

theorem u64At_ok {bs : List Nat} {pos : Nat} (h : pos + 8 ≤ bs.length) : ∃ v, u64At bs pos = .ok v := by
  obtain ⟨s, hs⟩ := slice_ok (bs := bs) (a := pos) (b := pos + 8) (by omega) h
  exact ⟨beVal s, by simp [u64At, hs]⟩

theorem u32At_ok {bs : List Nat} {pos : Nat} (h : pos + 4 ≤ bs.length) : ∃ v, u32At bs pos = .ok v := by
  obtain ⟨s, hs⟩ := slice_ok (bs := bs) (a := pos) (b := pos + 4) (by omega) h
  exact ⟨beVal s, by simp [u32At, hs]⟩

theorem readDescs_ok (bs : List Nat) (n : Nat) : ∀ pos, pos + 9 * n ≤ bs.length →
    ∃ ds, readDescs bs n pos = .ok (ds, pos + 9 * n) := by
  induction n with
  | zero => intro pos _; exact ⟨[], rfl⟩
  | succ n ih =>
    intro pos h
    obtain ⟨a, ha⟩ := u32At_ok (bs := bs) (pos := pos) (by omega)
    obtain ⟨b, hb⟩ := u32At_ok (bs := bs) (pos := pos + 4) (by omega)
    obtain ⟨c, hc⟩ := idx_lt (bs := bs) (i := pos + 8) (by omega)
    obtain ⟨ds, hds⟩ := ih (pos + 9) (by omega)
    refine ⟨⟨a, b, c⟩ :: ds, ?_⟩
    simp only [readDescs, ha, hb, hc, hds, obind_ok]
    congr 2; omega

theorem readCols_ok (bs : List Nat) (n k : Nat) : ∀ pos, pos + k * (8 + 9 * n) ≤ bs.length →
    ∃ cs, readCols bs n k pos = .ok (cs, pos + k * (8 + 9 * n)) := by
  induction k with
  | zero => intro pos _; exact ⟨[], by simp [readCols]⟩
  | succ k ih =>
    intro pos h
    rw [Nat.add_mul] at h
    obtain ⟨a, ha⟩ := u64At_ok (bs := bs) (pos := pos) (by omega)
    obtain ⟨ds, hds⟩ := readDescs_ok bs n (pos + 8) (by omega)
    obtain ⟨cs, hcs⟩ := ih (pos + 8 + 9 * n) (by omega)
    refine ⟨⟨a, ds⟩ :: cs, ?_⟩
    simp only [readCols, ha, hds, hcs, obind_ok]
    congr 2; rw [Nat.add_mul]; omega

theorem readEntries_ok (bs : List Nat) (n : Nat) : ∀ pos last, pos + 16 * n ≤ bs.length →
    ∃ r, readEntries bs n pos last = .ok r := by
  induction n with
  | zero => intro pos last _; exact ⟨_, rfl⟩
  | succ n ih =>
    intro pos last h
    obtain ⟨a, ha⟩ := u32At_ok (bs := bs) (pos := pos) (by omega)
    obtain ⟨b, hb⟩ := u32At_ok (bs := bs) (pos := pos + 4) (by omega)
    obtain ⟨c, hc⟩ := u32At_ok (bs := bs) (pos := pos + 8) (by omega)
    obtain ⟨d, hd⟩ := u32At_ok (bs := bs) (pos := pos + 12) (by omega)
    obtain ⟨r, hr⟩ := ih (pos + 16) (wrapI64 (last + (d : Int))) (by omega)
    refine ⟨(⟨a, b, c⟩ :: r.1, wrapI64 (last + (d : Int)) :: r.2), ?_⟩
    simp only [readEntries, ha, hb, hc, hd, hr, obind_ok]

/-- `Unmarshal` on any byte string either reports `ErrInputSizeTooSmall` or decodes a value -/
theorem unmarshal_ok_or_err (bs : List Nat) : unmarshal bs = .err "too-small" ∨ ∃ m, unmarshal bs = .ok m := by
  unfold unmarshal
  have hmin : minMetadataFileSize = 144 := rfl
  have hper : metadataPerBlockSize = 88 := rfl
  have hoff : metadataBlockOffsetsPos = 72 := rfl
  rw [hmin, hper, hoff]
  by_cases hlen : bs.length < 144
  · left; rw [if_pos hlen]
  · rw [if_neg hlen]
    obtain ⟨b143, hb143⟩ := idx_lt (bs := bs) (i := 143) (by omega)
    obtain ⟨v, hv⟩ := u64At_ok (bs := bs) (pos := 0) (by omega)
    obtain ⟨n, hn⟩ := u64At_ok (bs := bs) (pos := 8) (by omega)
    simp only [Nat.add_one_sub_one, hb143, hv, hn, obind_ok]
    by_cases hnb : n > (bs.length - 144) / 88
    · left; rw [if_pos hnb]
    · rw [if_neg hnb]
      right
      have hsz : 144 + 88 * n ≤ bs.length := by
        have : n * 88 ≤ bs.length - 144 := (Nat.le_div_iff_mul_le (by decide)).1 (by omega)
        omega
      obtain ⟨a16, h16⟩ := u64At_ok (bs := bs) (pos := 16) (by omega)
      obtain ⟨a24, h24⟩ := u64At_ok (bs := bs) (pos := 24) (by omega)
      obtain ⟨a32, h32⟩ := u64At_ok (bs := bs) (pos := 32) (by omega)
      obtain ⟨a40, h40⟩ := u64At_ok (bs := bs) (pos := 40) (by omega)
      obtain ⟨a48, h48⟩ := u64At_ok (bs := bs) (pos := 48) (by omega)
      obtain ⟨a56, h56⟩ := u64At_ok (bs := bs) (pos := 56) (by omega)
      obtain ⟨a64, h64⟩ := u64At_ok (bs := bs) (pos := 64) (by omega)
      obtain ⟨cs, hcs⟩ := readCols_ok bs n ncols 72 (by rw [ncols_eq]; omega)
      rw [ncols_eq] at hcs
      obtain ⟨t0, ht0⟩ := u64At_ok (bs := bs) (pos := 72 + 8 * (8 + 9 * n)) (by omega)
      obtain ⟨r, hr⟩ := readEntries_ok bs n (72 + 8 * (8 + 9 * n) + 8) (toI64 t0) (by omega)
      rw [ncols_eq]
      simp only [h16, h24, h32, h40, h48, h56, h64, hcs, ht0, hr, obind_ok]
      exact ⟨_, rfl⟩

/-- **unmarshal_total** — "truncated or malformed metadata files are reported as errors, never as a
    crash": for ALL byte strings no checked index / slice expression of `Unmarshal` fails. -/
theorem unmarshal_total (bs : List Nat) : ∀ why, unmarshal bs ≠ .panic why := by
  intro why h
  rcases unmarshal_ok_or_err bs with h1 | ⟨m, h1⟩ <;> rw [h1] at h <;> cases h

/-- a file shorter than the blocks it announces is reported as an error (the spec's `truncated`) -/
theorem unmarshal_truncated (bs : List Nat) (h : truncated bs = true) : unmarshal bs = .err "too-small" := by
  unfold truncated at h
  simp only [Bool.or_eq_true, decide_eq_true_eq] at h
  unfold unmarshal
  have hmin : minMetadataFileSize = 144 := rfl
  have hper : metadataPerBlockSize = 88 := rfl
  rw [hmin, hper]
  by_cases hlen : bs.length < 144
  · rw [if_pos hlen]
  · rw [if_neg hlen]
    obtain ⟨b143, hb143⟩ := idx_lt (bs := bs) (i := 143) (by omega)
    obtain ⟨v, hv⟩ := u64At_ok (bs := bs) (pos := 0) (by omega)
    have hn : u64At bs 8 = .ok (beVal ((bs.drop 8).take 8)) := by
      unfold u64At slice
      rw [if_pos (by omega)]
      simp
    simp only [Nat.add_one_sub_one, hb143, hv, hn, obind_ok]
    rw [if_pos]
    have h2 : bs.length < 144 + 88 * beVal ((bs.drop 8).take 8) := by omega
    have : (bs.length - 144) / 88 < beVal ((bs.drop 8).take 8) := by
      rw [Nat.div_lt_iff_lt_mul (by decide)]; omega
    exact this


/-! ## the write path -/

theorem deltasOk_snoc (ts : List Int) (t : Int) :
    deltasOk (ts ++ [t]) = (deltasOk ts && match ts.getLast? with
      | none => true
      | some l => decide (l < t) && decide (t - l < (two32 : Int))) := by
  induction ts with
  | nil => simp [deltasOk]
  | cons a ts ih =>
    cases ts with
    | nil => simp [deltasOk]
    | cons b rest =>
      have : (a :: b :: rest) ++ [t] = a :: b :: (rest ++ [t]) := rfl
      rw [this, deltasOk, deltasOk]
      have ih' : deltasOk (b :: (rest ++ [t])) = _ := ih
      rw [ih', List.getLast?_cons_cons]
      simp only [Bool.and_assoc]

theorem write_typed_iff (w : Write) : w.typed = true ↔
    inI64 w.ts = true ∧ w.tr.typed = true ∧ w.cn.typed = true ∧ w.lens.length = ncols := by
  unfold Write.typed
  simp only [Bool.and_eq_true, beq_iff_eq]
  constructor
  · rintro ⟨⟨⟨a, b⟩, c⟩, d⟩; exact ⟨a, b, c, d⟩
  · rintro ⟨a, b, c, d⟩; exact ⟨⟨⟨a, b⟩, c⟩, d⟩

/-- what `checkBlockEncodable` = nil says -/
theorem check_none {m : Meta} {w : Write} (h : checkBlockEncodable m w = none) :
    w.tr.fits32 = true ∧ (∀ l ∈ w.lens, l < two32) ∧
    (∀ last, m.ts.getLast? = some last → last < w.ts ∧ toU64 (w.ts - last) ≤ 4294967295) := by
  unfold checkBlockEncodable at h
  rw [maxUint32_eq] at h
  split at h
  · cases h
  · rename_i h1
    split at h
    · cases h
    · rename_i h2
      refine ⟨(fits32_iff _).2 (by omega), ?_, ?_⟩
      · intro l hl
        have : ¬ (l > 4294967295) := by
          intro hgt; apply h2
          simp only [List.any_eq_true, decide_eq_true_eq]
          exact ⟨l, hl, hgt⟩
        unfold two32; omega
      · intro last hlast
        rw [hlast] at h
        simp only at h
        split at h
        · cases h
        · split at h
          · cases h
          · omega

theorem check_some_of {m : Meta} {w : Write}
    (h : w.tr.fits32 = false ∨ ∃ last, m.ts.getLast? = some last ∧ ¬ (last < w.ts ∧ toU64 (w.ts - last) ≤ 4294967295)) :
    ∃ e, checkBlockEncodable m w = some e := by
  cases hc : checkBlockEncodable m w with
  | some e => exact ⟨e, rfl⟩
  | none =>
    obtain ⟨h1, _, h3⟩ := check_none hc
    rcases h with h | ⟨last, hl, hn⟩
    · rw [h1] at h; cases h
    · exact absurd (h3 last hl) hn

theorem add64_lt (a b : Nat) : add64 a b < two64 := by
  unfold add64; exact Nat.mod_lt _ (by decide)

theorem WT_newMetadata : WT newMetadata := by
  refine ⟨by decide, by decide, by decide, by simp [newMetadata], ?_, rfl, by simp [newMetadata], by simp [newMetadata], by decide⟩
  intro c hc
  simp only [newMetadata, List.mem_replicate] at hc
  rw [hc.2]
  exact ⟨by decide, rfl, by simp⟩

theorem rep_newMetadata : representable newMetadata = true := by decide

theorem encNull_lt : EncoderTypeNull < 256 := by decide

/-- the bookkeeping of an accepted block keeps the metadata well-typed -/
theorem WT_push {m : Meta} {w : Write} (hm : WT m) (hw : w.typed = true)
    (hl : ∀ l ∈ w.lens, l < two32) (hn : m.ts.length + 1 < two63) : WT (push m w) := by
  obtain ⟨hwts, hwtr, hwcn, hwl⟩ := (write_typed_iff w).1 hw
  refine ⟨hm.version, ?_, ?_, ?_, ?_, ?_, ?_, ?_, ?_⟩
  · exact ⟨add64_lt _ _, add64_lt _ _, add64_lt _ _⟩
  · exact ⟨add64_lt _ _, add64_lt _ _, add64_lt _ _, add64_lt _ _⟩
  · simp only [push, List.length_zipWith, hm.ncols, hwl, Nat.min_self]
  · intro c hc
    simp only [push, List.mem_iff_getElem, List.length_zipWith, List.getElem_zipWith] at hc
    obtain ⟨i, hi, rfl⟩ := hc
    have hci := hm.cols m.cols[i] (List.getElem_mem _)
    refine ⟨add64_lt _ _, by simp [push, hci.2.1], ?_⟩
    intro d hd
    simp only [List.mem_append, List.mem_singleton] at hd
    rcases hd with hd | rfl
    · exact hci.2.2 d hd
    · have := hl w.lens[i] (List.getElem_mem _)
      simp only [Desc.typed, Bool.and_eq_true, decide_eq_true_eq]
      exact ⟨⟨this, this⟩, encNull_lt⟩
  · simp [push, hm.tlen]
  · intro t ht
    simp only [push, List.mem_append, List.mem_singleton] at ht
    rcases ht with ht | rfl
    · exact hm.traffic t ht
    · exact hwtr
  · intro t ht
    simp only [push, List.mem_append, List.mem_singleton] at ht
    rcases ht with ht | rfl
    · exact hm.ts t ht
    · exact hwts
  · simpa [push] using hn

theorem getLast_inI64 {m : Meta} (hm : WT m) {last : Int} (h : m.ts.getLast? = some last) : inI64 last = true :=
  hm.ts last (List.mem_of_getLast? h)

/-- `checkBlockEncodable` = nil is exactly "the metadata stays representable" -/
theorem rep_push_iff {m : Meta} {w : Write} (hm : WT m) (hr : representable m = true) (hw : w.typed = true) :
    representable (push m w) = true ↔
      (w.tr.fits32 = true ∧ ∀ last, m.ts.getLast? = some last → last < w.ts ∧ toU64 (w.ts - last) ≤ 4294967295) := by
  obtain ⟨hwts, _, _, _⟩ := (write_typed_iff w).1 hw
  unfold representable at hr ⊢
  simp only [Bool.and_eq_true] at hr
  cases hl : m.ts.getLast? with
  | none =>
    simp [push, deltasOk_snoc, hl, hr.1, hr.2]
  | some last =>
    have hlI := (inI64_iff last).1 (getLast_inI64 hm hl)
    have hwI := (inI64_iff w.ts).1 hwts
    simp only [push, deltasOk_snoc, hl, List.all_append, List.all_cons, List.all_nil, Bool.and_true,
      Bool.and_eq_true, hr.1, hr.2, true_and, decide_eq_true_eq, Option.some.injEq, forall_eq']
    constructor
    · rintro ⟨⟨h1, h2⟩, h3⟩
      refine ⟨h3, h1, ?_⟩
      rw [toU64_of_range (by omega) (by unfold two64; omega)]
      unfold two32 at h2; omega
    · rintro ⟨h3, h1, h2⟩
      rw [toU64_of_range (by omega) (by unfold two64; omega)] at h2
      exact ⟨⟨h1, by unfold two32; omega⟩, h3⟩

/-- an accepted `WriteBlocks` appends exactly the block and keeps the invariants -/
theorem writeBlocks_ok {m m' : Meta} {w : Write} (hm : WT m) (hr : representable m = true) (hw : w.typed = true)
    (hn : m.ts.length + 1 < two63) (h : writeBlocks m w = .ok m') :
    m' = push m w ∧ WT m' ∧ representable m' = true := by
  unfold writeBlocks at h
  cases hc : checkBlockEncodable m w with
  | some e => rw [hc] at h; cases h
  | none =>
    rw [hc] at h
    simp only at h
    split at h
    · cases h
    · cases h
      obtain ⟨h1, h2, h3⟩ := check_none hc
      exact ⟨rfl, WT_push hm hw h2 hn, (rep_push_iff hm hr hw).2 ⟨h1, h3⟩⟩

/-- **write_rejects** — the write path: a block that would make the day's metadata unrepresentable
    (timestamp not after the last stored block, delta ≥ 2^32, a per-block count ≥ 2^32) is
    rejected by `WriteBlocks` with an error, before anything is changed. -/
theorem write_rejects {m : Meta} {w : Write} (hm : wellTyped ncols m = true) (hr : representable m = true)
    (hw : w.typed = true) (hbad : representable (push m w) = false) :
    ∃ e, writeBlocks m w = .err e := by
  rw [wellTyped_iff] at hm
  have hnot : ¬ (w.tr.fits32 = true ∧ ∀ last, m.ts.getLast? = some last → last < w.ts ∧ toU64 (w.ts - last) ≤ 4294967295) := by
    rw [← rep_push_iff hm hr hw, hbad]; simp
  have : ∃ e, checkBlockEncodable m w = some e := by
    apply check_some_of
    by_cases hf : w.tr.fits32 = true
    · right
      cases hl : m.ts.getLast? with
      | none => exact absurd ⟨hf, by simp [hl]⟩ hnot
      | some last =>
        refine ⟨last, rfl, fun hgood => hnot ⟨hf, ?_⟩⟩
        intro l hl'; rw [hl] at hl'; cases hl'; exact hgood
    · left; simpa using hf
  obtain ⟨e, he⟩ := this
  exact ⟨e, by simp [writeBlocks, he]⟩


/-! ## histories -/

theorem err_ne_ok (e : String) : ("err:" ++ e == "ok") = false := by
  rw [beq_eq_false_iff_ne]
  intro h
  have := congrArg String.length h
  simp [String.length_append] at this
  have h2 : "err:".length = 4 := by decide
  have h3 : "ok".length = 2 := by decide
  omega

theorem foldl_push_ts (ws : List Write) : ∀ m : Meta, (ws.foldl push m).ts = m.ts ++ ws.map (·.ts) := by
  induction ws with
  | nil => intro m; simp
  | cons w ws ih => intro m; simp [ih, push]

theorem foldl_push_traffic (ws : List Write) : ∀ m : Meta, (ws.foldl push m).traffic = m.traffic ++ ws.map (·.tr) := by
  induction ws with
  | nil => intro m; simp
  | cons w ws ih => intro m; simp [ih, push]

theorem foldl_push_tot (ws : List Write) : ∀ m : Meta,
    (ws.foldl push m).tot = ws.foldl (fun a w => a.add w.tr) m.tot := by
  induction ws with
  | nil => intro m; rfl
  | cons w ws ih => intro m; simp only [List.foldl_cons, ih]; rfl

theorem foldl_push_cnt (ws : List Write) : ∀ m : Meta,
    (ws.foldl push m).cnt = ws.foldl (fun a w => a.add w.cn) m.cnt := by
  induction ws with
  | nil => intro m; rfl
  | cons w ws ih => intro m; simp only [List.foldl_cons, ih]; rfl

/-- the blocks of a session's loop that `WriteBlocks` accepted, by the results it returned -/
def okWrites (ws : List Write) (rs : List String) : List Write :=
  ((ws.zip rs).filter (fun p => p.2 == "ok")).map (·.1)

theorem okWrites_length_le (ws : List Write) (rs : List String) : (okWrites ws rs).length ≤ ws.length := by
  unfold okWrites
  rw [List.length_map]
  exact Nat.le_trans (List.length_filter_le _ _) (by simp [List.length_zip]; omega)

theorem writeLoop_spec (ws : List Write) : ∀ m, WT m → representable m = true → (∀ w ∈ ws, w.typed = true) →
    m.ts.length + ws.length < two63 →
    (writeLoop m ws).1 = (okWrites ws (writeLoop m ws).2.1).foldl push m ∧
    WT (writeLoop m ws).1 ∧ representable (writeLoop m ws).1 = true := by
  induction ws with
  | nil => intro m hm hr _ _; exact ⟨rfl, hm, hr⟩
  | cons w ws ih =>
    intro m hm hr hty hn
    simp only [List.length_cons] at hn
    unfold writeLoop
    cases hwb : writeBlocks m w with
    | ok m' =>
      obtain ⟨h1, h2, h3⟩ := writeBlocks_ok hm hr (hty w (by simp)) (by omega) hwb
      have hlen : m'.ts.length = m.ts.length + 1 := by rw [h1]; simp [push]
      obtain ⟨i1, i2, i3⟩ := ih m' h2 h3 (fun x hx => hty x (by simp [hx])) (by omega)
      refine ⟨?_, i2, i3⟩
      simp only [okWrites, List.zip_cons_cons, List.filter_cons, beq_self_eq_true, if_true, List.map_cons, List.foldl_cons]
      rw [← h1]; exact i1
    | err e =>
      refine ⟨?_, hm, hr⟩
      simp [okWrites, err_ne_ok]
    | panic e =>
      refine ⟨?_, hm, hr⟩
      have : ("panic" == "ok") = false := by decide
      simp [okWrites, this]

theorem metaOf_append (acc ws : List Write) : metaOf (acc ++ ws) = ws.foldl push (metaOf acc) := by
  simp [metaOf, List.foldl_append]

theorem metaOf_ts (acc : List Write) : (metaOf acc).ts = specTs acc := by
  simp [metaOf, foldl_push_ts, newMetadata, specTs]

theorem metaOf_traffic (acc : List Write) : (metaOf acc).traffic = specTraffic acc := by
  simp [metaOf, foldl_push_traffic, newMetadata, specTraffic]

theorem metaOf_tot (acc : List Write) : (metaOf acc).tot = specTot acc := by
  simp [metaOf, foldl_push_tot, newMetadata, specTot]

theorem metaOf_cnt (acc : List Write) : (metaOf acc).cnt = specCnt acc := by
  simp [metaOf, foldl_push_cnt, newMetadata, specCnt]

/-- invariant of a day directory: the `.blockmeta` file (if any) is the marshalled metadata of the
    accepted history, which is well-typed and representable -/
def Inv (disk : Option (List Nat)) (acc : List Write) : Prop :=
  WT (metaOf acc) ∧ representable (metaOf acc) = true ∧
  match disk with
  | none => acc = []
  | some bs => marshal (metaOf acc) = .ok bs

theorem acceptedOf_single (s : Session) (r : SessionResult) :
    acceptedOf [s] [r] = if r.close == "ok" then okWrites s.writes r.writes else [] := by
  simp [acceptedOf, okWrites]

theorem acceptedOf_cons (s : Session) (ss : List Session) (r : SessionResult) (rs : List SessionResult) :
    acceptedOf (s :: ss) (r :: rs) = acceptedOf [s] [r] ++ acceptedOf ss rs := by
  simp [acceptedOf]

theorem runSession_spec (disk : Option (List Nat)) (acc : List Write) (s : Session)
    (hinv : Inv disk acc) (hty : ∀ w ∈ s.writes, w.typed = true) (hn : acc.length + s.writes.length < two63) :
    Inv (runSession disk s).1 (acc ++ acceptedOf [s] [(runSession disk s).2]) := by
  obtain ⟨hwt, hrep, hdisk⟩ := hinv
  have hopen : openWrite disk = .ok (metaOf acc) := by
    cases disk with
    | none => simp only at hdisk; subst hdisk; rfl
    | some bs =>
      simp only at hdisk
      obtain ⟨bs', h1, h2⟩ := unmarshal_marshal (metaOf acc) ((wellTyped_iff _).2 hwt) hrep
      rw [hdisk] at h1; cases h1
      exact h2
  have hlen : (metaOf acc).ts.length = acc.length := by rw [metaOf_ts]; simp [specTs]
  obtain ⟨l1, l2, l3⟩ := writeLoop_spec s.writes (metaOf acc) hwt hrep hty (by omega)
  rw [← metaOf_append] at l1
  unfold runSession
  rw [hopen]
  simp only
  split
  · -- a block was rejected and the writer returned without Close
    have : ("skipped" == "ok") = false := by decide
    simp only [acceptedOf_single, this, Bool.false_eq_true, if_false, List.append_nil]
    exact ⟨hwt, hrep, hdisk⟩
  · have hc := marshal_cases _ l2
    rw [if_pos l3] at hc
    obtain ⟨e, _, hmar⟩ := hc
    rw [hmar]
    simp only [acceptedOf_single, beq_self_eq_true, if_true]
    unfold Inv
    rw [← l1]
    exact ⟨l2, l3, hmar⟩

theorem runAll_spec (ss : List Session) : ∀ (disk : Option (List Nat)) (acc : List Write), Inv disk acc →
    (∀ s ∈ ss, ∀ w ∈ s.writes, w.typed = true) →
    acc.length + (ss.map (·.writes.length)).sum < two63 →
    Inv (runAll disk ss).1 (acc ++ acceptedOf ss (runAll disk ss).2) := by
  induction ss with
  | nil => intro disk acc h _ _; simpa [runAll, acceptedOf] using h
  | cons s ss ih =>
    intro disk acc hinv hty hn
    simp only [List.map_cons, List.sum_cons] at hn
    have h1 := runSession_spec disk acc s hinv (hty s (by simp)) (by omega)
    have hacc : (acceptedOf [s] [(runSession disk s).2]).length ≤ s.writes.length := by
      rw [acceptedOf_single]; split
      · exact okWrites_length_le _ _
      · simp
    have h2 := ih (runSession disk s).1 _ h1 (fun x hx => hty x (by simp [hx]))
      (by rw [List.length_append]; omega)
    simp only [runAll]
    rw [acceptedOf_cons, ← List.append_assoc]
    exact h2

/-- per-column bookkeeping of a history: raw lengths as written, write offset = sum of stored lengths -/
def ColsOk (ws : List Write) (m : Meta) : Prop :=
  m.cols.length = ncols ∧
  ∀ k (h : k < m.cols.length),
    (m.cols[k].descs.map (·.rawLen) = ws.map (fun w => w.lens.getD k 0)) ∧
    m.cols[k].cur = m.cols[k].descs.foldl (fun a d => add64 a d.len) 0

theorem ColsOk_push {ws : List Write} {m : Meta} {w : Write} (h : ColsOk ws m) (hw : w.lens.length = ncols) :
    ColsOk (ws ++ [w]) (push m w) := by
  obtain ⟨hl, hk⟩ := h
  refine ⟨by simp [push, hl, hw], ?_⟩
  intro k hk'
  have hk1 : k < m.cols.length := by simp [push, hl, hw] at hk'; omega
  have hk2 : k < w.lens.length := by omega
  obtain ⟨h1, h2⟩ := hk k hk1
  have hget : w.lens.getD k 0 = w.lens[k] := by simp [List.getD, List.getElem?_eq_getElem hk2]
  simp only [push, List.getElem_zipWith, List.map_append, List.map_cons, List.map_nil, h1, hget,
    List.foldl_append, List.foldl_cons, List.foldl_nil, ← h2, and_self]

theorem ColsOk_foldl (ws' : List Write) : ∀ (ws : List Write) (m : Meta), ColsOk ws m →
    (∀ w ∈ ws', w.lens.length = ncols) → ColsOk (ws ++ ws') (ws'.foldl push m) := by
  induction ws' with
  | nil => intro ws m h _; simpa using h
  | cons w ws' ih =>
    intro ws m h hty
    have := ih (ws ++ [w]) (push m w) (ColsOk_push h (hty w (by simp))) (fun x hx => hty x (by simp [hx]))
    simpa using this

theorem ColsOk_new : ColsOk [] newMetadata := by
  refine ⟨by simp [newMetadata], ?_⟩
  intro k hk
  simp [newMetadata]

theorem specColsOk_of (ws : List Write) (m : Meta) (h : ColsOk ws m) : specColsOk ws m = true := by
  unfold specColsOk
  simp only [List.all_eq_true, List.mem_range, Bool.and_eq_true, beq_iff_eq]
  intro k hk
  have hget : m.cols.getD k default = m.cols[k] := by simp [List.getD, List.getElem?_eq_getElem hk]
  rw [hget]
  exact h.2 k hk

/-- the metadata of an accepted history also carries the per-column bookkeeping of the
    accepted blocks: one descriptor per block with the raw length written, and a write offset equal
    to the sum of the stored lengths. -/
theorem metaOf_cols (acc : List Write) (hty : ∀ w ∈ acc, w.typed = true) : specColsOk acc (metaOf acc) = true := by
  apply specColsOk_of
  have := ColsOk_foldl acc [] newMetadata ColsOk_new (fun w hw => ((write_typed_iff w).1 (hty w hw)).2.2.2)
  simpa [metaOf] using this


theorem okWrites_mem {ws : List Write} {rs : List String} {w : Write} (h : w ∈ okWrites ws rs) : w ∈ ws := by
  unfold okWrites at h
  simp only [List.mem_map, List.mem_filter] at h
  obtain ⟨p, ⟨hp, _⟩, rfl⟩ := h
  exact (List.of_mem_zip hp).1

theorem acceptedOf_mem (ss : List Session) : ∀ (rs : List SessionResult) (w : Write),
    w ∈ acceptedOf ss rs → ∃ s ∈ ss, w ∈ s.writes := by
  induction ss with
  | nil => intro rs w h; simp [acceptedOf] at h
  | cons s ss ih =>
    intro rs w h
    cases rs with
    | nil => simp [acceptedOf] at h
    | cons r rs =>
      rw [acceptedOf_cons, List.mem_append, acceptedOf_single] at h
      rcases h with h | h
      · split at h
        · exact ⟨s, by simp, okWrites_mem h⟩
        · cases h
      · obtain ⟨s', hs', hw⟩ := ih rs w h
        exact ⟨s', by simp [hs'], hw⟩

/-- **reopen_history** — "whenever a sequence of block writes to a day is accepted without error,
    reopening the day yields the same block timestamps in the same order, the same per-block flow and
    drop counts and the same day totals": for EVERY sequence of writer sessions (any number of blocks
    each, any timestamps / counts / counters / block sizes, with or without `Close` after a rejected
    block) on a fresh day directory, `NewDirReader.Open` afterwards returns metadata whose timestamps,
    per-block traffic and totals are exactly those of the blocks that were accepted (`WriteBlocks`
    returned nil and the session's `Close` returned nil), in order; so is the per-column bookkeeping
    (`specColsOk`). The bound on the number of blocks is the one a Go slice length has anyway. -/
theorem reopen_history (ss : List Session) (hty : ∀ s ∈ ss, ∀ w ∈ s.writes, w.typed = true)
    (hn : (ss.map (·.writes.length)).sum < two63) :
    let r := runAll none ss
    let acc := acceptedOf ss r.2
    (r.1 = none ∧ acc = []) ∨
    ∃ m, reopen r.1 = .ok m ∧ m.ts = specTs acc ∧ m.traffic = specTraffic acc ∧
      m.tot = specTot acc ∧ m.cnt = specCnt acc ∧ specColsOk acc m = true := by
  intro r acc
  have h := runAll_spec ss none [] ⟨WT_newMetadata, rep_newMetadata, rfl⟩ hty (by simpa using hn)
  simp only [List.nil_append] at h
  obtain ⟨hwt, hrep, hdisk⟩ := h
  cases hd : (runAll none ss).1 with
  | none =>
    rw [hd] at hdisk
    left; exact ⟨rfl, hdisk⟩
  | some bs =>
    rw [hd] at hdisk
    right
    obtain ⟨bs', h1, h2⟩ := unmarshal_marshal _ ((wellTyped_iff _).2 hwt) hrep
    simp only at hdisk
    rw [hdisk] at h1; cases h1
    have hacc : ∀ w ∈ acc, w.typed = true := by
      intro w hw
      obtain ⟨s, hs, hws⟩ := acceptedOf_mem ss _ w hw
      exact hty s hs w hws
    refine ⟨metaOf acc, ?_, metaOf_ts _, metaOf_traffic _, metaOf_tot _, metaOf_cnt _, metaOf_cols _ hacc⟩
    exact h2


/-! ## the directory-name suffix -/

theorem b62_table : ∀ d, d < 62 → Outcome.idx Gen.B62.decodeLookup (Gen.B62.encodeLookup.getD d 0) = .ok d := by
  decide

theorem b62dec_cons (c : Nat) (cs : List Nat) :
    b62dec (c :: cs) = (b62dec cs).bind fun res =>
      (Outcome.idx Gen.B62.decodeLookup c).bind fun d =>
      .ok ((res * Gen.B62.stringEncUin64DictLen + d) % two64) := rfl

theorem b62dec_loop (n : Nat) (h : n < two64) : b62dec (b62loop n) = .ok n := by
  induction n using Nat.strongRecOn with
  | _ n ih =>
    rw [b62loop]
    split
    · rename_i hpos
      have hdl : Gen.B62.stringEncUin64DictLen = 62 := rfl
      rw [hdl]
      have hlt : n / 62 < n := Nat.div_lt_self hpos (by decide)
      rw [b62dec_cons, ih (n / 62) hlt (by omega), b62_table (n % 62) (Nat.mod_lt _ (by decide))]
      simp only [obind_ok, hdl]
      congr 1
      have : n / 62 * 62 + n % 62 = n := by omega
      rw [this]
      exact Nat.mod_eq_of_lt h
    · have : n = 0 := by omega
      subst this; rfl

/-- **b62_roundtrip** — the base-62 codec of the directory-name suffix (day totals) decodes what it
    encoded, for every `uint64` -/
theorem b62_roundtrip (n : Nat) (h : n < two64) : b62dec (b62enc n) = .ok n := by
  unfold b62enc
  split
  · rename_i h0; subst h0; decide
  · exact b62dec_loop n h

/-- the dependency's decoder is NOT total: a byte above 'z' (here '~') indexes past the 123-entry
    table; `UnmarshalString` refuses such directory-name suffixes before decoding (fix of C06) -/
example : b62dec [126] = .panic "index out of range" := by decide


theorem splitOn_nodelim (d : Nat) (p : List Nat) (h : d ∉ p) : splitOn d p = [p] := by
  induction p with
  | nil => rfl
  | cons c cs ih =>
    have hc : c ≠ d := fun e => h (by simp [e])
    have := ih (fun hm => h (by simp [hm]))
    simp [splitOn, hc, this]

theorem splitOn_append (d : Nat) (p t : List Nat) (h : d ∉ p) : splitOn d (p ++ d :: t) = p :: splitOn d t := by
  induction p with
  | nil => simp [splitOn]
  | cons c cs ih =>
    have hc : c ≠ d := fun e => h (by simp [e])
    have := ih (fun hm => h (by simp [hm]))
    simp [splitOn, hc, this]

theorem splitOn_joinDash (ps : List (List Nat)) (hne : ps ≠ []) (h : ∀ p ∈ ps, delimDash ∉ p) :
    splitOn delimDash (joinDash ps) = ps := by
  induction ps with
  | nil => exact absurd rfl hne
  | cons p ps ih =>
    cases ps with
    | nil => exact splitOn_nodelim _ _ (h p (by simp))
    | cons q rest =>
      rw [joinDash, splitOn_append _ _ _ (h p (by simp)), ih (by simp) (fun x hx => h x (by simp [hx]))]

theorem enc_table_nodash : ∀ d, d < 62 → Gen.B62.encodeLookup.getD d 0 ≠ delimDash := by decide

theorem b62loop_nodash (n : Nat) : delimDash ∉ b62loop n := by
  induction n using Nat.strongRecOn with
  | _ n ih =>
    rw [b62loop]
    split
    · rename_i hpos
      have hdl : Gen.B62.stringEncUin64DictLen = 62 := rfl
      rw [hdl]
      intro hm
      simp only [List.mem_cons] at hm
      rcases hm with hm | hm
      · exact enc_table_nodash (n % 62) (Nat.mod_lt _ (by decide)) hm.symm
      · exact ih (n / 62) (Nat.div_lt_self hpos (by decide)) hm
    · simp

theorem b62enc_nodash (n : Nat) : delimDash ∉ b62enc n := by
  unfold b62enc
  split
  · decide
  · exact b62loop_nodash n

theorem enc_table_le : ∀ d, d < 62 → Gen.B62.encodeLookup.getD d 0 ≤ 122 := by decide

theorem b62loop_le (n : Nat) : ∀ c ∈ b62loop n, c ≤ 122 := by
  induction n using Nat.strongRecOn with
  | _ n ih =>
    rw [b62loop]
    split
    · rename_i hpos
      have hdl : Gen.B62.stringEncUin64DictLen = 62 := rfl
      rw [hdl]
      intro c hm
      simp only [List.mem_cons] at hm
      rcases hm with hm | hm
      · rw [hm]; exact enc_table_le (n % 62) (Nat.mod_lt _ (by decide))
      · exact ih (n / 62) (Nat.div_lt_self hpos (by decide)) c hm
    · intro c hc; cases hc

/-- what `MarshalString` writes stays within the decoder's table -/
theorem b62enc_le (n : Nat) : ∀ c ∈ b62enc n, c ≤ 122 := by
  unfold b62enc
  split
  · decide
  · exact b62loop_le n

theorem decodeAll_enc (ns : List Nat) (h : ∀ n ∈ ns, n < two64) : decodeAll (ns.map b62enc) = .ok ns := by
  induction ns with
  | nil => rfl
  | cons n ns ih =>
    simp [decodeAll, b62_roundtrip n (h n (by simp)), ih (fun x hx => h x (by simp [hx]))]

/-- **suffix_roundtrip** — the day totals in the directory-name suffix: `UnmarshalString` of what
    `MarshalString` produced gives back the seven totals, for all `uint64` values -/
theorem suffix_roundtrip (m : Meta) (h : ∀ n ∈ suffixFields m, n < two64) :
    unmarshalString (marshalString m) = .ok (suffixFields m) := by
  unfold unmarshalString marshalString marshalFields
  rw [splitOn_joinDash _ (by simp [suffixFields]) (by
    intro p hp; simp only [List.mem_map] at hp; obtain ⟨n, _, rfl⟩ := hp; exact b62enc_nodash n)]
  rw [if_neg (by simp [suffixFields])]
  rw [if_neg (by
    intro hany
    simp only [List.any_eq_true, List.mem_map, decide_eq_true_eq] at hany
    obtain ⟨f, ⟨n, _, rfl⟩, c, hc, hgt⟩ := hany
    have := b62enc_le n c hc
    omega)]
  exact decodeAll_enc _ h


/-! ## non-vacuity and the edges of the hypotheses -/

/-- a two-block day: 8 columns, real-looking numbers -/
def exMeta : Meta :=
  { version := 1, tot := ⟨3, 1, 7⟩, cnt := ⟨1000, 2000, 10, 20⟩,
    cols := List.replicate 8 ⟨30, [⟨10, 12, 3⟩, ⟨20, 20, 1⟩]⟩,
    ts := [1700000000, 1700000300], traffic := [⟨2, 1, 0⟩, ⟨1, 0, 7⟩] }

/-- the hypotheses of `unmarshal_marshal` are satisfiable on a non-trivial value … -/
example : wellTyped ncols exMeta = true ∧ representable exMeta = true := by decide

/-- … and its conclusion there -/
example : ∃ bs, marshal exMeta = .ok bs ∧ unmarshal bs = .ok exMeta :=
  unmarshal_marshal exMeta (by decide) (by decide)

/-- the same day with the two blocks in the other order (the witness of the repaired defect:
    1700000000 written after 1700000300) is well-typed, not representable, and `Marshal` refuses it -/
def exBack : Meta := { exMeta with ts := [1700000300, 1700000000] }

example : wellTyped ncols exBack = true ∧ representable exBack = false ∧ marshal exBack = .err "ts-order" := by
  decide

/-- why `Representable` is needed: the 32-bit delta of that pair, which the range check of the
    code before the fix let through (the signed difference -300 is not > maxUint32), reads back as
    5994967296 -/
example : wrapI64 (1700000300 + (((toU64 (1700000000 - 1700000300) % two32 : Nat)) : Int)) = 5994967296 := by
  decide

/-- a gap of exactly 2^32 seconds and a per-block count of 2^32 are refused, 2^32 - 1 is stored -/
example : marshal { exMeta with ts := [1700000000, 1700000000 + 4294967296] } = .err "encoding-size" ∧
    marshal { exMeta with traffic := [⟨2, 1, 0⟩, ⟨4294967296, 0, 7⟩] } = .err "encoding-size" ∧
    representable { exMeta with ts := [1700000000, 1700000000 + 4294967295],
                                traffic := [⟨2, 1, 0⟩, ⟨4294967295, 0, 7⟩] } = true := by
  decide

/-- `write_rejects` is not vacuous: the older block after the newer one, on the write path -/
def exWrite (ts : Int) : Write := ⟨ts, ⟨1, 0, 0⟩, ⟨5, 0, 0, 0⟩, [3, 3, 3, 3, 3, 3, 3, 3]⟩

example : (exWrite 1700000000).typed = true ∧
    representable (push (metaOf [exWrite 1700000300]) (exWrite 1700000000)) = false ∧
    writeBlocks (metaOf [exWrite 1700000300]) (exWrite 1700000000) = .err "ts-order" := by
  decide

/-- `reopen_history` is not vacuous: three sessions, one rejected block, three accepted ones -/
def exSessions : List Session :=
  [⟨.abort, [exWrite 1700000300]⟩, ⟨.abort, [exWrite 1700000000]⟩,
   ⟨.close, [exWrite 1700000600, exWrite 1700000900, exWrite 1700000900]⟩]

set_option maxRecDepth 20000 in
example : (runAll none exSessions).2 =
    [⟨["ok"], "ok"⟩, ⟨["err:ts-order"], "skipped"⟩, ⟨["ok", "ok", "err:ts-order"], "ok"⟩] ∧
    acceptedOf exSessions (runAll none exSessions).2 =
      [exWrite 1700000300, exWrite 1700000600, exWrite 1700000900] := by
  decide

/-- `suffix_roundtrip` applies to every well-typed day, e.g. the example day -/
example : unmarshalString (marshalString exMeta) = .ok [3, 1, 7, 1000, 2000, 10, 20] :=
  suffix_roundtrip exMeta (by decide)

set_option maxRecDepth 8000 in
/-- `unmarshal_total` on the shortest inputs: 143 bytes are reported, 144 zero bytes are an empty day,
    and a block count that the file cannot hold is reported -/
example : unmarshal (List.replicate 143 0) = .err "too-small" ∧
    unmarshal (List.replicate 15 0 ++ [1] ++ List.replicate 128 0) = .err "too-small" :=
  ⟨unmarshal_truncated _ (by decide), unmarshal_truncated _ (by decide)⟩

set_option maxRecDepth 8000 in
example : (unmarshal (List.replicate 144 0)).isOk = true := by decide

end C03
