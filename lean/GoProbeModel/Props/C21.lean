import GoProbeModel.Model.C21
import GoProbeModel.Props.C19
import GoProbeModel.Props.C23

/-!
C21 — packets seen while the capture is paused: property theorems.

The machine `C21.step` / `C21.run` (Model/C21.lean) is the capture loop as written: main loop,
`bufferPackets` with the byte-array local buffer of C23, the drain loop, the overflow branch; the
`isIPv4` argument of the two `buf.Add` calls is **regenerated from the source** (`addIsV4Flag`).
The *ideal* machine `istep` / `irun` below never pauses: a packet is processed by the main-loop
code (`procPkt`) the moment it arrives, a lock holder acts the moment it is granted the lock.

* `flag_v4`, `flag_v6` — the regenerated literals are the IP version of their branch. With the
  original source (`true` in the IPv6 branch) `flag_v6` does not check, and everything below that
  depends on it (`step_sim` → `pause_transparent`) is unprovable.
* `pause_transparent` — for EVERY schedule (any interleaving of any number of packets, lock
  requests of the three holder kinds incl. requests that wait, unlocks, spurious unblocks), every
  flow-log implementation `ops`, every buffer size limit and every initial size ≥ 45: the run
  never panics, every lock holder sees exactly what it sees in the ideal run, and whenever the loop
  is back in its main loop, flow log and counters equal those of the ideal run over the same
  schedule from which only the packets marked `refused` (overflow reported), `notOffered` (the
  loop was waiting for the unlock after an overflow: left in the source) and `skipped` (not IP,
  fetched while paused: documented as not tracked, cannot touch the flow log) are erased.
* `flow_log_transparent` — the same for the flow log alone with the `skipped` packets NOT erased:
  the flow log and every holder's view of it are those of the ideal run over all fetched-and-
  accepted packets.
* `closed_schedule_ends_in_main_loop` — after the closing unlocks the loop is in its main loop, so
  the equality of `pause_transparent` applies to every closed schedule.
* `loss_only_while_paused` — every erased packet is accounted for: nothing is erased outside a pause,
  an erased packet leaves flow log and counters untouched, a refusal happens only inside
  `bufferPackets` when the record does not fit under the size limit any more, reports exactly one
  `ErrLocalBufferOverflow` (`pause_transparent`: `s.ovf = refusals toks`) and makes the loop wait
  for the unlock.
* `ideal_skip_irrelevant`, `step_sim`, `run_sim`, `drain_eq`, `Q_*` are the supporting lemmas; the
  refinement of the byte buffer to a FIFO queue is C23's (`add_step`, `next_step`, …), the
  totality of the parser dispatch is C19's (`dispatch_total`).
-/
namespace C21
open Outcome Gen.Pause

/-! ## the regenerated `buf.Add` flags -/

/-- the IPv4 branch of `bufferPackets` stores its packets as IPv4 -/
theorem flag_v4 : addIsV4Flag false = true := by decide

/-- the IPv6 branch of `bufferPackets` stores its packets as IPv6 (false for the original source:
    the literal there was `true`) -/
theorem flag_v6 : addIsV4Flag true = false := by decide

/-! ## helpers -/

theorem bind_assoc_o {α β γ : Type} (x : Outcome α) (f : α → Outcome β) (g : β → Outcome γ) :
    (x >>= f) >>= g = x >>= fun a => f a >>= g := by
  cases x <;> rfl

theorem bind_eq_ok {α β : Type} {x : Outcome α} {f : α → Outcome β} {b : β} (h : (x >>= f) = .ok b) :
    ∃ a, x = .ok a ∧ f a = .ok b := by
  cases x with
  | ok a => exact ⟨a, rfl, h⟩
  | err e => cases h
  | panic e => cases h

/-- well-formed packet: the field widths of the Go signature, bytes are bytes -/
def PktWf (p : Pkt) : Prop := p.ptype < 256 ∧ p.size < 4294967296 ∧ C19.Bytes p.layer

def EvWf : Ev → Prop
  | .pkt p => PktWf p
  | _ => True

theorem field_bytes {p : List Nat} (hb : C19.Bytes p) (lo n : Nat) : ∀ x ∈ C19.field p lo n, x < 256 := by
  intro x hx
  simp only [C19.field, List.mem_map] at hx
  obtain ⟨i, _, rfl⟩ := hx
  exact C19.b_lt hb _

theorem keyOf_bytes (f : C19.Fam) {p : List Nat} (hb : C19.Bytes p) : ∀ x ∈ C19.keyOf f p, x < 256 := by
  intro x hx
  have hbb := fun i => C19.b_lt hb i
  simp only [C19.keyOf, List.mem_append, List.mem_cons, List.not_mem_nil, or_false] at hx
  rcases hx with (((hx | hx) | hx) | hx) | hx
  · exact field_bytes hb _ _ x hx
  · split at hx <;> simp at hx <;> rcases hx with rfl | rfl <;> first | exact hbb _ | omega
  · exact field_bytes hb _ _ x hx
  · split at hx <;> simp at hx <;> rcases hx with rfl | rfl <;> first | exact hbb _ | omega
  · subst hx; exact hbb _

theorem spec_aux_lt (f : C19.Fam) {p k : List Nat} {aux : Nat} (hb : C19.Bytes p) (h : C19.spec f p = .key k aux) :
    aux < 256 := by
  have hbb := fun i => C19.b_lt hb i
  unfold C19.spec at h
  dsimp only at h
  repeat' split at h
  all_goals (cases h <;> first | exact hbb _ | omega)

/-! ## the local buffer as a FIFO queue (from the refinement proved for C23) -/

/-- `Q limit b q`: the byte-array buffer `b` holds exactly the queue `q` of well-formed items
    (C23's invariant `Inv` for some abstract state whose pending queue is `q`) -/
def Q (limit : Nat) (b : C23.Buf) (q : List C23.Item) : Prop := ∃ a, C23.Inv limit b a ∧ a.pending = q

theorem Q_add {limit : Nat} {b : C23.Buf} {q : List C23.Item} (it : C23.Item) (h : Q limit b q) (hwf : it.wf = true) :
    ∃ b' ok, C23.add b it = .ok (b', ok) ∧ (ok = true → Q limit b' (q ++ [it])) ∧
      (ok = false → b' = b ∧ limit < b.w + C23.need it) := by
  obtain ⟨a, hinv, hq⟩ := h
  obtain ⟨b', ok, a', hadd, hj, hinv', hno⟩ := C23.add_step it hinv hwf
  refine ⟨b', ok, hadd, ?_, ?_⟩
  · intro hok
    subst hok
    simp only [C23.judgeStep] at hj
    cases hj
    refine ⟨_, hinv', ?_⟩
    have := C23.pending_push a it hinv.tk
    simp only [C23.Abs.pending] at this ⊢
    rw [this, ← hq]; rfl
  · intro hok
    have := hno hok
    exact ⟨this.1, by rw [← hinv.used]; exact this.2⟩

theorem Q_next {limit : Nat} {b : C23.Buf} {q : List C23.Item} (h : Q limit b q) :
    ∃ b', C23.next b = .ok (b', q.head?) ∧ Q limit b' q.tail := by
  obtain ⟨a, hinv, hq⟩ := h
  obtain ⟨b', a', hn, _, hinv', hp⟩ := C23.next_step hinv
  exact ⟨b', by rw [← hq]; exact hn, a', hinv', by rw [hp, hq]⟩

theorem Q_reset {limit : Nat} {b : C23.Buf} {q : List C23.Item} (h : Q limit b q) : Q limit (C23.reset b) [] := by
  obtain ⟨a, hinv, _⟩ := h
  exact ⟨_, C23.reset_step hinv, rfl⟩

theorem Q_cycle {limit : Nat} {b : C23.Buf} {q : List C23.Item} (h : Q limit b q) :
    ∃ b', C23.cycle b b.page = .ok b' ∧ Q limit b' [] := by
  obtain ⟨a, hinv, _⟩ := h
  obtain ⟨b', hc, hinv'⟩ := C23.cycle_step b.page hinv (by have := hinv.pg; omega)
  exact ⟨b', hc, _, hinv', rfl⟩

theorem Q_mk (page limit : Nat) (hp : 45 ≤ page) : ∃ b, C23.mkBuf page limit page = .ok b ∧ Q limit b [] := by
  obtain ⟨b, hb, hinv⟩ := C23.mkBuf_inv page limit page hp (by omega)
  exact ⟨b, hb, _, hinv, rfl⟩

theorem Enc_len {m : Array Nat} {p : Nat} {its : List C23.Item} {w : Nat} (h : C23.Enc m p its w) :
    p + its.length ≤ w := by
  induction its generalizing p with
  | nil => simp [C23.Enc] at h; simp; omega
  | cons it rest ih =>
    have := ih h.2
    have hn : 1 ≤ C23.need it := by simp [C23.need]
    simp only [List.length_cons]; omega

/-- the number of queued items is below the write position (each record takes at least one byte):
    the drain loop's fuel `w + 1` suffices -/
theorem Q_len {limit : Nat} {b : C23.Buf} {q : List C23.Item} (h : Q limit b q) : q.length < b.w + 1 := by
  obtain ⟨a, hinv, hq⟩ := h
  have := Enc_len hinv.enc
  rw [hq] at this
  omega

theorem Q_wf {limit : Nat} {b : C23.Buf} {q : List C23.Item} (h : Q limit b q) : ∀ it ∈ q, it.wf = true := by
  obtain ⟨a, hinv, hq⟩ := h
  rw [← hq]; exact hinv.wf

/-! ## the drain loop replays the queue -/

section
variable {FL : Type}

/-- the queued items accounted for one after the other (what the drain loop does) -/
def replay (ops : FlowOps FL) : FL × Cnt → List C23.Item → Outcome (FL × Cnt)
  | lc, [] => .ok lc
  | lc, it :: q => account ops lc it.v4 it.key it.ptype it.size it.aux it.errno >>= fun lc' => replay ops lc' q

theorem replay_append (ops : FlowOps FL) (q : List C23.Item) (it : C23.Item) : ∀ lc,
    replay ops lc (q ++ [it]) = replay ops lc q >>= fun lc' => account ops lc' it.v4 it.key it.ptype it.size it.aux it.errno := by
  induction q with
  | nil =>
    intro lc
    simp only [List.nil_append, replay, bind_ok]
    cases account ops lc it.v4 it.key it.ptype it.size it.aux it.errno <;> rfl
  | cons x q ih =>
    intro lc
    simp only [List.cons_append, replay, bind_assoc_o]
    congr 1; funext lc'; exact ih lc'

theorem drain_eq (ops : FlowOps FL) {limit : Nat} : ∀ (q : List C23.Item) (b : C23.Buf) (fuel : Nat),
    Q limit b q → q.length < fuel →
    ∃ b', Q limit b' [] ∧ ∀ lc, drain ops fuel b lc = replay ops lc q >>= fun lc' => .ok (b', lc') := by
  intro q
  induction q with
  | nil =>
    intro b fuel hq hf
    obtain ⟨b', hn, hq'⟩ := Q_next hq
    cases fuel with
    | zero => simp at hf
    | succ f =>
      refine ⟨b', hq', fun lc => ?_⟩
      simp only [drain, hn, bind_ok, List.head?_nil, replay]
  | cons it rest ih =>
    intro b fuel hq hf
    obtain ⟨b1, hn, hq1⟩ := Q_next hq
    cases fuel with
    | zero => simp at hf
    | succ f =>
      obtain ⟨b', hq', hd⟩ := ih b1 f hq1 (by simpa using hf)
      refine ⟨b', hq', fun lc => ?_⟩
      simp only [drain, hn, bind_ok, List.head?_cons, replay, bind_assoc_o]
      congr 1; funext lc'; exact hd lc'

/-! ## counters and the main-loop code never panic on well-formed packets -/

theorem upd_ok (c : Cnt) (e : Int) (h0 : 0 ≤ e) (h1 : e < 3) : ∃ c', updateParsingErrorCounters c e = .ok c' := by
  unfold updateParsingErrorCounters bumpErr
  rw [if_neg (by simp only [NumParsingErrors]; omega)]
  repeat' split
  all_goals exact ⟨_, rfl⟩

theorem account_ok (ops : FlowOps FL) (lc : FL × Cnt) (isV4 : Bool) (k : List Nat) (pt sz aux : Nat) (e : Int)
    (he : e = -1 ∨ (0 ≤ e ∧ e < 3)) : ∃ lc', account ops lc isV4 k pt sz aux e = .ok lc' := by
  unfold account
  split
  · rename_i hgt
    rcases he with he | he
    · simp [ErrnoOK, he] at hgt
    · obtain ⟨c', hc⟩ := upd_ok lc.2 e he.1 he.2
      exact ⟨_, by rw [hc]; rfl⟩
  · exact ⟨_, rfl⟩

theorem resFields_errno (n : Nat) (r : C19.Res) : (resFields n r).2.2 = -1 ∨ (0 ≤ (resFields n r).2.2 ∧ (resFields n r).2.2 < 3) := by
  cases r <;> simp [resFields, ErrnoOK, ErrnoPacketFragmentIgnore, ErrnoPacketTruncated]

/-- what `dispatch` returns on a well-formed layer (C19) -/
theorem dispatch_cases {l : List Nat} (hb : C19.Bytes l) :
    C19.dispatch l = .ok .empty ∨ C19.dispatch l = .ok .invalid ∨
    C19.dispatch l = .ok (.v4 (C19.spec C19.fam4 l)) ∨ C19.dispatch l = .ok (.v6 (C19.spec C19.fam6 l)) := by
  rw [C19.dispatch_total hb]
  repeat' split
  all_goals simp

theorem procPkt_ok (ops : FlowOps FL) (lc : FL × Cnt) {p : Pkt} (hwf : PktWf p) : ∃ lc', procPkt ops lc p = .ok lc' := by
  unfold procPkt
  rcases dispatch_cases hwf.2.2 with h | h | h | h <;> rw [h] <;> simp only [bind_ok]
  · obtain ⟨c', hc⟩ := upd_ok lc.2 ErrnoPacketTruncated (by simp [ErrnoPacketTruncated]) (by simp [ErrnoPacketTruncated])
    exact ⟨_, by rw [hc]; rfl⟩
  · have hb : ∀ c : Cnt, bumpErr c ErrnoInvalidIPHeader = .ok { c with inv := c.inv + 1 } := by
      intro c; simp [bumpErr, NumParsingErrors, ErrnoInvalidIPHeader, ErrnoPacketFragmentIgnore]
    exact ⟨_, by rw [hb]; rfl⟩
  · exact account_ok ops lc _ _ _ _ _ _ (resFields_errno _ _)
  · exact account_ok ops lc _ _ _ _ _ _ (resFields_errno _ _)

end

/-! ## the ideal machine: nothing is ever paused -/

section
variable {FL : Type}

structure ISt (FL : Type) where
  lc : FL × Cnt
  held : Bool
  pend : Option Holder

/-- a packet is processed by the main-loop code on arrival; a holder acts when it is granted the
    lock: at its request when the lock is free, else at the unlock of the current holder -/
def istep (ops : FlowOps FL) (i : ISt FL) : Ev → Outcome (ISt FL × Option (Act FL))
  | .pkt p => procPkt ops i.lc p >>= fun lc => .ok ({ i with lc := lc }, none)
  | .lock h =>
    if i.held then
      match i.pend with
      | none => .ok ({ i with pend := some h }, none)
      | some _ => .ok (i, none)
    else .ok ({ lc := (act ops h i.lc).1, held := true, pend := i.pend }, some (act ops h i.lc).2)
  | .unlock =>
    if i.held then
      match i.pend with
      | none => .ok ({ i with held := false }, none)
      | some h => .ok ({ lc := (act ops h i.lc).1, held := true, pend := none }, some (act ops h i.lc).2)
    else .ok (i, none)
  | .unblock => .ok (i, none)

def irun (ops : FlowOps FL) : ISt FL → List Ev → Outcome (ISt FL × List (Act FL))
  | i, [] => .ok (i, [])
  | i, e :: es => istep ops i e >>= fun r => irun ops r.1 es >>= fun q => .ok (q.1, r.2.toList ++ q.2)

/-- packets that are accounted for: processed directly or buffered -/
def counted : Tok FL → Bool
  | .fetched .skipped => false
  | .fetched .refused => false
  | .fetched .notOffered => false
  | _ => true

/-- what a lock holder saw, if the event granted the lock -/
def tokAct : Tok FL → Option (Act FL)
  | .granted a => some a
  | .unlocked g => g
  | _ => none

/-- the schedule without the packets that were refused, not offered or skipped -/
def kept : List Ev → List (Tok FL) → List Ev
  | e :: es, t :: ts => if counted t then e :: kept es ts else kept es ts
  | _, _ => []

def acts : List (Tok FL) → List (Act FL)
  | [] => []
  | t :: ts => (tokAct t).toList ++ acts ts

/-- the item `bufferPackets` stores for a parsed packet (the `isIPv4` flag is the regenerated literal) -/
def itemOf (v6 : Bool) (n : Nat) (r : C19.Res) (p : Pkt) : C23.Item :=
  { v4 := addIsV4Flag v6, key := (resFields n r).1, ptype := p.ptype, size := p.size,
    aux := (resFields n r).2.1, errno := (resFields n r).2.2 }

theorem item_wf (v6 : Bool) (f : C19.Fam) (n : Nat) (hn : n = if addIsV4Flag v6 then 13 else 37)
    (hk : ∀ l, (C19.keyOf f l).length = n) {p : Pkt} (hwf : PktWf p) :
    (itemOf v6 n (C19.spec f p.layer) p).wf = true := by
  rw [C23.wf_iff]
  have he := resFields_errno n (C19.spec f p.layer)
  refine ⟨?_, ?_, hwf.1, hwf.2.1, ?_, by simp only [itemOf]; omega, by simp only [itemOf]; omega⟩
  · refine Eq.trans ?_ hn
    show (resFields n (C19.spec f p.layer)).1.length = n
    cases hs : C19.spec f p.layer with
    | key k aux => rw [C19.spec_key hs]; exact hk _
    | fragment => simp [resFields]
    | truncated => simp [resFields]
  · simp only [itemOf]
    cases hs : C19.spec f p.layer with
    | key k aux => rw [C19.spec_key hs]; exact keyOf_bytes f hwf.2.2
    | fragment => simp [resFields]
    | truncated => simp [resFields]
  · simp only [itemOf]
    cases hs : C19.spec f p.layer with
    | key k aux => exact spec_aux_lt f hwf.2.2 hs
    | fragment => simp [resFields]
    | truncated => simp [resFields]

/-- `Rel s i`: the capture loop in state `s` stands for the ideal state `i` — draining what is
    in the local buffer into flow log and counters gives the ideal flow log and counters -/
structure Rel (ops : FlowOps FL) (limit : Nat) (s : St FL) (i : ISt FL) : Prop where
  pend : i.pend = s.pend
  held : i.held = (s.mode != .proc)
  q : ∃ q, Q limit s.buf q ∧ (s.mode = .proc → q = []) ∧ replay ops (s.log, s.cnt) q = .ok i.lc

theorem rel_proc {ops : FlowOps FL} {limit : Nat} {s : St FL} {i : ISt FL} (h : Rel ops limit s i)
    (hm : s.mode = .proc) : i.lc = (s.log, s.cnt) ∧ i.held = false ∧ Q limit s.buf [] := by
  obtain ⟨q, hq, he, hr⟩ := h.q
  rw [he hm] at hr hq
  simp only [replay] at hr
  injection hr with hr
  exact ⟨hr.symm, by rw [h.held, hm]; rfl, hq⟩

/-- the lock is granted: same view for the holder, the loop enters `bufferPackets` with an empty buffer -/
theorem grant_sim {ops : FlowOps FL} {limit : Nat} {s : St FL} {q : List C23.Item} (hq : Q limit s.buf q) (h : Holder)
    (pend : Option Holder) (hp : pend = s.pend) :
    ∃ s', grantTo ops s h = .ok (s', (act ops h (s.log, s.cnt)).2) ∧ s'.ovf = s.ovf ∧
      Rel ops limit s' { lc := (act ops h (s.log, s.cnt)).1, held := true, pend := pend } := by
  obtain ⟨b', hc, hq'⟩ := Q_cycle hq
  refine ⟨{ s with log := (act ops h (s.log, s.cnt)).1.1, cnt := (act ops h (s.log, s.cnt)).1.2, buf := b', mode := .buffering },
    by simp only [grantTo, hc, bind_ok], rfl, ?_⟩
  exact ⟨hp, rfl, [], hq', fun _ => rfl, rfl⟩

end

section
variable {FL : Type}

theorem addItem_eq (s : St FL) (v6 : Bool) (n : Nat) (r : C19.Res) (p : Pkt) :
    addItem s v6 n r p = C23.add s.buf (itemOf v6 n r p) >>= fun r' =>
      if r'.2 then .ok ({ s with buf := r'.1 }, .buffered)
      else .ok ({ s with buf := r'.1, mode := .blocked, ovf := s.ovf + 1 }, .refused) := rfl

/-- one fetched IP packet inside `bufferPackets`: it is appended to the queue with the flag of its
    branch, or refused (buffer unchanged, overflow reported, the loop waits for the unlock) -/
theorem buffer_sim {ops : FlowOps FL} {limit : Nat} {s : St FL} {i : ISt FL} (h : Rel ops limit s i)
    (hm : s.mode = .buffering) {p : Pkt} (hwf : PktWf p) (v6 : Bool) (f : C19.Fam) (n : Nat)
    (hflag : addIsV4Flag v6 = !v6) (hn : n = if addIsV4Flag v6 then 13 else 37)
    (hk : ∀ l, (C19.keyOf f l).length = n)
    (hproc : ∀ lc, procPkt ops lc p = account ops lc (!v6) (resFields n (C19.spec f p.layer)).1 p.ptype p.size
      (resFields n (C19.spec f p.layer)).2.1 (resFields n (C19.spec f p.layer)).2.2) :
    ∃ s' fate, addItem s v6 n (C19.spec f p.layer) p = .ok (s', fate) ∧
      ((fate = .buffered ∧ s'.ovf = s.ovf ∧ ∃ i', istep ops i (.pkt p) = .ok (i', none) ∧ Rel ops limit s' i') ∨
       (fate = .refused ∧ Rel ops limit s' i ∧ s'.mode = .blocked ∧ s'.ovf = s.ovf + 1 ∧ limit < s.buf.w + 45 ∧
        s'.log = s.log ∧ s'.cnt = s.cnt)) := by
  obtain ⟨q, hq, _, hr⟩ := h.q
  have hitwf := item_wf v6 f n hn hk hwf
  obtain ⟨b', ok, hadd, hyes, hno⟩ := Q_add _ hq hitwf
  rw [addItem_eq, hadd]
  cases ok with
  | true =>
    obtain ⟨lc', hp⟩ := procPkt_ok ops i.lc hwf
    refine ⟨_, _, rfl, Or.inl ⟨rfl, rfl, { i with lc := lc' }, by simp only [istep, hp, bind_ok], ?_⟩⟩
    refine ⟨h.pend, by rw [h.held], _, hyes rfl, fun hp' => by simp [hm] at hp', ?_⟩
    show replay ops (s.log, s.cnt) (q ++ [_]) = _
    rw [replay_append, hr, bind_ok, ← hp, hproc]
    simp only [itemOf, hflag]
  | false =>
    obtain ⟨hb, hlim⟩ := hno rfl
    refine ⟨_, _, rfl, Or.inr ⟨rfl, ?_, rfl, rfl, ?_, rfl, rfl⟩⟩
    · refine ⟨h.pend, by rw [h.held, hm]; rfl, q, by rw [hb]; exact hq, fun hp' => by simp at hp', hr⟩
    · have := (C23.need_le _ hitwf).1
      omega

theorem procPkt_v4 (ops : FlowOps FL) (lc : FL × Cnt) {p : Pkt} {r : C19.Res} (hd : C19.dispatch p.layer = .ok (.v4 r)) :
    procPkt ops lc p = account ops lc true (resFields Gen.Parse.EPHashSizeV4 r).1 p.ptype p.size
      (resFields Gen.Parse.EPHashSizeV4 r).2.1 (resFields Gen.Parse.EPHashSizeV4 r).2.2 := by
  simp only [procPkt, hd, bind_ok]

theorem procPkt_v6 (ops : FlowOps FL) (lc : FL × Cnt) {p : Pkt} {r : C19.Res} (hd : C19.dispatch p.layer = .ok (.v6 r)) :
    procPkt ops lc p = account ops lc false (resFields Gen.Parse.EPHashSizeV6 r).1 p.ptype p.size
      (resFields Gen.Parse.EPHashSizeV6 r).2.1 (resFields Gen.Parse.EPHashSizeV6 r).2.2 := by
  simp only [procPkt, hd, bind_ok]

end

section
variable {FL : Type}

def refusedTok : Tok FL → Bool
  | .fetched .refused => true
  | _ => false

/-- neither an IPv4 nor an IPv6 layer (empty, or another version nibble) -/
def NotIP (p : Pkt) : Prop := C19.dispatch p.layer = .ok .empty ∨ C19.dispatch p.layer = .ok .invalid

/-- what one step establishes: the step does not panic; an accounted event is matched by the ideal
    machine (same view for a holder), an erased packet leaves the ideal state alone -/
def StepSim (ops : FlowOps FL) (limit : Nat) (s : St FL) (i : ISt FL) (e : Ev) : Prop :=
  ∃ s' t, step ops s e = .ok (s', t) ∧
    ((counted t = true ∧ s'.ovf = s.ovf ∧ ∃ i', istep ops i e = .ok (i', tokAct t) ∧ Rel ops limit s' i') ∨
     (counted t = false ∧ s'.ovf = s.ovf + (if refusedTok t then 1 else 0) ∧ tokAct t = none ∧
      (∃ p, e = .pkt p) ∧ s.mode ≠ .proc ∧ Rel ops limit s' i ∧ s'.log = s.log ∧ s'.cnt = s.cnt ∧
      (t = .fetched .refused → s.mode = .buffering ∧ s'.mode = .blocked ∧ s'.ovf = s.ovf + 1 ∧ limit < s.buf.w + 45) ∧
      (t = .fetched .skipped → ∃ p, e = .pkt p ∧ NotIP p)))

theorem unlock_sim {ops : FlowOps FL} {limit : Nat} {s : St FL} {i : ISt FL} (h : Rel ops limit s i)
    (hm : s.mode ≠ .proc)
    (hstep : step ops s .unlock =
      drain ops (s.buf.w + 1) s.buf (s.log, s.cnt) >>= fun r =>
      let s1 : St FL := { s with log := r.2.1, cnt := r.2.2, buf := C23.reset r.1, mode := .proc }
      match s.pend with
      | none => .ok (s1, .unlocked none)
      | some h => grantTo ops { s1 with pend := none } h >>= fun g => .ok (g.1, .unlocked (some g.2))) :
    StepSim ops limit s i .unlock := by
  obtain ⟨q, hq, _, hr⟩ := h.q
  obtain ⟨b', hq', hd⟩ := drain_eq ops q s.buf (s.buf.w + 1) hq (Q_len hq)
  have hheld : i.held = true := by
    rw [h.held]; cases hmm : s.mode <;> simp_all
  unfold StepSim
  rw [hstep, hd, hr]
  simp only [bind_ok]
  cases hp : s.pend with
  | none =>
    have hip : i.pend = none := by rw [h.pend, hp]
    refine ⟨_, _, rfl, Or.inl ⟨rfl, rfl, { i with held := false }, by simp only [istep, hheld, hip, if_true]; rfl, ?_⟩⟩
    exact ⟨by simp [hip], rfl, [], Q_reset hq', fun _ => rfl, rfl⟩
  | some h2 =>
    have hip : i.pend = some h2 := by rw [h.pend, hp]
    obtain ⟨s2, hg, hov, hrel⟩ := grant_sim (ops := ops) (s := { s with log := i.lc.1, cnt := i.lc.2, buf := C23.reset b', mode := .proc, pend := none })
      (Q_reset hq') h2 none rfl
    simp only [hg, bind_ok]
    exact ⟨_, _, rfl, Or.inl ⟨rfl, hov, _, by simp only [istep, hheld, hip, if_true]; rfl, hrel⟩⟩

theorem lock_wait_sim {ops : FlowOps FL} {limit : Nat} {s : St FL} {i : ISt FL} (h : Rel ops limit s i)
    (hm : s.mode ≠ .proc) (h0 : Holder)
    (hstep : step ops s (.lock h0) =
      match s.pend with
      | none => .ok ({ s with pend := some h0 }, .waiting)
      | some _ => .ok (s, .ignored)) :
    StepSim ops limit s i (.lock h0) := by
  have hheld : i.held = true := by
    rw [h.held]; cases hmm : s.mode <;> simp_all
  unfold StepSim
  rw [hstep]
  cases hp : s.pend with
  | none =>
    have hip : i.pend = none := by rw [h.pend, hp]
    refine ⟨_, _, rfl, Or.inl ⟨rfl, rfl, { i with pend := some h0 }, by simp only [istep, hheld, hip, if_true]; rfl, ?_⟩⟩
    exact ⟨rfl, h.held, h.q⟩
  | some h2 =>
    have hip : i.pend = some h2 := by rw [h.pend, hp]
    exact ⟨_, _, rfl, Or.inl ⟨rfl, rfl, i, by simp only [istep, hheld, hip, if_true]; rfl, h⟩⟩

/-- **the simulation step** (uses `flag_v4` / `flag_v6`: unprovable for the original source) -/
theorem step_sim (ops : FlowOps FL) {limit : Nat} {s : St FL} {i : ISt FL} (h : Rel ops limit s i) (e : Ev)
    (hwf : EvWf e) : StepSim ops limit s i e := by
  cases e with
  | pkt p =>
    have hwf : PktWf p := hwf
    cases hm : s.mode with
    | proc =>
      obtain ⟨hlc, hheld, hq⟩ := rel_proc h hm
      obtain ⟨lc', hp⟩ := procPkt_ok ops (s.log, s.cnt) hwf
      refine ⟨{ s with log := lc'.1, cnt := lc'.2 }, .fetched .direct, by simp only [step, hm, hp, bind_ok],
        Or.inl ⟨rfl, rfl, { i with lc := lc' }, by simp only [istep, hlc, hp, bind_ok]; rfl, ?_⟩⟩
      exact ⟨h.pend, by rw [h.held], [], hq, fun _ => rfl, rfl⟩
    | buffering =>
      rcases dispatch_cases hwf.2.2 with hd | hd | hd | hd
      · exact ⟨s, .fetched .skipped, by simp only [step, hm, bufPkt, hd, bind_ok],
          Or.inr ⟨rfl, rfl, rfl, ⟨p, rfl⟩, by simp [hm], h, rfl, rfl, (fun hc => by cases hc), fun _ => ⟨p, rfl, Or.inl hd⟩⟩⟩
      · exact ⟨s, .fetched .skipped, by simp only [step, hm, bufPkt, hd, bind_ok],
          Or.inr ⟨rfl, rfl, rfl, ⟨p, rfl⟩, by simp [hm], h, rfl, rfl, (fun hc => by cases hc), fun _ => ⟨p, rfl, Or.inr hd⟩⟩⟩
      · obtain ⟨s', fate, hadd, hcases⟩ := buffer_sim h hm hwf false C19.fam4 Gen.Parse.EPHashSizeV4
          (by rw [flag_v4]; rfl) (by rw [flag_v4]; rfl) C19.keyOf_length_v4 (fun lc => procPkt_v4 ops lc hd)
        refine ⟨s', .fetched fate, by simp only [step, hm, bufPkt, hd, bind_ok, hadd], ?_⟩
        rcases hcases with ⟨hf, hov, i', hi, hrel⟩ | ⟨hf, hrel, hx⟩
        · subst hf; exact Or.inl ⟨rfl, hov, i', hi, hrel⟩
        · subst hf; exact Or.inr ⟨rfl, hx.2.1, rfl, ⟨p, rfl⟩, by simp [hm], hrel, hx.2.2.2.1, hx.2.2.2.2, fun _ => ⟨hm, hx.1, hx.2.1, hx.2.2.1⟩, (fun hc => by cases hc)⟩
      · obtain ⟨s', fate, hadd, hcases⟩ := buffer_sim h hm hwf true C19.fam6 Gen.Parse.EPHashSizeV6
          (by rw [flag_v6]; rfl) (by rw [flag_v6]; rfl) C19.keyOf_length_v6 (fun lc => procPkt_v6 ops lc hd)
        refine ⟨s', .fetched fate, by simp only [step, hm, bufPkt, hd, bind_ok, hadd], ?_⟩
        rcases hcases with ⟨hf, hov, i', hi, hrel⟩ | ⟨hf, hrel, hx⟩
        · subst hf; exact Or.inl ⟨rfl, hov, i', hi, hrel⟩
        · subst hf; exact Or.inr ⟨rfl, hx.2.1, rfl, ⟨p, rfl⟩, by simp [hm], hrel, hx.2.2.2.1, hx.2.2.2.2, fun _ => ⟨hm, hx.1, hx.2.1, hx.2.2.1⟩, (fun hc => by cases hc)⟩
    | blocked =>
      exact ⟨s, .fetched .notOffered, by simp only [step, hm],
        Or.inr ⟨rfl, rfl, rfl, ⟨p, rfl⟩, by simp [hm], h, rfl, rfl, (fun hc => by cases hc), (fun hc => by cases hc)⟩⟩
  | lock h0 =>
    cases hm : s.mode with
    | proc =>
      obtain ⟨hlc, hheld, hq⟩ := rel_proc h hm
      obtain ⟨s', hg, hov, hrel⟩ := grant_sim (ops := ops) hq h0 i.pend h.pend
      refine ⟨s', .granted (act ops h0 (s.log, s.cnt)).2, by simp only [step, hm, hg, bind_ok], Or.inl ⟨rfl, hov, _, ?_, hrel⟩⟩
      simp only [istep, hheld, hlc]; rfl
    | buffering => exact lock_wait_sim h (by simp [hm]) h0 (by simp only [step, hm]; rfl)
    | blocked => exact lock_wait_sim h (by simp [hm]) h0 (by simp only [step, hm]; rfl)
  | unlock =>
    cases hm : s.mode with
    | proc =>
      obtain ⟨hlc, hheld, hq⟩ := rel_proc h hm
      exact ⟨s, .ignored, by simp only [step, hm], Or.inl ⟨rfl, rfl, i, by simp only [istep, hheld]; rfl, h⟩⟩
    | buffering => exact unlock_sim h (by simp [hm]) (by simp only [step, hm]; rfl)
    | blocked => exact unlock_sim h (by simp [hm]) (by simp only [step, hm]; rfl)
  | unblock => exact ⟨s, .unblocked, rfl, Or.inl ⟨rfl, rfl, i, rfl, h⟩⟩

end

section
variable {FL : Type}

/-- number of packets refused by the full buffer -/
def refusals : List (Tok FL) → Nat
  | [] => 0
  | t :: ts => (if refusedTok t then 1 else 0) + refusals ts

theorem not_counted_of_refused {t : Tok FL} (h : refusedTok t = true) : counted t = false := by
  cases t with
  | fetched f => cases f <;> simp_all [refusedTok, counted]
  | _ => simp [refusedTok] at h

/-- every packet traced as skipped is not an IP packet -/
def SkipOK : List Ev → List (Tok FL) → Prop
  | e :: es, t :: ts => (t = .fetched .skipped → ∃ p, e = .pkt p ∧ NotIP p) ∧ SkipOK es ts
  | _, _ => True

theorem run_cons (ops : FlowOps FL) (s : St FL) (e : Ev) (es : List Ev) :
    run ops s (e :: es) = step ops s e >>= fun r => run ops r.1 es >>= fun q => .ok (q.1, r.2 :: q.2) := rfl

/-- the simulation for whole schedules -/
theorem run_sim (ops : FlowOps FL) {limit : Nat} : ∀ (evs : List Ev) (s : St FL) (i : ISt FL),
    Rel ops limit s i → (∀ e ∈ evs, EvWf e) →
    ∃ s' toks i', run ops s evs = .ok (s', toks) ∧ toks.length = evs.length ∧
      irun ops i (kept evs toks) = .ok (i', acts toks) ∧ Rel ops limit s' i' ∧
      s'.ovf = s.ovf + refusals toks ∧ SkipOK evs toks := by
  intro evs
  induction evs with
  | nil => intro s i h _; exact ⟨s, [], i, rfl, rfl, rfl, h, rfl, trivial⟩
  | cons e es ih =>
    intro s i h hwf
    obtain ⟨s1, t, hs, hc⟩ := step_sim ops h e (hwf e (by simp))
    have hwf' : ∀ e ∈ es, EvWf e := fun e he => hwf e (by simp [he])
    rcases hc with ⟨hcnt, hov, i1, hi, hrel⟩ | ⟨hcnt, hov, hact, _, _, hrel, _, _, _, hskip⟩
    · obtain ⟨s', toks, i', hr, hl, hir, hrel', hovf, hsk⟩ := ih s1 i1 hrel hwf'
      refine ⟨s', t :: toks, i', by rw [run_cons, hs, bind_ok, hr]; rfl, by simp [hl], ?_, hrel', ?_,
        ⟨(fun hc => by rw [hc] at hcnt; cases hcnt), hsk⟩⟩
      · simp only [kept, hcnt, if_true, irun, hi, bind_ok, hir, acts]
      · have hnr : refusedTok t = false := by
          cases hr' : refusedTok t with
          | false => rfl
          | true => rw [not_counted_of_refused hr'] at hcnt; cases hcnt
        simp only [refusals, hnr]
        simp at hovf ⊢
        omega
    · obtain ⟨s', toks, i', hr, hl, hir, hrel', hovf, hsk⟩ := ih s1 i hrel hwf'
      refine ⟨s', t :: toks, i', by rw [run_cons, hs, bind_ok, hr]; rfl, by simp [hl], ?_, hrel', ?_, ⟨hskip, hsk⟩⟩
      · simp only [kept, hcnt, acts, hact, Option.toList, List.nil_append]
        exact hir
      · simp only [refusals]
        omega

end

section
variable {FL : Type}

theorem init_rel (ops : FlowOps FL) (empty : FL) (page limit : Nat) (hp : 45 ≤ page) :
    ∃ s0, init empty page limit = .ok s0 ∧ s0.ovf = 0 ∧ s0.mode = .proc ∧
      Rel ops limit s0 { lc := (empty, {}), held := false, pend := none } := by
  obtain ⟨b, hb, hq⟩ := Q_mk page limit hp
  exact ⟨{ log := empty, cnt := {}, buf := b, mode := .proc, pend := none, ovf := 0 },
    by simp only [init, hb, bind_ok], rfl, rfl, rfl, rfl, [], hq, fun _ => rfl, rfl⟩

/-- **pause_transparent** — for every flow-log implementation `ops`, every initial buffer size
    `page ≥ 45`, every size limit and EVERY schedule `evs` of well-formed events (packets of both IP
    versions and of no IP version, lock requests of the three holder kinds — also while the lock is
    held —, unlocks, spurious unblocks, in any order and number):
    the capture loop does not panic, and with `toks` its trace,
    * the ideal machine — which processes every packet on arrival with the main-loop code and lets a
      holder act the moment it gets the lock — run over the schedule from which only the packets
      traced as refused / not offered / skipped were erased, shows every lock holder exactly what
      the real holders saw (`acts toks`: counters, flow log, in order);
    * whenever the loop is in its main loop (in particular at the end of every closed schedule),
      flow log and counters ARE those of the ideal run: each accounted packet is in the flow log
      exactly once, under the IP version, key, packet type (direction), size and auxiliary byte it
      was fetched with — the ideal run hands exactly these to `ops.add`;
    * one `ErrLocalBufferOverflow` was reported per refused packet. -/
theorem pause_transparent (ops : FlowOps FL) (empty : FL) (page limit : Nat) (hp : 45 ≤ page) (evs : List Ev)
    (hwf : ∀ e ∈ evs, EvWf e) :
    ∃ s0 s toks i, init empty page limit = .ok s0 ∧ run ops s0 evs = .ok (s, toks) ∧ toks.length = evs.length ∧
      irun ops { lc := (empty, {}), held := false, pend := none } (kept evs toks) = .ok (i, acts toks) ∧
      (s.mode = .proc → (s.log, s.cnt) = i.lc) ∧
      s.ovf = refusals toks := by
  obtain ⟨s0, h0, hov0, _, hrel0⟩ := init_rel ops empty page limit hp
  obtain ⟨s, toks, i, hr, hl, hir, hrel, hov, _⟩ := run_sim ops evs s0 _ hrel0 hwf
  exact ⟨s0, s, toks, i, h0, hr, hl, hir, fun hm => (rel_proc hrel hm).1.symm, by omega⟩

theorem istep_unlock {ops : FlowOps FL} {i i' : ISt FL} {a : Option (Act FL)} (h : istep ops i .unlock = .ok (i', a)) :
    i'.held = (i.held && i.pend.isSome) ∧ i'.pend = (if i.held then none else i.pend) := by
  simp only [istep] at h
  cases hh : i.held <;> cases hp : i.pend <;> simp only [hh, hp, if_true, Bool.false_eq_true, if_false] at h <;>
    injection h with h <;> injection h with h _ <;> subst h <;> simp [hh, hp]

/-- a state reached from the initial state by a well-formed schedule -/
def Reachable (ops : FlowOps FL) (empty : FL) (page limit : Nat) (s : St FL) : Prop :=
  ∃ s0 evs toks, init empty page limit = .ok s0 ∧ (∀ e ∈ evs, EvWf e) ∧ run ops s0 evs = .ok (s, toks)

theorem reachable_rel {ops : FlowOps FL} {empty : FL} {page limit : Nat} (hp : 45 ≤ page) {s : St FL}
    (h : Reachable ops empty page limit s) : ∃ i, Rel ops limit s i := by
  obtain ⟨s0, evs, toks, h0, hwf, hr⟩ := h
  obtain ⟨s0', h0', _, _, hrel0⟩ := init_rel ops empty page limit hp
  rw [h0] at h0'; cases h0'
  obtain ⟨s', toks', i, hr', _, _, hrel, _, _⟩ := run_sim ops evs s0 _ hrel0 hwf
  rw [hr] at hr'; cases hr'
  exact ⟨i, hrel⟩

/-- **closed_schedule_ends_in_main_loop** — from every reachable state two unlocks (the closing
    `U`s the wire format appends: one for the holder, one for a waiting holder) bring the loop back
    to its main loop with the buffer drained, so the equality of `pause_transparent` applies. -/
theorem closed_schedule_ends_in_main_loop {ops : FlowOps FL} {empty : FL} {page limit : Nat} (hp : 45 ≤ page)
    {s : St FL} (h : Reachable ops empty page limit s) :
    ∃ s' toks, run ops s [.unlock, .unlock] = .ok (s', toks) ∧ s'.mode = .proc := by
  obtain ⟨i, hrel⟩ := reachable_rel hp h
  obtain ⟨s1, t1, hs1, hc1⟩ := step_sim ops hrel .unlock trivial
  have hcount : ∀ {s s' : St FL} {i : ISt FL} {t : Tok FL}, Rel ops limit s i →
      ((counted t = true ∧ s'.ovf = s.ovf ∧ ∃ i', istep ops i .unlock = .ok (i', tokAct t) ∧ Rel ops limit s' i') ∨
       (counted t = false ∧ s'.ovf = s.ovf + (if refusedTok t then 1 else 0) ∧ tokAct t = none ∧
        (∃ p, Ev.unlock = .pkt p) ∧ s.mode ≠ .proc ∧ Rel ops limit s' i ∧ s'.log = s.log ∧ s'.cnt = s.cnt ∧
        (t = .fetched .refused → s.mode = .buffering ∧ s'.mode = .blocked ∧ s'.ovf = s.ovf + 1 ∧ limit < s.buf.w + 45) ∧
        (t = .fetched .skipped → ∃ p, Ev.unlock = .pkt p ∧ NotIP p))) →
      ∃ i', istep ops i .unlock = .ok (i', tokAct t) ∧ Rel ops limit s' i' := by
    intro s s' i t _ hc
    rcases hc with ⟨_, _, hx⟩ | ⟨_, _, _, ⟨p, hp'⟩, _⟩
    · exact hx
    · cases hp'
  obtain ⟨i1, hi1, hrel1⟩ := hcount hrel hc1
  obtain ⟨s2, t2, hs2, hc2⟩ := step_sim ops hrel1 .unlock trivial
  obtain ⟨i2, hi2, hrel2⟩ := hcount hrel1 hc2
  refine ⟨s2, [t1, t2], by simp only [run, hs1, bind_ok, hs2], ?_⟩
  have hu1 := istep_unlock hi1
  have hu2 := istep_unlock hi2
  have hheld : i2.held = false := by
    rw [hu2.1, hu1.1, hu1.2]
    cases i.held <;> simp
  have hh := hrel2.held
  rw [hheld] at hh
  cases hm : s2.mode with
  | proc => rfl
  | buffering => rw [hm] at hh; cases hh
  | blocked => rw [hm] at hh; cases hh

/-- **refused_only_when_full** / **loss_only_while_paused** — in every reachable state, a step whose
    packet is not accounted for (refused, not offered, skipped) happens only while a holder has the
    lock, leaves flow log and counters untouched, and a refusal happens only inside `bufferPackets`
    when the record no longer fits under the size limit (`limit < write position + 45`, a record
    takes at most 45 bytes), reports one overflow and makes the loop wait for the unlock. -/
theorem loss_only_while_paused {ops : FlowOps FL} {empty : FL} {page limit : Nat} (hp : 45 ≤ page)
    {s s' : St FL} (h : Reachable ops empty page limit s) {e : Ev} (hwf : EvWf e) {t : Tok FL}
    (hs : step ops s e = .ok (s', t)) (hc : counted t = false) :
    s.mode ≠ .proc ∧ (∃ p, e = .pkt p) ∧ s'.log = s.log ∧ s'.cnt = s.cnt ∧
    (t = .fetched .refused → s.mode = .buffering ∧ s'.mode = .blocked ∧ s'.ovf = s.ovf + 1 ∧ limit < s.buf.w + 45) := by
  obtain ⟨i, hrel⟩ := reachable_rel hp h
  obtain ⟨s1, t1, hs1, hc1⟩ := step_sim ops hrel e hwf
  rw [hs] at hs1
  injection hs1 with hs1
  injection hs1 with h1 h2
  subst h1; subst h2
  rcases hc1 with ⟨hcnt, _⟩ | ⟨_, _, _, hpk, hm, _, hl, hcn, hx, _⟩
  · rw [hc] at hcnt; cases hcnt
  · exact ⟨hm, hpk, hl, hcn, hx⟩

end

/-! ## the flow log alone: non-IP packets fetched while paused need not be erased -/

section
variable {FL : Type}

/-- packets that were fetched and not refused (the `skipped` ones included) -/
def counted2 : Tok FL → Bool
  | .fetched .refused => false
  | .fetched .notOffered => false
  | _ => true

def kept2 : List Ev → List (Tok FL) → List Ev
  | e :: es, t :: ts => if counted2 t then e :: kept2 es ts else kept2 es ts
  | _, _ => []

/-- the flow log a holder saw (a status call does not look at it) -/
def Act.flows : Act FL → Option FL
  | .status _ => none
  | .query l => some l
  | .writeout _ l => some l

def views (as : List (Act FL)) : List FL := as.filterMap Act.flows

/-- two ideal states with the same flow log and lock state (the counters may differ) -/
structure LogEq (i j : ISt FL) : Prop where
  log : i.lc.1 = j.lc.1
  held : i.held = j.held
  pend : i.pend = j.pend

theorem procPkt_notIP (ops : FlowOps FL) (lc : FL × Cnt) {p : Pkt} (h : NotIP p) :
    ∃ c', procPkt ops lc p = .ok (lc.1, c') := by
  unfold procPkt
  rcases h with h | h <;> rw [h] <;> simp only [bind_ok]
  · obtain ⟨c', hc⟩ := upd_ok lc.2 ErrnoPacketTruncated (by simp [ErrnoPacketTruncated]) (by simp [ErrnoPacketTruncated])
    exact ⟨c', by rw [hc]; rfl⟩
  · have hb : ∀ c : Cnt, bumpErr c ErrnoInvalidIPHeader = .ok { c with inv := c.inv + 1 } := by
      intro c; simp [bumpErr, NumParsingErrors, ErrnoInvalidIPHeader, ErrnoPacketFragmentIgnore]
    exact ⟨_, by rw [hb]; rfl⟩

theorem account_log (ops : FlowOps FL) (l : FL) (c1 c2 : Cnt) (isV4 : Bool) (k : List Nat) (pt sz aux : Nat) (e : Int)
    (he : e = -1 ∨ (0 ≤ e ∧ e < 3)) :
    ∃ r1 r2, account ops (l, c1) isV4 k pt sz aux e = .ok r1 ∧ account ops (l, c2) isV4 k pt sz aux e = .ok r2 ∧ r1.1 = r2.1 := by
  unfold account
  split
  · rename_i hgt
    rcases he with he | he
    · simp [ErrnoOK, he] at hgt
    · obtain ⟨c1', h1⟩ := upd_ok c1 e he.1 he.2
      obtain ⟨c2', h2⟩ := upd_ok c2 e he.1 he.2
      exact ⟨(l, c1'), (l, c2'), by simp only [h1, bind_ok], by simp only [h2, bind_ok], rfl⟩
  · exact ⟨_, _, rfl, rfl, rfl⟩

theorem procPkt_log (ops : FlowOps FL) (l : FL) (c1 c2 : Cnt) {p : Pkt} (hwf : PktWf p) :
    ∃ r1 r2, procPkt ops (l, c1) p = .ok r1 ∧ procPkt ops (l, c2) p = .ok r2 ∧ r1.1 = r2.1 := by
  rcases dispatch_cases hwf.2.2 with h | h | h | h
  · obtain ⟨c1', h1⟩ := procPkt_notIP ops (l, c1) (Or.inl h)
    obtain ⟨c2', h2⟩ := procPkt_notIP ops (l, c2) (Or.inl h)
    exact ⟨_, _, h1, h2, rfl⟩
  · obtain ⟨c1', h1⟩ := procPkt_notIP ops (l, c1) (Or.inr h)
    obtain ⟨c2', h2⟩ := procPkt_notIP ops (l, c2) (Or.inr h)
    exact ⟨_, _, h1, h2, rfl⟩
  · rw [procPkt_v4 ops _ h, procPkt_v4 ops _ h]
    exact account_log ops l c1 c2 _ _ _ _ _ _ (resFields_errno _ _)
  · rw [procPkt_v6 ops _ h, procPkt_v6 ops _ h]
    exact account_log ops l c1 c2 _ _ _ _ _ _ (resFields_errno _ _)

theorem act_log (ops : FlowOps FL) (h : Holder) (l : FL) (c1 c2 : Cnt) :
    (act ops h (l, c1)).1.1 = (act ops h (l, c2)).1.1 ∧ (act ops h (l, c1)).2.flows = (act ops h (l, c2)).2.flows := by
  cases h <;> exact ⟨rfl, rfl⟩

theorem views_single (a b : Act FL) (h : a.flows = b.flows) : views [a] = views [b] := by
  simp only [views, List.filterMap_cons, List.filterMap_nil, h]

set_option linter.unusedSimpArgs false in
theorem istep_logeq {ops : FlowOps FL} {i j i' : ISt FL} {a : Option (Act FL)} (h : LogEq i j) {e : Ev} (hwf : EvWf e)
    (hi : istep ops i e = .ok (i', a)) :
    ∃ j' a', istep ops j e = .ok (j', a') ∧ LogEq i' j' ∧ views a'.toList = views a.toList := by
  rcases hil : i.lc with ⟨il, ic⟩
  rcases hjl : j.lc with ⟨jl, jc⟩
  have hl : il = jl := by have := h.log; rw [hil, hjl] at this; exact this
  subst hl
  cases e with
  | pkt p =>
    obtain ⟨r1, r2, h1, h2, hr⟩ := procPkt_log ops il ic jc (show PktWf p from hwf)
    simp only [istep, hil, h1, bind_ok] at hi
    injection hi with hi; injection hi with hi1 hi2
    subst hi1; subst hi2
    exact ⟨{ j with lc := r2 }, none, by simp only [istep, hjl, h2, bind_ok], ⟨hr, h.held, h.pend⟩, rfl⟩
  | lock h0 =>
    have hal := act_log ops h0 il ic jc
    simp only [istep, hil] at hi
    simp only [istep, hjl, ← h.held, ← h.pend]
    cases hh : i.held <;> cases hp : i.pend <;> simp only [hh, hp, if_true, if_false, Bool.false_eq_true] at hi ⊢ <;>
      injection hi with hi <;> injection hi with hi1 hi2 <;> subst hi1 <;> subst hi2
    · exact ⟨_, _, rfl, ⟨hal.1, rfl, by simp [hp, ← h.pend]⟩, views_single _ _ hal.2.symm⟩
    · exact ⟨_, _, rfl, ⟨hal.1, rfl, by simp [hp, ← h.pend]⟩, views_single _ _ hal.2.symm⟩
    · exact ⟨_, _, rfl, ⟨by simp [hil, hjl], by simp [hh, ← h.held], rfl⟩, rfl⟩
    · exact ⟨_, _, rfl, ⟨by simp [hil, hjl], by simp [hh, ← h.held], by simp [hp, ← h.pend]⟩, rfl⟩
  | unlock =>
    simp only [istep, hil] at hi
    simp only [istep, hjl, ← h.held, ← h.pend]
    cases hh : i.held <;> cases hp : i.pend <;> simp only [hh, hp, if_true, if_false, Bool.false_eq_true] at hi ⊢ <;>
      injection hi with hi <;> injection hi with hi1 hi2 <;> subst hi1 <;> subst hi2
    · exact ⟨_, _, rfl, ⟨by simp [hil, hjl], by simp [hh, ← h.held], by simp [hp, ← h.pend]⟩, rfl⟩
    · exact ⟨_, _, rfl, ⟨by simp [hil, hjl], by simp [hh, ← h.held], by simp [hp, ← h.pend]⟩, rfl⟩
    · exact ⟨_, _, rfl, ⟨by simp [hil, hjl], rfl, by simp [hp, ← h.pend]⟩, rfl⟩
    · rename_i h2
      have hal := act_log ops h2 il ic jc
      exact ⟨_, _, rfl, ⟨hal.1, rfl, rfl⟩, views_single _ _ hal.2.symm⟩
  | unblock =>
    simp only [istep] at hi
    injection hi with hi; injection hi with hi1 hi2
    subst hi1; subst hi2
    exact ⟨j, none, rfl, h, rfl⟩

end

section
variable {FL : Type}

theorem counted2_of_counted {t : Tok FL} (h : counted t = true) : counted2 t = true := by
  cases t with
  | fetched f => cases f <;> simp_all [counted, counted2]
  | _ => rfl

theorem irun_cons_ok {ops : FlowOps FL} {i i' : ISt FL} {e : Ev} {es : List Ev} {a : List (Act FL)}
    (h : irun ops i (e :: es) = .ok (i', a)) :
    ∃ i1 a1 a2, istep ops i e = .ok (i1, a1) ∧ irun ops i1 es = .ok (i', a2) ∧ a = a1.toList ++ a2 := by
  simp only [irun] at h
  obtain ⟨r, hr, h⟩ := bind_eq_ok h
  obtain ⟨q, hq, h⟩ := bind_eq_ok h
  injection h with h; injection h with h1 h2
  subst h1; subst h2
  exact ⟨r.1, r.2, q.2, hr, hq, rfl⟩

/-- on the ideal machine, the non-IP packets (the ones traced as skipped) do not matter for the flow
    log: running with them gives the same flow log and the same flow-log views of all holders -/
theorem ideal_skip_irrelevant (ops : FlowOps FL) : ∀ (evs : List Ev) (toks : List (Tok FL)) (i j i' : ISt FL)
    (a : List (Act FL)), (∀ e ∈ evs, EvWf e) → SkipOK evs toks → LogEq i j →
    irun ops i (kept evs toks) = .ok (i', a) →
    ∃ j' a', irun ops j (kept2 evs toks) = .ok (j', a') ∧ LogEq i' j' ∧ views a' = views a := by
  intro evs
  induction evs with
  | nil =>
    intro toks i j i' a _ _ h hi
    simp only [kept, irun] at hi
    injection hi with hi; injection hi with h1 h2; subst h1; subst h2
    exact ⟨j, [], by simp only [kept2, irun], h, rfl⟩
  | cons e es ih =>
    intro toks i j i' a hwf hsk h hi
    have hwf' : ∀ e ∈ es, EvWf e := fun e he => hwf e (by simp [he])
    cases toks with
    | nil =>
      simp only [kept, irun] at hi
      injection hi with hi; injection hi with h1 h2; subst h1; subst h2
      exact ⟨j, [], by simp only [kept2, irun], h, rfl⟩
    | cons t ts =>
      have hsk' : SkipOK es ts := hsk.2
      cases hc : counted t with
      | true =>
        simp only [kept, hc, if_true] at hi
        obtain ⟨i1, a1, a2, hs, hr, ha⟩ := irun_cons_ok hi
        obtain ⟨j1, b1, hjs, hle, hv⟩ := istep_logeq h (hwf e (by simp)) hs
        obtain ⟨j', b2, hjr, hle', hv'⟩ := ih ts i1 j1 i' a2 hwf' hsk' hle hr
        refine ⟨j', b1.toList ++ b2, ?_, hle', ?_⟩
        · simp only [kept2, counted2_of_counted hc, if_true, irun, hjs, bind_ok, hjr]
        · subst ha
          simp only [views, List.filterMap_append] at hv hv' ⊢
          rw [hv, hv']
      | false =>
        simp only [kept, hc] at hi
        cases hc2 : counted2 t with
        | false =>
          obtain ⟨j', b2, hjr, hle', hv'⟩ := ih ts i j i' a hwf' hsk' h hi
          exact ⟨j', b2, by simp only [kept2, hc2]; exact hjr, hle', hv'⟩
        | true =>
          -- the skipped case: a non-IP packet, processed by the ideal machine without touching the log
          have hts : t = .fetched .skipped := by
            cases t with
            | fetched f => cases f <;> simp_all [counted, counted2]
            | _ => simp [counted] at hc
          obtain ⟨p, he, hnip⟩ := hsk.1 hts
          subst he
          obtain ⟨c', hp⟩ := procPkt_notIP ops j.lc hnip
          have hle : LogEq i { j with lc := (j.lc.1, c') } := ⟨h.log, h.held, h.pend⟩
          obtain ⟨j', b2, hjr, hle', hv'⟩ := ih ts i _ i' a hwf' hsk' hle hi
          refine ⟨j', b2, ?_, hle', hv'⟩
          simp only [kept2, hc2, if_true, irun, istep, hp, bind_ok, hjr]
          rfl

/-- **flow_log_transparent** — `pause_transparent` for the flow log alone, with ONLY the refused and
    not-offered packets erased: for every schedule, whenever the loop is in its main loop the flow
    log is the one of the ideal run over all fetched-and-not-refused packets (the non-IP packets
    that `bufferPackets` does not track included), and every write-out and live query saw the flow
    log it sees in that ideal run. The only packets missing from the flow log are those for which an
    overflow was reported and those the loop did not fetch while it waited for the unlock. -/
theorem flow_log_transparent (ops : FlowOps FL) (empty : FL) (page limit : Nat) (hp : 45 ≤ page) (evs : List Ev)
    (hwf : ∀ e ∈ evs, EvWf e) :
    ∃ s0 s toks j va, init empty page limit = .ok s0 ∧ run ops s0 evs = .ok (s, toks) ∧
      irun ops { lc := (empty, {}), held := false, pend := none } (kept2 evs toks) = .ok (j, va) ∧
      views va = views (acts toks) ∧ (s.mode = .proc → s.log = j.lc.1) ∧ s.ovf = refusals toks := by
  obtain ⟨s0, h0, hov0, _, hrel0⟩ := init_rel ops empty page limit hp
  obtain ⟨s, toks, i, hr, hl, hir, hrel, hov, hsk⟩ := run_sim ops evs s0 _ hrel0 hwf
  obtain ⟨j, va, hj, hle, hv⟩ := ideal_skip_irrelevant ops evs toks _ _ i (acts toks) hwf hsk ⟨rfl, rfl, rfl⟩ hir
  refine ⟨s0, s, toks, j, va, h0, hr, hj, hv, fun hm => ?_, by omega⟩
  have := (rel_proc hrel hm).1
  rw [← hle.log, this]

end

/-! ## non-vacuity, and what happens outside the hypotheses -/

instance (e : Ev) : Decidable (EvWf e) := by
  cases e <;> unfold EvWf <;> try unfold PktWf
  all_goals infer_instance

/-- 10.0.0.1:50000 → 10.0.0.2:53, UDP, 28 bytes -/
def exL4 : List Nat := [0x45,0,0,28, 0,1,0x40,0, 64,17,0,0, 10,0,0,1, 10,0,0,2, 0xc3,0x50, 0,53, 0,8,0,0]
/-- 2001:db8::1:50000 → 2001:db8::2:53, UDP, 48 bytes -/
def exL6 : List Nat := [0x60,0,0,0, 0,8,17,64] ++ [0x20,1,0xd,0xb8,0,0,0,0,0,0,0,0,0,0,0,1] ++
  [0x20,1,0xd,0xb8,0,0,0,0,0,0,0,0,0,0,0,2] ++ [0xc3,0x50, 0,53, 0,8,0,0]
def exP4 : Pkt := { ptype := 0, size := 100, layer := exL4 }
def exP6 : Pkt := { ptype := 4, size := 1500, layer := exL6 }
/-- not IP: version nibble 1 -/
def exPx : Pkt := { ptype := 0, size := 60, layer := [0x10, 1, 2, 3] }
def exK4 : List Nat := [10,0,0,1, 0,0, 10,0,0,2, 0,53, 17]
def exK6 : List Nat := [0x20,1,0xd,0xb8,0,0,0,0,0,0,0,0,0,0,0,1, 0,0, 0x20,1,0xd,0xb8,0,0,0,0,0,0,0,0,0,0,0,2, 0,53, 17]

/-- a write-out pauses the capture; an IPv6, a non-IP and an IPv4 packet arrive; a live query asks
    for the lock and waits; the next IPv6 packet no longer fits (limit 100 bytes: 45 + 21 + 45 > 100);
    one more packet is left in the source; unlock; the query is served; one more IPv6 packet; unlock -/
def exEvs : List Ev := [.pkt exP4, .lock .writeout, .pkt exP6, .pkt exPx, .pkt exP4, .lock .query, .pkt exP6, .pkt exP4,
  .unlock, .pkt exP6, .unlock, .pkt exP4]

def fates (ts : List (Tok (List Entry))) : List Fate := ts.filterMap fun t => match t with | Tok.fetched f => some f | _ => none

def exRun : Option (List Entry × Cnt × Nat) :=
  match init ([] : List Entry) 64 100 >>= fun s0 => run cOps s0 exEvs with
  | .ok (s, _) => some (s.log, s.cnt, s.ovf)
  | _ => none

def exTrace : Option (List Fate × List (List Entry)) :=
  match init ([] : List Entry) 64 100 >>= fun s0 => run cOps s0 exEvs with
  | .ok (_, t) => some (fates t, views (acts t))
  | _ => none

/-- both regenerated flags are right (`flag_v4`, `flag_v6`). The two examples below are guarded by it:
    with a wrong flag only `flag_v4` / `flag_v6` fail — a failing `decide +kernel` on a term of this
    size would keep the elaborator busy for minutes producing its error message. -/
def flagsOK : Bool := addIsV4Flag false && !addIsV4Flag true

example : flagsOK = true := by decide

/-- the hypotheses of `pause_transparent` hold for this schedule -/
example : (45 ≤ 64) ∧ ∀ e ∈ exEvs, EvWf e := by decide +kernel

/-- the run of the model (driver instance `cOps` = the code's flow log): the packets buffered during
    the write-out come out under their own IP version, key, direction and size (the write-out reset
    the counters of the first packet); the refused packet is reported (`ovf = 1`) and missing, the
    next one was not fetched -/
example : (!flagsOK || decide (exRun = some (
    [{ v4 := true, key := exK4, br := 200, pr := 2 }, { v4 := false, key := exK6, bs := 3000, ps := 2 }],
    { proc := 4 }, 1))) = true := by
  decide +kernel

/-- what happened to each packet, and what the two holders saw: the write-out only the first packet,
    the live query (served after the drain) the two accepted packets of the pause -/
example : (!flagsOK || decide (exTrace = some (
    [.direct, .buffered, .skipped, .buffered, .refused, .notOffered, .buffered, .direct],
    [[{ v4 := true, key := exK4, br := 100, pr := 1 }],
     [{ v4 := true, key := exK4, br := 100, pr := 1 }, { v4 := false, key := exK6, bs := 1500, ps := 1 }]]))) = true := by
  decide +kernel

/-- … and the ideal machine over the schedule without the refused / not offered (/ skipped) packets
    ends with the same flow log (this is the instance of `pause_transparent` / `flow_log_transparent`) -/
example : (match irun cOps { lc := (([] : List Entry), {}), held := false, pend := none }
      [.pkt exP4, .lock .writeout, .pkt exP6, .pkt exP4, .lock .query, .unlock, .pkt exP6, .unlock, .pkt exP4] with
    | .ok (i, a) => some (i.lc.1, views a) | _ => none) =
    some ([{ v4 := true, key := exK4, br := 200, pr := 2 }, { v4 := false, key := exK6, bs := 3000, ps := 2 }],
      [[{ v4 := true, key := exK4, br := 100, pr := 1 }],
       [{ v4 := true, key := exK4, br := 100, pr := 1 }, { v4 := false, key := exK6, bs := 1500, ps := 1 }]]) := by
  decide +kernel

/-- **the defect that was repaired, in the model of the buffer**: the original source passed `true`
    as `isIPv4` in the IPv6 branch. An IPv6 item stored that way comes back from `Next()` as an IPv4
    item whose key is the first 13 bytes of the IPv6 hash, and the drain loop logs a bogus IPv4 flow -/
example : (match C23.mkBuf 64 100 64 >>= fun b =>
      C23.add b { v4 := true, key := exK6, ptype := 4, size := 1500, aux := 0, errno := -1 } >>= fun r => C23.next r.1 with
    | .ok (_, some it) => some (it.v4, it.key, cAdd it.v4 it.key it.ptype it.size it.aux [])
    | _ => none) =
    some (true, exK6.take 13, [{ v4 := true, key := exK6.take 13, bs := 1500, ps := 1 }]) := by
  decide +kernel

/-- outside `45 ≤ page` (initial size 20, limit 1000): an IPv6 packet is refused although the limit is
    far away — `refused_only_when_full` needs the hypothesis (inherited from C23; the real page size is 4096) -/
example : (match init ([] : List Entry) 20 1000 >>= fun s0 => run cOps s0 [.lock .status, .pkt exP6] with
    | .ok (s, t) => some (s.ovf, fates t) | _ => none) = some (1, [.refused]) := by
  decide +kernel

/-- outside `PktWf` (a list element that is not a byte): the checked table lookup of the parser model
    panics — the hypothesis holds for every real byte string -/
example : (match init ([] : List Entry) 64 100 >>= fun s0 =>
      run cOps s0 [.pkt { exP4 with layer := exL4.set 23 300 }] with
    | .ok _ => false | _ => true) = true := by
  decide +kernel

end C21
