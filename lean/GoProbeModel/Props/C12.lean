import GoProbeModel.Lemmas.C12

/-!
C12 — property theorems (interface summaries, `goQuery list`).

Statements are about
* `C12.readMetadata` / `C12.queryTotals` / `C12.build` — the hand model of `ReadMetadata`, of the
  query's block selection and of `DBWriter.Write` (Model/C12.lean, tied to the code by the
  correspondence harness harness/c12.go), which computes with the translator-regenerated
  `TrafficMetadata.Add/Sub`, `DirTimestamp`, `EpochDay`, `DBWriteInterval` (Gen/ListMeta.lean);
* `C12.specSum` / `C12.specQueryTotals` — the executable spec (Spec/C12.lean).

Domain (the hypotheses of the theorems, all decidable and checked by the judge):
`histOk bs`  — Unix times ≥ 0, strictly increasing write order within one UTC day;
`first ≤ last` — `goQuery` rejects other ranges (`ParseTimeRange`);
`below`      — the sum over the whole history fits uint64 in every component.
Helper lemmas live in Lemmas/C12.lean.
-/
namespace C12
open Gen.ListMeta

theorem below_iff (s : Sum) : s.below (2 ^ 64) = true ↔ s.Below := by
  simp [Sum.below, Sum.Below, and_assoc]

/-- **list_eq_sum** — clause 1 of C12: for every write history, every range `first ≤ last`
    (bounds between blocks, on blocks, on day boundaries, outside the data, …) `ReadMetadata`
    terminates without panic and its seven numbers (IPv4 flows, IPv6 flows, drops, bytes and
    packets in each direction) equal the sum over the stored blocks whose time lies in the range. -/
theorem list_eq_sum (bs : List Block) (first last : Int) (hh : histOk bs = true) (hfl : first ≤ last)
    (hb : (sumMap blockSum bs).below (2 ^ 64) = true) :
    (readMetadata first last (build bs)).map Stats.toSum = some (specSum first last bs) := by
  have hinv := inv_build bs (hist_of_histOk bs hh)
  have hall : sumMap blockSum (allBlocks (build bs)) = sumMap blockSum bs := by
    have := sum_build bs blockSum (fun _ => true)
    have e : ∀ l : List Block, l.filter (fun _ => true) = l :=
      fun l => List.filter_eq_self.mpr (fun _ _ => rfl)
    rw [e, e] at this; exact this
  obtain ⟨r, hr, hrs⟩ := readMetadata_eq (build bs) hinv first last hfl
    (by rw [hall]; exact (below_iff _).mp hb)
  rw [hr, Option.map_some, hrs, sum_build]; rfl

/-- the spec's packet / byte totals are the query spec's totals -/
theorem spec_totals (first last : Int) (bs : List Block) :
    (specSum first last bs).totals = specQueryTotals first last bs := by
  unfold specSum specQueryTotals
  generalize bs.filter (inRange first last) = l
  have h : ∀ (fl : List Flow) (a : Totals),
      fl.foldl (fun a f => (a.1 + f.br, a.2.1 + f.bs, a.2.2.1 + f.pr, a.2.2.2 + f.ps)) a =
        addT a (sumMap flowSum fl).totals := foldl_flows_totals
  rw [h, zero_addT, sumMap_flatMap]
  induction l with
  | nil => rfl
  | cons b t ih =>
    simp only [sumMap, totals_add, ih, blockSum]
    congr 1; exact zero_addT _

/-- **query_eq_spec**: the block-level aggregation of a query over the same interface and range
    (directory selection of `walkDB`, covered interval of `CreateWorkerJobs`, timestamp filter of
    `readBlocksAndEvaluate`) has the totals of the query spec — for every range, also `first > last`. -/
theorem query_eq_spec (bs : List Block) (first last : Int) (hh : histOk bs = true) :
    queryTotals first last (build bs) = some (specQueryTotals first last bs) := by
  rw [queryTotals_eq (build bs) (inv_build bs (hist_of_histOk bs hh)), sum_build, ← spec_totals]; rfl

/-- **list_eq_query** — clause 2 of C12: the packet and byte totals of the summary agree with the
    totals of a query over the same interface and range. -/
theorem list_eq_query (bs : List Block) (first last : Int) (hh : histOk bs = true) (hfl : first ≤ last)
    (hb : (sumMap blockSum bs).below (2 ^ 64) = true) :
    (readMetadata first last (build bs)).map (fun s => s.toSum.totals) = queryTotals first last (build bs) := by
  have h1 := list_eq_sum bs first last hh hfl hb
  rw [query_eq_spec bs first last hh, ← spec_totals]
  cases h : readMetadata first last (build bs) with
  | none => rw [h] at h1; cases h1
  | some r => rw [h] at h1; simp only [Option.map_some, Option.some.injEq] at h1 ⊢; rw [h1]

/-- **prune_sound**: the year / month pruning of `walkDB` never hides a directory that passes the
    day test, for any calendar `ym` that is monotone in time and constant within the UTC day of
    the directory (true for `time.Unix(..).Year()/Month()` in UTC, which the harness pins). -/
theorem prune_sound (ym : Int → Nat × Nat) (tfirst tlast day : Int)
    (hmono : ∀ a b, a ≤ b → (ym a).1 < (ym b).1 ∨ ((ym a).1 = (ym b).1 ∧ (ym a).2 ≤ (ym b).2))
    (hconst : ∀ t, day ≤ t → t < day + 86400 → ym t = ym day)
    (hsel : tfirst < day + EpochDay ∧ day < tlast + DBWriteInterval) :
    pruned ym tfirst tlast day = false := by
  have h1 : (ym tfirst).1 < (ym day).1 ∨ ((ym tfirst).1 = (ym day).1 ∧ (ym tfirst).2 ≤ (ym day).2) := by
    by_cases h : tfirst ≤ day
    · exact hmono _ _ h
    · rw [hconst tfirst (by omega) (by have := hsel.1; simp only [EpochDay] at this; omega)]
      right; exact ⟨rfl, Nat.le_refl _⟩
  have h2 := hmono day (tlast + DBWriteInterval) (by omega)
  unfold pruned
  simp only [Bool.or_eq_false_iff, Bool.and_eq_false_iff, decide_eq_false_iff_not, beq_eq_false_iff_ne]
  omega

/-! ## algebra of the spec -/

/-- the summary of a concatenated history is the sum of the summaries -/
theorem spec_append (first last : Int) (bs cs : List Block) :
    specSum first last (bs ++ cs) = specSum first last bs + specSum first last cs := by
  unfold specSum; rw [List.filter_append, sumMap_append]

/-- adjacent ranges add up -/
theorem spec_range_additive (first mid last : Int) (h1 : first ≤ mid + 1) (h2 : mid ≤ last) (bs : List Block) :
    specSum first last bs = specSum first mid bs + specSum (mid + 1) last bs := by
  unfold specSum
  rw [sumMap_split blockSum (fun b => decide (b.ts ≤ mid)) (bs.filter _), List.filter_filter, List.filter_filter]
  congr 2
  · apply List.filter_congr; intro b _
    by_cases h3 : first ≤ b.ts <;> by_cases h4 : b.ts ≤ last <;> by_cases h5 : b.ts ≤ mid <;>
      simp [inRange, h3, h4, h5] <;> omega
  · apply List.filter_congr; intro b _
    by_cases h3 : first ≤ b.ts <;> by_cases h4 : b.ts ≤ last <;> by_cases h5 : b.ts ≤ mid <;>
      by_cases h6 : mid + 1 ≤ b.ts <;> simp [inRange, h3, h4, h5, h6] <;> omega

/-- a range that contains no stored block has the empty summary -/
theorem spec_empty (first last : Int) (bs : List Block) (h : ∀ b ∈ bs, b.ts < first ∨ last < b.ts) :
    specSum first last bs = Sum.zero := by
  unfold specSum; rw [List.filter_eq_nil_iff.mpr]; · rfl
  intro b hb; have := h b hb; simp [inRange]; omega

/-! ## non-vacuity and the need for the hypotheses -/

/-- the witness of the two defects fixed in the code (blocks at 300, 600, 900, 1200 with 7 drops
    each): hypotheses hold, and for the range [0, 750] the model of the fixed code reports the two
    blocks in the range and their 14 drops (the unfixed code reported 3 blocks and 28 drops). -/
def wit : List Block :=
  [⟨300, 7, [⟨true, 10, 20, 1, 2⟩]⟩, ⟨600, 7, [⟨true, 10, 20, 1, 2⟩]⟩,
   ⟨900, 7, [⟨false, 10, 20, 1, 2⟩]⟩, ⟨1200, 7, [⟨true, 10, 20, 1, 2⟩]⟩]

example : histOk wit = true ∧ (sumMap blockSum wit).below (2 ^ 64) = true ∧ (0 : Int) ≤ 750 := by decide

example : (readMetadata 0 750 (build wit)).map Stats.toSum = some ⟨2, 0, 14, 20, 40, 2, 4⟩ ∧
    specSum 0 750 wit = ⟨2, 0, 14, 20, 40, 2, 4⟩ ∧ queryTotals 0 750 (build wit) = some (20, 40, 2, 4) := by
  decide

/-- two days, `last` in the final minutes of the first day and a block after it before midnight
    (the third defect: the following day was taken as the "last" directory) -/
def wit2 : List Block :=
  [⟨1700092600, 3, [⟨true, 10, 20, 1, 2⟩]⟩, ⟨1700092780, 3, [⟨true, 10, 20, 1, 2⟩]⟩,
   ⟨1700092800, 5, [⟨false, 100, 200, 10, 20⟩]⟩]

example : histOk wit2 = true ∧
    (readMetadata 1700092700 1700092750 (build wit2)).map Stats.toSum = some Sum.zero ∧
    (readMetadata 1700092000 1700092750 (build wit2)).map Stats.toSum = some ⟨1, 0, 3, 10, 20, 1, 2⟩ := by
  decide

/-- `first ≤ last` is needed: with first = 700 > last = 500 the blocks at 600 … are subtracted
    twice and the uint64 counters wrap (goQuery rejects such a range before calling `ReadMetadata`). -/
example : (readMetadata 700 500 (build wit)).map Stats.toSum ≠ some (specSum 700 500 wit) := by decide

/-- `histOk` is needed: a history whose timestamps decrease within a day (which the writer cannot
    encode, C03) breaks the block-range helpers. -/
example : histOk [⟨600, 0, []⟩, ⟨300, 1, []⟩] = false ∧
    (readMetadata 400 1000 (build [⟨600, 0, []⟩, ⟨300, 1, []⟩])).map Stats.toSum
      ≠ some (specSum 400 1000 [⟨600, 0, []⟩, ⟨300, 1, []⟩]) := by decide

/-- `prune_sound`'s hypotheses are satisfiable: a 30-day-month calendar -/
example : pruned (fun t => ((t / 31104000).toNat, (t / 2592000 % 12).toNat)) 2591000 2600000 2592000 = false := by
  decide

end C12
