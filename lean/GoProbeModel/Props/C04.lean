import GoProbeModel.Model.C04
namespace C04
theorem placeholder : True := trivial
end C04
