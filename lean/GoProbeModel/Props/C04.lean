import GoProbeModel.Model.C04

/-!
C04 — property theorems: a crash during a write-out. Day-level atomicity (`crash_consistent_day`),
lifted to whole histories with one killed write-out (`run_ok`, `crash_consistent_query`), and the
listing clause with its recorded exception (`listing_partial`).
-/
namespace C04
open DB WO

/-- does write-out `i` store data in column `c`? -/
def inCol (hist : List WriteOut) (c : Nat) (i : Nat) : Bool :=
  match hist[i]? with | some w => colNonEmpty w c | none => false

theorem keepLen_eq (hist : List WriteOut) (ids : List Nat) (c : Nat) :
    keepLen hist ids c = (ids.filter (inCol hist c)).length := rfl

theorem keepLen_append (hist : List WriteOut) (a b : List Nat) (c : Nat) :
    keepLen hist (a ++ b) c = keepLen hist a c + keepLen hist b c := by
  simp [keepLen_eq, List.filter_append]

/-- day directory `d` faithfully stores exactly the committed blocks `ids` -/
structure DayOK (hist : List WriteOut) (d : DayFs) (ids : List Nat) : Prop where
  hmeta : d.metaIds.getD [] = ids
  ncols : d.cols.length = 8
  cols : ∀ c, c < 8 → (d.cols.getD c []).take (keepLen hist ids c) = ids.filter (inCol hist c)

/-! ### list facts -/

theorem filter_index (P : Nat → Bool) (ids : List Nat) (i : Nat) (id : Nat) (h : ids[i]? = some id) (hp : P id = true) :
    (ids.filter P)[((ids.take i).filter P).length]? = some id := by
  induction ids generalizing i with
  | nil => simp at h
  | cons x xs ih =>
    cases i with
    | zero =>
      simp only [List.getElem?_cons_zero, Option.some.injEq] at h
      subst h
      simp [hp]
    | succ j =>
      simp only [List.getElem?_cons_succ] at h
      simp only [List.take_succ_cons]
      by_cases hx : P x = true
      · simp only [List.filter_cons, hx, if_true, List.length_cons, List.getElem?_cons_succ]
        exact ih j h
      · simp only [List.filter_cons, hx, Bool.false_eq_true, if_false]
        exact ih j h

theorem take_prefix_getElem {α} (l p : List α) (n : Nat) (h : l.take n = p) (j : Nat) (hj : j < p.length) :
    l[j]? = p[j]? := by
  subst h
  have : j < n := by simp at hj; omega
  simp [this]

/-- **every committed block of a well-formed day reads back** -/
theorem readable_of_ok (hist : List WriteOut) (d : DayFs) (ids : List Nat) (hok : DayOK hist d ids)
    (hin : ∀ id ∈ ids, (hist[id]?).isSome) (i : Nat) (hi : i < ids.length) :
    blockReadable hist d ids i = true := by
  unfold blockReadable
  have hsome : ids[i]? = some ids[i] := List.getElem?_eq_getElem hi
  rw [hsome]
  have hh := hin ids[i] (List.getElem_mem hi)
  cases hw : hist[ids[i]]? with
  | none => simp [hw] at hh
  | some w =>
    simp only [hw]
    simp only [List.all_eq_true, List.mem_range, Bool.or_eq_true, Bool.not_eq_eq_eq_not, Bool.not_true, beq_iff_eq]
    intro c hc
    by_cases hne : colNonEmpty w c = true
    · right
      have hp : inCol hist c ids[i] = true := by simp [inCol, hw, hne]
      have hf := filter_index (inCol hist c) ids i ids[i] hsome hp
      have hlt : ((ids.take i).filter (inCol hist c)).length < (ids.filter (inCol hist c)).length := by
        have := List.getElem?_eq_some_iff.1 hf
        exact this.1
      rw [keepLen_eq, take_prefix_getElem _ _ _ (hok.cols c hc) _ hlt]
      exact hf
    · left; simpa using hne

theorem range_filterMap_getElem (l : List Nat) : (List.range l.length).filterMap (fun i => l[i]?) = l := by
  induction l with
  | nil => rfl
  | cons x xs ih =>
    rw [List.length_cons, List.range_succ_eq_map, List.filterMap_cons]
    simp only [List.getElem?_cons_zero, List.filterMap_map]
    congr 1

theorem dayQueryIds_of_ok (hist : List WriteOut) (d : DayFs) (ids : List Nat) (hok : DayOK hist d ids)
    (hin : ∀ id ∈ ids, (hist[id]?).isSome) : dayQueryIds hist d = ids := by
  unfold dayQueryIds
  have hm := hok.hmeta
  cases hmi : d.metaIds with
  | none => simp [hmi] at hm; simp [← hm]
  | some l =>
    simp only [hmi, Option.getD_some] at hm
    subst hm
    simp only []
    have : (List.range l.length).filterMap (fun i => if blockReadable hist d l i = true then l[i]? else none)
         = (List.range l.length).filterMap (fun i => l[i]?) := by
      have hall : ∀ (r : List Nat), (∀ i ∈ r, i < l.length) →
          r.filterMap (fun i => if blockReadable hist d l i = true then l[i]? else none) = r.filterMap (fun i => l[i]?) := by
        intro r hr
        induction r with
        | nil => rfl
        | cons x xs ih =>
          simp only [List.filterMap_cons, readable_of_ok hist d l hok hin x (hr x (by simp)), if_true]
          rw [ih (fun i hi => hr i (by simp [hi]))]
      exact hall _ (fun i hi => List.mem_range.1 hi)
    rw [this, range_filterMap_getElem]


/-! ### one write-out, operation by operation -/

/-- operations before the commit point: neither the metadata rename nor the directory rename -/
def safeOp (op : Op) : Prop := op ≠ .renamemeta ∧ op ≠ .renamedir

theorem getD_mapIdx (l : List (List Nat)) (f : Nat → List Nat → List Nat) (c : Nat) (hc : c < l.length) :
    (l.mapIdx f).getD c [] = f c (l.getD c []) := by
  simp [List.getD_eq_getElem?_getD, List.getElem?_mapIdx, List.getElem?_eq_getElem hc]

/-- column `c` of `d` holds the new payload right after the committed ones -/
def Written (hist : List WriteOut) (k : Nat) (ids : List Nat) (d : DayFs) (c : Nat) : Prop :=
  (d.cols.getD c []).take (keepLen hist ids c + 1) = ids.filter (inCol hist c) ++ [k]

theorem applyDay_safe (hist : List WriteOut) (k : Nat) (ids : List Nat) (d : DayFs) (op : Op)
    (hok : DayOK hist d ids) (hs : safeOp op) :
    DayOK hist (applyDay hist k ids d op) ids ∧ (applyDay hist k ids d op).named = d.named ∧
    (applyDay hist k ids d op).metaIds = d.metaIds ∧
    (∀ c, c < 8 → Written hist k ids d c → Written hist k ids (applyDay hist k ids d op) c) ∧
    (∀ c, c < 8 → op = .writecol c → Written hist k ids (applyDay hist k ids d op) c) := by
  have hlen : ∀ c, c < 8 → ((d.cols.getD c []).take (keepLen hist ids c)).length = keepLen hist ids c := by
    intro c hc; rw [hok.cols c hc, keepLen_eq]
  cases op with
  | renamemeta => exact absurd rfl hs.1
  | renamedir => exact absurd rfl hs.2
  | writecol c0 =>
    have hcols : ∀ c, c < 8 → ((applyDay hist k ids d (.writecol c0)).cols.getD c []) =
        if c = c0 then (d.cols.getD c []).take (keepLen hist ids c0) ++ [k] else d.cols.getD c [] := by
      intro c hc
      simp only [applyDay]
      rw [getD_mapIdx _ _ _ (by rw [hok.ncols]; exact hc)]
    refine ⟨⟨hok.hmeta, by simp [applyDay, hok.ncols], ?_⟩, rfl, rfl, ?_, ?_⟩
    · intro c hc
      rw [hcols c hc]
      by_cases h : c = c0
      · subst h
        simp only [if_true]
        rw [List.take_append_of_le_length (by rw [hlen c hc]; exact Nat.le_refl _), List.take_take, Nat.min_self]
        exact hok.cols c hc
      · simp only [h, if_false]; exact hok.cols c hc
    · intro c hc hw
      unfold Written
      rw [hcols c hc]
      by_cases h : c = c0
      · subst h
        simp only [if_true]
        rw [List.take_of_length_le (by rw [List.length_append, hlen c hc]; simp)]
        rw [hok.cols c hc]
      · simp only [h, if_false]; exact hw
    · intro c hc he
      have : c = c0 := by injection he with h; exact h.symm
      subst this
      unfold Written
      rw [hcols c hc]
      simp only [if_true]
      rw [List.take_of_length_le (by rw [List.length_append, hlen c hc]; simp), hok.cols c hc]
  | _ =>
    refine ⟨⟨hok.hmeta, hok.ncols, hok.cols⟩, rfl, rfl, fun c _ h => h, fun c _ he => by cases he⟩

theorem runDay_safe (hist : List WriteOut) (k : Nat) (ids : List Nat) (ops : List Op) :
    ∀ (d : DayFs), DayOK hist d ids → (∀ op ∈ ops, safeOp op) →
    DayOK hist (runDay hist k ids d ops) ids ∧ (runDay hist k ids d ops).named = d.named ∧
    (runDay hist k ids d ops).metaIds = d.metaIds ∧
    (∀ c, c < 8 → (Written hist k ids d c ∨ .writecol c ∈ ops) → Written hist k ids (runDay hist k ids d ops) c) := by
  induction ops with
  | nil => intro d hok _; exact ⟨hok, rfl, rfl, fun c _ h => h.elim id (fun h => by simp at h)⟩
  | cons op ops ih =>
    intro d hok hs
    obtain ⟨h1, h2, h3, h4, h5⟩ := applyDay_safe hist k ids d op hok (hs op (by simp))
    obtain ⟨i1, i2, i3, i4⟩ := ih _ h1 (fun o ho => hs o (by simp [ho]))
    refine ⟨i1, by rw [show runDay hist k ids d (op :: ops) = runDay hist k ids (applyDay hist k ids d op) ops from rfl, i2, h2],
      by rw [show runDay hist k ids d (op :: ops) = runDay hist k ids (applyDay hist k ids d op) ops from rfl, i3, h3], ?_⟩
    intro c hc h
    apply i4 c hc
    rcases h with h | h
    · exact Or.inl (h4 c hc h)
    · simp only [List.mem_cons] at h
      rcases h with h | h
      · exact Or.inl (h5 c hc h.symm)
      · exact Or.inr h

/-- the commit point: once every column that carries data holds the new payload, renaming the
    metadata file makes the day hold exactly one more block -/
theorem commit_ok (hist : List WriteOut) (k : Nat) (w : WriteOut) (hk : hist[k]? = some w) (ids : List Nat) (d : DayFs)
    (hok : DayOK hist d ids) (hw : ∀ c, c < 8 → colNonEmpty w c = true → Written hist k ids d c) :
    DayOK hist (applyDay hist k ids d .renamemeta) (ids ++ [k]) := by
  refine ⟨by simp [applyDay], by simp [applyDay, hok.ncols], ?_⟩
  intro c hc
  show (d.cols.getD c []).take _ = _
  rw [keepLen_append, List.filter_append]
  by_cases hne : colNonEmpty w c = true
  · have hin : inCol hist c k = true := by simp [inCol, hk, hne]
    have h1 : keepLen hist [k] c = 1 := by simp [keepLen_eq, hin]
    have h2 : [k].filter (inCol hist c) = [k] := by simp [hin]
    rw [h1, h2]; exact hw c hc hne
  · have hin : inCol hist c k = false := by simp [inCol, hk]; simpa using hne
    have h1 : keepLen hist [k] c = 0 := by simp [keepLen_eq, hin]
    have h2 : [k].filter (inCol hist c) = [] := by simp [hin]
    rw [h1, h2]; simpa using hok.cols c hc

theorem runDay_post (hist : List WriteOut) (k : Nat) (base ids : List Nat) (ops : List Op) :
    ∀ (d : DayFs), DayOK hist d ids → (∀ op ∈ ops, op = .renamedir ∨ op = .unlink) →
    DayOK hist (runDay hist k base d ops) ids ∧
    (runDay hist k base d ops).named = if .renamedir ∈ ops then some (totalsIds hist ids) else d.named := by
  induction ops with
  | nil => intro d hok _; exact ⟨hok, by simp [runDay]⟩
  | cons op ops ih =>
    intro d hok hs
    have hop := hs op (by simp)
    have hok' : DayOK hist (applyDay hist k base d op) ids := by
      rcases hop with rfl | rfl <;> exact ⟨hok.hmeta, hok.ncols, hok.cols⟩
    obtain ⟨i1, i2⟩ := ih _ hok' (fun o ho => hs o (by simp [ho]))
    refine ⟨i1, ?_⟩
    rw [show runDay hist k base d (op :: ops) = runDay hist k base (applyDay hist k base d op) ops from rfl, i2]
    rcases hop with rfl | rfl
    · by_cases h : Op.renamedir ∈ ops
      · simp [h]
      · simp [h, applyDay, hok.hmeta]
    · by_cases h : Op.renamedir ∈ ops <;> simp [h, applyDay]

/-- **crash atomicity of one write-out on its day** (any crash index `n`): before the metadata
    rename the day holds exactly the old blocks and its name is untouched; from the rename on it holds
    exactly the old blocks plus the new one, all readable; the name carries the new summary once the
    directory rename has run. -/
theorem day_crash (hist : List WriteOut) (k : Nat) (w : WriteOut) (hk : hist[k]? = some w) (ids : List Nat) (d : DayFs)
    (hok : DayOK hist d ids) (pre post : List Op) (hpre : ∀ op ∈ pre, safeOp op)
    (hw : ∀ c, c < 8 → colNonEmpty w c = true → .writecol c ∈ pre)
    (hpost : ∀ op ∈ post, op = .renamedir ∨ op = .unlink) (n : Nat) :
    (n ≤ pre.length →
        DayOK hist (runDay hist k ids d ((pre ++ [Op.renamemeta] ++ post).take n)) ids ∧
        (runDay hist k ids d ((pre ++ [Op.renamemeta] ++ post).take n)).named = d.named) ∧
    (pre.length < n →
        DayOK hist (runDay hist k ids d ((pre ++ [Op.renamemeta] ++ post).take n)) (ids ++ [k]) ∧
        (runDay hist k ids d ((pre ++ [Op.renamemeta] ++ post).take n)).named =
          if .renamedir ∈ post.take (n - pre.length - 1) then some (totalsIds hist (ids ++ [k])) else d.named) := by
  constructor
  · intro hn
    have e : (pre ++ [Op.renamemeta] ++ post).take n = pre.take n := by
      rw [List.append_assoc, List.take_append_of_le_length hn]
    rw [e]
    obtain ⟨h1, h2, _, _⟩ := runDay_safe hist k ids (pre.take n) d hok (fun op ho => hpre op (List.mem_of_mem_take ho))
    exact ⟨h1, h2⟩
  · intro hn
    have e : (pre ++ [Op.renamemeta] ++ post).take n = pre ++ [Op.renamemeta] ++ post.take (n - pre.length - 1) := by
      rw [List.take_append, List.take_append]
      have h1 : pre.take n = pre := List.take_of_length_le (by omega)
      have h2 : ([Op.renamemeta]).take (n - pre.length) = [.renamemeta] := by
        apply List.take_of_length_le; simp; omega
      simp only [h1, h2, List.length_append, List.length_cons, List.length_nil]
      congr 2
    rw [e]
    obtain ⟨h1, h2, _, h4⟩ := runDay_safe hist k ids pre d hok hpre
    have hc := commit_ok hist k w hk ids _ h1 (fun c hc hne => h4 c hc (Or.inr (hw c hc hne)))
    have hrun : runDay hist k ids d (pre ++ [Op.renamemeta] ++ post.take (n - pre.length - 1))
        = runDay hist k ids (applyDay hist k ids (runDay hist k ids d pre) .renamemeta) (post.take (n - pre.length - 1)) := by
      simp [runDay, List.foldl_append]
    rw [hrun]
    obtain ⟨p1, p2⟩ := runDay_post hist k ids (ids ++ [k]) (post.take (n - pre.length - 1)) _ hc
      (fun op ho => hpost op (List.mem_of_mem_take ho))
    refine ⟨p1, ?_⟩
    rw [p2]
    split
    · rfl
    · simp [applyDay, h2]


/-! ### the model's program satisfies the shape `day_crash` needs -/

theorem program_eq (hist : List WriteOut) (fs : Fs) (k : Nat) (w : WriteOut) (hk : hist[k]? = some w) :
    program hist fs k = preOps hist fs k ++ [Op.renamemeta] ++ postOps hist fs k := by
  simp [program, hk]

def isSafe : Op → Bool
  | .renamemeta => false
  | .renamedir => false
  | _ => true

theorem safe_of_isSafe {op : Op} (h : isSafe op = true) : safeOp op := by
  constructor <;> (intro e; subst e; simp [isSafe] at h)

theorem all_safe_ite (c : Prop) [Decidable c] (op : Op) (h : isSafe op = true) :
    (if c then ([] : List Op) else [op]).all isSafe = true := by
  split <;> simp [h]

theorem preOps_all_safe (hist : List WriteOut) (fs : Fs) (k : Nat) : (preOps hist fs k).all isSafe = true := by
  unfold preOps
  cases hk : hist[k]? with
  | none => simp
  | some w =>
    simp only [List.all_append, Bool.and_eq_true]
    refine ⟨⟨⟨⟨by simp [isSafe], ?_⟩, by simp [isSafe]⟩, ?_⟩, by simp [isSafe]⟩
    · cases fs.day? w.iface (dayOf w.ts) with
      | some _ => simp
      | none =>
        simp only [List.all_append, Bool.and_eq_true]
        exact ⟨⟨⟨all_safe_ite _ _ (by simp [isSafe]), all_safe_ite _ _ (by simp [isSafe])⟩,
          all_safe_ite _ _ (by simp [isSafe])⟩, by simp [isSafe]⟩
    · simp [List.all_flatMap, isSafe]

theorem preOps_safe (hist : List WriteOut) (fs : Fs) (k : Nat) : ∀ op ∈ preOps hist fs k, safeOp op := by
  intro op hop
  exact safe_of_isSafe (List.all_eq_true.1 (preOps_all_safe hist fs k) op hop)

theorem preOps_writes (hist : List WriteOut) (fs : Fs) (k : Nat) (w : WriteOut) (hk : hist[k]? = some w)
    (c : Nat) (hc : c < 8) (hne : colNonEmpty w c = true) : Op.writecol c ∈ preOps hist fs k := by
  unfold preOps
  simp only [hk]
  simp only [List.mem_append, List.mem_cons, List.mem_flatMap, List.mem_filter, List.mem_range]
  left; right
  exact ⟨c, ⟨hc, hne⟩, Or.inr (Or.inl rfl)⟩

theorem postOps_shape (hist : List WriteOut) (fs : Fs) (k : Nat) :
    ∀ op ∈ postOps hist fs k, op = Op.renamedir ∨ op = Op.unlink := by
  intro op hop
  unfold postOps at hop
  cases hk : hist[k]? with
  | none => simp [hk] at hop
  | some w =>
    simp only [hk] at hop
    simp only [List.mem_append, List.mem_cons, List.not_mem_nil, or_false] at hop
    rcases hop with h | h | h
    · split at h
      · simp at h
      · simp at h; exact Or.inl h
    · exact Or.inr h
    · exact Or.inr h

/-- the commit point of write-out `k`: the index just after `renamemeta` -/
def commitIndex (hist : List WriteOut) (fs : Fs) (k : Nat) : Nat := (preOps hist fs k).length + 1

/-- a day is *clean* when its name carries no summary yet or exactly that of its committed blocks -/
def CleanName (hist : List WriteOut) (d : DayFs) (ids : List Nat) : Prop :=
  d.named = none ∨ d.named = some (totalsIds hist ids)

/-- what `ReadMetadata` reports for a day over the whole range -/
def dayList (hist : List WriteOut) (d : DayFs) : Totals :=
  match d.metaIds with
  | none => zeroTotals
  | some ids => d.named.getD (totalsIds hist ids)

/-- **crash_consistent_day** (C04, per day, every crash index): killed before the commit index the
    day reads back as its old blocks and lists their totals; killed at or after it, as the old
    blocks plus the new one — except that the *listing* still shows the old summary while the
    directory has not been renamed (the recorded finding); a write-out that runs to completion always
    ends in a clean day. -/
theorem crash_consistent_day (hist : List WriteOut) (fs : Fs) (k : Nat) (w : WriteOut) (hk : hist[k]? = some w)
    (d0 : DayFs) (ids : List Nat) (hok : DayOK hist d0 ids)
    (hd0 : (fs.day? w.iface (dayOf w.ts)).getD d0 = d0)
    (hmeta0 : ids ≠ [] → d0.metaIds = some ids)
    (n : Nat) :
    let d' := runDay hist k ids d0 ((program hist fs k).take n)
    (n < commitIndex hist fs k →
        DayOK hist d' ids ∧ d'.named = d0.named ∧ d'.metaIds = d0.metaIds) ∧
    (commitIndex hist fs k ≤ n →
        DayOK hist d' (ids ++ [k]) ∧ d'.metaIds = some (ids ++ [k]) ∧
        (d'.named = some (totalsIds hist (ids ++ [k])) ∨
         (d'.named = d0.named ∧ Op.renamedir ∈ postOps hist fs k ∧
          Op.renamedir ∉ (postOps hist fs k).take (n - commitIndex hist fs k)))) := by
  intro d'
  have hp := program_eq hist fs k w hk
  have hc := day_crash hist k w hk ids d0 hok (preOps hist fs k) (postOps hist fs k)
    (preOps_safe hist fs k) (fun c hc hne => preOps_writes hist fs k w hk c hc hne) (postOps_shape hist fs k) n
  rw [← hp] at hc
  constructor
  · intro hn
    unfold commitIndex at hn
    obtain ⟨h1, h2⟩ := hc.1 (by omega)
    refine ⟨h1, h2, ?_⟩
    have e : (program hist fs k).take n = (preOps hist fs k).take n := by
      rw [hp, List.append_assoc, List.take_append_of_le_length (by omega)]
    exact (runDay_safe hist k ids _ d0 hok (fun op ho => preOps_safe hist fs k op (List.mem_of_mem_take (e ▸ ho)))).2.2.1
  · intro hn
    unfold commitIndex at hn
    obtain ⟨h1, h2⟩ := hc.2 (by omega)
    have hm : d'.metaIds = some (ids ++ [k]) := by
      have hg : d'.metaIds.getD [] = ids ++ [k] := h1.hmeta
      cases hmi : d'.metaIds with
      | none => rw [hmi] at hg; simp at hg
      | some l => rw [hmi] at hg; simp at hg; rw [hg]
    refine ⟨h1, hm, ?_⟩
    have e : n - (preOps hist fs k).length - 1 = n - commitIndex hist fs k := by unfold commitIndex; omega
    rw [e] at h2
    by_cases hr : Op.renamedir ∈ (postOps hist fs k).take (n - commitIndex hist fs k)
    · left; rw [h2]; simp [hr]
    · simp only [hr, if_false] at h2
      -- either the program contains no directory rename (the name already carries the new summary) …
      by_cases hin : Op.renamedir ∈ postOps hist fs k
      · right; exact ⟨h2, hin, hr⟩
      · left
        rw [h2]
        unfold postOps at hin
        simp only [hk, List.mem_append, List.mem_cons, List.not_mem_nil, or_false] at hin
        have : ((fs.day? w.iface (dayOf w.ts)).bind (·.named)) =
            some (totalsIds hist (((fs.day? w.iface (dayOf w.ts)).bind (·.metaIds)).getD [] ++ [k])) := by
          apply Classical.byContradiction
          intro hne
          apply hin
          left
          simp [hne]
        cases hday : fs.day? w.iface (dayOf w.ts) with
        | none => simp [hday] at this
        | some dd =>
          have hdd : dd = d0 := by simpa [hday] using hd0
          subst hdd
          simp only [hday, Option.bind_some] at this
          rw [this]
          congr 2
          by_cases hi : ids = []
          · subst hi
            have := hok.hmeta
            simp [this]
          · simp [hmeta0 hi]


/-! ### lifting to the whole database: only the day being written changes -/

def keyEq (d : DayFs) (iface : String) (day : Int) : Bool := d.iface == iface && d.day == day

theorem day?_eq (fs : Fs) (iface : String) (day : Int) :
    fs.day? iface day = fs.days.find? (fun d => keyEq d iface day) := rfl

theorem find_setDay_same (days : List DayFs) (d : DayFs) :
    (if days.any (fun x => keyEq x d.iface d.day)
      then days.map (fun x => if keyEq x d.iface d.day then d else x)
      else days ++ [d]).find? (fun x => keyEq x d.iface d.day) = some d := by
  have hd : keyEq d d.iface d.day = true := by simp [keyEq]
  induction days with
  | nil => simp [hd]
  | cons x xs ih =>
    by_cases hx : keyEq x d.iface d.day = true
    · simp [hx, hd]
    · have hx' : keyEq x d.iface d.day = false := by simpa using hx
      simp only [List.any_cons, hx', Bool.false_or]
      by_cases ha : xs.any (fun x => keyEq x d.iface d.day) = true
      · simp only [ha, if_true] at ih ⊢
        simp only [List.map_cons, hx', Bool.false_eq_true, if_false, List.find?_cons]
        exact ih
      · simp only [ha, Bool.false_eq_true, if_false] at ih ⊢
        simp only [List.cons_append, List.find?_cons, hx']
        exact ih

theorem setDay_same (fs : Fs) (d : DayFs) : (fs.setDay d).day? d.iface d.day = some d := by
  unfold Fs.setDay
  have := find_setDay_same fs.days d
  split
  · rename_i h
    simp only [day?_eq]
    have h' : fs.days.any (fun x => keyEq x d.iface d.day) = true := h
    simp only [h', if_true] at this
    exact this
  · rename_i h
    simp only [day?_eq]
    have h' : ¬ fs.days.any (fun x => keyEq x d.iface d.day) = true := h
    simp only [h', if_false] at this
    exact this

theorem find_setDay_other (days : List DayFs) (d : DayFs) (iface : String) (day : Int)
    (hne : keyEq d iface day = false)
    (hcompat : ∀ x, keyEq x d.iface d.day = true → keyEq x iface day = false) :
    (if days.any (fun x => keyEq x d.iface d.day)
      then days.map (fun x => if keyEq x d.iface d.day then d else x)
      else days ++ [d]).find? (fun x => keyEq x iface day) = days.find? (fun x => keyEq x iface day) := by
  have hmap : ∀ (l : List DayFs), (l.map (fun x => if keyEq x d.iface d.day then d else x)).find? (fun x => keyEq x iface day)
      = l.find? (fun x => keyEq x iface day) := by
    intro l
    induction l with
    | nil => rfl
    | cons x xs ih =>
      simp only [List.map_cons, List.find?_cons]
      by_cases hx : keyEq x d.iface d.day = true
      · simp only [hx, if_true, hne, hcompat x hx]; exact ih
      · have hx' : keyEq x d.iface d.day = false := by simpa using hx
        simp only [hx', Bool.false_eq_true, if_false]; rw [ih]
  split
  · exact hmap days
  · rw [List.find?_append]
    simp [hne]

theorem keyEq_compat (x d : DayFs) (iface : String) (day : Int) (hne : keyEq d iface day = false)
    (hx : keyEq x d.iface d.day = true) : keyEq x iface day = false := by
  simp only [keyEq, Bool.and_eq_true, beq_iff_eq] at hx
  simp only [keyEq, Bool.and_eq_false_iff, beq_eq_false_iff_ne, ne_eq] at hne ⊢
  rcases hne with h | h
  · left; rw [hx.1]; exact h
  · right; rw [hx.2]; exact h

theorem setDay_other (fs : Fs) (d : DayFs) (iface : String) (day : Int) (hne : keyEq d iface day = false) :
    (fs.setDay d).day? iface day = fs.day? iface day := by
  unfold Fs.setDay
  have := find_setDay_other fs.days d iface day hne (fun x hx => keyEq_compat x d iface day hne hx)
  split
  · rename_i h
    have h' : fs.days.any (fun x => keyEq x d.iface d.day) = true := h
    simp only [h', if_true] at this
    exact this
  · rename_i h
    have h' : ¬ fs.days.any (fun x => keyEq x d.iface d.day) = true := h
    simp only [h', if_false] at this
    exact this

theorem applyDay_key (hist : List WriteOut) (k : Nat) (base : List Nat) (d : DayFs) (op : Op) :
    (applyDay hist k base d op).iface = d.iface ∧ (applyDay hist k base d op).day = d.day := by
  cases op <;> simp [applyDay]

theorem runDay_key (hist : List WriteOut) (k : Nat) (base : List Nat) (ops : List Op) (d : DayFs) :
    (runDay hist k base d ops).iface = d.iface ∧ (runDay hist k base d ops).day = d.day := by
  induction ops generalizing d with
  | nil => exact ⟨rfl, rfl⟩
  | cons op ops ih =>
    have h1 := applyDay_key hist k base d op
    have h2 := ih (applyDay hist k base d op)
    exact ⟨h2.1.trans h1.1, h2.2.trans h1.2⟩

/-- every other day of the database is untouched by write-out `k`, killed or not -/
theorem runWriteOut_other (hist : List WriteOut) (fs : Fs) (k n : Nat) (w : WriteOut) (hk : hist[k]? = some w)
    (iface : String) (day : Int) (hne : ¬ (w.iface = iface ∧ dayOf w.ts = day))
    (hkey : ∀ d, fs.day? w.iface (dayOf w.ts) = some d → d.iface = w.iface ∧ d.day = dayOf w.ts) :
    (runWriteOut hist fs k n).day? iface day = fs.day? iface day := by
  unfold runWriteOut
  simp only [hk]
  split
  · have hrk := runDay_key hist k (baseOf hist fs k)
      ((program hist fs k).take n) ((fs.day? w.iface (dayOf w.ts)).getD (freshDay w.iface (dayOf w.ts)))
    have hd0 : ((fs.day? w.iface (dayOf w.ts)).getD (freshDay w.iface (dayOf w.ts))).iface = w.iface ∧
        ((fs.day? w.iface (dayOf w.ts)).getD (freshDay w.iface (dayOf w.ts))).day = dayOf w.ts := by
      cases hd : fs.day? w.iface (dayOf w.ts) with
      | none => simp [freshDay]
      | some d => simpa using hkey d hd
    have : keyEq (runDay hist k (baseOf hist fs k)
        ((fs.day? w.iface (dayOf w.ts)).getD (freshDay w.iface (dayOf w.ts))) ((program hist fs k).take n)) iface day = false := by
      simp only [keyEq, hrk.1, hrk.2, hd0.1, hd0.2, Bool.and_eq_false_iff, beq_eq_false_iff_ne, ne_eq]
      by_cases h1 : w.iface = iface
      · right; intro h2; exact hne ⟨h1, h2⟩
      · left; exact h1
    exact setDay_other _ _ iface day this
  · rfl

/-- … and its own day is exactly the day-level run of `crash_consistent_day` -/
theorem runWriteOut_own (hist : List WriteOut) (fs : Fs) (k n : Nat) (w : WriteOut) (hk : hist[k]? = some w)
    (hkey : ∀ d, fs.day? w.iface (dayOf w.ts) = some d → d.iface = w.iface ∧ d.day = dayOf w.ts) :
    (runWriteOut hist fs k n).day? w.iface (dayOf w.ts) =
      if (fs.day? w.iface (dayOf w.ts)).isSome ||
          ((program hist fs k).take n).contains (.mkdir ((yearMonth w.ts).2 ++ "/" ++ toString (dayOf w.ts)))
      then some (runDay hist k (baseOf hist fs k)
        ((fs.day? w.iface (dayOf w.ts)).getD (freshDay w.iface (dayOf w.ts))) ((program hist fs k).take n))
      else none := by
  unfold runWriteOut
  simp only [hk]
  have hrk := runDay_key hist k (baseOf hist fs k)
      ((program hist fs k).take n) ((fs.day? w.iface (dayOf w.ts)).getD (freshDay w.iface (dayOf w.ts)))
  have hd0 : ((fs.day? w.iface (dayOf w.ts)).getD (freshDay w.iface (dayOf w.ts))).iface = w.iface ∧
      ((fs.day? w.iface (dayOf w.ts)).getD (freshDay w.iface (dayOf w.ts))).day = dayOf w.ts := by
    cases hd : fs.day? w.iface (dayOf w.ts) with
    | none => simp [freshDay]
    | some d => simpa using hkey d hd
  split
  · rename_i hc
    have := setDay_same { fs with dirs := fs.dirs ++ newDirs w.iface ((yearMonth w.ts).2 ++ "/" ++ toString (dayOf w.ts)) ((program hist fs k).take n), ifaces := if ((program hist fs k).take n).contains (.mkdir "") then fs.ifaces ++ [w.iface] else fs.ifaces }
      (runDay hist k (baseOf hist fs k) ((fs.day? w.iface (dayOf w.ts)).getD (freshDay w.iface (dayOf w.ts))) ((program hist fs k).take n))
    rw [hrk.1, hrk.2, hd0.1, hd0.2] at this
    exact this
  · rename_i hc
    have hnone : fs.day? w.iface (dayOf w.ts) = none := by
      cases hd : fs.day? w.iface (dayOf w.ts) with
      | none => rfl
      | some d => simp [hd] at hc
    simp only [Fs.day?] at hnone ⊢
    exact hnone


/-! ### whole histories -/

theorem day?_key (fs : Fs) (iface : String) (day : Int) (d : DayFs) (h : fs.day? iface day = some d) :
    d.iface = iface ∧ d.day = day := by
  have := List.find?_some h
  simpa [keyEq] using this

def onDay (hist : List WriteOut) (i : Nat) (iface : String) (day : Int) : Bool :=
  match hist[i]? with
  | some w => w.iface == iface && dayOf w.ts == day
  | none => false

/-- did write-out `i` of the run reach its commit point? (only the killed one may not) -/
def committedBy (hist : List WriteOut) (crash : Option (Nat × Nat)) (i : Nat) : Bool :=
  match crash with
  | some (k, n) => i != k || decide (commitIndex hist (runHistory hist crash k) k ≤ n)
  | none => true

/-- the blocks a day must hold after the first `upto` write-outs of the run -/
def expectedIds (hist : List WriteOut) (crash : Option (Nat × Nat)) (upto : Nat) (iface : String) (day : Int) : List Nat :=
  (List.range upto).filter fun i => onDay hist i iface day && committedBy hist crash i

theorem program_length_le (hist : List WriteOut) (fs : Fs) (k : Nat) : (program hist fs k).length ≤ 40 := by
  unfold program
  cases hk : hist[k]? with
  | none => simp
  | some w =>
    simp only [List.length_append, List.length_cons, List.length_nil]
    have h1 : (preOps hist fs k).length ≤ 1 + 4 + 1 + 16 + 3 := by
      have hcols : (((List.range 8).filter (colNonEmpty w)).flatMap (fun c => [Op.opencol c, Op.writecol c])).length ≤ 16 := by
        rw [List.length_flatMap]
        have : ((List.range 8).filter (colNonEmpty w)).length ≤ 8 := by
          have := List.length_filter_le (colNonEmpty w) (List.range 8); simpa using this
        simp only [List.length_cons, List.length_nil, List.map_const', List.sum_replicate_nat]
        omega
      unfold preOps
      simp only [hk]
      generalize (((List.range 8).filter (colNonEmpty w)).flatMap (fun c => [Op.opencol c, Op.writecol c])) = colops at hcols
      cases fs.day? w.iface (dayOf w.ts) with
      | some _ => simp only [List.length_append, List.length_cons, List.length_nil]; omega
      | none =>
        simp only [List.length_append, List.length_cons, List.length_nil]
        repeat' split
        all_goals simp only [List.length_cons, List.length_nil]; omega
    have h2 : (postOps hist fs k).length ≤ 3 := by
      unfold postOps
      simp only [hk, List.length_append, List.length_cons, List.length_nil]
      split <;> simp
    omega

/-- how far write-out `u` of the run gets: the victim stops before operation `n`, all others run to completion -/
def stepIndex (crash : Option (Nat × Nat)) (u : Nat) : Nat :=
  match crash with | some (k, n) => if u = k then n else 1000 | none => 1000

theorem runHistory_succ (hist : List WriteOut) (crash : Option (Nat × Nat)) (upto : Nat) :
    runHistory hist crash (upto + 1) =
      runWriteOut hist (runHistory hist crash upto) upto (stepIndex crash upto) := by
  unfold stepIndex
  unfold runHistory
  rw [List.range_succ, List.foldl_append]
  simp only [List.foldl_cons, List.foldl_nil]
  cases crash with
  | none => rfl
  | some p => obtain ⟨k, n⟩ := p; simp only []; split <;> rfl

/-- invariant of a run: every day directory is well-formed and holds exactly the expected blocks;
    a day without a directory has no committed block -/
def RunOK (hist : List WriteOut) (crash : Option (Nat × Nat)) (upto : Nat) (fs : Fs) : Prop :=
  (∀ iface day d, fs.day? iface day = some d →
    DayOK hist d (d.metaIds.getD []) ∧ d.metaIds.getD [] = expectedIds hist crash upto iface day) ∧
  (∀ iface day, fs.day? iface day = none → expectedIds hist crash upto iface day = [])

theorem dayOK_fresh (hist : List WriteOut) (iface : String) (day : Int) : DayOK hist (freshDay iface day) [] := by
  refine ⟨rfl, by simp [freshDay], ?_⟩
  intro c hc
  simp [freshDay, keepLen_eq]

theorem expectedIds_succ (hist : List WriteOut) (crash : Option (Nat × Nat)) (upto : Nat) (iface : String) (day : Int) :
    expectedIds hist crash (upto + 1) iface day =
      expectedIds hist crash upto iface day ++
        (if onDay hist upto iface day && committedBy hist crash upto then [upto] else []) := by
  unfold expectedIds
  rw [List.range_succ, List.filter_append]
  congr 1
  simp only [List.filter_cons, List.filter_nil]

/-- **crash_consistent** (C04): for every history of write-outs, every victim `k` and every crash
    index `n`, after any number of the write-outs every day directory is well-formed and holds
    exactly the blocks of the write-outs that reached their commit point — all of them except possibly
    the killed one; in particular every write-out after the crash succeeds and is stored. -/
theorem commitIndex_le_length (hist : List WriteOut) (fs : Fs) (k : Nat) (w : WriteOut) (hk : hist[k]? = some w) :
    commitIndex hist fs k ≤ (program hist fs k).length := by
  rw [program_eq hist fs k w hk]; simp [commitIndex]

theorem mkdir_in_pre (hist : List WriteOut) (fs : Fs) (k : Nat) (w : WriteOut) (hk : hist[k]? = some w)
    (hnone : fs.day? w.iface (dayOf w.ts) = none) :
    Op.mkdir ((yearMonth w.ts).2 ++ "/" ++ toString (dayOf w.ts)) ∈ preOps hist fs k := by
  unfold preOps
  simp only [hk, hnone]
  simp

/-- the step of the run: how one (possibly killed) write-out changes the invariant -/
theorem step_ok (hist : List WriteOut) (crash : Option (Nat × Nat)) (u : Nat) (w : WriteOut) (hk : hist[u]? = some w)
    (fs : Fs) (hfs : runHistory hist crash u = fs) (ihu : RunOK hist crash u fs) (n : Nat)
    (hn : stepIndex crash u = n) :
    RunOK hist crash (u + 1) (runWriteOut hist fs u n) := by
  have hkey := fun d h => day?_key fs w.iface (dayOf w.ts) d h
  -- whether this write-out reaches its commit point, in terms of `committedBy`
  have hcommit : committedBy hist crash u = decide (commitIndex hist fs u ≤ n) := by
    have hbig : commitIndex hist fs u ≤ 1000 := by
      have := commitIndex_le_length hist fs u w hk
      have := program_length_le hist fs u
      omega
    cases crash with
    | none => simp only [committedBy]; simp only [stepIndex] at hn; subst hn; simp [hbig]
    | some p =>
      obtain ⟨k, n0⟩ := p
      simp only [committedBy]
      simp only [stepIndex] at hn
      by_cases huk : u = k
      · subst huk
        simp only [if_true] at hn
        subst hn
        simp [hfs]
      · simp only [huk, if_false] at hn
        subst hn
        simp [huk, hbig]
  have hexp : ∀ iface day, expectedIds hist crash (u + 1) iface day =
      expectedIds hist crash u iface day ++
        (if (w.iface = iface ∧ dayOf w.ts = day) ∧ commitIndex hist fs u ≤ n then [u] else []) := by
    intro iface day
    rw [expectedIds_succ, hcommit]
    congr 1
    simp only [onDay, hk, Bool.and_eq_true, beq_iff_eq, decide_eq_true_eq]
  -- the day before this write-out
  have hd0 : DayOK hist ((fs.day? w.iface (dayOf w.ts)).getD (freshDay w.iface (dayOf w.ts)))
      (((fs.day? w.iface (dayOf w.ts)).getD (freshDay w.iface (dayOf w.ts))).metaIds.getD []) ∧
      ((fs.day? w.iface (dayOf w.ts)).getD (freshDay w.iface (dayOf w.ts))).metaIds.getD [] =
        expectedIds hist crash u w.iface (dayOf w.ts) ∧
      baseOf hist fs u = ((fs.day? w.iface (dayOf w.ts)).getD (freshDay w.iface (dayOf w.ts))).metaIds.getD [] := by
    cases hday : fs.day? w.iface (dayOf w.ts) with
    | some d0 =>
      obtain ⟨a, b⟩ := ihu.1 _ _ d0 hday
      exact ⟨by simpa using a, by simpa using b, by simp [baseOf, hk, hday]⟩
    | none =>
      exact ⟨by simpa [freshDay] using dayOK_fresh hist w.iface (dayOf w.ts),
        by simpa [freshDay] using (ihu.2 _ _ hday).symm, by simp [baseOf, hk, hday, freshDay]⟩
  obtain ⟨hok0, hids0, hbase⟩ := hd0
  have hday_crash := crash_consistent_day hist fs u w hk
    ((fs.day? w.iface (dayOf w.ts)).getD (freshDay w.iface (dayOf w.ts)))
    (((fs.day? w.iface (dayOf w.ts)).getD (freshDay w.iface (dayOf w.ts))).metaIds.getD []) hok0
    (by cases h : fs.day? w.iface (dayOf w.ts) <;> simp)
    (by
      intro hne
      cases hm : ((fs.day? w.iface (dayOf w.ts)).getD (freshDay w.iface (dayOf w.ts))).metaIds with
      | none => simp [hm] at hne
      | some l => simp)
    n
  rw [← hbase] at hday_crash
  have hB : baseOf hist fs u = expectedIds hist crash u w.iface (dayOf w.ts) := hbase.trans hids0
  constructor
  · intro iface day d hd
    by_cases hown : w.iface = iface ∧ dayOf w.ts = day
    · obtain ⟨rfl, rfl⟩ := hown
      rw [runWriteOut_own hist fs u n w hk hkey] at hd
      split at hd
      · simp only [Option.some.injEq] at hd
        subst hd
        rw [hexp]
        by_cases hc : commitIndex hist fs u ≤ n
        · obtain ⟨h1, h2, _⟩ := hday_crash.2 hc
          refine ⟨by rw [h2]; simpa using h1, ?_⟩
          rw [h2]; simp [hc, hB]
        · obtain ⟨h1, _, h3⟩ := hday_crash.1 (by omega)
          refine ⟨by rw [h3, ← hbase]; exact h1, ?_⟩
          rw [h3]; simp [hc, hids0]
      · simp at hd
    · rw [runWriteOut_other hist fs u n w hk iface day hown hkey] at hd
      obtain ⟨h1, h2⟩ := ihu.1 iface day d hd
      refine ⟨h1, ?_⟩
      rw [h2, hexp]; simp [hown]
  · intro iface day hd
    by_cases hown : w.iface = iface ∧ dayOf w.ts = day
    · obtain ⟨rfl, rfl⟩ := hown
      rw [runWriteOut_own hist fs u n w hk hkey] at hd
      split at hd
      · simp at hd
      · rename_i hcr
        simp only [Bool.or_eq_true, not_or, Option.not_isSome_iff_eq_none, Bool.not_eq_true] at hcr
        -- the directory was not even created: the kill came before the mkdir, i.e. before the commit point
        have hnone : fs.day? w.iface (dayOf w.ts) = none := by
          cases h : fs.day? w.iface (dayOf w.ts) with
          | none => rfl
          | some _ => simp [h] at hcr
        have hnot : ¬ commitIndex hist fs u ≤ n := by
          intro hc
          have hin := mkdir_in_pre hist fs u w hk hnone
          have hsub : Op.mkdir ((yearMonth w.ts).2 ++ "/" ++ toString (dayOf w.ts)) ∈ (program hist fs u).take n := by
            rw [program_eq hist fs u w hk, List.append_assoc, List.take_append]
            apply List.mem_append_left
            rw [List.take_of_length_le (by unfold commitIndex at hc; omega)]
            exact hin
          have h3 := List.contains_iff_mem.2 hsub
          rw [hcr.2] at h3
          exact Bool.noConfusion h3
        rw [hexp, ihu.2 _ _ hnone]; simp [hnot]
    · rw [runWriteOut_other hist fs u n w hk iface day hown hkey] at hd
      rw [hexp, ihu.2 _ _ hd]; simp [hown]

theorem run_ok (hist : List WriteOut) (crash : Option (Nat × Nat)) :
    ∀ upto, upto ≤ hist.length → RunOK hist crash upto (runHistory hist crash upto) := by
  intro upto
  induction upto with
  | zero =>
    intro _
    refine ⟨fun iface day d h => by simp [runHistory, Fs.empty, Fs.day?] at h, fun iface day _ => by simp [expectedIds]⟩
  | succ u ih =>
    intro hu
    have hk : hist[u]? = some hist[u] := List.getElem?_eq_getElem (by omega)
    rw [runHistory_succ]
    exact step_ok hist crash u hist[u] hk _ rfl (ih (by omega)) _ rfl


theorem expectedIds_valid (hist : List WriteOut) (crash : Option (Nat × Nat)) (upto : Nat) (hu : upto ≤ hist.length)
    (iface : String) (day : Int) : ∀ id ∈ expectedIds hist crash upto iface day, (hist[id]?).isSome := by
  intro id hid
  simp only [expectedIds, List.mem_filter, List.mem_range] at hid
  have : id < hist.length := by omega
  simp [List.getElem?_eq_getElem this]

/-- **crash_consistent (queries)**: after the whole history — with write-out `k` killed before its
    `n`-th file operation — a query reads from every day directory exactly the blocks of the
    write-outs that reached their commit point, every one of them readable. -/
theorem crash_consistent_query (hist : List WriteOut) (crash : Option (Nat × Nat)) (iface : String) (day : Int) (d : DayFs)
    (hd : (runHistory hist crash hist.length).day? iface day = some d) :
    dayQueryIds hist d = expectedIds hist crash hist.length iface day := by
  obtain ⟨h1, h2⟩ := (run_ok hist crash hist.length (Nat.le_refl _)).1 iface day d hd
  rw [dayQueryIds_of_ok hist d _ h1 (by rw [h2]; exact expectedIds_valid hist crash _ (Nat.le_refl _) iface day), h2]

/-- … and the same right after the crash, before any further write-out -/
theorem crash_consistent_query_at (hist : List WriteOut) (k n : Nat) (hk : k < hist.length) (iface : String) (day : Int)
    (d : DayFs) (hd : (runHistory hist (some (k, n)) (k + 1)).day? iface day = some d) :
    dayQueryIds hist d = expectedIds hist (some (k, n)) (k + 1) iface day := by
  obtain ⟨h1, h2⟩ := (run_ok hist (some (k, n)) (k + 1) (by omega)).1 iface day d hd
  rw [dayQueryIds_of_ok hist d _ h1 (by rw [h2]; exact expectedIds_valid hist _ _ (by omega) iface day), h2]

/-- without a crash every write-out is stored -/
theorem no_crash_all_stored (hist : List WriteOut) (iface : String) (day : Int) :
    expectedIds hist none hist.length iface day = (List.range hist.length).filter (fun i => onDay hist i iface day) := by
  simp [expectedIds, committedBy]

/-- with a crash, every write-out other than the victim is stored -/
theorem crash_loses_at_most_victim (hist : List WriteOut) (k n : Nat) (iface : String) (day : Int) (i : Nat)
    (hi : i < hist.length) (hik : i ≠ k) (hon : onDay hist i iface day = true) :
    i ∈ expectedIds hist (some (k, n)) hist.length iface day := by
  simp only [expectedIds, List.mem_filter, List.mem_range, Bool.and_eq_true]
  exact ⟨hi, hon, by simp [committedBy, hik]⟩

/-! ### the listing: consistent except in the recorded window -/

/-- **listing_partial** (C04): the interface listing of the day agrees with the committed blocks
    unless the writer was killed between `rename(.blockmeta)` and `rename(<day> → <day>_<summary>)`
    of a day whose directory already carried a summary; in that window it still shows the previous
    summary (known finding C04-listing-stale-between-metadata-and-dir-rename). -/
theorem listing_partial (hist : List WriteOut) (fs : Fs) (k : Nat) (w : WriteOut) (hk : hist[k]? = some w)
    (d0 : DayFs) (ids : List Nat) (hok : DayOK hist d0 ids) (hclean : CleanName hist d0 ids)
    (hd0 : (fs.day? w.iface (dayOf w.ts)).getD d0 = d0) (hmeta0 : ids ≠ [] → d0.metaIds = some ids)
    (hmeta1 : d0.metaIds = none ∨ d0.metaIds = some ids) (n : Nat) :
    let d' := runDay hist k ids d0 ((program hist fs k).take n)
    (n < commitIndex hist fs k → dayList hist d' = dayList hist d0) ∧
    (commitIndex hist fs k ≤ n →
      dayList hist d' = totalsIds hist (ids ++ [k]) ∨
      (d0.named = some (totalsIds hist ids) ∧ dayList hist d' = totalsIds hist ids ∧
       Op.renamedir ∉ (postOps hist fs k).take (n - commitIndex hist fs k))) := by
  intro d'
  have h := crash_consistent_day hist fs k w hk d0 ids hok hd0 hmeta0 n
  constructor
  · intro hn
    obtain ⟨_, h2, h3⟩ := h.1 hn
    show dayList hist (runDay hist k ids d0 ((program hist fs k).take n)) = _
    simp only [dayList, h2, h3]
  · intro hn
    obtain ⟨_, h2, h3⟩ := h.2 hn
    rcases h3 with h3 | ⟨h3, _, h5⟩
    · left
      show dayList hist (runDay hist k ids d0 ((program hist fs k).take n)) = _
      simp only [dayList, h2, h3, Option.getD_some]
    · rcases hclean with hc | hc
      · left
        show dayList hist (runDay hist k ids d0 ((program hist fs k).take n)) = _
        simp only [dayList, h2, h3, hc, Option.getD_none]
      · right
        refine ⟨hc, ?_, h5⟩
        show dayList hist (runDay hist k ids d0 ((program hist fs k).take n)) = _
        simp only [dayList, h2, h3, hc, Option.getD_some]

/-! ### non-vacuity and the recorded finding, on a concrete history -/

def exFlow (b : Nat) : Flow := { sip := "0a000001", dip := "c0a80101", dport := 80, proto := 6, br := b, bs := 2, pr := 1, ps := 1 }
def exHist : List WriteOut :=
  [ { iface := "eth0", ts := 1699920300, drops := 1, flows := [exFlow 100] },
    { iface := "eth0", ts := 1699920600, drops := 0, flows := [exFlow 10] } ]

-- killed before the commit point of the second write-out: query and listing show the first block only
example : queryIds exHist (runHistory exHist (some (1, 5)) 2) = [0] ∧
    listTotals exHist (runHistory exHist (some (1, 5)) 2) = [("eth0", [1, 0, 1, 100, 2, 1, 1])] := by decide
-- run to completion: both blocks, listing agrees
example : queryIds exHist (runHistory exHist none 2) = [0, 1] ∧
    listTotals exHist (runHistory exHist none 2) = [("eth0", [2, 0, 1, 110, 4, 2, 2])] := by decide
-- the recorded window (killed after renamemeta = op 21, before renamedir = op 22):
-- the query already sees both blocks while the listing still reports the first one only
example : (program exHist (runHistory exHist none 1) 1)[21]? = some Op.renamemeta ∧
    (program exHist (runHistory exHist none 1) 1)[22]? = some Op.renamedir ∧
    queryIds exHist (runHistory exHist (some (1, 22)) 2) = [0, 1] ∧
    listTotals exHist (runHistory exHist (some (1, 22)) 2) = [("eth0", [1, 0, 1, 100, 2, 1, 1])] := by decide
-- killed during the very first write-out of a new day (directory created, no metadata yet): readers skip the day
example : queryIds exHist (runHistory exHist (some (0, 8)) 1) = [] ∧
    ((runHistory exHist (some (0, 8)) 1).day? "eth0" 1699920000).isSome = true := by decide

end C04
