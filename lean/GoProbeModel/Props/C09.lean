import GoProbeModel.Model.C09

/-!
C09 — conditions follow Boolean logic over per-flow comparisons: the property theorems.

The model (`Model/C09.lean`) is the code as written after the `fix:` commit; `sem` (`Spec/C09.lean`)
is the Boolean formula a condition denotes. Main results, for ALL condition trees and ALL flows:

* `nnf_sound`        negation normal form with comparator flipping preserves the meaning
* `eval_refines_sem` an accepted condition evaluates to `sem`, and leaves the key as it was
* `and_or_not`, `neq_complement`, `family`, `desugar_doc`, `eval_pure`, `eval_total` (corollaries)
* `compile_outcome`, `compile_ok_iff`, `compile_total`, `compile_ok_of_valid`, `valid_of_compile_ok`
  (which conditions are accepted; instrumenting never panics)
* `inNet_bytes`, `mask_nat`, `inNetwork_spec`: the arithmetic CIDR match of the spec is the
  byte-and-mask comparison the code performs; `transformComparator_sym` pins the regenerated
  comparator table; `decode_encode` ties the judge's reading of a key to `encode`
* examples: concrete non-trivial instances, failures outside the hypotheses, and the three replayed
  witnesses on a model of the code before the fix (`Orig`)
-/
namespace C09

open Gen.CondNode

/-! ### arithmetic of network prefixes -/

set_option maxRecDepth 20000 in
theorem mask_fin : ∀ s : Fin 8, ∀ x : Fin 256, 1 ≤ s.val →
    x.val &&& ((255 <<< s.val) % 256) = x.val / 2 ^ s.val * 2 ^ s.val := by decide

/-- applying the netmask byte of `s` host bits clears exactly those bits -/
theorem mask_nat (x s : Nat) (hx : x < 256) (hs1 : 1 ≤ s) (hs : s < 8) :
    x &&& ((255 <<< s) % 256) = x / 2 ^ s * 2 ^ s :=
  mask_fin ⟨s, hs⟩ ⟨x, hx⟩ hs1


theorem beNat_lt : ∀ l : List Nat, (∀ b ∈ l, b < 256) → beNat l < 256 ^ l.length
  | [], _ => by simp [beNat]
  | b :: bs, h => by
    have hb : b < 256 := h b (by simp)
    have ih := beNat_lt bs (fun x hx => h x (by simp [hx]))
    simp only [beNat, List.length_cons, Nat.pow_succ]
    have : b * 256 ^ bs.length + 256 ^ bs.length ≤ 256 * 256 ^ bs.length := by
      have := Nat.mul_le_mul_right (256 ^ bs.length) (show b + 1 ≤ 256 by omega)
      rw [Nat.add_mul, Nat.one_mul] at this
      exact this
    omega

/-- quotient/remainder representation is unique -/
theorem repr_unique {K x y u v : Nat} (hu : u < K) (hv : v < K) :
    x * K + u = y * K + v ↔ x = y ∧ u = v := by
  constructor
  · intro h
    have hK : 0 < K := by omega
    have h1 : (x * K + u) / K = x := by
      rw [Nat.mul_comm, Nat.mul_add_div hK, Nat.div_eq_of_lt hu]; simp
    have h2 : (y * K + v) / K = y := by
      rw [Nat.mul_comm, Nat.mul_add_div hK, Nat.div_eq_of_lt hv]; simp
    have hxy : x = y := by rw [← h1, ← h2, h]
    subst hxy
    exact ⟨rfl, by omega⟩
  · rintro ⟨rfl, rfl⟩; rfl

theorem pow256 (m : Nat) : 256 ^ m = 2 ^ (8 * m) := by
  rw [Nat.pow_mul]

/-- the arithmetic spec of a network match, byte by byte: the whole bytes of the prefix are equal
    and so are the leading `p % 8` bits of the following byte -/
theorem inNet_bytes : ∀ (a b : List Nat) (p : Nat), a.length = b.length →
    (∀ x ∈ a, x < 256) → (∀ x ∈ b, x < 256) → p ≤ 8 * a.length →
    (beNat a / 2 ^ (8 * a.length - p) = beNat b / 2 ^ (8 * a.length - p) ↔
      (a.take (p / 8) = b.take (p / 8) ∧
        (p % 8 = 0 ∨ a.getD (p / 8) 0 / 2 ^ (8 - p % 8) = b.getD (p / 8) 0 / 2 ^ (8 - p % 8))))
  | [], [], p, _, _, _, hp => by
    have : p = 0 := by simpa using hp
    subst this; simp
  | [], _ :: _, _, h, _, _, _ => by simp at h
  | _ :: _, [], _, h, _, _, _ => by simp at h
  | x :: as, y :: bs, p, hl, ha, hb, hp => by
    have hl' : as.length = bs.length := by simpa using hl
    have hx : x < 256 := ha x (by simp)
    have hy : y < 256 := hb y (by simp)
    have has : ∀ z ∈ as, z < 256 := fun z hz => ha z (by simp [hz])
    have hbs : ∀ z ∈ bs, z < 256 := fun z hz => hb z (by simp [hz])
    have hA := beNat_lt as has
    have hB := beNat_lt bs hbs
    rw [← hl'] at hB
    simp only [List.length_cons] at hp ⊢
    generalize hm : as.length = m at *
    by_cases h8 : 8 ≤ p
    · -- whole first byte inside the prefix
      have ih := inNet_bytes as bs (p - 8) (by omega) has hbs (by omega)
      rw [hm] at ih
      have hq : p / 8 = (p - 8) / 8 + 1 := by omega
      have hr : p % 8 = (p - 8) % 8 := by omega
      have he : 8 * (m + 1) - p = 8 * m - (p - 8) := by omega
      rw [hq, hr, he]
      simp only [List.take_succ_cons, List.getD_cons_succ, beNat, hm, ← hl']
      generalize hee : 8 * m - (p - 8) = e at *
      have hsplit : 256 ^ m = 2 ^ (p - 8) * 2 ^ e := by
        rw [pow256, ← Nat.pow_add]; congr 1; omega
      have hpos : 0 < 2 ^ e := Nat.pow_pos (by omega)
      have hdA : (x * 256 ^ m + beNat as) / 2 ^ e = x * 2 ^ (p - 8) + beNat as / 2 ^ e := by
        rw [hsplit, ← Nat.mul_assoc, Nat.add_comm, Nat.add_mul_div_right _ _ hpos, Nat.add_comm]
      have hdB : (y * 256 ^ m + beNat bs) / 2 ^ e = y * 2 ^ (p - 8) + beNat bs / 2 ^ e := by
        rw [hsplit, ← Nat.mul_assoc, Nat.add_comm, Nat.add_mul_div_right _ _ hpos, Nat.add_comm]
      have hqa : beNat as / 2 ^ e < 2 ^ (p - 8) := by
        apply Nat.div_lt_of_lt_mul; rw [Nat.mul_comm, ← hsplit]; exact hA
      have hqb : beNat bs / 2 ^ e < 2 ^ (p - 8) := by
        apply Nat.div_lt_of_lt_mul; rw [Nat.mul_comm, ← hsplit]; exact hB
      rw [hdA, hdB, repr_unique hqa hqb, ih]
      constructor
      · rintro ⟨rfl, h1, h2⟩; exact ⟨by rw [h1], h2⟩
      · rintro ⟨h1, h2⟩
        have := List.cons.inj h1
        exact ⟨this.1, this.2, h2⟩
    · -- the prefix ends inside the first byte
      have hq : p / 8 = 0 := by omega
      have hr : p % 8 = p := by omega
      rw [hq, hr]
      simp only [List.take_zero, List.getD_cons_zero, true_and, beNat, hm, ← hl']
      by_cases h0 : p = 0
      · subst h0
        have hA' : x * 256 ^ m + beNat as < 2 ^ (8 * (m + 1)) := by
          have := beNat_lt (x :: as) ha
          simpa [beNat, hm, pow256] using this
        have hB' : y * 256 ^ m + beNat bs < 2 ^ (8 * (m + 1)) := by
          have := beNat_lt (y :: bs) hb
          simpa [beNat, ← hl', hm, pow256] using this
        simp [Nat.div_eq_of_lt hA', Nat.div_eq_of_lt hB']
      · have he : 8 * (m + 1) - p = 8 * m + (8 - p) := by omega
        have hpos : 0 < 256 ^ m := Nat.pow_pos (by omega)
        rw [he, Nat.pow_add, ← pow256, ← Nat.div_div_eq_div_mul, ← Nat.div_div_eq_div_mul]
        have h1 : (x * 256 ^ m + beNat as) / 256 ^ m = x := by
          rw [Nat.add_comm, Nat.add_mul_div_right _ _ hpos, Nat.div_eq_of_lt hA]; simp
        have h2 : (y * 256 ^ m + beNat bs) / 256 ^ m = y := by
          rw [Nat.add_comm, Nat.add_mul_div_right _ _ hpos, Nat.div_eq_of_lt hB]; simp
        rw [h1, h2]
        simp [h0]

@[simp] theorem bind_ok_eq {α β} (a : α) (f : α → Outcome β) : (Outcome.ok a).bind f = f a := rfl
@[simp] theorem bind_err_eq {α β} (e : String) (f : α → Outcome β) : (Outcome.err e : Outcome α).bind f = .err e := rfl
@[simp] theorem bind_panic_eq {α β} (e : String) (f : α → Outcome β) : (Outcome.panic e : Outcome α).bind f = .panic e := rfl

theorem bind_eq_ok {α β} {x : Outcome α} {f : α → Outcome β} {b : β} :
    x.bind f = .ok b ↔ ∃ a, x = .ok a ∧ f a = .ok b := by
  cases x <;> simp [Outcome.bind]

theorem getD_eq_getElem_lt (l : List Nat) (i : Nat) (h : i < l.length) : l.getD i 0 = l[i] := by
  simp [List.getD_eq_getElem?_getD, h]

theorem index_ok (l : List Nat) (i : Nat) (h : i < l.length) : index l i = .ok (l.getD i 0) := by
  simp [index, h]

theorem slice_zero (l : List Nat) (n : Nat) (h : n ≤ l.length) : slice l 0 n = .ok (l.take n) := by
  simp [slice, h]

/-- the zeroing loop keeps the length and everything before `j` -/
theorem zeroFrom_spec (b : List Nat) (j : Nat) (_hj : j ≤ b.length) :
    ∃ cb, zeroFrom b j b.length = .ok cb ∧ cb.length = b.length ∧ cb.take j = b.take j := by
  unfold zeroFrom
  by_cases h : j < b.length
  · refine ⟨b.take j ++ List.replicate (b.length - j) 0, by simp [h], ?_, ?_⟩
    · simp; omega
    · rw [List.take_append_of_le_length (by simp; omega)]
      simp [List.take_take]
  · exact ⟨b, by simp [h], rfl, rfl⟩

theorem take_getD_of_take_eq {a b : List Nat} {j i : Nat} (h : a.take j = b.take j) (hi : i < j) :
    a.getD i 0 = b.getD i 0 := by
  have h1 : (a.take j)[i]? = (b.take j)[i]? := by rw [h]
  rw [List.getElem?_take_of_lt hi, List.getElem?_take_of_lt hi] at h1
  simp [List.getD_eq_getElem?_getD, h1]

theorem take_le_of_take_eq {a b : List Nat} {j i : Nat} (h : a.take j = b.take j) (hi : i ≤ j) :
    a.take i = b.take i := by
  have : (a.take j).take i = (b.take j).take i := by rw [h]
  simpa [List.take_take, Nat.min_eq_left hi] using this

/-- the value bytes `conditionBytesAndNetmask` computes for a network: same length, whole prefix
    bytes untouched, the partial byte masked -/
theorem maskedBytes (b : List Nat) (p : Nat) (hp : p ≤ 8 * b.length) :
    ∃ cb, ((zeroFrom b ((p + 7) / 8) b.length).bind fun cb =>
        if p / 8 < b.length then
          (index cb (p / 8)).bind fun x =>
          (setByte cb (p / 8) (x &&& maskByte p)).bind fun cb => Outcome.ok (cb, p)
        else .ok (cb, p)) = .ok (cb, p) ∧
      cb.length = b.length ∧ cb.take (p / 8) = b.take (p / 8) ∧
      (p % 8 ≠ 0 → cb.getD (p / 8) 0 = b.getD (p / 8) 0 &&& maskByte p) := by
  obtain ⟨cb1, h1, hl1, ht1⟩ := zeroFrom_spec b ((p + 7) / 8) (by omega)
  rw [h1]; simp only [bind_ok_eq]
  by_cases h : p / 8 < b.length
  · have h' : p / 8 < cb1.length := by omega
    refine ⟨cb1.set (p / 8) (cb1.getD (p / 8) 0 &&& maskByte p), ?_, ?_, ?_, ?_⟩
    · simp [h, index_ok _ _ h', setByte, h']
    · simp [hl1]
    · rw [List.take_set_of_le (Nat.le_refl _)]
      exact take_le_of_take_eq ht1 (by omega)
    · intro hr
      have : cb1.getD (p / 8) 0 = b.getD (p / 8) 0 := take_getD_of_take_eq ht1 (by omega)
      rw [← this]
      simp [List.getD_eq_getElem?_getD, h']
  · refine ⟨cb1, by simp [h], hl1, take_le_of_take_eq ht1 (by omega), ?_⟩
    intro hr; omega

/-- the netmask byte the `snet`/`dnet` closures are built with: `0` stands for "no partial byte" -/
def closureMask (p : Nat) : Nat := if p % 8 = 0 then 0 else (0xff <<< (8 - p % 8)) % 256

theorem closureMask_pos (p : Nat) (h : p % 8 ≠ 0) : closureMask p ≠ 0 := by
  have h1 : p % 8 < 8 := Nat.mod_lt _ (by omega)
  have : ∀ r : Fin 8, r.val ≠ 0 → (0xff <<< (8 - r.val)) % 256 ≠ 0 := by decide
  simpa [closureMask, h] using this ⟨p % 8, h1⟩ h

/-- **`inNetwork` computes the arithmetic network match** for the value bytes `cb` that
    `conditionBytesAndNetmask` derives from the address `b` and prefix `p` -/
theorem inNetwork_spec (ip b cb : List Nat) (p : Nat) (hip : ∀ x ∈ ip, x < 256) (hb : ∀ x ∈ b, x < 256)
    (hp : p ≤ 8 * b.length) (hl : cb.length = b.length) (ht : cb.take (p / 8) = b.take (p / 8))
    (hm : p % 8 ≠ 0 → cb.getD (p / 8) 0 = b.getD (p / 8) 0 &&& maskByte p) :
    inNetwork ip cb (p / 8) (closureMask p) = .ok (inNet ip b p) := by
  unfold inNetwork inNet
  by_cases hlen : ip.length = b.length
  · have hspec := inNet_bytes ip b p hlen hip hb (by omega)
    rw [hlen] at hspec
    simp only [hl, hlen, ne_eq, not_true_eq_false, if_false, beq_self_eq_true, Bool.true_and]
    rw [slice_zero ip _ (by omega), slice_zero cb _ (by omega)]
    simp only [bind_ok_eq, ht]
    by_cases htk : ip.take (p / 8) = b.take (p / 8)
    · simp only [htk, not_true_eq_false, if_false]
      by_cases hr : p % 8 = 0
      · have : (beNat ip / 2 ^ (8 * b.length - p) == beNat b / 2 ^ (8 * b.length - p)) = true := by
          simp [hspec, htk, hr]
        simp [closureMask, hr, this]
      · have hlt : p / 8 < b.length := by omega
        have hs1 : 1 ≤ 8 - p % 8 := by omega
        have hs8 : 8 - p % 8 < 8 := by omega
        rw [if_neg (closureMask_pos p hr), index_ok ip _ (by omega), index_ok cb _ (by omega)]
        simp only [bind_ok_eq, hm hr]
        have hx : ip.getD (p / 8) 0 < 256 := by
          rw [getD_eq_getElem_lt _ _ (by omega)]; exact hip _ (List.getElem_mem _)
        have hy : b.getD (p / 8) 0 < 256 := by
          rw [getD_eq_getElem_lt _ _ hlt]; exact hb _ (List.getElem_mem _)
        have hcm : closureMask p = (255 <<< (8 - p % 8)) % 256 := by simp [closureMask, hr]
        have hmb : maskByte p = (255 <<< (8 - p % 8)) % 256 := rfl
        rw [hcm, hmb, mask_nat _ _ hx hs1 hs8, mask_nat _ _ hy hs1 hs8]
        have hpos : 0 < 2 ^ (8 - p % 8) := Nat.pow_pos (by omega)
        congr 1
        have : (ip.getD (p / 8) 0 / 2 ^ (8 - p % 8) * 2 ^ (8 - p % 8) == b.getD (p / 8) 0 / 2 ^ (8 - p % 8) * 2 ^ (8 - p % 8))
            = (beNat ip / 2 ^ (8 * b.length - p) == beNat b / 2 ^ (8 * b.length - p)) := by
          rw [Bool.eq_iff_iff]
          simp only [beq_iff_eq, hspec, htk, hr, true_and, false_or]
          exact Nat.mul_left_inj (by omega)
        exact this
    · have : (beNat ip / 2 ^ (8 * b.length - p) == beNat b / 2 ^ (8 * b.length - p)) = false := by
        rw [beq_eq_false_iff_ne, ne_eq, hspec]; simp [htk]
      simp [htk, this]
  · have h1 : ip.length ≠ cb.length := by omega
    simp [h1, hlen]

/-! ### keys -/

/-- the key of a flow: `sip ‖ dip ‖ dport (big endian) ‖ proto` (`PutAllV4` / `PutAllV6`) -/
def encode (f : Flow) : Key := f.sip ++ f.dip ++ [f.dport / 256, f.dport % 256, f.proto]

theorem slice_append_left (a r : List Nat) (n : Nat) (h : a.length = n) : slice (a ++ r) 0 n = .ok a := by
  subst h; simp [slice]

theorem slice_append_mid (a b r : List Nat) (lo hi : Nat) (h1 : a.length = lo) (h2 : lo + b.length = hi) :
    slice (a ++ b ++ r) lo hi = .ok b := by
  subst h1; subst h2
  have : (a ++ b).length = a.length + b.length := by simp
  simp only [slice, List.length_append]
  rw [if_pos ⟨by omega, by omega⟩, List.take_left' this, List.drop_left]

theorem index_append (a r : List Nat) (x i : Nat) (h : a.length = i) : index (a ++ x :: r) i = .ok x := by
  subst h; simp [index]

theorem views_of_encode (f : Flow) (h : f.WF) :
    getSIP (encode f) = .ok f.sip ∧ getDIP (encode f) = .ok f.dip ∧
    getDport (encode f) = .ok [f.dport / 256, f.dport % 256] ∧ getProto (encode f) = .ok f.proto := by
  obtain ⟨hfam, -⟩ := h
  have e1 : encode f = f.sip ++ (f.dip ++ [f.dport / 256, f.dport % 256, f.proto]) := by simp [encode]
  have e2 : encode f = f.sip ++ f.dip ++ ([f.dport / 256, f.dport % 256, f.proto]) := rfl
  have e3 : encode f = (f.sip ++ f.dip) ++ [f.dport / 256, f.dport % 256] ++ [f.proto] := by simp [encode]
  have e4 : encode f = (f.sip ++ f.dip ++ [f.dport / 256, f.dport % 256]) ++ f.proto :: [] := by simp [encode]
  rcases hfam with ⟨h1, h2⟩ | ⟨h1, h2⟩
  · have hv : isIPv4 (encode f) = .ok true := by simp [isIPv4, encode, h1, h2, KeyWidthIPv4]
    refine ⟨?_, ?_, ?_, ?_⟩
    · simp only [getSIP, hv, bind_ok_eq, if_true]; rw [e1]
      exact slice_append_left _ _ _ (by simp [h1, sipPos, IPv4Width])
    · simp only [getDIP, hv, bind_ok_eq, if_true]; rw [e2]
      exact slice_append_mid _ _ _ _ _ (by simp [h1, dipPosIPv4]) (by simp [h2, dipPosIPv4, IPv4Width])
    · simp only [getDport, hv, bind_ok_eq, if_true]; rw [e3]
      exact slice_append_mid _ _ _ _ _ (by simp [h1, h2, dportPosIPv4]) (by simp [dportPosIPv4, DPortWidth])
    · simp only [getProto, hv, bind_ok_eq, if_true]; rw [e4]
      exact index_append _ _ _ _ (by simp [h1, h2, protoPosIPv4])
  · have hv : isIPv4 (encode f) = .ok false := by simp [isIPv4, encode, h1, h2, KeyWidthIPv4, KeyWidthIPv6]
    refine ⟨?_, ?_, ?_, ?_⟩
    · simp only [getSIP, hv, bind_ok_eq]; rw [e1]
      exact slice_append_left _ _ _ (by simp [h1, sipPos, IPv6Width])
    · simp only [getDIP, hv, bind_ok_eq]; rw [e2]
      exact slice_append_mid _ _ _ _ _ (by simp [h1, dipPosIPv6]) (by simp [h2, dipPosIPv6, IPv6Width])
    · simp only [getDport, hv, bind_ok_eq]; rw [e3]
      exact slice_append_mid _ _ _ _ _ (by simp [h1, h2, dportPosIPv6]) (by simp [dportPosIPv6, DPortWidth])
    · simp only [getProto, hv, bind_ok_eq]; rw [e4]
      exact index_append _ _ _ _ (by simp [h1, h2, protoPosIPv6])

/-! ### one comparison: the closure `generateCompareValue` builds computes `semLeaf` -/

/-- the attributes `generateCompareValue` knows (everything else is sugar removed by `desugar`) -/
def Attr.isCore : Attr → Bool
  | .sip | .dip | .snet | .dnet | .dport | .proto => true
  | _ => false

/-- what `generateCompareValue` does with one comparison: either it is a valid comparison on a core
    attribute and the closure computes `semLeaf` on every flow, leaving the key alone, or it is
    rejected with an error. It never panics. -/
def LeafOutcome (a : Attr) (c : Cmp) (v : Val) : Prop :=
  (∃ cl, generateCompareValue a.name c.sym v = .ok cl ∧ (a.isCore = true ∧ leafValid a c v = true) ∧
      ∀ f : Flow, f.WF → cl (encode f) = .ok (semLeaf a c v f, encode f)) ∨
  (∃ e, generateCompareValue a.name c.sym v = .err e ∧ ¬ (a.isCore = true ∧ leafValid a c v = true))

theorem addrOK_iff (b : List Nat) : addrOK b = true ↔ (b.length = 4 ∨ b.length = 16) ∧ ∀ x ∈ b, x < 256 := by
  simp [addrOK]

theorem ipBytes_eq (b : List Nat) : ipBytes b = if addrOK b then .ok b else .err "other" := by
  simp [ipBytes, addrOK]

theorem leaf_sip (c : Cmp) (v : Val) : LeafOutcome .sip c v := by
  unfold LeafOutcome
  cases v with
  | addr b =>
    by_cases hb : addrOK b = true
    · cases c
      case eq =>
        left
        refine ⟨_, by simp [generateCompareValue, conditionBytesAndNetmask, ipBytes_eq, hb, Attr.name, Cmp.sym, SIPName, DIPName, ipClosure]; rfl, by simp [Attr.isCore, leafValid, hb], ?_⟩
        intro f hf
        simp [(views_of_encode f hf).1, semLeaf, posMatch]
      case ne =>
        left
        refine ⟨_, by simp [generateCompareValue, conditionBytesAndNetmask, ipBytes_eq, hb, Attr.name, Cmp.sym, SIPName, DIPName, ipClosure]; rfl, by simp [Attr.isCore, leafValid, hb], ?_⟩
        intro f hf
        simp [(views_of_encode f hf).1, semLeaf, posMatch]
      all_goals
        right
        exact ⟨"comparator", by simp [generateCompareValue, conditionBytesAndNetmask, ipBytes_eq, hb, Attr.name, Cmp.sym, SIPName, DIPName, ipClosure], by simp [leafValid]⟩
    · right
      refine ⟨"other", ?_, by simp [leafValid, hb]⟩
      cases c <;> simp [generateCompareValue, conditionBytesAndNetmask, ipBytes_eq, hb, Attr.name, Cmp.sym, SIPName, DIPName]
  | net b p =>
    right
    refine ⟨"other", ?_, by simp [leafValid]⟩
    cases c <;> simp [generateCompareValue, conditionBytesAndNetmask, Attr.name, Cmp.sym, SIPName, DIPName]
  | num n =>
    right
    refine ⟨"other", ?_, by simp [leafValid]⟩
    cases c <;> simp [generateCompareValue, conditionBytesAndNetmask, Attr.name, Cmp.sym, SIPName, DIPName]

theorem leaf_dip (c : Cmp) (v : Val) : LeafOutcome .dip c v := by
  unfold LeafOutcome
  cases v with
  | addr b =>
    by_cases hb : addrOK b = true
    · cases c
      case eq =>
        left
        refine ⟨_, by simp [generateCompareValue, conditionBytesAndNetmask, ipBytes_eq, hb, Attr.name, Cmp.sym, SIPName, DIPName, ipClosure]; rfl, by simp [Attr.isCore, leafValid, hb], ?_⟩
        intro f hf
        simp [(views_of_encode f hf).2.1, semLeaf, posMatch]
      case ne =>
        left
        refine ⟨_, by simp [generateCompareValue, conditionBytesAndNetmask, ipBytes_eq, hb, Attr.name, Cmp.sym, SIPName, DIPName, ipClosure]; rfl, by simp [Attr.isCore, leafValid, hb], ?_⟩
        intro f hf
        simp [(views_of_encode f hf).2.1, semLeaf, posMatch]
      all_goals
        right
        exact ⟨"comparator", by simp [generateCompareValue, conditionBytesAndNetmask, ipBytes_eq, hb, Attr.name, Cmp.sym, SIPName, DIPName, ipClosure], by simp [leafValid]⟩
    · right
      refine ⟨"other", ?_, by simp [leafValid, hb]⟩
      cases c <;> simp [generateCompareValue, conditionBytesAndNetmask, ipBytes_eq, hb, Attr.name, Cmp.sym, SIPName, DIPName]
  | net b p =>
    right
    refine ⟨"other", ?_, by simp [leafValid]⟩
    cases c <;> simp [generateCompareValue, conditionBytesAndNetmask, Attr.name, Cmp.sym, SIPName, DIPName]
  | num n =>
    right
    refine ⟨"other", ?_, by simp [leafValid]⟩
    cases c <;> simp [generateCompareValue, conditionBytesAndNetmask, Attr.name, Cmp.sym, SIPName, DIPName]

/-- `conditionBytesAndNetmask` on a network value that fits its family -/
theorem cban_net (attr : String) (hattr : attr = "snet" ∨ attr = "dnet") (c : Cmp) (b : List Nat) (p : Nat)
    (hb : addrOK b = true) (hp : p ≤ 8 * b.length) :
    ∃ cb, conditionBytesAndNetmask attr c.sym (.net b p) = .ok (cb, p) ∧
      cb.length = b.length ∧ cb.take (p / 8) = b.take (p / 8) ∧
      (p % 8 ≠ 0 → cb.getD (p / 8) 0 = b.getD (p / 8) 0 &&& maskByte p) := by
  obtain ⟨cb, h, hrest⟩ := maskedBytes b p hp
  refine ⟨cb, ?_, hrest⟩
  have hlen := ((addrOK_iff b).1 hb).1
  rcases hlen with h4 | h16
  · have e : (if decide (b.length = 16) = true then 16 else 4) = b.length := by simp [h4]
    have hp' : ¬ p > 32 := by omega
    rcases hattr with rfl | rfl <;> cases c <;>
      simp [conditionBytesAndNetmask, Cmp.sym, SIPName, DIPName, ipBytes_eq, hb, h4, hp'] <;>
      simpa [h4] using h
  · have hp' : ¬ p > 128 := by omega
    rcases hattr with rfl | rfl <;> cases c <;>
      simp [conditionBytesAndNetmask, Cmp.sym, SIPName, DIPName, ipBytes_eq, hb, h16, hp'] <;>
      simpa [h16] using h

/-- prefix beyond the family's width: rejected -/
theorem cban_net_badmask (attr : String) (hattr : attr = "snet" ∨ attr = "dnet") (c : Cmp) (b : List Nat) (p : Nat)
    (hb : addrOK b = true) (hp : ¬ p ≤ 8 * b.length) :
    conditionBytesAndNetmask attr c.sym (.net b p) = .err "netmask" := by
  have hlen := ((addrOK_iff b).1 hb).1
  rcases hlen with h4 | h16
  · have hp' : p > 32 := by omega
    rcases hattr with rfl | rfl <;> cases c <;>
      simp [conditionBytesAndNetmask, Cmp.sym, SIPName, DIPName, h4, hp']
  · have hp' : p > 128 := by omega
    rcases hattr with rfl | rfl <;> cases c <;>
      simp [conditionBytesAndNetmask, Cmp.sym, SIPName, DIPName, h16, hp']

/-- not an address: rejected (with whichever error comes first) -/
theorem cban_net_badaddr (attr : String) (hattr : attr = "snet" ∨ attr = "dnet") (c : Cmp) (b : List Nat) (p : Nat)
    (hb : ¬ addrOK b = true) :
    ∃ e, conditionBytesAndNetmask attr c.sym (.net b p) = .err e := by
  by_cases h16 : b.length = 16
  · by_cases hp : p > 128
    · exact ⟨"netmask", by rcases hattr with rfl | rfl <;> cases c <;> simp [conditionBytesAndNetmask, Cmp.sym, SIPName, DIPName, h16, hp]⟩
    · exact ⟨"other", by rcases hattr with rfl | rfl <;> cases c <;> simp [conditionBytesAndNetmask, Cmp.sym, SIPName, DIPName, h16, hp, ipBytes_eq, hb]⟩
  · by_cases hp : p > 32
    · exact ⟨"netmask", by rcases hattr with rfl | rfl <;> cases c <;> simp [conditionBytesAndNetmask, Cmp.sym, SIPName, DIPName, h16, hp]⟩
    · exact ⟨"other", by rcases hattr with rfl | rfl <;> cases c <;> simp [conditionBytesAndNetmask, Cmp.sym, SIPName, DIPName, h16, hp, ipBytes_eq, hb]⟩

theorem netClosure_eq (get : Key → Outcome (List Nat)) (cb : List Nat) (p : Nat) :
    ∃ cl, netClosure get "=" cb p = .ok cl ∧
      ∀ k, cl k = (get k).bind fun ip => (inNetwork ip cb (p / 8) (closureMask p)).bind fun r => .ok (r, k) := by
  have hlt : p % 8 < 8 := Nat.mod_lt _ (by omega)
  by_cases hr : p % 8 = 0
  · exact ⟨_, by simp [netClosure, hr]; rfl, fun k => by simp [closureMask, hr]⟩
  · have h1 : (8 - p % 8) % 256 = 8 - p % 8 := by omega
    have h2 : 8 - p % 8 ≠ 8 := by omega
    exact ⟨_, by simp [netClosure, h1, h2]; rfl, fun k => by simp [closureMask, hr]⟩

theorem netClosure_ne (get : Key → Outcome (List Nat)) (cb : List Nat) (p : Nat) :
    ∃ cl, netClosure get "!=" cb p = .ok cl ∧
      ∀ k, cl k = (get k).bind fun ip => (inNetwork ip cb (p / 8) (closureMask p)).bind fun r => .ok (!r, k) := by
  have hlt : p % 8 < 8 := Nat.mod_lt _ (by omega)
  by_cases hr : p % 8 = 0
  · exact ⟨_, by simp [netClosure, hr]; rfl, fun k => by simp [closureMask, hr]⟩
  · have h1 : (8 - p % 8) % 256 = 8 - p % 8 := by omega
    have h2 : 8 - p % 8 ≠ 8 := by omega
    exact ⟨_, by simp [netClosure, h1, h2]; rfl, fun k => by simp [closureMask, hr]⟩

theorem netClosure_other (get : Key → Outcome (List Nat)) (cb : List Nat) (p : Nat) (s : String)
    (h1 : s ≠ "=") (h2 : s ≠ "!=") : netClosure get s cb p = .err "comparator" := by
  unfold netClosure
  simp only [h1, h2, if_false]
  split <;> rfl

theorem leaf_snet (c : Cmp) (v : Val) : LeafOutcome .snet c v := by
  unfold LeafOutcome
  cases v with
  | net b p =>
    by_cases hb : addrOK b = true
    · by_cases hp : p ≤ 8 * b.length
      · obtain ⟨cb, hcb, hl, ht, hm⟩ := cban_net "snet" (Or.inl rfl) c b p hb hp
        have hbytes := ((addrOK_iff b).1 hb)
        cases c
        case eq =>
          obtain ⟨cl, hcl, hev⟩ := netClosure_eq getSIP cb p
          left
          refine ⟨cl, ?_, by simp [Attr.isCore, leafValid, hb, hp], ?_⟩
          · have : conditionBytesAndNetmask "snet" "=" (.net b p) = .ok (cb, p) := hcb
            simp [generateCompareValue, Attr.name, Cmp.sym, this, SIPName, DIPName, hcl]
          · intro f hf
            rw [hev, (views_of_encode f hf).1]
            simp only [bind_ok_eq]
            rw [inNetwork_spec f.sip b cb p hf.2.1 hbytes.2 hp hl ht hm]
            simp [semLeaf, posMatch]
        case ne =>
          obtain ⟨cl, hcl, hev⟩ := netClosure_ne getSIP cb p
          left
          refine ⟨cl, ?_, by simp [Attr.isCore, leafValid, hb, hp], ?_⟩
          · have : conditionBytesAndNetmask "snet" "!=" (.net b p) = .ok (cb, p) := hcb
            simp [generateCompareValue, Attr.name, Cmp.sym, this, SIPName, DIPName, hcl]
          · intro f hf
            rw [hev, (views_of_encode f hf).1]
            simp only [bind_ok_eq]
            rw [inNetwork_spec f.sip b cb p hf.2.1 hbytes.2 hp hl ht hm]
            simp [semLeaf, posMatch]
        all_goals
          right
          refine ⟨"comparator", ?_, by simp [leafValid]⟩
          simp only [Cmp.sym] at hcb
          simp [generateCompareValue, Attr.name, Cmp.sym, hcb, SIPName, DIPName, netClosure_other]
      · right
        refine ⟨"netmask", ?_, by simp [leafValid, hp]⟩
        simp [generateCompareValue, Attr.name, cban_net_badmask "snet" (Or.inl rfl) c b p hb hp]
    · right
      obtain ⟨e, he⟩ := cban_net_badaddr "snet" (Or.inl rfl) c b p hb
      exact ⟨e, by simp [generateCompareValue, Attr.name, he], by simp [leafValid, hb]⟩
  | addr b =>
    right
    refine ⟨"other", ?_, by simp [leafValid]⟩
    cases c <;> simp [generateCompareValue, conditionBytesAndNetmask, Attr.name, Cmp.sym, SIPName, DIPName]
  | num n =>
    right
    refine ⟨"other", ?_, by simp [leafValid]⟩
    cases c <;> simp [generateCompareValue, conditionBytesAndNetmask, Attr.name, Cmp.sym, SIPName, DIPName]

theorem leaf_dnet (c : Cmp) (v : Val) : LeafOutcome .dnet c v := by
  unfold LeafOutcome
  cases v with
  | net b p =>
    by_cases hb : addrOK b = true
    · by_cases hp : p ≤ 8 * b.length
      · obtain ⟨cb, hcb, hl, ht, hm⟩ := cban_net "dnet" (Or.inr rfl) c b p hb hp
        have hbytes := ((addrOK_iff b).1 hb)
        cases c
        case eq =>
          obtain ⟨cl, hcl, hev⟩ := netClosure_eq getDIP cb p
          left
          refine ⟨cl, ?_, by simp [Attr.isCore, leafValid, hb, hp], ?_⟩
          · have : conditionBytesAndNetmask "dnet" "=" (.net b p) = .ok (cb, p) := hcb
            simp [generateCompareValue, Attr.name, Cmp.sym, this, SIPName, DIPName, hcl]
          · intro f hf
            rw [hev, (views_of_encode f hf).2.1]
            simp only [bind_ok_eq]
            rw [inNetwork_spec f.dip b cb p hf.2.2.1 hbytes.2 hp hl ht hm]
            simp [semLeaf, posMatch]
        case ne =>
          obtain ⟨cl, hcl, hev⟩ := netClosure_ne getDIP cb p
          left
          refine ⟨cl, ?_, by simp [Attr.isCore, leafValid, hb, hp], ?_⟩
          · have : conditionBytesAndNetmask "dnet" "!=" (.net b p) = .ok (cb, p) := hcb
            simp [generateCompareValue, Attr.name, Cmp.sym, this, SIPName, DIPName, hcl]
          · intro f hf
            rw [hev, (views_of_encode f hf).2.1]
            simp only [bind_ok_eq]
            rw [inNetwork_spec f.dip b cb p hf.2.2.1 hbytes.2 hp hl ht hm]
            simp [semLeaf, posMatch]
        all_goals
          right
          refine ⟨"comparator", ?_, by simp [leafValid]⟩
          simp only [Cmp.sym] at hcb
          simp [generateCompareValue, Attr.name, Cmp.sym, hcb, SIPName, DIPName, netClosure_other]
      · right
        refine ⟨"netmask", ?_, by simp [leafValid, hp]⟩
        simp [generateCompareValue, Attr.name, cban_net_badmask "dnet" (Or.inr rfl) c b p hb hp]
    · right
      obtain ⟨e, he⟩ := cban_net_badaddr "dnet" (Or.inr rfl) c b p hb
      exact ⟨e, by simp [generateCompareValue, Attr.name, he], by simp [leafValid, hb]⟩
  | addr b =>
    right
    refine ⟨"other", ?_, by simp [leafValid]⟩
    cases c <;> simp [generateCompareValue, conditionBytesAndNetmask, Attr.name, Cmp.sym, SIPName, DIPName]
  | num n =>
    right
    refine ⟨"other", ?_, by simp [leafValid]⟩
    cases c <;> simp [generateCompareValue, conditionBytesAndNetmask, Attr.name, Cmp.sym, SIPName, DIPName]

/-- the two value bytes of a port, as the code computes them -/
theorem dportBytes (n : Nat) : [(n >>> 8) % 256, n &&& 0xff] = [n / 256 % 256, n % 256] := by
  have h1 : n >>> 8 = n / 256 := by rw [Nat.shiftRight_eq_div_pow]
  have h2 : n &&& 0xff = n % 256 := Nat.and_two_pow_sub_one_eq_mod n 8
  rw [h1, h2]

theorem bytesCompare_port (d n : Nat) (hd : d < 65536) (hn : n < 65536) :
    bytesCompare [d / 256, d % 256] [n / 256 % 256, n % 256] =
      if d < n then .lt else if d > n then .gt else .eq := by
  simp only [bytesCompare]
  split
  · rw [if_pos (by omega)]
  · split
    · rw [if_neg (by omega), if_pos (by omega)]
    · split
      · rw [if_pos (by omega)]
      · split
        · rw [if_neg (by omega), if_pos (by omega)]
        · rw [if_neg (by omega), if_neg (by omega)]

theorem bytesEq_port (d n : Nat) (hd : d < 65536) (hn : n < 65536) :
    ([d / 256, d % 256] == [n / 256 % 256, n % 256]) = (d == n) := by
  rw [Bool.eq_iff_iff]
  simp only [beq_iff_eq, List.cons.injEq, and_true]
  omega

theorem leaf_dport (c : Cmp) (v : Val) : LeafOutcome .dport c v := by
  unfold LeafOutcome
  cases v with
  | num n =>
    by_cases hn : n < 65536
    · left
      have hs : ∀ l : List Nat, l.length = 2 → slice l 0 2 = .ok l := by
        intro l hl
        simp only [slice, hl]
        rw [if_pos ⟨by omega, by omega⟩, ← hl, List.take_length]; rfl
      cases c <;>
      · refine ⟨_, by simp [generateCompareValue, conditionBytesAndNetmask, Attr.name, Cmp.sym, SIPName, DIPName, DportName, ProtoName, hn, dportClosure]; rfl, by simp [Attr.isCore, leafValid, hn], ?_⟩
        intro f hf
        have hd : f.dport < 65536 := hf.2.2.2.1
        simp [(views_of_encode f hf).2.2.1, DportSizeof, dportBytes, hs, semLeaf, cmpNat,
          bytesCompare_port _ _ hd hn, bytesEq_port _ _ hd hn]
        try (by_cases h1 : f.dport < n <;> by_cases h2 : n < f.dport <;> simp [h1, h2, bne] <;> omega)
    · right
      refine ⟨"other", ?_, by simp [leafValid, hn]⟩
      cases c <;> simp [generateCompareValue, conditionBytesAndNetmask, Attr.name, Cmp.sym, SIPName, DIPName, DportName, ProtoName, hn]
  | addr b =>
    right
    refine ⟨"other", ?_, by simp [leafValid]⟩
    cases c <;> simp [generateCompareValue, conditionBytesAndNetmask, Attr.name, Cmp.sym, SIPName, DIPName, DportName, ProtoName]
  | net b p =>
    right
    refine ⟨"other", ?_, by simp [leafValid]⟩
    cases c <;> simp [generateCompareValue, conditionBytesAndNetmask, Attr.name, Cmp.sym, SIPName, DIPName, DportName, ProtoName]

theorem leaf_proto (c : Cmp) (v : Val) : LeafOutcome .proto c v := by
  unfold LeafOutcome
  cases v with
  | num n =>
    by_cases hn : n < 256
    · left
      have h2 : n &&& 0xff = n := by
        have : n &&& 0xff = n % 256 := Nat.and_two_pow_sub_one_eq_mod n 8
        omega
      cases c <;>
      · refine ⟨_, by simp [generateCompareValue, conditionBytesAndNetmask, Attr.name, Cmp.sym, SIPName, DIPName, DportName, ProtoName, hn, protoClosure]; rfl, by simp [Attr.isCore, leafValid, hn], ?_⟩
        intro f hf
        simp [(views_of_encode f hf).2.2.2, h2, index, semLeaf, cmpNat]
    · right
      refine ⟨"other", ?_, by simp [leafValid, hn]⟩
      cases c <;> simp [generateCompareValue, conditionBytesAndNetmask, Attr.name, Cmp.sym, SIPName, DIPName, DportName, ProtoName, hn]
  | addr b =>
    right
    refine ⟨"other", ?_, by simp [leafValid]⟩
    cases c <;> simp [generateCompareValue, conditionBytesAndNetmask, Attr.name, Cmp.sym, SIPName, DIPName, DportName, ProtoName]
  | net b p =>
    right
    refine ⟨"other", ?_, by simp [leafValid]⟩
    cases c <;> simp [generateCompareValue, conditionBytesAndNetmask, Attr.name, Cmp.sym, SIPName, DIPName, DportName, ProtoName]

/-- an alias reaching `generateCompareValue` is an unknown attribute -/
theorem leaf_alias (a : Attr) (ha : a.isCore = false) (c : Cmp) (v : Val) : LeafOutcome a c v := by
  unfold LeafOutcome
  right
  refine ⟨"other", ?_, by simp [ha]⟩
  cases a <;> simp [Attr.isCore] at ha <;> cases c <;>
    simp [generateCompareValue, conditionBytesAndNetmask, Attr.name, Cmp.sym, SIPName, DIPName, DportName, ProtoName]

/-- **every comparison**: `generateCompareValue` either rejects it, or it is a valid comparison on
    a core attribute and the closure computes `semLeaf` on every flow without touching the key -/
theorem leaf_outcome (a : Attr) (c : Cmp) (v : Val) : LeafOutcome a c v := by
  cases a
  case sip => exact leaf_sip c v
  case dip => exact leaf_dip c v
  case snet => exact leaf_snet c v
  case dnet => exact leaf_dnet c v
  case dport => exact leaf_dport c v
  case proto => exact leaf_proto c v
  all_goals exact leaf_alias _ rfl c v

/-! ### desugaring -/

/-- `desugarConditionNode` on typed comparisons (`none` = "invalid comparison operator") -/
def desugarLeaf (a : Attr) (c : Cmp) (v : Val) : Option Cond :=
  match a with
  | .src => some (.leaf .sip c v)
  | .dst => some (.leaf .dip c v)
  | .port => some (.leaf .dport c v)
  | .ipproto => some (.leaf .proto c v)
  | .protocol => some (.leaf .proto c v)
  | .host =>
    match c with
    | .eq => some (.or (.leaf .sip .eq v) (.leaf .dip .eq v))
    | .ne => some (.not (.or (.leaf .sip .eq v) (.leaf .dip .eq v)))
    | _ => none
  | .net =>
    match c with
    | .eq => some (.or (.leaf .snet .eq v) (.leaf .dnet .eq v))
    | .ne => some (.not (.or (.leaf .snet .eq v) (.leaf .dnet .eq v)))
    | _ => none
  | _ => some (.leaf a c v)

def desugarC : Cond → Option Cond
  | .leaf a c v => desugarLeaf a c v
  | .not x => (desugarC x).map .not
  | .and l r => match desugarC l, desugarC r with
    | some l', some r' => some (.and l' r')
    | _, _ => none
  | .or l r => match desugarC l, desugarC r with
    | some l', some r' => some (.or l' r')
    | _, _ => none

/-- the model's `desugar` on rendered trees is `desugarC` -/
theorem desugar_toNode (c : Cond) :
    desugar (toNode c) = match desugarC c with
      | some c' => .ok (toNode c')
      | none => .err "comparator" := by
  induction c with
  | leaf a cmp v =>
    cases a <;> cases cmp <;>
      simp [desugar, Node.transform, toNode, desugarConditionNode, desugarHelper, Attr.name, Cmp.sym,
        SIPName, DIPName, DportName, ProtoName, desugarC, desugarLeaf]
  | not x ih =>
    simp only [desugar, toNode, Node.transform] at ih ⊢
    rw [ih]; simp only [desugarC]; cases desugarC x <;> simp [toNode]
  | and l r ihl ihr =>
    simp only [desugar, toNode, Node.transform] at ihl ihr ⊢
    rw [ihl, ihr]; simp only [desugarC]; cases desugarC l <;> cases desugarC r <;> simp [toNode]
  | or l r ihl ihr =>
    simp only [desugar, toNode, Node.transform] at ihl ihr ⊢
    rw [ihl, ihr]; simp only [desugarC]; cases desugarC l <;> cases desugarC r <;> simp [toNode]

/-- all comparisons are valid comparisons on core attributes -/
def coreValid : Cond → Bool
  | .leaf a c v => a.isCore && leafValid a c v
  | .not x => coreValid x
  | .and l r => coreValid l && coreValid r
  | .or l r => coreValid l && coreValid r

theorem desugarLeaf_sem (a : Attr) (c : Cmp) (v : Val) (c' : Cond) (h : desugarLeaf a c v = some c') (f : Flow) :
    sem c' f = semLeaf a c v f ∧ coreValid c' = leafValid a c v := by
  cases a <;> cases c <;> simp [desugarLeaf] at h <;> subst h <;> cases v <;>
    simp [sem, semLeaf, posMatch, coreValid, leafValid, Attr.isCore]

theorem desugarLeaf_none (a : Attr) (c : Cmp) (v : Val) (h : desugarLeaf a c v = none) : leafValid a c v = false := by
  cases a <;> cases c <;> simp [desugarLeaf] at h <;> cases v <;> simp [leafValid]

/-- desugaring keeps the meaning, yields core comparisons only, and fails only on invalid trees -/
theorem desugarC_sem (c : Cond) :
    (∀ c', desugarC c = some c' → (∀ f, sem c' f = sem c f) ∧ coreValid c' = valid c) ∧
    (desugarC c = none → valid c = false) := by
  induction c with
  | leaf a cmp v =>
    exact ⟨fun c' h => ⟨fun f => (desugarLeaf_sem a cmp v c' h f).1, (desugarLeaf_sem a cmp v c' h default).2⟩,
      fun h => desugarLeaf_none a cmp v h⟩
  | not x ih =>
    constructor
    · intro c' h
      cases hx : desugarC x with
      | none => simp [desugarC, hx] at h
      | some x' =>
        simp [desugarC, hx] at h; subst h
        exact ⟨fun f => by simp [sem, (ih.1 x' hx).1 f], by simp [coreValid, valid, (ih.1 x' hx).2]⟩
    · intro h
      cases hx : desugarC x with
      | none => simp [valid, ih.2 hx]
      | some x' => simp [desugarC, hx] at h
  | and l r ihl ihr =>
    constructor
    · intro c' h
      cases hl : desugarC l <;> cases hr : desugarC r <;> simp [desugarC, hl, hr] at h
      subst h
      exact ⟨fun f => by simp [sem, (ihl.1 _ hl).1 f, (ihr.1 _ hr).1 f], by simp [coreValid, valid, (ihl.1 _ hl).2, (ihr.1 _ hr).2]⟩
    · intro h
      cases hl : desugarC l <;> cases hr : desugarC r <;> simp [desugarC, hl, hr] at h <;>
        simp [valid, ihl.2, ihr.2, hl, hr]
  | or l r ihl ihr =>
    constructor
    · intro c' h
      cases hl : desugarC l <;> cases hr : desugarC r <;> simp [desugarC, hl, hr] at h
      subst h
      exact ⟨fun f => by simp [sem, (ihl.1 _ hl).1 f, (ihr.1 _ hr).1 f], by simp [coreValid, valid, (ihl.1 _ hl).2, (ihr.1 _ hr).2]⟩
    · intro h
      cases hl : desugarC l <;> cases hr : desugarC r <;> simp [desugarC, hl, hr] at h <;>
        simp [valid, ihl.2, ihr.2, hl, hr]

/-! ### negation normal form -/

/-- the comparator table of `transformComparator`, on typed comparators -/
def Cmp.flip : Cmp → Cmp
  | .eq => .ne | .ne => .eq | .lt => .ge | .gt => .le | .le => .gt | .ge => .lt

/-- tie to the source: the regenerated `transformComparator` is `Cmp.flip` and never fails on a
    comparator of the grammar -/
theorem transformComparator_sym (c : Cmp) : transformComparator c.sym = (c.flip.sym, false) := by
  cases c <;> rfl

/-- `negationNormalForm`'s helper on typed trees -/
def nnfC : Cond → Bool → Cond
  | .leaf a c v, neg => .leaf a (if neg then c.flip else c) v
  | .and l r, neg => if neg then .or (nnfC l neg) (nnfC r neg) else .and (nnfC l neg) (nnfC r neg)
  | .or l r, neg => if neg then .and (nnfC l neg) (nnfC r neg) else .or (nnfC l neg) (nnfC r neg)
  | .not x, neg => nnfC x (!neg)

def Cond.height : Cond → Nat
  | .leaf _ _ _ => 0
  | .not x => x.height + 1
  | .and l r => max l.height r.height + 1
  | .or l r => max l.height r.height + 1

def Cond.noNot : Cond → Bool
  | .leaf _ _ _ => true
  | .not _ => false
  | .and l r => l.noNot && r.noNot
  | .or l r => l.noNot && r.noNot

/-- the model's NNF helper on rendered trees is `nnfC`, unless the tree reaches below the depth
    limit -/
theorem max_cases (a b : Nat) : (max a b = a ∧ b ≤ a) ∨ (max a b = b ∧ a ≤ b) := by
  rcases Nat.le_total a b with h | h
  · right; exact ⟨Nat.max_eq_right h, h⟩
  · left; exact ⟨Nat.max_eq_left h, h⟩

theorem nnfHelper_toNode (c : Cond) : ∀ (neg : Bool) (d : Nat),
    nnfHelper (toNode c) neg d =
      if d + c.height ≤ 512 then .ok (toNode (nnfC c neg)) else .err "other" := by
  induction c with
  | leaf a cmp v =>
    intro neg d
    by_cases h : d > 512
    · have h' : ¬ d ≤ 512 := by omega
      simp [toNode, nnfHelper, Cond.height, maxNegationNormalFormDepth, h, h']
    · have h' : d ≤ 512 := by omega
      cases neg <;> simp [toNode, nnfHelper, nnfC, Cond.height, maxNegationNormalFormDepth, h, h', transformComparator_sym]
  | not x ih =>
    intro neg d
    by_cases h : d > 512
    · have h' : ¬ d + (x.height + 1) ≤ 512 := by omega
      simp [toNode, nnfHelper, Cond.height, maxNegationNormalFormDepth, h, h']
    · by_cases h1 : d + 1 + x.height ≤ 512
      · have h' : d + (x.height + 1) ≤ 512 := by omega
        simp [toNode, nnfHelper, nnfC, Cond.height, maxNegationNormalFormDepth, h, h', h1, ih]
      · have h' : ¬ d + (x.height + 1) ≤ 512 := by omega
        simp [toNode, nnfHelper, Cond.height, maxNegationNormalFormDepth, h, h', h1, ih]
  | and l r ihl ihr =>
    intro neg d
    by_cases h : d > 512
    · have h' : ¬ d + (max l.height r.height + 1) ≤ 512 := by omega
      simp [toNode, nnfHelper, Cond.height, maxNegationNormalFormDepth, h, h']
    · by_cases h1 : d + 1 + l.height ≤ 512 <;> by_cases h2 : d + 1 + r.height ≤ 512
      · have h' : d + (max l.height r.height + 1) ≤ 512 := by
          rcases max_cases l.height r.height with ⟨e, _⟩ | ⟨e, _⟩ <;> omega
        cases neg <;> simp [toNode, nnfHelper, nnfC, Cond.height, maxNegationNormalFormDepth, h, h', h1, h2, ihl, ihr]
      all_goals
        have h' : ¬ d + (max l.height r.height + 1) ≤ 512 := by
          rcases max_cases l.height r.height with ⟨e, _⟩ | ⟨e, _⟩ <;> omega
        simp [toNode, nnfHelper, Cond.height, maxNegationNormalFormDepth, h, h', h1, h2, ihl, ihr]
  | or l r ihl ihr =>
    intro neg d
    by_cases h : d > 512
    · have h' : ¬ d + (max l.height r.height + 1) ≤ 512 := by omega
      simp [toNode, nnfHelper, Cond.height, maxNegationNormalFormDepth, h, h']
    · by_cases h1 : d + 1 + l.height ≤ 512 <;> by_cases h2 : d + 1 + r.height ≤ 512
      · have h' : d + (max l.height r.height + 1) ≤ 512 := by
          rcases max_cases l.height r.height with ⟨e, _⟩ | ⟨e, _⟩ <;> omega
        cases neg <;> simp [toNode, nnfHelper, nnfC, Cond.height, maxNegationNormalFormDepth, h, h', h1, h2, ihl, ihr]
      all_goals
        have h' : ¬ d + (max l.height r.height + 1) ≤ 512 := by
          rcases max_cases l.height r.height with ⟨e, _⟩ | ⟨e, _⟩ <;> omega
        simp [toNode, nnfHelper, Cond.height, maxNegationNormalFormDepth, h, h', h1, h2, ihl, ihr]

theorem leafValid_flip (a : Attr) (c : Cmp) (v : Val) : leafValid a c.flip v = leafValid a c v := by
  cases a <;> cases c <;> cases v <;> simp [leafValid, Cmp.flip] <;> rfl

theorem cmpNat_flip (c : Cmp) (x y : Nat) : cmpNat c.flip x y = !cmpNat c x y := by
  cases c <;> simp only [cmpNat, Cmp.flip, bne, Bool.not_not]
  all_goals first
    | rfl
    | (by_cases h : x < y <;> by_cases h2 : y < x <;> simp [h, h2] <;> omega)

/-- on a valid comparison, the flipped comparator denotes the complement -/
theorem semLeaf_flip (a : Attr) (c : Cmp) (v : Val) (f : Flow) (h : leafValid a c v = true) :
    semLeaf a c.flip v f = !semLeaf a c v f := by
  cases a <;> cases v <;> simp [leafValid] at h
  all_goals first
    | (simp [semLeaf, cmpNat_flip]; done)
    | (obtain ⟨(rfl | rfl), _⟩ := h <;> simp [semLeaf, Cmp.flip])
    | (obtain ⟨⟨(rfl | rfl), _⟩, _⟩ := h <;> simp [semLeaf, Cmp.flip])

theorem nnfC_props (c : Cond) : ∀ neg : Bool,
    (nnfC c neg).noNot = true ∧ coreValid (nnfC c neg) = coreValid c ∧ valid (nnfC c neg) = valid c ∧
    (valid c = true → ∀ f, sem (nnfC c neg) f = (sem c f != neg)) := by
  induction c with
  | leaf a cmp v =>
    intro neg
    cases neg
    · simp [nnfC, Cond.noNot, coreValid, valid, sem]
    · refine ⟨rfl, by simp [nnfC, coreValid, leafValid_flip], by simp [nnfC, valid, leafValid_flip], ?_⟩
      intro h f
      simp only [valid] at h
      simp [nnfC, sem, semLeaf_flip a cmp v f h]
  | not x ih =>
    intro neg
    obtain ⟨h1, h2, h3, h4⟩ := ih (!neg)
    refine ⟨h1, by simpa [nnfC, coreValid] using h2, by simpa [nnfC, valid] using h3, ?_⟩
    intro h f
    simp only [valid] at h
    simp only [nnfC, sem, h4 h f]
    cases sem x f <;> cases neg <;> rfl
  | and l r ihl ihr =>
    intro neg
    obtain ⟨l1, l2, l3, l4⟩ := ihl neg
    obtain ⟨r1, r2, r3, r4⟩ := ihr neg
    cases neg
    · refine ⟨by simp [nnfC, Cond.noNot, l1, r1], by simp [nnfC, coreValid, l2, r2], by simp [nnfC, valid, l3, r3], ?_⟩
      intro h f
      simp only [valid, Bool.and_eq_true] at h
      simp [nnfC, sem, l4 h.1 f, r4 h.2 f]
    · refine ⟨by simp [nnfC, Cond.noNot, l1, r1], by simp [nnfC, coreValid, l2, r2], by simp [nnfC, valid, l3, r3], ?_⟩
      intro h f
      simp only [valid, Bool.and_eq_true] at h
      simp only [nnfC, sem, l4 h.1 f, r4 h.2 f, if_true]
      cases sem l f <;> cases sem r f <;> rfl
  | or l r ihl ihr =>
    intro neg
    obtain ⟨l1, l2, l3, l4⟩ := ihl neg
    obtain ⟨r1, r2, r3, r4⟩ := ihr neg
    cases neg
    · refine ⟨by simp [nnfC, Cond.noNot, l1, r1], by simp [nnfC, coreValid, l2, r2], by simp [nnfC, valid, l3, r3], ?_⟩
      intro h f
      simp only [valid, Bool.and_eq_true] at h
      simp [nnfC, sem, l4 h.1 f, r4 h.2 f]
    · refine ⟨by simp [nnfC, Cond.noNot, l1, r1], by simp [nnfC, coreValid, l2, r2], by simp [nnfC, valid, l3, r3], ?_⟩
      intro h f
      simp only [valid, Bool.and_eq_true] at h
      simp only [nnfC, sem, l4 h.1 f, r4 h.2 f, if_true]
      cases sem l f <;> cases sem r f <;> rfl

/-- **`nnf_sound`** — clause "'!' is complement" at the level of the rewriting the code performs:
    whenever `negationNormalForm` accepts a (rendered) tree, its result renders a tree without any
    negation that has the same validity and, if the comparisons are valid, the same meaning on every
    flow. The comparator table is the regenerated `transformComparator`. -/
theorem nnf_sound (c : Cond) (n' : Node) (h : negationNormalForm (toNode c) = .ok n') :
    ∃ c', n' = toNode c' ∧ c'.noNot = true ∧ valid c' = valid c ∧
      (valid c = true → ∀ f, sem c' f = sem c f) := by
  unfold negationNormalForm at h
  rw [nnfHelper_toNode] at h
  split at h
  · injection h with h
    obtain ⟨h1, -, h3, h4⟩ := nnfC_props c false
    exact ⟨nnfC c false, h.symm, h1, h3, fun hv f => by simp [h4 hv f]⟩
  · cases h

/-! ### instrumentation and evaluation of whole trees -/

/-- `instrument` on a rendered tree: accepted exactly when every comparison is a valid comparison
    on a core attribute, and then `Evaluate` computes `sem` and hands the key back unchanged -/
theorem instrument_toNode (c : Cond) :
    (∃ i, instrument (toNode c) = .ok i ∧ coreValid c = true ∧
        ∀ f : Flow, f.WF → i.eval (encode f) = .ok (sem c f, encode f)) ∨
    (∃ e, instrument (toNode c) = .err e ∧ coreValid c = false) := by
  induction c with
  | leaf a cmp v =>
    rcases leaf_outcome a cmp v with ⟨cl, h, hv, hev⟩ | ⟨e, h, hv⟩
    · left
      exact ⟨.cond cl, by simp [toNode, instrument, h], by simp [coreValid, hv.1, hv.2],
        fun f hf => by simp [INode.eval, sem, hev f hf]⟩
    · right
      refine ⟨e, by simp [toNode, instrument, h], ?_⟩
      cases h1 : a.isCore <;> cases h2 : leafValid a cmp v <;> simp [coreValid, h1, h2] at hv ⊢
  | not x ih =>
    rcases ih with ⟨i, h, hv, hev⟩ | ⟨e, h, hv⟩
    · left
      exact ⟨.not i, by simp [toNode, instrument, h], by simp [coreValid, hv],
        fun f hf => by simp [INode.eval, sem, hev f hf]⟩
    · right
      exact ⟨e, by simp [toNode, instrument, h], by simp [coreValid, hv]⟩
  | and l r ihl ihr =>
    rcases ihl with ⟨il, hl, hvl, hevl⟩ | ⟨e, hl, hvl⟩
    · rcases ihr with ⟨ir, hr, hvr, hevr⟩ | ⟨e, hr, hvr⟩
      · left
        refine ⟨.and il ir, by simp [toNode, instrument, hl, hr], by simp [coreValid, hvl, hvr], ?_⟩
        intro f hf
        cases hs : sem l f <;> simp [INode.eval, sem, hevl f hf, hevr f hf, hs]
      · right
        exact ⟨e, by simp [toNode, instrument, hl, hr], by simp [coreValid, hvr]⟩
    · right
      exact ⟨e, by simp [toNode, instrument, hl], by simp [coreValid, hvl]⟩
  | or l r ihl ihr =>
    rcases ihl with ⟨il, hl, hvl, hevl⟩ | ⟨e, hl, hvl⟩
    · rcases ihr with ⟨ir, hr, hvr, hevr⟩ | ⟨e, hr, hvr⟩
      · left
        refine ⟨.or il ir, by simp [toNode, instrument, hl, hr], by simp [coreValid, hvl, hvr], ?_⟩
        intro f hf
        cases hs : sem l f <;> simp [INode.eval, sem, hevl f hf, hevr f hf, hs]
      · right
        exact ⟨e, by simp [toNode, instrument, hl, hr], by simp [coreValid, hvr]⟩
    · right
      exact ⟨e, by simp [toNode, instrument, hl], by simp [coreValid, hvl]⟩

theorem desugarLeaf_height (a : Attr) (c : Cmp) (v : Val) (c' : Cond) (h : desugarLeaf a c v = some c') :
    c'.height ≤ 2 := by
  cases a <;> cases c <;> simp [desugarLeaf] at h <;> subst h <;> simp [Cond.height]

/-- desugaring adds at most two levels (`host != v` becomes `!(sip = v | dip = v)`) -/
theorem desugarC_height (c : Cond) : ∀ c', desugarC c = some c' → c'.height ≤ c.height + 2 := by
  induction c with
  | leaf a cmp v => intro c' h; simpa [Cond.height] using desugarLeaf_height a cmp v c' h
  | not x ih =>
    intro c' h
    cases hx : desugarC x <;> simp [desugarC, hx] at h
    subst h; have := ih _ hx; simp [Cond.height]; omega
  | and l r ihl ihr =>
    intro c' h
    cases hl : desugarC l <;> cases hr : desugarC r <;> simp [desugarC, hl, hr] at h
    subst h; have h1 := ihl _ hl; have h2 := ihr _ hr
    simp only [Cond.height]
    rcases max_cases l.height r.height with ⟨e, _⟩ | ⟨e, _⟩ <;>
      rcases max_cases (Cond.height ‹_›) (Cond.height ‹_›) with ⟨e', _⟩ | ⟨e', _⟩ <;> omega
  | or l r ihl ihr =>
    intro c' h
    cases hl : desugarC l <;> cases hr : desugarC r <;> simp [desugarC, hl, hr] at h
    subst h; have h1 := ihl _ hl; have h2 := ihr _ hr
    simp only [Cond.height]
    rcases max_cases l.height r.height with ⟨e, _⟩ | ⟨e, _⟩ <;>
      rcases max_cases (Cond.height ‹_›) (Cond.height ‹_›) with ⟨e', _⟩ | ⟨e', _⟩ <;> omega

/-! ### the whole pipeline -/

theorem coreValid_valid (c : Cond) (h : coreValid c = true) : valid c = true := by
  induction c with
  | leaf a cmp v => simp [coreValid] at h; simp [valid, h.2]
  | not x ih => exact ih h
  | and l r ihl ihr => simp [coreValid] at h; simp [valid, ihl h.1, ihr h.2]
  | or l r ihl ihr => simp [coreValid] at h; simp [valid, ihl h.1, ihr h.2]

/-- height of the desugared tree (what the depth limit of `negationNormalForm` sees) -/
def dheight (c : Cond) : Nat :=
  match desugarC c with
  | some c' => c'.height
  | none => 0

theorem dheight_le (c : Cond) : dheight c ≤ c.height + 2 := by
  unfold dheight
  cases h : desugarC c with
  | none => simp
  | some c' => exact desugarC_height c c' h

/-- **what `ParseAndInstrument` does with a tree**: either it accepts it — then the tree is valid,
    within the depth limit, and `Evaluate` returns `sem` on every flow and the key as it was — or it
    rejects it with an error, and then the tree is invalid or too deep. It never panics. -/
theorem compile_outcome (c : Cond) :
    (∃ i, compile (toNode c) = .ok i ∧ valid c = true ∧ dheight c ≤ 512 ∧
        ∀ f : Flow, f.WF → i.eval (encode f) = .ok (sem c f, encode f)) ∨
    (∃ e, compile (toNode c) = .err e ∧ (valid c = false ∨ 512 < dheight c)) := by
  unfold compile dheight
  rw [desugar_toNode]
  cases hd : desugarC c with
  | none => right; exact ⟨"comparator", rfl, Or.inl ((desugarC_sem c).2 hd)⟩
  | some c1 =>
    obtain ⟨hsem, hval⟩ := (desugarC_sem c).1 c1 hd
    simp only [bind_ok_eq, resolve, negationNormalForm, nnfHelper_toNode, Nat.zero_add]
    by_cases hh : c1.height ≤ 512
    · rw [if_pos hh]; simp only [bind_ok_eq]
      obtain ⟨-, hcv, -, hnn⟩ := nnfC_props c1 false
      rcases instrument_toNode (nnfC c1 false) with ⟨i, hi, hv, hev⟩ | ⟨e, hi, hv⟩
      · left
        have hv1 : coreValid c1 = true := by rw [← hcv]; exact hv
        refine ⟨i, hi, by rw [← hval]; exact hv1, hh, ?_⟩
        intro f hf
        rw [hev f hf, hnn (coreValid_valid c1 hv1) f, hsem f]; simp
      · right
        exact ⟨e, hi, Or.inl (by rw [← hval, ← hcv]; exact hv)⟩
    · right
      rw [if_neg hh]
      exact ⟨"other", rfl, Or.inr (by omega)⟩

/-- **`eval_refines_sem`** — first sentence of the property: a condition that is accepted selects
    a flow exactly when the Boolean formula it denotes is true for that flow (and evaluation hands
    the key back unchanged). For ALL trees and ALL flows. -/
theorem eval_refines_sem (c : Cond) (i : INode) (h : compile (toNode c) = .ok i) (f : Flow) (hf : f.WF) :
    i.eval (encode f) = .ok (sem c f, encode f) := by
  rcases compile_outcome c with ⟨i', hi, -, -, hev⟩ | ⟨e, he, -⟩
  · rw [h] at hi; injection hi with hi; subst hi; exact hev f hf
  · rw [h] at he; cases he

/-- instrumenting never crashes, whatever the tree -/
theorem compile_total (c : Cond) (w : String) : compile (toNode c) ≠ .panic w := by
  rcases compile_outcome c with ⟨i, hi, -⟩ | ⟨e, he, -⟩
  · rw [hi]; intro h; cases h
  · rw [he]; intro h; cases h

/-- which trees are accepted: the valid ones whose desugared form respects the depth limit -/
theorem compile_ok_iff (c : Cond) :
    (∃ i, compile (toNode c) = .ok i) ↔ (valid c = true ∧ dheight c ≤ 512) := by
  rcases compile_outcome c with ⟨i, hi, hv, hd, -⟩ | ⟨e, he, hbad⟩
  · exact ⟨fun _ => ⟨hv, hd⟩, fun _ => ⟨i, hi⟩⟩
  · constructor
    · rintro ⟨i, hi⟩; rw [hi] at he; cases he
    · rintro ⟨hv, hd⟩
      rcases hbad with h | h
      · rw [hv] at h; cases h
      · omega

/-- every valid tree of height ≤ 510 is accepted -/
theorem compile_ok_of_valid (c : Cond) (hv : valid c = true) (hh : c.height + 2 ≤ 512) :
    ∃ i, compile (toNode c) = .ok i :=
  (compile_ok_iff c).2 ⟨hv, by have := dheight_le c; omega⟩

theorem valid_of_compile_ok (c : Cond) (i : INode) (h : compile (toNode c) = .ok i) : valid c = true :=
  ((compile_ok_iff c).1 ⟨i, h⟩).1

/-- **`eval_pure`** — "evaluating a condition never changes the flow it looks at": whatever
    `Evaluate` returns, the key memory afterwards is the key memory before -/
theorem eval_pure (c : Cond) (i : INode) (h : compile (toNode c) = .ok i) (f : Flow) (hf : f.WF)
    (b : Bool) (k' : Key) (he : i.eval (encode f) = .ok (b, k')) : k' = encode f := by
  rw [eval_refines_sem c i h f hf] at he
  injection he with he
  exact (Prod.mk.inj he).2.symm

/-- every key of 11 or 35 bytes is the key of a flow -/
theorem key_is_flow (k : Key) (hl : k.length = 11 ∨ k.length = 35) (hb : ∀ x ∈ k, x < 256) :
    ∃ f : Flow, f.WF ∧ encode f = k := by
  have gen : ∀ w : Nat, k.length = 2 * w + 3 → (w = 4 ∨ w = 16) → ∃ f : Flow, f.WF ∧ encode f = k := by
    intro w hw hw4
    have hsplit : k = k.take w ++ ((k.drop w).take w ++ (k.drop w).drop w) := by
      rw [List.take_append_drop, List.take_append_drop]
    have hrest : ((k.drop w).drop w).length = 3 := by simp; omega
    match hr : (k.drop w).drop w, hrest with
    | [x, y, z], _ =>
      rw [hr] at hsplit
      have hmem : ∀ t ∈ [x, y, z], t < 256 := by
        intro t ht; apply hb; rw [hsplit]; simp only [List.mem_append]; exact Or.inr (Or.inr ht)
      have hx := hmem x (by simp); have hy := hmem y (by simp); have hz := hmem z (by simp)
      refine ⟨⟨k.take w, (k.drop w).take w, x * 256 + y, z⟩, ⟨?_, ?_, ?_, (by show x * 256 + y < 65536; omega), hz⟩, ?_⟩
      · have h1 : (k.take w).length = w := by simp; omega
        have h2 : ((k.drop w).take w).length = w := by simp; omega
        rcases hw4 with rfl | rfl
        · exact Or.inl ⟨h1, h2⟩
        · exact Or.inr ⟨h1, h2⟩
      · intro t ht; exact hb t (List.mem_of_mem_take ht)
      · intro t ht; exact hb t (List.mem_of_mem_drop (List.mem_of_mem_take ht))
      · have e1 : (x * 256 + y) / 256 = x := by omega
        have e2 : (x * 256 + y) % 256 = y := by omega
        simp only [encode, e1, e2]
        rw [List.append_assoc]; exact hsplit.symm
  rcases hl with h | h
  · exact gen 4 (by omega) (Or.inl rfl)
  · exact gen 16 (by omega) (Or.inr rfl)

/-- **`eval_total`** — "… and never crashes": on EVERY key (11 or 35 bytes, any content) the
    evaluation of an accepted condition returns a result — no panic, no error — and the key is
    unchanged. All index and slice expressions of the model are checked against the key's length, so
    this also covers keys whose backing array ends with the key (the database scan) or extends
    beyond it (the live-query filter). -/
theorem eval_total (c : Cond) (i : INode) (h : compile (toNode c) = .ok i) (k : Key)
    (hl : k.length = 11 ∨ k.length = 35) (hb : ∀ x ∈ k, x < 256) :
    ∃ b, i.eval k = .ok (b, k) := by
  obtain ⟨f, hf, rfl⟩ := key_is_flow k hl hb
  exact ⟨sem c f, eval_refines_sem c i h f hf⟩

/-! ### the clauses of the property -/

theorem dheight_sub (c : Cond) :
    (∀ x, c = .not x → valid c = true → dheight x ≤ dheight c) ∧
    (∀ l r, (c = .and l r ∨ c = .or l r) → valid c = true → dheight l ≤ dheight c ∧ dheight r ≤ dheight c) := by
  constructor
  · rintro x rfl hv
    unfold dheight
    cases hx : desugarC x <;> simp [desugarC, hx, Cond.height]
  · rintro l r (rfl | rfl) hv <;>
    · unfold dheight
      cases hl : desugarC l <;> cases hr : desugarC r <;> simp [desugarC, hl, hr, Cond.height]
      all_goals first
        | (have := (desugarC_sem l).2 hl; simp [valid, this] at hv)
        | (have := (desugarC_sem r).2 hr; simp [valid, this] at hv)
        | (rcases max_cases (Cond.height ‹_›) (Cond.height ‹_›) with ⟨e, _⟩ | ⟨e, _⟩ <;> omega)

/-- **`and_or_not`** — "'|' is union, '&' is intersection and '!' is complement": whenever a
    compound condition is accepted so are its operands, and on every flow its result is the
    disjunction / conjunction / negation of theirs. -/
theorem and_or_not (a b : Cond) :
    (∀ i, compile (toNode (.or a b)) = .ok i → ∃ ia ib, compile (toNode a) = .ok ia ∧ compile (toNode b) = .ok ib ∧
      ∀ f : Flow, f.WF → ∃ x y, ia.eval (encode f) = .ok (x, encode f) ∧ ib.eval (encode f) = .ok (y, encode f) ∧
        i.eval (encode f) = .ok (x || y, encode f)) ∧
    (∀ i, compile (toNode (.and a b)) = .ok i → ∃ ia ib, compile (toNode a) = .ok ia ∧ compile (toNode b) = .ok ib ∧
      ∀ f : Flow, f.WF → ∃ x y, ia.eval (encode f) = .ok (x, encode f) ∧ ib.eval (encode f) = .ok (y, encode f) ∧
        i.eval (encode f) = .ok (x && y, encode f)) ∧
    (∀ i, compile (toNode (.not a)) = .ok i → ∃ ia, compile (toNode a) = .ok ia ∧
      ∀ f : Flow, f.WF → ∃ x, ia.eval (encode f) = .ok (x, encode f) ∧ i.eval (encode f) = .ok (!x, encode f)) := by
  refine ⟨?_, ?_, ?_⟩
  · intro i h
    obtain ⟨hv, hd⟩ := (compile_ok_iff _).1 ⟨i, h⟩
    have hsub := (dheight_sub (.or a b)).2 a b (Or.inr rfl) hv
    simp only [valid, Bool.and_eq_true] at hv
    obtain ⟨ia, ha⟩ := (compile_ok_iff a).2 ⟨hv.1, by omega⟩
    obtain ⟨ib, hb⟩ := (compile_ok_iff b).2 ⟨hv.2, by omega⟩
    exact ⟨ia, ib, ha, hb, fun f hf => ⟨sem a f, sem b f, eval_refines_sem a ia ha f hf,
      eval_refines_sem b ib hb f hf, eval_refines_sem _ i h f hf⟩⟩
  · intro i h
    obtain ⟨hv, hd⟩ := (compile_ok_iff _).1 ⟨i, h⟩
    have hsub := (dheight_sub (.and a b)).2 a b (Or.inl rfl) hv
    simp only [valid, Bool.and_eq_true] at hv
    obtain ⟨ia, ha⟩ := (compile_ok_iff a).2 ⟨hv.1, by omega⟩
    obtain ⟨ib, hb⟩ := (compile_ok_iff b).2 ⟨hv.2, by omega⟩
    exact ⟨ia, ib, ha, hb, fun f hf => ⟨sem a f, sem b f, eval_refines_sem a ia ha f hf,
      eval_refines_sem b ib hb f hf, eval_refines_sem _ i h f hf⟩⟩
  · intro i h
    obtain ⟨hv, hd⟩ := (compile_ok_iff _).1 ⟨i, h⟩
    have hsub := (dheight_sub (.not a)).1 a rfl hv
    simp only [valid] at hv
    obtain ⟨ia, ha⟩ := (compile_ok_iff a).2 ⟨hv, by omega⟩
    exact ⟨ia, ha, fun f hf => ⟨sem a f, eval_refines_sem a ia ha f hf, eval_refines_sem _ i h f hf⟩⟩

theorem semLeaf_ne (a : Attr) (v : Val) (f : Flow) : semLeaf a .ne v f = !semLeaf a .eq v f := by
  cases a <;> cases v <;> simp [semLeaf, cmpNat] <;> rfl

theorem leafValid_ne (a : Attr) (v : Val) : leafValid a .ne v = leafValid a .eq v := by
  cases a <;> cases v <;> simp [leafValid] <;> rfl

theorem dheight_leaf (a : Attr) (c : Cmp) (v : Val) : dheight (.leaf a c v) ≤ 2 := by
  have := dheight_le (.leaf a c v); simpa [Cond.height] using this

/-- **`neq_complement`** — "'a != v' selects exactly the flows 'a = v' does not": the two
    comparisons are accepted together, and on every flow their results are complementary. This
    includes flows of the other IP family, which `!=` on an address or network therefore selects. -/
theorem neq_complement (a : Attr) (v : Val) :
    ((∃ i, compile (toNode (.leaf a .ne v)) = .ok i) ↔ (∃ i, compile (toNode (.leaf a .eq v)) = .ok i)) ∧
    ∀ ine ieq, compile (toNode (.leaf a .ne v)) = .ok ine → compile (toNode (.leaf a .eq v)) = .ok ieq →
      ∀ f : Flow, f.WF → ∃ x, ieq.eval (encode f) = .ok (x, encode f) ∧ ine.eval (encode f) = .ok (!x, encode f) := by
  constructor
  · rw [compile_ok_iff, compile_ok_iff]
    have h1 := dheight_leaf a .ne v
    have h2 := dheight_leaf a .eq v
    simp only [valid, leafValid_ne]
    constructor <;> (rintro ⟨h, -⟩; exact ⟨h, by omega⟩)
  · intro ine ieq hne heq f hf
    refine ⟨semLeaf a .eq v f, eval_refines_sem _ ieq heq f hf, ?_⟩
    rw [eval_refines_sem _ ine hne f hf]; simp [sem, semLeaf_ne]

/-- IP family of a value / of a flow, as the width of the address -/
def Val.width : Val → Option Nat
  | .addr b => some b.length
  | .net b _ => some b.length
  | .num _ => none

/-- a positive address / network match implies equal family (spec level) -/
theorem posMatch_family (a : Attr) (v : Val) (f : Flow) (hf : f.WF) (h : posMatch a v f = true) :
    v.width = some f.sip.length := by
  have hsd : f.dip.length = f.sip.length := by rcases hf.1 with ⟨h1, h2⟩ | ⟨h1, h2⟩ <;> omega
  cases a <;> cases v <;> simp [posMatch, inNet] at h <;> simp only [Val.width, Option.some.injEq]
  case sip.addr => rw [← h]
  case src.addr => rw [← h]
  case dip.addr => rw [← h, hsd]
  case dst.addr => rw [← h, hsd]
  case host.addr => rcases h with h | h; rw [← h]; rw [← h, hsd]
  case snet.net => omega
  case dnet.net => omega
  case net.net => rcases h with h | h <;> omega

/-- **`family`** — "an address or network comparison can only be true for flows of the same IP
    family": if an accepted `=` comparison on an address or network attribute (sugared or not)
    evaluates to true on a flow, the value and the flow's addresses have the same width. -/
theorem family (a : Attr) (v : Val) (n : Nat) (hw : v.width = some n) (i : INode)
    (h : compile (toNode (.leaf a .eq v)) = .ok i) (f : Flow) (hf : f.WF)
    (ht : i.eval (encode f) = .ok (true, encode f)) : n = f.sip.length := by
  rw [eval_refines_sem _ i h f hf] at ht
  injection ht with ht
  have hs : semLeaf a .eq v f = true := by simpa [sem] using (Prod.mk.inj ht).1
  have hp : posMatch a v f = true := by
    cases a <;> cases v <;> simp [Val.width] at hw <;> simpa [semLeaf] using hs
  have := posMatch_family a v f hf hp
  rw [hw] at this; injection this

/-- conditions with the same meaning and validity are accepted together and evaluate alike -/
theorem equiv_of_sem (l r : Cond) (hs : ∀ f, sem l f = sem r f) (hv : valid l = valid r)
    (hl : l.height ≤ 500) (hr : r.height ≤ 500) :
    ((∃ i, compile (toNode l) = .ok i) ↔ (∃ i, compile (toNode r) = .ok i)) ∧
    ∀ il ir, compile (toNode l) = .ok il → compile (toNode r) = .ok ir →
      ∀ f : Flow, f.WF → il.eval (encode f) = ir.eval (encode f) := by
  constructor
  · rw [compile_ok_iff, compile_ok_iff, hv]
    have h1 := dheight_le l; have h2 := dheight_le r
    constructor <;> (rintro ⟨h, -⟩; exact ⟨h, by omega⟩)
  · intro il ir h1 h2 f hf
    rw [eval_refines_sem l il h1 f hf, eval_refines_sem r ir h2 f hf, hs f]

/-- the equivalences stated in goQuery's help text (`cmd/goQuery/cmd/help.go`, "Condition"):
    `src`/`dst`/`port` are other names of `sip`/`dip`/`dport`; `host = X` is `(sip = X | dip = X)`,
    `host != X` is `(sip != X & dip != X)`; `net = N` is `(snet = N | dnet = N)`, `net != N` is
    `(snet != N & dnet != N)`. `protocol` / `ipproto` (accepted by the code, not listed in the help
    text) are other names of `proto`. -/
def docPairs (c : Cmp) (v : Val) : List (Cond × Cond) :=
  [ (.leaf .src c v, .leaf .sip c v),
    (.leaf .dst c v, .leaf .dip c v),
    (.leaf .port c v, .leaf .dport c v),
    (.leaf .protocol c v, .leaf .proto c v),
    (.leaf .ipproto c v, .leaf .proto c v),
    (.leaf .host .eq v, .or (.leaf .sip .eq v) (.leaf .dip .eq v)),
    (.leaf .host .ne v, .and (.leaf .sip .ne v) (.leaf .dip .ne v)),
    (.leaf .net .eq v, .or (.leaf .snet .eq v) (.leaf .dnet .eq v)),
    (.leaf .net .ne v, .and (.leaf .snet .ne v) (.leaf .dnet .ne v)) ]

/-- **`desugar_doc`** — "the sugared forms (host, net, src, dst, port, protocol) mean what the
    documentation says": each documented pair has the same meaning on every flow, is accepted
    together, and evaluates identically on every flow. -/
theorem desugar_doc (c : Cmp) (v : Val) : ∀ p ∈ docPairs c v,
    (∀ f, sem p.1 f = sem p.2 f) ∧
    ((∃ i, compile (toNode p.1) = .ok i) ↔ (∃ i, compile (toNode p.2) = .ok i)) ∧
    ∀ i1 i2, compile (toNode p.1) = .ok i1 → compile (toNode p.2) = .ok i2 →
      ∀ f : Flow, f.WF → i1.eval (encode f) = i2.eval (encode f) := by
  intro p hp
  have key : (∀ f, sem p.1 f = sem p.2 f) ∧ valid p.1 = valid p.2 ∧ p.1.height ≤ 500 ∧ p.2.height ≤ 500 := by
    simp only [docPairs, List.mem_cons, List.not_mem_nil, or_false] at hp
    rcases hp with rfl | rfl | rfl | rfl | rfl | rfl | rfl | rfl | rfl
    all_goals
      refine ⟨fun f => ?_, ?_, by simp [Cond.height], by simp [Cond.height]⟩
      · cases v <;> simp [sem, semLeaf, posMatch]
      · cases v <;> simp [valid, leafValid] <;> rfl
  exact ⟨key.1, equiv_of_sem p.1 p.2 key.1 key.2.1 key.2.2.1 key.2.2.2⟩

/-! ### non-vacuity: the hypotheses are satisfiable on concrete, non-trivial instances -/

/-- the flow 10.130.0.1 → 10.0.0.2, port 53, UDP -/
def exFlow4 : Flow := ⟨[10, 130, 0, 1], [10, 0, 0, 2], 53, 17⟩
/-- the flow 0a01::1 → 2001:db8::1, port 80, TCP -/
def exFlow6 : Flow := ⟨[10, 1, 0, 0, 0, 0, 0, 0, 0, 0, 0, 0, 0, 0, 0, 1], [0x20, 0x01, 0x0d, 0xb8, 0, 0, 0, 0, 0, 0, 0, 0, 0, 0, 0, 1], 80, 6⟩

theorem exFlow4_wf : exFlow4.WF := by
  refine ⟨Or.inl ⟨rfl, rfl⟩, ?_, ?_, by decide, by decide⟩ <;> (intro b hb; simp [exFlow4] at hb; omega)

theorem exFlow6_wf : exFlow6.WF := by
  refine ⟨Or.inr ⟨rfl, rfl⟩, ?_, ?_, by decide, by decide⟩ <;> (intro b hb; simp [exFlow6] at hb; omega)

/-- `snet = 10.0.0.0/9 | sip = 10.130.0.1` (the replayed witness; note the host bits in the text) -/
def exCond1 : Cond := .or (.leaf .snet .eq (.net [10, 0, 0, 0] 9)) (.leaf .sip .eq (.addr [10, 130, 0, 1]))
/-- `!(net != 10.0.0.0/8) & host != 2001:db8::1 & dport <= 1024` -/
def exCond2 : Cond :=
  .and (.and (.not (.leaf .net .ne (.net [10, 0, 0, 0] 8)))
    (.leaf .host .ne (.addr [0x20, 0x01, 0x0d, 0xb8, 0, 0, 0, 0, 0, 0, 0, 0, 0, 0, 0, 1]))) (.leaf .port .le (.num 1024))

/-- result and key after evaluating a rendered tree on a key, through the model of the code -/
def run (c : Cond) (k : Key) : Outcome (Bool × Key) := (compile (toNode c)).bind fun i => i.eval k

example : valid exCond1 = true ∧ valid exCond2 = true := by decide
example : (compile (toNode exCond1)).isOk = true ∧ (compile (toNode exCond2)).isOk = true := by decide
/-- after the fix the witness condition selects 10.130.0.1 (by its second clause) and the key is intact -/
example : run exCond1 (encode exFlow4) = .ok (true, encode exFlow4) := by decide
example : sem exCond1 exFlow4 = true ∧ sem exCond2 exFlow4 = true ∧ sem exCond2 exFlow6 = false := by decide
example : run exCond2 (encode exFlow4) = .ok (true, encode exFlow4) := by decide
example : run exCond2 (encode exFlow6) = .ok (false, encode exFlow6) := by decide
/-- `snet = 10.0.0.0/8` is false on the IPv6 flow `0a01::1`, its negation `snet != 10.0.0.0/8` true -/
example : run (.leaf .snet .eq (.net [10, 0, 0, 0] 8)) (encode exFlow6) = .ok (false, encode exFlow6) := by decide
example : run (.leaf .snet .ne (.net [10, 0, 0, 0] 8)) (encode exFlow6) = .ok (true, encode exFlow6) := by decide
/-- an IPv6 network against an IPv4 key (the replayed panic): simply false -/
example : run (.or (.leaf .snet .eq (.net [0x20, 0x01, 0x0d, 0xb8, 0, 0, 0, 0, 0, 0, 0, 0, 0, 0, 0, 0] 96))
    (.leaf .sip .eq (.addr [1, 2, 3, 1]))) (encode exFlow4) = .ok (false, encode exFlow4) := by decide

/-! ### outside the hypotheses -/

/-- `f.WF` / key length: a byte string that is no key (12 bytes) makes `Key.IsIPv4` panic -/
example : run (.leaf .sip .eq (.addr [1, 2, 3, 4])) (List.replicate 12 0) = .panic "key is neither ipv4 nor ipv6" := by decide
/-- `valid` in `nnf_sound`: on an ordering comparison of an address (rejected by `instrument`)
    flipping the comparator does not complement the (vacuous) meaning -/
example : sem (nnfC (.leaf .sip .lt (.addr [1, 2, 3, 4])) true) exFlow4 = sem (.leaf .sip .lt (.addr [1, 2, 3, 4])) exFlow4 := by decide
/-- invalid and over-deep trees are rejected with an error, not evaluated -/
example : (compile (toNode (.leaf .host .lt (.addr [1, 2, 3, 4])))).isErr = true := by decide
example : (compile (toNode (.leaf .dnet .eq (.net [1, 2, 3, 4] 33)))).isErr = true := by decide

/-! ### the code before the fix (regression): the three replayed witnesses in `Orig` -/

/-- `snet = 10.0.0.0/8` evaluated true on the IPv6 key `0a01::1 …` -/
example : (Orig.netClosure true false [10, 0, 0, 0] 8 ⟨encode exFlow6, 35⟩) = .ok (true, ⟨encode exFlow6, 35⟩) := by decide
/-- `snet = 10.0.0.0/9 | sip = 10.130.0.1` was false on 10.130.0.1 and rewrote the key to 10.128.0.1 -/
example : Orig.orElse (Orig.netClosure true false [10, 0, 0, 0] 9) (Orig.ipClosure true false [10, 130, 0, 1]) ⟨encode exFlow4, 11⟩ =
    .ok (false, ⟨[10, 128, 0, 1, 10, 0, 0, 2, 0, 53, 17], 11⟩) := by decide
/-- `snet = 2001:db8::/96` on an IPv4 key of exact capacity: `[:12]` with capacity 11 -/
example : Orig.netClosure true false [0x20, 0x01, 0x0d, 0xb8, 0, 0, 0, 0, 0, 0, 0, 0, 0, 0, 0, 0] 96 ⟨encode exFlow4, 11⟩ =
    .panic "slice bounds out of range" := by decide
/-- the same on a key inside a larger arena read the neighbouring bytes -/
example : (Orig.netClosure true false [0x20, 0x01, 0x0d, 0xb8, 0, 0, 0, 0, 0, 0, 0, 0, 0, 0, 0, 0] 96
    ⟨[0x20, 0x01, 0x0d, 0xb8, 0, 0, 0, 0, 0, 0, 0, 0, 0xff, 0xff], 11⟩).bind (fun r => .ok r.1) = .ok true := by decide

/-! ### tie between the theorems and the wire -/

/-- the judge's reading of a key (`decodeKey`, `Spec/C09.lean`) inverts `encode`: the flow the spec
    judges on the wire is the flow of the theorems -/
theorem decode_encode (f : Flow) (hf : f.WF) : decodeKey (encode f) = some f := by
  obtain ⟨hfam, -, -, hd, -⟩ := hf
  have gen : ∀ w : Nat, f.sip.length = w → f.dip.length = w →
      (encode f).length = 2 * w + 3 ∧ (encode f).take w = f.sip ∧ ((encode f).drop w).take w = f.dip ∧
      (encode f).getD (2 * w) 0 = f.dport / 256 ∧ (encode f).getD (2 * w + 1) 0 = f.dport % 256 ∧
      (encode f).getD (2 * w + 2) 0 = f.proto := by
    intro w h1 h2
    have e1 : encode f = f.sip ++ (f.dip ++ [f.dport / 256, f.dport % 256, f.proto]) := by simp [encode]
    have e3 : encode f = (f.sip ++ f.dip) ++ [f.dport / 256, f.dport % 256, f.proto] := rfl
    have hl : (f.sip ++ f.dip).length = 2 * w := by simp [h1, h2]; omega
    refine ⟨by simp [encode, h1, h2]; omega, ?_, ?_, ?_, ?_, ?_⟩
    · rw [e1, List.take_left' h1]
    · rw [e1, List.drop_left' h1, List.take_left' h2]
    · rw [List.getD_eq_getElem?_getD, e3, List.getElem?_append_right (by omega), hl]; simp
    · rw [List.getD_eq_getElem?_getD, e3, List.getElem?_append_right (by omega), hl]; simp
    · rw [List.getD_eq_getElem?_getD, e3, List.getElem?_append_right (by omega), hl]; simp
  have hdp : f.dport / 256 * 256 + f.dport % 256 = f.dport := by omega
  rcases hfam with ⟨h1, h2⟩ | ⟨h1, h2⟩
  · obtain ⟨g1, g2, g3, g4, g5, g6⟩ := gen 4 h1 h2
    have g4' : (encode f).getD 8 0 = f.dport / 256 := g4
    have g5' : (encode f).getD 9 0 = f.dport % 256 := g5
    have g6' : (encode f).getD 10 0 = f.proto := g6
    have : decodeKey (encode f) = some ⟨(encode f).take 4, ((encode f).drop 4).take 4,
        (encode f).getD 8 0 * 256 + (encode f).getD 9 0, (encode f).getD 10 0⟩ := by
      simp only [decodeKey, g1]; rfl
    rw [this, g2, g3, g4', g5', g6', hdp]
  · obtain ⟨g1, g2, g3, g4, g5, g6⟩ := gen 16 h1 h2
    have g4' : (encode f).getD 32 0 = f.dport / 256 := g4
    have g5' : (encode f).getD 33 0 = f.dport % 256 := g5
    have g6' : (encode f).getD 34 0 = f.proto := g6
    have : decodeKey (encode f) = some ⟨(encode f).take 16, ((encode f).drop 16).take 16,
        (encode f).getD 32 0 * 256 + (encode f).getD 33 0, (encode f).getD 34 0⟩ := by
      simp only [decodeKey, g1]; rfl
    rw [this, g2, g3, g4', g5', g6', hdp]

end C09
