import GoProbeModel.Model.C11

/-!
C11 — "Query results do not depend on parallelism or memory mode, and queries end": the theorems.

Fan-out (`CreateWorkerJobs`)
* `jobs_cover`, `jobs_sizes`, `jobs_count` — the workloads partition the directory list (nothing dropped,
  duplicated, reordered), hold 1..size directories, and there are ⌈dirs/size⌉ of them; structural recursion.

Channel protocol (`Proto`: producer, n workers per manager, aggregator; any interleaving)
* `step_measure`, `run_measure` — every step lowers the measure `mu` by exactly one: no infinite runs.
* `deadlock_free` — every unfinished state satisfying the invariant `Inv` (`inv_step`, `inv_reach`, `inv_init`)
  has an enabled step, for every n ≥ 1 and map-channel capacity ≥ 1; `finished_final`, `terminates`,
  `maximal_run_finished`, `query_terminates`.
* `step_conserves`, `result_of_any_run` — in every finished run the aggregator has consumed the partial
  result of every workload exactly once (a permutation of them).
* `undersized_queue_deadlocks` — a workload queue smaller than the number of workloads (the code before
  the fix: 64·n) leads to a reachable state with no enabled step.
* `next_sound`, `next_complete`, `exec_reach`, `exec_finished` — the executable scheduler of `handle`.

Fan-in (`QueryRunner.aggregate`) and result
* `fanin_perm`, `lowmem_irrelevant` — rows, totals, hits and statistics are the same for every arrival
  order and both memory modes.
* `rows_eq_sequential`, `partition_irrelevant`, `query_result` — … and equal the sequential one-pass
  evaluation, whatever the bulk size; for every finished run of the protocol.
* `runQuery_eq`, `model_eq_spec` (with `iface_items`, `seq_rows_eq_spec`) — the executable model equals the
  sequential answer for every n ≥ 1, memory mode and seed, and that is the answer of the independent spec
  (`Spec/C11.lean: answer`) on well-formed histories.
-/
namespace C11
open DB

/-! ### counters and statistics form commutative monoids -/

theorem Ctr.add_comm (a b : Ctr) : a.add b = b.add a := by
  cases a; cases b; simp [Ctr.add, Nat.add_comm]

theorem Ctr.add_assoc (a b c : Ctr) : (a.add b).add c = a.add (b.add c) := by
  cases a; cases b; cases c; simp [Ctr.add, Nat.add_assoc]

theorem Ctr.zero_add (a : Ctr) : Ctr.zero.add a = a := by
  cases a; simp [Ctr.add, Ctr.zero]

theorem Ctr.add_right_comm (a b c : Ctr) : (a.add b).add c = (a.add c).add b := by
  rw [Ctr.add_assoc, Ctr.add_comm b c, ← Ctr.add_assoc]

theorem Stats.add_right_comm (a b c : Stats) : (a.add b).add c = (a.add c).add b := by
  cases a; cases b; cases c; simp only [Stats.add, Stats.mk.injEq]; omega

/-! ### the abstract map: denotation as a finite function, additive update -/

/-- the entry of a key (first match) -/
def AMap.find : AMap → Key → Option Ctr
  | [], _ => none
  | (k', c') :: m, k => if k' = k then some c' else AMap.find m k

/-- additive update of a finite function -/
def addF (f : Key → Option Ctr) (kc : Key × Ctr) : Key → Option Ctr :=
  fun k' => if k' = kc.1 then some (((f kc.1).getD Ctr.zero).add kc.2) else f k'

theorem find_add (m : AMap) (k : Key) (c : Ctr) : (m.add k c).find = addF m.find (k, c) := by
  funext k'
  induction m with
  | nil =>
    by_cases h : k' = k
    · subst h; simp [AMap.add, AMap.find, addF, Ctr.zero_add]
    · have h' : ¬ k = k' := fun e => h e.symm
      simp [AMap.add, AMap.find, addF, h, h']
  | cons e m ih =>
    obtain ⟨k0, c0⟩ := e
    by_cases h0 : k0 = k
    · subst h0
      by_cases h : k' = k0
      · subst h; simp [AMap.add, AMap.find, addF]
      · have h' : ¬ k0 = k' := fun e => h e.symm
        simp [AMap.add, AMap.find, addF, h, h']
    · by_cases h : k' = k
      · subst h
        simp only [AMap.add, h0, if_false, AMap.find, ih]
        simp [addF, h0]
      · by_cases h1 : k0 = k'
        · subst h1; simp [AMap.add, AMap.find, addF, h0]
        · simp only [AMap.add, h0, if_false, AMap.find, h1, ih]
          simp [addF, h, h1]

theorem addF_comm (f : Key → Option Ctr) (x y : Key × Ctr) : addF (addF f x) y = addF (addF f y) x := by
  funext k'
  obtain ⟨k1, c1⟩ := x
  obtain ⟨k2, c2⟩ := y
  by_cases h12 : k1 = k2
  · subst h12
    by_cases h : k' = k1
    · subst h; simp [addF, Ctr.add_right_comm]
    · simp [addF, h]
  · have h21 : ¬ k2 = k1 := fun e => h12 e.symm
    by_cases h1 : k' = k1
    · subst h1; simp [addF, h12]
    · by_cases h2 : k' = k2
      · subst h2; simp [addF, h21]
      · simp [addF, h1, h2]

theorem addF_same (f : Key → Option Ctr) (k : Key) (c0 c : Ctr) : addF f (k, c0.add c) = addF (addF f (k, c0)) (k, c) := by
  funext k'
  by_cases h : k' = k
  · subst h; simp [addF, Ctr.add_assoc]
  · simp [addF, h]

theorem find_addAll (m : AMap) (its : List (Key × Ctr)) : (m.addAll its).find = its.foldl addF m.find := by
  induction its generalizing m with
  | nil => rfl
  | cons x its ih =>
    show (AMap.addAll (m.add x.1 x.2) its).find = _
    rw [ih, find_add]; rfl

/-- a fold with a right-commutative step does not depend on the order of the list -/
theorem foldl_perm {α β : Type} {f : β → α → β} (hc : ∀ b x y, f (f b x) y = f (f b y) x) {l₁ l₂ : List α}
    (h : l₁.Perm l₂) (b : β) : l₁.foldl f b = l₂.foldl f b :=
  h.foldl_eq' (fun x _ y _ z => hc z x y) b

theorem foldl_comm_out {α β : Type} {f : β → α → β} (hc : ∀ b x y, f (f b x) y = f (f b y) x) (l : List α) (b : β) (x : α) :
    l.foldl f (f b x) = f (l.foldl f b) x := by
  induction l generalizing b with
  | nil => rfl
  | cons y l ih => simp only [List.foldl_cons]; rw [hc, ih]

/-- adding the entries of a map = adding the raw contributions the map was built from -/
theorem foldl_addF_add (f : Key → Option Ctr) (m : AMap) (k : Key) (c : Ctr) :
    (m.add k c).foldl addF f = addF (m.foldl addF f) (k, c) := by
  induction m generalizing f with
  | nil => rfl
  | cons e m ih =>
    obtain ⟨k0, c0⟩ := e
    by_cases h0 : k0 = k
    · subst h0
      simp only [AMap.add, if_true, List.foldl_cons]
      rw [addF_same, foldl_comm_out addF_comm]
    · simp only [AMap.add, h0, if_false, List.foldl_cons]
      exact ih _

theorem foldl_addF_addAll (f : Key → Option Ctr) (m : AMap) (its : List (Key × Ctr)) :
    (m.addAll its).foldl addF f = its.foldl addF (m.foldl addF f) := by
  induction its generalizing m with
  | nil => rfl
  | cons x its ih =>
    show (AMap.addAll (m.add x.1 x.2) its).foldl addF f = _
    rw [ih, foldl_addF_add]; rfl

/-! ### keys stay distinct, so a map is determined (up to order) by its denotation -/

def AMap.keys (m : AMap) : List Key := m.map (·.1)

theorem keys_add (m : AMap) (k : Key) (c : Ctr) : (m.add k c).keys = if k ∈ m.keys then m.keys else m.keys ++ [k] := by
  induction m with
  | nil => simp [AMap.add, AMap.keys]
  | cons e m ih =>
    obtain ⟨k0, c0⟩ := e
    by_cases h0 : k0 = k
    · subst h0; simp [AMap.add, AMap.keys]
    · have h0' : ¬ k = k0 := fun e => h0 e.symm
      simp only [AMap.keys] at ih
      simp only [AMap.add, h0, if_false, AMap.keys, List.map_cons, List.mem_cons, h0', false_or, ih]
      split <;> simp [*]

theorem nodup_add (m : AMap) (k : Key) (c : Ctr) (h : m.keys.Nodup) : (m.add k c).keys.Nodup := by
  rw [keys_add]
  split
  · exact h
  · rename_i hk
    rw [List.nodup_append]
    refine ⟨h, by simp, ?_⟩
    intro a ha b hb
    simp at hb; subst hb
    intro e; subst e; exact hk ha

theorem nodup_addAll (m : AMap) (its : List (Key × Ctr)) (h : m.keys.Nodup) : (m.addAll its).keys.Nodup := by
  induction its generalizing m with
  | nil => exact h
  | cons x its ih => exact ih _ (nodup_add m x.1 x.2 h)

theorem find_none_of_not_mem (m : AMap) (k : Key) (h : k ∉ m.keys) : m.find k = none := by
  induction m with
  | nil => rfl
  | cons e m ih =>
    obtain ⟨k0, c0⟩ := e
    simp only [AMap.keys, List.map_cons, List.mem_cons, not_or] at h
    have h0 : ¬ k0 = k := fun e => h.1 e.symm
    simp only [AMap.find, h0, if_false]
    exact ih h.2

theorem mem_iff_find (m : AMap) (h : m.keys.Nodup) (k : Key) (c : Ctr) : (k, c) ∈ m ↔ m.find k = some c := by
  induction m with
  | nil => simp [AMap.find]
  | cons e m ih =>
    obtain ⟨k0, c0⟩ := e
    simp only [AMap.keys, List.map_cons, List.nodup_cons] at h
    by_cases h0 : k0 = k
    · subst h0
      simp only [List.mem_cons, Prod.mk.injEq, true_and, AMap.find, if_true, Option.some.injEq]
      constructor
      · rintro (e | hm)
        · exact e.symm
        · exact absurd (List.mem_map.mpr ⟨(k0, c), hm, rfl⟩) h.1
      · intro e; exact Or.inl e.symm
    · have h0' : ¬ k = k0 := fun e => h0 e.symm
      simp only [List.mem_cons, Prod.mk.injEq, h0', false_and, false_or, AMap.find, h0, if_false]
      exact ih h.2

theorem nodup_of_keys (m : AMap) (h : m.keys.Nodup) : m.Nodup := by
  induction m with
  | nil => exact List.nodup_nil
  | cons e m ih =>
    simp only [AMap.keys, List.map_cons, List.nodup_cons] at h
    rw [List.nodup_cons]
    exact ⟨fun hm => h.1 (List.mem_map.mpr ⟨e, hm, rfl⟩), ih h.2⟩

theorem perm_of_find_eq (m₁ m₂ : AMap) (h₁ : m₁.keys.Nodup) (h₂ : m₂.keys.Nodup) (h : m₁.find = m₂.find) : m₁.Perm m₂ := by
  rw [List.perm_ext_iff_of_nodup (nodup_of_keys m₁ h₁) (nodup_of_keys m₂ h₂)]
  rintro ⟨k, c⟩
  rw [mem_iff_find m₁ h₁, mem_iff_find m₂ h₂, h]

/-! ### the canonical rendering depends on the rows only up to their order -/

theorem sortRows_perm {l₁ l₂ : List String} (h : l₁.Perm l₂) : sortRows l₁ = sortRows l₂ := by
  unfold sortRows
  have tr : ∀ a b c : String, decide (a ≤ b) = true → decide (b ≤ c) = true → decide (a ≤ c) = true := by
    intro a b c hab hbc
    simp only [decide_eq_true_eq] at *
    exact String.le_trans hab hbc
  have tot : ∀ a b : String, (decide (a ≤ b) || decide (b ≤ a)) = true := by
    intro a b
    simp only [Bool.or_eq_true, decide_eq_true_eq]
    exact String.le_total a b
  have s₁ := List.pairwise_mergeSort tr tot l₁
  have s₂ := List.pairwise_mergeSort tr tot l₂
  have p : (l₁.mergeSort fun a b => decide (a ≤ b)).Perm (l₂.mergeSort fun a b => decide (a ≤ b)) :=
    (List.mergeSort_perm l₁ _).trans (h.trans (List.mergeSort_perm l₂ _).symm)
  refine List.Perm.eq_of_pairwise (le := fun a b => decide (a ≤ b) = true) ?_ s₁ s₂ p
  intro a b _ _ hab hba
  simp only [decide_eq_true_eq] at hab hba
  exact String.le_antisymm hab hba

theorem sumCtr_perm {l₁ l₂ : List Ctr} (h : l₁.Perm l₂) : sumCtr l₁ = sumCtr l₂ :=
  foldl_perm Ctr.add_right_comm h _

theorem renderResult_perm {r₁ r₂ : List (Key × Ctr)} (h : r₁.Perm r₂) : renderResult r₁ = renderResult r₂ := by
  unfold renderResult
  rw [sortRows_perm (h.map rowStr), sumCtr_perm (h.map (·.2)), h.length_eq]

/-! ### the fan-in (`QueryRunner.aggregate`) on denotations -/

/-- what an entry of the final maps denotes: interface, statistics, finite function of its map -/
abbrev Den := String × Stats × (Key → Option Ctr)

def den (e : Final) : Den := (e.iface, e.stats, e.map.find)

def aggEntryD (item : Part) (d : Den) : Den :=
  if d.1 = item.iface then (d.1, d.2.1.add item.stats, item.map.foldl addF d.2.2) else d

def aggStepD (ds : List Den) (item : Part) : List Den := ds.map (aggEntryD item)

theorem den_aggEntry (lm : Bool) (item : Part) (e : Final) : den (aggEntry lm item e) = aggEntryD item (den e) := by
  unfold aggEntry aggEntryD den
  by_cases h : e.iface = item.iface
  · by_cases h0 : item.map.length = 0
    · have : item.map = [] := List.length_eq_zero_iff.mp h0
      simp [h, this]
    · simp [h, h0, mergeMap, find_addAll]
  · simp [h]

theorem aggEntryD_fst (a : Part) (d : Den) : (aggEntryD a d).1 = d.1 := by
  unfold aggEntryD; split <;> rfl

theorem foldl_addF_swap (f : Key → Option Ctr) (l₁ l₂ : List (Key × Ctr)) :
    l₂.foldl addF (l₁.foldl addF f) = l₁.foldl addF (l₂.foldl addF f) := by
  rw [← List.foldl_append, ← List.foldl_append]
  exact foldl_perm addF_comm List.perm_append_comm f

theorem aggEntryD_pos (item : Part) (d : Den) (h : d.1 = item.iface) :
    aggEntryD item d = (d.1, d.2.1.add item.stats, item.map.foldl addF d.2.2) := if_pos h

theorem aggEntryD_neg (item : Part) (d : Den) (h : ¬ d.1 = item.iface) : aggEntryD item d = d := if_neg h

theorem aggEntryD_comm (a b : Part) (d : Den) : aggEntryD b (aggEntryD a d) = aggEntryD a (aggEntryD b d) := by
  obtain ⟨i, st, f⟩ := d
  by_cases ha : i = a.iface
  · by_cases hb : i = b.iface
    · rw [aggEntryD_pos a (i, st, f) ha, aggEntryD_pos b (i, st, f) hb, aggEntryD_pos b _ hb, aggEntryD_pos a _ ha]
      simp only [Prod.mk.injEq, true_and]
      exact ⟨Stats.add_right_comm _ _ _, foldl_addF_swap _ _ _⟩
    · rw [aggEntryD_pos a (i, st, f) ha, aggEntryD_neg b (i, st, f) hb, aggEntryD_neg b _ hb, aggEntryD_pos a _ ha]
  · by_cases hb : i = b.iface
    · rw [aggEntryD_neg a (i, st, f) ha, aggEntryD_pos b (i, st, f) hb, aggEntryD_neg a _ ha]
    · rw [aggEntryD_neg a (i, st, f) ha, aggEntryD_neg b (i, st, f) hb, aggEntryD_neg a _ ha]

theorem aggStepD_comm (ds : List Den) (a b : Part) : aggStepD (aggStepD ds a) b = aggStepD (aggStepD ds b) a := by
  simp only [aggStepD, List.map_map]
  apply List.map_congr_left
  intro d _
  exact aggEntryD_comm a b d

theorem den_foldl_aggStep (lm : Bool) (items : List Part) (fm : List Final) :
    (items.foldl (aggStep lm) fm).map den = items.foldl aggStepD (fm.map den) := by
  induction items generalizing fm with
  | nil => rfl
  | cons x items ih =>
    simp only [List.foldl_cons]
    rw [ih]
    congr 1
    simp only [aggStep, aggStepD, List.map_map]
    apply List.map_congr_left
    intro e _
    exact den_aggEntry lm x e

/-- every final map keeps distinct keys -/
def FOk (fm : List Final) : Prop := ∀ e ∈ fm, e.map.keys.Nodup

theorem fok_aggStep (lm : Bool) (fm : List Final) (item : Part) (h : FOk fm) : FOk (aggStep lm fm item) := by
  intro e he
  simp only [aggStep, List.mem_map] at he
  obtain ⟨e0, he0, rfl⟩ := he
  have := h e0 he0
  unfold aggEntry
  split
  · split
    · exact this
    · exact nodup_addAll _ _ this
  · exact this

theorem fok_aggregate (lm : Bool) (ifaces : List String) (items : List Part) : FOk (aggregate lm ifaces items) := by
  unfold aggregate
  generalize hfm : (ifaces.map fun i => (⟨i, [], Stats.zero⟩ : Final)) = fm
  have h0 : FOk fm := by
    subst hfm
    intro e he
    simp only [List.mem_map] at he
    obtain ⟨i, _, rfl⟩ := he
    exact List.nodup_nil
  clear hfm
  induction items generalizing fm with
  | nil => exact h0
  | cons x items ih => exact ih _ (fok_aggStep lm fm x h0)

theorem allRows_perm_of_den : ∀ (fm₁ fm₂ : List Final), FOk fm₁ → FOk fm₂ → fm₁.map den = fm₂.map den →
    (allRows fm₁).Perm (allRows fm₂)
  | [], [], _, _, _ => List.Perm.refl _
  | [], _ :: _, _, _, h => by simp at h
  | _ :: _, [], _, _, h => by simp at h
  | e₁ :: fm₁, e₂ :: fm₂, h₁, h₂, h => by
    simp only [List.map_cons, List.cons.injEq] at h
    simp only [allRows, List.flatMap_cons]
    refine List.Perm.append ?_ ?_
    · refine perm_of_find_eq _ _ (h₁ e₁ List.mem_cons_self) (h₂ e₂ List.mem_cons_self) ?_
      have := h.1
      simp only [den, Prod.mk.injEq] at this
      exact this.2.2
    · exact allRows_perm_of_den fm₁ fm₂ (fun e he => h₁ e (List.mem_cons_of_mem _ he))
        (fun e he => h₂ e (List.mem_cons_of_mem _ he)) h.2

theorem sumStats_of_den (fm : List Final) : sumStats fm = ((fm.map den).map (·.2.1)).foldl Stats.add Stats.zero := by
  simp [sumStats, den, List.map_map, Function.comp_def]

/-- the rendered result is a function of the denotation of the final maps -/
theorem renderFinal_congr (fm₁ fm₂ : List Final) (h₁ : FOk fm₁) (h₂ : FOk fm₂) (h : fm₁.map den = fm₂.map den) :
    renderFinal fm₁ = renderFinal fm₂ := by
  have p := allRows_perm_of_den fm₁ fm₂ h₁ h₂ h
  unfold renderFinal
  rw [renderResult_perm p, sumStats_of_den fm₁, sumStats_of_den fm₂, h]

/-- **fanin_perm** (C11, "the same rows and totals whatever … the goroutine schedule" and "the low-memory
    setting"): the rendered result — rows, totals, hits and the statistics the result carries — of the
    fan-in `QueryRunner.aggregate` is the same for EVERY arrival order of the partial results (every
    permutation of the items on the map channel) and for both memory modes. -/
theorem fanin_perm (lm lm' : Bool) (ifaces : List String) {items₁ items₂ : List Part} (h : items₁.Perm items₂) :
    renderFinal (aggregate lm ifaces items₁) = renderFinal (aggregate lm' ifaces items₂) := by
  refine renderFinal_congr _ _ (fok_aggregate _ _ _) (fok_aggregate _ _ _) ?_
  unfold aggregate
  rw [den_foldl_aggStep, den_foldl_aggStep]
  exact foldl_perm aggStepD_comm h _

/-- **lowmem_irrelevant** (C11, "the low-memory setting"): the fan-in computes the same final maps in both modes. -/
theorem lowmem_irrelevant (ifaces : List String) (items : List Part) :
    aggregate true ifaces items = aggregate false ifaces items := by
  rfl

/-! ### `CreateWorkerJobs`: the workloads partition the directories -/

theorem bulkLoop_flatten (size : Nat) (ds bulk : List DayDir) (acc : List (List DayDir)) :
    (bulkLoop size ds bulk acc).2.flatten ++ (bulkLoop size ds bulk acc).1 = acc.flatten ++ bulk ++ ds := by
  induction ds generalizing bulk acc with
  | nil => simp [bulkLoop]
  | cons d ds ih =>
    unfold bulkLoop
    split
    · rw [ih]; simp
    · rw [ih]; simp

theorem bulkLoop_sizes (size : Nat) (ds bulk : List DayDir) (acc : List (List DayDir))
    (hb : bulk.length < size) (ha : ∀ w ∈ acc, w.length = size) :
    (bulkLoop size ds bulk acc).1.length < size ∧ ∀ w ∈ (bulkLoop size ds bulk acc).2, w.length = size := by
  induction ds generalizing bulk acc with
  | nil => exact ⟨hb, ha⟩
  | cons d ds ih =>
    unfold bulkLoop
    split
    · rename_i h
      refine ih [] _ (by simp; omega) ?_
      intro w hw
      rcases List.mem_append.mp hw with hw | hw
      · exact ha w hw
      · simp at hw; subst hw; exact h
    · rename_i h
      refine ih _ acc ?_ ha
      simp at h ⊢; omega

theorem length_flatten_of_all {size : Nat} : ∀ (l : List (List DayDir)), (∀ w ∈ l, w.length = size) → l.flatten.length = size * l.length
  | [], _ => by simp
  | w :: l, h => by
    simp only [List.flatten_cons, List.length_append, List.length_cons]
    rw [length_flatten_of_all l (fun w hw => h w (List.mem_cons_of_mem _ hw)), h w List.mem_cons_self, Nat.mul_succ, Nat.add_comm]

theorem createWorkerJobs_eq (size : Nat) (dirs : List DayDir) :
    createWorkerJobs size dirs =
      if (bulkLoop size dirs [] []).1.length > 0 then (bulkLoop size dirs [] []).2 ++ [(bulkLoop size dirs [] []).1]
      else (bulkLoop size dirs [] []).2 := rfl

/-- **jobs_cover** (C11, partition of the day directories into workloads): concatenating the workloads
    `CreateWorkerJobs` hands out gives back exactly the directory list of the walk, in order — no
    directory is dropped, duplicated or reordered, for any number of directories and any bulk size. The
    loop is a structural recursion over the directory list: it terminates for every list. -/
theorem jobs_cover (size : Nat) (dirs : List DayDir) : (createWorkerJobs size dirs).flatten = dirs := by
  have h := bulkLoop_flatten size dirs [] []
  simp only [List.flatten_nil, List.nil_append] at h
  rw [createWorkerJobs_eq]
  split
  · simp [h]
  · rename_i hl
    have : (bulkLoop size dirs [] []).1 = [] := by
      cases hb : (bulkLoop size dirs [] []).1 with
      | nil => rfl
      | cons x xs => rw [hb] at hl; simp at hl
    rw [this] at h; simpa using h

/-- **jobs_sizes**: every workload holds at least one and at most `size` directories (`size` ≥ 1;
    the regenerated constant is 32). -/
theorem jobs_sizes (size : Nat) (hs : 1 ≤ size) (dirs : List DayDir) :
    ∀ w ∈ createWorkerJobs size dirs, 1 ≤ w.length ∧ w.length ≤ size := by
  have h := bulkLoop_sizes size dirs [] [] (by simp; omega) (by simp)
  intro w hw
  rw [createWorkerJobs_eq] at hw
  split at hw
  · rename_i hl
    rcases List.mem_append.mp hw with hw | hw
    · have := h.2 w hw; omega
    · simp at hw; subst hw; omega
  · have := h.2 w hw; omega

/-- **jobs_count**: the number of workloads is `⌈dirs / size⌉`. -/
theorem jobs_count (size : Nat) (hs : 1 ≤ size) (dirs : List DayDir) :
    (createWorkerJobs size dirs).length = (dirs.length + size - 1) / size := by
  have hsz := bulkLoop_sizes size dirs [] [] (by simp; omega) (by simp)
  have hfl := congrArg List.length (bulkLoop_flatten size dirs [] [])
  simp only [List.flatten_nil, List.nil_append, List.length_append] at hfl
  rw [length_flatten_of_all _ hsz.2] at hfl
  have hr := hsz.1
  rw [createWorkerJobs_eq]
  have hlen : (if (bulkLoop size dirs [] []).1.length > 0 then (bulkLoop size dirs [] []).2 ++ [(bulkLoop size dirs [] []).1]
      else (bulkLoop size dirs [] []).2).length =
      (bulkLoop size dirs [] []).2.length + (if (bulkLoop size dirs [] []).1.length > 0 then 1 else 0) := by
    split <;> simp
  rw [hlen]
  generalize (bulkLoop size dirs [] []).2.length = k at hfl
  generalize (bulkLoop size dirs [] []).1.length = r at hfl hr
  have key : ∀ x, (size * k + x) / size = k + x / size := fun x => by
    rw [Nat.mul_comm, Nat.add_comm, Nat.add_mul_div_right _ _ (by omega), Nat.add_comm]
  have e : dirs.length + size - 1 = size * k + (r + size - 1) := by omega
  rw [e, key]
  split
  · have : (r + size - 1) / size = 1 := Nat.div_eq_of_lt_le (by omega) (by omega)
    rw [this]
  · have : (r + size - 1) / size = 0 := Nat.div_eq_of_lt (by omega)
    rw [this]

/-! ### the channel protocol: measure, invariant, progress, conservation -/
namespace Proto
variable {J P : Type} {n mapCap : Nat} {proc : J → P}

theorem Reach.trans {s t u : PState J P} (h₁ : Reach n mapCap proc s t) (h₂ : Reach n mapCap proc t u) :
    Reach n mapCap proc s u := by
  induction h₂ with
  | refl => exact h₁
  | tail _ st ih => exact Reach.tail ih st

theorem Reach.head {s t u : PState J P} (h₁ : Step n mapCap proc s t) (h₂ : Reach n mapCap proc t u) :
    Reach n mapCap proc s u :=
  Reach.trans (Reach.tail (Reach.refl s) h₁) h₂

theorem sum_weight_replicate (k : Nat) : ((List.replicate k (WState.idle : WState J P)).map wWeight).sum = k := by
  induction k with
  | zero => rfl
  | succ k ih => simp only [List.replicate_succ, List.map_cons, List.sum_cons, ih, wWeight]; omega

theorem sum_weight_done (ws : List (WState J P)) (h : ∀ w ∈ ws, w = WState.done) : (ws.map wWeight).sum = 0 := by
  induction ws with
  | nil => rfl
  | cons w ws ih =>
    have hw := h w List.mem_cons_self
    subst hw
    simp only [List.map_cons, List.sum_cons, wWeight, Nat.zero_add]
    exact ih (fun w hw => h w (List.mem_cons_of_mem _ hw))

/-- **step_measure** (C11, "every query … terminates"): every step of every goroutine of the protocol
    uses up exactly one unit of the measure `mu` (work still to be done: workloads weighted by the
    stages they have to pass, workers that have to exit, managers that have to be created, started
    and joined, the two closing steps). Hence no run is longer than `mu` of its first state — for any
    number of workloads, workers and any channel capacities. -/
theorem step_measure {s t : PState J P} (h : Step n mapCap proc s t) : mu n t + 1 = mu n s := by
  cases h with
  | start =>
    simp only [mu, List.map_append, List.map_cons, List.sum_append, List.sum_cons, sum_weight_replicate,
      List.map_nil, List.sum_nil]
    omega
  | join h =>
    simp only [mu, sum_weight_done _ h, List.length_nil]
    omega
  | _ =>
    simp only [mu, wWeight, List.map_append, List.map_cons, List.sum_append, List.sum_cons, List.length_append,
      List.length_cons, List.length_nil, List.map_nil, List.sum_nil, if_true, Bool.false_eq_true, if_false]
    try omega

/-- runs with their number of steps -/
inductive Run (n mapCap : Nat) (proc : J → P) : Nat → PState J P → PState J P → Prop
  | zero (s) : Run n mapCap proc 0 s s
  | succ {k s t u} : Run n mapCap proc k s t → Step n mapCap proc t u → Run n mapCap proc (k + 1) s u

/-- **run_measure**: a run of `k` steps lowers the measure by exactly `k`; in particular `k ≤ mu s`:
    there are no infinite runs, whatever the scheduler does. -/
theorem run_measure {k : Nat} {s t : PState J P} (h : Run n mapCap proc k s t) : mu n t + k = mu n s := by
  induction h with
  | zero => rfl
  | succ _ st ih => have := step_measure st; omega

/-- what holds in every reachable state -/
structure Inv (n : Nat) (s : PState J P) : Prop where
  /-- the manager inside `CreateWorkerJobs` has room for what it still has to hand over -/
  room : ∀ m ∈ s.creating, m.todo.length + m.chan.length ≤ m.cap
  /-- a manager runs `n` workers, and a worker only exits once the workload channel is drained -/
  workers : ∀ q ws, s.running = some (q, ws) → ws.length = n ∧ ((∃ w ∈ ws, w = WState.done) → q = [])
  /-- the map channel is closed after all managers are through -/
  closedOk : s.closed = true → s.creating = [] ∧ s.created = [] ∧ s.running = none
  /-- the aggregator only finishes on a closed, drained map channel -/
  finOk : s.finished = true → s.closed = true ∧ s.mapChan = []

theorem mem_mid_ne {a b : List (WState J P)} {x y w : WState J P} (hw : w ∈ a ++ y :: b) (hne : w ≠ y) : w ∈ a ++ x :: b := by
  rcases List.mem_append.mp hw with h | h
  · exact List.mem_append_left _ h
  · rcases List.mem_cons.mp h with h | h
    · exact absurd h hne
    · exact List.mem_append_right _ (List.mem_cons_of_mem _ h)

theorem inv_step {s t : PState J P} (h : Step n mapCap proc s t) (inv : Inv n s) : Inv n t := by
  obtain ⟨room, workers, closedOk, finOk⟩ := inv
  cases h with
  | produce hlt =>
    refine ⟨?_, workers, ?_, finOk⟩
    · intro m hm
      rcases List.mem_cons.mp hm with rfl | hm
      · have := room _ List.mem_cons_self
        simp only [List.length_cons, List.length_append, List.length_nil] at this ⊢
        omega
      · exact room m (List.mem_cons_of_mem _ hm)
    · intro hc; have := (closedOk hc).1; simp at this
  | created =>
    refine ⟨fun m hm => room m (List.mem_cons_of_mem _ hm), workers, ?_, finOk⟩
    intro hc; have := (closedOk hc).1; simp at this
  | start =>
    refine ⟨room, ?_, ?_, finOk⟩
    · intro q ws hrun
      simp only [Option.some.injEq, Prod.mk.injEq] at hrun
      obtain ⟨rfl, rfl⟩ := hrun
      refine ⟨List.length_replicate, ?_⟩
      rintro ⟨w, hw, rfl⟩
      have := (List.mem_replicate.mp hw).2
      cases this
    · intro hc; have := (closedOk hc).2.1; simp at this
  | take =>
    refine ⟨room, ?_, ?_, finOk⟩
    · intro q' ws' hrun
      simp only [Option.some.injEq, Prod.mk.injEq] at hrun
      obtain ⟨rfl, rfl⟩ := hrun
      have hw := workers _ _ rfl
      refine ⟨by simpa using hw.1, ?_⟩
      rintro ⟨w, hw', rfl⟩
      have : (_ :: _ : List J) = [] := hw.2 ⟨WState.done, mem_mid_ne hw' (by intro e; cases e), rfl⟩
      cases this
    · intro hc; have := (closedOk hc).2.2; simp at this
  | work =>
    refine ⟨room, ?_, ?_, finOk⟩
    · intro q' ws' hrun
      simp only [Option.some.injEq, Prod.mk.injEq] at hrun
      obtain ⟨rfl, rfl⟩ := hrun
      have hw := workers _ _ rfl
      refine ⟨by simpa using hw.1, ?_⟩
      rintro ⟨w, hw', rfl⟩
      exact hw.2 ⟨WState.done, mem_mid_ne hw' (by intro e; cases e), rfl⟩
    · intro hc; have := (closedOk hc).2.2; simp at this
  | send hlt =>
    refine ⟨room, ?_, ?_, ?_⟩
    · intro q' ws' hrun
      simp only [Option.some.injEq, Prod.mk.injEq] at hrun
      obtain ⟨rfl, rfl⟩ := hrun
      have hw := workers _ _ rfl
      refine ⟨by simpa using hw.1, ?_⟩
      rintro ⟨w, hw', rfl⟩
      exact hw.2 ⟨WState.done, mem_mid_ne hw' (by intro e; cases e), rfl⟩
    · intro hc; have := (closedOk hc).2.2; simp at this
    · intro hf
      have hc := (finOk hf).1
      have := (closedOk hc).2.2; simp at this
  | exit =>
    refine ⟨room, ?_, ?_, finOk⟩
    · intro q' ws' hrun
      simp only [Option.some.injEq, Prod.mk.injEq] at hrun
      obtain ⟨rfl, rfl⟩ := hrun
      have hw := workers _ _ rfl
      exact ⟨by simpa using hw.1, fun _ => rfl⟩
    · intro hc; have := (closedOk hc).2.2; simp at this
  | join hd =>
    refine ⟨room, ?_, ?_, finOk⟩
    · intro q ws hrun; simp at hrun
    · intro hc; have := (closedOk hc).2.2; simp at this
  | close =>
    refine ⟨room, workers, fun _ => ⟨rfl, rfl, rfl⟩, ?_⟩
    intro hf; have := (finOk hf).1; simp at this
  | recv =>
    refine ⟨room, workers, closedOk, ?_⟩
    intro hf; simp at hf
  | finish =>
    exact ⟨room, workers, closedOk, fun _ => ⟨rfl, rfl⟩⟩

theorem inv_reach {s t : PState J P} (h : Reach n mapCap proc s t) (inv : Inv n s) : Inv n t := by
  induction h with
  | refl => exact inv
  | tail _ st ih => exact inv_step st ih

/-- the invariant holds initially when every manager's queue has room for all its workloads -/
theorem inv_init (mgrs : List (Mgr J)) (h : ∀ m ∈ mgrs, m.todo.length + m.chan.length ≤ m.cap) :
    Inv n (init mgrs : PState J P) :=
  ⟨h, by intro q ws hr; simp [init] at hr, by intro hc; simp [init] at hc, by intro hf; simp [init] at hf⟩

/-- **deadlock_free** (C11, "every query … terminates … however few CPUs are available"): in every state
    satisfying the invariant (hence in every reachable state, `inv_reach`) that is not final, some
    goroutine can take a step — with at least one worker per manager and a map channel of capacity ≥ 1.
    No state exists in which producer, workers and aggregator all wait for each other. -/
theorem deadlock_free (hn : 1 ≤ n) (hc : 1 ≤ mapCap) {s : PState J P} (inv : Inv n s) (hfin : s.finished = false) :
    ∃ t, Step n mapCap proc s t := by
  obtain ⟨cg, cr, run, mc, cl, rv, fin⟩ := s
  simp only at hfin
  subst hfin
  cases cg with
  | cons m ms =>
    obtain ⟨todo, ch, cap⟩ := m
    cases todo with
    | nil => exact ⟨_, Step.created⟩
    | cons j js =>
      have := inv.room _ List.mem_cons_self
      simp only [List.length_cons] at this
      exact ⟨_, Step.produce (by omega)⟩
  | nil =>
    cases run with
    | some qw =>
      obtain ⟨q, ws⟩ := qw
      have hw := inv.workers q ws rfl
      by_cases hd : ∀ w ∈ ws, w = WState.done
      · cases ws with
        | nil => simp at hw; omega
        | cons w ws =>
          have hq : q = [] := hw.2 ⟨w, List.mem_cons_self, hd w List.mem_cons_self⟩
          subst hq
          exact ⟨_, Step.join hd⟩
      · have : ∃ w ∈ ws, w ≠ WState.done := by
          apply Classical.byContradiction
          intro hne
          apply hd
          intro w hw'
          apply Classical.byContradiction
          intro h
          exact hne ⟨w, hw', h⟩
        obtain ⟨w, hmem, hne⟩ := this
        obtain ⟨a, b, rfl⟩ := List.append_of_mem hmem
        cases w with
        | done => exact absurd rfl hne
        | busy j => exact ⟨_, Step.work⟩
        | idle =>
          cases q with
          | nil => exact ⟨_, Step.exit⟩
          | cons j q => exact ⟨_, Step.take⟩
        | ready p =>
          by_cases hroom : mc.length < mapCap
          · exact ⟨_, Step.send hroom⟩
          · cases mc with
            | nil => simp at hroom; omega
            | cons p' mc => exact ⟨_, Step.recv⟩
    | none =>
      cases cr with
      | cons ch cr => exact ⟨_, Step.start (a := [])⟩
      | nil =>
        cases cl with
        | false => exact ⟨_, Step.close⟩
        | true =>
          cases mc with
          | nil => exact ⟨_, Step.finish⟩
          | cons p mc => exact ⟨_, Step.recv⟩

/-- a finished state is final: nothing is left to do -/
theorem finished_final {s t : PState J P} (inv : Inv n s) (hfin : s.finished = true) : ¬ Step n mapCap proc s t := by
  intro h
  have hc := (inv.finOk hfin).1
  have hm := (inv.finOk hfin).2
  obtain ⟨h1, h2, h3⟩ := inv.closedOk hc
  cases h <;> simp_all

/-- **terminates** (C11, "every query over a readable database terminates, however many day directories
    it covers"): from every state satisfying the invariant a finished state is reachable, and by
    `run_measure` EVERY run reaches one after exactly `mu` steps if it is continued while a step is
    enabled (`deadlock_free`): the measure counts the remaining steps. -/
theorem terminates (hn : 1 ≤ n) (hc : 1 ≤ mapCap) : ∀ (fuel : Nat) (s : PState J P), mu n s ≤ fuel → Inv n s →
    ∃ t, Reach n mapCap proc s t ∧ t.finished = true := by
  intro fuel
  induction fuel with
  | zero =>
    intro s hmu inv
    refine ⟨s, Reach.refl s, ?_⟩
    cases hf : s.finished with
    | true => rfl
    | false => simp [mu, hf] at hmu
  | succ fuel ih =>
    intro s hmu inv
    cases hf : s.finished with
    | true => exact ⟨s, Reach.refl s, hf⟩
    | false =>
      obtain ⟨t, st⟩ := deadlock_free (proc := proc) hn hc inv hf
      have := step_measure st
      obtain ⟨u, hr, hu⟩ := ih t (by omega) (inv_step st inv)
      exact ⟨u, Reach.head st hr, hu⟩

/-- a maximal run (one that cannot be continued) of the protocol ends in the finished state -/
theorem maximal_run_finished (hn : 1 ≤ n) (hc : 1 ≤ mapCap) {k : Nat} {s t : PState J P} (inv : Inv n s)
    (hr : Run n mapCap proc k s t) (hmax : ∀ u, ¬ Step n mapCap proc t u) : t.finished = true ∧ k + mu n t = mu n s := by
  have invt : Inv n t := by
    clear hmax
    induction hr with
    | zero => exact inv
    | succ _ st ih => exact inv_step st (ih inv)
  constructor
  · cases hf : t.finished with
    | true => rfl
    | false =>
      obtain ⟨u, st⟩ := deadlock_free (proc := proc) hn hc invt hf
      exact absurd st (hmax u)
  · have := run_measure hr; omega

/-! #### conservation: every workload's partial result arrives at the aggregator exactly once -/

/-- the partial result a worker holds or will produce -/
def held (proc : J → P) : WState J P → List P
  | .idle => []
  | .busy j => [proc j]
  | .ready p => [p]
  | .done => []

/-- the partial results (computed or still to be computed) the aggregator has not yet consumed -/
def outstanding (proc : J → P) (s : PState J P) : List P :=
  s.creating.flatMap (fun m => (m.todo ++ m.chan).map proc) ++ s.created.flatMap (fun ch => ch.map proc) ++
  (match s.running with
   | none => []
   | some (q, ws) => q.map proc ++ ws.flatMap (held proc)) ++ s.mapChan

theorem held_done (ws : List (WState J P)) (h : ∀ w ∈ ws, w = WState.done) : ws.flatMap (held proc) = [] := by
  induction ws with
  | nil => rfl
  | cons w ws ih =>
    have hw := h w List.mem_cons_self
    subst hw
    simp only [List.flatMap_cons, held, List.nil_append]
    exact ih (fun w hw => h w (List.mem_cons_of_mem _ hw))

theorem held_replicate (k : Nat) : (List.replicate k (WState.idle : WState J P)).flatMap (held proc) = [] := by
  induction k with
  | zero => rfl
  | succ k ih => simp only [List.replicate_succ, List.flatMap_cons, held, List.nil_append, ih]

/-- **step_conserves**: no step loses, duplicates or invents a partial result: consumed items plus
    outstanding ones stay the same multiset. -/
theorem step_conserves [DecidableEq P] {s t : PState J P} (h : Step n mapCap proc s t) :
    (t.recv ++ outstanding proc t).Perm (s.recv ++ outstanding proc s) := by
  rw [List.perm_iff_count]
  intro x
  cases h with
  | join hd =>
    simp only [outstanding, held_done _ hd, List.map_nil, List.append_nil]
  | _ =>
    simp only [outstanding, held, held_replicate, List.flatMap_cons, List.flatMap_append, List.flatMap_nil, List.map_append,
      List.map_cons, List.map_nil, List.count_append, List.count_cons, List.count_nil, List.append_nil, List.nil_append]
    try omega

theorem reach_conserves [DecidableEq P] {s t : PState J P} (h : Reach n mapCap proc s t) :
    (t.recv ++ outstanding proc t).Perm (s.recv ++ outstanding proc s) := by
  induction h with
  | refl => exact List.Perm.refl _
  | tail _ st ih => exact (step_conserves st).trans ih

theorem finished_outstanding {s : PState J P} (inv : Inv n s) (hfin : s.finished = true) : outstanding proc s = [] := by
  have hc := (inv.finOk hfin).1
  have hm := (inv.finOk hfin).2
  obtain ⟨h1, h2, h3⟩ := inv.closedOk hc
  simp [outstanding, h1, h2, h3, hm]

/-- **result_of_any_run** (C11, "whatever the number of worker goroutines … and the goroutine schedule"):
    in EVERY finished state reachable from the initial state — any number `n` of workers, any capacities,
    any interleaving of producer, workers and aggregator, any assignment of workloads to workers, any
    order in which the managers are run — the sequence of items the aggregator has consumed is a
    permutation of the partial results of all workloads of all managers: each exactly once. -/
theorem result_of_any_run [DecidableEq P] (mgrs : List (Mgr J)) (hroom : ∀ m ∈ mgrs, m.todo.length + m.chan.length ≤ m.cap)
    {t : PState J P} (h : Reach n mapCap proc (init mgrs) t) (hfin : t.finished = true) :
    t.recv.Perm (mgrs.flatMap fun m => (m.todo ++ m.chan).map proc) := by
  have p := reach_conserves h
  rw [finished_outstanding (inv_reach h (inv_init mgrs hroom)) hfin] at p
  simpa [init, outstanding] using p

/-! #### the queue must hold every workload: what happens otherwise -/

theorem produce_many (pre rest ch : List J) (cap : Nat) (ms : List (Mgr J)) (cr : List (List J)) (run mc cl rv fin)
    (h : ch.length + pre.length ≤ cap) :
    Reach n mapCap proc (⟨⟨pre ++ rest, ch, cap⟩ :: ms, cr, run, mc, cl, rv, fin⟩ : PState J P)
      ⟨⟨rest, ch ++ pre, cap⟩ :: ms, cr, run, mc, cl, rv, fin⟩ := by
  induction pre generalizing ch with
  | nil => simpa using Reach.refl _
  | cons j pre ih =>
    simp only [List.length_cons] at h
    have st : Step n mapCap proc (⟨⟨(j :: pre) ++ rest, ch, cap⟩ :: ms, cr, run, mc, cl, rv, fin⟩ : PState J P)
        ⟨⟨pre ++ rest, ch ++ [j], cap⟩ :: ms, cr, run, mc, cl, rv, fin⟩ := Step.produce (by omega)
    have := ih (ch ++ [j]) (by simp; omega)
    simp only [List.append_assoc, List.singleton_append] at this
    exact Reach.head st this

/-- **undersized_queue_deadlocks** (the defect the `fix:` commit repairs, in the model): a manager whose
    workload channel has room for `cap` workloads but which has more than `cap` to hand over reaches —
    whatever the number of workers, since they are only started after all managers are created — a
    state that is not finished and in which NO step is enabled: the producer waits for a reader that
    will never be started. With the capacity `64·n` of the code before the fix this is every query over
    more than `64·32·n` day directories. -/
theorem undersized_queue_deadlocks (pre : List J) (j : J) (rest : List J) (ms : List (Mgr J)) :
    Reach n mapCap proc (init (⟨pre ++ j :: rest, [], pre.length⟩ :: ms) : PState J P)
        ⟨⟨j :: rest, pre, pre.length⟩ :: ms, [], none, [], false, [], false⟩ ∧
      ∀ t, ¬ Step n mapCap proc (⟨⟨j :: rest, pre, pre.length⟩ :: ms, [], none, [], false, [], false⟩ : PState J P) t := by
  constructor
  · have := produce_many (n := n) (mapCap := mapCap) (proc := proc) pre (j :: rest) [] pre.length ms [] none [] false [] false (by simp)
    simpa [init] using this
  · intro t h
    cases h with
    | produce hlt => omega

/-! #### the executable successor function and the seeded scheduler of `handle` stay inside the relation -/

theorem splits_sound {α : Type} : ∀ (l : List α) (a : List α) (x : α) (b : List α), (a, x, b) ∈ splits l → l = a ++ x :: b
  | [], _, _, _, h => by simp [splits] at h
  | y :: ys, a, x, b, h => by
    simp only [splits, List.mem_cons, List.mem_map] at h
    rcases h with h | ⟨⟨a', x', b'⟩, hm, he⟩
    · simp only [Prod.mk.injEq] at h
      obtain ⟨rfl, rfl, rfl⟩ := h
      rfl
    · simp only [Prod.mk.injEq] at he
      obtain ⟨rfl, rfl, rfl⟩ := he
      rw [splits_sound ys a' x' b' hm]
      rfl

theorem splits_complete {α : Type} : ∀ (a : List α) (x : α) (b : List α), (a, x, b) ∈ splits (a ++ x :: b)
  | [], x, b => by simp [splits]
  | y :: a, x, b => by
    simp only [List.cons_append, splits, List.mem_cons, List.mem_map]
    exact Or.inr ⟨(a, x, b), splits_complete a x b, rfl⟩

theorem allDone_iff (ws : List (WState J P)) : allDone ws = true ↔ ∀ w ∈ ws, w = WState.done := by
  induction ws with
  | nil => simp [allDone]
  | cons w ws ih =>
    cases w <;> simp [allDone, ih]

theorem next_sound {s t : PState J P} (h : t ∈ next n mapCap proc s) : Step n mapCap proc s t := by
  obtain ⟨cg, cr, run, mc, cl, rv, fin⟩ := s
  unfold next at h
  rcases List.mem_append.mp h with h | h
  · cases cg with
    | cons m ms =>
      obtain ⟨todo, ch, cap⟩ := m
      cases todo with
      | nil =>
        simp only [List.mem_singleton] at h
        subst h; exact Step.created
      | cons j js =>
        simp only at h
        split at h
        · rename_i hlt
          simp only [List.mem_singleton] at h
          subst h; exact Step.produce hlt
        · simp at h
    | nil =>
      cases run with
      | none =>
        simp only at h
        split at h
        · rename_i he
          have hcr : cr = [] := List.isEmpty_iff.mp he
          subst hcr
          cases cl with
          | true => simp at h
          | false =>
            simp only [Bool.false_eq_true, if_false, List.mem_singleton] at h
            subst h; exact Step.close
        · simp only [List.mem_map] at h
          obtain ⟨⟨a, ch, b⟩, hm, rfl⟩ := h
          have := splits_sound _ _ _ _ hm
          subst this
          exact Step.start
      | some qw =>
        obtain ⟨q, ws⟩ := qw
        simp only at h
        rcases List.mem_append.mp h with h1 | h1
        · clear h
          split at h1
          · rename_i hc
            simp only [Bool.and_eq_true, List.isEmpty_iff] at hc
            obtain ⟨rfl, hd⟩ := hc
            have h2 := List.mem_singleton.mp h1
            subst h2
            exact Step.join ((allDone_iff ws).mp hd)
          · simp at h1
        · clear h
          simp only [List.mem_flatMap] at h1
          obtain ⟨⟨a, w, b⟩, hm, ht⟩ := h1
          have := splits_sound _ _ _ _ hm
          subst this
          cases w with
          | idle =>
            cases q with
            | nil => simp only [List.mem_singleton] at ht; subst ht; exact Step.exit
            | cons j q => simp only [List.mem_singleton] at ht; subst ht; exact Step.take
          | busy j => simp only [List.mem_singleton] at ht; subst ht; exact Step.work
          | ready p =>
            simp only at ht
            split at ht
            · rename_i hlt
              simp only [List.mem_singleton] at ht; subst ht; exact Step.send hlt
            · simp at ht
          | done => simp at ht
  · cases mc with
    | nil =>
      cases fin with
      | true => simp at h
      | false =>
        simp only at h
        cases cl with
        | true => simp only [if_true, List.mem_singleton] at h; subst h; exact Step.finish
        | false => simp at h
    | cons p mc =>
      cases fin with
      | true => simp at h
      | false => simp only [List.mem_singleton] at h; subst h; exact Step.recv

theorem next_complete {s t : PState J P} (h : Step n mapCap proc s t) : t ∈ next n mapCap proc s := by
  cases h with
  | produce hlt => simp [next, hlt]
  | created => simp [next]
  | start =>
    rename_i a ch b mc cl rv fin
    simp only [next, List.mem_append]
    refine Or.inl ?_
    have hne : (a ++ ch :: b).isEmpty = false := by cases a <;> rfl
    simp only [hne, Bool.false_eq_true, if_false, List.mem_map]
    exact ⟨(a, ch, b), splits_complete a ch b, rfl⟩
  | take =>
    rename_i cr j q a b mc cl rv fin
    simp only [next, List.mem_append, List.mem_flatMap]
    exact Or.inl (Or.inr ⟨(a, WState.idle, b), splits_complete _ _ _, by simp⟩)
  | work =>
    rename_i cr j q a b mc cl rv fin
    simp only [next, List.mem_append, List.mem_flatMap]
    exact Or.inl (Or.inr ⟨(a, WState.busy j, b), splits_complete _ _ _, by simp⟩)
  | send hlt =>
    rename_i cr p q a b mc cl rv fin
    simp only [next, List.mem_append, List.mem_flatMap]
    exact Or.inl (Or.inr ⟨(a, WState.ready p, b), splits_complete _ _ _, by simp [hlt]⟩)
  | exit =>
    rename_i cr a b mc cl rv fin
    simp only [next, List.mem_append, List.mem_flatMap]
    exact Or.inl (Or.inr ⟨(a, WState.idle, b), splits_complete _ _ _, by simp⟩)
  | join hd =>
    simp only [next, List.mem_append]
    refine Or.inl (Or.inl ?_)
    simp [(allDone_iff _).mpr hd]
  | close => simp [next]
  | recv => simp [next]
  | finish => simp [next]

theorem getD_mem {α : Type} (l : List α) (i : Nat) (d : α) (hd : d ∈ l) : (l[i]?).getD d ∈ l := by
  cases h : l[i]? with
  | none => simpa using hd
  | some x => simpa using List.mem_of_getElem? h

/-- the scheduler of `handle` only takes steps of the protocol -/
theorem exec_reach : ∀ (fuel seed : Nat) (s : PState J P), Reach n mapCap proc s (exec n mapCap proc fuel seed s)
  | 0, _, s => Reach.refl s
  | fuel + 1, seed, s => by
    unfold exec
    split
    · exact Reach.refl s
    · rename_i t ts hnext
      have hm : ((t :: ts)[(lcg seed / 65536) % (ts.length + 1)]?).getD t ∈ next n mapCap proc s := by
        rw [hnext]; exact getD_mem _ _ _ List.mem_cons_self
      exact Reach.head (next_sound hm) (exec_reach fuel _ _)

/-- … and with enough fuel it ends in the finished state, whatever the seed -/
theorem exec_finished (hn : 1 ≤ n) (hc : 1 ≤ mapCap) : ∀ (fuel seed : Nat) (s : PState J P), mu n s ≤ fuel → Inv n s →
    (exec n mapCap proc fuel seed s).finished = true
  | 0, _, s, hmu, _ => by
    unfold exec
    cases hf : s.finished with
    | true => rfl
    | false => simp [mu, hf] at hmu
  | fuel + 1, seed, s, hmu, inv => by
    unfold exec
    split
    · rename_i hnext
      cases hf : s.finished with
      | true => rfl
      | false =>
        obtain ⟨t, st⟩ := deadlock_free (proc := proc) hn hc inv hf
        have := next_complete st
        rw [hnext] at this
        simp at this
    · rename_i t ts hnext
      have hm : ((t :: ts)[(lcg seed / 65536) % (ts.length + 1)]?).getD t ∈ next n mapCap proc s := by
        rw [hnext]; exact getD_mem _ _ _ List.mem_cons_self
      have st := next_sound hm
      have := step_measure st
      exact exec_finished hn hc fuel _ _ (by omega) (inv_step st inv)

end Proto

/-! ### what a workload contributes, and the sequential one-pass evaluation -/

/-- the contributions of one block inside the covered interval -/
def blockItems (q : Query) (tF tL : Int) (w : WriteOut) : List (Key × Ctr) :=
  if w.ts < tF || w.ts > tL then [] else flowItems q w

/-- the contributions of a list of directories, in walk order -/
def dirItems (q : Query) (tF tL : Int) (dirs : List DayDir) : List (Key × Ctr) :=
  dirs.flatMap fun d => d.blocks.flatMap (blockItems q tF tL)

theorem addAll_append (m : AMap) (a b : List (Key × Ctr)) : m.addAll (a ++ b) = (m.addAll a).addAll b := by
  simp [AMap.addAll, List.foldl_append]

theorem evalBlocks_fst (q : Query) (tF tL : Int) (ws : List WriteOut) (acc : AMap × Nat) :
    (ws.foldl (evalBlock q tF tL) acc).1 = acc.1.addAll (ws.flatMap (blockItems q tF tL)) := by
  induction ws generalizing acc with
  | nil => rfl
  | cons w ws ih =>
    simp only [List.foldl_cons, List.flatMap_cons, addAll_append]
    rw [ih]
    congr 1
    unfold evalBlock blockItems
    split <;> rfl

theorem evalDirs_fst (q : Query) (tF tL : Int) (ds : List DayDir) (acc : AMap × Nat) :
    (ds.foldl (evalDir q tF tL) acc).1 = acc.1.addAll (dirItems q tF tL ds) := by
  induction ds generalizing acc with
  | nil => rfl
  | cons d ds ih =>
    simp only [List.foldl_cons, dirItems, List.flatMap_cons, addAll_append]
    rw [ih, evalDir, evalBlocks_fst]
    rfl

theorem process_map (q : Query) (j : Job) : (process q j).map = AMap.addAll [] (dirItems q j.tFirst j.tLast j.dirs) :=
  evalDirs_fst q j.tFirst j.tLast j.dirs ([], 0)

/-- the sequential evaluation: per selected interface ONE pass over all its directories in walk order
    into one map (no workloads, no partial results, no merge); statistics as the manager counts them -/
def seqFinal (q : Query) (size : Nat) (hist : List WriteOut) : List Final :=
  (q.selected hist).map fun i =>
    let dirs := walkDirs q.first q.last i hist
    ⟨i, AMap.addAll [] (dirItems q (firstCovered q.first dirs) (lastCovered q.last dirs) dirs),
      (jobsOf q size hist i).foldl (fun s j => s.add (process q j).stats) Stats.zero⟩

/-- the answer of the sequential evaluation -/
def seqAnswer (q : Query) (size : Nat) (hist : List WriteOut) : String := renderFinal (seqFinal q size hist)

/-! ### the fan-in of ANY list of partial results, entry by entry -/

theorem foldl_aggStepD_eq (parts : List Part) (ds : List Den) :
    parts.foldl aggStepD ds = ds.map fun d => parts.foldl (fun d p => aggEntryD p d) d := by
  induction parts generalizing ds with
  | nil => simp
  | cons p parts ih =>
    simp only [List.foldl_cons]
    rw [ih]
    simp [aggStepD, List.map_map, Function.comp_def]

theorem foldl_aggEntryD (parts : List Part) (i : String) (st : Stats) (f : Key → Option Ctr) :
    parts.foldl (fun d p => aggEntryD p d) (i, st, f) =
      (i, parts.foldl (fun s p => if i = p.iface then s.add p.stats else s) st,
        parts.foldl (fun f p => if i = p.iface then p.map.foldl addF f else f) f) := by
  induction parts generalizing st f with
  | nil => rfl
  | cons p parts ih =>
    simp only [List.foldl_cons]
    by_cases h : i = p.iface
    · rw [aggEntryD_pos p (i, st, f) h, ih]; simp [h]
    · rw [aggEntryD_neg p (i, st, f) h, ih]; simp [h]

/-- the map part: folding the entries of the partial maps = folding the raw contributions of the jobs -/
theorem foldl_parts_map (q : Query) (i : String) (js : List Job) (f : Key → Option Ctr) :
    (js.map (process q)).foldl (fun f p => if i = p.iface then p.map.foldl addF f else f) f =
      (js.flatMap fun j => if i = j.iface then dirItems q j.tFirst j.tLast j.dirs else []).foldl addF f := by
  induction js generalizing f with
  | nil => rfl
  | cons j js ih =>
    simp only [List.map_cons, List.foldl_cons, List.flatMap_cons, List.foldl_append]
    rw [ih]
    congr 1
    have hi : (process q j).iface = j.iface := rfl
    rw [hi]
    split
    · rw [process_map, foldl_addF_addAll]; rfl
    · rfl

theorem foldl_parts_stats (q : Query) (i : String) (js : List Job) (st : Stats) :
    (js.map (process q)).foldl (fun s p => if i = p.iface then s.add p.stats else s) st =
      (js.filter fun j => i = j.iface).foldl (fun s j => s.add (process q j).stats) st := by
  induction js generalizing st with
  | nil => rfl
  | cons j js ih =>
    have hi : (process q j).iface = j.iface := rfl
    simp only [List.map_cons, List.foldl_cons, List.filter_cons, hi]
    by_cases h : i = j.iface
    · simp only [h, if_true, decide_true, List.foldl_cons]; rw [← h]; exact ih _
    · simp only [h, if_false, decide_false]; exact ih _

/-! ### the jobs of a query, interface by interface -/

theorem jobsOf_iface (q : Query) (size : Nat) (hist : List WriteOut) (i : String) : ∀ j ∈ jobsOf q size hist i, j.iface = i := by
  intro j hj
  simp only [jobsOf, List.mem_map] at hj
  obtain ⟨wl, _, rfl⟩ := hj
  rfl

theorem flatten_filter_nonempty {α : Type} (l : List (List α)) : (l.filter fun js => !js.isEmpty).flatten = l.flatten := by
  induction l with
  | nil => rfl
  | cons x l ih =>
    cases x with
    | nil => simpa using ih
    | cons a x => simp [ih]

theorem managers_flatten (q : Query) (size : Nat) (hist : List WriteOut) :
    (managers q size hist).flatten = (q.selected hist).flatMap (jobsOf q size hist) := by
  simp [managers, flatten_filter_nonempty, List.flatMap_def]

theorem flatMap_select {α β : Type} [DecidableEq α] (l : List α) (i : α) (g : α → List β) (G : α → List β)
    (hnd : l.Nodup) (hi : i ∈ l) (hG : ∀ x, G x = if x = i then g x else []) : l.flatMap G = g i := by
  induction l with
  | nil => cases hi
  | cons x l ih =>
    rw [List.nodup_cons] at hnd
    simp only [List.flatMap_cons]
    by_cases hx : x = i
    · subst hx
      have : l.flatMap G = [] := by
        rw [List.flatMap_eq_nil_iff]
        intro y hy
        rw [hG]
        have : ¬ y = x := fun e => hnd.1 (e ▸ hy)
        simp [this]
      rw [this, hG]; simp
    · have hi' : i ∈ l := by
        rcases List.mem_cons.mp hi with h | h
        · exact absurd h.symm hx
        · exact h
      rw [hG x]; simp [hx, ih hnd.2 hi']

theorem flatMap_congr' {α β : Type} {f g : α → List β} : ∀ (l : List α), (∀ x ∈ l, f x = g x) → l.flatMap f = l.flatMap g
  | [], _ => rfl
  | x :: l, h => by
    simp only [List.flatMap_cons]
    rw [h x List.mem_cons_self, flatMap_congr' l (fun y hy => h y (List.mem_cons_of_mem _ hy))]

theorem dirItems_flatten (q : Query) (tF tL : Int) (wls : List (List DayDir)) :
    wls.flatMap (dirItems q tF tL) = dirItems q tF tL wls.flatten := by
  induction wls with
  | nil => rfl
  | cons w wls ih => simp [dirItems, List.flatMap_append] at ih ⊢; rw [ih]

/-- the raw contributions of all jobs of interface `i` are those of its directory list (`jobs_cover`) -/
theorem jobs_items (q : Query) (size : Nat) (hist : List WriteOut) (i : String) :
    ((jobsOf q size hist i).flatMap fun j => dirItems q j.tFirst j.tLast j.dirs) =
      dirItems q (firstCovered q.first (walkDirs q.first q.last i hist)) (lastCovered q.last (walkDirs q.first q.last i hist))
        (walkDirs q.first q.last i hist) := by
  simp only [jobsOf, List.flatMap_map]
  rw [dirItems_flatten, jobs_cover]

theorem nodup_dedup : ∀ l : List String, (dedup l).Nodup ∧ ∀ x ∈ dedup l, x ∈ l
  | [] => ⟨List.nodup_nil, fun _ h => h⟩
  | x :: xs => by
    obtain ⟨ih1, ih2⟩ := nodup_dedup xs
    unfold dedup
    split
    · exact ⟨ih1, fun y hy => List.mem_cons_of_mem _ (ih2 y hy)⟩
    · rename_i hx
      refine ⟨?_, ?_⟩
      · rw [List.nodup_cons]
        refine ⟨fun hm => hx ?_, ih1⟩
        simpa using ih2 x hm
      · intro y hy
        rcases List.mem_cons.mp hy with rfl | hy
        · exact List.mem_cons_self
        · exact List.mem_cons_of_mem _ (ih2 y hy)

theorem nodup_selected (q : Query) (hist : List WriteOut) : (q.selected hist).Nodup := by
  have h : (ifacesOf hist).Nodup := by
    unfold ifacesOf
    rw [(List.mergeSort_perm _ _).nodup_iff]
    exact (nodup_dedup _).1
  unfold Query.selected
  split
  · exact h
  · exact h.sublist List.filter_sublist

/-- **den_all_parts**: aggregating the partial results of all jobs of the query in ANY order denotes
    the same final maps as the sequential one-pass evaluation. -/
theorem den_all_parts (q : Query) (size : Nat) (hist : List WriteOut) (lm : Bool) (arrivals : List Part)
    (h : arrivals.Perm ((managers q size hist).flatten.map (process q))) :
    (aggregate lm (q.selected hist) arrivals).map den = (seqFinal q size hist).map den := by
  have hp : (aggregate lm (q.selected hist) arrivals).map den =
      (aggregate lm (q.selected hist) ((managers q size hist).flatten.map (process q))).map den := by
    unfold aggregate
    rw [den_foldl_aggStep, den_foldl_aggStep]
    exact foldl_perm aggStepD_comm h _
  rw [hp]
  unfold aggregate
  rw [den_foldl_aggStep, foldl_aggStepD_eq]
  simp only [seqFinal, List.map_map]
  apply List.map_congr_left
  intro i hi
  simp only [Function.comp_def, den]
  rw [foldl_aggEntryD, foldl_parts_map, foldl_parts_stats, managers_flatten]
  have hnd := nodup_selected q hist
  have hmap : ((q.selected hist).flatMap (jobsOf q size hist)).flatMap
      (fun j => if i = j.iface then dirItems q j.tFirst j.tLast j.dirs else []) =
      (jobsOf q size hist i).flatMap fun j => dirItems q j.tFirst j.tLast j.dirs := by
    rw [List.flatMap_assoc]
    refine flatMap_select (q.selected hist) i (fun x => (jobsOf q size hist x).flatMap fun j => dirItems q j.tFirst j.tLast j.dirs)
      _ hnd hi ?_
    intro x
    by_cases hx : x = i
    · subst hx
      simp only [if_true]
      apply flatMap_congr'
      intro j hj
      simp [jobsOf_iface q size hist x j hj]
    · simp only [hx, if_false]
      rw [List.flatMap_eq_nil_iff]
      intro j hj
      have := jobsOf_iface q size hist x j hj
      have : ¬ i = j.iface := fun e => hx (this ▸ e.symm ▸ rfl)
      simp [this]
  have hst : ((q.selected hist).flatMap (jobsOf q size hist)).filter (fun j => i = j.iface) = jobsOf q size hist i := by
    rw [List.filter_flatMap]
    refine flatMap_select (q.selected hist) i (fun x => jobsOf q size hist x) _ hnd hi ?_
    intro x
    by_cases hx : x = i
    · subst hx
      simp only [if_true]
      rw [List.filter_eq_self]
      intro j hj
      simp [jobsOf_iface q size hist x j hj]
    · simp only [hx, if_false]
      rw [List.filter_eq_nil_iff]
      intro j hj
      have := jobsOf_iface q size hist x j hj
      have : ¬ i = j.iface := fun e => hx (this ▸ e.symm ▸ rfl)
      simp [this]
  rw [hmap, hst, jobs_items, find_addAll]

theorem fok_seqFinal (q : Query) (size : Nat) (hist : List WriteOut) : FOk (seqFinal q size hist) := by
  intro e he
  simp only [seqFinal, List.mem_map] at he
  obtain ⟨i, _, rfl⟩ := he
  exact nodup_addAll _ _ List.nodup_nil

/-- **rows_eq_sequential** (C11, "A query returns the same rows and totals whatever the number of worker
    goroutines, the low-memory setting and the goroutine schedule"): whatever order the partial
    results of the workloads arrive in, whatever the bulk size that cut the directories into
    workloads and in both memory modes, the rendered result (rows, totals, hits, statistics) is that
    of the sequential one-pass evaluation. -/
theorem rows_eq_sequential (q : Query) (size : Nat) (hist : List WriteOut) (lm : Bool) (arrivals : List Part)
    (h : arrivals.Perm ((managers q size hist).flatten.map (process q))) :
    renderFinal (aggregate lm (q.selected hist) arrivals) = seqAnswer q size hist :=
  renderFinal_congr _ _ (fok_aggregate _ _ _) (fok_seqFinal q size hist) (den_all_parts q size hist lm arrivals h)

/-- **partition_irrelevant**: the rows (and totals, hits) do not depend on the bulk size at all. -/
theorem partition_irrelevant (q : Query) (size size' : Nat) (hist : List WriteOut) :
    allRows (seqFinal q size hist) = allRows (seqFinal q size' hist) := by
  simp [allRows, seqFinal, List.flatMap_map]

/-! ### the whole query: protocol + fan-in -/

theorem mgrsOf_room (jobs : List (List Job)) : ∀ m ∈ mgrsOf jobs, m.todo.length + m.chan.length ≤ m.cap := by
  intro m hm
  simp only [mgrsOf, List.mem_map] at hm
  obtain ⟨js, _, rfl⟩ := hm
  simp

theorem mgrsOf_parts (q : Query) (jobs : List (List Job)) :
    ((mgrsOf jobs).flatMap fun m => (m.todo ++ m.chan).map (process q)) = jobs.flatten.map (process q) := by
  induction jobs with
  | nil => rfl
  | cons js jobs ih =>
    simp only [mgrsOf, List.map_cons, List.flatMap_cons, List.flatten_cons, List.map_append] at ih ⊢
    rw [ih]; simp

/-- **query_result** (C11, both sentences): for every number of workers `n ≥ 1`, every capacity ≥ 1 of the
    map channel, both memory modes and EVERY run of the protocol (every interleaving of producer,
    workers and aggregator, every assignment of workloads to workers, every order of the managers)
    that has reached the finished state, the result computed from what the aggregator consumed is the
    answer of the sequential evaluation. (That every run does reach the finished state: `terminates`,
    `run_measure`, `deadlock_free`.) -/
theorem query_result (q : Query) (size : Nat) (hist : List WriteOut) (n mapCap : Nat) (lm : Bool)
    (t : Proto.PState Job Part)
    (hr : Proto.Reach n mapCap (process q) (Proto.init (mgrsOf (managers q size hist))) t) (hfin : t.finished = true) :
    renderFinal (aggregate lm (q.selected hist) t.recv) = seqAnswer q size hist := by
  have p := Proto.result_of_any_run (mgrsOf (managers q size hist)) (mgrsOf_room _) hr hfin
  rw [mgrsOf_parts] at p
  exact rows_eq_sequential q size hist lm t.recv p

/-- **query_terminates** (C11, "Every query over a readable database terminates, however many day
    directories it covers and however few CPUs are available"): from the initial state of every query
    (any history, any number of directories) with `n ≥ 1` workers a finished state is reachable, no run
    has more than `mu` steps, and no reachable unfinished state is stuck. -/
theorem query_terminates (q : Query) (size : Nat) (hist : List WriteOut) (n mapCap : Nat) (hn : 1 ≤ n) (hc : 1 ≤ mapCap) :
    let s0 : Proto.PState Job Part := Proto.init (mgrsOf (managers q size hist))
    (∃ t, Proto.Reach n mapCap (process q) s0 t ∧ t.finished = true) ∧
    (∀ k t, Proto.Run n mapCap (process q) k s0 t → k ≤ Proto.mu n s0) ∧
    (∀ t, Proto.Reach n mapCap (process q) s0 t → t.finished = false → ∃ u, Proto.Step n mapCap (process q) t u) := by
  intro s0
  have inv0 : Proto.Inv n s0 := Proto.inv_init _ (mgrsOf_room _)
  refine ⟨Proto.terminates hn hc _ s0 (Nat.le_refl _) inv0, ?_, ?_⟩
  · intro k t hr
    have := Proto.run_measure hr
    omega
  · intro t hr hf
    exact Proto.deadlock_free hn hc (Proto.inv_reach hr inv0) hf

/-- **runQuery_eq** (the executable model satisfies the sequential spec): what `handle` computes for a
    configuration — the protocol machine run under the seeded scheduler, then the fan-in — is the
    sequential answer for every number of workers `n ≥ 1`, both memory modes and every seed. -/
theorem runQuery_eq (q : Query) (hist : List WriteOut) (n : Nat) (hn : 1 ≤ n) (lm : Bool) (seed : Nat) :
    runQuery q hist n lm seed = seqAnswer q Gen.WorkMgr.WorkBulkSize hist := by
  unfold runQuery arrivals
  have inv0 : Proto.Inv n (Proto.init (mgrsOf (managers q Gen.WorkMgr.WorkBulkSize hist)) : Proto.PState Job Part) :=
    Proto.inv_init _ (mgrsOf_room _)
  exact query_result q _ hist n mapChanCap lm _ (Proto.exec_reach _ _ _)
    (Proto.exec_finished hn (by decide) _ _ _ (Nat.le_succ _) inv0)

/-! ### non-vacuity: the hypotheses are satisfiable, the statements are not trivial, and they fail outside their hypotheses -/

section Examples
open Proto

/-- three directories with bulk size 2: one full workload and the flushed rest -/
example : createWorkerJobs 2 [⟨"eth0", 0, []⟩, ⟨"eth0", 86400, []⟩, ⟨"eth0", 172800, []⟩] =
    [[⟨"eth0", 0, []⟩, ⟨"eth0", 86400, []⟩], [⟨"eth0", 172800, []⟩]] := by decide

/-- 2100 directories are 66 workloads of the regenerated bulk size (the witness of the defect) -/
example : (2100 + Gen.WorkMgr.WorkBulkSize - 1) / Gen.WorkMgr.WorkBulkSize = 66 := by decide

def exKey (p : Nat) : Key := ⟨"eth0", none, none, none, none, some p⟩
def exP1 : Part := ⟨"eth0", [(exKey 6, ⟨1, 2, 3, 4⟩), (exKey 17, ⟨5, 5, 5, 5⟩)], ⟨1, 32, 32, 0⟩⟩
def exP2 : Part := ⟨"eth0", [(exKey 17, ⟨10, 20, 30, 40⟩), (exKey 6, ⟨1, 1, 1, 1⟩)], ⟨1, 3, 3, 0⟩⟩

/-- the fan-in really adds across partial results … -/
example : aggregate false ["eth0"] [exP1, exP2] =
    [⟨"eth0", [(exKey 6, ⟨2, 3, 4, 5⟩), (exKey 17, ⟨15, 25, 35, 45⟩)], ⟨2, 35, 35, 0⟩⟩] := by decide

/-- … and the final maps DO depend on the arrival order (insertion order of the keys): `fanin_perm` is
    about the rendered result, not a syntactic triviality -/
example : aggregate false ["eth0"] [exP1, exP2] ≠ aggregate false ["eth0"] [exP2, exP1] := by decide

example : renderFinal (aggregate false ["eth0"] [exP1, exP2]) = renderFinal (aggregate true ["eth0"] [exP2, exP1]) :=
  fanin_perm false true ["eth0"] (List.Perm.swap exP2 exP1 [])

/-- a merge that overwrote instead of adding would NOT be order-insensitive: commutativity is a
    property of the additive update the code performs, not of maps in general -/
def setF (f : Key → Option Ctr) (kc : Key × Ctr) : Key → Option Ctr := fun k' => if k' = kc.1 then some kc.2 else f k'

example : setF (setF (fun _ => none) (exKey 6, ⟨1, 1, 1, 1⟩)) (exKey 6, ⟨2, 2, 2, 2⟩) (exKey 6) ≠
    setF (setF (fun _ => none) (exKey 6, ⟨2, 2, 2, 2⟩)) (exKey 6, ⟨1, 1, 1, 1⟩) (exKey 6) := by decide

/-- the invariant holds initially for queues sized to their content (the code after the fix) -/
example : Inv 2 (init [⟨[1, 2, 3], [], 3⟩] : PState Nat Nat) := inv_init _ (by decide)

/-- a run of the protocol (2 workers, map channel of capacity 1) under the scheduler with seed 9
    finishes (after exactly `mu` = 22 steps, `maximal_run_finished`), and the aggregator has consumed the three partial results
    OUT OF ORDER: the hypotheses of `result_of_any_run` are met by runs that really permute -/
example : (exec 2 1 id 100 9 (init [⟨[1, 2, 3], [], 3⟩] : PState Nat Nat)).recv = [2, 3, 1] ∧
    (exec 2 1 id 100 9 (init [⟨[1, 2, 3], [], 3⟩] : PState Nat Nat)).finished = true ∧
    mu 2 (init [⟨[1, 2, 3], [], 3⟩] : PState Nat Nat) = 22 := by decide

/-- the code before the fix (queue capacity `64·n`, here `n = 1`) on the 66 workloads of 2100 day
    directories: a reachable state in which nothing can move — the replayed hang -/
example : ∃ stuck : PState Nat Nat,
    Reach 1 1024 id (init [⟨List.range 66, [], 64 * 1⟩]) stuck ∧ stuck.finished = false ∧ ∀ t, ¬ Step 1 1024 id stuck t := by
  have h := undersized_queue_deadlocks (n := 1) (mapCap := 1024) (proc := (id : Nat → Nat)) (List.range 64) 64 [65] []
  have e : List.range 66 = List.range 64 ++ 64 :: [65] := by decide
  have l : (List.range 64).length = 64 * 1 := by decide
  rw [l, ← e] at h
  exact ⟨_, h.1, rfl, h.2⟩

/-- `deadlock_free` needs at least one worker (`NewDBWorkManager` rejects `numProcessingUnits <= 0`
    "to avoid deadlock"): with none, a started manager with work left is stuck -/
example : ∀ t, ¬ Step 0 1 (id : Nat → Nat) ⟨[], [], some ([7], []), [], false, [], false⟩ t := by
  intro t h
  have hm := next_complete h
  have : next 0 1 (id : Nat → Nat) ⟨[], [], some ([7], []), [], false, [], false⟩ = [] := by decide
  rw [this] at hm
  cases hm

/-- `deadlock_free` needs a map channel that can hold an item: with capacity 0 a worker with a result
    and an aggregator with nothing to receive wait for each other (the model has no rendezvous) -/
example : ∀ t, ¬ Step 1 0 (id : Nat → Nat) ⟨[], [], some ([], [WState.ready 5]), [], false, [], false⟩ t := by
  intro t h
  have hm := next_complete h
  have : next 1 0 (id : Nat → Nat) ⟨[], [], some ([], [WState.ready 5]), [], false, [], false⟩ = [] := by decide
  rw [this] at hm
  cases hm

end Examples

/-! ### the sequential evaluation is the direct aggregation of the spec -/

theorem groupDays_blocks (i : String) : ∀ ws : List WriteOut, (groupDays i ws).flatMap (·.blocks) = ws
  | [] => rfl
  | w :: ws => by
    have ih := groupDays_blocks i ws
    unfold groupDays
    cases h : groupDays i ws with
    | nil => rw [h] at ih; simp at ih; simp [← ih]
    | cons d ds =>
      rw [h] at ih
      simp only [List.flatMap_cons] at ih
      simp only
      split <;> simp [List.flatMap_cons, ih]

theorem groupDays_day (i : String) : ∀ (ws : List WriteOut), ∀ d ∈ groupDays i ws, d.blocks ≠ [] ∧ ∀ w ∈ d.blocks, dayOf w.ts = d.day
  | [], d, hd => by simp [groupDays] at hd
  | w :: ws, d, hd => by
    have ih := groupDays_day i ws
    unfold groupDays at hd
    cases h : groupDays i ws with
    | nil =>
      rw [h] at hd
      simp only [List.mem_singleton] at hd
      subst hd
      simp
    | cons d0 ds =>
      rw [h] at hd ih
      simp only at hd
      split at hd
      · rename_i hday
        rcases List.mem_cons.mp hd with rfl | hd
        · have := ih d0 List.mem_cons_self
          refine ⟨by simp, ?_⟩
          intro w' hw'
          rcases List.mem_cons.mp hw' with rfl | hw'
          · exact hday.symm
          · exact this.2 w' hw'
        · exact ih d (List.mem_cons_of_mem _ hd)
      · rcases List.mem_cons.mp hd with rfl | hd
        · simp
        · exact ih d hd

theorem flatMap_filter_day (sel : Int → Bool) : ∀ (gs : List DayDir), (∀ d ∈ gs, ∀ w ∈ d.blocks, dayOf w.ts = d.day) →
    (gs.filter fun d => sel d.day).flatMap (·.blocks) = (gs.flatMap (·.blocks)).filter fun w => sel (dayOf w.ts)
  | [], _ => rfl
  | d :: gs, h => by
    have ih := flatMap_filter_day sel gs (fun d hd => h d (List.mem_cons_of_mem _ hd))
    have hd := h d List.mem_cons_self
    simp only [List.filter_cons, List.flatMap_cons, List.filter_append]
    rw [← ih]
    cases hs : sel d.day with
    | true =>
      simp only [if_true, List.flatMap_cons]
      congr 1
      symm
      rw [List.filter_eq_self]
      intro w hw
      rw [hd w hw, hs]
    | false =>
      simp only [Bool.false_eq_true, if_false]
      have : d.blocks.filter (fun w => sel (dayOf w.ts)) = [] := by
        rw [List.filter_eq_nil_iff]
        intro w hw
        rw [hd w hw, hs]; simp
      rw [this]; rfl

/-- the directory-level condition of `walkDB` -/
def selDay (first last day : Int) : Bool :=
  decide (first < day + Gen.WorkMgr.EpochDay) && decide (day < last + Gen.WorkMgr.DBWriteInterval)

theorem walk_blocks (first last : Int) (i : String) (hist : List WriteOut) :
    (walkDirs first last i hist).flatMap (·.blocks) =
      (hist.filter (·.iface == i)).filter fun w => selDay first last (dayOf w.ts) := by
  have h := flatMap_filter_day (selDay first last) (groupDays i (hist.filter (·.iface == i)))
    (fun d hd => (groupDays_day i _ d hd).2)
  rw [groupDays_blocks] at h
  exact h

theorem walk_nonempty (first last : Int) (i : String) (hist : List WriteOut) :
    ∀ d ∈ walkDirs first last i hist, d.blocks ≠ [] := by
  intro d hd
  exact (groupDays_day i _ d (List.mem_filter.mp hd).1).1

theorem firstCovered_eq (first : Int) (dirs : List DayDir) (hne : ∀ d ∈ dirs, d.blocks ≠ []) :
    firstCovered first dirs =
      match (dirs.flatMap (·.blocks)).head? with
      | some b => if first < b.ts then b.ts else first
      | none => first := by
  cases dirs with
  | nil => rfl
  | cons d ds =>
    cases hb : d.blocks with
    | nil => exact absurd hb (hne d List.mem_cons_self)
    | cons b bs => simp [firstCovered, hb]

theorem getLast_flatMap : ∀ (dirs : List DayDir), (∀ d ∈ dirs, d.blocks ≠ []) →
    (dirs.flatMap (·.blocks)).getLast? = dirs.getLast?.bind (·.blocks.getLast?)
  | [], _ => rfl
  | [d], _ => by simp
  | d :: d' :: ds, h => by
    have ih := getLast_flatMap (d' :: ds) (fun x hx => h x (List.mem_cons_of_mem _ hx))
    rw [List.getLast?_cons_cons, ← ih, List.flatMap_cons, List.getLast?_append]
    cases hl : (List.flatMap (·.blocks) (d' :: ds)).getLast? with
    | some b => rfl
    | none =>
      rw [List.getLast?_eq_none_iff] at hl
      simp only [List.flatMap_cons, List.append_eq_nil_iff] at hl
      exact absurd hl.1 (h d' (by simp))

theorem lastCovered_eq (last : Int) (dirs : List DayDir) (hne : ∀ d ∈ dirs, d.blocks ≠ []) :
    lastCovered last dirs =
      match (dirs.flatMap (·.blocks)).getLast? with
      | some b => if last > b.ts then b.ts else last
      | none => last := by
  rw [getLast_flatMap dirs hne]
  unfold lastCovered
  cases dirs.getLast? with
  | none => rfl
  | some d =>
    simp only [Option.bind_some]
    cases d.blocks.getLast? <;> rfl

theorem pairwise_getLast {α : Type} {R : α → α → Prop} : ∀ (l : List α) (b : α), l.Pairwise R → l.getLast? = some b →
    ∀ w ∈ l, w = b ∨ R w b
  | [], _, _, h, _, _ => by simp at h
  | [x], b, _, h, w, hw => by
    simp at h hw; subst h; subst hw; exact Or.inl rfl
  | x :: y :: l, b, hp, h, w, hw => by
    rw [List.getLast?_cons_cons] at h
    rw [List.pairwise_cons] at hp
    rcases List.mem_cons.mp hw with rfl | hw
    · have hb : b ∈ y :: l := List.mem_of_getLast? h
      exact Or.inr (hp.1 b hb)
    · exact pairwise_getLast (y :: l) b hp.2 h w hw

theorem dayOf_bounds (ts : Int) : dayOf ts ≤ ts ∧ ts < dayOf ts + 86400 := by
  unfold dayOf; omega

theorem blockItems_filter (q : Query) (tF tL : Int) (B : List WriteOut) :
    B.flatMap (blockItems q tF tL) = (B.filter fun w => decide (tF ≤ w.ts) && decide (w.ts ≤ tL)).flatMap (flowItems q) := by
  induction B with
  | nil => rfl
  | cons w B ih =>
    simp only [List.flatMap_cons, List.filter_cons, ih]
    unfold blockItems
    by_cases h1 : w.ts < tF
    · have : ¬ tF ≤ w.ts := by omega
      simp [h1, this]
    · by_cases h2 : w.ts > tL
      · have : ¬ w.ts ≤ tL := by omega
        simp [h2, this]
      · have h3 : tF ≤ w.ts := by omega
        have h4 : w.ts ≤ tL := by omega
        simp [h1, h2, h3, h4]

/-- per interface: the contributions the one-pass evaluation collects are those of the blocks of the
    interface whose time lies in `[first, last]`, in write order (write-outs of an interface in
    non-decreasing time order, as `DBWriter` enforces) -/
theorem iface_items (q : Query) (i : String) (hist : List WriteOut)
    (hs : (hist.filter (·.iface == i)).Pairwise fun a b => a.ts ≤ b.ts) :
    dirItems q (firstCovered q.first (walkDirs q.first q.last i hist)) (lastCovered q.last (walkDirs q.first q.last i hist))
        (walkDirs q.first q.last i hist) =
      ((hist.filter (·.iface == i)).filter (inRange q.first q.last)).flatMap (flowItems q) := by
  have hne := walk_nonempty q.first q.last i hist
  rw [firstCovered_eq _ _ hne, lastCovered_eq _ _ hne]
  unfold dirItems
  rw [← List.flatMap_assoc]
  rw [walk_blocks]
  generalize hws : hist.filter (·.iface == i) = ws at hs
  generalize hB : ws.filter (fun w => selDay q.first q.last (dayOf w.ts)) = B
  have hBs : B.Pairwise fun a b => a.ts ≤ b.ts := by rw [← hB]; exact hs.filter _
  generalize htF : (match B.head? with
      | some b => if q.first < b.ts then b.ts else q.first
      | none => q.first) = tF
  generalize htL : (match B.getLast? with
      | some b => if q.last > b.ts then b.ts else q.last
      | none => q.last) = tL
  -- bounds of the covered interval
  have hF1 : q.first ≤ tF := by
    rw [← htF]; split
    · split <;> omega
    · omega
  have hL1 : tL ≤ q.last := by
    rw [← htL]; split
    · split <;> omega
    · omega
  have hF2 : ∀ w ∈ B, q.first ≤ w.ts → tF ≤ w.ts := by
    intro w hw hfw
    rw [← htF]
    cases hB' : B with
    | nil => rw [hB'] at hw; cases hw
    | cons b rest =>
      simp only [List.head?_cons]
      have hb : b.ts ≤ w.ts := by
        rw [hB'] at hw hBs
        rcases List.mem_cons.mp hw with rfl | hw
        · omega
        · exact (List.pairwise_cons.mp hBs).1 w hw
      split <;> omega
  have hL2 : ∀ w ∈ B, w.ts ≤ q.last → w.ts ≤ tL := by
    intro w hw hwl
    rw [← htL]
    cases hl : B.getLast? with
    | none =>
      rw [List.getLast?_eq_none_iff] at hl
      rw [hl] at hw; cases hw
    | some b =>
      simp only
      have hb : w.ts ≤ b.ts := by
        rcases pairwise_getLast B b hBs hl w hw with rfl | h
        · omega
        · exact h
      split <;> omega
  -- block by block
  have e1 := blockItems_filter q tF tL B
  rw [e1, ← hB, List.filter_filter]
  congr 1
  apply List.filter_congr
  intro w hw
  have hd := dayOf_bounds w.ts
  by_cases hr : inRange q.first q.last w = true
  · have hr' := hr
    simp only [inRange, Bool.and_eq_true, decide_eq_true_eq] at hr'
    have hsel : selDay q.first q.last (dayOf w.ts) = true := by
      simp only [selDay, Gen.WorkMgr.EpochDay, Gen.WorkMgr.DBWriteInterval, Bool.and_eq_true]
      refine ⟨decide_eq_true ?_, decide_eq_true ?_⟩ <;> omega
    have hwB : w ∈ B := by rw [← hB]; exact List.mem_filter.mpr ⟨hw, hsel⟩
    have := hF2 w hwB hr'.1
    have := hL2 w hwB hr'.2
    simp [*]
  · have hr' := hr
    simp only [inRange, Bool.and_eq_true, decide_eq_true_eq, not_and] at hr'
    have : ¬ (tF ≤ w.ts ∧ w.ts ≤ tL) := by
      intro ⟨h1, h2⟩
      exact absurd (show w.ts ≤ q.last by omega) (hr' (by omega))
    have hr2 : inRange q.first q.last w = false := by simpa using hr
    have hcov : (decide (tF ≤ w.ts) && decide (w.ts ≤ tL)) = false := by
      rw [Bool.and_eq_false_iff]
      by_cases h1 : tF ≤ w.ts
      · exact Or.inr (decide_eq_false (fun h2 => this ⟨h1, h2⟩))
      · exact Or.inl (decide_eq_false h1)
    rw [hr2, hcov]
    simp

/-! #### from per-interface maps to the one map of the spec -/

theorem add_append_of_not_mem (m m' : AMap) (k : Key) (c : Ctr) (h : k ∉ m.keys) : (m ++ m').add k c = m ++ m'.add k c := by
  induction m with
  | nil => rfl
  | cons e m ih =>
    obtain ⟨k0, c0⟩ := e
    simp only [AMap.keys, List.map_cons, List.mem_cons, not_or] at h
    have h0 : ¬ k0 = k := fun e => h.1 e.symm
    simp only [List.cons_append, AMap.add, h0, if_false]
    rw [ih h.2]

theorem addAll_append_of_disjoint (m m' : AMap) (l : List (Key × Ctr)) (h : ∀ kc ∈ l, kc.1 ∉ m.keys) :
    (m ++ m').addAll l = m ++ m'.addAll l := by
  induction l generalizing m' with
  | nil => rfl
  | cons x l ih =>
    show AMap.addAll ((m ++ m').add x.1 x.2) l = m ++ AMap.addAll (m'.add x.1 x.2) l
    rw [add_append_of_not_mem m m' x.1 x.2 (h x List.mem_cons_self)]
    exact ih _ (fun kc hkc => h kc (List.mem_cons_of_mem _ hkc))

theorem keys_addAll_subset (m : AMap) (l : List (Key × Ctr)) : ∀ k ∈ (m.addAll l).keys, k ∈ m.keys ∨ k ∈ l.map (·.1) := by
  induction l generalizing m with
  | nil => intro k hk; exact Or.inl hk
  | cons x l ih =>
    intro k hk
    have := ih (m.add x.1 x.2) k hk
    rcases this with h | h
    · rw [keys_add] at h
      split at h
      · exact Or.inl h
      · rcases List.mem_append.mp h with h | h
        · exact Or.inl h
        · simp at h; subst h; exact Or.inr (by simp)
    · exact Or.inr (by simp [h])

/-- contributions of different interfaces never share a key, so one map over all of them is the
    concatenation of the per-interface maps -/
theorem addAll_flatMap_ifaces (X : String → List (Key × Ctr)) (hX : ∀ i, ∀ kc ∈ X i, kc.1.iface = i) :
    ∀ (I : List String), I.Nodup → AMap.addAll [] (I.flatMap X) = I.flatMap fun i => AMap.addAll [] (X i)
  | [], _ => rfl
  | i :: I, hnd => by
    rw [List.nodup_cons] at hnd
    simp only [List.flatMap_cons, addAll_append]
    have h := addAll_append_of_disjoint (AMap.addAll [] (X i)) [] (I.flatMap X) (by
      intro kc hkc hk
      obtain ⟨i', hi', hkc'⟩ := List.mem_flatMap.mp hkc
      have e1 := hX i' kc hkc'
      rcases keys_addAll_subset [] (X i) kc.1 hk with h | h
      · simp [AMap.keys] at h
      · obtain ⟨kc2, hkc2, e⟩ := List.mem_map.mp h
        have e2 := hX i kc2 hkc2
        rw [e, e1] at e2
        exact hnd.1 (e2 ▸ hi'))
    simp only [List.append_nil] at h
    rw [h, addAll_flatMap_ifaces X hX I hnd.2]

theorem flowItems_iface (q : Query) (w : WriteOut) : ∀ kc ∈ flowItems q w, kc.1.iface = w.iface := by
  intro kc h
  simp only [flowItems, List.mem_map] at h
  obtain ⟨f, _, rfl⟩ := h
  rfl

theorem perm_select_cons {α β : Type} [DecidableEq α] (g : α → List β) (i0 : α) (b : β) :
    ∀ (I : List α), I.Nodup → i0 ∈ I → (I.flatMap fun i => if i = i0 then b :: g i else g i).Perm (b :: I.flatMap g)
  | [], _, h => by cases h
  | i :: I, hnd, hi => by
    rw [List.nodup_cons] at hnd
    simp only [List.flatMap_cons]
    by_cases h : i = i0
    · subst h
      simp only [if_true, List.cons_append]
      refine List.Perm.cons _ (List.Perm.append_left _ ?_)
      rw [flatMap_congr' I (f := fun j => if j = i then b :: g j else g j) (g := g)]
      intro j hj
      have : ¬ j = i := fun e => hnd.1 (e ▸ hj)
      simp [this]
    · have hi' : i0 ∈ I := by
        rcases List.mem_cons.mp hi with e | e
        · exact absurd e.symm h
        · exact e
      simp only [h, if_false]
      exact (List.Perm.append_left _ (perm_select_cons g i0 b I hnd.2 hi')).trans List.perm_middle

/-- the blocks of the selected interfaces, grouped by interface, are a permutation of them in write order -/
theorem perm_by_iface (p : WriteOut → Bool) (I : List String) (hnd : I.Nodup) : ∀ (hist : List WriteOut),
    (I.flatMap fun i => (hist.filter (·.iface == i)).filter p).Perm (hist.filter fun w => I.contains w.iface && p w)
  | [] => by simp
  | w :: hist => by
    have ih := perm_by_iface p I hnd hist
    by_cases hc : (I.contains w.iface && p w) = true
    · simp only [Bool.and_eq_true] at hc
      have hmem : w.iface ∈ I := List.contains_iff_mem.mp hc.1
      rw [List.filter_cons_of_pos (p := fun w => I.contains w.iface && p w) (by show (I.contains w.iface && p w) = true; rw [hc.1, hc.2]; rfl)]
      have e : (I.flatMap fun i => ((w :: hist).filter (·.iface == i)).filter p) =
          I.flatMap fun i => if i = w.iface then w :: (hist.filter (·.iface == i)).filter p else (hist.filter (·.iface == i)).filter p := by
        apply flatMap_congr'
        intro i _
        by_cases hi : i = w.iface
        · subst hi; simp [hc.2]
        · have : (w.iface == i) = false := by simp; exact fun e => hi e.symm
          simp [this, hi]
      rw [e]
      exact (perm_select_cons _ _ _ I hnd hmem).trans (List.Perm.cons _ ih)
    · rw [List.filter_cons_of_neg (p := fun w => I.contains w.iface && p w) hc]
      have e : (I.flatMap fun i => ((w :: hist).filter (·.iface == i)).filter p) =
          I.flatMap fun i => (hist.filter (·.iface == i)).filter p := by
        apply flatMap_congr'
        intro i hi
        by_cases hwi : (w.iface == i) = true
        · have : w.iface = i := by simpa using hwi
          subst this
          have hpw : p w = false := by
            have hci : I.contains w.iface = true := List.contains_iff_mem.mpr hi
            cases hp : p w with
            | false => rfl
            | true => rw [hci, hp] at hc; exact absurd rfl hc
          simp [hpw]
        · simp only [Bool.not_eq_true] at hwi
          simp [hwi]
      rw [e]; exact ih

/-- write-outs of every interface in non-decreasing time order (what `DBWriter` accepts) -/
def WF (hist : List WriteOut) : Prop := ∀ i, (hist.filter (·.iface == i)).Pairwise fun a b => a.ts ≤ b.ts

/-- **seq_rows_eq_spec**: the rows of the sequential one-pass evaluation (hence, by
    `rows_eq_sequential`, of every parallel run) are the groups of the spec's direct aggregation. -/
theorem seq_rows_eq_spec (q : Query) (size : Nat) (hist : List WriteOut) (wf : WF hist) :
    (allRows (seqFinal q size hist)).Perm (AMap.addAll [] (items q hist)) := by
  let X : String → List (Key × Ctr) := fun i =>
    ((hist.filter (·.iface == i)).filter (inRange q.first q.last)).flatMap (flowItems q)
  have hrows : allRows (seqFinal q size hist) = (q.selected hist).flatMap fun i => AMap.addAll [] (X i) := by
    simp only [allRows, seqFinal, List.flatMap_map]
    apply flatMap_congr'
    intro i _
    simp only [X]
    rw [iface_items q i hist (wf i)]
  have hX : ∀ i, ∀ kc ∈ X i, kc.1.iface = i := by
    intro i kc h
    obtain ⟨w, hw, hkc⟩ := List.mem_flatMap.mp h
    have hwi := (List.mem_filter.mp (List.mem_filter.mp hw).1).2
    rw [flowItems_iface q w kc hkc]
    simpa using hwi
  rw [hrows, ← addAll_flatMap_ifaces X hX _ (nodup_selected q hist)]
  refine perm_of_find_eq _ _ (nodup_addAll _ _ List.nodup_nil) (nodup_addAll _ _ List.nodup_nil) ?_
  rw [find_addAll, find_addAll]
  refine foldl_perm addF_comm ?_ _
  simp only [X]
  rw [← List.flatMap_assoc]
  unfold items
  exact List.Perm.flatMap_right _ (perm_by_iface (inRange q.first q.last) _ (nodup_selected q hist) hist)

/-- **model_eq_spec** (the model satisfies the spec on the property's domain): for a well-formed
    history, a valid time range and at least one existing interface, what the executable model
    computes for ANY configuration (`n ≥ 1` workers, memory mode, scheduler seed) is the spec's answer
    followed by the statistics field. -/
theorem model_eq_spec (q : Query) (hist : List WriteOut) (wf : WF hist) (hr : ¬ q.first > q.last)
    (hi : (q.selected hist).isEmpty = false) (n : Nat) (hn : 1 ≤ n) (lm : Bool) (seed : Nat) :
    ∃ st, runQuery q hist n lm seed = answer q hist ++ "|stats=" ++ st := by
  rw [runQuery_eq q hist n hn lm seed]
  have p := seq_rows_eq_spec q Gen.WorkMgr.WorkBulkSize hist wf
  unfold seqAnswer renderFinal answer
  simp only [hr, if_false, hi, Bool.false_eq_true]
  exact ⟨statsStr (sumStats (seqFinal q Gen.WorkMgr.WorkBulkSize hist)), by rw [renderResult_perm p]⟩


def exW (ts : Int) (br : Nat) : WriteOut := ⟨"eth0", ts, 0, [⟨"0a000001", "c0a80101", 80, 6, br, 0, 1, 0⟩]⟩
def exQ : Query := ⟨⟨true, true, true, true, true⟩, .none, 1699920100, 2500000000, none⟩

/-- a history `DBWriter` produces (ascending block times) is well-formed … -/
example : WF [exW 1699920300 10, exW 1699920600 20] := by
  intro i
  by_cases h : i = "eth0"
  · subst h; decide
  · have : ("eth0" == i) = false := by simp; exact fun e => h e.symm
    simp [exW, List.filter, this]

/-- … and outside well-formedness the equality with the spec fails: with the later block written
    first, `tFirstCovered` becomes that block's time, `tLastCovered` the time of the earlier one, and both in-range blocks are skipped -/
example :
    let hist := [exW 1699920600 20, exW 1699920300 10]
    let dirs := walkDirs exQ.first exQ.last "eth0" hist
    (dirItems exQ (firstCovered exQ.first dirs) (lastCovered exQ.last dirs) dirs).length = 0 ∧
    (((hist.filter (·.iface == "eth0")).filter (inRange exQ.first exQ.last)).flatMap (flowItems exQ)).length = 2 := by
  decide

end C11
