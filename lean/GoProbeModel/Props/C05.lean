import GoProbeModel.Model.C05
import GoProbeModel.Props.C04

/-!
C05 — property theorems: failed I/O during a write-out. A write-out whose `n`-th file operation
fails leaves exactly the state of a writer killed before that operation (`runFault_eq_crash`: the
error path only removes the temporary metadata file again), so the storage claims are C04's
theorems; what C05 adds is *which* failures are reported (`fault_reported`) and the recorded
exception (`error_after_commit`).
-/
namespace C05
open DB WO C04

theorem runWriteOut_ge (hist : List WriteOut) (fs : Fs) (k n m : Nat)
    (hn : (program hist fs k).length ≤ n) (hm : (program hist fs k).length ≤ m) :
    runWriteOut hist fs k n = runWriteOut hist fs k m := by
  unfold runWriteOut
  cases hk : hist[k]? with
  | none => rfl
  | some w => simp only [List.take_of_length_le hn, List.take_of_length_le hm]

/-- a failed operation leaves the database as a kill before that operation does -/
theorem runFault_eq_crash (hist : List WriteOut) (fs : Fs) (k n : Nat) :
    runFault hist fs k n = runWriteOut hist fs k n := by
  unfold runFault
  cases h : (program hist fs k)[n]? with
  | some _ => rfl
  | none =>
    have hn : (program hist fs k).length ≤ n := List.getElem?_eq_none_iff.1 h
    exact runWriteOut_ge hist fs k 1000 n (by have := program_length_le hist fs k; omega) hn

theorem runHistoryF_eq (hist : List WriteOut) (k n upto : Nat) :
    runHistoryF hist k n upto = runHistory hist (some (k, n)) upto := by
  unfold runHistoryF runHistory
  congr 1
  funext fs i
  by_cases h : i = k
  · simp [h, runFault_eq_crash]
  · simp [h]

def isReporting : Op → Bool
  | .unlink => false
  | _ => true

theorem all_rep_ite (c : Prop) [Decidable c] (op : Op) (h : isReporting op = true) :
    (if c then ([] : List Op) else [op]).all isReporting = true := by
  split <;> simp [h]

theorem preOps_all_reporting (hist : List WriteOut) (fs : Fs) (k : Nat) : (preOps hist fs k).all isReporting = true := by
  unfold preOps
  cases hk : hist[k]? with
  | none => simp
  | some w =>
    simp only [List.all_append, Bool.and_eq_true]
    refine ⟨⟨⟨⟨by simp [isReporting], ?_⟩, by simp [isReporting]⟩, ?_⟩, by simp [isReporting]⟩
    · cases fs.day? w.iface (dayOf w.ts) with
      | some _ => simp
      | none =>
        simp only [List.all_append, Bool.and_eq_true]
        exact ⟨⟨⟨all_rep_ite _ _ (by simp [isReporting]), all_rep_ite _ _ (by simp [isReporting])⟩,
          all_rep_ite _ _ (by simp [isReporting])⟩, by simp [isReporting]⟩
    · simp [List.all_flatMap, isReporting]

/-- **fault_reported** (C05): a failure of any operation up to and including the metadata rename
    makes the write report an error (only the final removal of the temporary file is ignored). -/
theorem fault_reported (hist : List WriteOut) (fs : Fs) (k : Nat) (w : WriteOut) (hk : hist[k]? = some w) (n : Nat) (op : Op)
    (hn : n < commitIndex hist fs k) (hop : (program hist fs k)[n]? = some op) : reportsError op = true := by
  rw [program_eq hist fs k w hk, List.append_assoc] at hop
  unfold commitIndex at hn
  have hmem : op ∈ preOps hist fs k ++ [Op.renamemeta] := by
    have hlt : n < (preOps hist fs k ++ [Op.renamemeta]).length := by simp; omega
    rw [← List.append_assoc, List.getElem?_append_left hlt] at hop
    exact List.mem_of_getElem? hop
  rcases List.mem_append.1 hmem with h | h
  · have := List.all_eq_true.1 (preOps_all_reporting hist fs k) op h
    cases op <;> simp_all [isReporting, reportsError]
  · simp at h; subst h; rfl

/-- **fault_atomic** (C05): if the failing operation comes before the commit point, then right after
    the failed write-out every day directory is well-formed and a query reads from it exactly the
    previously committed blocks — the failed write-out `k` is not among them. -/
theorem fault_atomic (hist : List WriteOut) (k n : Nat) (hk : k < hist.length)
    (hn : n < commitIndex hist (runHistoryF hist k n k) k) (iface : String) (day : Int) (d : DayFs)
    (hd : (runHistoryF hist k n (k + 1)).day? iface day = some d) :
    dayQueryIds hist d = expectedIds hist (some (k, n)) (k + 1) iface day ∧
    k ∉ expectedIds hist (some (k, n)) (k + 1) iface day := by
  rw [runHistoryF_eq] at hd hn
  refine ⟨crash_consistent_query_at hist k n hk iface day d hd, ?_⟩
  intro hmem
  simp only [expectedIds, List.mem_filter, Bool.and_eq_true, committedBy, bne_self_eq_false, Bool.false_or,
    decide_eq_true_eq] at hmem
  omega

/-- **fault_recovery** (C05): once the fault has cleared, every other write-out of the history —
    before and after the failed one — is stored and read back. -/
theorem fault_recovery (hist : List WriteOut) (k n : Nat) (iface : String) (day : Int) (d : DayFs)
    (hd : (runHistoryF hist k n hist.length).day? iface day = some d) :
    dayQueryIds hist d = expectedIds hist (some (k, n)) hist.length iface day ∧
    ∀ i, i < hist.length → i ≠ k → onDay hist i iface day = true → i ∈ dayQueryIds hist d := by
  rw [runHistoryF_eq] at hd
  have h := crash_consistent_query hist (some (k, n)) iface day d hd
  exact ⟨h, fun i hi hik hon => by rw [h]; exact crash_loses_at_most_victim hist k n iface day i hi hik hon⟩

/-- **error_after_commit** (the recorded finding): the one failure that is reported although the
    block is committed is that of the directory rename, which comes after the commit point. -/
theorem error_after_commit (hist : List WriteOut) (fs : Fs) (k : Nat) (w : WriteOut) (hk : hist[k]? = some w) (n : Nat)
    (hop : (program hist fs k)[n]? = some Op.renamedir) :
    commitIndex hist fs k ≤ n ∧ reportsError Op.renamedir = true := by
  refine ⟨?_, rfl⟩
  apply Classical.byContradiction
  intro hlt
  have hlt' : n < commitIndex hist fs k := by omega
  rw [program_eq hist fs k w hk, List.append_assoc] at hop
  unfold commitIndex at hlt'
  have hl : n < (preOps hist fs k ++ [Op.renamemeta]).length := by simp; omega
  rw [← List.append_assoc, List.getElem?_append_left hl] at hop
  have hmem := List.mem_of_getElem? hop
  rcases List.mem_append.1 hmem with h | h
  · exact (preOps_safe hist fs k _ h).2 rfl
  · simp at h

/-! non-vacuity: a write-out whose 3rd column write fails with the disk full -/
example : (program exHist (runHistoryF exHist 1 7 1) 1)[7]? = some (Op.writecol 2) ∧
    7 < commitIndex exHist (runHistoryF exHist 1 7 1) 1 ∧
    queryIds exHist (runHistoryF exHist 1 7 2) = [0] := by decide
/-- the recorded finding in the model: the directory rename (operation 22) fails — reported as an
    error, yet the query already returns both blocks -/
example : (program exHist (runHistoryF exHist 1 22 1) 1)[22]? = some Op.renamedir ∧
    queryIds exHist (runHistoryF exHist 1 22 2) = [0, 1] := by decide

end C05
