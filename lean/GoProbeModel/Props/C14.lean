import GoProbeModel.Model.C14

/-!
C14 — property theorems (result ordering and row limit).

The comparators are not hand models: `Gen.SortBy.By`, `Row_Less`, `Labels_Less`, `Attributes_Less`
are regenerated from pkg/results/{sort,result}.go on every run (time.Time / netip.Addr via
`Base/GoStd.lean`). Plan:
1. a small algebra of three-way comparators closed under lexicographic combination (`IsCmp`);
2. `by_spec`: every closure `By` returns IS the spec order `specLess` (chain of `cmp3`), and `By`
   panics exactly outside the spec table;
3. `less_strict_total`, `sorted_unique`, `output_order_independent`, `limit_prefix`, `run_eq_spec`;
4. examples: non-vacuity, the ORIGINAL `Labels.Less` (`!=` on time.Time) is not a strict weak
   order, and what is left open outside the domain.
`sort.Sort` is a parameter: the theorems only use its postcondition `Sorted` (assumed for Go's
implementation, proved for the model's insertion sort).
-/
namespace C14
open Gen.SortBy

/-! ## strict total orders on the component types -/

class STO (β : Type) [LT β] : Prop where
  irrefl : ∀ a : β, ¬ a < a
  trans : ∀ a b c : β, a < b → b < c → a < c
  tri : ∀ a b : β, ¬ a < b → ¬ b < a → a = b

instance : STO Nat := ⟨Nat.lt_irrefl, fun _ _ _ => Nat.lt_trans, fun a b h1 h2 => by omega⟩
instance : STO Int := ⟨Int.lt_irrefl, fun _ _ _ => Int.lt_trans, fun a b h1 h2 => by omega⟩
instance : STO String :=
  ⟨String.lt_irrefl, fun _ _ _ => String.lt_trans,
   fun _ _ h1 h2 => String.le_antisymm (String.not_lt.mp h2) (String.not_lt.mp h1)⟩

section cmp3
variable {β : Type} [LT β] [DecidableEq β] [DecidableRel (α := β) (· < ·)] [STO β]

theorem cmp3_lt (x y : β) : cmp3 x y = .lt ↔ x < y := by
  unfold cmp3; split
  · simp [*]
  · split <;> simp_all [STO.irrefl]

theorem cmp3_eq (x y : β) : cmp3 x y = .eq ↔ x = y := by
  unfold cmp3; split
  · rename_i h; constructor
    · intro h'; cases h'
    · intro e; subst e; exact absurd h (STO.irrefl x)
  · split <;> simp [*]

theorem cmp3_gt (x y : β) : cmp3 x y = .gt ↔ y < x := by
  unfold cmp3; split
  · rename_i h; constructor
    · intro h'; cases h'
    · intro h2; exact absurd (STO.trans _ _ _ h h2) (STO.irrefl x)
  · split
    · rename_i h e; subst e; simp [STO.irrefl x]
    · rename_i h e; constructor
      · intro _; apply Classical.byContradiction; intro h2; exact e (STO.tri _ _ h h2)
      · intro _; rfl

theorem cmp3_swap (x y : β) : cmp3 y x = (cmp3 x y).swap := by
  cases h : cmp3 x y
  · rw [cmp3_lt] at h; simp [(cmp3_gt y x).mpr h]
  · rw [cmp3_eq] at h; simp [(cmp3_eq y x).mpr h.symm]
  · rw [cmp3_gt] at h; simp [(cmp3_lt y x).mpr h]

end cmp3

/-! ## comparators closed under lexicographic combination -/

structure IsCmp (c : Row → Row → Ordering) : Prop where
  swap : ∀ a b, c b a = (c a b).swap
  trans : ∀ a b d, c a b = .lt → c b d = .lt → c a d = .lt
  eqL : ∀ a b d, c a b = .eq → c a d = c b d

theorem IsCmp.refl {c} (h : IsCmp c) (a : Row) : c a a = .eq := by
  have := h.swap a a
  cases hc : c a a <;> simp [hc] at this ⊢

theorem IsCmp.eqR {c} (h : IsCmp c) (a b d : Row) (e : c b d = .eq) : c a b = c a d := by
  have e' : c d b = .eq := by rw [h.swap b d, e]; rfl
  have := h.eqL d b a e'
  rw [h.swap b a, h.swap d a, this]

theorem isCmp_on {β : Type} [LT β] [DecidableEq β] [DecidableRel (α := β) (· < ·)] [STO β]
    (f : Row → β) : IsCmp (on f) where
  swap a b := cmp3_swap (f a) (f b)
  trans a b d h1 h2 := by
    simp only [on, cmp3_lt] at *; exact STO.trans _ _ _ h1 h2
  eqL a b d h := by
    simp only [on, cmp3_eq] at h; simp only [on, h]

theorem lex_eq_eq (c1 c2 : Row → Row → Ordering) (a b : Row) :
    lex c1 c2 a b = .eq ↔ c1 a b = .eq ∧ c2 a b = .eq := by
  unfold lex; cases h : c1 a b <;> simp

theorem lex_eq_lt (c1 c2 : Row → Row → Ordering) (a b : Row) :
    lex c1 c2 a b = .lt ↔ c1 a b = .lt ∨ (c1 a b = .eq ∧ c2 a b = .lt) := by
  unfold lex; cases h : c1 a b <;> simp

theorem isCmp_lex {c1 c2} (h1 : IsCmp c1) (h2 : IsCmp c2) : IsCmp (lex c1 c2) where
  swap a b := by
    unfold lex; rw [h1.swap a b, h2.swap a b]; cases c1 a b <;> rfl
  trans a b d := by
    simp only [lex_eq_lt]
    rintro (x | ⟨x, x'⟩) (y | ⟨y, y'⟩)
    · exact .inl (h1.trans _ _ _ x y)
    · exact .inl (by rw [← h1.eqR a b d y]; exact x)
    · exact .inl (by rw [h1.eqL a b d x]; exact y)
    · exact .inr ⟨by rw [h1.eqL a b d x]; exact y, h2.trans _ _ _ x' y'⟩
  eqL a b d := by
    rw [lex_eq_eq]; rintro ⟨x, x'⟩
    unfold lex; rw [h1.eqL a b d x, h2.eqL a b d x']

theorem isCmp_tieCmp : IsCmp tieCmp := by
  unfold tieCmp
  repeat (first | exact isCmp_on _ | apply isCmp_lex)

theorem isCmp_cmpRow (p : Row → Int) : IsCmp (cmpRow p) := isCmp_lex (isCmp_on p) isCmp_tieCmp

/-! ## the regenerated comparators are the spec order -/

theorem toGen_ofGen (g : Gen.SortBy.Row) : toGen (ofGen g) = g := rfl
theorem ofGen_toGen (r : Row) : ofGen (toGen r) = r := rfl

section step
variable {β : Type} [LT β] [DecidableEq β] [DecidableRel (α := β) (· < ·)] [STO β]

/-- one link of the chain: equal components defer to the rest, otherwise `<` decides -/
theorem lex_on_lt (f : Row → β) (c : Row → Row → Ordering) (a b : Row) :
    (lex (on f) c a b == .lt) = if f a = f b then (c a b == .lt) else decide (f a < f b) := by
  unfold lex on
  cases h : cmp3 (f a) (f b)
  · have := (cmp3_lt _ _).mp h
    have hne : f a ≠ f b := fun e => STO.irrefl (f b) (e ▸ this)
    simp [hne, this]
  · have := (cmp3_eq _ _).mp h
    simp [this]
  · have := (cmp3_gt _ _).mp h
    have hne : f a ≠ f b := fun e => STO.irrefl (f b) (e ▸ this)
    have hnl : ¬ f a < f b := fun h' => STO.irrefl _ (STO.trans _ _ _ h' this)
    simp [hne, hnl]

theorem on_lt (f : Row → β) (a b : Row) : (on f a b == .lt) = decide (f a < f b) := by
  unfold on
  cases h : cmp3 (f a) (f b)
  · simp [(cmp3_lt _ _).mp h]
  · have := (cmp3_eq _ _).mp h; simp [this, STO.irrefl]
  · have := (cmp3_gt _ _).mp h
    have hnl : ¬ f a < f b := fun h' => STO.irrefl _ (STO.trans _ _ _ h' this)
    simp [hnl]
end step

theorem row_less_eq (a b : Row) : Row_Less (toGen a) (toGen b) = (tieCmp a b == .lt) := by
  simp only [tieCmp, lex_on_lt, on_lt]
  unfold Row_Less Attributes_Less Labels_Less GoStd.Addr.Less GoStd.Time.Equal GoStd.Time.Before toGen toGenAddr
  simp only [Attributes.mk.injEq, GoStd.Addr.mk.injEq, ne_eq, not_and, decide_eq_true_eq]
  by_cases h0 : a.sip.bitlen = b.sip.bitlen
  case neg => simp [*]
  by_cases h1 : a.sip.val = b.sip.val
  case neg => simp [*]
  by_cases h2 : a.sip.zone = b.sip.zone
  case neg => simp [*]
  by_cases h3 : a.dip.bitlen = b.dip.bitlen
  case neg => simp [*]
  by_cases h4 : a.dip.val = b.dip.val
  case neg => simp [*]
  by_cases h5 : a.dip.zone = b.dip.zone
  case neg => simp [*]
  by_cases h6 : a.proto = b.proto
  case neg => simp [*]
  by_cases h7 : a.dport = b.dport
  case neg => simp [*]
  by_cases h8 : a.inst = b.inst
  case neg => simp [*]
  by_cases h9 : a.host = b.host
  case neg => simp [*]
  simp [*]

theorem asc_shape (p : Row → Int) (a b : Row) :
    (if p a = p b then Row_Less (toGen a) (toGen b) else decide (p a < p b)) = specLess p true a b := by
  simp only [specLess, cmpRow, lex_on_lt, row_less_eq, if_true]

theorem desc_shape (p : Row → Int) (a b : Row) :
    (if p a = p b then Row_Less (toGen b) (toGen a) else decide (p a > p b)) = specLess p false a b := by
  simp only [specLess, cmpRow, lex_on_lt, row_less_eq, Bool.false_eq_true, if_false, gt_iff_lt]
  by_cases h : p a = p b <;> simp [h, eq_comm]

theorem asc_shape_nat (q : Row → Nat) (a b : Row) :
    (if q a = q b then Row_Less (toGen a) (toGen b) else decide (q a < q b)) = specLess (fun r => (q r : Int)) true a b := by
  rw [← asc_shape]; simp only [Int.ofNat_inj, Int.ofNat_lt]

theorem desc_shape_nat (q : Row → Nat) (a b : Row) :
    (if q a = q b then Row_Less (toGen b) (toGen a) else decide (q a > q b)) = specLess (fun r => (q r : Int)) false a b := by
  rw [← desc_shape]; simp only [Int.ofNat_inj, gt_iff_lt, Int.ofNat_lt]

/-- `By` (regenerated from sort.go) accepts exactly the selections of the spec table `keyOf`, and
    the closure it returns is the spec order `specLess`. -/
theorem by_spec (s d : Int) (asc : Bool) :
    match By s d asc, keyOf s d with
    | some f, some p => ∀ a b, f (toGen a) (toGen b) = specLess p asc a b
    | none, none => True
    | _, _ => False := by
  unfold By keyOf
  by_cases hs1 : s = 1
  · subst hs1
    simp only [if_true]
    by_cases hd : d = 4 ∨ d = 1
    · have hd' : d = 1 ∨ d = 4 := hd.symm
      simp only [hd, hd', if_true]
      cases asc <;> simp only [Bool.false_eq_true, if_true, if_false] <;> (intro a b; first | exact asc_shape_nat (fun r => r.ps + r.pr) a b | exact desc_shape_nat (fun r => r.ps + r.pr) a b)
    · have hd' : ¬ (d = 1 ∨ d = 4) := fun h => hd h.symm
      simp only [hd, hd', if_false]
      by_cases hd2 : d = 2
      · simp only [hd2, if_true]
        cases asc <;> simp only [Bool.false_eq_true, if_true, if_false] <;> (intro a b; first | exact asc_shape_nat (fun r => r.pr) a b | exact desc_shape_nat (fun r => r.pr) a b)
      · by_cases hd3 : d = 3
        · subst hd3
          simp only [show ¬ ((3:Int) = 2) by decide, if_true, if_false]
          cases asc <;> simp only [Bool.false_eq_true, if_true, if_false] <;> (intro a b; first | exact asc_shape_nat (fun r => r.ps) a b | exact desc_shape_nat (fun r => r.ps) a b)
        · simp only [hd2, hd3, if_false]
  by_cases hs2 : s = 2
  · subst hs2
    simp only [show ¬ ((2:Int) = 1) by decide, if_true, if_false]
    by_cases hd : d = 4 ∨ d = 1
    · have hd' : d = 1 ∨ d = 4 := hd.symm
      simp only [hd, hd', if_true]
      cases asc <;> simp only [Bool.false_eq_true, if_true, if_false] <;> (intro a b; first | exact asc_shape_nat (fun r => r.bs + r.br) a b | exact desc_shape_nat (fun r => r.bs + r.br) a b)
    · have hd' : ¬ (d = 1 ∨ d = 4) := fun h => hd h.symm
      simp only [hd, hd', if_false]
      by_cases hd2 : d = 2
      · simp only [hd2, if_true]
        cases asc <;> simp only [Bool.false_eq_true, if_true, if_false] <;> (intro a b; first | exact asc_shape_nat (fun r => r.br) a b | exact desc_shape_nat (fun r => r.br) a b)
      · by_cases hd3 : d = 3
        · subst hd3
          simp only [show ¬ ((3:Int) = 2) by decide, if_true, if_false]
          cases asc <;> simp only [Bool.false_eq_true, if_true, if_false] <;> (intro a b; first | exact asc_shape_nat (fun r => r.bs) a b | exact desc_shape_nat (fun r => r.bs) a b)
        · simp only [hd2, hd3, if_false]
  by_cases hs3 : s = 3
  · subst hs3
    simp only [show ¬ ((3:Int) = 1) by decide, show ¬ ((3:Int) = 2) by decide, if_true, if_false]
    cases asc <;> simp only [Bool.false_eq_true, if_true, if_false]
    · intro a b; rw [← desc_shape]; by_cases h : a.inst = b.inst <;> simp [GoStd.Time.Equal, GoStd.Time.After, toGen, h]
    · intro a b; rw [← asc_shape]; by_cases h : a.inst = b.inst <;> simp [GoStd.Time.Equal, GoStd.Time.Before, toGen, h] <;> rfl
  · simp only [hs1, hs2, hs3, if_false]

/-! ## order properties of the spec order -/

theorem specLess_irrefl (p : Row → Int) (asc : Bool) (a : Row) : specLess p asc a a = false := by
  unfold specLess; cases asc <;> simp [(isCmp_cmpRow p).refl a]

theorem specLess_trans (p : Row → Int) (asc : Bool) (a b c : Row)
    (h1 : specLess p asc a b = true) (h2 : specLess p asc b c = true) : specLess p asc a c = true := by
  unfold specLess at *
  cases asc <;> simp only [Bool.false_eq_true, if_true, if_false, beq_iff_eq] at *
  · exact (isCmp_cmpRow p).trans _ _ _ h2 h1
  · exact (isCmp_cmpRow p).trans _ _ _ h1 h2

theorem specLess_asymm (p : Row → Int) (asc : Bool) (a b : Row)
    (h1 : specLess p asc a b = true) : specLess p asc b a = false := by
  cases h : specLess p asc b a
  · rfl
  · have := specLess_trans p asc a b a h1 h
    rw [specLess_irrefl] at this; cases this

theorem cmpRow_eq_sameKey (p : Row → Int) (a b : Row) (h : cmpRow p a b = .eq) : sameKey a b := by
  simp only [cmpRow, tieCmp, lex_eq_eq, on, cmp3_eq] at h
  obtain ⟨_, h1, h2, h3, h4, h5, h6, h7, h8, h9, h10, h11⟩ := h
  have hs : a.sip = b.sip := by
    cases ha : a.sip; cases hb : b.sip; simp_all
  have hd : a.dip = b.dip := by
    cases ha : a.dip; cases hb : b.dip; simp_all
  exact ⟨h9, h10, h11, hs, hd, h8, h7⟩

/-- rows neither of which is less than the other agree in (instant, host, iface, attributes) -/
theorem specLess_total (p : Row → Int) (asc : Bool) (a b : Row)
    (h1 : specLess p asc a b = false) (h2 : specLess p asc b a = false) : sameKey a b := by
  have hc := isCmp_cmpRow p
  have key : cmpRow p a b = .eq := by
    have hsw := hc.swap a b
    unfold specLess at h1 h2
    cases asc <;> simp only [Bool.false_eq_true, if_true, if_false, beq_eq_false_iff_ne, ne_eq] at h1 h2 <;>
      cases h : cmpRow p a b <;> simp_all
  exact cmpRow_eq_sameKey p a b key

/-! ## sorting: generic facts about `insertBy` / `sortBy` -/

section sorting
variable {α : Type} (lt : α → α → Bool)

/-- what `sort.Sort` guarantees for its result: no later element is less than an earlier one -/
def Sorted (l : List α) : Prop := l.Pairwise (fun a b => lt b a = false)

theorem insertBy_perm (x : α) (l : List α) : (insertBy lt x l).Perm (x :: l) := by
  induction l with
  | nil => exact List.Perm.refl _
  | cons y ys ih =>
    unfold insertBy; split
    · exact List.Perm.refl _
    · exact (List.Perm.cons y ih).trans (List.Perm.swap x y ys)

theorem sortBy_perm (l : List α) : (sortBy lt l).Perm l := by
  induction l with
  | nil => exact List.Perm.refl _
  | cons x xs ih => exact (insertBy_perm lt x _).trans (List.Perm.cons x ih)

variable (hirr : ∀ a, lt a a = false) (htr : ∀ a b c, lt a b = true → lt b c = true → lt a c = true)
include hirr htr

theorem insertBy_sorted (x : α) (l : List α) (hs : Sorted lt l) : Sorted lt (insertBy lt x l) := by
  induction l with
  | nil => simp [insertBy, Sorted]
  | cons y ys ih =>
    unfold Sorted at hs ⊢
    rw [List.pairwise_cons] at hs
    unfold insertBy; split
    · rename_i hxy
      refine List.pairwise_cons.mpr ⟨?_, List.pairwise_cons.mpr hs⟩
      intro z hz
      rcases List.mem_cons.mp hz with rfl | hz
      · cases h : lt z x
        · rfl
        · have := htr _ _ _ hxy h; rw [hirr] at this; cases this
      · cases h : lt z x
        · rfl
        · have := htr _ _ _ h hxy; rw [hs.1 z hz] at this; cases this
    · rename_i hxy
      refine List.pairwise_cons.mpr ⟨?_, ih hs.2⟩
      intro z hz
      rcases List.mem_cons.mp ((insertBy_perm lt x ys).mem_iff.mp hz) with rfl | hz
      · simpa using hxy
      · exact hs.1 z hz

theorem sortBy_sorted (l : List α) : Sorted lt (sortBy lt l) := by
  induction l with
  | nil => simp [sortBy, Sorted]
  | cons x xs ih => exact insertBy_sorted lt hirr htr x _ ih

omit hirr htr in
/-- two sorted arrangements of the same multiset coincide when the order is total on it -/
theorem sorted_perm_unique (l1 l2 : List α) (hp : l1.Perm l2) (h1 : Sorted lt l1) (h2 : Sorted lt l2)
    (htot : ∀ a ∈ l1, ∀ b ∈ l1, lt a b = false → lt b a = false → a = b) : l1 = l2 := by
  induction l1 generalizing l2 with
  | nil => exact (List.Perm.nil_eq hp)
  | cons a t1 ih =>
    cases l2 with
    | nil => exact absurd hp.length_eq (by simp)
    | cons b t2 =>
      unfold Sorted at h1 h2
      rw [List.pairwise_cons] at h1 h2
      have hab : a = b := by
        have ha : a ∈ b :: t2 := hp.mem_iff.mp (List.mem_cons_self)
        have hb : b ∈ a :: t1 := hp.mem_iff.mpr (List.mem_cons_self)
        rcases List.mem_cons.mp ha with e | ha'
        · exact e
        · rcases List.mem_cons.mp hb with e | hb'
          · exact e.symm
          · exact htot a List.mem_cons_self b hb (h2.1 a ha') (h1.1 b hb')
      subst hab
      have hp' : t1.Perm t2 := List.Perm.cons_inv hp
      rw [ih t2 hp' h1.2 h2.2 (fun x hx y hy => htot x (List.mem_cons_of_mem _ hx) y (List.mem_cons_of_mem _ hy))]

omit hirr htr in
theorem insertBy_map {β : Type} (lt' : β → β → Bool) (g : α → β) (hg : ∀ a b, lt' (g a) (g b) = lt a b)
    (x : α) (l : List α) : insertBy lt' (g x) (l.map g) = (insertBy lt x l).map g := by
  induction l with
  | nil => rfl
  | cons y ys ih =>
    simp only [List.map_cons, insertBy, hg]
    split <;> simp [ih]

omit hirr htr in
theorem sortBy_map {β : Type} (lt' : β → β → Bool) (g : α → β) (hg : ∀ a b, lt' (g a) (g b) = lt a b)
    (l : List α) : sortBy lt' (l.map g) = (sortBy lt l).map g := by
  induction l with
  | nil => rfl
  | cons x xs ih =>
    show insertBy lt' (g x) (sortBy lt' (xs.map g)) = _
    rw [ih]; exact insertBy_map lt lt' g hg x _

omit hirr htr in
/-- in a sorted list no element after position `n` is less than one before it -/
theorem sorted_take_drop (l : List α) (hs : Sorted lt l) (n : Nat) :
    ∀ a ∈ l.take n, ∀ b ∈ l.drop n, lt b a = false := by
  unfold Sorted at hs
  rw [← List.take_append_drop n l, List.pairwise_append] at hs
  exact hs.2.2

end sorting

/-! ## the property theorems, over the regenerated `By` -/

/-- the comparators cannot tell `x` and `y` apart only if they agree in instant, host name,
    interface and attributes -/
def SameKeyG (x y : Gen.SortBy.Row) : Prop :=
  x.Labels.Timestamp.instant = y.Labels.Timestamp.instant ∧ x.Labels.Hostname = y.Labels.Hostname ∧
  x.Labels.Iface = y.Labels.Iface ∧ x.Attributes = y.Attributes

theorem sameKey_ofGen (x y : Gen.SortBy.Row) : sameKey (ofGen x) (ofGen y) → SameKeyG x y := by
  rintro ⟨h1, h2, h3, h4, h5, h6, h7⟩
  refine ⟨h1, h2, h3, ?_⟩
  cases x with | mk xl xa xc => cases y with | mk yl ya yc =>
  cases xa with | mk xs xd xp xo => cases ya with | mk ys yd yp yo =>
  cases xs; cases ys; cases xd; cases yd
  simp_all [ofGen, ofGenAddr]

/-- every closure `By` returns is the spec order for the key the spec table selects -/
theorem by_some {s d : Int} {asc : Bool} {f : Gen.SortBy.Row → Gen.SortBy.Row → Bool}
    (h : By s d asc = some f) :
    ∃ p, keyOf s d = some p ∧ ∀ x y, f x y = specLess p asc (ofGen x) (ofGen y) := by
  have hb := by_spec s d asc
  rw [h] at hb
  cases hk : keyOf s d with
  | none => rw [hk] at hb; exact hb.elim
  | some p => rw [hk] at hb; exact ⟨p, rfl, fun x y => hb (ofGen x) (ofGen y)⟩

/-- **C14, "ties broken by a fixed order" / strict total order.** For every sort key × direction ×
    ascending flag that `By` accepts, the returned comparator is irreflexive, transitive,
    asymmetric, and total up to `SameKeyG`: two rows neither of which is less than the other agree
    in (instant, host name, interface, attributes). Hence on rows pairwise distinct in that key
    it is a strict total (trichotomous) order. -/
theorem less_strict_total {s d : Int} {asc : Bool} {f : Gen.SortBy.Row → Gen.SortBy.Row → Bool}
    (h : By s d asc = some f) :
    (∀ x, f x x = false) ∧
    (∀ x y z, f x y = true → f y z = true → f x z = true) ∧
    (∀ x y, f x y = true → f y x = false) ∧
    (∀ x y, f x y = false → f y x = false → SameKeyG x y) ∧
    (∀ x y, ¬ SameKeyG x y → (f x y = true ∨ f y x = true)) := by
  obtain ⟨p, _, hf⟩ := by_some h
  have tot : ∀ x y, f x y = false → f y x = false → SameKeyG x y := fun x y h1 h2 =>
    sameKey_ofGen x y (specLess_total p asc _ _ (hf x y ▸ h1) (hf y x ▸ h2))
  refine ⟨fun x => by rw [hf]; exact specLess_irrefl p asc _,
    fun x y z h1 h2 => by rw [hf] at *; exact specLess_trans p asc _ _ _ h1 h2,
    fun x y h1 => by rw [hf] at *; exact specLess_asymm p asc _ _ h1, tot, ?_⟩
  intro x y hne
  cases h1 : f x y
  · cases h2 : f y x
    · exact absurd (tot x y h1 h2) hne
    · exact .inr rfl
  · exact .inl rfl

/-- the domain of the property: rows the comparators cannot tell apart are identical
    (e.g. rows pairwise distinct in (instant, host name, interface, attributes)) -/
def InDomain (l : List Gen.SortBy.Row) : Prop := ∀ x ∈ l, ∀ y ∈ l, SameKeyG x y → x = y

/-- **C14, "the same set of rows always comes out in the same sequence".** Any two arrangements of
    the same multiset of rows that both satisfy `sort.Sort`'s postcondition for the comparator are
    equal. (`sort.Sort` establishing that postcondition is assumed.) -/
theorem sorted_unique {s d : Int} {asc : Bool} {f : Gen.SortBy.Row → Gen.SortBy.Row → Bool}
    (h : By s d asc = some f) (l1 l2 : List Gen.SortBy.Row) (hp : l1.Perm l2)
    (h1 : Sorted f l1) (h2 : Sorted f l2) (hdom : InDomain l1) : l1 = l2 :=
  sorted_perm_unique f l1 l2 hp h1 h2
    (fun x hx y hy e1 e2 => hdom x hx y hy ((less_strict_total h).2.2.2.1 x y e1 e2))

/-- the model's sort meets `sort.Sort`'s contract: a sorted permutation of its input -/
theorem model_sort_correct {s d : Int} {asc : Bool} {f : Gen.SortBy.Row → Gen.SortBy.Row → Bool}
    (h : By s d asc = some f) (rows : List Gen.SortBy.Row) :
    (sortBy f rows).Perm rows ∧ Sorted f (sortBy f rows) :=
  ⟨sortBy_perm f rows, sortBy_sorted f (less_strict_total h).1 (less_strict_total h).2.1 rows⟩

theorem InDomain.perm {l1 l2 : List Gen.SortBy.Row} (hd : InDomain l1) (hp : l1.Perm l2) : InDomain l2 :=
  fun x hx y hy => hd x (hp.mem_iff.mpr hx) y (hp.mem_iff.mpr hy)

/-- **C14, "regardless of input order".** On the domain, the sorted-and-limited output of both
    limit sites does not depend on the order in which the rows arrive. -/
theorem output_order_independent (s d : Int) (asc : Bool) (n ub : Nat) (mode : String)
    (rows1 rows2 : List Gen.SortBy.Row) (hp : rows1.Perm rows2) (hdom : InDomain rows1) :
    run mode s d asc n ub rows1 = run mode s d asc n ub rows2 := by
  have hemp : rows1.isEmpty = rows2.isEmpty := by
    cases rows1 <;> cases rows2 <;> simp_all
  have hs : ∀ f, By s d asc = some f → sortBy f rows1 = sortBy f rows2 := fun f h =>
    sorted_unique h _ _ (((model_sort_correct h rows1).1.trans hp).trans (model_sort_correct h rows2).1.symm)
      (model_sort_correct h rows1).2 (model_sort_correct h rows2).2
      (hdom.perm (model_sort_correct h rows1).1.symm)
  unfold run runL runD
  rw [hemp]
  cases h : By s d asc with
  | none => rfl
  | some f => simp only [hs f h]

theorem limitL_eq_take {α : Type} (n : Nat) (hn : 0 < n) (l : List α) : limitL n l = l.take n := by
  unfold limitL; split
  · rfl
  · rename_i h
    have : l.length ≤ n := by omega
    exact (List.take_of_length_le this).symm

theorem limitD_eq_take {α : Type} (n ub : Nat) (hn : 0 < n) (l : List α) :
    limitD n ub l = l.take (min n ub) := by
  unfold limitD
  simp only [limitL_eq_take n hn, List.take_take, List.length_take]
  split
  · congr 1; omega
  · rename_i h
    rw [List.take_eq_take_iff]
    omega

/-- **C14, "applying a row limit keeps exactly the first rows of that order".** With a limit
    `n ≥ 1` both limit sites return exactly the first `n` (resp. `min n ub`) rows of the sorted
    list; kept ++ dropped is the sorted list and no dropped row is less than a kept one. -/
theorem limit_prefix {s d : Int} {asc : Bool} {f : Gen.SortBy.Row → Gen.SortBy.Row → Bool}
    (h : By s d asc = some f) (n ub : Nat) (hn : 0 < n) (rows : List Gen.SortBy.Row) :
    runL s d asc n rows = some ((sortBy f rows).take n) ∧
    runD s d asc n ub rows = some ((sortBy f rows).take (min n ub)) ∧
    ∀ k, (sortBy f rows).take k ++ (sortBy f rows).drop k = sortBy f rows ∧
      ∀ a ∈ (sortBy f rows).take k, ∀ b ∈ (sortBy f rows).drop k, f b a = false := by
  refine ⟨?_, ?_, fun k => ⟨List.take_append_drop k _, sorted_take_drop f _ (model_sort_correct h rows).2 k⟩⟩
  · simp only [runL, h, limitL_eq_take n hn]
  · unfold runD
    cases rows with
    | nil => simp [sortBy]
    | cons x xs => simp only [List.isEmpty_cons, Bool.false_eq_true, if_false, h, limitD_eq_take n ub hn]

/-- **model = spec.** For every selection in the spec table, the model (regenerated comparator,
    insertion sort, the code's limit) computes exactly the executable spec `specRun`. -/
theorem run_eq_spec (s d : Int) (asc : Bool) (p : Row → Int) (hk : keyOf s d = some p)
    (n : Nat) (hn : 0 < n) (rows : List Row) :
    runL s d asc n (rows.map toGen) = some ((specRun p asc n rows).map toGen) := by
  have hb := by_spec s d asc
  rw [hk] at hb
  cases h : By s d asc with
  | none => rw [h] at hb; exact hb.elim
  | some f =>
    rw [h] at hb
    simp only [runL, h, limitL_eq_take n hn, specRun, sortBy_map (specLess p asc) f toGen hb, List.map_take]

/-- `By` panics exactly on the selections outside the spec table -/
theorem by_none_iff (s d : Int) (asc : Bool) : By s d asc = none ↔ keyOf s d = none := by
  have hb := by_spec s d asc
  cases h : By s d asc <;> cases hk : keyOf s d <;> simp_all

/-! ## non-vacuity, and what fails outside the hypotheses -/

/-- a row at instant `t` carried in location `loc`, reported by host `h` (equal counters) -/
def exRow (t : Int) (loc : Nat) (h : String) (hid : String := "") : Gen.SortBy.Row :=
  { Labels := { Timestamp := { instant := t, loc := loc }, Iface := "eth0", Hostname := h, HostID := hid },
    Attributes := { SrcIP := { bitlen := 32, val := 167772161, zone := "" }, DstIP := default, IPProto := 6, DstPort := 443 },
    Counters := { BytesRcvd := 10, BytesSent := 10, PacketsRcvd := 1, PacketsSent := 1 } }

/-- non-vacuity: `By` accepts e.g. (bytes, in, descending) -/
example : ∃ f, By SortTraffic DirectionIn false = some f := ⟨_, rfl⟩

/-- non-vacuity of `sorted_unique` / `output_order_independent` on the witness multiset of the
    original defect (one instant carried in two locations, equal counters, three hosts):
    the rows are in the domain and every input order yields the same output -/
example : InDomain [exRow 1700000000 1 "a", exRow 1700000000 2 "b", exRow 1700000000 1 "c"] := by
  intro x hx y hy hk
  simp only [List.mem_cons, List.mem_nil_iff, or_false] at hx hy
  rcases hx with rfl | rfl | rfl <;> rcases hy with rfl | rfl | rfl <;>
    first | rfl | (exact absurd hk.2.1 (by decide))

example : run "L" 2 2 false 2 0 [exRow 1700000000 2 "b", exRow 1700000000 1 "c", exRow 1700000000 1 "a"]
    = some [exRow 1700000000 1 "c", exRow 1700000000 2 "b"] := by decide

example : run "D" 2 2 false 5 2 [exRow 1700000000 1 "c", exRow 1700000000 1 "a", exRow 1700000000 2 "b"]
    = some [exRow 1700000000 1 "c", exRow 1700000000 2 "b"] := by decide

/-- `Labels.Less` as written BEFORE the fix: `l.Timestamp != l2.Timestamp` compares the instant AND
    the location, then `Before` compares the instant only -/
def labelsLessOrig (l l2 : Labels) : Bool :=
  if l.Timestamp ≠ l2.Timestamp then GoStd.Time.Before l.Timestamp l2.Timestamp
  else if l.Hostname ≠ l2.Hostname then decide (l.Hostname < l2.Hostname)
  else decide (l.Iface < l2.Iface)

def rowLessOrig (r r2 : Gen.SortBy.Row) : Bool :=
  if r.Attributes = r2.Attributes then labelsLessOrig r.Labels r2.Labels
  else Attributes_Less r.Attributes r2.Attributes

/-- The ORIGINAL comparator shape is not total and its incomparability is not transitive (so it is
    not even a strict weak order, which `sort.Sort` needs): with one instant carried in two
    locations, `a`/`b` and `b`/`c` are incomparable although the host names differ, yet `a < c`;
    three different arrangements of {a, b, c} are all "sorted". -/
example :
    let a := exRow 1700000000 1 "a"; let b := exRow 1700000000 2 "b"; let c := exRow 1700000000 1 "c"
    ¬ SameKeyG a b ∧ rowLessOrig a b = false ∧ rowLessOrig b a = false ∧
    rowLessOrig b c = false ∧ rowLessOrig c b = false ∧ rowLessOrig a c = true ∧
    Sorted rowLessOrig [a, b, c] ∧ Sorted rowLessOrig [b, a, c] ∧ Sorted rowLessOrig [a, c, b] := by
  refine ⟨fun h => absurd h.2.1 (by decide), by decide, by decide, by decide, by decide, by decide, ?_, ?_, ?_⟩ <;>
    simp only [Sorted, List.pairwise_cons, List.mem_cons, List.mem_nil_iff, or_false, forall_eq_or_imp, forall_eq,
      List.Pairwise.nil, and_true, false_imp_iff, implies_true] <;> decide

/-- outside `InDomain` (two different rows — here: different host ids — that agree in instant,
    host name, interface and attributes) even the fixed comparator leaves the order open: both
    arrangements are sorted. The code documents this ("identical hostnames imply the same host"). -/
example : ∃ f, By SortTime 0 true = some f ∧
    let x := exRow 5 0 "h" "id1"; let y := exRow 5 0 "h" "id2"
    x ≠ y ∧ SameKeyG x y ∧ Sorted f [x, y] ∧ Sorted f [y, x] := by
  refine ⟨_, rfl, by decide, ⟨rfl, rfl, rfl, rfl⟩, ?_, ?_⟩ <;>
    simp only [Sorted, List.pairwise_cons, List.mem_cons, List.mem_nil_iff, or_false, forall_eq,
      List.Pairwise.nil, and_true, false_imp_iff, implies_true] <;> decide

/-- limit 0 is outside the property: `PostProcess` treats it as "no limit", `finalizeResult` as
    "no rows" (`Args` validation guarantees a limit ≥ 1) -/
example : limitL 0 [1, 2, 3] = [1, 2, 3] ∧ limitD 0 5 [1, 2, 3] = ([] : List Nat) := by decide

end C14
