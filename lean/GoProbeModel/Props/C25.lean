import GoProbeModel.Model.C25
import GoProbeModel.Props.C24

/-!
# C25 — an interrupted merge never duplicates or hides data

Model: `Model/C25.lean` (the merge commit protocol of pkg/goDB/merge.go as a program of directory
operations, killed before its `c`-th operation; readers `getInterfaces`, `dayRead` / `dayListed` behind
queries and listings, `cellDay` / `dupIface` behind a later merge). All theorems hold for EVERY merge
(overwrite flag, tolerance, source database, unlink order `rm`), EVERY tidy destination (at most one
directory per interface and day, complete — in particular every database `initFs dst`, `initFs_tidy`)
and EVERY kill index `c`.

Property theorems

* `cell_states`                 invariant: each (interface, day) is untouched / backup only / backup next
                                to the merged day (the window) / merged;
* `merge_crash_atomic_partial`  outside the window every reader sees the day exactly as before or
                                exactly as after the merge (partial: the window is excluded);
* `after_is_documented`, `after_matches_spec`  "after" is the documented per-day result of C24;
* `window_exhibits_duplicate`, `window_read`, `window_listed`, `window_blocks_later_merge`
                                the recorded finding, exhibited in the model for every replaced day;
* `leftovers_invisible`         stage directories are never listed as interfaces (after the fix;
                                `unfixed_lists_stage`: before it they were);
* `second_merge_completes`, `second_merge_clean`  a later complete merge after any window-free crash is
                                accepted, yields the state of the uninterrupted merge (uses
                                `C24.specDay_idem`) and leaves no backup directory behind.

Reader level: `dayRead` / `dayListed` / `cellDay` are what the directories of one (interface, day) hold
for the query scan, the listing and a later merge. The model's `queryView` additionally reproduces the
engine's clipping to the time range spanned by the first and last directory visited — a no-op when
every day has one directory, but inside the window it can drop blocks of either directory (corpus
cases 7 and 8); it is validated against the real engine on every kill point, not used in the theorems.

Method: `cell_run` projects the execution of any operation list onto the directories of one
(interface, day) (`proj`, `applyCell`); `proj_program_tidy` shows that the projection of the whole
program is that day's own commit (`cellOps`) or empty; `cell_prefix` enumerates the states of one
commit under every prefix. Everything else is a helper lemma.
-/
set_option linter.unusedSimpArgs false

namespace C25
open DB

def touches (i : String) (t : Int) : Op → Bool
  | .renbackup i' t' => i' == i && t' == t
  | .renfinal i' t' _ => i' == i && t' == t
  | .unlink i' t' _ => i' == i && t' == t
  | .rmdir i' t' => i' == i && t' == t
  | _ => false

def applyCell (es : List Entry) : Op → List Entry
  | .renbackup _ _ => es.map fun e => { e with kind := .backup }
  | .renfinal i t bs => es ++ [{ iface := i, day := t, kind := .regular, blocks := bs, files := allFiles }]
  | .unlink _ _ f => es.map fun e => if e.kind == .backup then { e with files := e.files.erase f } else e
  | .rmdir _ _ => es.filter fun e => !(e.kind == .backup)
  | _ => es

theorem inCell_iff (i : String) (t : Int) (e : Entry) : inCell i t e = true ↔ e.iface = i ∧ e.day = t := by
  simp [inCell]

theorem filter_map_cell (i : String) (t : Int) (f : Entry → Entry) (l : List Entry)
    (hf : ∀ e, inCell i t (f e) = inCell i t e) :
    (l.map f).filter (inCell i t) = (l.filter (inCell i t)).map f := by
  induction l with
  | nil => rfl
  | cons x xs ih =>
    simp only [List.map_cons, List.filter_cons, hf x]
    split <;> simp [ih]

theorem cell_map_cond (i i' : String) (t t' : Int) (q : Entry → Bool) (g : Entry → Entry)
    (hg : ∀ e, (g e).iface = e.iface ∧ (g e).day = e.day) (l : List Entry) :
    (l.map fun e => if inCell i' t' e && q e then g e else e).filter (inCell i t) =
      if (i' == i && t' == t) then (l.filter (inCell i t)).map (fun e => if q e then g e else e)
      else l.filter (inCell i t) := by
  rw [filter_map_cell]
  · by_cases h : (i' == i && t' == t) = true
    · simp only [h, if_true]
      apply List.map_congr_left
      intro e he
      have := (List.mem_filter.mp he).2
      simp only [Bool.and_eq_true, beq_iff_eq] at h
      simp only [inCell_iff] at this
      simp [inCell, h.1, h.2, this.1, this.2]
    · simp only [h]
      conv => rhs; rw [← List.map_id (List.filter (inCell i t) l)]
      apply List.map_congr_left
      intro e he
      have := (List.mem_filter.mp he).2
      simp only [inCell_iff] at this
      simp only [Bool.and_eq_true, beq_iff_eq] at h
      have : inCell i' t' e = false := by
        simp only [inCell, this.1, this.2]
        cases h1 : (i == i') <;> cases h2 : (t == t') <;> simp_all
      simp [this]
  · intro e; split <;> simp [inCell, hg]

theorem cell_apply (fs : Fs) (op : Op) (i : String) (t : Int) :
    cellOf (apply fs op) i t = if touches i t op then applyCell (cellOf fs i t) op else cellOf fs i t := by
  cases op with
  | mkstage => simp [apply, cellOf, touches]
  | rmstage => simp [apply, cellOf, touches]
  | mkdir p => simp only [apply, touches]; split <;> simp [cellOf]
  | renbackup i' t' =>
    simp only [apply, cellOf, touches, applyCell]
    have := cell_map_cond i i' t t' (fun _ => true) (fun e => { e with kind := .backup }) (fun e => ⟨rfl, rfl⟩) fs.days
    simpa using this
  | renfinal i' t' bs =>
    simp only [apply, cellOf, touches, applyCell, List.filter_append]
    by_cases h : (i' == i && t' == t) = true
    · simp [h, inCell]
    · simp [h, inCell]
  | unlink i' t' f =>
    simp only [apply, cellOf, touches, applyCell]
    exact cell_map_cond i i' t t' (fun e => e.kind == .backup) (fun e => { e with files := e.files.erase f }) (fun e => ⟨rfl, rfl⟩) fs.days
  | rmdir i' t' =>
    simp only [apply, cellOf, touches, applyCell, List.filter_filter]
    by_cases h : (i' == i && t' == t) = true
    · simp only [h, if_true]
      apply List.filter_congr
      intro e _
      simp only [Bool.and_eq_true, beq_iff_eq] at h
      simp only [inCell, h.1, h.2]
      cases (e.iface == i) <;> cases (e.day == t) <;> simp
    · simp only [h]
      apply List.filter_congr
      intro e _
      simp only [Bool.and_eq_true, beq_iff_eq] at h
      by_cases hc : inCell i t e = true
      · have hc' := (inCell_iff i t e).mp hc
        have : inCell i' t' e = false := by
          simp only [inCell, hc'.1, hc'.2]
          cases h1 : (i == i') <;> cases h2 : (t == t') <;> simp_all
        simp [hc, this]
      · simp [hc]

def runCell (es : List Entry) (ops : List Op) : List Entry := ops.foldl applyCell es
def proj (i : String) (t : Int) (ops : List Op) : List Op := ops.filter (touches i t)

theorem cell_run (ops : List Op) (fs : Fs) (i : String) (t : Int) :
    cellOf (run fs ops) i t = runCell (cellOf fs i t) (proj i t ops) := by
  induction ops generalizing fs with
  | nil => rfl
  | cons op ops ih =>
    simp only [run, List.foldl_cons, proj, List.filter_cons] at ih ⊢
    rw [ih, cell_apply]
    split <;> simp [runCell]

/-! ## projection of the program onto one cell -/

def jobAt (i : String) (t : Int) (j : Job) : Bool := j.iface == i && j.day == t

theorem touches_cellOps (rm : List Char) (j : Job) (i : String) (t : Int) :
    ∀ op ∈ cellOps rm j, touches i t op = jobAt i t j := by
  intro op hop
  unfold cellOps at hop
  cases hj : j.existing with
  | none => simp [hj] at hop; subst hop; rfl
  | some e =>
    simp only [hj, List.mem_append, List.mem_cons, List.mem_map, List.not_mem_nil, or_false] at hop
    rcases hop with ((rfl | rfl) | ⟨f, _, rfl⟩) | rfl <;> rfl

theorem proj_cellOps (rm : List Char) (j : Job) (i : String) (t : Int) :
    proj i t (cellOps rm j) = if jobAt i t j then cellOps rm j else [] := by
  unfold proj
  cases h : jobAt i t j
  · simp only [Bool.false_eq_true, if_false, List.filter_eq_nil_iff]
    intro op hop; simp [touches_cellOps rm j i t op hop, h]
  · simp only [if_true, List.filter_eq_self]
    intro op hop; simp [touches_cellOps rm j i t op hop, h]

theorem proj_append (i : String) (t : Int) (a b : List Op) : proj i t (a ++ b) = proj i t a ++ proj i t b := by
  simp [proj]

theorem proj_mkdirs (i : String) (t : Int) (ps : List String) : proj i t (ps.map .mkdir) = [] := by
  simp [proj, touches]

theorem proj_progJobs (rm : List Char) (i : String) (t : Int) (js : List Job) (hv : List String) :
    proj i t (progJobs rm js hv) = (js.filter (jobAt i t)).flatMap (cellOps rm) := by
  induction js generalizing hv with
  | nil => rfl
  | cons j js ih =>
    simp only [progJobs, proj_append, proj_mkdirs, proj_cellOps, ih, List.nil_append, List.filter_cons]
    split <;> simp

theorem proj_program (ow : Bool) (tol : Int) (src : C24.Ifaces) (rm : List Char) (fs : Fs) (i : String) (t : Int) :
    proj i t (program ow tol src rm fs) = ((jobs ow tol src fs).filter (jobAt i t)).flatMap (cellOps rm) := by
  unfold program
  split
  · rename_i h
    have : selOf src = [] := by simpa using h
    simp [proj, jobs, goodIfaces, this]
  · simp only [proj_append, proj_progJobs]
    simp [proj, touches]

/-! ## the jobs of a merge that starts in a tidy state -/

/-- every (interface, day) has at most one directory, holding all its files -/
def Tidy (fs : Fs) : Prop := ∀ i t, (cellOf fs i t).length ≤ 1 ∧ ∀ e ∈ cellOf fs i t, e.files = allFiles

theorem flatMap_single {α β} [DecidableEq α] (l : List α) (hnd : l.Nodup) (g : α → List β) (a : α)
    (h : ∀ x ∈ l, x ≠ a → g x = []) : l.flatMap g = if a ∈ l then g a else [] := by
  induction l with
  | nil => rfl
  | cons x xs ih =>
    have hx : x ∉ xs := (List.nodup_cons.mp hnd).1
    have ih' := ih (List.nodup_cons.mp hnd).2 (fun y hy => h y (List.mem_cons_of_mem _ hy))
    simp only [List.flatMap_cons, ih']
    by_cases hxa : x = a
    · subst hxa; simp [hx]
    · have : g x = [] := h x (List.mem_cons_self) hxa
      simp [this, Ne.symm hxa]

theorem filter_filterMap_flat {α β} (l : List α) (g : α → Option β) (p : β → Bool) :
    (l.filterMap g).filter p = l.flatMap fun x => (g x).toList.filter p := by
  induction l with
  | nil => rfl
  | cons x xs ih =>
    simp only [List.filterMap_cons, List.flatMap_cons]
    cases hg : g x with
    | none => simp [ih]
    | some v => simp only [Option.toList_some, List.filter_cons, ih]; split <;> simp

theorem filter_flatMap_each {α β} (l : List α) (g : α → List β) (p : β → Bool) :
    (l.flatMap g).filter p = l.flatMap fun x => (g x).filter p := by
  induction l with
  | nil => rfl
  | cons x xs ih => simp [List.flatMap_cons, ih]

theorem nodupB_days (l : List Entry) (h : ∀ t, (l.filter (·.day == t)).length ≤ 1) :
    C24.nodupB (l.map (·.day)) = true := by
  induction l with
  | nil => rfl
  | cons x xs ih =>
    simp only [List.map_cons, C24.nodupB, Bool.and_eq_true, Bool.not_eq_true']
    constructor
    · cases hc : (xs.map (·.day)).contains x.day with
      | false => rfl
      | true =>
        exfalso
        simp only [List.contains_eq_mem, List.mem_map, decide_eq_true_eq] at hc
        obtain ⟨y, hy, hyd⟩ := hc
        have h1 := h x.day
        simp only [List.filter_cons, beq_self_eq_true, if_true, List.length_cons] at h1
        have : 0 < (xs.filter (·.day == x.day)).length :=
          List.length_pos_of_mem (List.mem_filter.mpr ⟨hy, by simp [hyd]⟩)
        omega
    · apply ih
      intro t
      have h1 := h t
      simp only [List.filter_cons] at h1
      split at h1 <;> (try simp only [List.length_cons] at h1) <;> omega

theorem cellOf_eq (fs : Fs) (i : String) (t : Int) :
    cellOf fs i t = (fs.days.filter (·.iface == i)).filter (·.day == t) := by
  simp only [cellOf, List.filter_filter]
  apply List.filter_congr
  intro e _
  simp [inCell, Bool.and_comm]

theorem dupIface_tidy (fs : Fs) (h : Tidy fs) (i : String) : dupIface fs i = false := by
  simp only [dupIface, Bool.not_eq_false']
  apply nodupB_days
  intro t
  rw [← cellOf_eq]
  exact (h i t).1

theorem takeWhile_all {α} (p : α → Bool) (l : List α) (h : ∀ x ∈ l, p x = true) : l.takeWhile p = l := by
  induction l with
  | nil => rfl
  | cons x xs ih =>
    simp [List.takeWhile_cons, h x (List.mem_cons_self), ih (fun y hy => h y (List.mem_cons_of_mem _ hy))]

theorem goodIfaces_tidy (src : C24.Ifaces) (fs : Fs) (h : Tidy fs) : goodIfaces src fs = selOf src := by
  apply takeWhile_all
  intro i _
  simp [dupIface_tidy fs h i]

/-- the job of (interface, day), if the merge plans one -/
def jobOpt (ow : Bool) (tol : Int) (src : C24.Ifaces) (fs : Fs) (i : String) (t : Int) : Option Job :=
  (C24.getDay src i t).bind fun s =>
    (C24.specDay ow tol t s (cellDay (cellOf fs i t))).newDay.map fun nb =>
      { iface := i, day := t, blocks := nb, existing := (cellOf fs i t).head? }

theorem getDay_none_of_not_mem (src : C24.Ifaces) (i : String) (t : Int) (h : i ∉ src.map (·.1)) :
    C24.getDay src i t = none := by
  have : src.find? (·.1 == i) = none := by
    simp only [List.find?_eq_none, beq_iff_eq]
    intro x hx hxi
    exact h (List.mem_map.mpr ⟨x, hx, hxi⟩)
  simp [C24.getDay, C24.ifaceDays, this, C24.lookupDay]

theorem jobs_filter (ow : Bool) (tol : Int) (src : C24.Ifaces) (fs : Fs) (h : Tidy fs) (i : String) (t : Int) :
    (jobs ow tol src fs).filter (jobAt i t) = (jobOpt ow tol src fs i t).toList := by
  unfold jobs
  rw [goodIfaces_tidy src fs h, filter_flatMap_each]
  rw [flatMap_single (selOf src) (C24.nodup_sortNames _) _ i]
  · by_cases hi : i ∈ selOf src
    · simp only [hi, if_true, jobsOfIface]
      rw [filter_filterMap_flat]
      have hnd : (C24.sortInts (C24.dayKeys (C24.ifaceDays src i))).Nodup :=
        C24.nodup_of_sorted C24.intStrict _ (C24.sorted_sortDedup C24.intStrict _)
      rw [flatMap_single _ hnd _ t]
      · by_cases ht : t ∈ C24.sortInts (C24.dayKeys (C24.ifaceDays src i))
        · simp only [ht, if_true, jobOpt, cellDay]
          cases C24.getDay src i t with
          | none => simp
          | some s =>
            simp only [Option.bind_some]
            cases (C24.specDay ow tol t s (Option.map (fun x => x.blocks) (cellOf fs i t).head?)).newDay with
            | none => simp
            | some nb => simp [jobAt]
        · simp only [ht, if_false]
          have : C24.getDay src i t = none := by
            have h1 : t ∉ C24.dayKeys (C24.ifaceDays src i) := fun hm => ht ((C24.mem_sortDedup _ _).mpr hm)
            rw [C24.mem_dayKeys] at h1
            simpa [C24.getDay] using h1
          simp [jobOpt, this]
      · intro t' _ hne
        cases C24.getDay src i t' with
        | none => simp
        | some s =>
          simp only [Option.bind_some]
          cases (C24.specDay ow tol t' s (Option.map (fun x => x.blocks) (cellOf fs i t').head?)).newDay with
          | none => simp
          | some nb => simp [jobAt, hne]
    · simp only [hi, if_false]
      have : C24.getDay src i t = none :=
        getDay_none_of_not_mem src i t (fun hm => hi ((C24.mem_sortDedup _ _).mpr hm))
      simp [jobOpt, this]
  · intro i' _ hne
    simp only [jobsOfIface]
    rw [filter_filterMap_flat]
    simp only [List.flatMap_eq_nil_iff]
    intro t' _
    cases C24.getDay src i' t' with
    | none => simp
    | some s =>
      simp only [Option.bind_some]
      cases (C24.specDay ow tol t' s (Option.map (fun x => x.blocks) (cellOf fs i' t').head?)).newDay with
      | none => simp
      | some nb => simp [jobAt, hne]

/-! ## one cell under a prefix of its commit -/

def backupOf (e : Entry) : Entry := { e with kind := .backup }
def finalEntry (j : Job) : Entry :=
  { iface := j.iface, day := j.day, kind := .regular, blocks := j.blocks, files := allFiles }

theorem runCell_append (es : List Entry) (a b : List Op) : runCell es (a ++ b) = runCell (runCell es a) b := by
  simp [runCell, List.foldl_append]

/-- removing files of the backup: only the backup's file list changes -/
theorem runCell_unlinks (i : String) (t : Int) (us : List Char) (eb r : Entry)
    (hb : eb.kind = .backup) (hr : r.kind = .regular) :
    runCell [eb, r] (us.map (Op.unlink i t)) = [{ eb with files := us.foldl (fun fs f => fs.erase f) eb.files }, r] := by
  induction us generalizing eb with
  | nil => rfl
  | cons u us ih =>
    simp only [List.map_cons, runCell, List.foldl_cons] at ih ⊢
    have : applyCell [eb, r] (Op.unlink i t u) = [{ eb with files := eb.files.erase u }, r] := by
      simp [applyCell, hb, hr]
    rw [this]
    exact ih { eb with files := eb.files.erase u } hb

/-- the cell states a commit passes through -/
inductive CellState (es0 : List Entry) (j : Job) (es : List Entry) : Prop
  | before (h : es = es0)
  | backupOnly (e : Entry) (h0 : es0 = [e]) (h : es = [backupOf e])
  | window (e : Entry) (fl : List Char) (h0 : es0 = [e]) (h : es = [{ backupOf e with files := fl }, finalEntry j])
  | after (h : es = [finalEntry j])

theorem runCell_full (rm : List Char) (j : Job) (es0 : List Entry) (hlen : es0.length ≤ 1)
    (hex : j.existing = es0.head?) : runCell es0 (cellOps rm j) = [finalEntry j] := by
  match es0, hlen, hex with
  | [], _, hex =>
    simp only [List.head?_nil] at hex
    simp [cellOps, hex, runCell, applyCell, finalEntry]
  | [e], _, hex =>
    simp only [List.head?_cons] at hex
    simp only [cellOps, hex, List.append_assoc, List.cons_append, List.nil_append, runCell_append]
    have h1 : runCell [e] [Op.renbackup j.iface j.day, Op.renfinal j.iface j.day j.blocks] = [backupOf e, finalEntry j] := by
      simp [runCell, applyCell, backupOf, finalEntry]
    rw [show (Op.renbackup j.iface j.day :: Op.renfinal j.iface j.day j.blocks :: ((order rm e.files).map (Op.unlink j.iface j.day) ++ [Op.rmdir j.iface j.day]))
          = [Op.renbackup j.iface j.day, Op.renfinal j.iface j.day j.blocks] ++ ((order rm e.files).map (Op.unlink j.iface j.day) ++ [Op.rmdir j.iface j.day]) from rfl]
    rw [runCell_append, h1, runCell_append, runCell_unlinks _ _ _ _ _ rfl rfl]
    simp [runCell, applyCell, backupOf, finalEntry]
  | _ :: _ :: _, hlen, _ => simp at hlen

theorem cell_prefix (rm : List Char) (j : Job) (es0 : List Entry) (hlen : es0.length ≤ 1)
    (hex : j.existing = es0.head?) (p : List Op) (hp : p <+: cellOps rm j) :
    CellState es0 j (runCell es0 p) := by
  match es0, hlen, hex with
  | [], _, hex =>
    simp only [List.head?_nil] at hex
    simp only [cellOps, hex] at hp
    rcases List.prefix_cons_iff.mp hp with rfl | ⟨q, rfl, hq⟩
    · exact .before rfl
    · have : q = [] := List.prefix_nil.mp hq
      subst this
      exact .after (by simp [runCell, applyCell, finalEntry])
  | [e], _, hex =>
    simp only [List.head?_cons] at hex
    simp only [cellOps, hex, List.append_assoc, List.cons_append, List.nil_append] at hp
    rcases List.prefix_cons_iff.mp hp with rfl | ⟨q, rfl, hq⟩
    · exact .before rfl
    · rcases List.prefix_cons_iff.mp hq with rfl | ⟨q2, rfl, hq2⟩
      · exact .backupOnly e rfl (by simp [runCell, applyCell, backupOf])
      · have h1 : runCell [e] [Op.renbackup j.iface j.day, Op.renfinal j.iface j.day j.blocks] = [backupOf e, finalEntry j] := by
          simp [runCell, applyCell, backupOf, finalEntry]
        rw [show (Op.renbackup j.iface j.day :: Op.renfinal j.iface j.day j.blocks :: q2)
              = [Op.renbackup j.iface j.day, Op.renfinal j.iface j.day j.blocks] ++ q2 from rfl, runCell_append, h1]
        rcases List.prefix_concat_iff.mp hq2 with rfl | hq3
        · rw [runCell_append, runCell_unlinks _ _ _ _ _ rfl rfl]
          exact .after (by simp [runCell, applyCell, backupOf, finalEntry])
        · rw [List.prefix_iff_eq_take.mp hq3, ← List.map_take, runCell_unlinks _ _ _ _ _ rfl rfl]
          exact .window e _ rfl rfl
  | _ :: _ :: _, hlen, _ => simp at hlen

/-! ## whole merges -/

section Merge
variable (ow : Bool) (tol : Int) (src : C24.Ifaces) (rm : List Char)

/-- the cell after the complete merge -/
def finalCell (fs0 : Fs) (i : String) (t : Int) : List Entry :=
  match jobOpt ow tol src fs0 i t with
  | none => cellOf fs0 i t
  | some j => [finalEntry j]

theorem proj_program_tidy (fs0 : Fs) (h : Tidy fs0) (i : String) (t : Int) :
    proj i t (program ow tol src rm fs0) =
      match jobOpt ow tol src fs0 i t with
      | none => []
      | some j => cellOps rm j := by
  rw [proj_program, jobs_filter _ _ _ _ h]
  cases jobOpt ow tol src fs0 i t <;> simp

theorem jobOpt_existing {fs0 : Fs} {i : String} {t : Int} {j : Job} (h : jobOpt ow tol src fs0 i t = some j) :
    j.existing = (cellOf fs0 i t).head? := by
  unfold jobOpt at h
  cases hs : C24.getDay src i t with
  | none => simp [hs] at h
  | some s =>
    simp only [hs, Option.bind_some, Option.map_eq_some_iff] at h
    obtain ⟨nb, _, rfl⟩ := h
    rfl

theorem cell_final (fs0 : Fs) (h : Tidy fs0) (i : String) (t : Int) :
    cellOf (run fs0 (program ow tol src rm fs0)) i t = finalCell ow tol src fs0 i t := by
  rw [cell_run, proj_program_tidy _ _ _ _ _ h, finalCell]
  cases hj : jobOpt ow tol src fs0 i t with
  | none => rfl
  | some j => exact runCell_full rm j _ (h i t).1 (jobOpt_existing _ _ _ hj)

/-- **Invariant of the commit protocol**: at every kill index every (interface, day) of the destination
    is in one of the four states of its own commit — untouched, old directory under its backup name only,
    backup next to the merged directory (the window), merged directory only. -/
theorem cell_states (fs0 : Fs) (h : Tidy fs0) (c : Nat) (i : String) (t : Int) :
    match jobOpt ow tol src fs0 i t with
    | none => cellOf (crash ow tol src rm fs0 c) i t = cellOf fs0 i t
    | some j => CellState (cellOf fs0 i t) j (cellOf (crash ow tol src rm fs0 c) i t) := by
  have hp : proj i t ((program ow tol src rm fs0).take c) <+: proj i t (program ow tol src rm fs0) :=
    List.IsPrefix.filter _ (List.take_prefix _ _)
  rw [proj_program_tidy _ _ _ _ _ h] at hp
  unfold crash
  rw [cell_run]
  cases hj : jobOpt ow tol src fs0 i t with
  | none =>
    simp only [hj] at hp ⊢
    rw [List.prefix_nil.mp hp]; rfl
  | some j =>
    simp only [hj] at hp ⊢
    exact cell_prefix rm j _ (h i t).1 (jobOpt_existing _ _ _ hj) _ hp


/-- a backup directory of the day sits next to a merged directory of the day -/
def windowed (es : List Entry) : Bool := es.any (·.kind == .backup) && es.any (·.kind == .regular)

/-- the three readers see the same in `es` and `es'` -/
def SameView (es es' : List Entry) : Prop :=
  dayRead es = dayRead es' ∧ dayListed es = dayListed es' ∧ cellDay es = cellDay es'

theorem dayRead_single (x : Entry) :
    dayRead [x] = if visible x then (if readable x then some x.blocks else none) else some [] := by
  unfold dayRead
  cases hv : visible x <;> simp [List.filter_cons, hv]

theorem dayListed_single (x : Entry) : dayListed [x] = if visible x then x.blocks else [] := by
  unfold dayListed
  cases hv : visible x <;> simp [List.filter_cons, hv]

theorem sameView_backupOf (e : Entry) : SameView [backupOf e] [e] := by
  refine ⟨?_, ?_, rfl⟩
  · rw [dayRead_single, dayRead_single]; rfl
  · rw [dayListed_single, dayListed_single]; rfl

/-- **Clause "every day holds either its data from before the merge or its merged data, never both
    and never neither"** — partial: for EVERY merge (options, source, tidy destination, unlink order) and
    EVERY kill index, each (interface, day) whose old directory does not sit as a backup next to the
    merged one is read (query, listing, a later merge's planner) exactly as before the merge or exactly
    as after the complete merge. Missing for the full clause: the window of `window_exhibits_duplicate`. -/
theorem merge_crash_atomic_partial (fs0 : Fs) (h : Tidy fs0) (c : Nat) (i : String) (t : Int)
    (hw : windowed (cellOf (crash ow tol src rm fs0 c) i t) = false) :
    SameView (cellOf (crash ow tol src rm fs0 c) i t) (cellOf fs0 i t) ∨
    SameView (cellOf (crash ow tol src rm fs0 c) i t) (cellOf (run fs0 (program ow tol src rm fs0)) i t) := by
  have hs := cell_states ow tol src rm fs0 h c i t
  rw [cell_final _ _ _ _ _ h, finalCell]
  cases hj : jobOpt ow tol src fs0 i t with
  | none =>
    simp only [hj] at hs ⊢
    rw [hs]; exact .inl ⟨rfl, rfl, rfl⟩
  | some j =>
    simp only [hj] at hs ⊢
    cases hs with
    | before hb => rw [hb]; exact .inl ⟨rfl, rfl, rfl⟩
    | backupOnly e h0 hb => rw [hb, h0]; exact .inl (sameView_backupOf e)
    | window e fl h0 hb => rw [hb] at hw; simp [windowed, backupOf, finalEntry] at hw
    | after hb => rw [hb]; exact .inr ⟨rfl, rfl, rfl⟩

/-- the state after the complete merge is the documented per-day result of C24 -/
theorem after_is_documented (fs0 : Fs) (h : Tidy fs0) (i : String) (t : Int) :
    cellDay (cellOf (run fs0 (program ow tol src rm fs0)) i t) =
      match C24.getDay src i t with
      | some s => C24.specDayResult ow tol t s (cellDay (cellOf fs0 i t))
      | none => cellDay (cellOf fs0 i t) := by
  rw [cell_final _ _ _ _ _ h, finalCell, jobOpt]
  cases C24.getDay src i t with
  | none => rfl
  | some s =>
    simp only [Option.bind_some, C24.specDayResult]
    cases (C24.specDay ow tol t s (cellDay (cellOf fs0 i t))).newDay with
    | none => simp
    | some nb => simp [cellDay, finalEntry]

theorem exists_take_filter {α} (p : α → Bool) (l q : List α) (h : q <+: l.filter p) :
    ∃ c, (l.take c).filter p = q := by
  induction l generalizing q with
  | nil =>
    have : q = [] := List.prefix_nil.mp (by simpa using h)
    exact ⟨0, by simp [this]⟩
  | cons x xs ih =>
    by_cases hx : p x = true
    · simp only [List.filter_cons, hx, if_true] at h
      rcases List.prefix_cons_iff.mp h with rfl | ⟨q', rfl, hq'⟩
      · exact ⟨0, rfl⟩
      · obtain ⟨c, hc⟩ := ih q' hq'
        exact ⟨c + 1, by simp [List.take_succ_cons, List.filter_cons, hx, hc]⟩
    · simp only [List.filter_cons, hx] at h
      obtain ⟨c, hc⟩ := ih q h
      exact ⟨c + 1, by simp [List.take_succ_cons, List.filter_cons, hx, hc]⟩

/-- **The window (recorded finding)**: for EVERY merge and EVERY day it replaces (the destination lists
    the day, `e`, and the plan is not `skip`) there is a kill index — between `rename(staged → final)`
    and the first removal in the backup — at which the old directory under its backup name and the
    merged directory both exist; a query then returns the old blocks AND the merged blocks, the listing
    counts both, and the clause "never both" fails. -/
theorem window_exhibits_duplicate (fs0 : Fs) (h : Tidy fs0) (i : String) (t : Int) (j : Job) (e : Entry)
    (hj : jobOpt ow tol src fs0 i t = some j) (he : cellOf fs0 i t = [e]) :
    ∃ c, cellOf (crash ow tol src rm fs0 c) i t = [backupOf e, finalEntry j] ∧
      windowed (cellOf (crash ow tol src rm fs0 c) i t) = true ∧
      dayRead (cellOf (crash ow tol src rm fs0 c) i t) = some (e.blocks ++ j.blocks) ∧
      dayListed (cellOf (crash ow tol src rm fs0 c) i t) = e.blocks ++ j.blocks := by
  have hex : j.existing = some e := by rw [jobOpt_existing _ _ _ hj, he]; rfl
  have hq : [Op.renbackup j.iface j.day, Op.renfinal j.iface j.day j.blocks] <+: proj i t (program ow tol src rm fs0) := by
    rw [proj_program_tidy _ _ _ _ _ h, hj]
    simp only [cellOps, hex, List.append_assoc, List.cons_append, List.nil_append]
    exact ⟨_, rfl⟩
  obtain ⟨c, hc⟩ := exists_take_filter _ _ _ hq
  have hcell : cellOf (crash ow tol src rm fs0 c) i t = [backupOf e, finalEntry j] := by
    unfold crash
    rw [cell_run, proj, hc, he]
    simp [runCell, applyCell, backupOf, finalEntry]
  have hf : e.files = allFiles := (h i t).2 e (by rw [he]; simp)
  refine ⟨c, hcell, ?_, ?_, ?_⟩ <;> rw [hcell]
  · simp [windowed, backupOf, finalEntry]
  · simp [dayRead, backupOf, finalEntry, visible, readable, hf, allFiles, colFiles]
  · simp [dayListed, backupOf, finalEntry, visible, hf, allFiles, colFiles]


/-! ### a later merge -/

/-- without a backup next to a merged day the crashed destination is tidy again -/
theorem crash_tidy (fs0 : Fs) (h : Tidy fs0) (c : Nat)
    (hw : ∀ i t, windowed (cellOf (crash ow tol src rm fs0 c) i t) = false) :
    Tidy (crash ow tol src rm fs0 c) := by
  intro i t
  have hs := cell_states ow tol src rm fs0 h c i t
  cases hj : jobOpt ow tol src fs0 i t with
  | none => simp only [hj] at hs; rw [hs]; exact h i t
  | some j =>
    simp only [hj] at hs
    cases hs with
    | before hb => rw [hb]; exact h i t
    | backupOnly e h0 hb =>
      rw [hb]
      refine ⟨by simp, ?_⟩
      intro x hx
      simp only [List.mem_singleton] at hx
      subst hx
      exact (h i t).2 e (by rw [h0]; simp)
    | window e fl h0 hb =>
      have := hw i t
      rw [hb] at this; simp [windowed, backupOf, finalEntry] at this
    | after hb =>
      rw [hb]
      refine ⟨by simp, ?_⟩
      intro x hx
      simp only [List.mem_singleton] at hx
      subst hx; rfl

/-- what the planner of a later merge reads in a crashed, window-free cell: the day as before the
    merge or as merged -/
theorem crash_cellDay (fs0 : Fs) (h : Tidy fs0) (c : Nat) (i : String) (t : Int)
    (hw : windowed (cellOf (crash ow tol src rm fs0 c) i t) = false) :
    cellDay (cellOf (crash ow tol src rm fs0 c) i t) = cellDay (cellOf fs0 i t) ∨
    cellDay (cellOf (crash ow tol src rm fs0 c) i t) = cellDay (cellOf (run fs0 (program ow tol src rm fs0)) i t) := by
  rcases merge_crash_atomic_partial ow tol src rm fs0 h c i t hw with h1 | h1
  · exact .inl h1.2.2
  · exact .inr h1.2.2

/-- **Clause "leftovers are not mistaken … by a later merge"** — partial: for EVERY merge and EVERY kill
    index after which no backup sits next to a merged day, a later complete merge (any unlink order
    `rm'`) is accepted and leaves every (interface, day) exactly as the uninterrupted merge would have:
    the documented result. Missing: kill indices inside the window (`window_blocks_later_merge`). -/
theorem second_merge_completes (rm' : List Char) (fs0 : Fs) (h : Tidy fs0) (c : Nat)
    (hw : ∀ i t, windowed (cellOf (crash ow tol src rm fs0 c) i t) = false) :
    (mergeAll ow tol src rm' (crash ow tol src rm fs0 c)).2 = "ok" ∧
    ∀ i t, cellDay (cellOf (mergeAll ow tol src rm' (crash ow tol src rm fs0 c)).1 i t) =
           cellDay (cellOf (run fs0 (program ow tol src rm fs0)) i t) := by
  have ht := crash_tidy ow tol src rm fs0 h c hw
  refine ⟨?_, ?_⟩
  · simp [mergeAll, mergeStatus, goodIfaces_tidy src _ ht]
  · intro i t
    simp only [mergeAll]
    rw [after_is_documented ow tol src rm' _ ht, after_is_documented ow tol src rm _ h]
    rcases crash_cellDay ow tol src rm fs0 h c i t (hw i t) with h1 | h1
    · rw [h1]
    · rw [h1, after_is_documented ow tol src rm _ h]
      cases C24.getDay src i t with
      | none => rfl
      | some s => exact C24.specDay_idem ow tol t s _

theorem jobOpt_isSome_congr (fs fs' : Fs) (i : String) (t : Int)
    (hc : cellDay (cellOf fs i t) = cellDay (cellOf fs' i t)) :
    (jobOpt ow tol src fs i t).isSome = (jobOpt ow tol src fs' i t).isSome := by
  unfold jobOpt
  rw [hc]
  cases C24.getDay src i t with
  | none => rfl
  | some s =>
    simp only [Option.bind_some]
    cases (C24.specDay ow tol t s (cellDay (cellOf fs' i t))).newDay <;> rfl

theorem mem_cellOf_self (fs : Fs) (e : Entry) (h : e ∈ fs.days) : e ∈ cellOf fs e.iface e.day :=
  List.mem_filter.mpr ⟨h, by simp [inCell]⟩

/-- **Clause "leftover … backup directories"** for the later merge: after a window-free crash the later
    complete merge leaves no backup directory behind (given the destination had none to begin with):
    the backup-only directory of the interrupted commit is replaced by the merged day -/
theorem second_merge_clean (rm' : List Char) (fs0 : Fs) (h : Tidy fs0) (hreg : ∀ e ∈ fs0.days, e.kind = .regular) (c : Nat)
    (hw : ∀ i t, windowed (cellOf (crash ow tol src rm fs0 c) i t) = false) :
    ∀ e ∈ (mergeAll ow tol src rm' (crash ow tol src rm fs0 c)).1.days, e.kind = .regular := by
  intro x hx
  have ht := crash_tidy ow tol src rm fs0 h c hw
  have hx' := mem_cellOf_self _ x hx
  simp only [mergeAll] at hx'
  rw [cell_final ow tol src rm' _ ht, finalCell] at hx'
  cases hj1 : jobOpt ow tol src (crash ow tol src rm fs0 c) x.iface x.day with
  | some j' =>
    simp only [hj1, List.mem_singleton] at hx'
    rw [hx']; rfl
  | none =>
    simp only [hj1] at hx'
    have hs := cell_states ow tol src rm fs0 h c x.iface x.day
    cases hj : jobOpt ow tol src fs0 x.iface x.day with
    | none =>
      simp only [hj] at hs
      rw [hs] at hx'
      exact hreg x (List.mem_filter.mp hx').1
    | some j =>
      simp only [hj] at hs
      cases hs with
      | before hb => rw [hb] at hx'; exact hreg x (List.mem_filter.mp hx').1
      | backupOnly e h0 hb =>
        exfalso
        have hc : cellDay (cellOf (crash ow tol src rm fs0 c) x.iface x.day) = cellDay (cellOf fs0 x.iface x.day) := by
          rw [hb, h0]; rfl
        have := jobOpt_isSome_congr ow tol src _ _ x.iface x.day hc
        rw [hj1, hj] at this
        simp at this
      | window e fl h0 hb =>
        have := hw x.iface x.day
        rw [hb] at this; simp [windowed, backupOf, finalEntry] at this
      | after hb =>
        rw [hb] at hx'
        simp only [List.mem_singleton] at hx'
        rw [hx']; rfl

/-- converse of `nodupB_days` -/
theorem days_of_nodupB (l : List Entry) (h : C24.nodupB (l.map (·.day)) = true) (t : Int) :
    (l.filter (·.day == t)).length ≤ 1 := by
  induction l with
  | nil => simp
  | cons x xs ih =>
    simp only [List.map_cons, C24.nodupB, Bool.and_eq_true, Bool.not_eq_true'] at h
    have ih' := ih h.2
    simp only [List.filter_cons]
    split
    · rename_i hx
      have : xs.filter (·.day == t) = [] := by
        simp only [List.filter_eq_nil_iff]
        intro y hy hyt
        have hc : (xs.map (·.day)).contains x.day = true := by
          simp only [List.contains_eq_mem, List.mem_map, decide_eq_true_eq]
          exact ⟨y, hy, by simp only [beq_iff_eq] at hx hyt; omega⟩
        rw [hc] at h; exact absurd h.1 (by simp)
      simp [this]
    · exact ih'

/-- **The window, seen by a later merge (recorded finding)**: whenever two directories of one day exist
    (a backup next to the merged day — even an emptied one) in an interface the source has days for,
    every later merge stops with "duplicate day timestamp" -/
theorem window_blocks_later_merge (fs : Fs) (i : String) (t : Int) (h2 : 2 ≤ (cellOf fs i t).length)
    (hs : (C24.ifaceDays src i).isEmpty = false) : mergeStatus src fs = "err:duplicate-day" := by
  have hdup : dupIface fs i = true := by
    cases hd : dupIface fs i with
    | true => rfl
    | false =>
      exfalso
      simp only [dupIface, Bool.not_eq_false'] at hd
      have := days_of_nodupB _ hd t
      rw [← cellOf_eq] at this
      omega
  have hi : i ∈ selOf src := by
    apply (C24.mem_sortDedup _ _).mpr
    cases hf : src.find? (·.1 == i) with
    | none => simp [C24.ifaceDays, hf] at hs
    | some x =>
      have := List.find?_some hf
      have hm := List.mem_of_find?_eq_some hf
      simp only [beq_iff_eq] at this
      exact List.mem_map.mpr ⟨x, hm, this⟩
  have hlt : (goodIfaces src fs).length < (selOf src).length := by
    unfold goodIfaces
    generalize selOf src = l at hi
    induction l with
    | nil => simp at hi
    | cons x xs ih =>
      simp only [List.takeWhile_cons]
      split
      · rename_i hx
        rcases List.mem_cons.mp hi with rfl | hi'
        · simp [hs, hdup] at hx
        · simp only [List.length_cons]; have := ih hi'; omega
      · simp
  simp only [mergeStatus]
  have : ((goodIfaces src fs).length == (selOf src).length) = false := by
    simp only [beq_eq_false_iff_ne, ne_eq]; omega
  simp [this]

end Merge

/-! ### what readers get inside the window -/

theorem dayRead_pair (a b : Entry) (hvb : visible b = true) (hrb : readable b = true) :
    dayRead [a, b] = if visible a then (if readable a then some (a.blocks ++ b.blocks) else none) else some b.blocks := by
  unfold dayRead
  cases hva : visible a <;> cases hra : readable a <;> simp [List.filter_cons, hva, hvb, hra, hrb]

theorem dayListed_pair (a b : Entry) (hvb : visible b = true) :
    dayListed [a, b] = if visible a then a.blocks ++ b.blocks else b.blocks := by
  unfold dayListed
  cases hva : visible a <;> simp [List.filter_cons, hva, hvb]

theorem visible_final (j : Job) : visible (finalEntry j) = true := by simp [visible, finalEntry, allFiles]
theorem readable_final (j : Job) : readable (finalEntry j) = true := by simp [readable, finalEntry, allFiles, colFiles]

/-- inside the window (backup with remaining files `fl` next to the merged day): while the backup still
    has its metadata a query returns both directories' blocks, or fails as soon as a column file is
    gone; once the metadata is gone readers skip the backup -/
theorem window_read (e : Entry) (j : Job) (fl : List Char) :
    dayRead [{ backupOf e with files := fl }, finalEntry j] =
      if fl.contains 'm' then (if colFiles.all (fl.contains ·) then some (e.blocks ++ j.blocks) else none)
      else some j.blocks := by
  rw [dayRead_pair _ _ (visible_final j) (readable_final j)]; rfl

/-- the listing counts the day twice as long as the backup has its metadata -/
theorem window_listed (e : Entry) (j : Job) (fl : List Char) :
    dayListed [{ backupOf e with files := fl }, finalEntry j] =
      if fl.contains 'm' then e.blocks ++ j.blocks else j.blocks := by
  rw [dayListed_pair _ _ (visible_final j)]; rfl

/-! ### the destination the harness starts from -/

def mkEntry (i : String) (t : Int) (d : C24.Day) : Entry :=
  { iface := i, day := t, kind := .regular, blocks := d, files := allFiles }

theorem cellOf_initFs (dst : C24.Ifaces) (i : String) (t : Int) :
    cellOf (initFs dst) i t = ((C24.getDay dst i t).map (mkEntry i t)).toList := by
  simp only [cellOf, initFs]
  rw [filter_flatMap_each]
  rw [flatMap_single _ (C24.nodup_sortNames _) _ i]
  · by_cases hi : i ∈ C24.sortNames (dst.map (·.1))
    · simp only [hi, if_true]
      rw [filter_filterMap_flat]
      have hnd : (C24.sortInts (C24.dayKeys (C24.ifaceDays dst i))).Nodup :=
        C24.nodup_of_sorted C24.intStrict _ (C24.sorted_sortDedup C24.intStrict _)
      rw [flatMap_single _ hnd _ t]
      · by_cases ht : t ∈ C24.sortInts (C24.dayKeys (C24.ifaceDays dst i))
        · simp only [ht, if_true]
          cases C24.getDay dst i t with
          | none => simp
          | some d => simp [inCell, mkEntry]
        · simp only [ht, if_false]
          have : C24.getDay dst i t = none := by
            have h1 : t ∉ C24.dayKeys (C24.ifaceDays dst i) := fun hm => ht ((C24.mem_sortDedup _ _).mpr hm)
            rw [C24.mem_dayKeys] at h1
            simpa [C24.getDay] using h1
          simp [this]
      · intro t' _ hne
        cases C24.getDay dst i t' with
        | none => simp
        | some d => simp [inCell, hne]
    · simp only [hi, if_false]
      have : C24.getDay dst i t = none :=
        getDay_none_of_not_mem dst i t (fun hm => hi ((C24.mem_sortDedup _ _).mpr hm))
      simp [this]
  · intro i' _ hne
    rw [filter_filterMap_flat]
    simp only [List.flatMap_eq_nil_iff]
    intro t' _
    cases C24.getDay dst i' t' with
    | none => simp
    | some d => simp [inCell, hne]

/-- the hypothesis of the theorems holds for every destination database the harness writes -/
theorem initFs_tidy (dst : C24.Ifaces) : Tidy (initFs dst) := by
  intro i t
  rw [cellOf_initFs]
  cases C24.getDay dst i t with
  | none => simp
  | some d => simp [mkEntry]

theorem initFs_cellDay (dst : C24.Ifaces) (i : String) (t : Int) :
    cellDay (cellOf (initFs dst) i t) = C24.getDay dst i t := by
  rw [cellOf_initFs]
  cases C24.getDay dst i t with
  | none => rfl
  | some d => simp [cellDay, mkEntry]

/-- **the merged data is the documented result**: after a complete merge into a destination database
    `dst` every (interface, day) holds `C24.specGet` — the per-day rule of property C24 -/
theorem after_matches_spec (ow : Bool) (tol : Int) (src dst : C24.Ifaces) (rm : List Char) (i : String) (t : Int) :
    cellDay (cellOf (run (initFs dst) (program ow tol src rm (initFs dst))) i t) =
      C24.specGet { overwrite := ow, dry := false, tol := tol, requested := [] } (selOf src) src dst i t := by
  rw [after_is_documented ow tol src rm _ (initFs_tidy dst), initFs_cellDay, C24.specGet]
  cases hs : C24.getDay src i t with
  | none => cases (selOf src).contains i <;> rfl
  | some s =>
    have : (selOf src).contains i = true := by
      simp only [List.contains_eq_mem, decide_eq_true_eq]
      apply (C24.mem_sortDedup _ _).mpr
      apply Classical.byContradiction
      intro hn
      rw [getDay_none_of_not_mem src i t hn] at hs
      exact absurd hs (by simp)
    rw [this]

/-! ### leftover stage directories -/

theorem mem_insertStr (s x : String) (l : List String) : x ∈ insertStr s l ↔ x = s ∨ x ∈ l := by
  induction l with
  | nil => simp [insertStr]
  | cons y ys ih =>
    simp only [insertStr]
    split
    · simp
    · simp only [List.mem_cons, ih]
      constructor
      · rintro (h | h | h) <;> simp [h]
      · rintro (h | h | h) <;> simp [h]

theorem mem_sortStrs (x : String) (l : List String) : x ∈ sortStrs l ↔ x ∈ l := by
  induction l with
  | nil => simp [sortStrs]
  | cons y ys ih =>
    have : sortStrs (y :: ys) = insertStr y (sortStrs ys) := rfl
    rw [this, mem_insertStr, ih]; simp

theorem isHidden_dot (x : String) : isHidden (".gpdb-merge-stage-" ++ x) = true := by
  simp [isHidden, String.toList_append]

theorem isHidden_stageName (n : Nat) : isHidden (stageName n) = true := isHidden_dot _

/-- **Clause "leftover staging directories are not mistaken for interfaces or days"** (after the fix):
    in EVERY state of the destination — any number of leftover `.gpdb-merge-stage-*` directories — the
    interface list holds no stage directory and nothing but interface directories, and holds every
    interface directory whose name does not start with a dot. Days are only looked for below listed
    interfaces (`queryView`, `listView`, `jobs`), so a stage directory is never searched for days. -/
theorem leftovers_invisible (fs : Fs) :
    (∀ n, stageName n ∉ getInterfaces fs) ∧
    (∀ x ∈ getInterfaces fs, x ∈ fs.ifaces ∧ isHidden x = false) ∧
    (∀ x ∈ fs.ifaces, isHidden x = false → x ∈ getInterfaces fs) := by
  refine ⟨?_, ?_, ?_⟩
  · intro n hn
    have := (List.mem_filter.mp ((mem_sortStrs _ _).mp hn)).2
    simp [isHidden_stageName] at this
  · intro x hx
    have := List.mem_filter.mp ((mem_sortStrs _ _).mp hx)
    refine ⟨?_, by simpa using this.2⟩
    rcases List.mem_append.mp this.1 with h | h
    · obtain ⟨n, _, rfl⟩ := List.mem_map.mp h
      simp [isHidden_stageName] at this
    · exact h
  · intro x hx hh
    exact (mem_sortStrs _ _).mpr (List.mem_filter.mpr ⟨List.mem_append_right _ hx, by simp [hh]⟩)

/-- before the fix the clause failed: any leftover stage directory was listed as an interface -/
theorem unfixed_lists_stage (fs : Fs) (h : 0 < fs.stages) : stageName 0 ∈ getInterfacesUnfixed fs :=
  (mem_sortStrs _ _).mpr (List.mem_append_left _ (List.mem_map.mpr ⟨0, List.mem_range.mpr h, rfl⟩))


/-! ### a concrete merge: one day present on both sides, rebuilt (non-vacuity) -/

def exSrc : C24.Ifaces := [("eth0", [(1704844800, [⟨1704845100, 1⟩])])]
def exDst : C24.Ifaces := [("eth0", [(1704844800, [⟨1704845400, 2⟩])])]

/-- the program of this merge: stage root, backup, final, nine unlinks, rmdir, stage removal -/
example : (program false 0 exSrc [] (initFs exDst)).map Op.render =
    ["mkstage", "renbackup:eth0/1704844800", "renfinal:eth0/1704844800"] ++
    List.replicate 9 "unlink:eth0/1704844800" ++ ["rmdir:eth0/1704844800", "rmstage"] := by decide

/-- killed before `rename(staged → final)` (index 2): only the backup exists, readers see the old day —
    the hypothesis of `merge_crash_atomic_partial` holds and its first alternative is taken -/
example : windowed (cellOf (crash false 0 exSrc [] (initFs exDst) 2) "eth0" 1704844800) = false ∧
    dayRead (cellOf (crash false 0 exSrc [] (initFs exDst) 2) "eth0" 1704844800) = some [⟨1704845400, 2⟩] := by decide

/-- killed right after it (index 3): the hypothesis fails and so does the clause — the query returns
    the old block AND the merged blocks, which is neither the day before nor the day after the merge -/
example : windowed (cellOf (crash false 0 exSrc [] (initFs exDst) 3) "eth0" 1704844800) = true ∧
    dayRead (cellOf (crash false 0 exSrc [] (initFs exDst) 3) "eth0" 1704844800) =
      some [⟨1704845400, 2⟩, ⟨1704845100, 1⟩, ⟨1704845400, 2⟩] ∧
    dayRead (cellOf (initFs exDst) "eth0" 1704844800) = some [⟨1704845400, 2⟩] ∧
    dayRead (cellOf (run (initFs exDst) (program false 0 exSrc [] (initFs exDst))) "eth0" 1704844800) =
      some [⟨1704845100, 1⟩, ⟨1704845400, 2⟩] := by decide

/-- the emptied backup (index 12, before `rmdir`): readers are fine, a later merge is refused; after the
    `rmdir` (index 13) the later merge is accepted — the hypothesis of `second_merge_completes` is
    satisfiable and necessary -/
example : dayRead (cellOf (crash false 0 exSrc [] (initFs exDst) 12) "eth0" 1704844800) =
      some [⟨1704845100, 1⟩, ⟨1704845400, 2⟩] ∧
    (mergeAll false 0 exSrc [] (crash false 0 exSrc [] (initFs exDst) 12)).2 = "err:duplicate-day" ∧
    (∀ e ∈ (crash false 0 exSrc [] (initFs exDst) 13).days, e.kind = .regular) ∧
    (mergeAll false 0 exSrc [] (crash false 0 exSrc [] (initFs exDst) 13)).2 = "ok" := by decide

/-- a leftover stage directory: listed before the fix, not listed after it -/
example : getInterfacesUnfixed (crash false 0 exSrc [] (initFs exDst) 5) = [".gpdb-merge-stage-0", "eth0"] ∧
    getInterfaces (crash false 0 exSrc [] (initFs exDst) 5) = ["eth0"] := by decide

end C25
