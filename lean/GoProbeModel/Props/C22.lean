import GoProbeModel.Model.C22

/-!
C22 — property theorems over the *generated* classifiers (`Gen/Classify.lean`, regenerated from
pkg/capture/capturetypes/{classify,packet}.go on every run).
-/
namespace C22
open Gen.Classify

/-! ## IPv4 -/

theorem reverse_v4 (h : Nat → Nat) (i : Nat) (hi : i < 13) :
    EPHashV4_Reverse h i =
      if i < 6 then h (i + 6) else if i < 12 then h (i - 6) else h 12 := by
  unfold EPHashV4_Reverse
  simp only [Nat.reduceSub, Nat.reduceAdd, Nat.min_self, Nat.zero_le, true_and, Nat.sub_zero, Nat.zero_add]
  repeat' split
  all_goals first | omega | rfl | (congr 1; omega)

theorem reverse_vals_v4 (h : Nat → Nat) :
    EPHashV4_Reverse h 4 = h 10 ∧ EPHashV4_Reverse h 5 = h 11 ∧ EPHashV4_Reverse h 10 = h 4 ∧
    EPHashV4_Reverse h 11 = h 5 ∧ EPHashV4_Reverse h 12 = h 12 := by
  refine ⟨?_, ?_, ?_, ?_, ?_⟩ <;> (rw [reverse_v4 _ _ (by omega)]; simp)

theorem reverse_reverse_v4 (h : Nat → Nat) (i : Nat) (hi : i < 13) :
    EPHashV4_Reverse (EPHashV4_Reverse h) i = h i := by
  rw [reverse_v4 _ i hi]
  by_cases h1 : i < 6
  · simp only [h1, if_true]; rw [reverse_v4 _ _ (by omega)]
    simp only [show ¬ (i + 6 < 6) by omega, show i + 6 < 12 by omega, if_true, if_false, Nat.add_sub_cancel]
  · by_cases h2 : i < 12
    · simp only [h1, h2, if_true, if_false]; rw [reverse_v4 _ _ (by omega)]
      simp only [show (i - 6 < 6) by omega, if_true, Nat.sub_add_cancel (by omega : 6 ≤ i)]
    · have : i = 12 := by omega
      subst this
      simp [(reverse_vals_v4 h).2.2.2.2]

/-- port heuristics: for every pair of distinct ports the stored key is the same whichever
    direction is seen first (all addresses, all 2^32 port pairs). -/
theorem ports_symmetric_v4 (h : Nat → Nat) (hne : ¬ (h 4 = h 10 ∧ h 5 = h 11)) (i : Nat) (hi : i < 13) :
    (if classifyByPortsV4 h = 2 then EPHashV4_Reverse h else h) i =
    (if classifyByPortsV4 (EPHashV4_Reverse h) = 2 then EPHashV4_Reverse (EPHashV4_Reverse h) else EPHashV4_Reverse h) i := by
  obtain ⟨r4, r5, r10, r11, _⟩ := reverse_vals_v4 h
  have hrr := reverse_reverse_v4 h i hi
  unfold classifyByPortsV4 isEphemeralPort
  simp only [Nat.add_zero, Nat.reduceAdd, r4, r5, r10, r11, decide_eq_true_eq]
  repeat' split
  all_goals first | rfl | exact hrr | exact hrr.symm | omega
/-- **orientation_symmetric (IPv4)**: TCP without handshake flags on either packet, or UDP between
    non-broadcast/multicast addresses, with distinct ports: same stored key for both directions. -/
theorem orientation_symmetric_v4 (h : Nat → Nat) (aux auxm : Nat)
    (hdec : (h 12 = 6 ∧ aux &&& 2 = 0 ∧ auxm &&& 2 = 0) ∨
            (h 12 = 17 ∧ isBroadcastMulticastV4 (fun i => h (6 + i)) = false
                       ∧ isBroadcastMulticastV4 (fun i => h (0 + i)) = false))
    (hne : ¬ (h 4 = h 10 ∧ h 5 = h 11)) (i : Nat) (hi : i < 13) :
    storeKeyV4 h aux i = storeKeyV4 (EPHashV4_Reverse h) auxm i := by
  have hp := ports_symmetric_v4 h hne i hi
  have r12 := (reverse_vals_v4 h).2.2.2.2
  unfold storeKeyV4 ClassifyPacketDirectionV4
  rcases hdec with ⟨h6, ha, hm⟩ | ⟨h17, hb1, hb2⟩
  · simp only [r12, h6, if_true, ha, hm]
    simpa using hp
  · have hmr : isBroadcastMulticastV4 (fun i_ => EPHashV4_Reverse h (6 + i_)) = false := by
      have e : ∀ j, j < 4 → EPHashV4_Reverse h (6 + j) = h (0 + j) := by
        intro j hj; rw [reverse_v4 _ _ (by omega)]; simp only [show ¬ 6 + j < 6 by omega, show 6 + j < 12 by omega, if_true, if_false]; congr 1; omega
      unfold isBroadcastMulticastV4 at hb2 ⊢
      simp only [e 0 (by omega), e 1 (by omega), e 2 (by omega), e 3 (by omega)]
      simpa using hb2
    simp only [r12, h17, show ¬ ((17:Nat) = 6) by omega, if_true, if_false, hb1, hmr, Bool.false_eq_true]
    exact hp

/-- **requester_first (TCP, IPv4)**: a SYN is stored source→destination; the SYN-ACK travelling the
    other way is stored under the same key. -/
theorem requester_first_tcp_v4 (h : Nat → Nat) (aux auxm : Nat) (h6 : h 12 = 6)
    (hsyn : aux &&& 2 ≠ 0) (hnoack : aux &&& 16 = 0)
    (hsyn' : auxm &&& 2 ≠ 0) (hack' : auxm &&& 16 ≠ 0) (i : Nat) (hi : i < 13) :
    storeKeyV4 h aux i = h i ∧ storeKeyV4 (EPHashV4_Reverse h) auxm i = h i := by
  have r12 := (reverse_vals_v4 h).2.2.2.2
  have ha : aux ≠ 0 := by intro h0; subst h0; simp at hsyn
  have hm : auxm ≠ 0 := by intro h0; subst h0; simp at hsyn'
  unfold storeKeyV4 ClassifyPacketDirectionV4
  simp only [r12, h6, if_true, ha, hm, hsyn, hsyn', hnoack, hack', ne_eq, not_false_eq_true, not_true_eq_false, if_false]
  exact ⟨by simp, by simpa using reverse_reverse_v4 h i hi⟩

/-- **requester_first (ICMP echo / timestamp, IPv4)** -/
theorem requester_first_icmp_v4 (h : Nat → Nat) (h1 : h 12 = 1) (aux auxm : Nat)
    (hreq : (aux = 8 ∧ auxm = 0) ∨ (aux = 13 ∧ auxm = 14)) (i : Nat) (hi : i < 13) :
    storeKeyV4 h aux i = h i ∧ storeKeyV4 (EPHashV4_Reverse h) auxm i = h i := by
  have r12 := (reverse_vals_v4 h).2.2.2.2
  unfold storeKeyV4 ClassifyPacketDirectionV4 classifyICMPv4
  rcases hreq with ⟨rfl, rfl⟩ | ⟨rfl, rfl⟩ <;>
  · simp only [r12, h1]
    exact ⟨by simp, by simpa using reverse_reverse_v4 h i hi⟩

/-! ## IPv6 -/

theorem reverse_v6 (h : Nat → Nat) (i : Nat) (hi : i < 37) :
    EPHashV6_Reverse h i =
      if i < 18 then h (i + 18) else if i < 36 then h (i - 18) else h 36 := by
  unfold EPHashV6_Reverse
  simp only [Nat.reduceSub, Nat.reduceAdd, Nat.min_self, Nat.zero_le, true_and, Nat.sub_zero, Nat.zero_add]
  repeat' split
  all_goals first | omega | rfl | (congr 1; omega)

theorem reverse_vals_v6 (h : Nat → Nat) :
    EPHashV6_Reverse h 16 = h 34 ∧ EPHashV6_Reverse h 17 = h 35 ∧ EPHashV6_Reverse h 34 = h 16 ∧
    EPHashV6_Reverse h 35 = h 17 ∧ EPHashV6_Reverse h 36 = h 36 := by
  refine ⟨?_, ?_, ?_, ?_, ?_⟩ <;> (rw [reverse_v6 _ _ (by omega)]; simp)

theorem reverse_reverse_v6 (h : Nat → Nat) (i : Nat) (hi : i < 37) :
    EPHashV6_Reverse (EPHashV6_Reverse h) i = h i := by
  rw [reverse_v6 _ i hi]
  by_cases h1 : i < 18
  · simp only [h1, if_true]; rw [reverse_v6 _ _ (by omega)]
    simp only [show ¬ (i + 18 < 18) by omega, show i + 18 < 36 by omega, if_true, if_false, Nat.add_sub_cancel]
  · by_cases h2 : i < 36
    · simp only [h1, h2, if_true, if_false]; rw [reverse_v6 _ _ (by omega)]
      simp only [show (i - 18 < 18) by omega, if_true, Nat.sub_add_cancel (by omega : 18 ≤ i)]
    · have : i = 36 := by omega
      subst this
      simp [(reverse_vals_v6 h).2.2.2.2]

theorem ports_symmetric_v6 (h : Nat → Nat) (hne : ¬ (h 16 = h 34 ∧ h 17 = h 35)) (i : Nat) (hi : i < 37) :
    (if classifyByPortsV6 h = 2 then EPHashV6_Reverse h else h) i =
    (if classifyByPortsV6 (EPHashV6_Reverse h) = 2 then EPHashV6_Reverse (EPHashV6_Reverse h) else EPHashV6_Reverse h) i := by
  obtain ⟨r4, r5, r10, r11, _⟩ := reverse_vals_v6 h
  have hrr := reverse_reverse_v6 h i hi
  unfold classifyByPortsV6 isEphemeralPort
  simp only [Nat.add_zero, Nat.reduceAdd, r4, r5, r10, r11, decide_eq_true_eq]
  repeat' split
  all_goals first | rfl | exact hrr | exact hrr.symm | omega
/-- **orientation_symmetric (IPv6)** -/
theorem orientation_symmetric_v6 (h : Nat → Nat) (aux auxm : Nat)
    (hdec : (h 36 = 6 ∧ aux &&& 2 = 0 ∧ auxm &&& 2 = 0) ∨
            (h 36 = 17 ∧ h 18 ≠ 255 ∧ h 0 ≠ 255))
    (hne : ¬ (h 16 = h 34 ∧ h 17 = h 35)) (i : Nat) (hi : i < 37) :
    storeKeyV6 h aux i = storeKeyV6 (EPHashV6_Reverse h) auxm i := by
  have hp := ports_symmetric_v6 h hne i hi
  have r36 := (reverse_vals_v6 h).2.2.2.2
  have r18 : EPHashV6_Reverse h 18 = h 0 := by rw [reverse_v6 _ _ (by omega)]; simp
  unfold storeKeyV6 ClassifyPacketDirectionV6
  rcases hdec with ⟨h6, ha, hm⟩ | ⟨h17, hb1, hb2⟩
  · simp only [r36, h6, if_true, ha, hm]
    simpa using hp
  · unfold isBroadcastMulticastV6
    simp only [r36, h17, show ¬ ((17:Nat) = 6) by omega, if_true, if_false, Nat.add_zero, r18, hb1, hb2,
      decide_false, Bool.false_eq_true]
    exact hp

theorem requester_first_tcp_v6 (h : Nat → Nat) (aux auxm : Nat) (h6 : h 36 = 6)
    (hsyn : aux &&& 2 ≠ 0) (hnoack : aux &&& 16 = 0)
    (hsyn' : auxm &&& 2 ≠ 0) (hack' : auxm &&& 16 ≠ 0) (i : Nat) (hi : i < 37) :
    storeKeyV6 h aux i = h i ∧ storeKeyV6 (EPHashV6_Reverse h) auxm i = h i := by
  have r36 := (reverse_vals_v6 h).2.2.2.2
  have ha : aux ≠ 0 := by intro h0; subst h0; simp at hsyn
  have hm : auxm ≠ 0 := by intro h0; subst h0; simp at hsyn'
  unfold storeKeyV6 ClassifyPacketDirectionV6
  simp only [r36, h6, if_true, ha, hm, hsyn, hsyn', hnoack, hack', ne_eq, not_false_eq_true, not_true_eq_false, if_false]
  exact ⟨by simp, by simpa using reverse_reverse_v6 h i hi⟩

/-- **requester_first (ICMPv6 echo)** between unicast addresses -/
theorem requester_first_icmp_v6 (h : Nat → Nat) (h58 : h 36 = 58) (hu1 : h 18 ≠ 255) (hu2 : h 0 ≠ 255)
    (i : Nat) (hi : i < 37) :
    storeKeyV6 h 128 i = h i ∧ storeKeyV6 (EPHashV6_Reverse h) 129 i = h i := by
  have r36 := (reverse_vals_v6 h).2.2.2.2
  have r18 : EPHashV6_Reverse h 18 = h 0 := by rw [reverse_v6 _ _ (by omega)]; simp
  unfold storeKeyV6 ClassifyPacketDirectionV6 classifyICMPv6 isBroadcastMulticastV6
  simp only [r36, h58, Nat.add_zero, r18, hu1, hu2, decide_false, Bool.false_eq_true, if_false]
  exact ⟨by simp, by simpa using reverse_reverse_v6 h i hi⟩

/-! ## non-vacuity -/
-- 10.0.0.1:40000 -> 10.0.0.2:80 TCP, no flags: stored as is; mirror stored reversed = same key
example : toList 13 (storeKeyV4 (ofList [10,0,0,1,156,64,10,0,0,2,0,80,6]) 0)
        = toList 13 (storeKeyV4 (EPHashV4_Reverse (ofList [10,0,0,1,156,64,10,0,0,2,0,80,6])) 0) := by decide
example : toList 13 (storeKeyV4 (ofList [10,0,0,2,0,80,10,0,0,1,156,64,6]) 16) = [10,0,0,1,156,64,10,0,0,2,0,80,6] := by decide
-- with identical ports the heuristic is *not* symmetric (why `hne` is needed): both directions "remain"
example : toList 13 (storeKeyV4 (ofList [10,0,0,1,0,53,10,0,0,2,0,53,17]) 0)
        ≠ toList 13 (storeKeyV4 (EPHashV4_Reverse (ofList [10,0,0,1,0,53,10,0,0,2,0,53,17])) 0) := by decide

end C22
