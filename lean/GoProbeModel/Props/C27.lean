import GoProbeModel.Model.C27

/-!
C27 — property theorems (capture reconfiguration). Statements about the hand model
`Model/C27.lean` of `Manager.Update` / `updateSelected` / `update` / `Close` / the scheduled write-out
and of `Ifaces.Matcher` / `FindMatch` / `Equals` (after the `fix:` commits), for ALL sequences of
operations (updates with arbitrary configurations — valid or rejected, explicit names, regexps,
auto-detection —, traffic, scheduled write-outs, link lister failures, Close), ALL sets of host
links and an ARBITRARY regular-expression library (`Rx`).

* `converges` (with `update_converges`, `rejected_keeps_state`, `reported_is_actual`, `rejects_iff`)
  — after any history and a successful update the running captures are exactly the spec's `target`
  of the LATEST configuration, each with the spec's parameters; a rejected update changes nothing;
  `Config()` reports what the captures really run with. Captures start iff the interface is a host link.
* `deterministic_cfg` (with `findMatch_order_irrelevant`, `findMatch_eq_select`, `select_perm`,
  `minBy_mem`, `minBy_le`) — the parameters are a function of (configuration as a map, name):
  neither the iteration order of Go's regexp map nor the order of the entries matters.
* `final_writeout` (with `update_final_writeout`, `close_final_writeout`, `rotate_writeout`) — a
  capture stopped by an update (removed or restarted) has handed its complete flow log to the
  write-out handler in that update, before being closed; other captures continue untouched.
* `late_packets_lost` — the known finding: packets recorded between the final write-out and the
  close are lost (which is why `final_writeout` speaks about updates without `late` packets).
* examples: non-vacuity on a concrete history, the repaired defects in the model of the original
  code (first-match `FindMatch`, two-field `Equals`), and failures outside the hypotheses.
-/
namespace C27

theorem ringEquals_iff (a b : Option (Int × Int)) : ringEquals a b = true ↔ a = b := by
  unfold ringEquals
  rcases a with _ | ⟨a1, a2⟩ <;> rcases b with _ | ⟨b1, b2⟩ <;> simp

theorem equals_iff (a b : Params) : equals a b = true ↔ a = b := by
  cases a; cases b
  simp only [equals, Bool.and_eq_true, ringEquals_iff, beq_iff_eq, Params.mk.injEq]
  constructor
  · rintro ⟨⟨⟨⟨h1, h2⟩, h3⟩, h4⟩, h5⟩; exact ⟨h2, h1, h4, h5, h3⟩
  · rintro ⟨h2, h1, h4, h5, h3⟩; exact ⟨⟨⟨⟨h1, h2⟩, h3⟩, h4⟩, h5⟩

/-! ## ties to the regenerated source facts -/

/-- the default parameters of the current source are the ones the spec speaks about -/
theorem modelDefault_eq : modelDefault = defaultParams := by decide

/-- in the current source of `Manager.update` the final write-out (`cm.performWriteout`) comes
    before the captures are closed (`mc.close`), and those before the new ones are started -/
theorem writeout_before_close_in_source :
    Gen.Facts.c27_update_calls.idxOf "cm.performWriteout" < Gen.Facts.c27_update_calls.idxOf "lit:mc.close" ∧
    Gen.Facts.c27_update_calls.idxOf "lit:mc.close" < Gen.Facts.c27_update_calls.idxOf "lit:newCap.run" ∧
    "cm.performWriteout" ∈ Gen.Facts.c27_update_calls ∧ "lit:mc.close" ∈ Gen.Facts.c27_update_calls := by
  decide

/-! ## the choice rule -/

/-- keep the element with the smaller key (generalises `better`) -/
def betterBy {α : Type} (k : α → String) (best : Option α) (e : α) : Option α :=
  match best with
  | none => some e
  | some b => if k e < k b then some e else some b

def minBy {α : Type} (k : α → String) (l : List α) : Option α := l.foldl (betterBy k) none

theorem better_eq : better = betterBy (fun e : String × Params => pat e.1) := by
  funext b e; cases b <;> rfl
theorem minEntry_eq (l : List (String × Params)) : minEntry l = minBy (fun e => pat e.1) l := by
  unfold minEntry minBy; rw [better_eq]

theorem foldl_better_some {α : Type} (k : α → String) (l : List α) (b : α) :
    ∃ m, l.foldl (betterBy k) (some b) = some m ∧ (m = b ∨ m ∈ l) ∧ k m ≤ k b ∧
      ∀ e ∈ l, k m ≤ k e := by
  induction l generalizing b with
  | nil => exact ⟨b, rfl, Or.inl rfl, String.le_refl _, by simp⟩
  | cons e t ih =>
    simp only [List.foldl_cons, betterBy]
    by_cases h : k e < k b
    · rw [if_pos h]
      obtain ⟨m, hm, hmem, hle, hall⟩ := ih e
      refine ⟨m, hm, ?_, String.le_trans hle (Std.le_of_lt h), ?_⟩
      · rcases hmem with h1 | h1
        · exact Or.inr (by simp [h1])
        · exact Or.inr (by simp [h1])
      · intro x hx
        rcases List.mem_cons.mp hx with h1 | h1
        · rw [h1]; exact hle
        · exact hall x h1
    · rw [if_neg h]
      obtain ⟨m, hm, hmem, hle, hall⟩ := ih b
      refine ⟨m, hm, ?_, hle, ?_⟩
      · rcases hmem with h1 | h1
        · exact Or.inl h1
        · exact Or.inr (by simp [h1])
      · intro x hx
        rcases List.mem_cons.mp hx with h1 | h1
        · rw [h1]; exact String.le_trans hle (String.not_lt.mp h)
        · exact hall x h1

theorem minBy_nil_iff {α : Type} (k : α → String) (l : List α) : minBy k l = none ↔ l = [] := by
  cases l with
  | nil => simp [minBy]
  | cons e t =>
    obtain ⟨m, hm, -⟩ := foldl_better_some k t e
    simp [minBy, betterBy, hm]

/-- the chosen entry is one of the candidates … -/
theorem minBy_mem {α : Type} {k : α → String} {l : List α} {m : α} (h : minBy k l = some m) :
    m ∈ l := by
  cases l with
  | nil => simp [minBy] at h
  | cons e t =>
    obtain ⟨m', hm, hmem, -⟩ := foldl_better_some k t e
    simp only [minBy, List.foldl_cons, betterBy] at h
    rw [hm] at h
    cases h
    rcases hmem with h1 | h1
    · simp [h1]
    · simp [h1]

/-- … and no candidate has a smaller pattern -/
theorem minBy_le {α : Type} {k : α → String} {l : List α} {m : α} (h : minBy k l = some m) :
    ∀ e ∈ l, k m ≤ k e := by
  cases l with
  | nil => simp [minBy] at h
  | cons e t =>
    obtain ⟨m', hm, -, hle, hall⟩ := foldl_better_some k t e
    simp only [minBy, List.foldl_cons, betterBy] at h
    rw [hm] at h
    cases h
    intro x hx
    rcases List.mem_cons.mp hx with h1 | h1
    · rw [h1]; exact hle
    · exact hall x h1

/-- the choice does not depend on the order in which the candidates are listed, as long as their
    patterns are pairwise different -/
theorem minBy_perm {α : Type} {k : α → String} {l₁ l₂ : List α} (hp : l₁.Perm l₂)
    (hnd : (l₁.map k).Nodup) : minBy k l₁ = minBy k l₂ := by
  cases h1 : minBy k l₁ with
  | none =>
    rw [minBy_nil_iff] at h1
    subst h1
    have := hp.symm.eq_nil
    subst this
    rfl
  | some m₁ =>
    cases h2 : minBy k l₂ with
    | none =>
      rw [minBy_nil_iff] at h2
      subst h2
      have := hp.eq_nil
      subst this
      simp [minBy] at h1
    | some m₂ =>
      have hm1 := minBy_mem h1
      have hm2 := minBy_mem h2
      have hm2' : m₂ ∈ l₁ := hp.mem_iff.mpr hm2
      have hm1' : m₁ ∈ l₂ := hp.mem_iff.mp hm1
      have e : k m₁ = k m₂ :=
        String.le_antisymm (minBy_le h1 _ hm2') (minBy_le h2 _ hm1')
      -- equal patterns in a list with pairwise different patterns: the same entry
      have : m₁ = m₂ := by
        clear h1 h2 hm1' hm2 hp
        induction l₁ with
        | nil => cases hm1
        | cons x t ih =>
          simp only [List.map_cons, List.nodup_cons, List.mem_map, not_exists, not_and] at hnd
          rcases List.mem_cons.mp hm1 with a | a <;> rcases List.mem_cons.mp hm2' with b | b
          · rw [a, b]
          · exact absurd (by rw [← a, e]) (hnd.1 m₂ b)
          · exact absurd (by rw [← b, ← e]) (hnd.1 m₁ a)
          · exact ih hnd.2 a b
      rw [this]

/-! ## `FindMatch` -/

/-- the loop of `FindMatch` over the regexp map computes the smallest matching pattern -/
theorem foldl_pickRe (rx : Rx) (n : Name) (order : List (String × Params)) (acc : Option (String × Params)) :
    order.foldl (pickRe rx n) acc = (order.filter fun e => rx.hit e.1 n).foldl (betterBy (·.1)) acc := by
  induction order generalizing acc with
  | nil => rfl
  | cons e t ih =>
    simp only [List.foldl_cons, List.filter_cons]
    cases hh : rx.hit e.1 n
    · simp only [Bool.false_eq_true, if_false]
      rw [← ih]; simp [pickRe, hh]
    · simp only [if_true, List.foldl_cons]
      rw [← ih]
      congr 1
      cases acc with
      | none => simp [pickRe, hh, betterBy]
      | some b =>
        by_cases hlt : e.1 < b.1 <;> simp [pickRe, hh, betterBy, hlt]

/-- **deterministic_cfg (map order)** — the result of `FindMatch` does not depend on the order in
    which Go iterates the map of compiled regexps (whose patterns are pairwise different) -/
theorem findMatch_order_irrelevant (rx : Rx) (direct : Entries) (o₁ o₂ : List (String × Params))
    (hp : o₁.Perm o₂) (hnd : (o₁.map (·.1)).Nodup) (n : Name) :
    findMatchOrd rx direct o₁ n = findMatchOrd rx direct o₂ n := by
  unfold findMatchOrd
  cases direct.find? (fun e => e.1 == n) with
  | some e => rfl
  | none =>
    simp only
    rw [foldl_pickRe, foldl_pickRe]
    have h1 : ((o₁.filter fun e => rx.hit e.1 n).map (·.1)).Nodup :=
      (List.filter_sublist.map _).nodup hnd
    have := minBy_perm (k := fun e : String × Params => e.1) (hp.filter fun e => rx.hit e.1 n) h1
    unfold minBy at this
    rw [this]

theorem foldl_pickRe_entries (rx : Rx) (n : Name) (L : Entries) (acc : Option (String × Params)) :
    ((L.filter fun e => isRe e.1).map fun e => (pat e.1, e.2)).foldl (pickRe rx n)
        (acc.map fun e => (pat e.1, e.2))
      = ((L.filter fun e => isRe e.1 && rx.hit (pat e.1) n).foldl better acc).map
          fun e => (pat e.1, e.2) := by
  induction L generalizing acc with
  | nil => rfl
  | cons e t ih =>
    simp only [List.filter_cons]
    cases hr : isRe e.1
    · simpa using ih acc
    · cases hh : rx.hit (pat e.1) n
      · simp only [Bool.and_false, Bool.false_eq_true, if_false, if_true, List.map_cons, List.foldl_cons]
        have : pickRe rx n (acc.map fun e => (pat e.1, e.2)) (pat e.1, e.2) = acc.map fun e => (pat e.1, e.2) := by
          simp [pickRe, hh]
        rw [this]; exact ih acc
      · simp only [Bool.and_self, if_true, List.map_cons, List.foldl_cons]
        have : pickRe rx n (acc.map fun e => (pat e.1, e.2)) (pat e.1, e.2)
            = (better acc e).map fun e => (pat e.1, e.2) := by
          cases acc with
          | none => simp [pickRe, hh, better]
          | some b => by_cases hlt : pat e.1 < pat b.1 <;> simp [pickRe, hh, better, hlt]
        rw [this]; exact ih _

/-- **deterministic_cfg (refinement)** — `FindMatch` as written computes the spec's choice function
    `select`: an explicit name wins, otherwise the smallest matching pattern -/
theorem findMatch_eq_select (rx : Rx) (es : Entries) (n : Name) :
    findMatch rx es n = select rx es n := by
  unfold findMatch findMatchOrd select matcherOf
  simp only
  rw [List.find?_filter]
  have hf : (fun a : String × Params => decide ((!isRe a.1) = true ∧ (a.1 == n) = true))
      = fun e => !isRe e.1 && e.1 == n := by
    funext a; cases isRe a.1 <;> cases (a.1 == n) <;> rfl
  rw [hf]
  cases es.find? (fun e => !isRe e.1 && e.1 == n) with
  | some e => rfl
  | none =>
    simp only
    have := foldl_pickRe_entries rx n es none
    simp only [Option.map_none] at this
    rw [this]
    unfold minEntry
    cases (es.filter fun e => isRe e.1 && rx.hit (pat e.1) n).foldl better none <;> rfl

/-- the documented choice rule is one of the outcomes the judge accepts for an interface (the judge
    accepts any choice among the matching entries that is a function of configuration and name) -/
theorem want_outcomeOk (rx : Rx) (cfg : Config) (n : Name) : outcomeOk rx cfg n (want rx cfg n) = true := by
  cases cfg with
  | auto ex =>
    simp only [want, outcomeOk, admissible]
    cases excluded rx ex n
    · simp [defaultParams]
    · simp
  | ifaces es =>
    have hw : want rx (.ifaces es) n = (match select rx es n with
        | some p => if p.disable then none else some p
        | none => none) := rfl
    rw [hw]
    unfold select
    cases hf : es.find? (fun e => !isRe e.1 && e.1 == n) with
    | some e =>
      simp only
      cases hd : e.2.disable
      · simp [outcomeOk, admissible, hf, hd]
      · simp [outcomeOk, admissible, hf, hd]
    | none =>
      simp only
      cases hm : minEntry (es.filter fun e => isRe e.1 && rx.hit (pat e.1) n) with
      | none =>
        rw [minEntry_eq, minBy_nil_iff] at hm
        simp [outcomeOk, admissible, hf, hm]
      | some m =>
        rw [minEntry_eq] at hm
        have hmem := minBy_mem hm
        simp only [Option.map_some]
        cases hd : m.2.disable
        · simp only [Bool.false_eq_true, if_false, outcomeOk, admissible, hf, Bool.and_eq_true,
            List.contains_iff_mem, List.mem_map, Bool.not_eq_true']
          exact ⟨⟨m, hmem, rfl⟩, hd⟩
        · simp only [if_true, outcomeOk, admissible, hf, Bool.or_eq_true, List.any_eq_true, List.mem_map]
          exact Or.inr ⟨m.2, ⟨m, hmem, rfl⟩, hd⟩

/-! ### the order of the entries in the configuration is irrelevant as well -/

theorem key_of_pat {k : String} (h : isRe k = true) : k = "/" ++ pat k ++ "/" := by
  apply String.toList_inj.mp
  simp only [isRe, Bool.and_eq_true, decide_eq_true_eq, beq_iff_eq] at h
  obtain ⟨⟨hl, hh⟩, hlast⟩ := h
  rw [String.length] at hl
  simp only [pat, String.toList_append, String.toList_ofList]
  generalize k.toList = l at *
  match l, hl, hh, hlast with
  | a :: b :: t, _, hh, hlast =>
    simp only [List.head?_cons, Option.some.injEq] at hh
    subst hh
    have hne : b :: t ≠ [] := by simp
    have : (b :: t).getLast? = some '/' := by simpa [List.getLast?_cons_cons] using hlast
    rw [List.getLast?_eq_some_getLast hne] at this
    simp only [Option.some.injEq] at this
    have h2 := List.dropLast_concat_getLast hne
    rw [this] at h2
    simp only [List.drop_succ_cons, List.drop_zero]
    show '/' :: b :: t = "/".toList ++ (b :: t).dropLast ++ "/".toList
    have : "/".toList = ['/'] := rfl
    rw [this, List.singleton_append, List.cons_append, h2]

theorem pat_inj {k₁ k₂ : String} (h1 : isRe k₁ = true) (h2 : isRe k₂ = true) (h : pat k₁ = pat k₂) :
    k₁ = k₂ := by
  rw [key_of_pat h1, key_of_pat h2, h]

theorem find?_perm_unique {α : Type} {p : α → Bool} {l₁ l₂ : List α} (hp : l₁.Perm l₂)
    (hu : ∀ a ∈ l₁, ∀ b ∈ l₁, p a = true → p b = true → a = b) : l₁.find? p = l₂.find? p := by
  cases h1 : l₁.find? p with
  | none =>
    rw [List.find?_eq_none] at h1
    symm; rw [List.find?_eq_none]
    intro x hx; exact h1 x (hp.mem_iff.mpr hx)
  | some a =>
    cases h2 : l₂.find? p with
    | none =>
      rw [List.find?_eq_none] at h2
      exact absurd (List.find?_some h1) (h2 a (hp.mem_iff.mp (List.mem_of_find?_eq_some h1)))
    | some b =>
      rw [hu a (List.mem_of_find?_eq_some h1) b (hp.mem_iff.mpr (List.mem_of_find?_eq_some h2))
        (List.find?_some h1) (List.find?_some h2)]

theorem entry_unique {es : Entries} (hnd : (es.map (·.1)).Nodup) {a b : String × Params}
    (ha : a ∈ es) (hb : b ∈ es) (h : a.1 = b.1) : a = b := by
  induction es with
  | nil => cases ha
  | cons x t ih =>
    simp only [List.map_cons, List.nodup_cons, List.mem_map, not_exists, not_and] at hnd
    rcases List.mem_cons.mp ha with h1 | h1 <;> rcases List.mem_cons.mp hb with h2 | h2
    · rw [h1, h2]
    · exact absurd (by rw [← h1, h]) (hnd.1 b h2)
    · exact absurd (by rw [← h2, ← h]) (hnd.1 a h1)
    · exact ih hnd.2 h1 h2

/-- **deterministic_cfg (configuration order)** — the selected parameters are a function of the
    configuration as a *map*: listing the same entries in another order selects the same parameters -/
theorem select_perm (rx : Rx) {es₁ es₂ : Entries} (hp : es₁.Perm es₂)
    (hnd : (es₁.map (·.1)).Nodup) (n : Name) : select rx es₁ n = select rx es₂ n := by
  unfold select
  have hd : es₁.find? (fun e => !isRe e.1 && e.1 == n) = es₂.find? (fun e => !isRe e.1 && e.1 == n) := by
    apply find?_perm_unique hp
    intro a ha b hb pa pb
    simp only [Bool.and_eq_true, beq_iff_eq] at pa pb
    exact entry_unique hnd ha hb (by rw [pa.2, pb.2])
  rw [hd]
  cases es₂.find? (fun e => !isRe e.1 && e.1 == n) with
  | some e => rfl
  | none =>
    simp only
    rw [minEntry_eq, minEntry_eq]
    have hpf := hp.filter fun e => isRe e.1 && rx.hit (pat e.1) n
    have hnd' : ((es₁.filter fun e => isRe e.1 && rx.hit (pat e.1) n).map fun e => pat e.1).Nodup := by
      have hsub : ((es₁.filter fun e => isRe e.1 && rx.hit (pat e.1) n).map (·.1)).Nodup :=
        (List.filter_sublist.map _).nodup hnd
      generalize hL : es₁.filter (fun e => isRe e.1 && rx.hit (pat e.1) n) = L at hsub
      have hall : ∀ e ∈ L, isRe e.1 = true := by
        intro e he; rw [← hL] at he
        have := (List.mem_filter.mp he).2
        simp only [Bool.and_eq_true] at this; exact this.1
      clear hL
      induction L with
      | nil => simp
      | cons x t ih =>
        simp only [List.map_cons, List.nodup_cons, List.mem_map, not_exists, not_and] at hsub ⊢
        refine ⟨?_, ih hsub.2 (fun e he => hall e (by simp [he]))⟩
        intro y hy hpat
        exact hsub.1 y hy (pat_inj (hall y (by simp [hy])) (hall x (by simp)) hpat)
    rw [minBy_perm hpf hnd']

/-! ## the reconfiguration on the level of (name, parameters) -/

/-- name and parameters of a running capture -/
def np (c : Cap) : Name × Params := (c.name, c.params)

/-- the running captures of a state -/
def runOf (st : St) : List (Name × Params) := st.caps.map np

theorem isRunning_eq (st : St) (n : Name) : isRunning st n = (runOf st).any fun x => x.1 == n := by
  simp [isRunning, runOf, np, List.any_map, Function.comp_def]

theorem rotate_np (caps : List Cap) (names : List Name) : (rotate caps names).1.map np = caps.map np := by
  simp only [rotate, List.map_map]
  congr 1; funext c
  simp only [Function.comp, np]
  split <;> rfl

theorem record_np (caps : List Cap) (i : Name) (f n : Nat) : (record caps i f n).map np = caps.map np := by
  simp only [record, List.map_map]
  congr 1; funext c
  simp only [Function.comp, np]
  split <;> rfl

theorem update_run (links : List Name) (st : St) (ifaces : Entries) (en dis : List Name)
    (late : Option (Name × Nat × Nat)) :
    runOf (update links st ifaces en dis late).1
      = ((runOf st).filter fun x => !dis.contains x.1) ++
          (en.filter fun n => links.contains n).map fun n => (n, lastOf ifaces n) := by
  have key : ∀ caps2 : List Cap, caps2.map np = st.caps.map np →
      ((caps2.filter fun c => !dis.contains c.name) ++
        ((en.filter fun n => links.contains n).map fun n => (⟨n, lastOf ifaces n, []⟩ : Cap))).map np
      = ((st.caps.map np).filter fun x => !dis.contains x.1) ++
          (en.filter fun n => links.contains n).map fun n => (n, lastOf ifaces n) := by
    intro caps2 h
    rw [List.map_append, ← h, List.filter_map, List.map_map]
    rfl
  unfold update runOf
  have h1 : (finalWriteout st.caps dis).1.map np = st.caps.map np := by
    unfold finalWriteout; split
    · rfl
    · exact rotate_np _ _
  have h2 : (lateArrival (finalWriteout st.caps dis).1 (finalWriteout st.caps dis).2 late).1.map np
      = st.caps.map np := by
    rw [← h1]
    cases late with
    | none => rfl
    | some l =>
      obtain ⟨i, f, n⟩ := l
      simp only [lateArrival]
      split
      · exact record_np _ _ _ _
      · rfl
  exact key _ h2

theorem update_last (links : List Name) (st : St) (ifaces : Entries) (en dis : List Name)
    (late : Option (Name × Nat × Nat)) :
    (update links st ifaces en dis late).1.last = ifaces ∧
    (update links st ifaces en dis late).1.linkErr = st.linkErr := by
  unfold update
  exact ⟨rfl, rfl⟩

/-- the running captures after `updateSelected`, as a function of the running captures before -/
def nextRun (links : List Name) (R : List (Name × Params)) (last ifaces : Entries) : List (Name × Params) :=
  let en := (ifaces.filter fun e => !R.any fun x => x.1 == e.1).map (·.1)
  let up := (ifaces.filter fun e => (R.any fun x => x.1 == e.1) && !equals e.2 (lastOf last e.1)).map (·.1)
  let dis := (R.filter fun x => !ifaces.any fun e => e.1 == x.1).map (·.1)
  (R.filter fun x => !(dis ++ up).contains x.1) ++
    ((en ++ up).filter fun n => links.contains n).map fun n => (n, lastOf ifaces n)

theorem updateSelected_run (links : List Name) (st : St) (ifaces0 : Entries)
    (late : Option (Name × Nat × Nat)) :
    runOf (updateSelected links st ifaces0 late).1
      = nextRun links (runOf st) st.last (ifaces0.filter fun e => !e.2.disable) := by
  unfold updateSelected nextRun
  simp only [update_run]
  have h1 : (fun e : String × Params => !isRunning st e.1) = fun e => !(runOf st).any fun x => x.1 == e.1 := by
    funext e; rw [isRunning_eq]
  have h2 : (fun e : String × Params => isRunning st e.1 && !equals e.2 (lastOf st.last e.1))
      = fun e => ((runOf st).any fun x => x.1 == e.1) && !equals e.2 (lastOf st.last e.1) := by
    funext e; rw [isRunning_eq]
  have h3 : ∀ ifaces : Entries, (st.caps.filter fun c => !ifaces.any fun e => e.1 == c.name).map (·.name)
      = ((runOf st).filter fun x => !ifaces.any fun e => e.1 == x.1).map (·.1) := by
    intro ifaces
    simp only [runOf, List.filter_map, List.map_map]
    rfl
  rw [h1, h2, h3]

theorem updateSelected_last (links : List Name) (st : St) (ifaces0 : Entries)
    (late : Option (Name × Nat × Nat)) :
    (updateSelected links st ifaces0 late).1.last = ifaces0.filter (fun e => !e.2.disable) ∧
    (updateSelected links st ifaces0 late).1.linkErr = st.linkErr := by
  unfold updateSelected
  exact update_last _ _ _ _ _ _

theorem lastOf_mem {es : Entries} (hnd : (es.map (·.1)).Nodup) {n : Name} {p : Params}
    (h : (n, p) ∈ es) : lastOf es n = p := by
  unfold lastOf
  cases hf : es.find? (fun e => e.1 == n) with
  | none =>
    rw [List.find?_eq_none] at hf
    exact absurd (by simp) (hf _ h)
  | some e =>
    have he := List.mem_of_find?_eq_some hf
    have hk := List.find?_some hf
    simp only [beq_iff_eq] at hk
    have := entry_unique hnd he h hk
    rw [this]

theorem find?_mem {es : Entries} (hnd : (es.map (·.1)).Nodup) {n : Name} {p : Params}
    (h : (n, p) ∈ es) : es.find? (fun e => e.1 == n) = some (n, p) := by
  cases hf : es.find? (fun e => e.1 == n) with
  | none =>
    rw [List.find?_eq_none] at hf
    exact absurd (by simp) (hf _ h)
  | some e =>
    have he := List.mem_of_find?_eq_some hf
    have hk := List.find?_some hf
    simp only [beq_iff_eq] at hk
    rw [entry_unique hnd he h hk]

theorem not_contains_iff (l : List Name) (x : Name) : (!l.contains x) = true ↔ x ∉ l := by simp
theorem not_any_iff {α : Type} (l : List α) (f : α → Bool) : (!l.any f) = true ↔ ∀ y ∈ l, ¬ f y = true := by simp
theorem not_equals_iff (a b : Params) : (!equals a b) = true ↔ equals a b = false := by simp

/-- hypotheses on the state before the update -/
structure RunInv (links : List Name) (R : List (Name × Params)) (last : Entries) : Prop where
  nodup : (R.map (·.1)).Nodup
  onLink : ∀ x ∈ R, x.1 ∈ links
  /-- what `Config()` reports is what the capture runs with -/
  reported : ∀ x ∈ R, lastOf last x.1 = x.2

theorem nextRun_mem (links : List Name) (R : List (Name × Params)) (last ifaces : Entries)
    (hI : RunInv links R last) (hK : (ifaces.map (·.1)).Nodup) (n : Name) (p : Params) :
    (n, p) ∈ nextRun links R last ifaces ↔ n ∈ links ∧ (n, p) ∈ ifaces := by
  have hany : ∀ m : Name, (R.any fun x => x.1 == m) = true ↔ ∃ q, (m, q) ∈ R := by
    intro m
    simp only [List.any_eq_true, beq_iff_eq]
    constructor
    · rintro ⟨x, hx, rfl⟩; exact ⟨x.2, hx⟩
    · rintro ⟨q, hq⟩; exact ⟨(m, q), hq, rfl⟩
  have hRu : ∀ q q', (n, q) ∈ R → (n, q') ∈ R → q = q' := by
    intro q q' h1 h2
    have := entry_unique hI.nodup h1 h2 rfl
    exact (Prod.mk.inj this).2
  unfold nextRun
  simp only [List.mem_append, List.mem_filter, List.mem_map, not_contains_iff, not_any_iff, not_equals_iff, List.contains_iff_mem,
    Bool.and_eq_true, beq_iff_eq]
  constructor
  · rintro (⟨hR, hnot⟩ | ⟨m, ⟨hm, hl⟩, hmp⟩)
    · -- the capture keeps running
      have hl := hI.onLink _ hR
      refine ⟨hl, ?_⟩
      have hex : ∃ e ∈ ifaces, e.1 = n := by
        apply Classical.byContradiction
        intro hne
        apply hnot
        left
        refine ⟨(n, p), ⟨hR, ?_⟩, rfl⟩
        intro e he h
        exact hne ⟨e, he, h⟩
      obtain ⟨e, he, hen⟩ := hex
      have heq : equals e.2 (lastOf last e.1) = true := by
        cases hq : equals e.2 (lastOf last e.1) with
        | true => rfl
        | false =>
          exfalso; apply hnot; right
          refine ⟨e, ⟨he, ?_, hq⟩, hen⟩
          rw [hany]; exact ⟨p, by rw [hen]; exact hR⟩
      rw [equals_iff, hen, hI.reported _ hR] at heq
      have : e = (n, p) := by
        rcases e with ⟨a, b⟩
        simp only at hen heq
        rw [hen, heq]
      rw [← this]; exact he
    · -- the capture was started by this update
      simp only [Prod.mk.injEq] at hmp
      obtain ⟨rfl, hp⟩ := hmp
      refine ⟨hl, ?_⟩
      have hex : ∃ e ∈ ifaces, e.1 = m := by
        rcases hm with ⟨e, ⟨he, -⟩, h⟩ | ⟨e, ⟨he, -⟩, h⟩ <;> exact ⟨e, he, h⟩
      obtain ⟨e, he, hem⟩ := hex
      have : lastOf ifaces m = e.2 := lastOf_mem hK (by rw [← hem]; exact he)
      rw [← hp, this, ← hem]; exact he
  · rintro ⟨hl, hmem⟩
    by_cases hrun : (R.any fun x => x.1 == n) = true
    · obtain ⟨q, hq⟩ := (hany n).mp hrun
      by_cases heq : equals p (lastOf last n) = true
      · left
        rw [equals_iff, hI.reported _ hq] at heq
        subst heq
        refine ⟨hq, ?_⟩
        rintro (⟨x, ⟨-, hx⟩, hxn⟩ | ⟨e, ⟨he, -, hne⟩, hen⟩)
        · exact hx (n, p) hmem (by simp [hxn])
        · have : e = (n, p) := entry_unique hK he hmem hen
          rw [this] at hne
          simp only at hne
          rw [hI.reported _ hq] at hne
          have : equals p p = true := (equals_iff _ _).mpr rfl
          rw [this] at hne; cases hne
      · right
        refine ⟨n, ⟨Or.inr ⟨(n, p), ⟨hmem, hrun, ?_⟩, rfl⟩, hl⟩, ?_⟩
        · simpa using heq
        · rw [lastOf_mem hK hmem]
    · right
      refine ⟨n, ⟨Or.inl ⟨(n, p), ⟨hmem, ?_⟩, rfl⟩, hl⟩, ?_⟩
      · intro x hx hxn
        apply hrun
        rw [hany]; exact ⟨x.2, by have h' : x.1 = n := hxn; rw [← h']; exact hx⟩
      · rw [lastOf_mem hK hmem]

theorem nextRun_nodup (links : List Name) (R : List (Name × Params)) (last ifaces : Entries)
    (hI : RunInv links R last) (hK : (ifaces.map (·.1)).Nodup) :
    ((nextRun links R last ifaces).map (·.1)).Nodup := by
  unfold nextRun
  simp only [List.map_append, List.map_map]
  have hid : ((fun x : Name × Params => x.1) ∘ fun n => (n, lastOf ifaces n)) = id := rfl
  rw [hid, List.map_id]
  have hen : ((ifaces.filter fun e => !R.any fun x => x.1 == e.1).map (·.1)).Nodup :=
    (List.filter_sublist.map _).nodup hK
  have hup : ((ifaces.filter fun e => (R.any fun x => x.1 == e.1) && !equals e.2 (lastOf last e.1)).map (·.1)).Nodup :=
    (List.filter_sublist.map _).nodup hK
  rw [List.nodup_append]
  refine ⟨(List.filter_sublist.map _).nodup hI.nodup, List.filter_sublist.nodup ?_, ?_⟩
  · rw [List.nodup_append]
    refine ⟨hen, hup, ?_⟩
    intro a ha b hb hab
    subst hab
    simp only [List.mem_map, List.mem_filter, not_any_iff, Bool.and_eq_true, beq_iff_eq] at ha hb
    obtain ⟨e, ⟨-, hno⟩, rfl⟩ := ha
    obtain ⟨e', ⟨-, hany, -⟩, he'⟩ := hb
    rw [List.any_eq_true] at hany
    obtain ⟨x, hx, hxe⟩ := hany
    simp only [beq_iff_eq] at hxe
    exact hno x hx (by rw [hxe, he'])
  · intro a ha b hb hab
    subst hab
    simp only [List.mem_map, List.mem_filter, not_contains_iff, List.mem_append, not_any_iff,
      Bool.and_eq_true, beq_iff_eq] at ha hb
    obtain ⟨x, ⟨hx, hnot⟩, rfl⟩ := ha
    rcases hb.1 with ⟨e, ⟨-, hno⟩, he⟩ | hb'
    · exact hno x hx (by rw [he])
    · exact hnot (Or.inr hb')

/-! ## building the selected interfaces from the host links -/

theorem upsert_keys (es : Entries) (k : String) (p : Params) (hnd : (es.map (·.1)).Nodup) :
    ((upsert es k p).map (·.1)).Nodup := by
  unfold upsert
  split
  · have : (es.map fun e => if e.1 == k then (k, p) else e).map (·.1) = es.map (·.1) := by
      rw [List.map_map]; apply List.map_congr_left
      intro e _
      simp only [Function.comp]
      split
      · rename_i h; simp only [beq_iff_eq] at h; exact h.symm
      · rfl
    rw [this]; exact hnd
  · rename_i h
    simp only [List.map_append, List.map_cons, List.map_nil]
    rw [List.nodup_append]
    refine ⟨hnd, by simp, ?_⟩
    intro a ha b hb hab
    simp only [List.mem_singleton] at hb
    subst hb; subst hab
    apply h
    simp only [List.mem_map] at ha
    obtain ⟨e, he, rfl⟩ := ha
    simp only [List.any_eq_true, beq_iff_eq]
    exact ⟨e, he, rfl⟩

theorem mem_upsert (es : Entries) (k : String) (p : Params) (a : String) (b : Params) :
    (a, b) ∈ upsert es k p ↔ (a = k ∧ b = p ∧ True) ∨ (a ≠ k ∧ (a, b) ∈ es) ∨
      (a = k ∧ b = p ∧ False) := by
  unfold upsert
  split
  · rename_i h
    simp only [List.any_eq_true, beq_iff_eq] at h
    obtain ⟨e0, he0, hk0⟩ := h
    simp only [List.mem_map, and_true, and_false, or_false]
    constructor
    · rintro ⟨e, he, heq⟩
      split at heq
      · simp only [Prod.mk.injEq] at heq; exact Or.inl ⟨heq.1.symm, heq.2.symm⟩
      · rename_i hne
        simp only [beq_iff_eq] at hne
        subst heq
        exact Or.inr ⟨hne, he⟩
    · rintro (⟨rfl, rfl⟩ | ⟨hne, hm⟩)
      · exact ⟨e0, he0, by simp [hk0]⟩
      · exact ⟨(a, b), hm, by simp [hne]⟩
  · rename_i h
    simp only [List.any_eq_true, beq_iff_eq, not_exists, not_and] at h
    simp only [List.mem_append, List.mem_singleton, Prod.mk.injEq, and_true, and_false, or_false]
    constructor
    · rintro (hm | ⟨rfl, rfl⟩)
      · exact Or.inr ⟨fun hak => h _ hm hak, hm⟩
      · exact Or.inl ⟨rfl, rfl⟩
    · rintro (⟨rfl, rfl⟩ | ⟨_, hm⟩)
      · exact Or.inr ⟨rfl, rfl⟩
      · exact Or.inl hm

/-- one step of the loops in `filterMatchingIfaces` / `autodetectIfaces` -/
def addLink (g : Name → Option Params) (acc : Entries) (l : Name) : Entries :=
  match g l with
  | some c => upsert acc l c
  | none => acc

theorem foldl_addLink (g : Name → Option Params) (links : List Name) (acc : Entries)
    (hnd : (acc.map (·.1)).Nodup) (hg : ∀ a b, (a, b) ∈ acc → g a = some b) :
    ((links.foldl (addLink g) acc).map (·.1)).Nodup ∧
    ∀ a b, (a, b) ∈ links.foldl (addLink g) acc ↔ (a, b) ∈ acc ∨ (a ∈ links ∧ g a = some b) := by
  induction links generalizing acc with
  | nil => exact ⟨hnd, by simp⟩
  | cons l t ih =>
    simp only [List.foldl_cons]
    have hmem : ∀ a b, (a, b) ∈ addLink g acc l ↔ (a, b) ∈ acc ∨ (a = l ∧ g a = some b) := by
      intro a b
      unfold addLink
      cases hgl : g l with
      | none =>
        simp only
        constructor
        · exact Or.inl
        · rintro (h | ⟨rfl, h⟩)
          · exact h
          · rw [hgl] at h; cases h
      | some c =>
        simp only
        rw [mem_upsert]
        simp only [and_true, and_false, or_false]
        constructor
        · rintro (⟨rfl, rfl⟩ | ⟨_, h⟩)
          · exact Or.inr ⟨rfl, hgl⟩
          · exact Or.inl h
        · rintro (h | ⟨rfl, h⟩)
          · by_cases hal : a = l
            · subst hal
              have := hg _ _ h
              rw [hgl] at this
              simp only [Option.some.injEq] at this
              exact Or.inl ⟨rfl, this.symm⟩
            · exact Or.inr ⟨hal, h⟩
          · rw [hgl] at h
            simp only [Option.some.injEq] at h
            exact Or.inl ⟨rfl, h.symm⟩
    have hnd' : ((addLink g acc l).map (·.1)).Nodup := by
      unfold addLink
      cases g l with
      | none => exact hnd
      | some c => exact upsert_keys _ _ _ hnd
    have hg' : ∀ a b, (a, b) ∈ addLink g acc l → g a = some b := by
      intro a b h
      rcases (hmem a b).mp h with h | ⟨_, h⟩
      · exact hg a b h
      · exact h
    obtain ⟨h1, h2⟩ := ih _ hnd' hg'
    refine ⟨h1, ?_⟩
    intro a b
    rw [h2, hmem]
    simp only [List.mem_cons]
    constructor
    · rintro ((h | ⟨rfl, h⟩) | ⟨h, h'⟩)
      · exact Or.inl h
      · exact Or.inr ⟨Or.inl rfl, h⟩
      · exact Or.inr ⟨Or.inr h, h'⟩
    · rintro (h | ⟨rfl | h, h'⟩)
      · exact Or.inl (Or.inl h)
      · exact Or.inl (Or.inr ⟨rfl, h'⟩)
      · exact Or.inr ⟨h, h'⟩

theorem exclFound_eq (rx : Rx) (ex : List String) (n : Name) : exclFound rx ex n = excluded rx ex n := by
  unfold exclFound excluded
  rw [Bool.eq_iff_iff]
  simp only [Bool.or_eq_true, List.contains_iff_mem, List.mem_filter, List.any_eq_true, Bool.not_eq_true']
  constructor
  · rintro (⟨hm, hr⟩ | ⟨k, ⟨hk, hr⟩, hh⟩)
    · exact ⟨n, hm, by simp [hr]⟩
    · exact ⟨k, hk, by simp [hr, hh]⟩
  · rintro ⟨k, hk, h⟩
    cases hr : isRe k
    · rw [hr] at h
      simp only [Bool.false_eq_true, if_false, beq_iff_eq] at h
      subst h; exact Or.inl ⟨hk, hr⟩
    · rw [hr] at h
      simp only [if_true] at h
      exact Or.inr ⟨k, ⟨hk, hr⟩, h⟩

/-! ## what `Update` selects is what the spec wants -/

/-- configurations are Go maps: the keys are unique -/
def Config.wf : Config → Prop
  | .auto _ => True
  | .ifaces es => (es.map (·.1)).Nodup

def Op.wf : Op → Prop
  | .upd c _ => c.wf
  | _ => True

theorem select_of_mem {rx : Rx} {es : Entries} (hnd : (es.map (·.1)).Nodup)
    (hno : es.any (fun e => isRe e.1) = false) (n : Name) (p : Params) :
    (n, p) ∈ es ↔ select rx es n = some p := by
  have hre : ∀ e ∈ es, isRe e.1 = false := by
    intro e he
    cases h : isRe e.1 with
    | false => rfl
    | true =>
      have : es.any (fun e => isRe e.1) = true := List.any_eq_true.mpr ⟨e, he, h⟩
      rw [hno] at this; cases this
  have hfilter : es.filter (fun e => isRe e.1 && rx.hit (pat e.1) n) = [] := by
    rw [List.filter_eq_nil_iff]
    intro e he; simp [hre e he]
  have hfind' : ∀ l : Entries, (∀ e ∈ l, isRe e.1 = false) →
      l.find? (fun e => !isRe e.1 && e.1 == n) = l.find? (fun e => e.1 == n) := by
    intro l hl
    induction l with
    | nil => rfl
    | cons a t ih =>
      simp only [List.find?_cons]
      rw [hl a (by simp), ih (fun e he => hl e (by simp [he]))]
      rfl
  have hfind := hfind' es hre
  unfold select
  rw [hfind, hfilter]
  constructor
  · intro h; rw [find?_mem hnd h]
  · intro h
    cases hf : es.find? (fun e => e.1 == n) with
    | none => rw [hf] at h; simp [minEntry] at h
    | some e =>
      rw [hf] at h
      simp only [Option.some.injEq] at h
      have hk := List.find?_some hf
      simp only [beq_iff_eq] at hk
      have := List.mem_of_find?_eq_some hf
      rw [← hk, ← h]; exact this

theorem want_ifaces (rx : Rx) (es : Entries) (n : Name) (p : Params) :
    want rx (.ifaces es) n = some p ↔ select rx es n = some p ∧ p.disable = false := by
  have hw : want rx (.ifaces es) n = (match select rx es n with
      | some p => if p.disable then none else some p
      | none => none) := rfl
  rw [hw]
  generalize select rx es n = s
  cases s with
  | none => simp
  | some q =>
    simp only
    cases hq : q.disable
    · simp only [Bool.false_eq_true, if_false, Option.some.injEq]
      constructor
      · rintro rfl; exact ⟨rfl, hq⟩
      · rintro ⟨h, -⟩; exact h
    · simp only [if_true, Option.some.injEq]
      constructor
      · intro h; cases h
      · rintro ⟨rfl, h⟩; rw [hq] at h; cases h

/-- the interfaces `Update` hands to `updateSelected` are, on the host links, exactly those the
    spec selects, with the spec's parameters -/
theorem ifacesOf_spec (rx : Rx) (links : List Name) (st : St) (cfg : Config) (hwf : cfg.wf)
    (ifaces0 : Entries) (h : ifacesOf rx links st cfg = .ok ifaces0) :
    (ifaces0.map (·.1)).Nodup ∧
    ∀ n p, n ∈ links →
      ((n, p) ∈ ifaces0.filter (fun e => !e.2.disable) ↔ want rx cfg n = some p) := by
  cases cfg with
  | auto ex =>
    simp only [ifacesOf] at h
    split at h
    · cases h
    · split at h
      · cases h
      · simp only [Except.ok.injEq, modelDefault_eq] at h
        let g : Name → Option Params := fun l => if exclFound rx ex l then none else some defaultParams
        have hF : (fun (acc : Entries) (l : Name) => if exclFound rx ex l = true then acc else upsert acc l defaultParams)
            = addLink g := by
          funext acc l
          simp only [addLink, g]
          split <;> rfl
        rw [hF] at h
        obtain ⟨h1, h2⟩ := foldl_addLink g links [] (by simp) (by simp)
        rw [h] at h1 h2
        refine ⟨h1, ?_⟩
        intro n p hn
        simp only [List.mem_filter, h2, List.not_mem_nil, false_or, hn, true_and, g, want,
          exclFound_eq]
        cases excluded rx ex n
        · simp only [Bool.false_eq_true, if_false, Option.some.injEq]
          constructor
          · rintro ⟨h, -⟩; exact h
          · rintro rfl; exact ⟨rfl, rfl⟩
        · simp
  | ifaces es =>
    simp only [ifacesOf] at h
    split at h
    · cases h
    · split at h
      · cases h
      · split at h
        · split at h
          · cases h
          · simp only [Except.ok.injEq] at h
            have h : links.foldl (addLink (findMatch rx es)) [] = ifaces0 := h
            obtain ⟨h1, h2⟩ := foldl_addLink (findMatch rx es) links [] (by simp) (by simp)
            rw [h] at h1 h2
            refine ⟨h1, ?_⟩
            intro n p hn
            rw [want_ifaces, List.mem_filter, h2, findMatch_eq_select]
            simp [hn]
        · rename_i hno
          simp only [Except.ok.injEq] at h
          subst h
          refine ⟨hwf, ?_⟩
          intro n p _
          rw [want_ifaces, List.mem_filter, select_of_mem (rx := rx) hwf (by simpa using hno)]
          simp

/-! ## invariant of the manager state -/

/-- the running captures have pairwise different names, sit on host links, and `Config()` reports
    for each of them the parameters it really runs with -/
structure Inv (links : List Name) (st : St) : Prop where
  nodup : ((runOf st).map (·.1)).Nodup
  onLink : ∀ x ∈ runOf st, x.1 ∈ links
  reported : ∀ x ∈ runOf st, st.last.find? (fun e => e.1 == x.1) = some x

theorem Inv.runInv {links : List Name} {st : St} (h : Inv links st) : RunInv links (runOf st) st.last :=
  ⟨h.nodup, h.onLink, fun x hx => by unfold lastOf; rw [h.reported x hx]⟩

theorem inv_init (links : List Name) : Inv links {} := ⟨by simp [runOf], by simp [runOf], by simp [runOf]⟩

theorem inv_of_run_eq {links : List Name} {st st' : St} (h : Inv links st)
    (hr : runOf st' = runOf st) (hl : st'.last = st.last) : Inv links st' :=
  ⟨by rw [hr]; exact h.nodup, by rw [hr]; exact h.onLink, by rw [hr, hl]; exact h.reported⟩

theorem updateSelected_inv (links : List Name) (st : St) (ifaces0 : Entries)
    (late : Option (Name × Nat × Nat)) (hI : Inv links st) (hK : (ifaces0.map (·.1)).Nodup) :
    Inv links (updateSelected links st ifaces0 late).1 := by
  have hK' : ((ifaces0.filter fun e => !e.2.disable).map (·.1)).Nodup :=
    (List.filter_sublist.map _).nodup hK
  refine ⟨?_, ?_, ?_⟩
  · rw [updateSelected_run]; exact nextRun_nodup _ _ _ _ hI.runInv hK'
  · intro x hx
    rw [updateSelected_run] at hx
    exact ((nextRun_mem _ _ _ _ hI.runInv hK' x.1 x.2).mp hx).1
  · intro x hx
    rw [updateSelected_run] at hx
    rw [(updateSelected_last _ _ _ _).1]
    exact find?_mem hK' ((nextRun_mem _ _ _ _ hI.runInv hK' x.1 x.2).mp hx).2

theorem close_run (links : List Name) (st : St) : runOf (doClose links st).1 = [] := by
  unfold doClose
  split
  · rename_i h
    simp only [List.isEmpty_iff] at h
    simp [runOf, h]
  · simp only [update_run, List.filter_nil, List.map_nil, List.append_nil]
    rw [List.filter_eq_nil_iff]
    intro x hx
    simp only [runOf, List.mem_map] at hx
    obtain ⟨c, hc, rfl⟩ := hx
    have : ((st.caps.map (·.name)).contains (np c).1) = true := by
      rw [List.contains_iff_mem]; exact List.mem_map.mpr ⟨c, hc, rfl⟩
    rw [this]; simp

theorem step_inv (rx : Rx) (links : List Name) (st : St) (op : Op) (hw : op.wf) (hI : Inv links st) :
    Inv links (step rx links st op).1 := by
  cases op with
  | upd cfg late =>
    simp only [step, doUpdate]
    cases hf : ifacesOf rx links st cfg with
    | error k => exact hI
    | ok ifaces0 =>
      exact updateSelected_inv _ _ _ _ hI (ifacesOf_spec rx links st cfg hw ifaces0 hf).1
  | pkt i f n =>
    simp only [step]
    split
    · exact inv_of_run_eq hI (record_np _ _ _ _) rfl
    · exact hI
  | rot => exact inv_of_run_eq hI (rotate_np _ _) rfl
  | linkErr b => exact inv_of_run_eq hI rfl rfl
  | close =>
    have hr := close_run links st
    simp only [step]
    exact ⟨by rw [hr]; simp, by rw [hr]; simp, by rw [hr]; simp⟩

theorem runOps_inv (rx : Rx) (links : List Name) (st : St) (ops : List Op) (hw : ∀ op ∈ ops, op.wf)
    (hI : Inv links st) : Inv links (runOps rx links st ops).1 := by
  induction ops generalizing st with
  | nil => exact hI
  | cons op t ih =>
    simp only [runOps]
    exact ih _ (fun o ho => hw o (by simp [ho])) (step_inv rx links st op (hw op (by simp)) hI)

/-! ## the property theorems -/

/-- **converges (one update)** — from any state satisfying the invariant, a successful `Update`
    leaves exactly the captures the configuration selects on the host links running, each with the
    parameters the spec selects for it (captures start iff the interface exists) -/
theorem update_converges (rx : Rx) (links : List Name) (st : St) (cfg : Config) (hwf : cfg.wf)
    (late : Option (Name × Nat × Nat)) (hI : Inv links st) (st' : St) (o : UpdOut)
    (h : doUpdate rx links st cfg late = .ok (st', o)) :
    ((runOf st').map (·.1)).Nodup ∧
    ∀ n p, (n, p) ∈ runOf st' ↔ (n ∈ links ∧ want rx cfg n = some p) := by
  unfold doUpdate at h
  cases hf : ifacesOf rx links st cfg with
  | error k => rw [hf] at h; cases h
  | ok ifaces0 =>
    rw [hf] at h
    have h' := Except.ok.inj h
    have hst : st' = (updateSelected links st ifaces0 late).1 := by rw [h']
    subst hst
    obtain ⟨hK, hsel⟩ := ifacesOf_spec rx links st cfg hwf ifaces0 hf
    have hK' : ((ifaces0.filter fun e => !e.2.disable).map (·.1)).Nodup :=
      (List.filter_sublist.map _).nodup hK
    refine ⟨(updateSelected_inv _ _ _ late hI hK).nodup, ?_⟩
    intro n p
    rw [updateSelected_run, nextRun_mem _ _ _ _ hI.runInv hK']
    constructor
    · rintro ⟨hl, hm⟩; exact ⟨hl, (hsel n p hl).mp hm⟩
    · rintro ⟨hl, hw⟩; exact ⟨hl, (hsel n p hl).mpr hw⟩

theorem mem_dedup (l : List Name) (x : Name) : x ∈ dedup l ↔ x ∈ l := by
  induction l with
  | nil => simp [dedup]
  | cons a t ih =>
    simp only [dedup]
    split
    · rename_i h
      simp only [List.contains_iff_mem] at h
      rw [ih, List.mem_cons]
      constructor
      · exact Or.inr
      · rintro (rfl | h')
        · exact h
        · exact h'
    · rw [List.mem_cons, List.mem_cons, ih]

theorem mem_insertName (x a : Name) (l : List Name) : a ∈ insertName x l ↔ a = x ∨ a ∈ l := by
  induction l with
  | nil => simp [insertName]
  | cons y t ih =>
    simp only [insertName]
    split
    · simp
    · simp only [List.mem_cons, ih]
      constructor
      · rintro (h | h | h)
        · exact Or.inr (Or.inl h)
        · exact Or.inl h
        · exact Or.inr (Or.inr h)
      · rintro (h | h | h)
        · exact Or.inr (Or.inl h)
        · exact Or.inl h
        · exact Or.inr (Or.inr h)

theorem mem_sortNames (a : Name) (l : List Name) : a ∈ sortNames l ↔ a ∈ l := by
  unfold sortNames
  induction l with
  | nil => simp
  | cons y t ih => simp only [List.foldr_cons, mem_insertName, ih, List.mem_cons]

theorem mem_target (rx : Rx) (cfg : Config) (links : List Name) (n : Name) (p : Params) :
    (n, p) ∈ target rx cfg links ↔ (n ∈ links ∧ want rx cfg n = some p) := by
  unfold target
  simp only [List.mem_filterMap, mem_sortNames, mem_dedup, Option.map_eq_some_iff, Prod.mk.injEq]
  constructor
  · rintro ⟨a, ha, q, hq, rfl, rfl⟩; exact ⟨ha, hq⟩
  · rintro ⟨ha, hq⟩; exact ⟨n, ha, p, hq, rfl, rfl⟩

/-- **converges** — after ANY sequence of operations (updates with arbitrary configurations, valid
    or rejected, traffic, scheduled write-outs, link lister failures, Close) followed by a successful
    update, the set of running captures with their parameters is exactly the spec's `target` of the
    LATEST configuration — independently of everything that happened before -/
theorem converges (rx : Rx) (links : List Name) (ops : List Op) (hw : ∀ op ∈ ops, op.wf)
    (cfg : Config) (hwf : cfg.wf) (late : Option (Name × Nat × Nat)) (st' : St) (o : UpdOut)
    (h : doUpdate rx links (runOps rx links {} ops).1 cfg late = .ok (st', o)) :
    ((runOf st').map (·.1)).Nodup ∧ ∀ x, x ∈ runOf st' ↔ x ∈ target rx cfg links := by
  have hI := runOps_inv rx links {} ops hw (inv_init links)
  obtain ⟨h1, h2⟩ := update_converges rx links _ cfg hwf late hI st' o h
  refine ⟨h1, ?_⟩
  rintro ⟨n, p⟩
  rw [h2, mem_target]

/-- **converges (rejected configuration)** — an `Update` that returns an error changes nothing: the
    captures selected by the latest *accepted* configuration keep running -/
theorem rejected_keeps_state (rx : Rx) (links : List Name) (st : St) (cfg : Config)
    (late : Option (Name × Nat × Nat)) (k : String) (h : doUpdate rx links st cfg late = .error k) :
    (step rx links st (.upd cfg late)).1 = st := by
  simp only [step, h]

/-- **converges (reported = actual)** — after any history, what `Config()` reports for a running
    capture is the configuration that capture was created with -/
theorem reported_is_actual (rx : Rx) (links : List Name) (ops : List Op) (hw : ∀ op ∈ ops, op.wf)
    (c : Cap) (hc : c ∈ (runOps rx links {} ops).1.caps) :
    (runOps rx links {} ops).1.last.find? (fun e => e.1 == c.name) = some (c.name, c.params) := by
  have hI := runOps_inv rx links {} ops hw (inv_init links)
  exact hI.reported (np c) (List.mem_map.mpr ⟨c, hc, rfl⟩)

/-- **deterministic_cfg** — the parameters a running capture has after an update are a *function*
    of (configuration, interface name): `want`, i.e. `select` (explicit name, else smallest matching
    pattern; see `findMatch_order_irrelevant`, `findMatch_eq_select`, `select_perm`) -/
theorem deterministic_cfg (rx : Rx) (links : List Name) (ops : List Op) (hw : ∀ op ∈ ops, op.wf)
    (cfg : Config) (hwf : cfg.wf) (late : Option (Name × Nat × Nat)) (st' : St) (o : UpdOut)
    (h : doUpdate rx links (runOps rx links {} ops).1 cfg late = .ok (st', o))
    (c : Cap) (hc : c ∈ st'.caps) : want rx cfg c.name = some c.params := by
  have hI := runOps_inv rx links {} ops hw (inv_init links)
  have := (update_converges rx links _ cfg hwf late hI st' o h).2 c.name c.params
  exact (this.mp (List.mem_map.mpr ⟨c, hc, rfl⟩)).2

/-! ## the final write-out -/

theorem find?_cap {caps : List Cap} (hnd : (caps.map (·.name)).Nodup) {c : Cap} (hc : c ∈ caps) :
    caps.find? (fun d => d.name == c.name) = some c := by
  induction caps with
  | nil => cases hc
  | cons a t ih =>
    simp only [List.map_cons, List.nodup_cons, List.mem_map, not_exists, not_and] at hnd
    simp only [List.find?_cons]
    rcases List.mem_cons.mp hc with rfl | h
    · simp
    · have : (a.name == c.name) = false := by
        cases hq : (a.name == c.name) with
        | false => rfl
        | true =>
          simp only [beq_iff_eq] at hq
          exact absurd hq.symm (hnd.1 c h)
      rw [this]; exact ih hnd.2 h

/-- the final write-out precedes the close: a capture named in `disable` hands over its complete
    flow log; every other capture continues untouched (same record, flow log included) -/
theorem update_writeout (links : List Name) (st : St) (ifaces : Entries) (en dis : List Name)
    (hnd : (st.caps.map (·.name)).Nodup) (c : Cap) (hc : c ∈ st.caps) :
    (c.name ∈ dis → (c.name, c.pending) ∈ (update links st ifaces en dis none).2.1) ∧
    (c.name ∉ dis → c ∈ (update links st ifaces en dis none).1.caps) := by
  unfold update
  simp only [lateArrival]
  constructor
  · intro hd
    have hne : dis.isEmpty = false := by
      cases dis with
      | nil => cases hd
      | cons a t => rfl
    simp only [finalWriteout, hne, Bool.false_eq_true, if_false, rotate, List.mem_filterMap]
    exact ⟨c.name, hd, by rw [find?_cap hnd hc]; rfl⟩
  · intro hd
    simp only [List.mem_append, List.mem_filter, not_contains_iff]
    left
    refine ⟨?_, hd⟩
    unfold finalWriteout
    split
    · exact hc
    · simp only [rotate, List.mem_map]
      refine ⟨c, hc, ?_⟩
      have : dis.contains c.name = false := by
        cases h : dis.contains c.name with
        | false => rfl
        | true => rw [List.contains_iff_mem] at h; exact absurd h hd
      rw [this]; rfl

/-- **final_writeout (one update)** — for every capture running before a successful `Update`:
    either it keeps running untouched (the very same capture with its flow log), or — it is removed
    or restarted — everything it recorded is in the write-out this update hands to the write-out
    handler, which happens before the capture is closed -/
theorem update_final_writeout (rx : Rx) (links : List Name) (st : St) (cfg : Config)
    (hnd : (st.caps.map (·.name)).Nodup) (st' : St) (o : UpdOut)
    (h : doUpdate rx links st cfg none = .ok (st', o)) (c : Cap) (hc : c ∈ st.caps) :
    c ∈ st'.caps ∨ (c.name, c.pending) ∈ o.wo := by
  unfold doUpdate at h
  cases hf : ifacesOf rx links st cfg with
  | error k => rw [hf] at h; cases h
  | ok ifaces0 =>
    rw [hf] at h
    have h' := Except.ok.inj h
    have h1 : st' = (updateSelected links st ifaces0 none).1 := by rw [h']
    have h2 : o = (updateSelected links st ifaces0 none).2 := by rw [h']
    subst h1; subst h2
    unfold updateSelected
    simp only
    generalize ((List.filter (fun c => !List.any (List.filter (fun e => !e.2.disable) ifaces0) fun e => e.1 == c.name) st.caps).map (·.name) ++
      (List.filter (fun e => isRunning st e.1 && !equals e.2 (lastOf st.last e.1)) (List.filter (fun e => !e.2.disable) ifaces0)).map (·.1)) = dis
    generalize ((List.filter (fun e => !isRunning st e.1) (List.filter (fun e => !e.2.disable) ifaces0)).map (·.1) ++
      (List.filter (fun e => isRunning st e.1 && !equals e.2 (lastOf st.last e.1)) (List.filter (fun e => !e.2.disable) ifaces0)).map (·.1)) = en
    have := update_writeout links st (ifaces0.filter fun e => !e.2.disable) en dis hnd c hc
    by_cases hd : c.name ∈ dis
    · exact Or.inr (this.1 hd)
    · exact Or.inl (this.2 hd)

theorem caps_nodup_of_inv {links : List Name} {st : St} (h : Inv links st) :
    (st.caps.map (·.name)).Nodup := by
  have := h.nodup
  simp only [runOf, List.map_map] at this
  exact this

/-- **final_writeout** — after ANY sequence of operations: a capture that an update stops (because
    its interface is no longer selected, or because its parameters changed and it is restarted) has
    handed everything it recorded to the write-out handler in that update; captures that are not
    stopped are not disturbed -/
theorem final_writeout (rx : Rx) (links : List Name) (ops : List Op) (hw : ∀ op ∈ ops, op.wf)
    (cfg : Config) (st' : St) (o : UpdOut)
    (h : doUpdate rx links (runOps rx links {} ops).1 cfg none = .ok (st', o))
    (c : Cap) (hc : c ∈ (runOps rx links {} ops).1.caps) (hstop : c ∉ st'.caps) :
    (c.name, c.pending) ∈ o.wo := by
  have hI := runOps_inv rx links {} ops hw (inv_init links)
  rcases update_final_writeout rx links _ cfg (caps_nodup_of_inv hI) st' o h c hc with h1 | h1
  · exact absurd h1 hstop
  · exact h1

/-- **final_writeout (Close)** — `Close()` writes out the flow log of every running capture -/
theorem close_final_writeout (rx : Rx) (links : List Name) (ops : List Op) (hw : ∀ op ∈ ops, op.wf)
    (c : Cap) (hc : c ∈ (runOps rx links {} ops).1.caps) :
    (c.name, c.pending) ∈ (doClose links (runOps rx links {} ops).1).2 := by
  have hI := runOps_inv rx links {} ops hw (inv_init links)
  unfold doClose
  split
  · rename_i h
    simp only [List.isEmpty_iff] at h
    rw [h] at hc; cases hc
  · exact (update_writeout links _ [] [] _ (caps_nodup_of_inv hI) c hc).1
      (List.mem_map.mpr ⟨c, hc, rfl⟩)

/-- the scheduled write-out hands over the flow log of every running capture as well -/
theorem rotate_writeout (caps : List Cap) (hnd : (caps.map (·.name)).Nodup) (c : Cap) (hc : c ∈ caps) :
    (c.name, c.pending) ∈ (rotate caps (caps.map (·.name))).2 := by
  simp only [rotate, List.mem_filterMap]
  exact ⟨c.name, List.mem_map.mpr ⟨c, hc, rfl⟩, by rw [find?_cap hnd hc]; rfl⟩

/-! ### known finding: packets arriving between the final write-out and the close are lost -/

theorem filter_record (caps : List Cap) (dis : List Name) (i : Name) (f n : Nat) (hi : i ∈ dis) :
    (record caps i f n).filter (fun c => !dis.contains c.name) = caps.filter (fun c => !dis.contains c.name) := by
  induction caps with
  | nil => rfl
  | cons a t ih =>
    simp only [record, List.map_cons, List.filter_cons] at ih ⊢
    by_cases ha : a.name = i
    · have hc : dis.contains a.name = true := by rw [List.contains_iff_mem, ha]; exact hi
      simp only [ha, beq_self_eq_true, if_true]
      rw [← ha] at hi ⊢
      simp only [hc, Bool.not_true, Bool.false_eq_true, if_false]
      simpa [record, ha] using ih
    · have : (a.name == i) = false := by simpa using ha
      simp only [this, Bool.false_eq_true, if_false]
      rw [ih]

/-- **final_writeout_partial (the excluded window)** — packets that a capture named in `disable`
    records after its final write-out (flag `true`: they did arrive) leave no trace: the write-out is
    the one taken before them and the state afterwards is the state without them. This is why
    `final_writeout` is stated for updates without `late` packets. -/
theorem late_packets_lost (links : List Name) (st : St) (ifaces : Entries) (en dis : List Name)
    (hnd : (st.caps.map (·.name)).Nodup) (c : Cap) (hc : c ∈ st.caps) (hd : c.name ∈ dis) (f n : Nat) :
    (update links st ifaces en dis (some (c.name, f, n))).2.2 = true ∧
    (update links st ifaces en dis (some (c.name, f, n))).2.1 = (update links st ifaces en dis none).2.1 ∧
    (update links st ifaces en dis (some (c.name, f, n))).1 = (update links st ifaces en dis none).1 := by
  have hwo := (update_writeout links st ifaces en dis hnd c hc).1 hd
  have hany : ((finalWriteout st.caps dis).2.any fun e => e.1 == c.name) = true := by
    rw [List.any_eq_true]
    exact ⟨_, hwo, by simp⟩
  unfold update
  simp only [lateArrival, hany, if_true, true_and]
  rw [filter_record _ _ _ _ _ hd]

/-! ## rejected configurations: the model rejects exactly what the spec allows to be rejected -/

theorem cfgValidate_eq (p : Params) : cfgValidate p = validParams p := by
  obtain ⟨pr, vl, ring, bpf, dis⟩ := p
  unfold cfgValidate validParams
  cases dis
  · simp only [Bool.false_eq_true, if_false]
    cases ring with
    | none => rfl
    | some r =>
      obtain ⟨a, b⟩ := r
      rw [Bool.eq_iff_iff]
      simp [Int.not_le]
  · simp only [if_true]
    cases ring <;> cases pr <;> cases vl <;> cases bpf <;> simp

theorem ifacesValidate_eq (es : Entries) :
    (!ifacesValidate es) = (es.isEmpty || es.any fun e => !validParams e.2) := by
  unfold ifacesValidate
  rw [Bool.eq_iff_iff]
  simp only [cfgValidate_eq, Bool.not_and, Bool.or_eq_true, Bool.not_eq_true', List.all_eq_false,
    List.any_eq_true, Bool.not_eq_false']
  constructor
  · rintro (h | ⟨e, he, h⟩)
    · exact Or.inl h
    · exact Or.inr ⟨e, he, by simpa using h⟩
  · rintro (h | ⟨e, he, h⟩)
    · exact Or.inl h
    · exact Or.inr ⟨e, he, by simpa using h⟩

/-- `Update` returns an error exactly when the spec lists a reason for rejection, and the kind of
    error it reports is one of the listed reasons -/
theorem rejects_iff (rx : Rx) (links : List Name) (st : St) (cfg : Config) :
    (∀ k, ifacesOf rx links st cfg = .error k → k ∈ errKinds rx cfg st.linkErr) ∧
    ((∃ k, ifacesOf rx links st cfg = .error k) ↔ errKinds rx cfg st.linkErr ≠ []) := by
  cases cfg with
  | auto ex =>
    simp only [ifacesOf, errKinds]
    by_cases h1 : (ex.any fun k => isRe k && !rx.valid (pat k)) = true
    · simp [h1]
    · by_cases h2 : st.linkErr = true
      · simp [h1, h2]
      · simp [h1, h2]
  | ifaces es =>
    simp only [ifacesOf, errKinds, ifacesValidate_eq]
    by_cases h1 : (es.isEmpty || es.any fun e => !validParams e.2) = true
    · simp [h1]
    · by_cases h2 : (es.any fun e => isRe e.1 && !rx.valid (pat e.1)) = true
      · simp [h1, h2]
      · by_cases h3 : (es.any fun e => isRe e.1) = true
        · by_cases h4 : st.linkErr = true
          · simp [h1, h2, h3, h4]
          · simp [h1, h2, h3, h4]
        · simp [h1, h2, h3]

/-! ## configurations read from the wire are maps -/

theorem parseEntries_wf (fs : List String) (acc es : Entries) (hacc : (acc.map (·.1)).Nodup)
    (h : parseEntries fs acc = some es) : (es.map (·.1)).Nodup := by
  induction fs generalizing acc with
  | nil => simp only [parseEntries, Option.some.injEq] at h; rw [← h]; exact hacc
  | cons f t ih =>
    simp only [parseEntries] at h
    split at h
    · split at h
      · exact ih _ (upsert_keys _ _ _ hacc) h
      · cases h
    · cases h

theorem parseConfig_wf (s : String) (cfg : Config) (h : parseConfig s = some cfg) : cfg.wf := by
  unfold parseConfig at h
  split at h
  · simp only [Option.some.injEq] at h; rw [← h]; simp [Config.wf]
  · split at h
    · simp only [Option.some.injEq] at h; rw [← h]; trivial
    · split at h
      · simp only [Option.some.injEq] at h; rw [← h]; trivial
      · simp only [Option.map_eq_some_iff] at h
        obtain ⟨es, hes, rfl⟩ := h
        exact parseEntries_wf _ [] es (by simp) hes

/-! ## examples: non-vacuity, and the repaired defects in the model of the original code -/

def exLinks : List Name := ["eth0", "eth1", "eth10", "lo"]
def exP0 : Params := { ring := some (1, 4) }
def exP1 : Params := { ring := some (1, 4), promisc := true }
/-- `/eth.*/` and `/eth1.*/` both match eth1 and eth10; lo is named explicitly but disabled -/
def exCfg : Config := .ifaces [("/eth1.*/", exP1), ("/eth.*/", exP0), ("lo", { disable := true })]
def exOps : List Op := [.upd (.ifaces [("eth1", exP1), ("lo", exP0)]) none, .pkt "eth1" 1 2, .pkt "lo" 2 1]

/-- what an update's result shows: running captures, write-out, late flag, all new flow logs empty -/
structure Obs where
  run : List (Name × Params)
  wo : List (Name × Flows)
  late : Option Bool
  allEmpty : Bool
deriving DecidableEq

def obsOf : Except String (St × UpdOut) → Option Obs
  | .ok (st', o) => some ⟨runOf st', o.wo, o.late, st'.caps.all fun c => c.pending.isEmpty⟩
  | .error _ => none

/-- non-vacuity of `converges` / `final_writeout`: a history and a configuration satisfying the
    hypotheses; the update succeeds, eth1 is restarted with the parameters of `/eth.*/` (the smaller
    pattern), lo is stopped, and both flow logs are in the write-out -/
example : (∀ op ∈ exOps, op.wf) ∧ exCfg.wf ∧
    obsOf (doUpdate rxGo exLinks (runOps rxGo exLinks {} exOps).1 exCfg none) =
      some ⟨[("eth0", exP0), ("eth10", exP0), ("eth1", exP0)], [("lo", [(2, 1)]), ("eth1", [(1, 2)])],
            none, true⟩ := by
  refine ⟨?_, ?_, ?_⟩
  · intro op hop
    simp only [exOps, List.mem_cons, List.not_mem_nil, or_false] at hop
    rcases hop with rfl | rfl | rfl
    · simp only [Op.wf, Config.wf]; decide
    · trivial
    · trivial
  · simp only [exCfg, Config.wf]; decide
  · decide

/-- the target of that configuration, computed by the spec alone -/
example : target rxGo exCfg exLinks = [("eth0", exP0), ("eth1", exP0), ("eth10", exP0)] := by decide

/-- the repaired defect (FindMatch): the ORIGINAL code took the first matching regexp in map
    iteration order — two iteration orders of the same map select different parameters for eth10 -/
example :
    findMatchOrig rxGo [] [("eth.*", exP0), ("eth1.*", exP1)] "eth10" = some exP0 ∧
    findMatchOrig rxGo [] [("eth1.*", exP1), ("eth.*", exP0)] "eth10" = some exP1 ∧
    findMatchOrd rxGo [] [("eth.*", exP0), ("eth1.*", exP1)] "eth10" = some exP0 ∧
    findMatchOrd rxGo [] [("eth1.*", exP1), ("eth.*", exP0)] "eth10" = some exP0 := by decide

/-- outside the hypothesis of `findMatch_order_irrelevant`: two map entries with the SAME pattern
    (impossible for `Ifaces.Matcher()`, whose patterns come from distinct map keys) -/
example :
    findMatchOrd rxGo [] [("eth.*", exP0), ("eth.*", exP1)] "eth10" ≠
    findMatchOrd rxGo [] [("eth.*", exP1), ("eth.*", exP0)] "eth10" := by decide

/-- the ORIGINAL `CaptureConfig.Equals` (Promisc and ring buffer only) -/
def equalsOrig (c cfg : Params) : Bool := c.promisc == cfg.promisc && ringEquals c.ring cfg.ring

/-- the repaired defect (Equals): a change of `ignore_vlans` or of the BPF filter was "equal" -/
example : equalsOrig exP0 { exP0 with vlan := true } = true ∧ equalsOrig exP0 { exP0 with bpf := 2 } = true ∧
    equals exP0 { exP0 with vlan := true } = false ∧ equals exP0 { exP0 with bpf := 2 } = false := by decide

/-- outside the hypothesis `wf` (a Go map cannot have two entries with one key): two captures on
    the same interface -/
example : (runOf (updateSelected exLinks {} [("eth0", exP0), ("eth0", exP1)] none).1).map (·.1)
    = ["eth0", "eth0"] := by decide

/-- the known finding, concretely: 3 packets of flow 7 arrive on lo right after its final write-out
    and are recorded (flag `true`); the write-out and the resulting state do not contain them -/
example :
    obsOf (doUpdate rxGo exLinks (runOps rxGo exLinks {} exOps).1 exCfg (some ("lo", 7, 3))) =
      some ⟨[("eth0", exP0), ("eth10", exP0), ("eth1", exP0)], [("lo", [(2, 1)]), ("eth1", [(1, 2)])],
            some true, true⟩ := by decide

end C27
