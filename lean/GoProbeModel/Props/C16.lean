import GoProbeModel.Model.C16

/-!
C16 — property theorems (interface selection).  Statements about the hand model `Model/C16.lean`
of `ValidateAndSeparateFilters`, `parseIfaceListWithCommaSeparatedString` (after the `fix:`
commit), `parseIfaceListWithRegex` and the engine-level dispatch, for ALL lists of elements and
ALL sets of existing interfaces; the regular-expression library is an arbitrary predicate.

* `select_total`, `selectList_total`, `selectRegex_total`, `engine_total` — no input panics
* `select_spec`, `select_model_eq_spec`, `selectList_spec`, `select_exact`, `negated_never_selected` — the selected interfaces are the requested
  existing ones (all of them for `any`) minus every negated one
* `select_rejects`, `select_ok_iff` — the only other outcome is an error, exactly for malformed elements
* `regex_spec` — a regexp argument selects exactly the matching interfaces, in order
* `engine_spec_list`, `engine_spec_regex`, `engine_no_interfaces` — the same at engine level
* examples: non-vacuity, and the three witnesses of the defect in the loop before the fix
-/
namespace C16

/-! ## the string constants regenerated from the source are the ones the spec speaks about -/

/-- `ifaceListDelimiter`, `regExpSeparator`, `AnySelector` of the current source -/
theorem consts_as_modelled :
    Gen.IfaceSel.ifaceListDelimiter = "," ∧ Gen.IfaceSel.regExpSeparator = "/" ∧
    Gen.IfaceSel.AnySelector = "any" := ⟨rfl, rfl, rfl⟩

/-- the model's `IsAnySelector` (over the regenerated constant) is the spec's "any, case-insensitive" -/
theorem isAnySelector_eq (t : Name) : isAnySelector t = isAnyName t := rfl

/-- the model's split (over the regenerated delimiter) is the spec's split at commas -/
theorem splitList_eq (arg : String) : splitList arg = splitArg arg := rfl

/-! ## the name regexp `^!?[a-zA-Z0-9\.:_-]{1,15}$` agrees with the spec's notion of a well-formed element -/

theorem classChar_eq_nameChar (c : Char) : classChar c = nameChar c := by
  have hL : c.isLower = (decide ('a' ≤ c) && decide (c ≤ 'z')) := rfl
  have hU : c.isUpper = (decide ('A' ≤ c) && decide (c ≤ 'Z')) := by
    unfold Char.isUpper; exact Bool.decide_and _ _
  have hD : c.isDigit = (decide ('0' ≤ c) && decide (c ≤ '9')) := rfl
  unfold classChar nameChar Char.isAlphanum Char.isAlpha
  rw [hL, hU, hD]
  generalize (decide ('a' ≤ c) && decide (c ≤ 'z')) = A
  generalize (decide ('A' ≤ c) && decide (c ≤ 'Z')) = B
  cases A <;> cases B <;> rfl

theorem bang_not_class : classChar '!' = false := by decide

/-- the model of `ifaceNameRegexp.MatchString` accepts exactly the spec's well-formed elements -/
theorem nameRegexpMatch_eq (t : Name) : nameRegexpMatch t = tokenValid t := by
  have hall : ∀ s : Name, s.all classChar = s.all nameChar := by
    intro s; congr 1; funext c; exact classChar_eq_nameChar c
  unfold nameRegexpMatch tokenValid
  split
  · rename_i r
    have : matchBody ('!' :: r) = false := by
      simp [matchBody, bang_not_class]
    rw [this, Bool.or_false]
    simp only [matchBody, hall]
  · simp only [matchBody, hall]

theorem validate_none_iff (t : Name) : validateIfaceName t = none ↔ tokenValid t = true := by
  rw [← nameRegexpMatch_eq]
  unfold validateIfaceName
  by_cases h0 : t = []
  · subst h0; simp [nameRegexpMatch, matchBody]
  · cases h : nameRegexpMatch t <;> simp [h0]

theorem bang_cases (t : Name) (h : hasPrefixBang t = true) : ∃ r, t = '!' :: r := by
  cases t with
  | nil => simp [hasPrefixBang] at h
  | cons c r =>
    refine ⟨r, ?_⟩
    simp [hasPrefixBang] at h
    rw [h]

/-! ## `ValidateAndSeparateFilters` -/

/-- the non-negated elements, in order -/
def posOf (toks : List Name) : List Name := toks.filter fun t => !hasPrefixBang t
/-- the negated names (leading `!` stripped), in order -/
def negOf (toks : List Name) : List Name := (toks.filter hasPrefixBang).map List.tail

theorem separate_ok (toks : List Name) (h : ∀ t ∈ toks, tokenValid t = true) (pos neg : List Name) :
    separate toks pos neg = .ok (pos ++ posOf toks, neg ++ negOf toks) := by
  induction toks generalizing pos neg with
  | nil => simp [separate, posOf, negOf]
  | cons t ts ih =>
    have ht : validateIfaceName t = none := (validate_none_iff t).2 (h t (List.mem_cons_self ..))
    have hts : ∀ t ∈ ts, tokenValid t = true := fun u hu => h u (List.mem_cons_of_mem _ hu)
    unfold separate
    rw [ht]
    by_cases hb : hasPrefixBang t = true
    · obtain ⟨r, rfl⟩ := bang_cases t hb
      simp only [hb, if_true, tail1]
      rw [ih hts]
      simp [posOf, negOf, hb]
    · have hb' : hasPrefixBang t = false := by simpa using hb
      simp only [hb', Bool.false_eq_true, if_false]
      rw [ih hts]
      simp [posOf, negOf, hb']

theorem separate_no_panic (toks pos neg : List Name) (w : String) : separate toks pos neg ≠ .panic w := by
  induction toks generalizing pos neg with
  | nil => simp [separate]
  | cons t ts ih =>
    unfold separate
    cases hv : validateIfaceName t with
    | some e => simp
    | none =>
      by_cases hb : hasPrefixBang t = true
      · obtain ⟨r, rfl⟩ := bang_cases t hb
        simp only [hb, if_true, tail1]
        exact ih _ _
      · have hb' : hasPrefixBang t = false := by simpa using hb
        simp only [hb', Bool.false_eq_true, if_false]
        exact ih _ _

theorem separate_err (toks : List Name) (h : ∃ t ∈ toks, tokenValid t = false) (pos neg : List Name) :
    ∃ e, separate toks pos neg = .err e := by
  induction toks generalizing pos neg with
  | nil => obtain ⟨t, ht, _⟩ := h; cases ht
  | cons t ts ih =>
    unfold separate
    cases hv : validateIfaceName t with
    | some e => exact ⟨e, rfl⟩
    | none =>
      have htv : tokenValid t = true := (validate_none_iff t).1 hv
      have h' : ∃ u ∈ ts, tokenValid u = false := by
        obtain ⟨u, hu, hf⟩ := h
        rcases List.mem_cons.1 hu with rfl | hu
        · rw [htv] at hf; cases hf
        · exact ⟨u, hu, hf⟩
      by_cases hb : hasPrefixBang t = true
      · obtain ⟨r, rfl⟩ := bang_cases t hb
        simp only [hb, if_true, tail1]
        exact ih h' _ _
      · have hb' : hasPrefixBang t = false := by simpa using hb
        simp only [hb', Bool.false_eq_true, if_false]
        exact ih h' _ _

theorem mem_posOf (toks : List Name) (x : Name) : x ∈ posOf toks ↔ x ∈ toks ∧ isNeg x = false := by
  simp [posOf, isNeg, hasPrefixBang]

/-- `x` is among the stripped negations iff the element `!x` is listed -/
theorem mem_negOf (toks : List Name) (x : Name) : x ∈ negOf toks ↔ ('!' :: x) ∈ toks := by
  unfold negOf
  rw [List.mem_map]
  constructor
  · rintro ⟨t, ht, rfl⟩
    rw [List.mem_filter] at ht
    obtain ⟨r, rfl⟩ := bang_cases t ht.2
    exact ht.1
  · intro h
    exact ⟨'!' :: x, List.mem_filter.2 ⟨h, by simp [hasPrefixBang]⟩, rfl⟩

/-! ## the two loops of `parseIfaceListWithCommaSeparatedString` -/

theorem addIfaces_eq (all pos acc : List Name) :
    addIfaces all pos acc =
      if pos.any isAnySelector = true then all else acc ++ pos.filter all.contains := by
  induction pos generalizing acc with
  | nil => simp [addIfaces]
  | cons p ps ih =>
    unfold addIfaces
    by_cases ha : isAnySelector p = true
    · simp [ha]
    · have ha' : isAnySelector p = false := by simpa using ha
      by_cases hc : all.contains p = true
      · simp only [ha', Bool.false_eq_true, if_false, hc, if_true, ih, List.any_cons, Bool.false_or,
          List.filter_cons, List.append_assoc, List.singleton_append]
      · have hc' : all.contains p = false := by simpa using hc
        simp only [ha', Bool.false_eq_true, if_false, hc', ih, List.any_cons, Bool.false_or,
          List.filter_cons]

/-- the list computed for well-formed elements, exactly (order and repetitions included) -/
theorem select_exact (all toks : List Name) (h : ∀ t ∈ toks, tokenValid t = true) :
    selectToks all toks = .ok
      ((if (posOf toks).any isAnySelector = true then all else (posOf toks).filter all.contains).filter
        fun v => !(negOf toks).contains v) := by
  unfold selectToks
  rw [separate_ok toks h]
  simp only [List.nil_append, removeIfaces, addIfaces_eq]

/-! ## the property theorems -/

/-- **select_total** ("No combination of repeated, negated or unknown names makes the query
    crash"): for every set of existing interfaces and every list of elements — well-formed or
    not — the selection does not panic. -/
theorem select_total (all toks : List Name) (w : String) : selectToks all toks ≠ .panic w := by
  unfold selectToks
  have := separate_no_panic toks [] []
  cases hs : separate toks [] [] with
  | ok p => simp
  | err e => simp
  | panic w' => exact absurd hs (this w')

/-- **select_total**, at the level of the argument string -/
theorem selectList_total (all : List Name) (arg : String) (w : String) : selectList all arg ≠ .panic w := by
  unfold selectList
  split
  · simp
  · exact select_total _ _ _

/-- membership in the spec, spelled out -/
theorem mem_specSelect (all toks : List Name) (x : Name) :
    x ∈ specSelect all toks ↔
      x ∈ all ∧ (∃ t ∈ toks, isNeg t = false ∧ (isAnyName t = true ∨ t = x)) ∧ ('!' :: x) ∉ toks := by
  simp [specSelect, requested, negated]

/-- **select_spec** ("the interfaces queried are the listed ones that exist in the database (or
    all of them if 'any' is listed), minus every interface listed with a leading '!'"): for ALL
    existing sets and ALL lists of well-formed elements the call succeeds and an interface is in
    the result iff it exists, is requested (a non-negated `any`, or listed itself) and `!x` is not
    listed. -/
theorem select_spec (all toks : List Name) (h : ∀ t ∈ toks, tokenValid t = true) :
    ∃ r, selectToks all toks = .ok r ∧
      ∀ x, x ∈ r ↔
        x ∈ all ∧
        ((∃ t ∈ toks, isNeg t = false ∧ isAnyName t = true) ∨ (x ∈ toks ∧ isNeg x = false)) ∧
        ('!' :: x) ∉ toks := by
  refine ⟨_, select_exact all toks h, ?_⟩
  intro x
  have hany : (posOf toks).any isAnySelector = true ↔ ∃ t ∈ toks, isNeg t = false ∧ isAnyName t = true := by
    rw [List.any_eq_true]
    constructor
    · rintro ⟨t, ht, ha⟩; exact ⟨t, ((mem_posOf toks t).1 ht).1, ((mem_posOf toks t).1 ht).2, ha⟩
    · rintro ⟨t, ht, hn, ha⟩; exact ⟨t, (mem_posOf toks t).2 ⟨ht, hn⟩, ha⟩
  rw [List.mem_filter]
  have hneg : (!(negOf toks).contains x) = true ↔ ('!' :: x) ∉ toks := by
    rw [← mem_negOf]; simp
  rw [hneg]
  by_cases ha : (posOf toks).any isAnySelector = true
  · have ha' := hany.1 ha
    simp only [ha, if_true]
    constructor
    · rintro ⟨h1, h2⟩; exact ⟨h1, Or.inl ha', h2⟩
    · rintro ⟨h1, _, h2⟩; exact ⟨h1, h2⟩
  · have hna : ¬ ∃ t ∈ toks, isNeg t = false ∧ isAnyName t = true := fun hh => ha (hany.2 hh)
    rw [if_neg ha]
    simp only [List.mem_filter, mem_posOf, List.contains_iff_mem]
    constructor
    · rintro ⟨⟨⟨h1, h2⟩, h3⟩, h4⟩; exact ⟨h3, Or.inr ⟨h1, h2⟩, h4⟩
    · rintro ⟨h3, hor, h4⟩
      rcases hor with hh | ⟨h1, h2⟩
      · exact absurd hh hna
      · exact ⟨⟨⟨h1, h2⟩, h3⟩, h4⟩

/-- **select_spec**, as refinement: on well-formed lists the model's result and the independent
    executable spec `specSelect` (Spec/C16.lean) have the same members. -/
theorem select_model_eq_spec (all toks : List Name) (h : ∀ t ∈ toks, tokenValid t = true) :
    ∃ r, selectToks all toks = .ok r ∧ ∀ x, x ∈ r ↔ x ∈ specSelect all toks := by
  obtain ⟨r, hr, hm⟩ := select_spec all toks h
  refine ⟨r, hr, fun x => ?_⟩
  rw [hm, mem_specSelect]
  constructor
  · rintro ⟨h1, hor, h3⟩
    refine ⟨h1, ?_, h3⟩
    rcases hor with ⟨t, ht, hn, ha⟩ | ⟨hx, hn⟩
    · exact ⟨t, ht, hn, Or.inl ha⟩
    · exact ⟨x, hx, hn, Or.inr rfl⟩
  · rintro ⟨h1, ⟨t, ht, hn, hor⟩, h3⟩
    refine ⟨h1, ?_, h3⟩
    rcases hor with ha | rfl
    · exact Or.inl ⟨t, ht, hn, ha⟩
    · exact Or.inr ⟨ht, hn⟩

/-- **select_spec** at the level of the argument string handed to
    `parseIfaceListWithCommaSeparatedString`: non-empty, split at commas, every element well-formed -/
theorem selectList_spec (all : List Name) (arg : String) (h0 : arg ≠ "")
    (h : ∀ t ∈ splitArg arg, tokenValid t = true) :
    ∃ r, selectList all arg = .ok r ∧ ∀ x, x ∈ r ↔ x ∈ specSelect all (splitArg arg) := by
  unfold selectList
  rw [if_neg h0, splitList_eq]
  exact select_model_eq_spec all (splitArg arg) h

/-- a negated interface is never selected, whatever else is listed and however often -/
theorem negated_never_selected (all toks r : List Name) (x : Name)
    (hr : selectToks all toks = .ok r) (hx : ('!' :: x) ∈ toks) : x ∉ r := by
  by_cases h : ∀ t ∈ toks, tokenValid t = true
  · obtain ⟨r', hr', hm⟩ := select_spec all toks h
    rw [hr] at hr'; cases hr'
    intro hin; exact ((hm x).1 hin).2.2 hx
  · have : ∃ t ∈ toks, tokenValid t = false := by
      apply Classical.byContradiction
      intro hne; apply h; intro t ht
      cases htv : tokenValid t with
      | true => rfl
      | false => exact absurd ⟨t, ht, htv⟩ hne
    obtain ⟨e, he⟩ := separate_err toks this [] []
    simp [selectToks, he] at hr

/-- a malformed element (empty, bad character, too long) makes the call return an error -/
theorem select_rejects (all toks : List Name) (h : ∃ t ∈ toks, tokenValid t = false) :
    ∃ e, selectToks all toks = .err e := by
  obtain ⟨e, he⟩ := separate_err toks h [] []
  exact ⟨e, by simp [selectToks, he]⟩

/-- the call succeeds exactly on lists of well-formed elements -/
theorem select_ok_iff (all toks : List Name) :
    (∃ r, selectToks all toks = .ok r) ↔ ∀ t ∈ toks, tokenValid t = true := by
  constructor
  · rintro ⟨r, hr⟩ t ht
    cases htv : tokenValid t with
    | true => rfl
    | false =>
      obtain ⟨e, he⟩ := select_rejects all toks ⟨t, ht, htv⟩
      rw [hr] at he; cases he
  · intro h; exact ⟨_, select_exact all toks h⟩

/-! ### regular-expression argument -/

theorem filterLoop_eq (m : Name → Bool) (l acc : List Name) : filterLoop m l acc = acc ++ l.filter m := by
  induction l generalizing acc with
  | nil => simp [filterLoop]
  | cons x xs ih =>
    unfold filterLoop
    cases hm : m x <;> simp [ih, hm]

/-- **regex_spec** ("a regular-expression argument selects exactly the matching interfaces"): for
    every match predicate `m` (the compiled regexp), whenever the call succeeds the result is the
    list of existing interfaces that match, in their order; and it succeeds for every argument
    `/inner/` without a newline whose inner text compiles. -/
theorem regex_spec (m : Name → Bool) (all : List Name) (compiles : Bool) (arg : Name) :
    (∀ r, selectRegex compiles m all arg = .ok r → r = specRegex m all) ∧
    (∀ inner, arg = '/' :: (inner ++ ['/']) → inner.contains '\n' = false → compiles = true →
      selectRegex compiles m all arg = .ok (specRegex m all)) := by
  constructor
  · intro r hr
    unfold selectRegex at hr
    cases he : extractRegexp arg with
    | ok i =>
      rw [he] at hr
      cases compiles with
      | true => simp [filterLoop_eq] at hr; rw [← hr]; rfl
      | false => simp at hr
    | err e => rw [he] at hr; cases hr
    | panic w => rw [he] at hr; cases hr
  · rintro inner rfl hnl rfl
    have he : extractRegexp ('/' :: (inner ++ ['/'])) = .ok inner := by
      have hnl' : '\n' ∉ inner := by simpa using hnl
      unfold extractRegexp
      simp [hnl']
    simp [selectRegex, he, filterLoop_eq, specRegex]

theorem extractRegexp_no_panic (arg : Name) (w : String) : extractRegexp arg ≠ .panic w := by
  unfold extractRegexp
  repeat' split
  all_goals simp

/-- **select_total** for the regexp variant -/
theorem selectRegex_total (c : Bool) (m : Name → Bool) (all : List Name) (a : Name) (w : String) :
    selectRegex c m all a ≠ .panic w := by
  unfold selectRegex
  cases he : extractRegexp a with
  | ok i => cases c <;> simp
  | err e => simp
  | panic w' => exact absurd he (extractRegexp_no_panic a w')

/-! ### engine level (`Args.Prepare`, dispatch in `run`, head of `RunStatement`) -/

theorem mem_insertSorted (x y : Name) (l : List Name) : y ∈ insertSorted x l ↔ y = x ∨ y ∈ l := by
  induction l with
  | nil => simp [insertSorted]
  | cons z zs ih =>
    unfold insertSorted
    split
    · simp [ih]; constructor
      · rintro (h | h | h) <;> simp [h]
      · rintro (h | h | h) <;> simp [h]
    · simp

theorem mem_sortNames (y : Name) (l : List Name) : y ∈ sortNames l ↔ y ∈ l := by
  induction l with
  | nil => simp [sortNames]
  | cons x xs ih =>
    have : sortNames (x :: xs) = insertSorted x (sortNames xs) := rfl
    rw [this, mem_insertSorted, ih]; simp

theorem engineDispatch_total (c : Bool) (m : Name → Bool) (all : List Name) (arg : String) (w : String) :
    engineDispatch c m all arg ≠ .panic w := by
  unfold engineDispatch
  split
  · exact selectRegex_total c m all _ w
  · split
    · simp
    · exact selectList_total _ _ _

/-- **select_total** at engine level: the dispatch on the argument, the preparation checks, the
    selection and the sort never panic -/
theorem engine_total (c : Bool) (m : Name → Bool) (all : List Name) (arg : String) (w : String) :
    engineSelect c m all arg ≠ .panic w := by
  unfold engineSelect
  split
  · simp
  · have := engineDispatch_total c m all arg
    cases hd : engineDispatch c m all arg with
    | ok r => cases r <;> simp [engineFinish]
    | err e => simp [engineFinish]
    | panic w' => exact absurd hd (this w')

theorem engineFinish_ok (o : Outcome (List Name)) (r : List Name) (h : engineFinish o = .ok r) :
    ∃ r', o = .ok r' ∧ ∀ x, x ∈ r ↔ x ∈ r' := by
  cases o with
  | ok r' =>
    cases r' with
    | nil => simp [engineFinish] at h
    | cons a as =>
      simp only [engineFinish, Outcome.ok.injEq] at h
      exact ⟨_, rfl, fun x => by rw [← h, mem_sortNames]⟩
  | err e => simp [engineFinish] at h
  | panic w => simp [engineFinish] at h

/-- engine level, list argument: a result is produced only for well-formed lists, and the
    interfaces reported in `Summary.Interfaces` are exactly the members of the spec's selection -/
theorem engine_spec_list (c : Bool) (m : Name → Bool) (all r : List Name) (arg : String)
    (hre : isIfaceArgumentRegExp (ofStr arg) = false)
    (hr : engineSelect c m all arg = .ok r) :
    (∀ t ∈ splitArg arg, tokenValid t = true) ∧ ∀ x, x ∈ r ↔ x ∈ specSelect all (splitArg arg) := by
  unfold engineSelect at hr
  by_cases h0 : arg = ""
  · simp [h0] at hr
  · rw [if_neg h0] at hr
    obtain ⟨r', hd, hmem⟩ := engineFinish_ok _ _ hr
    unfold engineDispatch at hd
    rw [hre, splitList_eq] at hd
    simp only [Bool.false_eq_true, if_false] at hd
    by_cases hv : ((splitArg arg).any fun t => (validateIfaceName t).isSome) = true
    · rw [if_pos hv] at hd; cases hd
    · rw [if_neg hv] at hd
      simp only [selectList, h0, if_false, splitList_eq] at hd
      have hvalid : ∀ t ∈ splitArg arg, tokenValid t = true := by
        intro t ht
        rw [← validate_none_iff]
        cases hvt : validateIfaceName t with
        | none => rfl
        | some e =>
          exfalso; apply hv
          rw [List.any_eq_true]; exact ⟨t, ht, by simp [hvt]⟩
      refine ⟨hvalid, ?_⟩
      obtain ⟨r'', hr'', hm⟩ := select_model_eq_spec all (splitArg arg) hvalid
      rw [hr''] at hd; cases hd
      intro x; rw [hmem, hm]

/-- engine level, regexp argument: exactly the matching interfaces are reported -/
theorem engine_spec_regex (c : Bool) (m : Name → Bool) (all r : List Name) (arg : String)
    (hre : isIfaceArgumentRegExp (ofStr arg) = true)
    (hr : engineSelect c m all arg = .ok r) :
    ∀ x, x ∈ r ↔ x ∈ all ∧ m x = true := by
  unfold engineSelect at hr
  by_cases h0 : arg = ""
  · simp [h0] at hr
  · rw [if_neg h0] at hr
    obtain ⟨r', hd, hmem⟩ := engineFinish_ok _ _ hr
    unfold engineDispatch at hd
    rw [hre] at hd
    simp only [if_true] at hd
    have := (regex_spec m all c (ofStr arg)).1 r' hd
    intro x
    rw [hmem, this, specRegex, List.mem_filter]

/-- engine level: "no interfaces provided" is reported for a well-formed list exactly when the
    spec's selection is empty (e.g. only negations, or only unknown names) -/
theorem engine_no_interfaces (c : Bool) (m : Name → Bool) (all : List Name) (arg : String)
    (hre : isIfaceArgumentRegExp (ofStr arg) = false) (h0 : arg ≠ "")
    (hv : ∀ t ∈ splitArg arg, tokenValid t = true) :
    engineSelect c m all arg = .err "no-interfaces" ↔ specSelect all (splitArg arg) = [] := by
  obtain ⟨r, hr, hm⟩ := select_model_eq_spec all (splitArg arg) hv
  have hnv : ¬ ((splitArg arg).any fun t => (validateIfaceName t).isSome) = true := by
    rw [List.any_eq_true]
    rintro ⟨t, ht, hs⟩
    rw [(validate_none_iff t).2 (hv t ht)] at hs
    simp at hs
  have hd : engineDispatch c m all arg = .ok r := by
    unfold engineDispatch
    rw [hre, splitList_eq]
    simp only [Bool.false_eq_true, if_false]
    rw [if_neg hnv]
    simp only [selectList, h0, if_false, splitList_eq, hr]
  unfold engineSelect
  rw [if_neg h0, hd]
  cases r with
  | nil =>
    simp only [engineFinish, true_iff]
    apply List.eq_nil_iff_forall_not_mem.2
    intro x hx; exact absurd ((hm x).2 hx) (by simp)
  | cons a as =>
    simp only [engineFinish, reduceCtorEq, false_iff]
    intro hnil
    have : a ∈ specSelect all (splitArg arg) := (hm a).1 (by simp)
    rw [hnil] at this; cases this

/-! ## non-vacuity and regression examples -/

private def a : Name := ['a']
private def b : Name := ['b']
private def c : Name := ['c']
private def na : Name := ['!', 'a']
private def nb : Name := ['!', 'b']

/-- the hypotheses of `select_spec` are satisfiable on a list with a repetition, a negation, an
    unknown name and `any` -/
example : ∀ t ∈ [a, a, b, na, ['!', 'z', 'z'], ['A', 'n', 'y']], tokenValid t = true := by decide

/-- … and the fixed code gives the three witnesses their specified results -/
example : selectToks [a, b, c] [a, a, na] = .ok [] := by decide
example : selectToks [a, b, c] [a, b, nb, b] = .ok [a] := by decide
example : selectToks [a, b, c] [a, a, b, na] = .ok [b] := by decide
example : selectToks [a, b, c] [['A', 'n', 'y'], nb, ['!', 'z', 'z']] = .ok [a, c] := by decide
example : specSelect [a, b, c] [a, a, b, na] = [b] := by decide

/-- outside the well-formedness hypothesis the call is an error, not a selection -/
example : selectToks [a, b, c] [a, [], b] = .err "empty-name" := by decide
example : selectToks [a, b, c] [a, ['!']] = .err "invalid-name" := by decide
example : tokenValid ("abcdefghijklmnop".toList) = false := by decide

/-- regexp: hypotheses of `regex_spec` are satisfiable -/
example : selectRegex true (fun x => x == a || x == c) [a, b, c] ['/', 'x', '/'] = .ok [a, c] := by decide

/-- regression: the loop BEFORE the fix (`selectOrig`, explicit backing array) on the three
    witnesses: two panics and a negated interface that stays selected -/
example : (selectOrig [a, b, c] [a, a, na]).isPanic = true := by decide
example : (selectOrig [a, b, c] [a, b, nb, b]).isPanic = true := by decide
example : selectOrig [a, b, c] [a, a, b, na] = .ok [a, b] := by decide
/-- … so the theorems above are false for the old loop: well-formed input, panic -/
example : ∃ all toks, (∀ t ∈ toks, tokenValid t = true) ∧ (selectOrig all toks).isPanic = true :=
  ⟨[a, b, c], [a, a, na], by decide, by decide⟩
/-- without repetitions the old loop agreed with the fixed one on these -/
example : selectOrig [a, b, c] [['a', 'n', 'y'], na] = selectToks [a, b, c] [['a', 'n', 'y'], na] := by decide

end C16
