import GoProbeModel.Model.C31

-- C31 — the query concurrency limit is never exceeded and never leaks.
--
-- The system (Model/C31.lean): any number of queries, each executing the step list of
-- `(*QueryRunner).run` **as regenerated from the source** (`engineProg`, `distProg`), against one
-- semaphore counter bounded by its capacity; arrivals, steps, early returns, acquisitions, timeouts,
-- outcomes of the query proper (finished / failed / cancelled) and the environment taking and
-- returning tokens interleave arbitrarily (`Reachable` = every finite event sequence from the empty
-- system).
--
-- The theorems hold for every step list of the shape `WF` (checked by `decide` for the two
-- regenerated lists: `engine_wf`, `dist_wf`): `acquire; reject429; deferRelease` consecutive, nothing
-- else touching the semaphore. Main statements: `sem_bound`, `sem_counter_exact`, `sem_no_leak`,
-- `over_limit_status`, `over_limit_answer`; `sim_*` tie the states printed by the correspondence model
-- to reachable states. The two `example`s at the end show that each excluded shape breaks the property.

namespace C31

/-- the shape of `run` the proofs rely on (`a` = position of the acquisition) -/
structure WF (prog : Prog) (a : Nat) : Prop where
  acq : prog[a]? = some .acquire
  rej : prog[a + 1]? = some .reject
  dfr : prog[a + 2]? = some .deferRelease
  rest : ∀ j st, prog[j]? = some st → j ≠ a → j ≠ a + 1 → j ≠ a + 2 → st.plain = true

theorem wf_of_check {prog : Prog} (h : wfCheck prog = true) : WF prog (acqIdx prog) := by
  unfold wfCheck at h
  simp only [Bool.and_eq_true, beq_iff_eq, List.all_eq_true, List.mem_range, Bool.or_eq_true] at h
  obtain ⟨⟨⟨h1, h2⟩, h3⟩, h4⟩ := h
  refine ⟨h1, h2, h3, ?_⟩
  intro j st hj n1 n2 n3
  have hlt : j < prog.length := by
    rcases List.getElem?_eq_some_iff.mp hj with ⟨hl, _⟩; exact hl
  have h5 := h4 j hlt
  have hg : prog.getD j .unknown = st := by
    rw [List.getD_eq_getElem?_getD, hj]; rfl
  rw [hg] at h5
  rcases h5 with ((h5 | h5) | h5) | h5
  · exact absurd h5 n1
  · exact absurd h5 n2
  · exact absurd h5 n3
  · exact h5

theorem WF.cases {prog : Prog} {a j : Nat} {st : Step} (h : WF prog a) (hj : prog[j]? = some st) :
    (j = a ∧ st = .acquire) ∨ (j = a + 1 ∧ st = .reject) ∨ (j = a + 2 ∧ st = .deferRelease) ∨
    (j ≠ a ∧ j ≠ a + 1 ∧ j ≠ a + 2 ∧ st.plain = true) := by
  by_cases h1 : j = a
  · subst h1; left; exact ⟨rfl, by have := h.acq; rw [hj] at this; exact Option.some.inj this⟩
  by_cases h2 : j = a + 1
  · subst h2; right; left; exact ⟨rfl, by have := h.rej; rw [hj] at this; exact Option.some.inj this⟩
  by_cases h3 : j = a + 2
  · subst h3; right; right; left; exact ⟨rfl, by have := h.dfr; rw [hj] at this; exact Option.some.inj this⟩
  · right; right; right; exact ⟨h1, h2, h3, h.rest j st hj h1 h2 h3⟩

/-- the phases of one query, as an invariant -/
def PInv (a : Nat) (p : Proc) : Prop :=
  (p.pc ≤ a ∧ p.holding = false ∧ p.deferred = false ∧ p.err = false ∧
      p.done ≠ some .tooMany ∧ p.done ≠ some .nilDeferPanic) ∨
  (p.pc = a + 1 ∧ p.err = true ∧ p.holding = false ∧ p.deferred = false ∧
      (p.done = none ∨ p.done = some .tooMany)) ∨
  ((p.pc = a + 1 ∨ p.pc = a + 2) ∧ p.err = false ∧ p.holding = true ∧ p.deferred = false ∧ p.done = none) ∨
  (a + 3 ≤ p.pc ∧ p.err = false ∧ p.deferred = true ∧
      ((p.done = none ∧ p.holding = true) ∨
       (p.holding = false ∧ (p.done = some .finished ∨ p.done = some .failed ∨ p.done = some .cancelled))))

def ind (b : Bool) : Nat := if b then 1 else 0

theorem procStep_spec {prog : Prog} {a cap sem : Nat} {p q : Proc} {e : Ev} {take give : Nat}
    (hwf : WF prog a) (hp : PInv a p) (hd : p.done = none)
    (h : procStep prog cap sem p e = some (q, take, give)) :
    PInv a q ∧ ind q.holding + give = ind p.holding + take ∧ (take = 0 ∨ (take = 1 ∧ sem < cap)) := by
  obtain ⟨pc, err, holding, deferred, done⟩ := p
  simp only at hd
  subst hd
  cases e with
  | spawn | extAcq | extRel => simp [procStep] at h
  | step i =>
    simp only [procStep] at h
    split at h
    all_goals (try (rename_i heq; have hc := hwf.cases heq; simp [Step.plain] at hc))
    all_goals (cases holding <;> cases deferred <;> cases err <;>
      simp [retire, advance] at h <;> (try obtain ⟨rfl, rfl, rfl⟩ := h) <;>
      simp [PInv, ind] at hp ⊢ <;> omega)
  | fail i =>
    simp only [procStep] at h
    split at h
    all_goals (try (rename_i heq; have hc := hwf.cases heq; simp [Step.plain] at hc))
    all_goals (cases holding <;> cases deferred <;> cases err <;>
      simp [retire] at h <;> (try obtain ⟨rfl, rfl, rfl⟩ := h) <;>
      simp [PInv, ind] at hp ⊢ <;> omega)
  | got i =>
    simp only [procStep] at h
    split at h
    all_goals (try (rename_i heq; have hc := hwf.cases heq; simp [Step.plain] at hc))
    all_goals (cases holding <;> cases deferred <;> cases err <;>
      simp [advance] at h <;> (try obtain ⟨hlt, rfl, rfl, rfl⟩ := h) <;>
      simp [PInv, ind] at hp ⊢ <;> omega)
  | timeout i =>
    simp only [procStep] at h
    split at h
    all_goals (try (rename_i heq; have hc := hwf.cases heq; simp [Step.plain] at hc))
    all_goals (cases holding <;> cases deferred <;> cases err <;>
      simp [advance] at h <;> (try obtain ⟨rfl, rfl, rfl⟩ := h) <;>
      simp [PInv, ind] at hp ⊢ <;> omega)
  | finish i o =>
    simp only [procStep] at h
    split at h
    all_goals (try (rename_i heq; have hc := hwf.cases heq; simp [Step.plain] at hc))
    all_goals (cases holding <;> cases deferred <;> cases err <;>
      simp [retire] at h <;> (try obtain ⟨ho, rfl, rfl, rfl⟩ := h) <;>
      simp [PInv, ind] at hp ⊢ <;>
      first | omega | (rcases ho with rfl | rfl | rfl <;> simp_all))


/-! ### the global invariant -/

theorem countP_set_ind (f : Proc → Bool) : ∀ (l : List Proc) (i : Nat) (q : Proc) (h : i < l.length),
    (l.set i q).countP f + ind (f l[i]) = l.countP f + ind (f q)
  | [], i, q, h => by simp at h
  | x :: l, 0, q, _ => by
    simp only [List.set_cons_zero, List.countP_cons, List.getElem_cons_zero, ind]
    by_cases h1 : f x = true <;> by_cases h2 : f q = true <;> simp [h1, h2] <;> omega
  | x :: l, i + 1, q, h => by
    have ih := countP_set_ind f l i q (by simpa using h)
    simp only [List.set_cons_succ, List.countP_cons, List.getElem_cons_succ]
    omega

structure Inv (a cap : Nat) (s : State) : Prop where
  count : s.sem = s.ext + s.procs.countP (·.holding)
  bound : s.sem ≤ cap
  phases : ∀ p ∈ s.procs, PInv a p

theorem inv_init (a cap : Nat) : Inv a cap {} :=
  ⟨by simp, by simp, by simp⟩

/-- shape of a transition of query `i` -/
theorem next_proc_elim {prog : Prog} {cap : Nat} {s s' : State} {e : Ev} {i : Nat}
    (hi : e.proc? = some i) (h : next prog cap s e = some s') :
    ∃ p q take give, s.procs[i]? = some p ∧ p.done = none ∧
      procStep prog cap s.sem p e = some (q, take, give) ∧ give ≤ s.sem + take ∧
      s' = { s with sem := s.sem + take - give, procs := s.procs.set i q } := by
  have hn : next prog cap s e =
      match s.procs[i]? with
      | none => none
      | some p =>
        if p.done.isSome then none else
        match procStep prog cap s.sem p e with
        | none => none
        | some (q, take, give) =>
          if give ≤ s.sem + take then
            some { s with sem := s.sem + take - give, procs := s.procs.set i q }
          else none := by
    cases e <;> simp [Ev.proc?] at hi <;> subst hi <;> rfl
  rw [hn] at h
  split at h
  · exact absurd h (by simp)
  · rename_i p hp
    split at h
    · exact absurd h (by simp)
    · rename_i hd
      split at h
      · exact absurd h (by simp)
      · rename_i q take give hps
        split at h
        · rename_i hg
          refine ⟨p, q, take, give, hp, ?_, hps, hg, ?_⟩
          · cases hdd : p.done <;> simp [hdd] at hd ⊢
          · exact (Option.some.inj h).symm
        · exact absurd h (by simp)

theorem inv_next {prog : Prog} {a cap : Nat} {s s' : State} {e : Ev}
    (hwf : WF prog a) (hinv : Inv a cap s) (h : next prog cap s e = some s') : Inv a cap s' := by
  obtain ⟨hc, hb, hph⟩ := hinv
  cases hpe : e.proc? with
  | none =>
    cases e <;> simp [Ev.proc?] at hpe
    · -- spawn
      simp only [next, Option.some.injEq] at h
      subst h
      refine ⟨?_, hb, ?_⟩
      · simp [List.countP_append, hc]
      · intro p hp
        simp only [List.mem_append, List.mem_singleton] at hp
        rcases hp with hp | rfl
        · exact hph p hp
        · left; simp
    · -- extAcq
      simp only [next] at h
      split at h
      · rename_i hlt
        have := Option.some.inj h; subst this
        exact ⟨by simp only; omega, by simp only; omega, hph⟩
      · exact absurd h (by simp)
    · -- extRel
      simp only [next] at h
      split at h
      · rename_i hlt
        have := Option.some.inj h; subst this
        exact ⟨by simp only; omega, by simp only; omega, hph⟩
      · exact absurd h (by simp)
  | some i =>
    obtain ⟨p, q, take, give, hget, hd, hps, hg, rfl⟩ := next_proc_elim hpe h
    have hlt : i < s.procs.length := (List.getElem?_eq_some_iff.mp hget).1
    have hpi : s.procs[i] = p := (List.getElem?_eq_some_iff.mp hget).2
    have hmem : p ∈ s.procs := List.mem_of_getElem? hget
    obtain ⟨hq, hcons, htake⟩ := procStep_spec hwf (hph p hmem) hd hps
    have hset := countP_set_ind (·.holding) s.procs i q hlt
    rw [hpi] at hset
    refine ⟨?_, ?_, ?_⟩
    · simp only; omega
    · simp only; omega
    · intro p' hp'
      rcases List.mem_or_eq_of_mem_set hp' with hp' | rfl
      · exact hph p' hp'
      · exact hq

theorem inv_runEvents {prog : Prog} {a cap : Nat} (hwf : WF prog a) :
    ∀ (es : List Ev) {s s' : State}, Inv a cap s → runEvents prog cap s es = some s' → Inv a cap s'
  | [], s, s', hinv, h => by
    simp only [runEvents, Option.some.injEq] at h; subst h; exact hinv
  | e :: es, s, s', hinv, h => by
    simp only [runEvents] at h
    cases hn : next prog cap s e with
    | none => simp [hn] at h
    | some s1 =>
      simp only [hn, Option.bind_some] at h
      exact inv_runEvents hwf es (inv_next hwf hinv hn) h

theorem runEvents_append {prog : Prog} {cap : Nat} :
    ∀ (es1 es2 : List Ev) (s : State),
      runEvents prog cap s (es1 ++ es2) = (runEvents prog cap s es1).bind (runEvents prog cap · es2)
  | [], es2, s => by simp [runEvents]
  | e :: es1, es2, s => by
    simp only [List.cons_append, runEvents]
    cases next prog cap s e with
    | none => simp
    | some s1 => simp [runEvents_append es1 es2 s1]

theorem inv_reachable {prog : Prog} {a cap : Nat} {s : State} (hwf : WF prog a)
    (hr : Reachable prog cap s) : Inv a cap s := by
  obtain ⟨es, h⟩ := hr
  exact inv_runEvents hwf es (inv_init a cap) h


/-! ### what the phases say about one query -/

theorem PInv.holding_iff {a : Nat} {p : Proc} (h : PInv a p) : p.holding = inSection a p := by
  obtain ⟨pc, err, holding, deferred, done⟩ := p
  simp only [PInv, inSection] at h ⊢
  cases holding <;> cases err <;> cases done <;> simp at h ⊢ <;> omega

theorem PInv.executing_holding {a : Nat} {p : Proc} (h : PInv a p) (he : executing a p = true) :
    p.holding = true := by
  obtain ⟨pc, err, holding, deferred, done⟩ := p
  simp only [PInv, executing] at h he ⊢
  cases holding <;> cases err <;> cases done <;> simp at h he ⊢ <;> omega

theorem PInv.done_released {a : Nat} {p : Proc} (h : PInv a p) (hd : p.done.isSome = true) :
    p.holding = false := by
  obtain ⟨pc, err, holding, deferred, done⟩ := p
  simp only [PInv] at h hd ⊢
  cases holding <;> cases done <;> simp at h hd ⊢

theorem PInv.timedOut_rejected {a : Nat} {p : Proc} (h : PInv a p) (ht : timedOut a p = true) :
    p.pc = a + 1 ∧ executing a p = false ∧ p.holding = false ∧ p.deferred = false ∧
      (p.done = none ∨ p.done = some .tooMany) := by
  obtain ⟨pc, err, holding, deferred, done⟩ := p
  simp only [PInv, timedOut, executing] at h ht ⊢
  cases err <;> simp at h ht ⊢
  obtain ⟨h1, h2, h3, h4⟩ := h
  exact ⟨h1, fun _ => by omega, h2, h3, h4⟩

theorem PInv.tooMany_timedOut {a : Nat} {p : Proc} (h : PInv a p) (hd : p.done = some .tooMany) :
    timedOut a p = true := by
  obtain ⟨pc, err, holding, deferred, done⟩ := p
  simp only [PInv, timedOut] at h hd ⊢
  subst hd
  cases err <;> simp at h ⊢
  omega

theorem PInv.no_nil_defer {a : Nat} {p : Proc} (h : PInv a p) : p.done ≠ some .nilDeferPanic := by
  obtain ⟨pc, err, holding, deferred, done⟩ := p
  simp only [PInv] at h ⊢
  intro hd; subst hd
  simp at h


/-! ### the property theorems -/

section
variable {prog : Prog} {a cap : Nat}

/-- **never leaks / counter is exact**: in every reachable state the semaphore counter equals the tokens held by the environment plus the number of queries between their successful acquisition and their return. -/
theorem sem_counter_exact (hwf : WF prog a) {s : State} (hr : Reachable prog cap s) :
    s.sem = s.ext + s.procs.countP (inSection a) := by
  have hinv := inv_reachable hwf hr
  rw [hinv.count]
  congr 1
  apply List.countP_congr
  intro p hp
  rw [(hinv.phases p hp).holding_iff]

/-- **clause 1 (`sem_bound`)**: in every reachable state — any number of queries, any interleaving, any failures, cancellations and timeouts — the number of queries in their execution phase (past the limit check, not yet returned), plus the slots held by the environment, is at most the capacity. -/
theorem sem_bound (hwf : WF prog a) {s : State} (hr : Reachable prog cap s) :
    s.procs.countP (executing a) + s.ext ≤ cap := by
  have hinv := inv_reachable hwf hr
  have h1 : s.procs.countP (executing a) ≤ s.procs.countP (·.holding) :=
    List.countP_mono_left fun p hp he => (hinv.phases p hp).executing_holding he
  have h2 := hinv.count
  have h3 := hinv.bound
  omega

/-- **clause 3 (`sem_no_leak`)**: when every query has returned — finished, failed or cancelled, or rejected — the counter is back to what the environment holds (0 if it holds nothing). -/
theorem sem_no_leak (hwf : WF prog a) {s : State} (hr : Reachable prog cap s)
    (hall : ∀ p ∈ s.procs, p.done.isSome = true) : s.sem = s.ext := by
  have hinv := inv_reachable hwf hr
  have h0 : s.procs.countP (·.holding) = 0 := by
    rw [List.countP_eq_zero]
    intro p hp
    rw [(hinv.phases p hp).done_released (hall p hp)]
    simp
  have := hinv.count
  omega

/-- clause 3, per query: a query that has returned (whatever its outcome) holds no slot. -/
theorem returned_query_holds_nothing (hwf : WF prog a) {s : State} (hr : Reachable prog cap s)
    {p : Proc} (hp : p ∈ s.procs) (hd : p.done.isSome = true) : p.holding = false :=
  ((inv_reachable hwf hr).phases p hp).done_released hd

/-- the `defer smeDone()` never runs with a nil closure -/
theorem no_nil_defer_panic (hwf : WF prog a) {s : State} (hr : Reachable prog cap s)
    {p : Proc} (hp : p ∈ s.procs) : p.done ≠ some .nilDeferPanic :=
  ((inv_reachable hwf hr).phases p hp).no_nil_defer

/-! clause 2 -/

/-- the timer firing in `checkSemaphore` marks the query as timed out, without a slot -/
theorem timeout_marks (hwf : WF prog a) {s s' : State} {i : Nat}
    (h : next prog cap s (.timeout i) = some s') :
    ∃ p, s'.procs[i]? = some p ∧ timedOut a p = true ∧ p.done = none ∧ s'.sem = s.sem := by
  obtain ⟨p, q, take, give, hget, hd, hps, hg, rfl⟩ := next_proc_elim (i := i) rfl h
  have hlt : i < s.procs.length := (List.getElem?_eq_some_iff.mp hget).1
  simp only [procStep] at hps
  split at hps
  · rename_i heq
    have hc := hwf.cases heq
    simp [Step.plain] at hc
    simp only [Option.some.injEq, Prod.mk.injEq] at hps
    obtain ⟨rfl, rfl, rfl⟩ := hps
    refine ⟨{ advance p with err := true }, by simp [hlt], ?_, ?_, by simp⟩
    · simp [timedOut, advance, hc]
    · simpa [advance] using hd
  · exact absurd hps (by simp)

/-- being timed out is stable: whatever happens next in the system, query `i` stays timed out -/
theorem timedOut_stable (hwf : WF prog a) {s s' : State} {e : Ev} {i : Nat} {p : Proc}
    (hr : Reachable prog cap s) (hget : s.procs[i]? = some p) (ht : timedOut a p = true)
    (h : next prog cap s e = some s') :
    ∃ p', s'.procs[i]? = some p' ∧ timedOut a p' = true := by
  have hlt : i < s.procs.length := (List.getElem?_eq_some_iff.mp hget).1
  have hinv := inv_reachable hwf hr
  cases hpe : e.proc? with
  | none =>
    cases e <;> simp [Ev.proc?] at hpe
    · simp only [next, Option.some.injEq] at h
      subst h
      exact ⟨p, by simp [List.getElem?_append_left hlt, hget], ht⟩
    · simp only [next] at h
      split at h
      · have := Option.some.inj h; subst this; exact ⟨p, hget, ht⟩
      · exact absurd h (by simp)
    · simp only [next] at h
      split at h
      · have := Option.some.inj h; subst this; exact ⟨p, hget, ht⟩
      · exact absurd h (by simp)
  | some j =>
    obtain ⟨p0, q, take, give, hget0, hd, hps, hg, rfl⟩ := next_proc_elim hpe h
    by_cases hji : j = i
    · subst hji
      rw [hget] at hget0
      have := Option.some.inj hget0; subst this
      refine ⟨q, by simp [hlt], ?_⟩
      obtain ⟨hpc, -, hh, hdf, -⟩ := (hinv.phases p (List.mem_of_getElem? hget)).timedOut_rejected ht
      have herr : p.err = true := by
        simp only [timedOut, Bool.and_eq_true] at ht; exact ht.1
      have hstep : prog[p.pc]? = some .reject := by rw [hpc]; exact hwf.rej
      cases e <;> simp [Ev.proc?] at hpe <;> simp [procStep, hstep, herr, retire, hdf] at hps
      obtain ⟨rfl, -, -⟩ := hps
      simp [timedOut] at ht ⊢
      first | exact ht | exact ht.2 | exact ⟨herr, ht.2⟩
    · exact ⟨p, by simp [hji, hget], ht⟩

theorem timedOut_stable_run (hwf : WF prog a) :
    ∀ (es : List Ev) {s s' : State} {i : Nat} {p : Proc}, Reachable prog cap s →
      s.procs[i]? = some p → timedOut a p = true → runEvents prog cap s es = some s' →
      ∃ p', s'.procs[i]? = some p' ∧ timedOut a p' = true
  | [], s, s', i, p, _, hget, ht, h => by
    simp only [runEvents, Option.some.injEq] at h; subst h; exact ⟨p, hget, ht⟩
  | e :: es, s, s', i, p, hr, hget, ht, h => by
    simp only [runEvents] at h
    cases hn : next prog cap s e with
    | none => simp [hn] at h
    | some s1 =>
      simp only [hn, Option.bind_some] at h
      obtain ⟨p1, hget1, ht1⟩ := timedOut_stable hwf hr hget ht hn
      have hr1 : Reachable prog cap s1 := by
        obtain ⟨es0, h0⟩ := hr
        refine ⟨es0 ++ [e], ?_⟩
        rw [runEvents_append, h0]
        simp [runEvents, hn]
      exact timedOut_stable_run hwf es hr1 hget1 ht1 h


theorem Reachable.next {s s' : State} {e : Ev} (hr : Reachable prog cap s)
    (h : next prog cap s e = some s') : Reachable prog cap s' := by
  obtain ⟨es0, h0⟩ := hr
  refine ⟨es0 ++ [e], ?_⟩
  rw [runEvents_append, h0]
  simp [runEvents, h]

theorem Reachable.run {s s' : State} {es : List Ev} (hr : Reachable prog cap s)
    (h : runEvents prog cap s es = some s') : Reachable prog cap s' := by
  obtain ⟨es0, h0⟩ := hr
  refine ⟨es0 ++ es, ?_⟩
  rw [runEvents_append, h0]
  simpa using h

/-- **clause 2 (`over_limit_status`)**: a query whose wait for a slot timed out never enters its execution phase and never owns a slot, in every continuation of the system; if it has returned, its status is "too many requests". -/
theorem over_limit_status (hwf : WF prog a) {s0 s1 s2 : State} {i : Nat} {es : List Ev}
    (hr : Reachable prog cap s0) (ht : next prog cap s0 (.timeout i) = some s1)
    (hrun : runEvents prog cap s1 es = some s2) :
    ∃ p, s2.procs[i]? = some p ∧ executing a p = false ∧ p.holding = false ∧
      (p.done = none ∨ p.done = some .tooMany) := by
  obtain ⟨p1, hget1, ht1, -, -⟩ := timeout_marks hwf ht
  have hr1 := hr.next ht
  obtain ⟨p2, hget2, ht2⟩ := timedOut_stable_run hwf es hr1 hget1 ht1 hrun
  have hinv2 := inv_reachable hwf (hr1.run hrun)
  obtain ⟨-, h1, h2, -, h4⟩ := (hinv2.phases p2 (List.mem_of_getElem? hget2)).timedOut_rejected ht2
  exact ⟨p2, hget2, h1, h2, h4⟩

/-- clause 2, the answer itself: a timed-out query that has not yet returned can always take its next step, that step is the only thing it can do, it makes the query return with the too-many-requests status and leaves the semaphore untouched. -/
theorem over_limit_answer (hwf : WF prog a) {s : State} {i : Nat} {p : Proc}
    (hr : Reachable prog cap s) (hget : s.procs[i]? = some p) (ht : timedOut a p = true)
    (hd : p.done = none) :
    (∃ s' p', next prog cap s (.step i) = some s' ∧ s'.sem = s.sem ∧
        s'.procs[i]? = some p' ∧ p'.done = some .tooMany) ∧
    (∀ e s', e.proc? = some i → next prog cap s e = some s' → e = .step i) := by
  have hlt : i < s.procs.length := (List.getElem?_eq_some_iff.mp hget).1
  have hinv := inv_reachable hwf hr
  obtain ⟨hpc, -, hh, hdf, -⟩ := (hinv.phases p (List.mem_of_getElem? hget)).timedOut_rejected ht
  have herr : p.err = true := by
    simp only [timedOut, Bool.and_eq_true] at ht; exact ht.1
  have hstep : prog[p.pc]? = some .reject := by rw [hpc]; exact hwf.rej
  constructor
  · refine ⟨{ s with procs := s.procs.set i { p with done := some .tooMany } },
      { p with done := some .tooMany }, ?_, rfl, by simp [hlt], rfl⟩
    simp [next, Ev.proc?, hget, hd, procStep, hstep, herr, retire, hdf]
  · intro e s' hpe h
    obtain ⟨p0, q, take, give, hget0, -, hps, -, -⟩ := next_proc_elim hpe h
    rw [hget] at hget0
    have := Option.some.inj hget0; subst this
    cases e <;> simp [Ev.proc?] at hpe <;> simp [procStep, hstep] at hps
    subst hpe; rfl

/-- only timed-out queries are answered "too many requests" -/
theorem tooMany_only_after_timeout (hwf : WF prog a) {s : State} (hr : Reachable prog cap s)
    {p : Proc} (hp : p ∈ s.procs) (hd : p.done = some .tooMany) : timedOut a p = true :=
  ((inv_reachable hwf hr).phases p hp).tooMany_timedOut hd

end


/-! ### the two regenerated step lists have the shape -/

/-- `engine.(*QueryRunner).run` as regenerated from the source -/
theorem engine_wf : WF engineProg (acqIdx engineProg) := wf_of_check (by decide)

/-- `distributed.(*QueryRunner).run` as regenerated from the source -/
theorem dist_wf : WF distProg (acqIdx distProg) := wf_of_check (by decide)

theorem progOf_wf (r : Runner) : WF (progOf r) (acqIdx (progOf r)) := by
  cases r
  · exact engine_wf
  · exact dist_wf

/-- in both runners the only top-level return after which the query proper runs comes after the deferred release -/
theorem progOf_ret_late (r : Runner) : ∀ j, (progOf r)[j]? = some .ret → acqIdx (progOf r) + 3 ≤ j := by
  have key : ∀ prog : Prog, ((List.range prog.length).all fun j =>
      prog[j]? != some .ret || decide (acqIdx prog + 3 ≤ j)) = true →
      ∀ j, prog[j]? = some .ret → acqIdx prog + 3 ≤ j := by
    intro prog h j hj
    have hlt : j < prog.length := (List.getElem?_eq_some_iff.mp hj).1
    have := (List.all_eq_true.mp h) j (List.mem_range.mpr hlt)
    simpa [hj] using this
  cases r
  · exact key engineProg (by decide)
  · exact key distProg (by decide)

/-- both runners: same three statements in the same order around the acquisition -/
example : (engineProg.drop (acqIdx engineProg)).take 3 = [.acquire, .reject, .deferRelease] ∧
    (distProg.drop (acqIdx distProg)).take 3 = [.acquire, .reject, .deferRelease] := by decide

/-! ### the states the correspondence model prints are reachable states of the system -/

theorem drive_reachable (c : Sched) (i : Nat) (q : Query) :
    ∀ (fuel : Nat) {s : State}, Reachable (progOf c.runner) c.cap s →
      Reachable (progOf c.runner) c.cap (drive c i q fuel s)
  | 0, s, hr => by simpa [drive] using hr
  | fuel + 1, s, hr => by
    simp only [drive]
    split
    · exact hr
    · split
      · exact hr
      · rename_i hn
        exact drive_reachable c i q fuel (hr.next hn)

theorem driveAll_reachable (c : Sched) :
    ∀ (qs : List (Nat × Query)) {s : State}, Reachable (progOf c.runner) c.cap s →
      Reachable (progOf c.runner) c.cap (driveAll c qs s)
  | [], s, hr => by simpa [driveAll] using hr
  | (i, q) :: qs, s, hr => by
    have := driveAll_reachable c qs (drive_reachable c i q 64 hr)
    simpa [driveAll] using this

theorem applyN_reachable {prog : Prog} {cap : Nat} (e : Ev) :
    ∀ (n : Nat) {s : State}, Reachable prog cap s → Reachable prog cap (applyN prog cap e n s)
  | 0, s, hr => by simpa [applyN] using hr
  | n + 1, s, hr => by
    simp only [applyN]
    cases hn : next prog cap s e with
    | none => simpa using applyN_reachable e n hr
    | some s1 => simpa using applyN_reachable e n (hr.next hn)

theorem iterate_reachable {prog : Prog} {cap : Nat} (f : State → State)
    (hf : ∀ s, Reachable prog cap s → Reachable prog cap (f s)) :
    ∀ (n : Nat) {s : State}, Reachable prog cap s → Reachable prog cap (iterate f n s)
  | 0, s, hr => by simpa [iterate] using hr
  | n + 1, s, hr => by simpa [iterate] using iterate_reachable f hf n (hf s hr)

theorem simRun_reachable (b : Burst) :
    Reachable (progOf b.runner) b.cap (simRun b).s1 ∧ Reachable (progOf b.runner) b.cap (simRun b).s3 ∧
      Reachable (progOf b.runner) b.cap (simRun b).sf := by
  have h0 : Reachable (progOf b.runner) b.cap {} := ⟨[], rfl⟩
  have hA := applyN_reachable (prog := progOf b.runner) (cap := b.cap) .extAcq b.held
    (applyN_reachable .spawn b.qs.length h0)
  let closed : Sched := ⟨b.runner, b.cap, !b.gated⟩
  let opened : Sched := ⟨b.runner, b.cap, true⟩
  let idx := (List.range b.qs.length).zip b.qs
  let pat := idx.filter (·.2.patient)
  let imp := idx.filter (!·.2.patient)
  have h1 := driveAll_reachable closed imp (driveAll_reachable closed pat hA)
  have h3 := driveAll_reachable closed pat (applyN_reachable .extRel b.rel h1)
  have hf := iterate_reachable (driveAll opened idx) (fun s hs => driveAll_reachable opened idx hs)
    (b.qs.length + 1) h3
  exact ⟨h1, h3, hf⟩

/-- the model's burst never shows a leak: when all its queries have returned, `final` is what the environment still holds -/
theorem sim_final_no_leak (b : Burst) (hall : ∀ p ∈ (simRun b).sf.procs, p.done.isSome = true) :
    (simRun b).sf.sem = (simRun b).sf.ext :=
  sem_no_leak (progOf_wf b.runner) (simRun_reachable b).2.2 hall

/-- the model's burst never shows a rejected query that executed (`rejx = 0`) -/
theorem sim_rejx_zero (b : Burst) : rejectedButExecuted (simRun b).sf = 0 := by
  have hinv := inv_reachable (progOf_wf b.runner) (simRun_reachable b).2.2
  unfold rejectedButExecuted
  rw [List.countP_eq_zero]
  intro p hp hc
  simp only [Bool.and_eq_true, beq_iff_eq] at hc
  have ht := (hinv.phases p hp).tooMany_timedOut hc.1
  have := ((hinv.phases p hp).timedOut_rejected ht).2.2.2.1
  rw [this] at hc
  exact absurd hc.2 (by simp)

/-- the model's burst never shows more parked (executing) queries than free slots (`p1`, `p3`) -/
theorem sim_parked_bound (b : Burst) :
    parked (progOf b.runner) (simRun b).s1 + (simRun b).s1.ext ≤ b.cap ∧
    parked (progOf b.runner) (simRun b).s3 + (simRun b).s3.ext ≤ b.cap := by
  have key : ∀ s, Reachable (progOf b.runner) b.cap s →
      parked (progOf b.runner) s + s.ext ≤ b.cap := by
    intro s hr
    have hb := sem_bound (progOf_wf b.runner) hr
    have hle : parked (progOf b.runner) s ≤ s.procs.countP (executing (acqIdx (progOf b.runner))) := by
      unfold parked
      apply List.countP_mono_left
      intro p _ hp
      simp only [Bool.and_eq_true, beq_iff_eq] at hp
      have := progOf_ret_late b.runner p.pc hp.2
      simp [executing, hp.1]
      omega
    omega
  exact ⟨key _ (simRun_reachable b).1, key _ (simRun_reachable b).2.1⟩

/-! ### non-vacuity: concrete runs of the regenerated engine program -/

/-- `n` plain steps of query `i` -/
def stepsOf (i n : Nat) : List Ev := List.replicate n (.step i)

/-- capacity 1, three queries: query 0 gets the slot and executes; query 1 times out and is answered "too many requests" while 0 is still executing; query 2 fails at argument validation without touching the semaphore; then 0 finishes and the counter is back to 0. -/
example :
    let pre := acqIdx engineProg
    let evs1 := [Ev.spawn, .spawn, .spawn] ++ stepsOf 0 pre ++ [.got 0, .step 0, .step 0] ++
      stepsOf 1 pre ++ [.timeout 1, .step 1] ++ stepsOf 2 (pre - 1) ++ [.fail 2]
    let evs2 := [Ev.step 0, .step 0, .step 0, .finish 0 .finished]
    ((runEvents engineProg 1 {} evs1).map fun s =>
        (s.sem, s.procs.countP (executing pre), s.procs.map (·.done))) =
      some (1, 1, [none, some .tooMany, some .failed]) ∧
    ((runEvents engineProg 1 {} (evs1 ++ evs2)).map fun s => (s.sem, s.procs.map (·.done))) =
      some (0, [some .finished, some .tooMany, some .failed]) ∧
    -- with the slot taken a second acquisition is not enabled
    (runEvents engineProg 1 {} ([Ev.spawn, .spawn] ++ stepsOf 0 pre ++ [.got 0] ++ stepsOf 1 pre ++ [.got 1])) = none := by
  decide

/-! ### outside the hypothesis: the shapes the well-formedness check excludes do break the property -/

/-- a statement that can return between the limit check and the `defer`: the slot leaks -/
example :
    let bad : Prog := [.acquire, .reject, .mayReturn, .deferRelease, .ret]
    wfCheck bad = false ∧
    ((runEvents bad 1 {} [.spawn, .got 0, .step 0, .fail 0]).map fun s =>
      (s.sem, s.ext, s.procs.map (·.done))) = some (1, 0, [some .failed]) := by
  decide

/-- no rejection after a failed acquisition: a query without a slot executes (2 executing, capacity 1) and its deferred nil release panics -/
example :
    let bad : Prog := [.acquire, .deferRelease, .ret]
    wfCheck bad = false ∧
    ((runEvents bad 1 {} [.spawn, .spawn, .got 0, .step 0, .timeout 1, .step 1]).map fun s =>
      s.procs.countP (executing 0)) = some 2 ∧
    ((runEvents bad 1 {} [.spawn, .timeout 0, .step 0, .finish 0 .finished]).map fun s =>
      s.procs.map (·.done)) = some [some .nilDeferPanic] := by
  decide

end C31
