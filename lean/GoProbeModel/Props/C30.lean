import GoProbeModel.Model.C30
import GoProbeModel.Props.C04

/-!
C30 — property theorems: a `GPDir` reader interleaved with the writer one file operation at a time.
`snapshot`: the block list the reader works with is always the committed content of some moment of
its run; `committed_blocks_stay_readable` / `metadata_grows`: whatever was committed stays readable
at its recorded position while the writer goes on. Built on C04`s invariant `run_ok`.
-/
namespace C30
open DB WO C04

/-! ## the writer of the interleaved run walks through crash states of C04 -/

theorem runHistory_before (hist : List WriteOut) (k n u : Nat) (hu : u ≤ k) :
    runHistory hist (some (k, n)) u = runHistory hist none u := by
  induction u with
  | zero => rfl
  | succ v ih =>
    rw [runHistory_succ, runHistory_succ, ih (by omega)]
    have : stepIndex (some (k, n)) v = stepIndex none v := by
      simp [stepIndex, show v ≠ k by omega]
    rw [this]

/-- invariant of the writer: it has completed write-outs `< k` and `n` operations of write-out `k` -/
def WInv (hist : List WriteOut) (k0 : Nat) (w : Writer) : Prop :=
  w.fs0 = runHistory hist none w.k ∧ k0 ≤ w.k ∧ w.k ≤ hist.length

theorem writer_fs_eq (hist : List WriteOut) (k0 : Nat) (w : Writer) (h : WInv hist k0 w) :
    w.fs hist = runHistory hist (some (w.k, w.n)) (w.k + 1) := by
  unfold Writer.fs
  rw [runHistory_succ, runHistory_before hist w.k w.n w.k (Nat.le_refl _), ← h.1]
  simp [stepIndex]

theorem stepWriter_inv (hist : List WriteOut) (k0 : Nat) (w : Writer) (h : WInv hist k0 w) :
    WInv hist k0 (stepWriter hist w) := by
  unfold stepWriter
  split
  · exact h
  · rename_i hk
    split
    · have h1 := h.2.1; have h2 := h.2.2
      refine ⟨?_, by simp only []; omega, by simp only []; omega⟩
      simp only []
      rw [runHistory_succ, ← h.1]
      simp [stepIndex]
    · exact ⟨h.1, h.2.1, h.2.2⟩

/-- the committed blocks of a day after the first `j` write-outs -/
def stateIds (hist : List WriteOut) (j : Nat) (iface : String) (day : Int) : List Nat :=
  (List.range j).filter fun i => onDay hist i iface day

theorem expectedIds_state (hist : List WriteOut) (k n : Nat) (iface : String) (day : Int) :
    expectedIds hist (some (k, n)) (k + 1) iface day = stateIds hist k iface day ∨
    expectedIds hist (some (k, n)) (k + 1) iface day = stateIds hist (k + 1) iface day := by
  have hpre : (List.range k).filter (fun i => onDay hist i iface day && committedBy hist (some (k, n)) i)
      = stateIds hist k iface day := by
    unfold stateIds
    apply List.filter_congr
    intro i hi
    have : i ≠ k := by have := List.mem_range.1 hi; omega
    simp [committedBy, this]
  unfold expectedIds
  rw [List.range_succ, List.filter_append, hpre]
  by_cases hc : (onDay hist k iface day && committedBy hist (some (k, n)) k) = true
  · right
    unfold stateIds
    rw [List.range_succ, List.filter_append]
    have hon : onDay hist k iface day = true := by
      simp only [Bool.and_eq_true] at hc; exact hc.1
    have hcb : committedBy hist (some (k, n)) k = true := by
      simp only [Bool.and_eq_true] at hc; exact hc.2
    simp [hon, hcb]
  · by_cases hon : onDay hist k iface day = true
    · left; simp [hc]
    · right
      unfold stateIds
      rw [List.range_succ, List.filter_append]
      simp [hc, hon]

/-- what the writer's current state holds for a day is the state after `j` complete write-outs,
    for some `j` between the writer's position and one more -/
theorem writer_day_ids (hist : List WriteOut) (k0 : Nat) (w : Writer) (h : WInv hist k0 w) (hk : w.k < hist.length)
    (iface : String) (day : Int) (d : DayFs) (hd : (w.fs hist).day? iface day = some d) :
    DayOK hist d (d.metaIds.getD []) ∧
    ∃ j, k0 ≤ j ∧ j ≤ hist.length ∧ d.metaIds.getD [] = stateIds hist j iface day := by
  rw [writer_fs_eq hist k0 w h] at hd
  obtain ⟨h1, h2⟩ := (run_ok hist (some (w.k, w.n)) (w.k + 1) (by omega)).1 iface day d hd
  refine ⟨h1, ?_⟩
  rcases expectedIds_state hist w.k w.n iface day with e | e
  · exact ⟨w.k, h.2.1, by omega, by rw [h2, e]⟩
  · exact ⟨w.k + 1, by have := h.2.1; omega, by omega, by rw [h2, e]⟩


theorem writer_day_ids' (hist : List WriteOut) (k0 : Nat) (w : Writer) (h : WInv hist k0 w)
    (iface : String) (day : Int) (d : DayFs) (hd : (w.fs hist).day? iface day = some d) :
    DayOK hist d (d.metaIds.getD []) ∧
    ∃ j, k0 ≤ j ∧ j ≤ hist.length ∧ d.metaIds.getD [] = stateIds hist j iface day := by
  by_cases hk : w.k < hist.length
  · exact writer_day_ids hist k0 w h hk iface day d hd
  · have hke : w.k = hist.length := by have := h.2.2; omega
    have hnone : hist[w.k]? = none := by rw [hke]; simp
    have hfs : w.fs hist = runHistory hist none hist.length := by
      unfold Writer.fs runWriteOut
      rw [hnone, h.1, hke]
    rw [hfs] at hd
    obtain ⟨h1, h2⟩ := (run_ok hist none hist.length (Nat.le_refl _)).1 iface day d hd
    refine ⟨h1, hist.length, by have := h.2.1; omega, Nat.le_refl _, ?_⟩
    rw [h2, no_crash_all_stored]; rfl

/-! ## the reader: its block list is always the committed state of some moment of its run -/

theorem advance_blocks (hist : List WriteOut) (r : Reader) (b c : Nat) : (advance hist r b c).blocks = r.blocks := by
  unfold advance
  split
  · rfl
  · split <;> rfl

/-- a reader step either keeps the block list or replaces it by the metadata stored right now -/
theorem stepReader_blocks (hist : List WriteOut) (iface : String) (day : Int) (fs : Fs) (r : Reader) :
    (stepReader hist iface day fs r).blocks = r.blocks ∨
    ∃ d, fs.day? iface day = some d ∧ (stepReader hist iface day fs r).blocks = d.metaIds.getD [] := by
  unfold stepReader
  cases hd : fs.day? iface day with
  | none =>
    left
    cases r.pc <;> simp only [Option.bind_none, Option.isSome_none, Option.isNone_none, Bool.and_false,
      Bool.false_eq_true, if_false, Bool.and_true]
    all_goals (repeat' split)
    all_goals first | rfl | (simp [advance_blocks]; done)
  | some d =>
    cases hpc : r.pc with
    | done => left; rfl
    | listOpen => left; simp only []; split <;> rfl
    | listClose => left; rfl
    | openMeta =>
      simp only [Option.bind_some]
      split
      · left; rfl
      · split
        · right; exact ⟨d, rfl, rfl⟩
        · left; rfl
    | metaClose => left; simp [advance_blocks]
    | relistOpen st => left; rfl
    | relistClose st =>
      left
      cases st with
      | init => rfl
      | reopen b c => rfl
    | openMeta2 =>
      simp only [Option.bind_some]
      split
      · right; exact ⟨d, rfl, rfl⟩
      · left; rfl
    | opencol b c retry =>
      left
      simp only []
      split
      · simp [advance_blocks]
      · split
        · simp [advance_blocks]
        · rfl
    | closing n =>
      left
      simp only []
      split <;> rfl

/-- state of an interleaved run that `snapshot` is proved about -/
def RInv (hist : List WriteOut) (k0 : Nat) (iface : String) (day : Int) (r : Reader) : Prop :=
  r.blocks = [] ∨ ∃ j, k0 ≤ j ∧ j ≤ hist.length ∧ r.blocks = stateIds hist j iface day

theorem stepReader_inv (hist : List WriteOut) (k0 : Nat) (iface : String) (day : Int) (w : Writer) (r : Reader)
    (hw : WInv hist k0 w) (hr : RInv hist k0 iface day r) :
    RInv hist k0 iface day (stepReader hist iface day (w.fs hist) r) := by
  rcases stepReader_blocks hist iface day (w.fs hist) r with h | ⟨d, hd, h⟩
  · unfold RInv; rw [h]; exact hr
  · obtain ⟨_, j, h1, h2, h3⟩ := writer_day_ids' hist k0 w hw iface day d hd
    right
    exact ⟨j, h1, h2, by rw [h, h3]⟩

theorem runSched_inv (hist : List WriteOut) (k0 : Nat) (iface : String) (day : Int) :
    ∀ (s : List Char) (w : Writer) (r : Reader), WInv hist k0 w → RInv hist k0 iface day r →
      WInv hist k0 (runSched hist iface day s w r).1 ∧ RInv hist k0 iface day (runSched hist iface day s w r).2 := by
  intro s
  induction s with
  | nil => intro w r hw hr; exact ⟨hw, hr⟩
  | cons c s ih =>
    intro w r hw hr
    by_cases hc : c = 'w'
    · subst hc
      exact ih _ _ (stepWriter_inv hist k0 w hw) hr
    · have : runSched hist iface day (c :: s) w r = runSched hist iface day s w (stepReader hist iface day (w.fs hist) r) := by
        simp only [runSched]
      rw [this]
      exact ih _ _ hw (stepReader_inv hist k0 iface day w r hw hr)

theorem finishReader_inv (hist : List WriteOut) (k0 : Nat) (iface : String) (day : Int) (w : Writer) (hw : WInv hist k0 w) :
    ∀ (fuel : Nat) (r : Reader), RInv hist k0 iface day r →
      RInv hist k0 iface day (finishReader hist iface day (w.fs hist) fuel r) := by
  intro fuel
  induction fuel with
  | zero => intro r hr; exact hr
  | succ f ih =>
    intro r hr
    simp only [finishReader]
    split
    · exact hr
    · exact ih _ (stepReader_inv hist k0 iface day w r hw hr)

theorem wInv_start (hist : List WriteOut) (k0 : Nat) (hk : k0 ≤ hist.length) :
    WInv hist k0 { fs0 := (List.range k0).foldl (fun fs i => runWriteOut hist fs i 1000) Fs.empty, k := k0, n := 0 } := by
  refine ⟨?_, Nat.le_refl _, hk⟩
  simp only [runHistory]

/-- **snapshot** (C30): for every history, every number `k0` of write-outs already in the database
    and EVERY interleaving of the reader's and the writer's file operations, the block list the
    reader works with is the committed content of the day after the first `j` write-outs, for some
    `k0 ≤ j ≤ |history|` — a state that existed at some moment of the run — or it is still empty. -/
theorem snapshot (hist : List WriteOut) (k0 : Nat) (hk : k0 ≤ hist.length) (iface : String) (day : Int) (sched : List Char) :
    let start : Writer := { fs0 := (List.range k0).foldl (fun fs i => runWriteOut hist fs i 1000) Fs.empty, k := k0, n := 0 }
    let wr := runSched hist iface day sched start Reader.start
    let r := finishReader hist iface day (wr.1.fs hist) 400 wr.2
    r.blocks = [] ∨ ∃ j, k0 ≤ j ∧ j ≤ hist.length ∧ r.blocks = stateIds hist j iface day := by
  intro start wr r
  have h := runSched_inv hist k0 iface day sched start Reader.start (wInv_start hist k0 hk) (Or.inl rfl)
  exact finishReader_inv hist k0 iface day wr.1 h.1 400 wr.2 h.2


/-! ## the buffers a caller holds stay valid until the read is over -/

theorem advance_opened (hist : List WriteOut) (r : Reader) (b c : Nat) : (advance hist r b c).opened = r.opened := by
  unfold advance
  split
  · rfl
  · split <;> rfl

/-- **buffers_live_until_done** (C30): a column file, once open, stays open — and the buffers the
    caller holds slices of are not handed back to the pool — until the reader is done with the day:
    no step of the reader closes a column file unless it is the `Close` that ends the read. (The
    pinned code closed and re-opened every column file inside `ReadBlockAtIndex` when the directory
    had been renamed, and the retry overwrote the slices already returned for the same block.) -/
theorem buffers_live_until_done (hist : List WriteOut) (iface : String) (day : Int) (fs : Fs) (r : Reader) :
    r.opened <+: (stepReader hist iface day fs r).opened ∨
    (∃ n, r.pc = .closing n ∧ (stepReader hist iface day fs r).pc = .done) := by
  unfold stepReader
  cases hpc : r.pc with
  | closing n =>
    simp only []
    split
    · right; exact ⟨n, rfl, rfl⟩
    · left; exact List.prefix_refl _
  | _ =>
    left
    simp only []
    repeat' split
    all_goals first
      | exact List.prefix_refl _
      | (simp only [advance_opened]; first | exact List.prefix_refl _ | exact List.prefix_append _ _)

/-! ## what was committed stays readable while the writer goes on -/

theorem stateIds_prefix (hist : List WriteOut) (j j' : Nat) (h : j ≤ j') (iface : String) (day : Int) :
    stateIds hist j iface day <+: stateIds hist j' iface day := by
  obtain ⟨m, rfl⟩ : ∃ m, j' = j + m := ⟨j' - j, by omega⟩
  unfold stateIds
  rw [List.range_add, List.filter_append]
  exact List.prefix_append _ _

theorem readable_prefix (hist : List WriteOut) (d : DayFs) (M ids : List Nat) (hp : M <+: ids) (b : Nat) (hb : b < M.length) :
    blockReadable hist d M b = blockReadable hist d ids b := by
  obtain ⟨t, rfl⟩ := hp
  unfold blockReadable
  have h1 : (M ++ t)[b]? = M[b]? := List.getElem?_append_left hb
  have h2 : (M ++ t).take b = M.take b := by
    rw [List.take_append_of_le_length (by omega)]
  rw [h1, h2]

theorem stateIds_valid (hist : List WriteOut) (j : Nat) (hj : j ≤ hist.length) (iface : String) (day : Int) :
    ∀ id ∈ stateIds hist j iface day, (hist[id]?).isSome := by
  intro id hid
  simp only [stateIds, List.mem_filter, List.mem_range] at hid
  have : id < hist.length := by omega
  simp [List.getElem?_eq_getElem this]

/-- **committed_blocks_stay_readable** (C30): a reader that took its block list from the metadata at
    ANY earlier moment (the state after `j` write-outs) finds every one of those blocks, in every
    column, at the recorded position in the files as they are at ANY later moment of the writer's
    progress — column files are append-only below the committed offset. -/
theorem committed_blocks_stay_readable (hist : List WriteOut) (k0 : Nat) (w : Writer) (hw : WInv hist k0 w)
    (iface : String) (day : Int) (d : DayFs) (hd : (w.fs hist).day? iface day = some d)
    (j : Nat) (M : List Nat) (hM : M = stateIds hist j iface day) (hp : M <+: d.metaIds.getD [])
    (b : Nat) (hb : b < M.length) :
    blockReadable hist d M b = true := by
  obtain ⟨hok, j', _, hj', hids⟩ := writer_day_ids' hist k0 w hw iface day d hd
  rw [readable_prefix hist d M _ hp b hb]
  apply readable_of_ok hist d _ hok
  · rw [hids]; exact stateIds_valid hist j' hj' iface day
  · have := hp.length_le; omega

/-- the metadata only ever grows by appending: the list a reader took earlier is a prefix of the
    list of every later moment -/
theorem metadata_grows (hist : List WriteOut) (k0 : Nat) (w : Writer) (hw : WInv hist k0 w)
    (iface : String) (day : Int) (d : DayFs) (hd : (w.fs hist).day? iface day = some d) :
    ∃ j, k0 ≤ j ∧ d.metaIds.getD [] = stateIds hist j iface day ∧
      ∀ j0, j0 ≤ j → stateIds hist j0 iface day <+: d.metaIds.getD [] := by
  obtain ⟨_, j, h1, _, h3⟩ := writer_day_ids' hist k0 w hw iface day d hd
  exact ⟨j, h1, h3, fun j0 hj0 => by rw [h3]; exact stateIds_prefix hist j0 j hj0 iface day⟩

/-! ## non-vacuity and the recorded finding, on a concrete history -/

def c30Hist : List WriteOut :=
  [ { iface := "eth0", ts := 1699920300, drops := 1, flows := [exFlow 100] },
    { iface := "eth0", ts := 1699920600, drops := 0, flows := [exFlow 10] },
    { iface := "eth0", ts := 1699920900, drops := 0, flows := [exFlow 7] } ]

def c30Run (k0 : Nat) (sched : String) : Reader :=
  let start : Writer := { fs0 := (List.range k0).foldl (fun fs i => runWriteOut c30Hist fs i 1000) Fs.empty, k := k0, n := 0 }
  let wr := runSched c30Hist "eth0" 1699920000 sched.toList start Reader.start
  finishReader c30Hist "eth0" 1699920000 (wr.1.fs c30Hist) 400 wr.2


def rep (c : Char) (n : Nat) : List Char := List.replicate n c

def c30RunL (k0 : Nat) (sched : List Char) : Reader :=
  let start : Writer := { fs0 := (List.range k0).foldl (fun fs i => runWriteOut c30Hist fs i 1000) Fs.empty, k := k0, n := 0 }
  let wr := runSched c30Hist "eth0" 1699920000 sched start Reader.start
  finishReader c30Hist "eth0" 1699920000 (wr.1.fs c30Hist) 400 wr.2

-- a reader overtaken by one write-out recovers (re-lists, opens the column under the new name) and returns the state it opened: block 0
example : let r := c30RunL 1 (rep 'r' 5 ++ rep 'w' 25 ++ rep 'r' 30); r.blocks = [0] ∧ r.bad = [] ∧ r.dead = false := by decide +kernel
-- a reader that starts after the second write-out sees both blocks
example : let r := c30RunL 1 (rep 'w' 30 ++ rep 'r' 30); r.blocks = [0, 1] ∧ r.bad = [] ∧ r.dead = false := by decide +kernel
/-- the recorded finding in the model: the reader's single recovery attempt (list the month directory
    again, open under the new name) is itself overtaken by a SECOND rename of the day directory;
    `ReadBlockAtIndex` returns the error and the block is lost for this reader … -/
example : let r := c30RunL 1 (rep 'r' 5 ++ rep 'w' 25 ++ rep 'r' 3 ++ rep 'w' 25 ++ rep 'r' 3); r.blocks = [0] ∧ r.bad = [0] := by decide +kernel
/-- … and likewise the initial `Open`, which then fails altogether -/
example : let r := c30RunL 1 (rep 'r' 2 ++ rep 'w' 25 ++ rep 'r' 3 ++ rep 'w' 25 ++ rep 'r' 3); r.res = some "err:open" := by decide +kernel

end C30
